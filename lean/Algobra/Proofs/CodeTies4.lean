/-
  Proofs/CodeTies4.lean — helper lemmas for Props/CodeTies4.lean: equivalence of the fourth batch of
  MACHINE-TRANSLATED Go functions of `Algobra/Gen/Code.lean` with the hand-written model
  (Model/Field.lean, Model/Auxmath.lean):
    * cores of `binfield.(*Element).Pow`, `primefield.(*Element).Pow` (square-and-multiply with the
      multiplication as a function parameter `method_Mult`),
    * core of `binfield.(*Element).Trace`,
    * `auxmath.Factorize` (in Proofs/CodeTies4Fact.lean).
  Core Lean + the model only.
-/
import Algobra.Gen.Code
import Algobra.Model.Field
import Algobra.Model.Auxmath
import Algobra.Proofs.CodeTies
import Algobra.Proofs.CodeTies2
import Algobra.Proofs.CodeTies3

namespace Algobra
namespace CodeTies4Proofs
open Algobra Algobra.Gen.Code

/-! ### 1. the square-and-multiply loops (four textually equal translated loops) -/

theorem powLoop_zero {α} (mul : α → α → α) (out b : α) : powLoop mul out b 0 = out := by
  rw [powLoop]; simp

theorem powLoop_pos {α} (mul : α → α → α) (out b : α) {n : Nat} (h : n ≠ 0) :
    powLoop mul out b n = powLoop mul (if n % 2 = 1 then mul out b else out) (mul b b) (n / 2) := by
  rw [powLoop]; simp [h]

theorem bin_pow_loop1 (mul : Nat → Nat → Nat) (fuel : Nat) : ∀ n out b, n < 2 ^ fuel →
    (go_binfield_Element_Pow_core_loop1 mul fuel (b, n, out)).2.2 = powLoop mul out b n := by
  induction fuel with
  | zero =>
    intro n out b h
    have : n = 0 := by simpa using h
    subst this
    rw [powLoop_zero]; rfl
  | succ f ih =>
    intro n out b h
    by_cases h0 : n = 0
    · subst h0; rw [powLoop_zero]; simp [go_binfield_Element_Pow_core_loop1]
    · have hpos : n > 0 := Nat.pos_of_ne_zero h0
      have hlt : n / 2 < 2 ^ f := by rw [Nat.pow_succ] at h; omega
      rw [powLoop_pos mul out b h0]
      simp only [go_binfield_Element_Pow_core_loop1, hpos, ↓reduceIte]
      by_cases h1 : n % 2 = 1
      · simp only [h1, ↓reduceIte]; exact ih _ _ _ hlt
      · simp only [h1, ↓reduceIte]; exact ih _ _ _ hlt

theorem bin_pow_loop2 (mul : Nat → Nat → Nat) (fuel : Nat) : ∀ n out b, n < 2 ^ fuel →
    (go_binfield_Element_Pow_core_loop2 mul fuel (b, n, out)).2.2 = powLoop mul out b n := by
  induction fuel with
  | zero =>
    intro n out b h
    have : n = 0 := by simpa using h
    subst this
    rw [powLoop_zero]; rfl
  | succ f ih =>
    intro n out b h
    by_cases h0 : n = 0
    · subst h0; rw [powLoop_zero]; simp [go_binfield_Element_Pow_core_loop2]
    · have hpos : n > 0 := Nat.pos_of_ne_zero h0
      have hlt : n / 2 < 2 ^ f := by rw [Nat.pow_succ] at h; omega
      rw [powLoop_pos mul out b h0]
      simp only [go_binfield_Element_Pow_core_loop2, hpos, ↓reduceIte]
      by_cases h1 : n % 2 = 1
      · simp only [h1, ↓reduceIte]; exact ih _ _ _ hlt
      · simp only [h1, ↓reduceIte]; exact ih _ _ _ hlt

theorem prime_pow_loop1 (mul : Nat → Nat → Nat) (fuel : Nat) : ∀ n out b, n < 2 ^ fuel →
    (go_primefield_Element_Pow_core_loop1 mul fuel (b, n, out)).2.2 = powLoop mul out b n := by
  induction fuel with
  | zero =>
    intro n out b h
    have : n = 0 := by simpa using h
    subst this
    rw [powLoop_zero]; rfl
  | succ f ih =>
    intro n out b h
    by_cases h0 : n = 0
    · subst h0; rw [powLoop_zero]; simp [go_primefield_Element_Pow_core_loop1]
    · have hpos : n > 0 := Nat.pos_of_ne_zero h0
      have hlt : n / 2 < 2 ^ f := by rw [Nat.pow_succ] at h; omega
      rw [powLoop_pos mul out b h0]
      simp only [go_primefield_Element_Pow_core_loop1, hpos, ↓reduceIte]
      by_cases h1 : n % 2 = 1
      · simp only [h1, ↓reduceIte]; exact ih _ _ _ hlt
      · simp only [h1, ↓reduceIte]; exact ih _ _ _ hlt

theorem prime_pow_loop2 (mul : Nat → Nat → Nat) (fuel : Nat) : ∀ n out b, n < 2 ^ fuel →
    (go_primefield_Element_Pow_core_loop2 mul fuel (b, n, out)).2.2 = powLoop mul out b n := by
  induction fuel with
  | zero =>
    intro n out b h
    have : n = 0 := by simpa using h
    subst this
    rw [powLoop_zero]; rfl
  | succ f ih =>
    intro n out b h
    by_cases h0 : n = 0
    · subst h0; rw [powLoop_zero]; simp [go_primefield_Element_Pow_core_loop2]
    · have hpos : n > 0 := Nat.pos_of_ne_zero h0
      have hlt : n / 2 < 2 ^ f := by rw [Nat.pow_succ] at h; omega
      rw [powLoop_pos mul out b h0]
      simp only [go_primefield_Element_Pow_core_loop2, hpos, ↓reduceIte]
      by_cases h1 : n % 2 = 1
      · simp only [h1, ↓reduceIte]; exact ih _ _ _ hlt
      · simp only [h1, ↓reduceIte]; exact ih _ _ _ hlt

/-- the exponent reduction: `wsub card 1 = card - 1` for `1 ≤ card ≤ 2^64` -/
theorem wsub_card {card : Nat} (h1 : 1 ≤ card) (h2 : card ≤ 2 ^ 64) : wsub card 1 = card - 1 := by
  unfold wsub
  have h : card + 2 ^ 64 - 1 % 2 ^ 64 = (card - 1) + 2 ^ 64 := by
    have : (1 : Nat) % 2 ^ 64 = 1 := by decide
    rw [this]; omega
  rw [h, Nat.add_mod_right]
  exact Nat.mod_eq_of_lt (by omega)

/-! ### 2. the `Pow` cores -/

/-- generic form for binfield: any `one`, `zero`, `card` (with `1 ≤ card ≤ 2^64`), start value `a`,
    multiplication `mul`, zero test result `z`; exponent a word -/
theorem bin_pow_gen (one zer : Nat) {card : Nat} (a : Nat) (mul : Nat → Nat → Nat)
    (isZero : Nat → Bool) {k : Nat} (h1 : 1 ≤ card) (h2 : card ≤ 2 ^ 64) (hk : k < 2 ^ 64) :
    go_binfield_Element_Pow_core one zer card a mul (isZero a) k
      = genericPow card zer one isZero mul a k := by
  unfold go_binfield_Element_Pow_core genericPow
  by_cases hz : isZero a = true
  · simp only [hz, ↓reduceIte]
  · simp only [hz, Bool.false_eq_true, ↓reduceIte, wsub_card h1 h2]
    by_cases hc : k ≥ card
    · simp only [hc, ↓reduceIte]
      have hlt : k % (card - 1) < 2 ^ 64 := Nat.lt_of_le_of_lt (Nat.mod_le _ _) hk
      exact bin_pow_loop1 mul loopFuel _ one a (CodeTiesProofs.lt_two_pow_fuel hlt)
    · simp only [hc, ↓reduceIte]
      exact bin_pow_loop2 mul loopFuel _ one a (CodeTiesProofs.lt_two_pow_fuel hk)

theorem prime_pow_gen (el : Nat → Nat) {card : Nat} (a : Nat) (mul : Nat → Nat → Nat)
    (isZero : Nat → Bool) {k : Nat} (h1 : 1 ≤ card) (h2 : card ≤ 2 ^ 64) (hk : k < 2 ^ 64) :
    go_primefield_Element_Pow_core el card a mul (isZero a) k
      = genericPow card (el 0) (el 1) isZero mul a k := by
  unfold go_primefield_Element_Pow_core genericPow
  by_cases hz : isZero a = true
  · simp only [hz, ↓reduceIte]
  · simp only [hz, Bool.false_eq_true, ↓reduceIte, wsub_card h1 h2]
    by_cases hc : k ≥ card
    · simp only [hc, ↓reduceIte]
      have hlt : k % (card - 1) < 2 ^ 64 := Nat.lt_of_le_of_lt (Nat.mod_le _ _) hk
      exact prime_pow_loop1 mul loopFuel _ (el 1) a (CodeTiesProofs.lt_two_pow_fuel hlt)
    · simp only [hc, ↓reduceIte]
      exact prime_pow_loop2 mul loopFuel _ (el 1) a (CodeTiesProofs.lt_two_pow_fuel hk)

theorem bin_card_bounds {n : Nat} (hn : n ≤ 63) : 1 ≤ Bin.card n ∧ Bin.card n ≤ 2 ^ 64 := by
  unfold Bin.card
  have hlt : 2 ^ n < 2 ^ 64 := Nat.pow_lt_pow_right (by decide) (by omega)
  rw [Nat.shiftLeft_eq, Nat.one_mul, CodeTiesProofs.w64_of_lt hlt]
  exact ⟨Nat.one_le_two_pow, Nat.le_of_lt hlt⟩

theorem bin_pow {n m a k : Nat} (hn : n ≤ 63) (hk : k < 2 ^ 64) :
    go_binfield_Element_Pow_core 1 0 (Bin.card n) a (Bin.mul n m) (a == 0) k = Bin.pow n m a k :=
  bin_pow_gen 1 0 a (Bin.mul n m) (· == 0) (bin_card_bounds hn).1 (bin_card_bounds hn).2 hk

theorem prime_pow {p a k : Nat} (hp1 : 1 ≤ p) (hp2 : p ≤ 2 ^ 64) (hk : k < 2 ^ 64) :
    go_primefield_Element_Pow_core (Prime.element p) p a (Prime.mul p) (a == 0) k
      = Prime.pow p a k :=
  prime_pow_gen (Prime.element p) a (Prime.mul p) (· == 0) hp1 hp2 hk

/-! ### 3. the `Trace` core -/

theorem trace_loop (ext a : Nat) (add pw : Nat → Nat → Nat) (hext : ext < 2 ^ 64) (fuel : Nat) :
    ∀ i out, 1 ≤ i → i ≤ ext ∨ ext = 0 → ext - i ≤ fuel →
      (go_binfield_Element_Trace_core_loop1 ext a add pw fuel (i, out)).2
        = (List.range (ext - i)).foldl (fun o _ => add (pw o 2) a) out := by
  induction fuel with
  | zero =>
    intro i out _ _ hf
    have : ext - i = 0 := by omega
    rw [this]; rfl
  | succ f ih =>
    intro i out hi hie hf
    by_cases hlt : i < ext
    · have hw : w64 (i + 1) = i + 1 := CodeTiesProofs.w64_of_lt (by omega)
      have hs : ext - i = (ext - (i + 1)) + 1 := by omega
      simp only [go_binfield_Element_Trace_core_loop1, hlt, ↓reduceIte, hw]
      rw [ih (i + 1) _ (by omega) (Or.inl (by omega)) (by omega), hs, List.range_succ_eq_map,
        List.foldl_cons, List.foldl_map]
    · have : ext - i = 0 := by omega
      simp only [go_binfield_Element_Trace_core_loop1, hlt, ↓reduceIte, this, List.range_zero,
        List.foldl_nil]

theorem traceLoop_eq_foldl (n m a : Nat) (k : Nat) : ∀ out,
    Bin.traceLoop n m a out k
      = (List.range k).foldl (fun o _ => Bin.pow n m o 2 ^^^ a) out := by
  induction k with
  | zero => intro out; rfl
  | succ k ih =>
    intro out
    rw [Bin.traceLoop, ih, List.range_succ_eq_map, List.foldl_cons, List.foldl_map]

/-- generic form: any start value (`a.Copy()`), any `Pow`/`Add` methods -/
theorem trace_gen (c a : Nat) (add pw : Nat → Nat → Nat) {ext : Nat} (hext : ext < 2 ^ 64) :
    go_binfield_Element_Trace_core c pw a add ext
      = (List.range (ext - 1)).foldl (fun o _ => add (pw o 2) a) c := by
  unfold go_binfield_Element_Trace_core
  have hf : ext - 1 ≤ loopFuel := by unfold loopFuel; omega
  exact trace_loop ext a add pw hext loopFuel 1 c (Nat.le_refl 1) (by omega) hf

theorem bin_trace {n m a : Nat} (hn : n < 2 ^ 64) :
    go_binfield_Element_Trace_core a (Bin.pow n m) a (fun x y => x ^^^ y) n = Bin.trace n m a := by
  rw [trace_gen a a _ _ hn, Bin.trace, traceLoop_eq_foldl]

/-! ### 4. composition with the translated `Prod` cores (`Mult(b)` is `a.Prod(a, b)`) -/

/-- the square-and-multiply loop only applies `mul` to values reachable from `out`, `b` -/
theorem powLoop_congr {α} (P : α → Prop) (mul1 mul2 : α → α → α)
    (h : ∀ x y, P x → P y → mul1 x y = mul2 x y) (hP : ∀ x y, P x → P y → P (mul2 x y)) (n : Nat) :
    ∀ out b, P out → P b → powLoop mul1 out b n = powLoop mul2 out b n := by
  induction n using Nat.strongRecOn with
  | _ n ih =>
    intro out b ho hb
    by_cases h0 : n = 0
    · subst h0; rw [powLoop_zero, powLoop_zero]
    · rw [powLoop_pos mul1 out b h0, powLoop_pos mul2 out b h0, h out b ho hb, h b b hb hb]
      apply ih (n / 2) (by omega)
      · by_cases h1 : n % 2 = 1
        · simp only [h1, ↓reduceIte]; exact hP _ _ ho hb
        · simp only [h1, ↓reduceIte]; exact ho
      · exact hP _ _ hb hb

theorem genericPow_congr {α} (P : α → Prop) (card : Nat) (zero one : α) (isZero : α → Bool)
    (mul1 mul2 : α → α → α) (h : ∀ x y, P x → P y → mul1 x y = mul2 x y)
    (hP : ∀ x y, P x → P y → P (mul2 x y)) (a : α) (n : Nat) (h1 : P one) (ha : P a) :
    genericPow card zero one isZero mul1 a n = genericPow card zero one isZero mul2 a n := by
  unfold genericPow
  by_cases hz : isZero a = true
  · simp only [hz, ↓reduceIte]
  · simp only [hz, Bool.false_eq_true, ↓reduceIte]
    exact powLoop_congr P mul1 mul2 h hP _ _ _ h1 ha

theorem mulLoop_lt (n m : Nat) (x : Nat) : ∀ res y, res < 2 ^ 64 → Bin.mulLoop n m res x y < 2 ^ 64 := by
  induction x using Nat.strongRecOn with
  | _ x ih =>
    intro res y hres
    rw [Bin.mulLoop]
    by_cases hx0 : x = 0
    · simp only [hx0, ↓reduceDIte]; exact hres
    · simp only [hx0, ↓reduceDIte]
      exact ih (x / 2) (by omega) _ _ (CodeTies3Proofs.xor_w64_lt hres _)

/-- `Bin.mul` returns a word, for all arguments -/
theorem bin_mul_lt (n m a b : Nat) : Bin.mul n m a b < 2 ^ 64 :=
  mulLoop_lt n m a 0 b (Nat.two_pow_pos 64)

/-- `Pow` with `Mult` = the translated `Prod` core applied to `(x, x, y)` -/
theorem bin_pow_composed {n m a k : Nat} (hn : n ≤ 63) (ha : a < 2 ^ 64) (hk : k < 2 ^ 64) :
    go_binfield_Element_Pow_core 1 0 (Bin.card n) a
        (fun x y => go_binfield_Element_Prod_core x x y n m) (a == 0) k = Bin.pow n m a k := by
  rw [bin_pow_gen 1 0 a _ (· == 0) (bin_card_bounds hn).1 (bin_card_bounds hn).2 hk, Bin.pow]
  exact genericPow_congr (· < 2 ^ 64) _ _ _ _ _ _
    (fun x y hx _ => CodeTies2Proofs.bin_prod x y n m hx) (fun x y _ _ => bin_mul_lt n m x y) a k
    (by decide) ha

theorem prime_pow_composed {p a k : Nat} (lookup : Nat → Nat → Nat) (hp1 : 1 ≤ p) (hp2 : p ≤ 2 ^ 64)
    (hk : k < 2 ^ 64) :
    go_primefield_Element_Pow_core (Prime.element p) p a
        (fun x y => go_primefield_Element_Prod_core x x y lookup p false (decide (x = 0))
          (decide (y = 0))) (a == 0) k = Prime.pow p a k := by
  have : (fun x y => go_primefield_Element_Prod_core x x y lookup p false (decide (x = 0))
      (decide (y = 0))) = Prime.mul p := by
    funext x y; exact CodeTies2Proofs.prime_prod x x y lookup p
  rw [this]; exact prime_pow hp1 hp2 hk

/-! ### 5. `Auxmath.factorize` does not depend on its fuel once `n < 2^fuel` -/

namespace Fuel

theorem divOut_snd_le (n : Nat) : ∀ p e, (Auxmath.divOut n p e).2 ≤ n := by
  induction n using Nat.strongRecOn with
  | _ n ih =>
    intro p e
    rw [Auxmath.divOut]
    by_cases h : p ≤ 1 ∨ n = 0
    · simp only [h, ↓reduceDIte]; exact Nat.le_refl n
    · simp only [h, ↓reduceDIte]
      by_cases hm : n % p = 0
      · simp only [hm, ↓reduceIte]
        have hlt : n / p < n := Nat.div_lt_self (by omega) (by omega)
        exact Nat.le_trans (ih _ hlt p (e + 1)) (Nat.le_of_lt hlt)
      · simp only [hm, ↓reduceIte]; exact Nat.le_refl n

theorem divOut_snd_half {n p : Nat} (e : Nat) (hp : 2 ≤ p) (hn : 0 < n) (hm : n % p = 0) :
    (Auxmath.divOut n p e).2 ≤ n / 2 := by
  rw [Auxmath.divOut]
  have h : ¬ (p ≤ 1 ∨ n = 0) := by omega
  simp only [h, ↓reduceDIte, hm, ↓reduceIte]
  refine Nat.le_trans (divOut_snd_le _ p (e + 1)) ?_
  exact Nat.div_le_div_left hp (by omega)

theorem divOut_snd_pos (n : Nat) : ∀ p e, 0 < n → 0 < (Auxmath.divOut n p e).2 := by
  induction n using Nat.strongRecOn with
  | _ n ih =>
    intro p e hn
    rw [Auxmath.divOut]
    by_cases h : p ≤ 1 ∨ n = 0
    · rw [dif_pos h]; exact hn
    · rw [dif_neg h]
      by_cases hm : n % p = 0
      · rw [if_pos hm]
        have hlt : n / p < n := Nat.div_lt_self (by omega) (by omega)
        have hpos : 0 < n / p := Nat.div_pos (Nat.le_of_dvd hn (Nat.dvd_of_mod_eq_zero hm)) (by omega)
        exact ih _ hlt p (e + 1) hpos
      · rw [if_neg hm]; exact hn

theorem factScan_spec (n maxF : Nat) : ∀ k, 6 ≤ k → Auxmath.factScan n maxF k = 0 ∨
    (2 ≤ Auxmath.factScan n maxF k ∧ n % Auxmath.factScan n maxF k = 0) := by
  intro k
  induction h : maxF + 7 - k using Nat.strongRecOn generalizing k with
  | _ d ih =>
    intro hk
    rw [Auxmath.factScan]
    by_cases h1 : k - 1 ≤ maxF
    · rw [dif_pos h1]
      by_cases h2 : n % (k - 1) = 0
      · rw [if_pos h2]; exact Or.inr ⟨by omega, h2⟩
      · rw [if_neg h2]
        by_cases h3 : n % (k + 1) = 0
        · rw [if_pos h3]; exact Or.inr ⟨by omega, h3⟩
        · rw [if_neg h3]
          exact ih (maxF + 7 - (k + 6)) (by omega) (k + 6) rfl (by omega)
    · rw [dif_neg h1]; exact Or.inl rfl

theorem factorize_zero (f : Nat) : Auxmath.factorize (f + 1) 0 = [(0, 1)] := by
  simp [Auxmath.factorize]

theorem factorize_fuel_indep_pos (fuel : Nat) : ∀ fuel' n, 1 ≤ n → n < 2 ^ fuel → n < 2 ^ fuel' →
    Auxmath.factorize fuel n = Auxmath.factorize fuel' n := by
  induction fuel with
  | zero =>
    intro fuel' n hn h h'
    have : n < 1 := by simpa using h
    omega
  | succ f ih =>
    intro fuel' n hn h h'
    cases fuel' with
    | zero =>
      have : n < 1 := by simpa using h'
      omega
    | succ f' =>
      simp only [Auxmath.factorize]
      have h0 : n ≠ 0 := by omega
      by_cases h1 : n = 1
      · simp only [h1, ↓reduceIte]
      · simp only [h0, h1, ↓reduceIte]
        -- the chosen divisor
        have hp : ∀ p, p = (if n % 2 = 0 then 2 else if n % 3 = 0 then 3
            else Auxmath.factScan n (Auxmath.boundSqrt n) 6) → p = 0 ∨ (2 ≤ p ∧ n % p = 0) := by
          intro p hp
          by_cases h2 : n % 2 = 0
          · rw [if_pos h2] at hp; subst hp; exact Or.inr ⟨by decide, h2⟩
          · by_cases h3 : n % 3 = 0
            · rw [if_neg h2, if_pos h3] at hp; subst hp; exact Or.inr ⟨by decide, h3⟩
            · rw [if_neg h2, if_neg h3] at hp; subst hp
              exact factScan_spec n _ 6 (by decide)
        generalize hpe : (if n % 2 = 0 then 2 else if n % 3 = 0 then 3
            else Auxmath.factScan n (Auxmath.boundSqrt n) 6) = p
        rcases hp p hpe.symm with hz | ⟨hp2, hm⟩
        · simp only [hz, ↓reduceIte]
        · have hp0 : p ≠ 0 := by omega
          simp only [hp0, ↓reduceIte]
          have hhalf := divOut_snd_half 0 hp2 (by omega) hm
          have hpos := divOut_snd_pos n p 0 (by omega)
          have hlt : (Auxmath.divOut n p).2 < 2 ^ f := by
            rw [Nat.pow_succ] at h; omega
          have hlt' : (Auxmath.divOut n p).2 < 2 ^ f' := by
            rw [Nat.pow_succ] at h'; omega
          rw [ih f' _ hpos hlt hlt']

/-- for a word, every fuel from 64 on gives the same factorization -/
theorem factorize_fuel_64 {fuel n : Nat} (hf : 64 ≤ fuel) (hn : n < 2 ^ 64) :
    Auxmath.factorize fuel n = Auxmath.factorize 64 n := by
  by_cases h0 : n = 0
  · subst h0
    obtain ⟨f, rfl⟩ : ∃ f, fuel = f + 1 := ⟨fuel - 1, by omega⟩
    rw [factorize_zero, factorize_zero 63]
  · exact factorize_fuel_indep_pos fuel 64 n (by omega)
      (Nat.lt_of_lt_of_le hn (Nat.pow_le_pow_right (by decide) hf)) hn

end Fuel

end CodeTies4Proofs
end Algobra
