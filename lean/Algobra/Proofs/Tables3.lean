import Algobra.Proofs.Tables2

namespace Algobra
namespace Tables
section UPart
open UPoly

section ParseU
variable {α : Type} {F F' : FOps α} {V : α → Prop}

/-- all values of an association list valid -/
def AllM {κ : Type} (V : α → Prop) (m : List (κ × α)) : Prop := ∀ x ∈ m, V x.2

variable (hA : OpsAgree F F' V) (hC : Closed F V)
include hA hC

theorem mapAdd_par {κ : Type} [BEq κ] {m : List (κ × α)} (hm : AllM V m) (k : κ) {c : α} (hc : V c) :
    mapAdd F' m k c = mapAdd F m k c ∧ AllM V (mapAdd F m k c) := by
  unfold mapAdd
  split
  · constructor
    · apply List.map_congr_left
      intro x hx
      obtain ⟨k', v⟩ := x
      simp only
      split
      · rw [hA.add v c (hm _ hx) hc]
      · rfl
    · intro y hy
      obtain ⟨x, hx, rfl⟩ := List.mem_map.1 hy
      obtain ⟨k', v⟩ := x
      simp only
      split
      · exact hC.add v c (hm _ hx) hc
      · exact hm _ hx
  · refine ⟨rfl, fun y hy => ?_⟩
    rcases List.mem_append.1 hy with h | h
    · exact hm y h
    · rw [List.mem_singleton] at h; rw [h]; exact hc

theorem ugo_par (hparse : ∀ str v, F.parse str = .ok v → V v) :
    ∀ (l : List (Array String)) (out : List (Nat × α)), AllM V out →
      stringToMapRx.go F' l out = stringToMapRx.go F l out ∧
      ∀ m, stringToMapRx.go F l out = .ok m → AllM V m := by
  intro l
  induction l with
  | nil => intro out ho; exact ⟨rfl, fun m h => by cases h; exact ho⟩
  | cons g t ih =>
    intro out ho
    have fin : ∀ (d : Nat) (c : α), V c →
        stringToMapRx.go F' t (mapAdd F' out d c) = stringToMapRx.go F t (mapAdd F out d c) ∧
        ∀ m, stringToMapRx.go F t (mapAdd F out d c) = .ok m → AllM V m := by
      intro d c hc
      obtain ⟨e, hv⟩ := mapAdd_par hA hC ho d hc
      rw [e]; exact ih _ hv
    simp only [stringToMapRx.go, hA.parse, hA.one]
    split
    · exact ⟨rfl, fun m h => by cases h⟩
    · split
      · exact ⟨rfl, fun m h => by cases h⟩
      · split
        · exact ⟨rfl, fun m h => by cases h⟩
        · split
          · exact ⟨rfl, fun m h => by cases h⟩
          · rename_i h1 h2 ce c hce de d hde
            have hc : V c := by
              split at hce
              · cases hce; exact hC.one
              · split at hce
                · next v hp => cases hce; exact hparse _ _ hp
                · cases hce
            split
            · rw [hA.neg _ hc]; exact fin _ _ (hC.neg _ hc)
            · exact fin _ _ hc

theorem ustringToMapRx_par (hparse : ∀ str v, F.parse str = .ok v → V v) (varName s : String) :
    stringToMapRx F' varName s = stringToMapRx F varName s ∧
      ∀ m, stringToMapRx F varName s = .ok m → AllM V m := by
  have hnil : AllM V ([] : List (Nat × α)) := fun _ h => by cases h
  unfold stringToMapRx
  rw [hA.regex]
  dsimp only
  split
  · exact ⟨rfl, fun m h => by cases h⟩
  · split_ifs with ht
    · exact ⟨rfl, fun m h => by cases h⟩
    · exact ugo_par hA hC hparse _ _ hnil

theorem ustringToMap_par (hparse : ∀ str v, F.parse str = .ok v → V v) (varName s : String) :
    stringToMap F' varName s = stringToMap F varName s ∧
      ∀ m, stringToMap F varName s = .ok m → AllM V m := by
  have hnil : AllM V ([] : List (Nat × α)) := fun _ h => by cases h
  unfold stringToMap directOK
  rw [hA.ownVar]
  split_ifs with hd
  · split
    · exact ⟨rfl, fun m h => by cases h⟩
    · exact ugo_par hA hC hparse _ _ hnil
  · exact ustringToMapRx_par hA hC hparse varName s

theorem uparse_par {R : UPoly.Ring α} (hR : RingOK F V R)
    (hparse : ∀ str v, F.parse str = .ok v → V v) (s : String) :
    UPoly.parse (withF R F') s = UPoly.parse R s ∧
      ∀ o, UPoly.parse R s = .ok o → OptV V o := by
  unfold UPoly.parse
  have hF' : (withF R F').F = F' := rfl
  have hv' : (withF R F').varName = R.varName := rfl
  rw [hF', hv', hR.hF]
  obtain ⟨e, hv⟩ := ustringToMap_par hA hC hparse R.varName s
  rw [e]
  cases hm : stringToMap F R.varName s with
  | error k => exact ⟨rfl, fun o h => by cases h⟩
  | ok m =>
    obtain ⟨e2, hv2⟩ := foldl_par (AllV V) (fun x : Nat × α => V x.2)
      (fun f (x : Nat × α) => setCoef F f x.1 x.2) (fun f (x : Nat × α) => setCoef F' f x.1 x.2)
      (fun f x hf hx => setCoef_par hA hC hf x.1 hx) m (UPoly.zero F) (hv m hm) (zero_V hC)
    simp only [zero_congr hA] at e2 ⊢
    rw [e2]
    obtain ⟨e3, hv3⟩ := reduceIn_par hA hC hR hv2
    rw [e3]
    exact ⟨rfl, fun o h => by cases h; exact hv3⟩

end ParseU

/-! ### `step` on `uCtor … "str"`; the complete univariate layer -/
section StepUStr
variable {α : Type} {env env' : Env α} {V : Nat → α → Prop} (h : EnvAgreeU env env' V)
include h

theorem step_uStr_agree (desc : FieldDesc) {s : St α} (hs : StoreOKU V s) (dst ring : Nat)
    (arg : String) :
    step env' desc s (.uCtor dst ring "str" arg) = step env desc s (.uCtor dst ring "str" arg) ∧
      StoreOKU V (step env desc s (.uCtor dst ring "str" arg)).1 := by
  have A := h.base.agree 0
  have C := h.base.closed 0
  have hR := h.ringOK ring
  have hF' : (uring env' ring).F = env'.fld 0 := by unfold uring; rw [h.ring']; rfl
  have hF : (uring env ring).F = env.fld 0 := hR.hF
  have hu' : uring env' ring = withF (uring env ring) (env'.fld 0) := h.ring' ring
  simp only [step, stepE, stepU, String.reduceBEq, Bool.false_eq_true, if_false, if_true, hF', hF]
  rw [hu']
  obtain ⟨e, hv⟩ := uparse_par A C (R := uring env ring) hR (h.parse 0) (unhex arg)
  rw [e]
  cases hp : UPoly.parse (uring env ring) (unhex arg) with
  | error k =>
    rw [zero_congr A]
    exact ⟨rfl, hs.setU dst _ (zero_V C)⟩
  | ok o =>
    cases o with
    | none =>
      rw [zero_congr A]
      exact putU h hs dst (r := { home := ring, val := UPoly.zero (env.fld 0), err := .kind .internal })
        rfl (zero_V C) _
    | some v => exact putU h hs dst (r := { home := ring, val := v }) rfl (hv _ hp v rfl) _

omit h in
/-- ALL univariate operations except the raw decoder `uCtor … "coefs"` -/
def uOpAll : Op → Bool
  | .uCtor _ _ how _ => how != "coefs"
  | op => uOp op

omit h in
theorem uCtor_how_cases (dst ring : Nat) (how arg : String) (hne : how ≠ "coefs") :
    uOp (.uCtor dst ring how arg) = true ∨ how = "str" ∨
      (∀ (env : Env α) (s : St α), stepU env s (.uCtor dst ring how arg) = none) := by
  by_cases h1 : uOp (.uCtor dst ring how arg) = true
  · exact Or.inl h1
  · by_cases h2 : how = "str"
    · exact Or.inr (Or.inl h2)
    · refine Or.inr (Or.inr fun env s => ?_)
      simp only [uOp, Bool.or_eq_true, beq_iff_eq, not_or] at h1
      obtain ⟨⟨⟨⟨⟨a1, a2⟩, a3⟩, a4⟩, a5⟩, a6⟩ := h1
      simp only [stepU, beq_iff_eq, hne, a1, a2, a3, a4, a5, a6, h2, if_false]

theorem step_uOpAll_agree (desc : FieldDesc) {s : St α} (hs : StoreOKU V s) (op : Op)
    (hop : uOpAll op = true) :
    step env' desc s op = step env desc s op ∧ StoreOKU V (step env desc s op).1 := by
  cases op
  case uCtor dst ring how arg =>
    simp only [uOpAll, bne_iff_ne, ne_eq] at hop
    rcases uCtor_how_cases (α := α) dst ring how arg hop with h1 | rfl | h3
    · exact step_uOp_agree h desc hs _ h1
    · exact step_uStr_agree h desc hs dst ring arg
    · have e : ∀ env : Env α, step env desc s (.uCtor dst ring how arg) = (s, "bad-op") := by
        intro env
        simp only [step, stepE, h3, stepB, stepT]
      rw [e, e]
      exact ⟨rfl, hs⟩
  all_goals exact step_uOp_agree h desc hs _ hop

end StepUStr
end UPart

/-! ## bivariate polynomials: congruence and closure -/
namespace B
open BPoly

section Par
variable {α : Type} {F F' : FOps α} {V : α → Prop}

omit F F' in
theorem AllM.append' {κ : Type} {f g : List (κ × α)} (hf : AllM V f) (hg : AllM V g) : AllM V (f ++ g) := by
  intro c hc
  rcases List.mem_append.1 hc with h | h
  · exact hf c h
  · exact hg c h

theorem nil_V : AllM V ([] : BPoly α) := fun _ h => by cases h

theorem erase_V {f : BPoly α} (hf : AllM V f) (d : Deg) : AllM V (erase f d) :=
  fun x hx => hf x (List.mem_of_mem_filter hx)

theorem put_V {f : BPoly α} (hf : AllM V f) (d : Deg) {v : α} (hv : V v) : AllM V (put f d v) := by
  unfold put
  split
  · intro y hy
    obtain ⟨x, hx, rfl⟩ := List.mem_map.1 hy
    obtain ⟨k, c⟩ := x
    simp only
    split
    · exact hv
    · exact hf _ hx
  · exact AllM.append' hf (fun x hx => by rw [List.mem_singleton] at hx; rw [hx]; exact hv)

variable (hA : OpsAgree F F' V) (hC : Closed F V)
include hA

theorem coef_congr (f : BPoly α) (d : Deg) : coef F' f d = coef F f d := by
  unfold coef; rw [hA.zero]

omit hA in
include hC in
theorem coef_V {f : BPoly α} (hf : AllM V f) (d : Deg) : V (coef F f d) := by
  unfold coef
  split
  · next k c h => exact hf _ (List.mem_of_find?_eq_some h)
  · exact hC.zero

theorem lc_congr (o : Order) (f : BPoly α) : lc F' o f = lc F o f := by
  unfold lc; rw [coef_congr hA]

omit hA in
include hC in
theorem lc_V (o : Order) {f : BPoly α} (hf : AllM V f) : V (lc F o f) := coef_V hC hf _

theorem sortedTerms_congr (o : Order) (f : BPoly α) : sortedTerms F' o f = sortedTerms F o f := by
  unfold sortedTerms; simp only [coef_congr hA]

theorem equal_congr (f g : BPoly α) : equal F' f g = equal F f g := by
  unfold equal; simp only [coef_congr hA, hA.beq]

include hC

omit hC in
theorem setCoef_par {f : BPoly α} (hf : AllM V f) (d : Deg) {v : α} (hv : V v) :
    setCoef F' f d v = setCoef F f d v ∧ AllM V (setCoef F f d v) := by
  unfold setCoef
  rw [hA.isZero]
  split
  · exact ⟨rfl, erase_V hf d⟩
  · exact ⟨rfl, put_V hf d hv⟩

theorem incCoef_par {f : BPoly α} (hf : AllM V f) (d : Deg) {v : α} (hv : V v) :
    incCoef F' f d v = incCoef F f d v ∧ AllM V (incCoef F f d v) := by
  unfold incCoef
  have hc := coef_V hC hf d
  simp only [hA.isZero, coef_congr hA, hA.add _ _ hc hv, true_and]
  split
  · exact hf
  · split
    · split
      · exact erase_V hf d
      · exact put_V hf d (hC.add _ _ hc hv)
    · exact AllM.append' hf (fun x hx => by rw [List.mem_singleton] at hx; rw [hx]; exact hv)

theorem decCoef_par {f : BPoly α} (hf : AllM V f) (d : Deg) {v : α} (hv : V v) :
    decCoef F' f d v = decCoef F f d v ∧ AllM V (decCoef F f d v) := by
  unfold decCoef
  have hc := coef_V hC hf d
  simp only [hA.isZero, coef_congr hA, hA.sub _ _ hc hv, hA.neg _ hv, true_and]
  split
  · exact hf
  · split
    · split
      · exact erase_V hf d
      · exact put_V hf d (hC.sub _ _ hc hv)
    · exact AllM.append' hf (fun x hx => by
        rw [List.mem_singleton] at hx; rw [hx]; exact hC.neg _ hv)

theorem add_par {f g : BPoly α} (hf : AllM V f) (hg : AllM V g) :
    add F' f g = add F f g ∧ AllM V (add F f g) := by
  unfold add
  exact foldl_par (AllM V) (fun x : Deg × α => V x.2) _ _
    (fun acc x ha hx => incCoef_par hA hC ha x.1 hx) g f hg hf

theorem sub_par {f g : BPoly α} (hf : AllM V f) (hg : AllM V g) :
    sub F' f g = sub F f g ∧ AllM V (sub F f g) := by
  unfold sub
  exact foldl_par (AllM V) (fun x : Deg × α => V x.2) _ _
    (fun acc x ha hx => decCoef_par hA hC ha x.1 hx) g f hg hf

theorem neg_par {f : BPoly α} (hf : AllM V f) :
    neg F' f = neg F f ∧ AllM V (neg F f) := by
  unfold neg
  constructor
  · exact List.map_congr_left fun x hx => by
      obtain ⟨d, c⟩ := x
      show (d, F'.neg c) = (d, F.neg c)
      rw [hA.neg c (hf _ hx)]
  · intro y hy
    obtain ⟨x, hx, rfl⟩ := List.mem_map.1 hy
    exact hC.neg _ (hf x hx)

theorem scale_par {f : BPoly α} (hf : AllM V f) {c : α} (hc : V c) :
    scale F' f c = scale F f c ∧ AllM V (scale F f c) := by
  unfold scale
  rw [hA.isZero]
  split
  · exact ⟨rfl, nil_V⟩
  · constructor
    · exact List.map_congr_left fun x hx => by
        obtain ⟨d, a⟩ := x
        show (d, F'.mul a c) = (d, F.mul a c)
        rw [hA.mul a c (hf _ hx) hc]
    · intro y hy
      obtain ⟨x, hx, rfl⟩ := List.mem_map.1 hy
      exact hC.mul _ _ (hf x hx) hc

/-- optional polynomial valid -/
def OptM (V : α → Prop) (o : Option (BPoly α)) : Prop := ∀ v, o = some v → AllM V v

theorem mulNoReduce_par {f g : BPoly α} (hf : AllM V f) (hg : AllM V g) :
    mulNoReduce F' f g = mulNoReduce F f g ∧ OptM V (mulNoReduce F f g) := by
  unfold mulNoReduce
  refine foldl_par (OptM V) (fun x : Deg × α => V x.2) _ _ (fun acc x hacc hx => ?_) f (some [])
    hf (fun v h => by cases h; exact nil_V)
  obtain ⟨df, cf⟩ := x
  refine foldl_par (OptM V) (fun y : Deg × α => V y.2) _ _ (fun acc y hacc hy => ?_) g acc hg hacc
  obtain ⟨dg, cg⟩ := y
  dsimp only
  cases hd : addDegs df dg with
  | none => cases acc <;> exact ⟨rfl, fun v h => by cases h⟩
  | some sd =>
    cases acc with
    | none => exact ⟨rfl, fun v h => by cases h⟩
    | some p =>
      obtain ⟨e, hv⟩ := incCoef_par hA hC (hacc p rfl) sd (hC.mul _ _ hx hy)
      dsimp only
      rw [hA.mul _ _ hx hy, e]
      exact ⟨rfl, fun v h => by cases h; exact hv⟩

theorem lt_par (o : Order) {f : BPoly α} (hf : AllM V f) :
    BPoly.lt F' o f = BPoly.lt F o f ∧ AllM V (BPoly.lt F o f) := by
  unfold BPoly.lt
  rw [lc_congr hA]
  exact setCoef_par hA nil_V _ (lc_V hC o hf)

theorem normalize_par (o : Order) {f : BPoly α} (hf : AllM V f) :
    BPoly.normalize F' o f = BPoly.normalize F o f ∧ AllM V (BPoly.normalize F o f) := by
  unfold BPoly.normalize
  have hl := lc_V hC o hf
  rw [lc_congr hA, hA.inv _ hl]
  split
  · exact ⟨rfl, hf⟩
  · cases hi : F.inv (lc F o f) with
    | none => exact ⟨rfl, hf⟩
    | some i => exact scale_par hA hC hf (hC.inv _ i hl hi)

theorem eval_par {f : BPoly α} (hf : AllM V f) {x y : α} (hx : V x) (hy : V y) :
    eval F' f x y = eval F f x y ∧ V (eval F f x y) := by
  unfold eval
  rw [hA.zero]
  refine foldl_par V (fun t : Deg × α => V t.2) _ _ (fun out t ho ht => ?_) f F.zero hf hC.zero
  have h1 := hC.pow x t.1.1 hx
  have h2 := hC.pow y t.1.2 hy
  have h3 := hC.mul _ _ ht h1
  have h4 := hC.mul _ _ h3 h2
  simp only [hA.pow _ _ hx, hA.pow _ _ hy, hA.mul _ _ ht h1, hA.mul _ _ h3 h2, hA.add _ _ ho h4,
    true_and]
  exact hC.add _ _ ho h4

theorem subShiftScale_par {f g : BPoly α} (hf : AllM V f) (hg : AllM V g) (i : Deg) {a : α}
    (ha : V a) :
    subShiftScale F' f g i a = subShiftScale F f g i a ∧ AllM V (subShiftScale F f g i a) := by
  unfold subShiftScale
  rw [hA.isZero, hA.isOne]
  split
  · exact ⟨rfl, hf⟩
  · split
    · refine foldl_par (AllM V) (fun t : Deg × α => V t.2) _ _ (fun acc t hacc ht => ?_) g f hg hf
      obtain ⟨d, c⟩ := t
      dsimp only
      split
      · exact ⟨rfl, hacc⟩
      · exact decCoef_par hA hC hacc _ ht
    · refine foldl_par (AllM V) (fun t : Deg × α => V t.2) _ _ (fun acc t hacc ht => ?_) g f hg hf
      obtain ⟨d, c⟩ := t
      dsimp only
      split
      · exact ⟨rfl, hacc⟩
      · rw [hA.mul a _ ha ht]
        exact decCoef_par hA hC hacc _ (hC.mul a _ ha ht)

end Par
end B
end Tables
end Algobra
