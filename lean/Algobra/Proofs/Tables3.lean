import Algobra.Proofs.Tables2

namespace Algobra
namespace Tables
section UPart
open UPoly

section ParseU
variable {α : Type} {F F' : FOps α} {V : α → Prop}

/-- all values of an association list valid -/
def AllM {κ : Type} (V : α → Prop) (m : List (κ × α)) : Prop := ∀ x ∈ m, V x.2

variable (hA : OpsAgree F F' V) (hC : Closed F V)
include hA hC

theorem mapAdd_par {κ : Type} [BEq κ] {m : List (κ × α)} (hm : AllM V m) (k : κ) {c : α} (hc : V c) :
    mapAdd F' m k c = mapAdd F m k c ∧ AllM V (mapAdd F m k c) := by
  unfold mapAdd
  split
  · constructor
    · apply List.map_congr_left
      intro x hx
      obtain ⟨k', v⟩ := x
      simp only
      split
      · rw [hA.add v c (hm _ hx) hc]
      · rfl
    · intro y hy
      obtain ⟨x, hx, rfl⟩ := List.mem_map.1 hy
      obtain ⟨k', v⟩ := x
      simp only
      split
      · exact hC.add v c (hm _ hx) hc
      · exact hm _ hx
  · refine ⟨rfl, fun y hy => ?_⟩
    rcases List.mem_append.1 hy with h | h
    · exact hm y h
    · rw [List.mem_singleton] at h; rw [h]; exact hc

theorem ugo_par (hparse : ∀ str v, F.parse str = .ok v → V v) :
    ∀ (l : List (Array String)) (out : List (Nat × α)), AllM V out →
      stringToMapRx.go F' l out = stringToMapRx.go F l out ∧
      ∀ m, stringToMapRx.go F l out = .ok m → AllM V m := by
  intro l
  induction l with
  | nil => intro out ho; exact ⟨rfl, fun m h => by cases h; exact ho⟩
  | cons g t ih =>
    intro out ho
    have fin : ∀ (d : Nat) (c : α), V c →
        stringToMapRx.go F' t (mapAdd F' out d c) = stringToMapRx.go F t (mapAdd F out d c) ∧
        ∀ m, stringToMapRx.go F t (mapAdd F out d c) = .ok m → AllM V m := by
      intro d c hc
      obtain ⟨e, hv⟩ := mapAdd_par hA hC ho d hc
      rw [e]; exact ih _ hv
    simp only [stringToMapRx.go, hA.parse, hA.one]
    split
    · exact ⟨rfl, fun m h => by cases h⟩
    · split
      · exact ⟨rfl, fun m h => by cases h⟩
      · split
        · exact ⟨rfl, fun m h => by cases h⟩
        · split
          · exact ⟨rfl, fun m h => by cases h⟩
          · rename_i h1 h2 ce c hce de d hde
            have hc : V c := by
              split at hce
              · cases hce; exact hC.one
              · split at hce
                · next v hp => cases hce; exact hparse _ _ hp
                · cases hce
            split
            · rw [hA.neg _ hc]; exact fin _ _ (hC.neg _ hc)
            · exact fin _ _ hc

theorem ustringToMapRx_par (hparse : ∀ str v, F.parse str = .ok v → V v) (varName s : String) :
    stringToMapRx F' varName s = stringToMapRx F varName s ∧
      ∀ m, stringToMapRx F varName s = .ok m → AllM V m := by
  have hnil : AllM V ([] : List (Nat × α)) := fun _ h => by cases h
  unfold stringToMapRx
  rw [hA.regex]
  dsimp only
  split
  · exact ⟨rfl, fun m h => by cases h⟩
  · split_ifs with ht
    · exact ⟨rfl, fun m h => by cases h⟩
    · exact ugo_par hA hC hparse _ _ hnil

theorem ustringToMap_par (hparse : ∀ str v, F.parse str = .ok v → V v) (varName s : String) :
    stringToMap F' varName s = stringToMap F varName s ∧
      ∀ m, stringToMap F varName s = .ok m → AllM V m := by
  have hnil : AllM V ([] : List (Nat × α)) := fun _ h => by cases h
  unfold stringToMap directOK
  rw [hA.ownVar]
  split_ifs with hd
  · split
    · exact ⟨rfl, fun m h => by cases h⟩
    · exact ugo_par hA hC hparse _ _ hnil
  · exact ustringToMapRx_par hA hC hparse varName s

theorem uparse_par {R : UPoly.Ring α} (hR : RingOK F V R)
    (hparse : ∀ str v, F.parse str = .ok v → V v) (s : String) :
    UPoly.parse (withF R F') s = UPoly.parse R s ∧
      ∀ o, UPoly.parse R s = .ok o → OptV V o := by
  unfold UPoly.parse
  have hF' : (withF R F').F = F' := rfl
  have hv' : (withF R F').varName = R.varName := rfl
  rw [hF', hv', hR.hF]
  obtain ⟨e, hv⟩ := ustringToMap_par hA hC hparse R.varName s
  rw [e]
  cases hm : stringToMap F R.varName s with
  | error k => exact ⟨rfl, fun o h => by cases h⟩
  | ok m =>
    obtain ⟨e2, hv2⟩ := foldl_par (AllV V) (fun x : Nat × α => V x.2)
      (fun f (x : Nat × α) => setCoef F f x.1 x.2) (fun f (x : Nat × α) => setCoef F' f x.1 x.2)
      (fun f x hf hx => setCoef_par hA hC hf x.1 hx) m (UPoly.zero F) (hv m hm) (zero_V hC)
    simp only [zero_congr hA] at e2 ⊢
    rw [e2]
    obtain ⟨e3, hv3⟩ := reduceIn_par hA hC hR hv2
    rw [e3]
    exact ⟨rfl, fun o h => by cases h; exact hv3⟩

end ParseU

/-! ### `step` on `uCtor … "str"`; the complete univariate layer -/
section StepUStr
variable {α : Type} {env env' : Env α} {V : Nat → α → Prop} (h : EnvAgreeU env env' V)
include h

theorem step_uStr_agree (desc : FieldDesc) {s : St α} (hs : StoreOKU V s) (dst ring : Nat)
    (arg : String) :
    step env' desc s (.uCtor dst ring "str" arg) = step env desc s (.uCtor dst ring "str" arg) ∧
      StoreOKU V (step env desc s (.uCtor dst ring "str" arg)).1 := by
  have A := h.base.agree 0
  have C := h.base.closed 0
  have hR := h.ringOK ring
  have hF' : (uring env' ring).F = env'.fld 0 := by unfold uring; rw [h.ring']; rfl
  have hF : (uring env ring).F = env.fld 0 := hR.hF
  have hu' : uring env' ring = withF (uring env ring) (env'.fld 0) := h.ring' ring
  simp only [step, stepE, stepU, String.reduceBEq, Bool.false_eq_true, if_false, if_true, hF', hF]
  rw [hu']
  obtain ⟨e, hv⟩ := uparse_par A C (R := uring env ring) hR (h.parse 0) (unhex arg)
  rw [e]
  cases hp : UPoly.parse (uring env ring) (unhex arg) with
  | error k =>
    rw [zero_congr A]
    exact ⟨rfl, hs.setU dst _ (zero_V C)⟩
  | ok o =>
    cases o with
    | none =>
      rw [zero_congr A]
      exact putU h hs dst (r := { home := ring, val := UPoly.zero (env.fld 0), err := .kind .internal })
        rfl (zero_V C) _
    | some v => exact putU h hs dst (r := { home := ring, val := v }) rfl (hv _ hp v rfl) _

omit h in
/-- ALL univariate operations except the raw decoder `uCtor … "coefs"` -/
def uOpAll : Op → Bool
  | .uCtor _ _ how _ => how != "coefs"
  | op => uOp op

omit h in
theorem uCtor_how_cases (dst ring : Nat) (how arg : String) (hne : how ≠ "coefs") :
    uOp (.uCtor dst ring how arg) = true ∨ how = "str" ∨
      (∀ (env : Env α) (s : St α), stepU env s (.uCtor dst ring how arg) = none) := by
  by_cases h1 : uOp (.uCtor dst ring how arg) = true
  · exact Or.inl h1
  · by_cases h2 : how = "str"
    · exact Or.inr (Or.inl h2)
    · refine Or.inr (Or.inr fun env s => ?_)
      simp only [uOp, Bool.or_eq_true, beq_iff_eq, not_or] at h1
      obtain ⟨⟨⟨⟨⟨a1, a2⟩, a3⟩, a4⟩, a5⟩, a6⟩ := h1
      simp only [stepU, beq_iff_eq, hne, a1, a2, a3, a4, a5, a6, h2, if_false]

theorem step_uOpAll_agree (desc : FieldDesc) {s : St α} (hs : StoreOKU V s) (op : Op)
    (hop : uOpAll op = true) :
    step env' desc s op = step env desc s op ∧ StoreOKU V (step env desc s op).1 := by
  cases op
  case uCtor dst ring how arg =>
    simp only [uOpAll, bne_iff_ne, ne_eq] at hop
    rcases uCtor_how_cases (α := α) dst ring how arg hop with h1 | rfl | h3
    · exact step_uOp_agree h desc hs _ h1
    · exact step_uStr_agree h desc hs dst ring arg
    · have e : ∀ env : Env α, step env desc s (.uCtor dst ring how arg) = (s, "bad-op") := by
        intro env
        simp only [step, stepE, h3, stepB, stepT]
      rw [e, e]
      exact ⟨rfl, hs⟩
  all_goals exact step_uOp_agree h desc hs _ hop

end StepUStr
end UPart

/-! ### the complete univariate layer through `runOps` -/
section RunU
variable {α : Type} {env env' : Env α} {V : Nat → α → Prop} (h : EnvAgreeU env env' V)
include h

omit h in
/-- every element-level and univariate operation except the raw decoders `enc` / `coefs` -/
def elemOrUOpAll (op : Op) : Bool := elemOpAll op || uOpAll op

theorem step_elemOrUAll_agree (desc : FieldDesc) {s : St α} (hs : StoreOKU V s) (op : Op)
    (hop : elemOrUOpAll op = true) :
    step env' desc s op = step env desc s op ∧ StoreOKU V (step env desc s op).1 := by
  unfold elemOrUOpAll at hop
  rw [Bool.or_eq_true] at hop
  rcases hop with hop | hop
  · exact step_elemAll_agree h desc hs op hop
  · exact step_uOpAll_agree h desc hs op hop

theorem runOps_elemOrUAll_agree (desc : FieldDesc) (ops : List Op)
    (hops : ∀ op ∈ ops, elemOrUOpAll op = true) :
    ∀ {s : St α}, StoreOKU V s →
      runOps env' desc s ops = runOps env desc s ops ∧ StoreOKU V (runOps env desc s ops).1 := by
  induction ops with
  | nil => intro s hs; exact ⟨rfl, hs⟩
  | cons op t ih =>
    intro s hs
    obtain ⟨e, hs'⟩ := step_elemOrUAll_agree h desc hs op (hops op List.mem_cons_self)
    obtain ⟨e2, hs2⟩ := ih (fun o ho => hops o (List.mem_cons_of_mem _ ho)) hs'
    simp only [runOps]
    rw [e, e2]
    exact ⟨rfl, hs2⟩

end RunU

/-! ## bivariate polynomials: congruence and closure -/
namespace B
open BPoly

section Par
variable {α : Type} {F F' : FOps α} {V : α → Prop}

omit F F' in
theorem AllM.append' {κ : Type} {f g : List (κ × α)} (hf : AllM V f) (hg : AllM V g) : AllM V (f ++ g) := by
  intro c hc
  rcases List.mem_append.1 hc with h | h
  · exact hf c h
  · exact hg c h

theorem nil_V : AllM V ([] : BPoly α) := fun _ h => by cases h

theorem erase_V {f : BPoly α} (hf : AllM V f) (d : Deg) : AllM V (erase f d) :=
  fun x hx => hf x (List.mem_of_mem_filter hx)

theorem put_V {f : BPoly α} (hf : AllM V f) (d : Deg) {v : α} (hv : V v) : AllM V (put f d v) := by
  unfold put
  split
  · intro y hy
    obtain ⟨x, hx, rfl⟩ := List.mem_map.1 hy
    obtain ⟨k, c⟩ := x
    simp only
    split
    · exact hv
    · exact hf _ hx
  · exact AllM.append' hf (fun x hx => by rw [List.mem_singleton] at hx; rw [hx]; exact hv)

variable (hA : OpsAgree F F' V) (hC : Closed F V)
include hA

theorem coef_congr (f : BPoly α) (d : Deg) : coef F' f d = coef F f d := by
  unfold coef; rw [hA.zero]

omit hA in
include hC in
theorem coef_V {f : BPoly α} (hf : AllM V f) (d : Deg) : V (coef F f d) := by
  unfold coef
  split
  · next k c h => exact hf _ (List.mem_of_find?_eq_some h)
  · exact hC.zero

theorem lc_congr (o : Order) (f : BPoly α) : lc F' o f = lc F o f := by
  unfold lc; rw [coef_congr hA]

omit hA in
include hC in
theorem lc_V (o : Order) {f : BPoly α} (hf : AllM V f) : V (lc F o f) := coef_V hC hf _

theorem sortedTerms_congr (o : Order) (f : BPoly α) : sortedTerms F' o f = sortedTerms F o f := by
  unfold sortedTerms; simp only [coef_congr hA]

theorem equal_congr (f g : BPoly α) : equal F' f g = equal F f g := by
  unfold equal; simp only [coef_congr hA, hA.beq]

include hC

omit hC in
theorem setCoef_par {f : BPoly α} (hf : AllM V f) (d : Deg) {v : α} (hv : V v) :
    setCoef F' f d v = setCoef F f d v ∧ AllM V (setCoef F f d v) := by
  unfold setCoef
  rw [hA.isZero]
  split
  · exact ⟨rfl, erase_V hf d⟩
  · exact ⟨rfl, put_V hf d hv⟩

theorem incCoef_par {f : BPoly α} (hf : AllM V f) (d : Deg) {v : α} (hv : V v) :
    incCoef F' f d v = incCoef F f d v ∧ AllM V (incCoef F f d v) := by
  unfold incCoef
  have hc := coef_V hC hf d
  simp only [hA.isZero, coef_congr hA, hA.add _ _ hc hv, true_and]
  split
  · exact hf
  · split
    · split
      · exact erase_V hf d
      · exact put_V hf d (hC.add _ _ hc hv)
    · exact AllM.append' hf (fun x hx => by rw [List.mem_singleton] at hx; rw [hx]; exact hv)

theorem decCoef_par {f : BPoly α} (hf : AllM V f) (d : Deg) {v : α} (hv : V v) :
    decCoef F' f d v = decCoef F f d v ∧ AllM V (decCoef F f d v) := by
  unfold decCoef
  have hc := coef_V hC hf d
  simp only [hA.isZero, coef_congr hA, hA.sub _ _ hc hv, hA.neg _ hv, true_and]
  split
  · exact hf
  · split
    · split
      · exact erase_V hf d
      · exact put_V hf d (hC.sub _ _ hc hv)
    · exact AllM.append' hf (fun x hx => by
        rw [List.mem_singleton] at hx; rw [hx]; exact hC.neg _ hv)

theorem add_par {f g : BPoly α} (hf : AllM V f) (hg : AllM V g) :
    add F' f g = add F f g ∧ AllM V (add F f g) := by
  unfold add
  exact foldl_par (AllM V) (fun x : Deg × α => V x.2) _ _
    (fun acc x ha hx => incCoef_par hA hC ha x.1 hx) g f hg hf

theorem sub_par {f g : BPoly α} (hf : AllM V f) (hg : AllM V g) :
    sub F' f g = sub F f g ∧ AllM V (sub F f g) := by
  unfold sub
  exact foldl_par (AllM V) (fun x : Deg × α => V x.2) _ _
    (fun acc x ha hx => decCoef_par hA hC ha x.1 hx) g f hg hf

theorem neg_par {f : BPoly α} (hf : AllM V f) :
    neg F' f = neg F f ∧ AllM V (neg F f) := by
  unfold neg
  constructor
  · exact List.map_congr_left fun x hx => by
      obtain ⟨d, c⟩ := x
      show (d, F'.neg c) = (d, F.neg c)
      rw [hA.neg c (hf _ hx)]
  · intro y hy
    obtain ⟨x, hx, rfl⟩ := List.mem_map.1 hy
    exact hC.neg _ (hf x hx)

theorem scale_par {f : BPoly α} (hf : AllM V f) {c : α} (hc : V c) :
    scale F' f c = scale F f c ∧ AllM V (scale F f c) := by
  unfold scale
  rw [hA.isZero]
  split
  · exact ⟨rfl, nil_V⟩
  · constructor
    · exact List.map_congr_left fun x hx => by
        obtain ⟨d, a⟩ := x
        show (d, F'.mul a c) = (d, F.mul a c)
        rw [hA.mul a c (hf _ hx) hc]
    · intro y hy
      obtain ⟨x, hx, rfl⟩ := List.mem_map.1 hy
      exact hC.mul _ _ (hf x hx) hc

/-- optional polynomial valid -/
def OptM (V : α → Prop) (o : Option (BPoly α)) : Prop := ∀ v, o = some v → AllM V v

theorem mulNoReduce_par {f g : BPoly α} (hf : AllM V f) (hg : AllM V g) :
    mulNoReduce F' f g = mulNoReduce F f g ∧ OptM V (mulNoReduce F f g) := by
  unfold mulNoReduce
  refine foldl_par (OptM V) (fun x : Deg × α => V x.2) _ _ (fun acc x hacc hx => ?_) f (some [])
    hf (fun v h => by cases h; exact nil_V)
  obtain ⟨df, cf⟩ := x
  refine foldl_par (OptM V) (fun y : Deg × α => V y.2) _ _ (fun acc y hacc hy => ?_) g acc hg hacc
  obtain ⟨dg, cg⟩ := y
  dsimp only
  cases hd : addDegs df dg with
  | none => cases acc <;> exact ⟨rfl, fun v h => by cases h⟩
  | some sd =>
    cases acc with
    | none => exact ⟨rfl, fun v h => by cases h⟩
    | some p =>
      obtain ⟨e, hv⟩ := incCoef_par hA hC (hacc p rfl) sd (hC.mul _ _ hx hy)
      dsimp only
      rw [hA.mul _ _ hx hy, e]
      exact ⟨rfl, fun v h => by cases h; exact hv⟩

theorem lt_par (o : Order) {f : BPoly α} (hf : AllM V f) :
    BPoly.lt F' o f = BPoly.lt F o f ∧ AllM V (BPoly.lt F o f) := by
  unfold BPoly.lt
  rw [lc_congr hA]
  exact setCoef_par hA nil_V _ (lc_V hC o hf)

theorem normalize_par (o : Order) {f : BPoly α} (hf : AllM V f) :
    BPoly.normalize F' o f = BPoly.normalize F o f ∧ AllM V (BPoly.normalize F o f) := by
  unfold BPoly.normalize
  have hl := lc_V hC o hf
  rw [lc_congr hA, hA.inv _ hl]
  split
  · exact ⟨rfl, hf⟩
  · cases hi : F.inv (lc F o f) with
    | none => exact ⟨rfl, hf⟩
    | some i => exact scale_par hA hC hf (hC.inv _ i hl hi)

theorem eval_par {f : BPoly α} (hf : AllM V f) {x y : α} (hx : V x) (hy : V y) :
    eval F' f x y = eval F f x y ∧ V (eval F f x y) := by
  unfold eval
  rw [hA.zero]
  refine foldl_par V (fun t : Deg × α => V t.2) _ _ (fun out t ho ht => ?_) f F.zero hf hC.zero
  have h1 := hC.pow x t.1.1 hx
  have h2 := hC.pow y t.1.2 hy
  have h3 := hC.mul _ _ ht h1
  have h4 := hC.mul _ _ h3 h2
  simp only [hA.pow _ _ hx, hA.pow _ _ hy, hA.mul _ _ ht h1, hA.mul _ _ h3 h2, hA.add _ _ ho h4,
    true_and]
  exact hC.add _ _ ho h4

theorem subShiftScale_par {f g : BPoly α} (hf : AllM V f) (hg : AllM V g) (i : Deg) {a : α}
    (ha : V a) :
    subShiftScale F' f g i a = subShiftScale F f g i a ∧ AllM V (subShiftScale F f g i a) := by
  unfold subShiftScale
  rw [hA.isZero, hA.isOne]
  split
  · exact ⟨rfl, hf⟩
  · split
    · refine foldl_par (AllM V) (fun t : Deg × α => V t.2) _ _ (fun acc t hacc ht => ?_) g f hg hf
      obtain ⟨d, c⟩ := t
      dsimp only
      split
      · exact ⟨rfl, hacc⟩
      · exact decCoef_par hA hC hacc _ ht
    · refine foldl_par (AllM V) (fun t : Deg × α => V t.2) _ _ (fun acc t hacc ht => ?_) g f hg hf
      obtain ⟨d, c⟩ := t
      dsimp only
      split
      · exact ⟨rfl, hacc⟩
      · rw [hA.mul a _ ha ht]
        exact decCoef_par hA hC hacc _ (hC.mul a _ ha ht)


/-! ### division and rings -/

/-- list of bivariate polynomials all valid -/
def AllMM (V : α → Prop) (l : List (BPoly α)) : Prop := ∀ f ∈ l, AllM V f

omit hA hC in
theorem firstDiv_mem (o : Order) (pLd : Deg) (ignore : Option Nat) :
    ∀ (gs : List (BPoly α)) (i : Nat) (r : Nat × BPoly α × Deg),
      firstDiv o pLd ignore gs i = some r → r.2.1 ∈ gs := by
  intro gs
  induction gs with
  | nil => intro i r h; cases h
  | cons g t ih =>
    intro i r h
    simp only [firstDiv] at h
    split at h
    · exact List.mem_cons_of_mem _ (ih _ _ h)
    · split at h
      · cases h; exact List.mem_cons_self
      · exact List.mem_cons_of_mem _ (ih _ _ h)

theorem lcQuot_par (o : Order) {p g : BPoly α} (hp : AllM V p) (hg : AllM V g) :
    lcQuot F' o p g = lcQuot F o p g ∧ V (lcQuot F o p g) := by
  unfold lcQuot
  have h1 := lc_V hC o hp
  have h2 := lc_V hC o hg
  dsimp only
  rw [lc_congr hA, lc_congr hA, hA.isOne, hA.mul _ _ h1 h2, hA.inv _ h2, hA.zero]
  split
  · exact ⟨rfl, hC.mul _ _ h1 h2⟩
  · cases hi : F.inv (lc F o g) with
    | none => exact ⟨rfl, hC.zero⟩
    | some i =>
      have := hC.inv _ i h2 hi
      simp only [hA.mul _ _ h1 this, true_and]
      exact hC.mul _ _ h1 this

theorem quoRemLoop_par (o : Order) (ignore : Option Nat) {gs : List (BPoly α)} (hgs : AllMM V gs) :
    ∀ (fuel : Nat) (p : BPoly α) (qs : List (BPoly α)) (r : BPoly α),
      AllM V p → AllMM V qs → AllM V r →
      quoRemLoop F' o ignore gs fuel p qs r = quoRemLoop F o ignore gs fuel p qs r ∧
      ∀ qs' r', quoRemLoop F o ignore gs fuel p qs r = some (qs', r') → AllMM V qs' ∧ AllM V r' := by
  intro fuel
  induction fuel with
  | zero => intro p qs r _ _ _; exact ⟨rfl, fun _ _ h => by cases h⟩
  | succ fuel ih =>
    intro p qs r hp hqs hr
    rw [quoRemLoop, quoRemLoop]
    split
    · exact ⟨rfl, fun _ _ h => by cases h; exact ⟨hqs, hr⟩⟩
    · dsimp only
      cases hff : firstDiv o (ld o p) ignore gs 0 with
      | none =>
        dsimp only
        rw [coef_congr hA]
        obtain ⟨e, hv⟩ := incCoef_par hA hC hr (ld o p) (coef_V hC hp (ld o p))
        rw [e]
        exact ih _ _ _ (erase_V hp _) hqs hv
      | some igd =>
        obtain ⟨i, g, dd⟩ := igd
        have hg : AllM V g := hgs g (firstDiv_mem o _ ignore gs 0 _ hff)
        obtain ⟨e1, hv1⟩ := lcQuot_par hA hC o hp hg
        have hq : AllM V (qs.getD i []) := by
          rw [List.getD_eq_getElem?_getD]
          cases h : qs[i]? with
          | none => exact nil_V
          | some q => exact hqs q (List.mem_of_getElem? h)
        obtain ⟨e2, hv2⟩ := incCoef_par hA hC hq dd hv1
        obtain ⟨e3, hv3⟩ := subShiftScale_par hA hC hp hg dd hv1
        dsimp only
        rw [e1, e2, e3]
        refine ih _ _ _ hv3 ?_ hr
        intro f hf
        rcases List.mem_or_eq_of_mem_set hf with h | rfl
        · exact hqs f h
        · exact hv2

/-- result of bivariate `QuoRem` valid -/
def QRM (V : α → Prop) (o : Except Kind (Option (List (BPoly α) × BPoly α))) : Prop :=
  ∀ qs r, o = .ok (some (qs, r)) → AllMM V qs ∧ AllM V r

theorem quoRem_par (o : Order) (fuel : Nat) (ignore : Option Nat) {f : BPoly α}
    {gs : List (BPoly α)} (hf : AllM V f) (hgs : AllMM V gs) :
    quoRem F' o fuel ignore f gs = quoRem F o fuel ignore f gs ∧
      QRM V (quoRem F o fuel ignore f gs) := by
  unfold quoRem
  have hq : AllMM V (gs.map fun _ => ([] : BPoly α)) := by
    intro q hq
    obtain ⟨_, _, rfl⟩ := List.mem_map.1 hq
    exact nil_V
  obtain ⟨e, hv⟩ := quoRemLoop_par hA hC o ignore hgs fuel f _ _ hf hq nil_V
  split
  · exact ⟨rfl, fun _ _ h => by cases h⟩
  · rw [e]
    refine ⟨rfl, fun qs r h => ?_⟩
    injection h with h
    exact hv qs r h

/-- result of `Rem` valid -/
def RemM (V : α → Prop) (o : Except Kind (Option (BPoly α))) : Prop :=
  ∀ r, o = .ok (some r) → AllM V r

theorem rem_par (o : Order) (fuel : Nat) {f : BPoly α} {gs : List (BPoly α)} (hf : AllM V f)
    (hgs : AllMM V gs) :
    rem F' o fuel f gs = rem F o fuel f gs ∧ RemM V (rem F o fuel f gs) := by
  unfold rem
  obtain ⟨e, hv⟩ := quoRem_par hA hC o fuel none hf hgs
  rw [e]
  cases hq : quoRem F o fuel none f gs with
  | error k => exact ⟨rfl, fun _ h => by cases h⟩
  | ok r =>
    refine ⟨rfl, fun x hx => ?_⟩
    cases r with
    | none => cases hx
    | some qr =>
      obtain ⟨qs, rr⟩ := qr
      cases hx
      exact (hv qs rr hq).2

/-- the ring `R` with the coefficient record replaced -/
def withFB (R : BPoly.Ring α) (G : FOps α) : BPoly.Ring α := { R with F := G }

/-- the ring is over `F`, the generators of its ideal have valid coefficients -/
structure BRingOK (F : FOps α) (V : α → Prop) (R : BPoly.Ring α) : Prop where
  hF : R.F = F
  hi : ∀ gs, R.ideal = some gs → AllMM V gs

theorem reduceIn_par {R : BPoly.Ring α} (hR : BRingOK F V R) {f : BPoly α} (hf : AllM V f) :
    reduceIn (withFB R F') f = reduceIn R f ∧ OptM V (reduceIn R f) := by
  unfold reduceIn withFB
  cases hid : R.ideal with
  | none => exact ⟨rfl, fun _ h => by cases h; exact hf⟩
  | some gs =>
    dsimp only
    rw [hR.hF]
    obtain ⟨e, hv⟩ := rem_par hA hC R.ord divFuel hf (hR.hi gs hid)
    rw [e]
    cases hr : rem F R.ord divFuel f gs with
    | error k => exact ⟨rfl, fun _ h => by cases h⟩
    | ok r => exact ⟨rfl, fun v h => hv v (by rw [hr]; exact congrArg Except.ok h)⟩

/-- result of `Times`/`Pow` valid -/
theorem times_par {R : BPoly.Ring α} (hR : BRingOK F V R) {f g : BPoly α} (hf : AllM V f)
    (hg : AllM V g) :
    times (withFB R F') f g = times R f g ∧ RemM V (times R f g) := by
  unfold times
  have hF' : (withFB R F').F = F' := rfl
  rw [hF', hR.hF]
  obtain ⟨e, hv⟩ := mulNoReduce_par hA hC hf hg
  rw [e]
  cases hm : mulNoReduce F f g with
  | none => exact ⟨rfl, fun _ h => by cases h⟩
  | some p =>
    obtain ⟨e2, hv2⟩ := reduceIn_par hA hC hR (hv p hm)
    dsimp only
    rw [e2]
    exact ⟨rfl, fun r h => hv2 r (by injection h)⟩

theorem powLoop_par {R : BPoly.Ring α} (hR : BRingOK F V R) :
    ∀ (fuel n : Nat) (out g : BPoly α), AllM V out → AllM V g →
      BPoly.powLoop (withFB R F') fuel n out g = BPoly.powLoop R fuel n out g ∧
      RemM V (BPoly.powLoop R fuel n out g) := by
  intro fuel
  induction fuel with
  | zero => intro n out g _ _; exact ⟨rfl, fun _ h => by cases h⟩
  | succ fuel ih =>
    intro n out g ho hg
    rw [BPoly.powLoop, BPoly.powLoop]
    split
    · exact ⟨rfl, fun _ h => by cases h; exact ho⟩
    · obtain ⟨e1, hv1⟩ := times_par hA hC hR ho hg
      obtain ⟨e2, hv2⟩ := times_par hA hC hR hg hg
      dsimp only
      rw [e1, e2]
      have ho' : RemM V (if n % 2 = 1 then times R out g else .ok (some out)) := by
        split
        · exact hv1
        · exact fun _ h => by cases h; exact ho
      cases h1 : (if n % 2 = 1 then times R out g else Except.ok (some out)) with
      | error k => exact ⟨rfl, fun _ h => by cases h⟩
      | ok oo =>
        cases oo with
        | none => exact ⟨rfl, fun _ h => by cases h⟩
        | some o1 =>
          dsimp only
          split
          · exact ⟨rfl, fun _ h => by cases h; exact ho' o1 h1⟩
          · cases h2 : times R g g with
            | error k => exact ⟨rfl, fun _ h => by cases h⟩
            | ok gg =>
              cases gg with
              | none => exact ⟨rfl, fun _ h => by cases h⟩
              | some g2 => exact ih _ _ _ (ho' o1 h1) (hv2 g2 h2)

theorem pow_par {R : BPoly.Ring α} (hR : BRingOK F V R) {f : BPoly α} (hf : AllM V f) (n : Nat) :
    BPoly.pow (withFB R F') f n = BPoly.pow R f n ∧ RemM V (BPoly.pow R f n) := by
  unfold BPoly.pow
  have hF' : (withFB R F').F = F' := rfl
  have h1 : AllM V [(((0, 0) : Deg), F.one)] := fun x hx => by
    rw [List.mem_singleton] at hx; rw [hx]; exact hC.one
  obtain ⟨e, hv⟩ := reduceIn_par hA hC hR h1
  rw [hF', hA.one, hR.hF, e]
  cases h : reduceIn R [((0, 0), F.one)] with
  | none => exact ⟨rfl, fun _ h => by cases h⟩
  | some o => exact powLoop_par hA hC hR 70 n o f (hv o h) hf

theorem ofMap_par {R : BPoly.Ring α} (hR : BRingOK F V R) {m : List (Deg × α)} (hm : AllM V m) :
    ofMap (withFB R F') m = ofMap R m ∧ OptM V (ofMap R m) := by
  unfold ofMap
  have hF' : (withFB R F').F = F' := rfl
  rw [hF', hR.hF, hA.isZero]
  obtain ⟨-, hv⟩ := foldl_par (AllM V) (fun x : Deg × α => V x.2)
    (fun acc (x : Deg × α) => if F.isZero x.2 then acc else put acc x.1 x.2)
    (fun acc (x : Deg × α) => if F.isZero x.2 then acc else put acc x.1 x.2)
    (fun acc x hacc hx => ⟨rfl, by split; exact hacc; exact put_V hacc _ hx⟩) m [] hm nil_V
  exact reduceIn_par hA hC hR hv

omit hC in
theorem toStr_congr {R : BPoly.Ring α} (hR : R.F = F) (f : BPoly α) :
    BPoly.toStr (withFB R F') f = BPoly.toStr R f := by
  unfold BPoly.toStr withFB
  simp only [hR, coef_congr hA, hA.isOne, hA.nTerms, hA.toStr]

end Par
end B

/-! ### bivariate interpolation (value level) -/
namespace B
section Interp
variable {α : Type} {F F' : FOps α} {V : α → Prop} (hA : OpsAgree F F' V) (hC : Closed F V)
include hA hC

theorem lagrangeBasis_par (h1 : V (F.ofNat 1)) {points : List α} (hp : AllV V points) {ignore : α}
    (hi : V ignore) (v : Nat) :
    BPoly.lagrangeBasis F' points ignore v = BPoly.lagrangeBasis F points ignore v ∧
      AllM V (BPoly.lagrangeBasis F points ignore v) := by
  unfold BPoly.lagrangeBasis
  rw [ignoreIndex_congr hA, hA.one]
  obtain ⟨e1, hv1⟩ := foldl_par (AllM V) (fun _ : Nat => True)
    (fun f k => BPoly.setCoef F f (if v = 0 then (k, 0) else (0, k))
      (UPoly.coefK F points (UPoly.ignoreIndex F points ignore) k))
    (fun f k => BPoly.setCoef F' f (if v = 0 then (k, 0) else (0, k))
      (UPoly.coefK F' points (UPoly.ignoreIndex F points ignore) k))
    (fun f k hf _ => by
      obtain ⟨e, hv⟩ := coefK_par hA hC h1 hp (UPoly.ignoreIndex F points ignore) k
      rw [e]
      exact setCoef_par hA hf _ hv)
    (List.range points.length) [] (fun _ _ => trivial) nil_V
  obtain ⟨e2, hv2⟩ := foldl_par V (fun x : α × Nat => V x.1)
    (fun d (x : α × Nat) => if x.2 = UPoly.ignoreIndex F points ignore then d else F.mul d (F.sub ignore x.1))
    (fun d (x : α × Nat) => if x.2 = UPoly.ignoreIndex F points ignore then d else F'.mul d (F'.sub ignore x.1))
    (fun d x hd hx => by
      split
      · exact ⟨rfl, hd⟩
      · rw [hA.sub _ _ hi hx, hA.mul _ _ hd (hC.sub _ _ hi hx)]
        exact ⟨rfl, hC.mul _ _ hd (hC.sub _ _ hi hx)⟩)
    points.zipIdx F.one (fun x hx => hp _ (List.fst_mem_of_mem_zipIdx hx)) hC.one
  simp only [] at e1 e2 ⊢
  rw [e1, e2, hA.inv _ hv2]
  cases hinv : F.inv _ with
  | none => exact ⟨rfl, nil_V⟩
  | some i => exact scale_par hA hC hv1 (hC.inv _ i hv2 hinv)

omit hC in
theorem distinctStrs_congr (xs : List α) : BPoly.distinctStrs F' xs = BPoly.distinctStrs F xs := by
  unfold BPoly.distinctStrs; rw [hA.toStr]

omit hA hC in
theorem distinctStrs_V {xs : List α} (hx : AllV V xs) : AllV V (BPoly.distinctStrs F xs) := by
  unfold BPoly.distinctStrs
  exact (foldl_par (AllV V) V (fun acc x => if acc.any (fun y => F.toStr y == F.toStr x) then acc else acc ++ [x])
    (fun acc x => if acc.any (fun y => F.toStr y == F.toStr x) then acc else acc ++ [x])
    (fun acc x ha hx => ⟨rfl, by split; exact ha; exact ha.append (AllV.single hx)⟩) xs [] hx
    (fun _ h => by cases h)).2

omit hC in
theorem allDistinctB_congr (points : List (α × α)) :
    BPoly.allDistinct F' points = BPoly.allDistinct F points := by
  unfold BPoly.allDistinct; rw [hA.toStr]

theorem interpolate_par {R : BPoly.Ring α} (hR : BRingOK F V R) (h1 : V (F.ofNat 1))
    {points : List (α × α)} {values : List α} (hp : ∀ x ∈ points, V x.1 ∧ V x.2)
    (hvals : AllV V values) :
    BPoly.interpolate (withFB R F') points values = BPoly.interpolate R points values ∧
      RemM V (BPoly.interpolate R points values) := by
  unfold BPoly.interpolate
  have hF' : (withFB R F').F = F' := rfl
  dsimp only
  rw [hF', hR.hF, allDistinctB_congr hA, distinctStrs_congr hA, distinctStrs_congr hA, hA.isZero, hA.one]
  have hdx : AllV V (BPoly.distinctStrs F (points.map (·.1))) := distinctStrs_V (fun c hc => by
    obtain ⟨x, hx, rfl⟩ := List.mem_map.1 hc; exact (hp x hx).1)
  have hdy : AllV V (BPoly.distinctStrs F (points.map (·.2))) := distinctStrs_V (fun c hc => by
    obtain ⟨x, hx, rfl⟩ := List.mem_map.1 hc; exact (hp x hx).2)
  have hone : AllM V (BPoly.setCoef F [] (0, 0) F.one) := (setCoef_par hA nil_V (0, 0) hC.one).2
  split
  · exact ⟨rfl, fun _ h => by cases h⟩
  · split
    · exact ⟨rfl, fun _ h => by cases h⟩
    · refine foldl_par (RemM V) (fun x : (α × α) × α => (V x.1.1 ∧ V x.1.2) ∧ V x.2) _ _
        (fun acc x hacc hx => ?_) (points.zip values) (.ok (some []))
        (fun x hx => ⟨hp _ (List.of_mem_zip hx).1, hvals _ (List.of_mem_zip hx).2⟩)
        (fun _ h => by cases h; exact nil_V)
      obtain ⟨⟨px, py⟩, v⟩ := x
      obtain ⟨⟨hpx, hpy⟩, hv⟩ := hx
      dsimp only at hpx hpy hv ⊢
      cases acc with
      | error k => exact ⟨rfl, fun _ h => by cases h⟩
      | ok o =>
        cases o with
        | none => exact ⟨rfl, fun _ h => by cases h⟩
        | some f =>
          have hf : AllM V f := hacc f rfl
          dsimp only
          split
          · exact ⟨rfl, hacc⟩
          · obtain ⟨el1, hl1⟩ := lagrangeBasis_par hA hC h1 hdx hpx 0
            obtain ⟨el2, hl2⟩ := lagrangeBasis_par hA hC h1 hdy hpy 1
            obtain ⟨eo, -⟩ := setCoef_par hA (F := F) (F' := F') nil_V (0, 0) hC.one
            obtain ⟨et1, ht1⟩ := times_par hA hC hR hone hl1
            rw [eo, el1, el2, et1]
            cases h1' : BPoly.times R (BPoly.setCoef F [] (0, 0) F.one)
                (BPoly.lagrangeBasis F (BPoly.distinctStrs F (points.map (·.1))) px 0) with
            | error k => exact ⟨rfl, fun _ h => by cases h⟩
            | ok o1 =>
              cases o1 with
              | none => exact ⟨rfl, fun _ h => by cases h⟩
              | some t1 =>
                obtain ⟨et2, ht2⟩ := times_par hA hC hR (ht1 t1 h1') hl2
                dsimp only
                rw [et2]
                cases h2' : BPoly.times R t1
                    (BPoly.lagrangeBasis F (BPoly.distinctStrs F (points.map (·.2))) py 1) with
                | error k => exact ⟨rfl, fun _ h => by cases h⟩
                | ok o2 =>
                  cases o2 with
                  | none => exact ⟨rfl, fun _ h => by cases h⟩
                  | some t2 =>
                    obtain ⟨es, hs⟩ := scale_par hA hC (ht2 t2 h2') hv
                    obtain ⟨ea, ha⟩ := add_par hA hC hf hs
                    dsimp only
                    rw [es, ea]
                    exact ⟨rfl, fun _ h => by cases h; exact ha⟩

end Interp
end B

/-! ## `step` on the bivariate arithmetic operations -/
section StepB
variable {α : Type} {env env' : Env α} {V : Nat → α → Prop}

/-- `EnvAgreeU` + the bivariate rings are over field 0 with valid ideal generators, and `env'` has
    the same rings over its own field 0 -/
structure EnvAgreeB (env env' : Env α) (V : Nat → α → Prop) : Prop where
  u : EnvAgreeU env env' V
  bringOK : ∀ i, B.BRingOK (env.fld 0) (V 0) (env.bring i)
  bring' : ∀ i, env'.bring i = B.withFB (env.bring i) (env'.fld 0)

/-- element, univariate and bivariate registers valid (the first three components of `StoreOKAll`) -/
def StoreOKB (V : Nat → α → Prop) (s : St α) : Prop :=
  StoreOKU V s ∧ ∀ k r, St.getL s.bs k = some r → AllM (V 0) r.val

theorem StoreOKB.setB {s : St α} (hs : StoreOKB V s) (d : Nat) (r : BReg α)
    (hr : AllM (V 0) r.val) : StoreOKB V { s with bs := St.setL s.bs d r } := by
  refine ⟨hs.1, fun k r' hk => ?_⟩
  rw [St.getL_setL] at hk
  split at hk
  · cases hk; exact hr
  · exact hs.2 k r' hk

theorem StoreOKB.setE {s : St α} (hs : StoreOKB V s) (d : Nat) (r : EReg α)
    (hr : V r.home r.val) : StoreOKB V { s with es := St.setL s.es d r } :=
  ⟨hs.1.setE d r hr, hs.2⟩

theorem StoreOKB.foldB (home : Nat) : ∀ (kvs : List (Nat × BPoly α)) {s : St α}, StoreOKB V s →
    (∀ x ∈ kvs, AllM (V 0) x.2) →
    StoreOKB V { s with bs := kvs.foldl (fun bs (x : Nat × BPoly α) =>
      St.setL bs x.1 { home := home, val := x.2 }) s.bs } := by
  intro kvs
  induction kvs with
  | nil => intro s hs _; exact hs
  | cons x t ih =>
    intro s hs hx
    exact ih (hs.setB x.1 { home := home, val := x.2 } (hx x List.mem_cons_self))
      (fun y hy => hx y (List.mem_cons_of_mem _ hy))

theorem bGet_ok {s : St α} (hs : StoreOKB V s) (k : Nat) : AllM (V 0) (bGet s k).val := by
  unfold bGet
  cases hg : St.getL s.bs k with
  | none => exact B.nil_V
  | some r => exact hs.2 k r hg

variable (h : EnvAgreeB env env' V)
include h

theorem bord_eq (i : Nat) : bord env' i = bord env i := by
  unfold bord; rw [h.bring']; rfl

theorem encB_eq (o : Order) (f : BPoly α) : encB env' o f = encB env o f := by
  unfold encB F0
  rw [B.sortedTerms_congr (h.u.base.agree 0), (h.u.base.agree 0).enc]

theorem encB_eq' (o : Order) : encB env' o = encB env o := funext (encB_eq h o)

theorem showB_eq (r : BReg α) : showB env' r = showB env r := by
  unfold showB; rw [encB_eq h, bord_eq h]

theorem putB {s : St α} (hs : StoreOKB V s) (dst : Nat) {r r' : BReg α} (e : r' = r)
    (hv : AllM (V 0) r.val) (tag : String) :
    (({ s with bs := St.setL s.bs dst r' }, tag ++ showB env' r') : St α × String)
      = ({ s with bs := St.setL s.bs dst r }, tag ++ showB env r) ∧
    StoreOKB V { s with bs := St.setL s.bs dst r } := by
  subst e
  exact ⟨by rw [showB_eq h], hs.setB dst _ hv⟩

theorem putEB {s : St α} (hs : StoreOKB V s) (dst : Nat) {r r' : EReg α} (e : r' = r)
    (hv : V r.home r.val) (tag : String) :
    (({ s with es := St.setL s.es dst r' }, tag ++ showE env' r') : St α × String)
      = ({ s with es := St.setL s.es dst r }, tag ++ showE env r) ∧
    StoreOKB V { s with es := St.setL s.es dst r } := by
  subst e
  exact ⟨by rw [showE_eq h.u.base], hs.setE dst _ hv⟩

omit h in
theorem bCheck_V {f : BReg α} {gs : List (BReg α)} (hf : AllM (V 0) f.val)
    (hgs : ∀ g ∈ gs, AllM (V 0) g.val) :
    ∀ r b, bCheck f gs = some (r, b) → AllM (V 0) r.val := by
  intro r b hr
  unfold bCheck at hr
  split at hr
  · cases hr; exact hf
  · split at hr
    · next g hg => cases hr; exact hgs g (List.mem_of_find?_eq_some hg)
    · split at hr
      · cases hr; exact B.nil_V
      · cases hr

theorem bReduce_par {r : BReg α} (hr : AllM (V 0) r.val) :
    bReduce env' r = bReduce env r ∧ AllM (V 0) (bReduce env r).val := by
  unfold bReduce bring
  rw [h.bring' r.home]
  obtain ⟨e, hv⟩ := B.reduceIn_par (h.u.base.agree 0) (h.u.base.closed 0) (h.bringOK r.home) hr
  rw [e]
  split
  · exact ⟨rfl, hr⟩
  · cases hred : BPoly.reduceIn (env.bring r.home) r.val with
    | none => exact ⟨rfl, hr⟩
    | some v => exact ⟨rfl, hv v hred⟩

theorem bInPlace_par (op : String) {a b : BReg α} (ha : AllM (V 0) a.val) (hb : AllM (V 0) b.val) :
    bInPlace env' op a b = bInPlace env op a b ∧ AllM (V 0) (bInPlace env op a b).1.val ∧
      AllM (V 0) (bInPlace env op a b).2.1.val := by
  unfold bInPlace
  have hck := bCheck_V ha (gs := [b]) (fun g hg => by rw [List.mem_singleton] at hg; exact hg ▸ hb)
  cases hc : bCheck a [b] with
  | some rb =>
    obtain ⟨r, bb⟩ := rb
    cases bb
    · exact ⟨rfl, ha, hck r false hc⟩
    · exact ⟨rfl, hck r true hc, hck r true hc⟩
  | none =>
    simp only [F0]
    split
    · obtain ⟨e, hv⟩ := B.add_par (h.u.base.agree 0) (h.u.base.closed 0) ha hb
      rw [e]; exact ⟨rfl, hv, hv⟩
    · obtain ⟨e, hv⟩ := B.sub_par (h.u.base.agree 0) (h.u.base.closed 0) ha hb
      rw [e]; exact ⟨rfl, hv, hv⟩

theorem bTimes_par {a b : BReg α} (ha : AllM (V 0) a.val) (hb : AllM (V 0) b.val) :
    bTimes env' a b = bTimes env a b ∧ AllM (V 0) (bTimes env a b).val := by
  unfold bTimes
  have hck := bCheck_V ha (gs := [b]) (fun g hg => by rw [List.mem_singleton] at hg; exact hg ▸ hb)
  cases hc : bCheck a [b] with
  | some rb => obtain ⟨r, bb⟩ := rb; exact ⟨rfl, hck r bb hc⟩
  | none =>
    simp only [F0]
    obtain ⟨e, hv⟩ := B.mulNoReduce_par (h.u.base.agree 0) (h.u.base.closed 0) ha hb
    rw [e]
    cases hm : BPoly.mulNoReduce (env.fld 0) a.val b.val with
    | none => exact ⟨rfl, B.nil_V⟩
    | some p => exact bReduce_par h (r := { a with val := p }) (hv p hm)

theorem bBinRes_par {s : St α} (hs : StoreOKB V s) (op : String) (a b : Nat) :
    bBinRes env' s op a b = bBinRes env s op a b ∧ AllM (V 0) (bBinRes env s op a b).val := by
  unfold bBinRes
  split
  · exact bTimes_par h (bGet_ok hs a) (bGet_ok hs b)
  · obtain ⟨e, -, hv⟩ := bInPlace_par h op (bGet_ok hs a) (bGet_ok hs b)
    rw [e]; exact ⟨rfl, hv⟩

theorem bInRes_par {s : St α} (hs : StoreOKB V s) (op : String) (a b : Nat) :
    bInRes env' s op a b = bInRes env s op a b ∧ AllM (V 0) (bInRes env s op a b).1.val := by
  unfold bInRes
  split
  · obtain ⟨e, hv⟩ := bTimes_par h (bGet_ok hs a) (bGet_ok hs b)
    rw [e]; exact ⟨rfl, hv⟩
  · obtain ⟨e, hv, -⟩ := bInPlace_par h op (bGet_ok hs a) (bGet_ok hs b)
    rw [e]; exact ⟨rfl, hv⟩

theorem bUnRes_par {s : St α} (hs : StoreOKB V s) (op : String) (a : Nat) :
    bUnRes env' s op a = bUnRes env s op a ∧ AllM (V 0) (bUnRes env s op a).val := by
  unfold bUnRes
  simp only [F0, bord_eq h]
  have ha := bGet_ok hs a
  split
  · exact ⟨rfl, ha⟩
  · split
    · obtain ⟨e, hv⟩ := B.neg_par (h.u.base.agree 0) (h.u.base.closed 0) ha
      rw [e]; exact ⟨rfl, hv⟩
    · split
      · obtain ⟨e, hv⟩ := B.normalize_par (h.u.base.agree 0) (h.u.base.closed 0)
          (bord env (bGet s a).home) ha
        rw [e]; exact ⟨rfl, hv⟩
      · obtain ⟨e, hv⟩ := B.lt_par (h.u.base.agree 0) (h.u.base.closed 0)
          (bord env (bGet s a).home) ha
        rw [e]; exact ⟨rfl, hv⟩

theorem eValB_ok {s : St α} (hs : StoreOKB V s) (k : Nat) : V 0 (eGet env s k).val :=
  eVal_ok h.u hs.1 k

theorem bScaleRes_par {s : St α} (hs : StoreOKB V s) (a e : Nat) :
    bScaleRes env' s a e = bScaleRes env s a e ∧ AllM (V 0) (bScaleRes env s a e).val := by
  unfold bScaleRes
  simp only [eGet_eq h.u.base, scalarEffect_eq h.u, F0]
  have ha := bGet_ok hs a
  have he := eValB_ok h hs e
  cases hse : scalarEffect env (eGet env s e) with
  | none => exact ⟨rfl, ha⟩
  | some b =>
    cases b
    · exact ⟨rfl, B.nil_V⟩
    · obtain ⟨e1, hv⟩ := B.scale_par (h.u.base.agree 0) (h.u.base.closed 0) ha he
      dsimp only
      rw [e1, (h.u.base.agree 0).isZero]
      refine ⟨rfl, ?_⟩
      show AllM (V 0) (if (env.fld 0).isZero (eGet env s e).val = true then (_ : BReg α) else _).val
      split
      · exact B.nil_V
      · exact hv

theorem bSetScaleRes_par {s : St α} (hs : StoreOKB V s) (a e : Nat) :
    bSetScaleRes env' s a e = bSetScaleRes env s a e ∧ AllM (V 0) (bSetScaleRes env s a e).val := by
  unfold bSetScaleRes
  simp only [eGet_eq h.u.base, scalarEffect_eq h.u, F0]
  have ha := bGet_ok hs a
  have he := eValB_ok h hs e
  cases hse : scalarEffect env (eGet env s e) with
  | none => exact ⟨rfl, ha⟩
  | some b =>
    cases b
    · exact ⟨rfl, B.nil_V⟩
    · obtain ⟨e1, hv⟩ := B.scale_par (h.u.base.agree 0) (h.u.base.closed 0) ha he
      dsimp only
      rw [e1]
      exact ⟨rfl, hv⟩

theorem bPowRes_par {s : St α} (hs : StoreOKB V s) (a n : Nat) :
    bPowRes env' s a n = bPowRes env s a n ∧ AllM (V 0) (bPowRes env s a n).val := by
  unfold bPowRes bring
  have ha := bGet_ok hs a
  dsimp only
  rw [h.bring']
  obtain ⟨e, hv⟩ := B.pow_par (h.u.base.agree 0) (h.u.base.closed 0) (h.bringOK (bGet s a).home) ha n
  rw [e]
  split
  · exact ⟨rfl, ha⟩
  · cases hp : BPoly.pow (env.bring (bGet s a).home) (bGet s a).val n with
    | error k => exact ⟨rfl, B.nil_V⟩
    | ok o =>
      cases o with
      | none => exact ⟨rfl, ha⟩
      | some v => exact ⟨rfl, hv v hp⟩


omit h in
/-- the bivariate ARITHMETIC operations: constructors `nats ints zero embed regs` (not the raw
    decoder `map`, not `str`), arithmetic, division, interpolation, equality, observers -/
def bOp : Op → Bool
  | .bCtor _ _ how _ => how == "nats" || how == "ints" || how == "zero" || how == "embed" ||
      how == "regs"
  | .bBin .. | .bUn .. | .bScale .. | .bPow .. | .bEval .. | .bCoef .. | .bLc .. | .bIn ..
  | .bSetScale .. | .bSetCoef .. | .bQuoRem .. | .bRem .. | .bInterp .. | .bEq .. | .bObs _ => true
  | _ => false

omit h in
theorem AllM_filterMap {β : Type} {W : α → Prop} (l : List β) (g : β → Option (Deg × α))
    (hg : ∀ t x, g t = some x → W x.2) : AllM W (l.filterMap g) := by
  intro x hx
  obtain ⟨t, _, ht⟩ := List.mem_filterMap.1 hx
  exact hg t x ht

theorem step_bOp_agree (desc : FieldDesc) {s : St α} (hs : StoreOKB V s) (op : Op)
    (hop : bOp op = true) :
    step env' desc s op = step env desc s op ∧ StoreOKB V (step env desc s op).1 := by
  have A := h.u.base.agree 0
  have C := h.u.base.closed 0
  cases op <;> try (simp only [bOp, Bool.false_eq_true] at hop; done)
  case bBin dst o a b =>
    obtain ⟨e, hv⟩ := bBinRes_par h hs o a b
    rw [step_bBin, step_bBin]
    exact putB h hs dst e hv _
  case bUn dst o a =>
    obtain ⟨e, hv⟩ := bUnRes_par h hs o a
    rw [step_bUn, step_bUn]
    exact putB h hs dst e hv _
  case bScale dst a e =>
    obtain ⟨e1, hv⟩ := bScaleRes_par h hs a e
    rw [step_bScale, step_bScale]
    exact putB h hs dst e1 hv _
  case bSetScale a e =>
    obtain ⟨e1, hv⟩ := bSetScaleRes_par h hs a e
    rw [step_bSetScale, step_bSetScale]
    exact putB h hs a e1 hv _
  case bPow dst a n =>
    obtain ⟨e, hv⟩ := bPowRes_par h hs a n
    rw [step_bPow, step_bPow]
    exact putB h hs dst e hv _
  case bIn o a b =>
    obtain ⟨e, hv⟩ := bInRes_par h hs o a b
    rw [step_bIn, step_bIn, e, showB_eq h]
    exact ⟨rfl, hs.setB _ _ hv⟩
  case bSetCoef o a d e =>
    rw [step_bSetCoef, step_bSetCoef]
    simp only [eGet_eq h.u.base, F0]
    have ha := bGet_ok hs a
    have he := eValB_ok h hs e
    obtain ⟨e1, hv1⟩ := B.setCoef_par A ha d he
    obtain ⟨e2, hv2⟩ := B.incCoef_par A C ha d he
    obtain ⟨e3, hv3⟩ := B.decCoef_par A C ha d he
    rw [e1, e2, e3]
    refine putB h hs a rfl ?_ _
    show AllM (V 0) (if _ then _ else _)
    split
    · exact ha
    · split
      · exact hv1
      · split
        · exact hv2
        · exact hv3
  case bEval dst a x y =>
    simp only [step, stepE, stepU, stepB, eGet_eq h.u.base, F0]
    obtain ⟨e, hv⟩ := B.eval_par A C (bGet_ok hs a) (eValB_ok h hs x) (eValB_ok h hs y)
    rw [A.zero, e]
    refine putEB h hs dst rfl ?_ _
    split
    · exact C.zero
    · exact hv
  case bCoef dst a d =>
    simp only [step, stepE, stepU, stepB, F0]
    rw [B.coef_congr A]
    exact putEB h hs dst rfl (B.coef_V C (bGet_ok hs a) d) _
  case bLc dst a =>
    simp only [step, stepE, stepU, stepB, F0, bord_eq h]
    rw [B.lc_congr A]
    exact putEB h hs dst rfl (B.lc_V C _ (bGet_ok hs a)) _
  case bEq a b =>
    simp only [step, stepE, stepU, stepB, F0]
    rw [B.equal_congr A]
    exact ⟨rfl, hs⟩
  case bObs a =>
    simp only [step, stepE, stepU, stepB, F0, bord_eq h, bring]
    obtain ⟨e, -⟩ := B.lt_par A C (bord env (bGet s a).home) (bGet_ok hs a)
    rw [B.lc_congr A, A.enc, e, encB_eq h, h.bring', B.toStr_congr A (h.bringOK _).hF]
    exact ⟨rfl, hs⟩
  case bQuoRem dsts a gs =>
    simp only [step, stepE, stepU, stepB, F0, bord_eq h, encB_eq' h]
    have ha := bGet_ok hs a
    have hgs : B.AllMM (V 0) ((gs.map (bGet s)).map (·.val)) := by
      intro g hg
      obtain ⟨r, hr, rfl⟩ := List.mem_map.1 hg
      obtain ⟨k, _, rfl⟩ := List.mem_map.1 hr
      exact bGet_ok hs k
    cases hc : bCheck (bGet s a) (gs.map (bGet s)) with
    | some rb => exact ⟨rfl, hs⟩
    | none =>
      obtain ⟨e, hv⟩ := B.quoRem_par A C (bord env (bGet s a).home) BPoly.divFuel none ha hgs
      dsimp only
      rw [e]
      cases hq : BPoly.quoRem (env.fld 0) (bord env (bGet s a).home) BPoly.divFuel none (bGet s a).val
          ((gs.map (bGet s)).map (·.val)) with
      | error k => exact ⟨rfl, hs⟩
      | ok o =>
        cases o with
        | none => exact ⟨rfl, hs⟩
        | some qr =>
          obtain ⟨qs, r⟩ := qr
          obtain ⟨hq1, hq2⟩ := hv qs r hq
          refine ⟨rfl, ?_⟩
          refine StoreOKB.foldB (bGet s a).home (dsts.zip (qs ++ [r])) hs ?_
          intro x hx
          have := (List.of_mem_zip hx).2
          rcases List.mem_append.1 this with h1 | h1
          · exact hq1 _ h1
          · rw [List.mem_singleton] at h1; rw [h1]; exact hq2
  case bRem dst a gs =>
    simp only [step, stepE, stepU, stepB, F0, bord_eq h, encB_eq' h]
    have ha := bGet_ok hs a
    have hgs : B.AllMM (V 0) ((gs.map (bGet s)).map (·.val)) := by
      intro g hg
      obtain ⟨r, hr, rfl⟩ := List.mem_map.1 hg
      obtain ⟨k, _, rfl⟩ := List.mem_map.1 hr
      exact bGet_ok hs k
    cases hc : bCheck (bGet s a) (gs.map (bGet s)) with
    | some rb => exact ⟨rfl, hs⟩
    | none =>
      obtain ⟨e, hv⟩ := B.rem_par A C (bord env (bGet s a).home) BPoly.divFuel ha hgs
      dsimp only
      rw [e]
      cases hq : BPoly.rem (env.fld 0) (bord env (bGet s a).home) BPoly.divFuel (bGet s a).val
          ((gs.map (bGet s)).map (·.val)) with
      | error k => exact ⟨rfl, hs⟩
      | ok o =>
        cases o with
        | none => exact ⟨rfl, hs⟩
        | some r => exact ⟨rfl, hs.setB dst _ (hv r hq)⟩
  case bInterp dst ring xs ys vals =>
    simp only [step, stepE, stepU, stepB, eGet_eq' h.u, bring]
    rw [h.bring']
    have hp : ∀ x ∈ (xs.zip ys).map (fun (x : Nat × Nat) => ((eGet env s x.1).val, (eGet env s x.2).val)),
        V 0 x.1 ∧ V 0 x.2 := by
      intro x hx
      obtain ⟨k, _, rfl⟩ := List.mem_map.1 hx
      exact ⟨eValB_ok h hs _, eValB_ok h hs _⟩
    have hvs : AllV (V 0) (vals.map fun k => (eGet env s k).val) := by
      intro c hc; obtain ⟨k, _, rfl⟩ := List.mem_map.1 hc; exact eValB_ok h hs k
    obtain ⟨e, hv⟩ := B.interpolate_par A C (h.bringOK ring) (h.u.ofNat 0 1) hp hvs
    rw [e]
    cases hi : BPoly.interpolate (env.bring ring)
        ((xs.zip ys).map (fun (x : Nat × Nat) => ((eGet env s x.1).val, (eGet env s x.2).val)))
        (vals.map fun k => (eGet env s k).val) with
    | error k => exact ⟨rfl, hs⟩
    | ok o =>
      cases o with
      | none => exact ⟨rfl, hs⟩
      | some v => exact putB h hs dst (r := { home := ring, val := v }) rfl (hv v hi) _
  case bCtor dst ring how arg =>
    simp only [bOp, Bool.or_eq_true, beq_iff_eq] at hop
    have hR := h.bringOK ring
    have fin : ∀ (o o' : Option (BPoly α)), o' = o → B.OptM (V 0) o →
        ((({ s with bs := St.setL s.bs dst (match o' with
            | some v => ({ home := ring, val := v } : BReg α)
            | none => { home := ring, val := [], err := .kind .internal }) },
          "ok " ++ showB env' (match o' with
            | some v => ({ home := ring, val := v } : BReg α)
            | none => { home := ring, val := [], err := .kind .internal })) : St α × String)
        = ({ s with bs := St.setL s.bs dst (match o with
            | some v => ({ home := ring, val := v } : BReg α)
            | none => { home := ring, val := [], err := .kind .internal }) },
          "ok " ++ showB env (match o with
            | some v => ({ home := ring, val := v } : BReg α)
            | none => { home := ring, val := [], err := .kind .internal }))) ∧
        StoreOKB V { s with bs := St.setL s.bs dst (match o with
            | some v => ({ home := ring, val := v } : BReg α)
            | none => { home := ring, val := [], err := .kind .internal }) } := by
      intro o o' e ho
      subst e
      cases o' with
      | none => exact putB h hs dst rfl B.nil_V _
      | some v => exact putB h hs dst rfl (ho v rfl) _
    have hF' : (bring env' ring).F = env'.fld 0 := by unfold bring; rw [h.bring']; rfl
    have hF : (bring env ring).F = env.fld 0 := hR.hF
    have hb' : bring env' ring = B.withFB (bring env ring) (env'.fld 0) := h.bring' ring
    rcases hop with (((rfl | rfl) | rfl) | rfl) | rfl
    · simp only [step, stepE, stepU, stepB, String.reduceBEq, Bool.false_eq_true, if_false, if_true,
        hF', hF, A.ofNat]
      rw [hb']
      refine fin _ _ (B.ofMap_par A C (R := bring env ring) hR ?_).1
        (B.ofMap_par A C (R := bring env ring) hR ?_).2 <;>
      · split
        · exact B.nil_V
        · refine AllM_filterMap _ _ (fun t x ht => ?_)
          split at ht
          · cases ht; exact h.u.ofNat 0 _
          · cases ht
    · simp only [step, stepE, stepU, stepB, String.reduceBEq, Bool.false_eq_true, if_false, if_true,
        hF', hF, A.ofInt]
      rw [hb']
      refine fin _ _ (B.ofMap_par A C (R := bring env ring) hR ?_).1
        (B.ofMap_par A C (R := bring env ring) hR ?_).2 <;>
      · split
        · exact B.nil_V
        · refine AllM_filterMap _ _ (fun t x ht => ?_)
          split at ht
          · cases ht; exact h.u.ofInt 0 _
          · cases ht
    · simp only [step, stepE, stepU, stepB, String.reduceBEq, Bool.false_eq_true, if_false, if_true]
      exact fin (some []) (some []) rfl (fun v hv => by cases hv; exact B.nil_V)
    · simp only [step, stepE, stepU, stepB, String.reduceBEq, Bool.false_eq_true, if_false, if_true]
      generalize arg.splitOn ":" = l
      rcases l with _ | ⟨a, _ | ⟨b, _ | ⟨c, l⟩⟩⟩
      · exact ⟨rfl, hs⟩
      · exact ⟨rfl, hs⟩
      · dsimp only
        have ha := bGet_ok hs ((a.drop 1).toString.toNat!)
        split_ifs with c1 c2
        · exact ⟨rfl, hs⟩
        · obtain ⟨e, hv⟩ := bReduce_par h (r := { (bGet s ((a.drop 1).toString.toNat!)) with home := ring }) ha
          exact putB h hs dst e hv _
        · exact putB h hs dst (r := { (bGet s ((a.drop 1).toString.toNat!)) with home := ring }) rfl ha _
      · exact ⟨rfl, hs⟩
    · simp only [step, stepE, stepU, stepB, String.reduceBEq, Bool.false_eq_true, if_false, if_true,
        hF', hF, eGet_eq h.u.base]
      rw [hb']
      refine fin _ _ (B.ofMap_par A C (R := bring env ring) hR ?_).1
        (B.ofMap_par A C (R := bring env ring) hR ?_).2 <;>
      · refine AllM_filterMap _ _ (fun t x ht => ?_)
        split at ht
        · cases ht; exact eValB_ok h hs _
        · cases ht


omit h in
/-- element-level, univariate (all but the raw decoders) and bivariate arithmetic operations -/
def elemOrUOrBOp (op : Op) : Bool := elemOpAll op || uOpAll op || bOp op

theorem step_elemOrUOrB_agree (desc : FieldDesc) {s : St α} (hs : StoreOKB V s) (op : Op)
    (hop : elemOrUOrBOp op = true) :
    step env' desc s op = step env desc s op ∧ StoreOKB V (step env desc s op).1 := by
  unfold elemOrUOrBOp at hop
  rw [Bool.or_eq_true, Bool.or_eq_true] at hop
  rcases hop with (hop | hop) | hop
  · obtain ⟨e, hv⟩ := step_elemAll_agree h.u desc hs.1 op hop
    refine ⟨e, hv, fun k r hk => ?_⟩
    have hw : op.writesB = [] := by
      cases op <;> first | rfl | (simp only [elemOpAll, Bool.false_eq_true] at hop)
    rw [(step_frame' env desc s op).bs k (by rw [hw]; exact List.not_mem_nil)] at hk
    exact hs.2 k r hk
  · obtain ⟨e, hv⟩ := step_uOpAll_agree h.u desc hs.1 op hop
    refine ⟨e, hv, fun k r hk => ?_⟩
    have hw : op.writesB = [] := by
      cases op <;> first | rfl | (simp only [uOpAll, uOp, Bool.false_eq_true] at hop)
    rw [(step_frame' env desc s op).bs k (by rw [hw]; exact List.not_mem_nil)] at hk
    exact hs.2 k r hk
  · exact step_bOp_agree h desc hs op hop

theorem runOps_elemOrUOrB_agree (desc : FieldDesc) (ops : List Op)
    (hops : ∀ op ∈ ops, elemOrUOrBOp op = true) :
    ∀ {s : St α}, StoreOKB V s →
      runOps env' desc s ops = runOps env desc s ops ∧ StoreOKB V (runOps env desc s ops).1 := by
  induction ops with
  | nil => intro s hs; exact ⟨rfl, hs⟩
  | cons op t ih =>
    intro s hs
    obtain ⟨e, hs'⟩ := step_elemOrUOrB_agree h desc hs op (hops op List.mem_cons_self)
    obtain ⟨e2, hs2⟩ := ih (fun o ho => hops o (List.mem_cons_of_mem _ ho)) hs'
    simp only [runOps]
    rw [e, e2]
    exact ⟨rfl, hs2⟩

end StepB
end Tables
end Algobra
