/-
  Proofs/Counting.lean — the COUNTING theorem (C13), abstract part:

  `K` a finite field with `q` elements, `A = K[X,Y] = AddMonoidAlgebra K (ℕ × ℕ)`, `lt` a monomial
  order (`Crit.MonOrd`), an ideal `I` containing the field equations `X^q − X`, `Y^q − Y`, and a
  family `gen`/`ex` inside `I` with the Gröbner property relative to `I` (`Crit.LtProp`).  Then
    * every standard monomial (exponent not divisible by any `ex i`) lies in the box `[0,q)²`
      (`std_subset_box`), and
    * the number of standard monomials equals the number of common zeros of `I` in `K × K`
      (`card_std_eq_card_zeros`).

  Route: `A = I ⊕ NF` (normal forms: polynomials supported on standard monomials; `exists_nf`,
  `nf_inter`); a polynomial vanishing on all of `K × K` lies in `⟨X^q − X, Y^q − Y⟩` (`mem_of_vanish`:
  reduce exponents into the box, then count roots in each variable); with the indicator polynomials
  `ind a` a polynomial vanishing on the zero set `V` of `I` lies in `I` (`mem_of_vanish_on_zeros`);
  so evaluation on `V` is a linear bijection `(standard monomials → K) → (V → K)`.
-/
import Algobra.Proofs.Criterion
import Algobra.Proofs.BPolyRefine
import Mathlib.Algebra.Polynomial.Roots
import Mathlib.Algebra.Polynomial.BigOperators
import Mathlib.FieldTheory.Finite.Basic
import Mathlib.LinearAlgebra.Dimension.Constructions
import Mathlib.LinearAlgebra.FiniteDimensional.Defs

namespace Algobra
namespace Crit

open AddMonoidAlgebra (single)

/-! ### leading exponents of arbitrary polynomials; normal forms -/

section NF
variable {K : Type*} [Field K] {ι : Type*} {lt : D → D → Prop}
  {gen : ι → AddMonoidAlgebra K D} {ex : ι → D}

theorem exists_max (H : MonOrd lt) (s : Finset D) (hs : s.Nonempty) :
    ∃ μ ∈ s, ∀ d ∈ s, ¬ lt μ d := by
  classical
  induction s using Finset.induction_on with
  | empty => exact absurd hs (by simp)
  | insert a s _ ih =>
    by_cases he : s.Nonempty
    · obtain ⟨μ, hμ, hm⟩ := ih he
      rcases H.tri a μ with h | h | h
      · refine ⟨μ, Finset.mem_insert_of_mem hμ, fun d hd => ?_⟩
        rcases Finset.mem_insert.1 hd with rfl | hd
        · exact H.le_of_lt h
        · exact hm d hd
      · subst h
        exact ⟨a, Finset.mem_insert_self _ _, fun d hd => by
          rcases Finset.mem_insert.1 hd with rfl | hd
          · exact H.irrefl _
          · exact hm d hd⟩
      · refine ⟨a, Finset.mem_insert_self _ _, fun d hd => ?_⟩
        rcases Finset.mem_insert.1 hd with rfl | hd
        · exact H.irrefl _
        · exact fun h' => hm d hd (H.trans _ _ _ h h')
    · rw [Finset.not_nonempty_iff_eq_empty] at he
      subst he
      exact ⟨a, by simp, fun d hd => by
        have : d = a := by simpa using hd
        subst this; exact H.irrefl _⟩

/-- every nonzero polynomial has a leading exponent -/
theorem exists_lead (H : MonOrd lt) {f : AddMonoidAlgebra K D} (hf : f ≠ 0) :
    ∃ μ, f.coeff μ ≠ 0 ∧ ∀ d, f.coeff d ≠ 0 → ¬ lt μ d := by
  have hs : f.coeff.support.Nonempty := by
    rw [Finsupp.support_nonempty_iff]
    intro h0; exact hf (AddMonoidAlgebra.coeff_eq_zero.1 h0)
  obtain ⟨μ, hμ, hm⟩ := exists_max H _ hs
  exact ⟨μ, Finsupp.mem_support_iff.1 hμ, fun d hd => hm d (Finsupp.mem_support_iff.2 hd)⟩

/-- the standard exponents: not divisible by any designated leading exponent -/
def Std (ex : ι → D) : Set D := {d | ∀ i, ¬ ex i ≤ d}

/-- the normal forms: polynomials supported on standard exponents -/
def NF (K : Type*) [Field K] (ex : ι → D) : Submodule K (AddMonoidAlgebra K D) where
  carrier := {n | ∀ d, n.coeff d ≠ 0 → d ∈ Std ex}
  add_mem' := by
    intro x y hx hy d hd
    rw [AddMonoidAlgebra.coeff_add, Finsupp.add_apply] at hd
    by_cases h1 : x.coeff d = 0
    · rw [h1, zero_add] at hd; exact hy d hd
    · exact hx d h1
  zero_mem' := by intro d hd; simp at hd
  smul_mem' := by
    intro c x hx d hd
    rw [AddMonoidAlgebra.coeff_smul, Finsupp.smul_apply, smul_eq_mul] at hd
    exact hx d (fun h0 => hd (by rw [h0, mul_zero]))

theorem mem_NF {n : AddMonoidAlgebra K D} : n ∈ NF K ex ↔ ∀ d, n.coeff d ≠ 0 → d ∈ Std ex :=
  Iff.rfl

theorem single_mem_NF {d : D} (hd : d ∈ Std ex) (c : K) : single d c ∈ NF K ex := by
  intro e he
  rw [AddMonoidAlgebra.coeff_single, Finsupp.single_apply] at he
  by_cases h : d = e
  · subst h; exact hd
  · rw [if_neg h] at he; exact absurd rfl he

/-- DIVISION: every polynomial is congruent modulo `I` to a normal form -/
theorem exists_nf (H : MonOrd lt) (hG : GenOK lt gen ex) {I : Ideal (AddMonoidAlgebra K D)}
    (hmem : ∀ i, gen i ∈ I) (f : AddMonoidAlgebra K D) : ∃ n ∈ NF K ex, f - n ∈ I := by
  have key : ∀ μ : D, ∀ f : AddMonoidAlgebra K D, f.coeff μ ≠ 0 →
      (∀ d, f.coeff d ≠ 0 → ¬ lt μ d) → ∃ n ∈ NF K ex, f - n ∈ I := by
    intro μ
    induction μ using H.wf.induction with
    | _ μ ih =>
      intro f hμ hsup
      -- the term to remove: `t`, with `t.coeff μ = f.coeff μ`, exponents `≤ μ`
      obtain ⟨t, ht1, ht2, ht3⟩ : ∃ t : AddMonoidAlgebra K D, t.coeff μ = f.coeff μ ∧
          (∀ d, t.coeff d ≠ 0 → ¬ lt μ d) ∧
          ((t ∈ NF K ex) ∨ (t ∈ I)) := by
        by_cases hs : μ ∈ Std ex
        · refine ⟨single μ (f.coeff μ), by simp, ?_, Or.inl (single_mem_NF hs _)⟩
          intro d hd
          rw [AddMonoidAlgebra.coeff_single, Finsupp.single_apply] at hd
          by_cases h : μ = d
          · subst h; exact H.irrefl _
          · rw [if_neg h] at hd; exact absurd rfl hd
        · simp only [Std, Set.mem_ofPred_eq, not_forall, not_not] at hs
          obtain ⟨i, hi⟩ := hs
          have ha : (μ - ex i) + ex i = μ := by
            ext
            · simp only [Prod.fst_add, Prod.fst_sub]; have := hi.1; omega
            · simp only [Prod.snd_add, Prod.snd_sub]; have := hi.2; omega
          refine ⟨f.coeff μ • mshift gen ex i (μ - ex i), ?_, ?_, Or.inr ?_⟩
          · have e1 := mshift_coeff_top hG i (μ - ex i)
            rw [ha] at e1
            rw [AddMonoidAlgebra.coeff_smul, Finsupp.smul_apply, e1, smul_eq_mul, mul_one]
          · intro d hd
            rw [AddMonoidAlgebra.coeff_smul, Finsupp.smul_apply, smul_eq_mul] at hd
            have := mshift_supp H hG i (μ - ex i) d (fun h0 => hd (by rw [h0, mul_zero]))
            rwa [ha] at this
          · unfold mshift
            exact Submodule.smul_of_tower_mem _ _
              (Submodule.smul_of_tower_mem _ _ (Ideal.mul_mem_left _ _ (hmem i)))
      have hc0 : (f - t).coeff μ = 0 := by
        rw [AddMonoidAlgebra.coeff_sub, Finsupp.sub_apply, ht1, sub_self]
      have hsup' : ∀ d, (f - t).coeff d ≠ 0 → lt d μ := by
        intro d hd
        have hne : d ≠ μ := by rintro rfl; exact hd hc0
        apply H.lt_of_le_of_ne _ hne
        rw [AddMonoidAlgebra.coeff_sub, Finsupp.sub_apply] at hd
        by_cases hfd : f.coeff d = 0
        · rw [hfd, zero_sub, neg_ne_zero] at hd
          exact ht2 d hd
        · exact hsup d hfd
      obtain ⟨n', hn', hI'⟩ : ∃ n' ∈ NF K ex, (f - t) - n' ∈ I := by
        by_cases hz : f - t = 0
        · exact ⟨0, Submodule.zero_mem _, by rw [hz, sub_zero]; exact I.zero_mem⟩
        · obtain ⟨μ', k1, k2⟩ := exists_lead H hz
          exact ih μ' (hsup' _ k1) (f - t) k1 k2
      rcases ht3 with ht | ht
      · refine ⟨n' + t, Submodule.add_mem _ hn' ht, ?_⟩
        have : f - (n' + t) = f - t - n' := by abel
        rw [this]; exact hI'
      · refine ⟨n', hn', ?_⟩
        have : f - n' = (f - t - n') + t := by abel
        rw [this]; exact I.add_mem hI' ht
  by_cases hf : f = 0
  · exact ⟨0, Submodule.zero_mem _, by rw [hf, sub_zero]; exact I.zero_mem⟩
  · obtain ⟨μ, k1, k2⟩ := exists_lead H hf
    exact key μ f k1 k2

/-- a normal form in `I` is zero (the Gröbner property) -/
theorem nf_inter {I : Ideal (AddMonoidAlgebra K D)} (hP : LtProp lt gen ex I)
    {n : AddMonoidAlgebra K D} (hn : n ∈ NF K ex) (hI : n ∈ I) : n = 0 := by
  by_contra hne
  obtain ⟨i, a, -, -, h1, -⟩ := hP n hI hne
  exact hn _ h1 i ⟨by simp, by simp⟩

end NF

/-! ### polynomials vanishing on `K × K` -/

open BPoly (evalHom evalHom_single)

section Vanish
variable {K : Type} [Field K] [Fintype K]

/-- a univariate polynomial function of degree `< q = #K` that vanishes on `K` has zero
    coefficients -/
theorem coeffs_zero_of_vanish {q : ℕ} (hq : Fintype.card K = q) (a : ℕ → K)
    (h : ∀ y : K, ∑ j ∈ Finset.range q, a j * y ^ j = 0) : ∀ j < q, a j = 0 := by
  classical
  have hq0 : 0 < q := by rw [← hq]; exact Fintype.card_pos
  set p : Polynomial K := ∑ j ∈ Finset.range q, Polynomial.C (a j) * Polynomial.X ^ j with hp
  have hev : ∀ y : K, p.eval y = 0 := by
    intro y
    rw [hp, Polynomial.eval_finsetSum]
    simpa using h y
  have hdeg : p.natDegree < Fintype.card K := by
    rw [hq]
    have : p.natDegree ≤ q - 1 := by
      apply Polynomial.natDegree_sum_le_of_forall_le
      intro j hj
      have := Finset.mem_range.1 hj
      exact (Polynomial.natDegree_C_mul_X_pow_le _ _).trans (by omega)
    omega
  have hp0 : p = 0 :=
    Polynomial.eq_zero_of_natDegree_lt_card_of_eval_eq_zero p Function.injective_id hev hdeg
  intro j hj
  have := congrArg (fun r => Polynomial.coeff r j) hp0
  simp only [hp, Polynomial.finsetSum_coeff, Polynomial.coeff_C_mul_X_pow, Polynomial.coeff_zero]
    at this
  rw [Finset.sum_eq_single j] at this
  · simpa using this
  · intro b _ hb; rw [if_neg (Ne.symm hb)]
  · intro hn; exact absurd (Finset.mem_range.2 hj) hn

/-- the box `[0,q)²` -/
def box (q : ℕ) : Finset D := Finset.range q ×ˢ Finset.range q

theorem mem_box {q : ℕ} {d : D} : d ∈ box q ↔ d.1 < q ∧ d.2 < q := by
  simp [box]

omit [Fintype K] in
/-- a polynomial supported on a finite set is the sum of its terms -/
theorem eq_sum_single {n : AddMonoidAlgebra K D} (s : Finset D)
    (hs : ∀ d, n.coeff d ≠ 0 → d ∈ s) : n = ∑ d ∈ s, single d (n.coeff d) := by
  classical
  apply AddMonoidAlgebra.coeff_injective
  ext e
  rw [AddMonoidAlgebra.coeff_sum, Finsupp.finsetSum_apply]
  simp only [AddMonoidAlgebra.coeff_single, Finsupp.single_apply]
  by_cases he : e ∈ s
  · rw [Finset.sum_eq_single e]
    · simp
    · intro b _ hb; rw [if_neg hb]
    · intro hn; exact absurd he hn
  · have h0 : n.coeff e = 0 := by
      by_contra h; exact he (hs e h)
    rw [h0, Finset.sum_eq_zero]
    intro b hb
    rw [if_neg]
    rintro rfl; exact he hb

/-- a polynomial with both degrees `< q` that vanishes on `K × K` is zero -/
theorem box_zero {q : ℕ} (hq : Fintype.card K = q) {n : AddMonoidAlgebra K D}
    (hs : ∀ d, n.coeff d ≠ 0 → d ∈ box q) (hv : ∀ x y : K, evalHom x y n = 0) : n = 0 := by
  have hsum := eq_sum_single (box q) hs
  have hev : ∀ x y : K, ∑ j ∈ Finset.range q,
      (∑ i ∈ Finset.range q, n.coeff (i, j) * x ^ i) * y ^ j = 0 := by
    intro x y
    have := hv x y
    rw [hsum, map_sum] at this
    simp only [evalHom_single] at this
    rw [box, Finset.sum_product_right] at this
    rw [← this]
    apply Finset.sum_congr rfl
    intro j _
    rw [Finset.sum_mul]
  have h1 : ∀ x : K, ∀ j < q, ∑ i ∈ Finset.range q, n.coeff (i, j) * x ^ i = 0 :=
    fun x => coeffs_zero_of_vanish hq _ (hev x)
  have h2 : ∀ j < q, ∀ i < q, n.coeff (i, j) = 0 :=
    fun j hj => coeffs_zero_of_vanish hq _ (fun x => h1 x j hj)
  apply AddMonoidAlgebra.coeff_injective
  ext d
  by_contra hd
  have := mem_box.1 (hs d hd)
  exact hd (h2 d.2 this.2 d.1 this.1)

end Vanish

/-! ### the field equations -/

section FieldEq
variable {K : Type} [Field K] [Fintype K]

/-- the field equations -/
noncomputable def fX (K : Type) [Field K] (q : ℕ) : AddMonoidAlgebra K D :=
  single (q, 0) 1 - single (1, 0) 1
noncomputable def fY (K : Type) [Field K] (q : ℕ) : AddMonoidAlgebra K D :=
  single (0, q) 1 - single (0, 1) 1

/-- the ideal of the field equations -/
noncomputable def J (K : Type) [Field K] (q : ℕ) : Ideal (AddMonoidAlgebra K D) :=
  Ideal.span {fX K q, fY K q}

theorem evalHom_fX {q : ℕ} (hq : Fintype.card K = q) (x y : K) : evalHom x y (fX K q) = 0 := by
  unfold fX
  rw [map_sub, evalHom_single, evalHom_single]
  simp only [one_mul, pow_zero, mul_one, pow_one]
  rw [← hq, FiniteField.pow_card, sub_self]

theorem evalHom_fY {q : ℕ} (hq : Fintype.card K = q) (x y : K) : evalHom x y (fY K q) = 0 := by
  unfold fY
  rw [map_sub, evalHom_single, evalHom_single]
  simp only [one_mul, pow_zero, pow_one]
  rw [← hq, FiniteField.pow_card, sub_self]

theorem evalHom_J {q : ℕ} (hq : Fintype.card K = q) (x y : K) {f : AddMonoidAlgebra K D}
    (hf : f ∈ J K q) : evalHom x y f = 0 := by
  have : J K q ≤ RingHom.ker (evalHom x y) := by
    unfold J
    rw [Ideal.span_le]
    intro g hg
    rcases hg with rfl | rfl
    · exact evalHom_fX hq x y
    · exact evalHom_fY hq x y
  exact this hf

omit [Fintype K] in
/-- every monomial is congruent modulo the field equations to a monomial of the box -/
theorem red_mono {q : ℕ} (hq2 : 2 ≤ q) :
    ∀ (N : ℕ) (d : D), d.1 + d.2 = N → ∃ d' ∈ box q, single d (1 : K) - single d' 1 ∈ J K q := by
  intro N
  induction N using Nat.strong_induction_on with
  | _ N ih =>
    intro d hd
    by_cases h1 : q ≤ d.1
    · obtain ⟨d', hd', hm⟩ := ih (d.1 - q + 1 + d.2) (by omega) (d.1 - q + 1, d.2) rfl
      refine ⟨d', hd', ?_⟩
      have e : single d (1 : K) - single (d.1 - q + 1, d.2) 1
          = single (d.1 - q, d.2) 1 * fX K q := by
        unfold fX
        have e1 : ((d.1 - q, d.2) : D) + (q, 0) = d := by
          ext
          · simp only [Prod.fst_add]; omega
          · simp
        have e2 : ((d.1 - q, d.2) : D) + (1, 0) = (d.1 - q + 1, d.2) := by
          ext <;> simp
        rw [mul_sub, AddMonoidAlgebra.single_mul_single, AddMonoidAlgebra.single_mul_single,
          one_mul, e1, e2]
      have : single d (1 : K) - single d' 1
          = (single d (1 : K) - single (d.1 - q + 1, d.2) 1)
            + (single (d.1 - q + 1, d.2) 1 - single d' 1) := by abel
      rw [this, e]
      exact (J K q).add_mem ((J K q).mul_mem_left _ (Ideal.subset_span (by simp))) hm
    · by_cases h2 : q ≤ d.2
      · obtain ⟨d', hd', hm⟩ := ih (d.1 + (d.2 - q + 1)) (by omega) (d.1, d.2 - q + 1) rfl
        refine ⟨d', hd', ?_⟩
        have e : single d (1 : K) - single (d.1, d.2 - q + 1) 1
            = single (d.1, d.2 - q) 1 * fY K q := by
          unfold fY
          have e1 : ((d.1, d.2 - q) : D) + (0, q) = d := by
            ext
            · simp
            · simp only [Prod.snd_add]; omega
          have e2 : ((d.1, d.2 - q) : D) + (0, 1) = (d.1, d.2 - q + 1) := by
            ext <;> simp
          rw [mul_sub, AddMonoidAlgebra.single_mul_single, AddMonoidAlgebra.single_mul_single,
            one_mul, e1, e2]
        have : single d (1 : K) - single d' 1
            = (single d (1 : K) - single (d.1, d.2 - q + 1) 1)
              + (single (d.1, d.2 - q + 1) 1 - single d' 1) := by abel
        rw [this, e]
        exact (J K q).add_mem ((J K q).mul_mem_left _ (Ideal.subset_span (by simp))) hm
      · exact ⟨d, mem_box.2 ⟨by omega, by omega⟩, by rw [sub_self]; exact (J K q).zero_mem⟩

omit [Fintype K] in
/-- every polynomial is congruent modulo the field equations to one with both degrees `< q` -/
theorem exists_box_rep {q : ℕ} (hq2 : 2 ≤ q) (f : AddMonoidAlgebra K D) :
    ∃ n : AddMonoidAlgebra K D, (∀ d, n.coeff d ≠ 0 → d ∈ box q) ∧ f - n ∈ J K q := by
  induction f using AddMonoidAlgebra.induction_linear with
  | zero => exact ⟨0, by intro d hd; simp at hd, by rw [sub_zero]; exact (J K q).zero_mem⟩
  | add x y hx hy =>
    obtain ⟨n1, a1, b1⟩ := hx
    obtain ⟨n2, a2, b2⟩ := hy
    refine ⟨n1 + n2, ?_, ?_⟩
    · intro d hd
      rw [AddMonoidAlgebra.coeff_add, Finsupp.add_apply] at hd
      by_cases h1 : n1.coeff d = 0
      · rw [h1, zero_add] at hd; exact a2 d hd
      · exact a1 d h1
    · have : x + y - (n1 + n2) = (x - n1) + (y - n2) := by abel
      rw [this]; exact (J K q).add_mem b1 b2
  | single d c =>
    obtain ⟨d', hd', hm⟩ := red_mono (K := K) hq2 _ d rfl
    refine ⟨single d' c, ?_, ?_⟩
    · intro e he
      rw [AddMonoidAlgebra.coeff_single, Finsupp.single_apply] at he
      by_cases h : d' = e
      · subst h; exact hd'
      · rw [if_neg h] at he; exact absurd rfl he
    · have : single d c - single d' c = c • (single d (1 : K) - single d' 1) := by
        rw [smul_sub, AddMonoidAlgebra.smul_single', AddMonoidAlgebra.smul_single', mul_one]
      rw [this]
      exact Submodule.smul_of_tower_mem _ _ hm

/-- a polynomial vanishing on all of `K × K` lies in the ideal of the field equations -/
theorem mem_of_vanish {q : ℕ} (hq : Fintype.card K = q) {f : AddMonoidAlgebra K D}
    (hv : ∀ x y : K, evalHom x y f = 0) : f ∈ J K q := by
  have hq2 : 2 ≤ q := by rw [← hq]; exact Fintype.one_lt_card
  obtain ⟨n, hn, hm⟩ := exists_box_rep (K := K) hq2 f
  have hz : n = 0 := by
    apply box_zero hq hn
    intro x y
    have := evalHom_J hq x y hm
    rw [map_sub, hv x y, zero_sub, neg_eq_zero] at this
    exact this
  rw [hz, sub_zero] at hm
  exact hm

end FieldEq

/-! ### indicator polynomials; the Nullstellensatz over a finite field -/

section Indicator
variable {K : Type} [Field K] [Fintype K] [DecidableEq K]

/-- the indicator polynomial of the point `a`: `(1 − (X − a₁)^(q−1)) (1 − (Y − a₂)^(q−1))` -/
noncomputable def ind (q : ℕ) (a : K × K) : AddMonoidAlgebra K D :=
  (1 - (single (1, 0) 1 - single 0 a.1) ^ (q - 1)) * (1 - (single (0, 1) 1 - single 0 a.2) ^ (q - 1))

theorem one_sub_pow_eq {q : ℕ} (hq : Fintype.card K = q) (z : K) :
    1 - z ^ (q - 1) = if z = 0 then 1 else 0 := by
  have hq2 : 2 ≤ q := by rw [← hq]; exact Fintype.one_lt_card
  by_cases hz : z = 0
  · rw [if_pos hz, hz, zero_pow (by omega), sub_zero]
  · rw [if_neg hz, ← hq, FiniteField.pow_card_sub_one_eq_one z hz, sub_self]

theorem evalHom_ind {q : ℕ} (hq : Fintype.card K = q) (a b : K × K) :
    evalHom b.1 b.2 (ind q a) = if a = b then 1 else 0 := by
  classical
  unfold ind
  rw [map_mul, map_sub, map_sub, map_one, map_pow, map_pow, map_sub, map_sub, evalHom_single,
    evalHom_single, evalHom_single, evalHom_single]
  simp only [one_mul, pow_one, pow_zero, mul_one, Prod.fst_zero, Prod.snd_zero]
  rw [one_sub_pow_eq hq, one_sub_pow_eq hq]
  by_cases h : a = b
  · subst h; simp
  · rw [if_neg h]
    by_cases h1 : b.1 - a.1 = 0
    · have h2 : ¬ b.2 - a.2 = 0 := by
        intro h2
        exact h (Prod.ext (sub_eq_zero.1 h1).symm (sub_eq_zero.1 h2).symm)
      rw [if_neg h2, mul_zero]
    · rw [if_neg h1, zero_mul]

/-- the zero set of an ideal -/
def zeros (I : Ideal (AddMonoidAlgebra K D)) : Set (K × K) :=
  {a | ∀ g ∈ I, evalHom a.1 a.2 g = 0}

/-- NULLSTELLENSATZ over the finite field: if `I` contains the field equations, a polynomial
    vanishing on the zero set of `I` lies in `I` -/
theorem mem_of_vanish_on_zeros {q : ℕ} (hq : Fintype.card K = q)
    {I : Ideal (AddMonoidAlgebra K D)} (hJ : J K q ≤ I) {f : AddMonoidAlgebra K D}
    (hv : ∀ a ∈ zeros I, evalHom a.1 a.2 f = 0) : f ∈ I := by
  classical
  set h : AddMonoidAlgebra K D := ∑ a : K × K, evalHom a.1 a.2 f • ind q a with hh
  have hev : ∀ b : K × K, evalHom b.1 b.2 h = evalHom b.1 b.2 f := by
    intro b
    rw [hh, map_sum]
    simp only [map_smul, evalHom_ind hq, smul_eq_mul, mul_ite, mul_one, mul_zero]
    rw [Finset.sum_eq_single b]
    · simp
    · intro c _ hc; rw [if_neg hc]
    · intro hn; exact absurd (Finset.mem_univ b) hn
  have h1 : f - h ∈ I := hJ (mem_of_vanish hq (fun x y => by
    rw [map_sub, hev (x, y), sub_self]))
  have h2 : h ∈ I := by
    rw [hh]
    apply Ideal.sum_mem
    intro a _
    by_cases ha : a ∈ zeros I
    · rw [hv a ha, zero_smul]; exact I.zero_mem
    · apply Submodule.smul_of_tower_mem
      simp only [zeros, Set.mem_ofPred_eq, not_forall] at ha
      obtain ⟨g, hg, hga⟩ := ha
      have h3 : ind q a - (evalHom a.1 a.2 g)⁻¹ • (ind q a * g) ∈ I := hJ (mem_of_vanish hq
        (fun x y => by
          rw [map_sub, map_smul, map_mul, evalHom_ind hq a (x, y), smul_eq_mul]
          by_cases hab : a = (x, y)
          · subst hab
            simp only [if_true, one_mul]
            rw [inv_mul_cancel₀ hga, sub_self]
          · rw [if_neg hab]; simp))
      have h4 : (evalHom a.1 a.2 g)⁻¹ • (ind q a * g) ∈ I :=
        Submodule.smul_of_tower_mem _ _ (I.mul_mem_left _ hg)
      have : ind q a = (ind q a - (evalHom a.1 a.2 g)⁻¹ • (ind q a * g))
          + (evalHom a.1 a.2 g)⁻¹ • (ind q a * g) := by abel
      rw [this]; exact I.add_mem h3 h4
  have : f = (f - h) + h := by abel
  rw [this]; exact I.add_mem h1 h2

end Indicator

/-! ### the counting theorem -/

section Count
variable {K : Type} [Field K] [Fintype K] [DecidableEq K] {ι : Type*} {lt : D → D → Prop}
  {gen : ι → AddMonoidAlgebra K D} {ex : ι → D}

/-- the polynomial with prescribed coefficients on a finite set of exponents -/
noncomputable def polyOf (S : Finset D) (φ : ↥S → K) : AddMonoidAlgebra K D :=
  ∑ d : ↥S, single d.1 (φ d)

omit [Fintype K] [DecidableEq K] in
theorem polyOf_coeff (S : Finset D) (φ : ↥S → K) (d : ↥S) : (polyOf S φ).coeff d.1 = φ d := by
  classical
  unfold polyOf
  rw [AddMonoidAlgebra.coeff_sum, Finsupp.finsetSum_apply]
  simp only [AddMonoidAlgebra.coeff_single, Finsupp.single_apply]
  rw [Finset.sum_eq_single d]
  · simp
  · intro b _ hb
    rw [if_neg]
    intro h; exact hb (Subtype.ext h)
  · intro hn; exact absurd (Finset.mem_univ d) hn

omit [Fintype K] [DecidableEq K] in
theorem polyOf_supp (S : Finset D) (φ : ↥S → K) (e : D) (he : (polyOf S φ).coeff e ≠ 0) :
    e ∈ S := by
  classical
  unfold polyOf at he
  rw [AddMonoidAlgebra.coeff_sum, Finsupp.finsetSum_apply] at he
  obtain ⟨d, -, hd⟩ := Finset.exists_ne_zero_of_sum_ne_zero he
  rw [AddMonoidAlgebra.coeff_single, Finsupp.single_apply] at hd
  by_cases h : d.1 = e
  · rw [← h]; exact d.2
  · rw [if_neg h] at hd; exact absurd rfl hd

omit [Fintype K] [DecidableEq K] in
theorem evalHom_polyOf (S : Finset D) (φ : ↥S → K) (x y : K) :
    evalHom x y (polyOf S φ) = ∑ d : ↥S, φ d * x ^ d.1.1 * y ^ d.1.2 := by
  unfold polyOf
  rw [map_sum]
  simp only [evalHom_single]

omit [Fintype K] [DecidableEq K] in
theorem polyOf_coeff_eq {S : Finset D} {n : AddMonoidAlgebra K D}
    (hs : ∀ d, n.coeff d ≠ 0 → d ∈ S) : polyOf S (fun d => n.coeff d.1) = n := by
  unfold polyOf
  rw [Finset.sum_coe_sort S (fun d => single d (n.coeff d))]
  exact (eq_sum_single S hs).symm

/-- evaluation of the polynomials supported on `S` at the points of `V`, as a linear map -/
noncomputable def evalMap (S : Finset D) (V : Finset (K × K)) : (↥S → K) →ₗ[K] (↥V → K) where
  toFun φ := fun a => ∑ d : ↥S, φ d * a.1.1 ^ d.1.1 * a.1.2 ^ d.1.2
  map_add' φ ψ := by
    funext a
    simp only [Pi.add_apply, add_mul, Finset.sum_add_distrib]
  map_smul' c φ := by
    funext a
    simp only [Pi.smul_apply, smul_eq_mul, RingHom.id_apply, Finset.mul_sum, mul_assoc]

/-- **COUNTING (abstract form)**: for an ideal `I` containing the field equations and a family with
    the Gröbner property relative to `I`, the number of standard exponents equals the number of
    zeros of `I` in `K × K` -/
theorem card_std_eq_card_zeros (H : MonOrd lt) {q : ℕ} (hq : Fintype.card K = q)
    (hG : GenOK lt gen ex) {I : Ideal (AddMonoidAlgebra K D)} (hmem : ∀ i, gen i ∈ I)
    (hP : LtProp lt gen ex I) (hJ : J K q ≤ I)
    (S : Finset D) (hS : ∀ d, d ∈ S ↔ d ∈ Std ex)
    (V : Finset (K × K)) (hV : ∀ a, a ∈ V ↔ a ∈ zeros I) : S.card = V.card := by
  have hinj : Function.Injective (evalMap S V) := by
    rw [← LinearMap.ker_eq_bot, LinearMap.ker_eq_bot']
    intro φ hφ
    have hn : polyOf S φ ∈ NF K ex := fun e he => (hS e).1 (polyOf_supp S φ e he)
    have hI : polyOf S φ ∈ I := by
      apply mem_of_vanish_on_zeros hq hJ
      intro a ha
      rw [evalHom_polyOf]
      exact congrFun hφ ⟨a, (hV a).2 ha⟩
    have h0 := nf_inter hP hn hI
    funext d
    rw [← polyOf_coeff S φ d, h0]
    rfl
  have hsurj : Function.Surjective (evalMap S V) := by
    intro ψ
    set f : AddMonoidAlgebra K D := ∑ a : ↥V, ψ a • ind q a.1 with hf
    have hev : ∀ b : ↥V, evalHom b.1.1 b.1.2 f = ψ b := by
      intro b
      rw [hf, map_sum]
      simp only [map_smul, evalHom_ind hq, smul_eq_mul, mul_ite, mul_one, mul_zero]
      rw [Finset.sum_eq_single b]
      · simp
      · intro c _ hc
        rw [if_neg]
        intro h; exact hc (Subtype.ext h)
      · intro hn; exact absurd (Finset.mem_univ b) hn
    obtain ⟨n, hn, hI⟩ := exists_nf (K := K) H hG hmem f
    refine ⟨fun d => n.coeff d.1, ?_⟩
    funext b
    have hb : b.1 ∈ zeros I := (hV b.1).1 b.2
    show ∑ d : ↥S, n.coeff d.1 * b.1.1 ^ d.1.1 * b.1.2 ^ d.1.2 = ψ b
    rw [← evalHom_polyOf S (fun d => n.coeff d.1), polyOf_coeff_eq (fun d hd => (hS d).2 (hn d hd)),
      ← hev b]
    have := hb _ hI
    rw [map_sub, sub_eq_zero] at this
    exact this.symm
  have e := LinearEquiv.ofBijective (evalMap S V) ⟨hinj, hsurj⟩
  have := e.finrank_eq
  rw [Module.finrank_fintype_fun_eq_card, Module.finrank_fintype_fun_eq_card,
    Fintype.card_coe, Fintype.card_coe] at this
  exact this

end Count

/-! ### standard exponents lie in the box -/

section Box
variable {K : Type} [Field K] {ι : Type*} {lt : D → D → Prop}
  {gen : ι → AddMonoidAlgebra K D} {ex : ι → D}

/-- the leading exponent of `X^a − X^b`-like binomials: if `I` contains `single u 1 − single v 1`
    with `v ≤ u`, `v ≠ u`, some designated leading exponent divides `u` -/
theorem exists_ex_le_of_binomial (H : MonOrd lt) {I : Ideal (AddMonoidAlgebra K D)}
    (hP : LtProp lt gen ex I) {u v : D} (hvu : v ≤ u) (hne : v ≠ u)
    (hI : single u (1 : K) - single v 1 ∈ I) : ∃ i, ex i ≤ u := by
  have hlt : lt v u := H.lt_of_le_of_ne (H.le_of_dvd hvu) hne
  have hcu : (single u (1 : K) - single v 1).coeff u = 1 := by
    rw [AddMonoidAlgebra.coeff_sub, Finsupp.sub_apply, AddMonoidAlgebra.coeff_single,
      AddMonoidAlgebra.coeff_single, Finsupp.single_eq_same, Finsupp.single_eq_of_ne (Ne.symm hne),
      sub_zero]
  have hne0 : single u (1 : K) - single v 1 ≠ 0 := by
    intro h0; rw [h0] at hcu; simp at hcu
  obtain ⟨i, a, -, -, h1, h2⟩ := hP _ hI hne0
  have hmem : a + ex i = u ∨ a + ex i = v := by
    by_contra hc
    rw [not_or] at hc
    apply h1
    rw [AddMonoidAlgebra.coeff_sub, Finsupp.sub_apply, AddMonoidAlgebra.coeff_single,
      AddMonoidAlgebra.coeff_single, Finsupp.single_eq_of_ne hc.1,
      Finsupp.single_eq_of_ne hc.2, sub_zero]
  rcases hmem with h | h
  · exact ⟨i, by rw [← h]; exact ⟨by simp, by simp⟩⟩
  · exfalso
    rw [h] at h2
    exact h2 u (by rw [hcu]; exact one_ne_zero) hlt

/-- with the field equations in `I`, every standard exponent lies in the box `[0,q)²` -/
theorem std_subset_box (H : MonOrd lt) {q : ℕ} (hq2 : 2 ≤ q)
    {I : Ideal (AddMonoidAlgebra K D)} (hP : LtProp lt gen ex I) (hJ : J K q ≤ I)
    {d : D} (hd : d ∈ Std ex) : d ∈ box q := by
  have hX : fX K q ∈ I := hJ (Ideal.subset_span (by simp))
  have hY : fY K q ∈ I := hJ (Ideal.subset_span (by simp))
  obtain ⟨i, hi⟩ := exists_ex_le_of_binomial H hP (u := (q, 0)) (v := (1, 0))
    ⟨by simp; omega, by simp⟩ (by intro h; have := congrArg Prod.fst h; simp at this; omega) hX
  obtain ⟨j, hj⟩ := exists_ex_le_of_binomial H hP (u := (0, q)) (v := (0, 1))
    ⟨by simp, by simp; omega⟩ (by intro h; have := congrArg Prod.snd h; simp at this; omega) hY
  rw [mem_box]
  constructor
  · by_contra hc
    exact hd i ⟨le_trans hi.1 (by simp; omega), le_trans hi.2 (by simp)⟩
  · by_contra hc
    exact hd j ⟨le_trans hj.1 (by simp), le_trans hj.2 (by simp; omega)⟩

end Box

end Crit
end Algobra
