/-
  Props/C03.lean — property C03: the `Define` functions accept exactly the supported prime powers,
  and a field so obtained has the right shape (`Card`, `Char`, `Elements`, `MultGenerator`).

  Model functions: `Algobra.Define.{prime, bin, ext, any}`, `Algobra.FieldDesc.{card, char}`,
  `Algobra.Conway.lookupIn` (Model/Conway.lean); `Algobra.Prime.{define, multGenerator}`,
  `Algobra.Bin.{card, polyFromCoefs}` (Model/Field.lean); `Algobra.Ext.card` (Model/Ext.lean).
  Go source: /repo/finitefield/finitefield.go, primefield/primefield.go, binfield/binfield.go,
  extfield/extfield.go.

  All arguments are machine words (`q < 2^64`).  The database text `db` is arbitrary in every
  statement about `Define.bin`, `Define.ext`, `Define.any`: "a defining polynomial is available"
  is `Conway.lookupIn db p n = .ok cs`.
-/
import Algobra.Proofs.Define

namespace Algobra.C03
open Algobra

/-! ## 1. primefield.Define -/

/-- `primefield.Define(q)` succeeds exactly for the primes `q` with `q - 1 < 2^32`
    (`1 <<< (uintSize/2) = 2^32`, `Define.shift_half`), and the field is the one of `q` elements. -/
theorem define_prime_iff {q : Nat} (hq : q < 2 ^ 64) (d : FieldDesc) :
    Define.prime q = .ok d ↔ d = .prime q ∧ q.Prime ∧ q - 1 < 2 ^ 32 := by
  rw [Define.prime_eq hq]
  constructor
  · intro h
    split at h
    · cases h
    · split at h
      · cases h
      · split at h
        · rename_i h32 hp
          injection h with h
          exact ⟨h.symm, hp, by omega⟩
        · cases h
  · rintro ⟨rfl, hp, h32⟩
    rw [if_neg hp.ne_zero, if_neg (by omega), if_pos hp]

/-- the limit of the model is literally the one of the code -/
theorem define_prime_limit : (1 : Nat) <<< (uintSize / 2) = 2 ^ 32 := Define.shift_half

theorem define_prime_zero : Define.prime 0 = .error .inputValue := by
  rw [Define.prime_eq (by norm_num)]; rfl

/-- beyond the limit: InputTooLarge — whatever `q` is (the size test precedes the primality test) -/
theorem define_prime_too_large {q : Nat} (hq : q < 2 ^ 64) (h1 : 1 ≤ q) (h : q - 1 ≥ 2 ^ 32) :
    Define.prime q = .error .inputTooLarge := by
  rw [Define.prime_eq hq, if_neg (by omega), if_pos h]

/-- FINDING PF-14: a composite (or any non-prime-power) above `2^32` is refused with InputTooLarge,
    not InputValue as the property text ("InputValue when it is not such a prime power") demands:
    the size test comes first in the code.  Stated exactly as the model (and the code) behaves. -/
theorem define_prime_composite_large {q : Nat} (hq : q < 2 ^ 64) (_hc : ¬ q.Prime)
    (h : q - 1 ≥ 2 ^ 32) : Define.prime q = .error .inputTooLarge :=
  define_prime_too_large hq (by have : (0:ℕ) < 2 ^ 32 := by norm_num
                                omega) h

/-- within the limit, a non-prime is refused with InputValue -/
theorem define_prime_not_prime {q : Nat} (hq : q < 2 ^ 64) (h0 : q ≠ 0) (h32 : q - 1 < 2 ^ 32)
    (hp : ¬ q.Prime) : Define.prime q = .error .inputValue := by
  rw [Define.prime_eq hq, if_neg h0, if_neg (by omega), if_neg hp]

/-- complete classification of the refusals of `primefield.Define` -/
theorem define_prime_error_iff {q : Nat} (hq : q < 2 ^ 64) (k : Kind) :
    Define.prime q = .error k ↔
      (k = .inputTooLarge ∧ 1 ≤ q ∧ q - 1 ≥ 2 ^ 32) ∨
      (k = .inputValue ∧ (q = 0 ∨ (q - 1 < 2 ^ 32 ∧ ¬ q.Prime))) := by
  rw [Define.prime_eq hq]
  constructor
  · intro h
    split at h
    · rename_i h0
      injection h with h
      exact Or.inr ⟨h.symm, Or.inl h0⟩
    · split at h
      · rename_i h0 h32
        injection h with h
        exact Or.inl ⟨h.symm, by omega, h32⟩
      · split at h
        · cases h
        · rename_i h0 h32 hp
          injection h with h
          exact Or.inr ⟨h.symm, Or.inr ⟨by omega, hp⟩⟩
  · rintro (⟨rfl, h1, h32⟩ | ⟨rfl, h0 | ⟨h32, hp⟩⟩)
    · rw [if_neg (by omega), if_pos h32]
    · rw [if_pos h0]
    · by_cases h0 : q = 0
      · rw [if_pos h0]
      · rw [if_neg h0, if_neg (by omega), if_neg hp]

-- non-vacuity and sanity evaluations
example : (7 : Nat) < 2 ^ 64 ∧ Nat.Prime 7 ∧ 7 - 1 < 2 ^ 32 := by norm_num
example : Define.prime 7 = .ok (.prime 7) := by decide +kernel
example : Define.prime 9 = .error .inputValue := by decide +kernel
example : Define.prime 1 = .error .inputValue := by decide +kernel
example : Define.prime (2 ^ 40) = .error .inputTooLarge := by decide +kernel
-- PF-14 instance: 2^40 is not a prime, is a word, and exceeds the limit
example : (2 ^ 40 : Nat) < 2 ^ 64 ∧ ¬ Nat.Prime (2 ^ 40) ∧ 2 ^ 40 - 1 ≥ 2 ^ 32 := by
  refine ⟨by norm_num, ?_, by norm_num⟩
  exact Nat.not_prime_of_dvd_of_lt (m := 2) (by norm_num) (by norm_num) (by norm_num)
-- PF-14 instance that is not even a prime power: 6·2^32
example : Define.prime (6 * 2 ^ 32) = .error .inputTooLarge := by decide +kernel
-- the largest admissible argument and the first refused one
example : Define.prime 4294967291 = .ok (.prime 4294967291) := by decide +kernel
example : Define.prime (2 ^ 32 + 15) = .error .inputTooLarge := by decide +kernel

/-! ## 2. binfield.Define -/

/-- `binfield.Define(q)` over the database text `db` succeeds exactly for `q = 2^n`, `1 ≤ n ≤ 32`,
    for which the lookup of a Conway polynomial succeeds. -/
theorem define_bin_iff (db : String) {q : Nat} (hq : q < 2 ^ 64) (d : FieldDesc) :
    Define.bin db q = .ok d ↔
      ∃ n cs, q = 2 ^ n ∧ 1 ≤ n ∧ n ≤ 32 ∧ Conway.lookupIn db 2 n = .ok cs ∧
        d = .bin n (Bin.polyFromCoefs cs) := by
  by_cases hpow : ∃ n, 0 < n ∧ q = 2 ^ n
  · obtain ⟨n, hn, rfl⟩ := hpow
    rw [Define.bin_pow db hn hq]
    constructor
    · intro h
      split at h
      · cases h
      · rename_i h32
        cases hl : Conway.lookupIn db 2 n with
        | error k => rw [hl] at h; cases h
        | ok cs =>
          rw [hl] at h
          injection h with h
          exact ⟨n, cs, rfl, hn, by omega, hl, h.symm⟩
    · rintro ⟨n', cs, he, h1, h32, hl, rfl⟩
      have : n = n' := Nat.pow_right_injective (le_refl 2) he
      subst this
      rw [if_neg (by omega), hl]
  · rw [Define.bin_not_pow db hq hpow]
    constructor
    · intro h; cases h
    · rintro ⟨n, cs, he, h1, -⟩
      exact absurd ⟨n, h1, he⟩ hpow

/-- not a power of two `2^n`, `n ≥ 1` (so: 0, 1, odd primes and their powers, composites that are
    not prime powers): InputValue -/
theorem define_bin_not_pow (db : String) {q : Nat} (hq : q < 2 ^ 64)
    (h : ¬ ∃ n, 1 ≤ n ∧ q = 2 ^ n) : Define.bin db q = .error .inputValue :=
  Define.bin_not_pow db hq h

/-- a power of two beyond the limit `bits.UintSize/2 = 32`: InputTooLarge -/
theorem define_bin_too_large (db : String) {n : Nat} (h32 : 32 < n) (hq : 2 ^ n < 2 ^ 64) :
    Define.bin db (2 ^ n) = .error .inputTooLarge := by
  rw [Define.bin_pow db (by omega) hq, if_pos h32]

/-- within the limit, the error kind of a failed lookup is inherited -/
theorem define_bin_lookup_error (db : String) {n : Nat} {k : Kind} (h1 : 1 ≤ n) (h32 : n ≤ 32)
    (hl : Conway.lookupIn db 2 n = .error k) : Define.bin db (2 ^ n) = .error k := by
  have hq : 2 ^ n < 2 ^ 64 := Nat.pow_lt_pow_right (by omega) (by omega)
  rw [Define.bin_pow db h1 hq, if_neg (by omega), hl]

/-- complete classification of the refusals of `binfield.Define` -/
theorem define_bin_error_iff (db : String) {q : Nat} (hq : q < 2 ^ 64) (k : Kind) :
    Define.bin db q = .error k ↔
      (k = .inputValue ∧ ¬ ∃ n, 1 ≤ n ∧ q = 2 ^ n) ∨
      (k = .inputTooLarge ∧ ∃ n, 32 < n ∧ q = 2 ^ n) ∨
      (∃ n, 1 ≤ n ∧ n ≤ 32 ∧ q = 2 ^ n ∧ Conway.lookupIn db 2 n = .error k) := by
  by_cases hpow : ∃ n, 0 < n ∧ q = 2 ^ n
  · obtain ⟨n, hn, rfl⟩ := hpow
    have hinj : ∀ {m}, 2 ^ n = 2 ^ m → n = m := fun h => Nat.pow_right_injective (le_refl 2) h
    rw [Define.bin_pow db hn hq]
    constructor
    · intro h
      split at h
      · rename_i h32
        injection h with h
        exact Or.inr (Or.inl ⟨h.symm, n, h32, rfl⟩)
      · rename_i h32
        cases hl : Conway.lookupIn db 2 n with
        | error k' =>
          rw [hl] at h
          injection h with h
          exact Or.inr (Or.inr ⟨n, hn, by omega, rfl, h ▸ hl⟩)
        | ok cs => rw [hl] at h; cases h
    · rintro (⟨-, hno⟩ | ⟨rfl, m, h32, he⟩ | ⟨m, h1, h32, he, hl⟩)
      · exact absurd ⟨n, hn, rfl⟩ hno
      · obtain rfl := hinj he
        rw [if_pos h32]
      · obtain rfl := hinj he
        rw [if_neg (by omega), hl]
  · rw [Define.bin_not_pow db hq hpow]
    constructor
    · intro h
      injection h with h
      exact Or.inl ⟨h.symm, hpow⟩
    · rintro (⟨rfl, -⟩ | ⟨-, m, h32, he⟩ | ⟨m, h1, -, he, -⟩)
      · rfl
      · exact absurd ⟨m, by omega, he⟩ hpow
      · exact absurd ⟨m, h1, he⟩ hpow

-- non-vacuity (hypothesis style: the String functions of `lookupIn` do not reduce in the kernel)
example (db : String) (cs : List Nat) (h : Conway.lookupIn db 2 3 = .ok cs) :
    Define.bin db 8 = .ok (.bin 3 (Bin.polyFromCoefs cs)) :=
  (define_bin_iff db (by norm_num) _).2 ⟨3, cs, by norm_num, by norm_num, by norm_num, h, rfl⟩
example : Bin.polyFromCoefs [1, 1, 0, 1] = 11 := by decide
example (db : String) : Define.bin db 0 = .error .inputValue := rfl
example (db : String) : Define.bin db 1 = .error .inputValue := by
  have h : Auxmath.factorizePrimePower 1 = .error .inputValue := by decide +kernel
  simp [Define.bin, h]
example (db : String) : Define.bin db 9 = .error .inputValue := by
  have h : Auxmath.factorizePrimePower 9 = .ok (3, 2) := by decide +kernel
  simp [Define.bin, h]
example (db : String) : Define.bin db 12 = .error .inputValue := by
  have h : Auxmath.factorizePrimePower 12 = .error .inputValue := by decide +kernel
  simp [Define.bin, h]
example (db : String) : Define.bin db (2 ^ 33) = .error .inputTooLarge :=
  define_bin_too_large db (by norm_num) (by norm_num)
example (db : String) : Define.bin db (2 ^ 63) = .error .inputTooLarge := by
  have h : Auxmath.factorizePrimePower (2 ^ 63) = .ok (2, 63) := by decide +kernel
  unfold Define.bin
  rw [h]
  simp [uintSize]

/-! ## 3. extfield.Define -/

/-- `PolynomialFromUnsigned` in the polynomial ring without modulus is total, so the
    `.error .internal` branch of the model's `Define.ext` is unreachable -/
theorem ofNats_total (p : Nat) (cs : List Nat) :
    ∃ g, UPoly.ofNats ⟨primeOps p, "a", none⟩ cs = some g :=
  Define.ofNats_none_some _ _ _

/-- `extfield.Define(q)` succeeds exactly for the prime powers `q = p^n` (`n ≥ 1`, any prime `p`
    including 2) whose prime field is admissible (`p - 1 < 2^32`) and for which the lookup of a
    Conway polynomial succeeds; the field is `F_p[a]/(g)` with `g` the normalised Conway
    polynomial. -/
theorem define_ext_iff (db : String) {q : Nat} (hq : q < 2 ^ 64) (d : FieldDesc) :
    Define.ext db q = .ok d ↔
      ∃ p n cs g, p.Prime ∧ 0 < n ∧ q = p ^ n ∧ p - 1 < 2 ^ 32 ∧
        Conway.lookupIn db p n = .ok cs ∧
        UPoly.ofNats ⟨primeOps p, "a", none⟩ cs = some g ∧
        d = .ext p n (UPoly.normalize (primeOps p) g) := by
  by_cases hpp : ∃ p n, p.Prime ∧ 0 < n ∧ q = p ^ n
  · obtain ⟨p, n, hp, hn, rfl⟩ := hpp
    rw [Define.ext_pp db hp hn hq]
    constructor
    · intro h
      split at h
      · cases h
      · rename_i h32
        cases hl : Conway.lookupIn db p n with
        | error k => rw [hl] at h; cases h
        | ok cs =>
          obtain ⟨g, hg⟩ := ofNats_total p cs
          rw [hl] at h
          simp only [hg] at h
          injection h with h
          exact ⟨p, n, cs, g, hp, hn, rfl, by omega, hl, hg, h.symm⟩
    · rintro ⟨p', n', cs, g, hp', hn', he, h32, hl, hg, rfl⟩
      obtain ⟨rfl, rfl⟩ := Define.pp_unique hp hp' hn hn' he
      rw [if_neg (by omega), hl]
      simp only [hg]
  · rw [Define.ext_not_pp db hq hpp]
    constructor
    · intro h; cases h
    · rintro ⟨p, n, cs, g, hp, hn, he, -⟩
      exact absurd ⟨p, n, hp, hn, he⟩ hpp

/-- not a prime power (including 0 and 1): InputValue -/
theorem define_ext_not_pp (db : String) {q : Nat} (hq : q < 2 ^ 64)
    (h : ¬ ∃ p n, p.Prime ∧ 0 < n ∧ q = p ^ n) : Define.ext db q = .error .inputValue :=
  Define.ext_not_pp db hq h

/-- the prime field is beyond the limit of `primefield.Define`: InputTooLarge (inherited).
    (With `p^n < 2^64` this happens only for `n = 1`.) -/
theorem define_ext_too_large (db : String) {p n : Nat} (hp : p.Prime) (hn : 0 < n)
    (hq : p ^ n < 2 ^ 64) (h32 : p - 1 ≥ 2 ^ 32) :
    Define.ext db (p ^ n) = .error .inputTooLarge := by
  rw [Define.ext_pp db hp hn hq, if_pos h32]

/-- otherwise the error kind of a failed lookup is inherited -/
theorem define_ext_lookup_error (db : String) {p n : Nat} {k : Kind} (hp : p.Prime) (hn : 0 < n)
    (hq : p ^ n < 2 ^ 64) (h32 : p - 1 < 2 ^ 32) (hl : Conway.lookupIn db p n = .error k) :
    Define.ext db (p ^ n) = .error k := by
  rw [Define.ext_pp db hp hn hq, if_neg (by omega), hl]

/-- complete classification of the refusals of `extfield.Define` -/
theorem define_ext_error_iff (db : String) {q : Nat} (hq : q < 2 ^ 64) (k : Kind) :
    Define.ext db q = .error k ↔
      (k = .inputValue ∧ ¬ ∃ p n, p.Prime ∧ 0 < n ∧ q = p ^ n) ∨
      (k = .inputTooLarge ∧ ∃ p n, p.Prime ∧ 0 < n ∧ q = p ^ n ∧ p - 1 ≥ 2 ^ 32) ∨
      (∃ p n, p.Prime ∧ 0 < n ∧ q = p ^ n ∧ p - 1 < 2 ^ 32 ∧
        Conway.lookupIn db p n = .error k) := by
  by_cases hpp : ∃ p n, p.Prime ∧ 0 < n ∧ q = p ^ n
  · obtain ⟨p, n, hp, hn, rfl⟩ := hpp
    rw [Define.ext_pp db hp hn hq]
    constructor
    · intro h
      split at h
      · rename_i h32
        injection h with h
        exact Or.inr (Or.inl ⟨h.symm, p, n, hp, hn, rfl, h32⟩)
      · rename_i h32
        cases hl : Conway.lookupIn db p n with
        | error k' =>
          rw [hl] at h
          injection h with h
          exact Or.inr (Or.inr ⟨p, n, hp, hn, rfl, by omega, h ▸ hl⟩)
        | ok cs =>
          obtain ⟨g, hg⟩ := ofNats_total p cs
          rw [hl] at h
          simp only [hg] at h
          cases h
    · rintro (⟨-, hno⟩ | ⟨rfl, p', n', hp', hn', he, h32⟩ | ⟨p', n', hp', hn', he, h32, hl⟩)
      · exact absurd ⟨p, n, hp, hn, rfl⟩ hno
      · obtain ⟨rfl, rfl⟩ := Define.pp_unique hp hp' hn hn' he
        rw [if_pos h32]
      · obtain ⟨rfl, rfl⟩ := Define.pp_unique hp hp' hn hn' he
        rw [if_neg (by omega), hl]
  · rw [Define.ext_not_pp db hq hpp]
    constructor
    · intro h
      injection h with h
      exact Or.inl ⟨h.symm, hpp⟩
    · rintro (⟨rfl, -⟩ | ⟨-, p, n, hp, hn, he, -⟩ | ⟨p, n, hp, hn, he, -⟩)
      · rfl
      · exact absurd ⟨p, n, hp, hn, he⟩ hpp
      · exact absurd ⟨p, n, hp, hn, he⟩ hpp

-- non-vacuity (hypothesis style for the lookup)
example (db : String) (cs : List Nat) (h : Conway.lookupIn db 3 2 = .ok cs) :
    ∃ g, UPoly.ofNats ⟨primeOps 3, "a", none⟩ cs = some g ∧
      Define.ext db 9 = .ok (.ext 3 2 (UPoly.normalize (primeOps 3) g)) := by
  obtain ⟨g, hg⟩ := ofNats_total 3 cs
  exact ⟨g, hg, (define_ext_iff db (by norm_num) _).2
    ⟨3, 2, cs, g, by norm_num, by norm_num, by norm_num, by norm_num, h, hg, rfl⟩⟩
example : UPoly.ofNats ⟨primeOps 3, "a", none⟩ [2, 2, 1] = some [2, 2, 1] := by decide +kernel
example : UPoly.normalize (primeOps 3) [2, 2, 1] = [2, 2, 1] := by decide +kernel
example (db : String) : Define.ext db 0 = .error .inputValue := rfl
example (db : String) : Define.ext db 1 = .error .inputValue := by
  have h : Auxmath.factorizePrimePower 1 = .error .inputValue := by decide +kernel
  simp [Define.ext, h]
example (db : String) : Define.ext db 12 = .error .inputValue := by
  have h : Auxmath.factorizePrimePower 12 = .error .inputValue := by decide +kernel
  simp [Define.ext, h]
-- a prime above 2^32 (2^32 + 15): InputTooLarge from the prime field
example (db : String) : Define.ext db (2 ^ 32 + 15) = .error .inputTooLarge := by
  have h : Auxmath.factorizePrimePower (2 ^ 32 + 15) = .ok (2 ^ 32 + 15, 1) := by decide +kernel
  have h' : Prime.define (2 ^ 32 + 15) = .error .inputTooLarge := by decide +kernel
  simp only [Define.ext, h, h']
  rfl

/-! ## 4. finitefield.Define: the implementation is chosen from `(p, n)` alone -/

/-- `finitefield.Define(q)`: for `q = p^n` the call is *equal* to the call of the implementation
    selected by `(p, n)` — binary for `p = 2`, prime for `p` odd and `n = 1`, extension for `p` odd
    and `n ≥ 2` — and every `q` that is not a prime power is refused with InputValue. -/
theorem define_any_dispatch (db : String) {q : Nat} (hq : q < 2 ^ 64) :
    (∀ p n, p.Prime → 0 < n → q = p ^ n →
      Define.any db q =
        if p = 2 then Define.bin db q
        else if n = 1 then Define.prime q
        else Define.ext db q) ∧
    ((¬ ∃ p n, p.Prime ∧ 0 < n ∧ q = p ^ n) → Define.any db q = .error .inputValue) := by
  refine ⟨?_, Define.any_not_pp db hq⟩
  rintro p n hp hn rfl
  exact Define.any_pp db hp hn hq

/-- powers of two go to `binfield` -/
theorem define_any_two (db : String) {n : Nat} (hn : 0 < n) (hq : 2 ^ n < 2 ^ 64) :
    Define.any db (2 ^ n) = Define.bin db (2 ^ n) := by
  rw [(define_any_dispatch db hq).1 2 n Nat.prime_two hn rfl, if_pos rfl]

/-- odd primes go to `primefield` -/
theorem define_any_odd_prime (db : String) {q : Nat} (hp : q.Prime) (h2 : q ≠ 2)
    (hq : q < 2 ^ 64) : Define.any db q = Define.prime q := by
  rw [(define_any_dispatch db hq).1 q 1 hp Nat.one_pos (pow_one q).symm, if_neg h2, if_pos rfl]

/-- proper powers of odd primes go to `extfield` -/
theorem define_any_ext (db : String) {p n : Nat} (hp : p.Prime) (h2 : p ≠ 2) (hn : 2 ≤ n)
    (hq : p ^ n < 2 ^ 64) : Define.any db (p ^ n) = Define.ext db (p ^ n) := by
  rw [(define_any_dispatch db hq).1 p n hp (by omega) rfl, if_neg h2, if_neg (by omega)]

/-- non prime powers (0, 1, 6, 12, …) are refused with InputValue -/
theorem define_any_not_pp (db : String) {q : Nat} (hq : q < 2 ^ 64)
    (h : ¬ ∃ p n, p.Prime ∧ 0 < n ∧ q = p ^ n) : Define.any db q = .error .inputValue :=
  (define_any_dispatch db hq).2 h

/-- success of the general entry point, spelled out -/
theorem define_any_iff (db : String) {q : Nat} (hq : q < 2 ^ 64) (d : FieldDesc) :
    Define.any db q = .ok d ↔
      ∃ p n, p.Prime ∧ 0 < n ∧ q = p ^ n ∧
        ((p = 2 ∧ Define.bin db q = .ok d) ∨
         (p ≠ 2 ∧ n = 1 ∧ Define.prime q = .ok d) ∨
         (p ≠ 2 ∧ 2 ≤ n ∧ Define.ext db q = .ok d)) := by
  obtain ⟨hd, hno⟩ := define_any_dispatch db hq
  constructor
  · intro h
    by_cases hpp : ∃ p n, p.Prime ∧ 0 < n ∧ q = p ^ n
    · obtain ⟨p, n, hp, hn, he⟩ := hpp
      refine ⟨p, n, hp, hn, he, ?_⟩
      rw [hd p n hp hn he] at h
      by_cases h2 : p = 2
      · rw [if_pos h2] at h; exact Or.inl ⟨h2, h⟩
      · rw [if_neg h2] at h
        by_cases h1 : n = 1
        · rw [if_pos h1] at h; exact Or.inr (Or.inl ⟨h2, h1, h⟩)
        · rw [if_neg h1] at h; exact Or.inr (Or.inr ⟨h2, by omega, h⟩)
    · rw [hno hpp] at h; cases h
  · rintro ⟨p, n, hp, hn, he, h⟩
    rw [hd p n hp hn he]
    rcases h with ⟨h2, h⟩ | ⟨h2, h1, h⟩ | ⟨h2, hn2, h⟩
    · rw [if_pos h2]; exact h
    · rw [if_neg h2, if_pos h1]; exact h
    · rw [if_neg h2, if_neg (by omega)]; exact h

-- non-vacuity: each of the four cases occurs
example : Nat.Prime 2 ∧ 0 < 3 ∧ (2 : Nat) ^ 3 < 2 ^ 64 := by norm_num
example : Nat.Prime 7 ∧ 7 ≠ 2 ∧ (7 : Nat) < 2 ^ 64 := by norm_num
example : Nat.Prime 3 ∧ 3 ≠ 2 ∧ 2 ≤ 2 ∧ (3 : Nat) ^ 2 < 2 ^ 64 := by norm_num
example (db : String) : Define.any db 7 = .ok (.prime 7) := by
  have h : Auxmath.factorizePrimePower 7 = .ok (7, 1) := by decide +kernel
  have h' : Define.prime 7 = .ok (.prime 7) := by decide +kernel
  simp [Define.any, h, h']
example (db : String) : Define.any db 0 = .error .inputValue := by
  have h : Auxmath.factorizePrimePower 0 = .error .inputValue := by decide +kernel
  simp [Define.any, h]
example (db : String) : Define.any db 1 = .error .inputValue := by
  have h : Auxmath.factorizePrimePower 1 = .error .inputValue := by decide +kernel
  simp [Define.any, h]
example (db : String) : Define.any db 12 = .error .inputValue := by
  have h : Auxmath.factorizePrimePower 12 = .error .inputValue := by decide +kernel
  simp [Define.any, h]
example (db : String) : Define.any db 9 = Define.ext db 9 :=
  define_any_ext db (p := 3) (n := 2) (by norm_num) (by norm_num) (by norm_num) (by norm_num)
example (db : String) : Define.any db 8 = Define.bin db 8 :=
  define_any_two db (n := 3) (by norm_num) (by norm_num)

/-! ## 5. Card and Char -/

/-- `binfield.Card()`: `1 << n` is exact for `n ≤ 32` -/
theorem bin_card {n : Nat} (hn : n ≤ 32) : Bin.card n = 2 ^ n := Bin.card_eq (by omega)

/-- `extfield.Card()`: the wrapping product `p·p·…·p` (`n` factors) never wraps when `p^n` is a
    word: every partial product is `≤ p^n < 2^64` -/
theorem ext_card {p n : Nat} (hq : p ^ n < 2 ^ 64) : Ext.card p n = p ^ n := Ext.card_eq p n hq

theorem card_char_prime {q : Nat} (hq : q < 2 ^ 64) {d : FieldDesc} (h : Define.prime q = .ok d) :
    d.card = q ∧ d.char = q ∧ q.Prime := by
  obtain ⟨rfl, hp, -⟩ := (define_prime_iff hq d).1 h
  exact ⟨rfl, rfl, hp⟩

theorem card_char_bin (db : String) {q : Nat} (hq : q < 2 ^ 64) {d : FieldDesc}
    (h : Define.bin db q = .ok d) : d.card = q ∧ d.char = 2 ∧ ∃ n, 0 < n ∧ q = 2 ^ n := by
  obtain ⟨n, cs, rfl, h1, h32, -, rfl⟩ := (define_bin_iff db hq d).1 h
  exact ⟨bin_card h32, rfl, n, h1, rfl⟩

theorem card_char_ext (db : String) {q : Nat} (hq : q < 2 ^ 64) {d : FieldDesc}
    (h : Define.ext db q = .ok d) :
    d.card = q ∧ d.char.Prime ∧ ∃ n, 0 < n ∧ q = d.char ^ n := by
  obtain ⟨p, n, cs, g, hp, hn, rfl, -, -, -, rfl⟩ := (define_ext_iff db hq d).1 h
  exact ⟨ext_card hq, hp, n, hn, rfl⟩

/-- A field obtained from any of the `Define` functions reports `Card() = q` and `Char() = p`,
    where `q = p^n` (`p` prime, `n ≥ 1`). -/
theorem card_char (db : String) {q : Nat} (hq : q < 2 ^ 64) {d : FieldDesc}
    (h : Define.any db q = .ok d ∨ Define.prime q = .ok d ∨ Define.bin db q = .ok d ∨
      Define.ext db q = .ok d) :
    d.card = q ∧ d.char.Prime ∧ ∃ n, 0 < n ∧ q = d.char ^ n := by
  have key : Define.prime q = .ok d ∨ Define.bin db q = .ok d ∨ Define.ext db q = .ok d := by
    rcases h with h | h
    · obtain ⟨p, n, -, -, -, h | h | h⟩ := (define_any_iff db hq d).1 h
      · exact Or.inr (Or.inl h.2)
      · exact Or.inl h.2.2
      · exact Or.inr (Or.inr h.2.2)
    · exact h
  rcases key with h | h | h
  · obtain ⟨a, b, c⟩ := card_char_prime hq h
    exact ⟨a, b ▸ c, 1, Nat.one_pos, by rw [b, pow_one]⟩
  · obtain ⟨a, b, n, hn, c⟩ := card_char_bin db hq h
    exact ⟨a, b ▸ Nat.prime_two, n, hn, b ▸ c⟩
  · exact card_char_ext db hq h

/-- the same with `p` named: whatever way `q` is written as a prime power `p^n`, `Char() = p` -/
theorem char_eq (db : String) {q p n : Nat} (hq : q < 2 ^ 64) {d : FieldDesc}
    (h : Define.any db q = .ok d ∨ Define.prime q = .ok d ∨ Define.bin db q = .ok d ∨
      Define.ext db q = .ok d)
    (hp : p.Prime) (hn : 0 < n) (hpn : q = p ^ n) : d.card = p ^ n ∧ d.char = p := by
  obtain ⟨a, b, m, hm, c⟩ := card_char db hq h
  exact ⟨hpn ▸ a, (Define.pp_unique hp b hn hm (hpn ▸ c)).1.symm⟩

example : FieldDesc.card (.prime 7) = 7 ∧ FieldDesc.char (.prime 7) = 7 := by decide
example : FieldDesc.card (.bin 32 0) = 2 ^ 32 ∧ FieldDesc.char (.bin 32 0) = 2 := by decide
example : FieldDesc.card (.ext 3 40 []) = 3 ^ 40 ∧ FieldDesc.char (.ext 3 40 []) = 3 := by
  decide +kernel
-- the guards are sharp: beyond a word the products do wrap
example : Bin.card 64 = 0 := by decide
example : Ext.card 3 41 ≠ 3 ^ 41 := by decide +kernel

/-! ## 6. MultGenerator (prime fields) -/

/-- `MultGenerator()` of an admissible prime field returns a reduced element of multiplicative order
    exactly `q - 1` (for `q = 2` the element 1, of order 1).  The hypothesis `hfac` of
    `C01Prime.multGenerator_spec` is discharged from the C19 specification of `Factorize`. -/
theorem generator_prime {q : Nat} (hp : q.Prime) (h32 : q - 1 < 2 ^ 32) :
    Prime.multGenerator q < q ∧ orderOf ((Prime.multGenerator q : ℕ) : ZMod q) = q - 1 :=
  C01Prime.multGenerator_spec hp h32
    (factorize_pred_mem hp.two_le (lt_trans h32 (by norm_num)))

/-- in terms of `Define`: the generator of the operation record of a defined prime field -/
theorem generator_of_define {q : Nat} (hq : q < 2 ^ 64) {d : FieldDesc}
    (h : Define.prime q = .ok d) :
    d = .prime q ∧ (primeOps q).gen < q ∧ orderOf (((primeOps q).gen : ℕ) : ZMod q) = q - 1 := by
  obtain ⟨hd, hp, h32⟩ := (define_prime_iff hq d).1 h
  exact ⟨hd, generator_prime hp h32⟩

/-- and it is the least primitive root `≥ 2` (for `q ≠ 2`) -/
theorem generator_prime_least {q : Nat} (hp : q.Prime) (h32 : q - 1 < 2 ^ 32) (h2 : q ≠ 2) :
    2 ≤ Prime.multGenerator q ∧
      ∀ g, 2 ≤ g → g < Prime.multGenerator q → orderOf (g : ZMod q) ≠ q - 1 :=
  C01Prime.multGenerator_least hp h32 h2
    (factorize_pred_mem hp.two_le (lt_trans h32 (by norm_num)))

example : Nat.Prime 7 ∧ 7 - 1 < 2 ^ 32 := by norm_num
example : Prime.multGenerator 7 = 3 := by decide +kernel
example : Prime.multGenerator 2 = 1 := by decide +kernel
example : Nat.Prime 2 ∧ 2 - 1 < 2 ^ 32 := by norm_num

/-! ## 7. Elements -/

/-- `primefield.Elements()`: `out[i] = f.element(i)` for `i < p` is the list `0, 1, …, p-1`; it has
    `p` entries, no repetition, and contains every reduced element. -/
theorem elements_prime (p : Nat) :
    (List.range p).map (Prime.element p) = List.range p ∧
    (List.range p).length = p ∧ (List.range p).Nodup ∧ ∀ a, a < p → a ∈ List.range p := by
  refine ⟨?_, List.length_range, List.nodup_range, fun a h => List.mem_range.2 h⟩
  conv_rhs => rw [← List.map_id (List.range p)]
  apply List.map_congr_left
  intro a ha
  exact Nat.mod_eq_of_lt (List.mem_range.1 ha)

/-- the enumeration of `binfield.Elements()` / `extfield.Elements()`:
    `0, 1, g, g², …` (`Card()` entries), `g = MultGenerator()`, by repeated `Mult` -/
def elementsByGen {α : Type} (F : FOps α) : List α :=
  F.zero :: (List.range (F.card - 1)).map fun i => (fun e => F.mul e F.gen)^[i] F.one

theorem elementsByGen_length {α : Type} (F : FOps α) (h : 1 ≤ F.card) :
    (elementsByGen F).length = F.card := by
  simp only [elementsByGen, List.length_cons, List.length_map, List.length_range]
  omega

/-- NOT PROVED HERE (needs C04: the Conway polynomials of the real database are primitive, so that
    the class of `a` generates the multiplicative group).  Full statement for binary and extension
    fields over the regenerated database text `Gen.dbText`: the enumeration has `q` entries without
    repetition (hence, the representations being canonical, lists each of the `q` elements once),
    and the generator has order `q - 1`: its powers `g^0, …, g^(q-2)` are pairwise distinct and
    `g^(q-1) = 1`. -/
def elements_ext_full : Prop :=
  ∀ (q : Nat), q < 2 ^ 64 →
    (∀ n m, Define.bin Gen.dbText q = .ok (.bin n m) →
      (elementsByGen (binOps n m)).length = q ∧ (elementsByGen (binOps n m)).Nodup ∧
      (fun e => (binOps n m).mul e (binOps n m).gen)^[q - 1] (binOps n m).one = (binOps n m).one) ∧
    (∀ p n g, Define.ext Gen.dbText q = .ok (.ext p n g) →
      (elementsByGen (extOps p n g)).length = q ∧ (elementsByGen (extOps p n g)).Nodup ∧
      (fun e => (extOps p n g).mul e (extOps p n g).gen)^[q - 1] (extOps p n g).one
        = (extOps p n g).one)

/-- the part that needs no primitivity: the enumerations have exactly `q` entries -/
theorem elements_ext_length_partial (db : String) {q : Nat} (hq : q < 2 ^ 64) :
    (∀ n m, Define.bin db q = .ok (.bin n m) → (elementsByGen (binOps n m)).length = q) ∧
    (∀ p n g, Define.ext db q = .ok (.ext p n g) →
      (elementsByGen (extOps p n g)).length = q) := by
  constructor
  · intro n m h
    obtain ⟨hc, -, k, hk, rfl⟩ := card_char_bin db hq h
    have hc' : (binOps n m).card = 2 ^ k := hc
    rw [elementsByGen_length _ (by rw [hc']; exact Nat.one_le_two_pow), hc']
  · intro p n g h
    obtain ⟨hc, hp, k, hk, he⟩ := card_char_ext db hq h
    have hc' : (extOps p n g).card = q := hc
    have h1 : 1 ≤ q := by
      rw [he]; exact Nat.one_le_pow _ _ hp.pos
    rw [elementsByGen_length _ (by rw [hc']; exact h1), hc']

end Algobra.C03
