/-
  Props/C08.lean — property C08: bivariate polynomial arithmetic is exact in F[X,Y]; no vanishing
  coefficient is ever represented.

  Model functions: `Algobra.BPoly.{zero, coef, has, erase, put, setCoef, incCoef, decCoef, add, sub,
  neg, addDegs, subDegs, mulNoReduce, times, pow, scale, lt, normalize, eval, isZero, isMonomial,
  equal, subShiftScale}` (Model/BPoly.lean; Go: /repo/bivariate/polynomial.go, arithmetic.go).

  Specification ring: `AddMonoidAlgebra K (ℕ × ℕ)` = K[X,Y]  (X^a Y^b = `single (a,b) 1`).
  In this Mathlib `AddMonoidAlgebra` is a structure: the coefficient of `p` at `d` is `p.coeff d`.

  * `toMv L f`  — the polynomial of K[X,Y] denoted by the association list `f`,
  * `WF L f`    — the representation invariant of the Go map: distinct keys, every stored
                  coefficient canonical (`L.valid`) and NONZERO (`L.embed c ≠ 0`),
  * `CV L g`    — only "every stored coefficient canonical" (what second operands need; `WF → CV`),
  * `Bounded f` — exponents are machine words (`< 2^64`; Go `uint`),
  * `L : Lawful F K` — the coefficient record `F` implements the field `K` (C01/C02).

  Guards are those of the code: coefficients canonical, exponents `uint`.  The `w64` truncations in
  `addDegs` (overflow detection) and in `subShiftScale` are discharged, not assumed: `mulNoReduce`
  is shown to return `none` EXACTLY when a component sum leaves the word, and `subShiftScale` is
  exact under the stated no-wrap condition `ShiftOK`.
-/
import Algobra.Proofs.BPolyRefine
import Mathlib.Tactic.NormNum.Prime
import Algobra.Proofs.PrimeField   -- only for the non-vacuity examples (the lawful field GF(5))

namespace Algobra.C08
open Algobra Algobra.BPoly
open AddMonoidAlgebra (single)

variable {α : Type} {F : FOps α} {K : Type} [Field K] (L : Lawful F K)

/-! ## 1. the representation: coefficient function, support, order independence -/

/-- `Zero()` is the zero polynomial and is canonical. -/
theorem zero_exact : WF L (zero : BPoly α) ∧ toMv L (zero : BPoly α) = 0 :=
  ⟨WF_nil L, toMv_nil L⟩

/-- `Coef(d)` is the coefficient of `X^d.1 Y^d.2` (`F.zero` for an absent key). -/
theorem coef_exact {f : BPoly α} (hf : WF L f) (d : Deg) :
    (toMv L f).coeff d = L.embed (coef F f d) ∧ L.valid (coef F f d) :=
  ⟨toMv_apply L hf d, coef_valid L hf.cv d⟩

/-- the stored keys are exactly the support: no vanishing coefficient is represented -/
theorem support_exact {f : BPoly α} (hf : WF L f) (d : Deg) :
    (d ∈ f.map (·.1) ↔ (toMv L f).coeff d ≠ 0) ∧ (has f d = true ↔ (toMv L f).coeff d ≠ 0) :=
  ⟨mem_keys_iff L hf d, (has_eq_true_iff f d).trans (mem_keys_iff L hf d)⟩

/-- number of stored terms = size of the support -/
theorem length_exact {f : BPoly α} (hf : WF L f) : (toMv L f).coeff.support.card = f.length :=
  card_support_toMv L hf

/-- Go map iteration order is irrelevant: permuting the list changes neither the denoted
    polynomial, nor canonicity, nor any coefficient. -/
theorem order_independent {f g : BPoly α} (h : f.Perm g) :
    toMv L f = toMv L g ∧ (WF L f → WF L g) ∧ (WF L f → ∀ d, coef F f d = coef F g d) :=
  ⟨toMv_perm L h, WF_perm L h, fun hf d => coef_perm h hf.1 d⟩

/-- canonical representations are unique up to the order of the terms: two canonical lists denote
    the same polynomial iff they are permutations of each other. -/
theorem canonical_unique {f g : BPoly α} (hf : WF L f) (hg : WF L g) :
    toMv L f = toMv L g ↔ f.Perm g := toMv_eq_iff_perm L hf hg

/-! ## 2. single-coefficient updates (a coefficient that becomes zero is deleted) -/

/-- `SetCoef` -/
theorem setCoef_exact {f : BPoly α} (hf : WF L f) (d : Deg) {v : α} (hv : L.valid v) :
    WF L (setCoef F f d v) ∧
    toMv L (setCoef F f d v) = toMv L f + single d (L.embed v - L.embed (coef F f d)) :=
  ⟨WF_setCoef L hf d hv, toMv_setCoef L hf d hv⟩

/-- `IncrementCoef` -/
theorem incCoef_exact {f : BPoly α} (hf : WF L f) (d : Deg) {v : α} (hv : L.valid v) :
    WF L (incCoef F f d v) ∧ toMv L (incCoef F f d v) = toMv L f + single d (L.embed v) :=
  incCoef_spec L hf d hv

/-- `DecrementCoef` -/
theorem decCoef_exact {f : BPoly α} (hf : WF L f) (d : Deg) {v : α} (hv : L.valid v) :
    WF L (decCoef F f d v) ∧ toMv L (decCoef F f d v) = toMv L f - single d (L.embed v) :=
  decCoef_spec L hf d hv

/-- deletion of a key (`delete(f.coefs, d)`) -/
theorem erase_exact {f : BPoly α} (hf : WF L f) (d : Deg) :
    WF L (erase f d) ∧ toMv L (erase f d) = toMv L f - single d (L.embed (coef F f d)) :=
  ⟨WF_erase L hf d, toMv_erase L hf d⟩

/-- storing a nonzero value (`f.coefs[d] = v`) -/
theorem put_exact {f : BPoly α} (hf : WF L f) (d : Deg) {v : α} (hv : L.valid v)
    (hv0 : L.embed v ≠ 0) :
    WF L (put f d v) ∧
    toMv L (put f d v) = toMv L f + single d (L.embed v - L.embed (coef F f d)) :=
  ⟨WF_put L hf d hv hv0, toMv_put L hf d hv hv0⟩

/-! ## 3. Plus / Minus / Neg / Scale -/

/-- `Plus`/`Add` -/
theorem add_exact {f g : BPoly α} (hf : WF L f) (hg : CV L g) :
    WF L (add F f g) ∧ toMv L (add F f g) = toMv L f + toMv L g := add_spec L hf hg

/-- `Minus`/`Sub` -/
theorem sub_exact {f g : BPoly α} (hf : WF L f) (hg : CV L g) :
    WF L (sub F f g) ∧ toMv L (sub F f g) = toMv L f - toMv L g := sub_spec L hf hg

/-- `Neg` -/
theorem neg_exact {f : BPoly α} (hf : WF L f) :
    WF L (neg F f) ∧ toMv L (neg F f) = - toMv L f := ⟨WF_neg L hf, toMv_neg L hf.cv⟩

/-- `Scale`/`SetScale` (by any scalar, zero included) -/
theorem scale_exact {f : BPoly α} (hf : WF L f) {c : α} (hc : L.valid c) :
    WF L (scale F f c) ∧ toMv L (scale F f c) = single 0 (L.embed c) * toMv L f ∧
    toMv L (scale F f c) = L.embed c • toMv L f :=
  ⟨WF_scale L hf hc, toMv_scale L hf.cv hc, toMv_scale_smul L hf.cv hc⟩

/-- the same, coefficient by coefficient, as equalities of field-element representations -/
theorem coefwise {f g : BPoly α} (hf : WF L f) (hg : WF L g) {c : α} (hc : L.valid c) (d : Deg) :
    coef F (add F f g) d = F.add (coef F f d) (coef F g d) ∧
    coef F (sub F f g) d = F.sub (coef F f d) (coef F g d) ∧
    coef F (neg F f) d = F.neg (coef F f d) ∧
    coef F (scale F f c) d = F.mul (coef F f d) c :=
  ⟨coef_add L hf hg d, coef_sub L hf hg d, coef_neg L hf d, coef_scale L hf hc d⟩

/-- scaling by zero yields the empty representation (PF-10 fixed) -/
theorem scale_zero {f : BPoly α} {c : α} (hc : L.valid c) (h0 : L.embed c = 0) :
    scale F f c = [] := scale_of_isZero f ((L.isZero_iff c hc).2 h0)

/-- full cancellation leaves nothing behind: `f - f` and `f + (-f)` are the EMPTY list -/
theorem cancellation {f : BPoly α} (hf : WF L f) :
    sub F f f = [] ∧ add F f (neg F f) = [] := ⟨sub_self_eq_nil L hf, add_neg_eq_nil L hf⟩

/-- more generally a canonical representation of the zero polynomial is the empty list -/
theorem zero_unique {f : BPoly α} (hf : WF L f) (h : toMv L f = 0) : f = [] :=
  eq_nil_of_toMv_eq_zero L hf h

/-! ## 4. products: `multNoReduce`, `Times`, `Pow` and exponent overflow -/

/-- `addDegs` reports overflow exactly when a component sum leaves the machine word;
    otherwise it is the exponent sum. -/
theorem addDegs_exact {a b : Deg} (ha : a.1 < 2 ^ 64 ∧ a.2 < 2 ^ 64)
    (hb : b.1 < 2 ^ 64 ∧ b.2 < 2 ^ 64) :
    (addDegs a b = none ↔ ¬ (a.1 + b.1 < 2 ^ 64 ∧ a.2 + b.2 < 2 ^ 64)) ∧
    (a.1 + b.1 < 2 ^ 64 ∧ a.2 + b.2 < 2 ^ 64 → addDegs a b = some (a + b)) :=
  ⟨addDegs_eq_none_iff ha hb, fun h => addDegs_of_noOvf h⟩

/-- `subtractDegs` -/
theorem subDegs_exact (a b c : Deg) :
    (subDegs a b = some c ↔ a = b + c) ∧ (subDegs a b = none ↔ ¬ (b.1 ≤ a.1 ∧ b.2 ≤ a.2)) :=
  ⟨subDegs_eq_some_iff a b c, subDegs_eq_none_iff a b⟩

/-- `multNoReduce`: whenever it returns a value, that value is the exact product, canonical,
    with word exponents. -/
theorem mulNoReduce_exact {f g h : BPoly α} (hf : WF L f) (hg : WF L g) (bf : Bounded f)
    (bg : Bounded g) (hm : mulNoReduce F f g = some h) :
    toMv L h = toMv L f * toMv L g ∧ WF L h ∧ Bounded h :=
  ⟨(toMv_mulNoReduce L hf hg bf bg hm).1, (toMv_mulNoReduce L hf hg bf bg hm).2,
    Bounded_mulNoReduce hm⟩

/-- `multNoReduce` reports Overflow EXACTLY when some term of `f` and some term of `g` have a
    component exponent sum `≥ 2^64`. -/
theorem mulNoReduce_overflow_iff {f g : BPoly α} (hf : WF L f) (hg : WF L g) (bf : Bounded f)
    (bg : Bounded g) :
    mulNoReduce F f g = none ↔
      ∃ x ∈ f, ∃ y ∈ g, ¬ (x.1.1 + y.1.1 < 2 ^ 64 ∧ x.1.2 + y.1.2 < 2 ^ 64) :=
  mulNoReduce_none_iff L hf hg bf bg

/-- `Times`/`Mult` in a polynomial ring (no ideal): Overflow error exactly on exponent overflow,
    otherwise the exact canonical product. -/
theorem times_exact {R : BPoly.Ring α} (hR : R.ideal = none) (L : Lawful R.F K) {f g : BPoly α}
    (hf : WF L f) (hg : WF L g) (bf : Bounded f) (bg : Bounded g) :
    ((∃ x ∈ f, ∃ y ∈ g, ¬ (x.1.1 + y.1.1 < 2 ^ 64 ∧ x.1.2 + y.1.2 < 2 ^ 64)) →
        times R f g = .error .overflow) ∧
    ((¬ ∃ x ∈ f, ∃ y ∈ g, ¬ (x.1.1 + y.1.1 < 2 ^ 64 ∧ x.1.2 + y.1.2 < 2 ^ 64)) →
        ∃ h, times R f g = .ok (some h) ∧ WF L h ∧ Bounded h ∧
          toMv L h = toMv L f * toMv L g) :=
  times_spec hR L hf hg bf bg

/-- `Pow` in a polynomial ring (no ideal): a returned value is the exact canonical power, the only
    possible error kind is Overflow (PF-16 fixed), and the model's fuel never runs out for a word
    exponent. -/
theorem pow_exact {R : BPoly.Ring α} (hR : R.ideal = none) (L : Lawful R.F K) {f : BPoly α}
    (hf : WF L f) (bf : Bounded f) (n : Nat) :
    (∀ h, pow R f n = .ok (some h) → WF L h ∧ Bounded h ∧ toMv L h = toMv L f ^ n) ∧
    (∀ k, pow R f n = .error k → k = .overflow) ∧
    (n < 2 ^ 64 → pow R f n ≠ .ok none) :=
  pow_spec hR L hf bf n

/-! ## 5. `subWithShiftAndScale` (the inner step of division) -/

/-- `f - a·X^i·g`, exact whenever the shifted exponents of `g` stay inside the word
    (then the `w64` truncations of the model are the identity). -/
theorem subShiftScale_exact {f g : BPoly α} (i : Deg) {a : α} (hf : WF L f) (hg : CV L g)
    (ha : L.valid a)
    (hs : ∀ dc ∈ g, dc.1.1 + i.1 < 2 ^ 64 ∧ dc.1.2 + i.2 < 2 ^ 64) :
    WF L (subShiftScale F f g i a) ∧
    toMv L (subShiftScale F f g i a) = toMv L f - single i (L.embed a) * toMv L g :=
  subShiftScale_spec L i hf hg ha hs

/-- its result always has word exponents (whether or not the shift wraps) -/
theorem subShiftScale_bounded {f g : BPoly α} (i : Deg) (a : α) (hf : Bounded f) :
    Bounded (subShiftScale F f g i a) := Bounded_subShiftScale i a hf

/-! ## 6. `Eval` is the evaluation homomorphism -/

/-- `Eval(x, y)` is the value at `(x, y)` of the denoted polynomial, `evalHom x y` being the
    `K`-algebra homomorphism `K[X,Y] → K` with `X ↦ x`, `Y ↦ y`; equivalently the sum of
    `c·x^a·y^b` over the support.  `hpow` (the field's `Pow` is exponentiation) is proved per
    field kind (C01). -/
theorem eval_exact
    (hpow : ∀ a n, L.valid a → L.valid (F.pow a n) ∧ L.embed (F.pow a n) = L.embed a ^ n)
    {x y : α} (hx : L.valid x) (hy : L.valid y) {f : BPoly α} (hf : CV L f) :
    L.valid (eval F f x y) ∧
    L.embed (eval F f x y) = evalHom (L.embed x) (L.embed y) (toMv L f) ∧
    L.embed (eval F f x y)
      = (toMv L f).coeff.sum fun d c => c * L.embed x ^ d.1 * L.embed y ^ d.2 :=
  ⟨eval_valid L hpow hx hy hf, eval_hom L hpow hx hy hf, eval_spec L hpow hx hy hf⟩

/-- `evalHom x y` really is evaluation: it sends `c·X^a·Y^b` to `c·x^a·y^b` (and is an algebra
    homomorphism by its type). -/
theorem evalHom_monomial (x y : K) (d : ℕ × ℕ) (c : K) :
    evalHom x y (single d c) = c * x ^ d.1 * y ^ d.2 := evalHom_single x y d c

/-! ## 7. observers -/

/-- `IsZero` -/
theorem isZero_exact {f : BPoly α} (hf : WF L f) : isZero f = true ↔ toMv L f = 0 :=
  isZero_iff L hf

/-- `IsMonomial` -/
theorem isMonomial_exact {f : BPoly α} (hf : WF L f) :
    isMonomial f = true ↔ (toMv L f).coeff.support.card = 1 := isMonomial_iff L hf

/-- `Equal` -/
theorem equal_exact {f g : BPoly α} (hf : WF L f) (hg : WF L g) :
    equal F f g = true ↔ toMv L f = toMv L g := equal_iff L hf hg

/-- `Equal` is "same terms in any order" -/
theorem equal_iff_perm {f g : BPoly α} (hf : WF L f) (hg : WF L g) :
    equal F f g = true ↔ f.Perm g := (equal_iff L hf hg).trans (toMv_eq_iff_perm L hf hg)

/-- `Lt()`: the leading term as a canonical polynomial — in particular `Lt` of the zero polynomial
    is the empty list, not a stored zero (PF-22 fixed).  (That `ld`/`lc` are the leading data of
    the order is C09.) -/
theorem lt_exact {f : BPoly α} (hf : CV L f) (o : Order) :
    WF L (lt F o f) ∧ toMv L (lt F o f) = single (ld o f) (L.embed (lc F o f)) :=
  lt_spec L hf o

/-- `Normalize`, given the order fact (C09) that the leading exponent is a stored exponent -/
theorem normalize_exact {f : BPoly α} (hf : WF L f) (o : Order) (hld : ld o f ∈ f.map (·.1)) :
    WF L (normalize F o f) ∧
    toMv L (normalize F o f) = single 0 (L.embed (lc F o f))⁻¹ * toMv L f :=
  normalize_spec L hf o hld

/-! ## non-vacuity and sanity evaluations over GF(5) (`primeOps 5`, lawful by C01) -/

section Examples

instance : Fact (Nat.Prime 5) := ⟨by norm_num⟩

/-- the lawful coefficient field GF(5) -/
noncomputable def L5 : Lawful (primeOps 5) (ZMod 5) := primeLawful 5 (by norm_num) (by norm_num)

theorem L5_valid (a : Nat) : L5.valid a ↔ a < 5 := Iff.rfl

theorem wf5 (f : BPoly Nat) (h1 : (f.map (·.1)).Nodup) (h2 : ∀ dc ∈ f, 0 < dc.2 ∧ dc.2 < 5) :
    WF L5 f := by
  refine ⟨h1, fun dc hdc => ⟨(h2 dc hdc).2, ?_⟩⟩
  show ((dc.2 : ℕ) : ZMod 5) ≠ 0
  rw [Ne, ZMod.natCast_eq_zero_iff]
  intro hdvd
  have := Nat.le_of_dvd (h2 dc hdc).1 hdvd
  have := (h2 dc hdc).2
  omega

/-- 2X + 3Y -/
def f5 : BPoly Nat := [((1, 0), 2), ((0, 1), 3)]
/-- 3X + X²Y² -/
def g5 : BPoly Nat := [((1, 0), 3), ((2, 2), 1)]
/-- a term with a huge exponent: X^(2^64-1) -/
def big5 : BPoly Nat := [((2 ^ 64 - 1, 0), 1)]

example : WF L5 f5 := wf5 _ (by decide) (by decide)
example : WF L5 g5 := wf5 _ (by decide) (by decide)
example : WF L5 big5 := wf5 _ (by decide) (by decide)
example : CV L5 g5 := (wf5 g5 (by decide) (by decide)).cv
example : Bounded f5 ∧ Bounded g5 ∧ Bounded big5 := by
  refine ⟨?_, ?_, ?_⟩ <;> (intro dc hdc; revert dc; decide)
example : L5.valid 3 := (L5_valid 3).2 (by decide)
-- shift condition of `subShiftScale_exact`
example : ∀ dc ∈ g5, dc.1.1 + (1, 1).1 < 2 ^ 64 ∧ dc.1.2 + (1, 1).2 < 2 ^ 64 := by decide
-- the `hpow` hypothesis of `eval_exact` holds for GF(5)
example : ∀ a n, L5.valid a → L5.valid ((primeOps 5).pow a n) ∧
    L5.embed ((primeOps 5).pow a n) = L5.embed a ^ n :=
  fun a n ha => Prime.pow_spec' (by norm_num) (by norm_num) ha n
-- `normalize_exact`: the leading exponent of `f5` under lex (X > Y) is stored
example : ld ⟨.lex, true⟩ f5 ∈ f5.map (·.1) := by decide

-- `order_independent`, `scale_zero`
example : f5.reverse.Perm f5 := List.reverse_perm f5
example : L5.valid 0 ∧ L5.embed 0 = 0 := ⟨(L5_valid 0).2 (by decide), Nat.cast_zero⟩
/-- the polynomial ring GF(5)[X,Y] with lex order, no ideal -/
def R5 : BPoly.Ring Nat := ⟨primeOps 5, ⟨.lex, true⟩, ("X", "Y"), none⟩
example : R5.ideal = none := rfl
-- (2X+3Y)² = 4X² + 2XY + 4Y² ; (X^(2^64-1))² overflows with kind Overflow
example : pow R5 f5 2 = .ok (some [((2, 0), 4), ((1, 1), 2), ((0, 2), 4)]) := by decide
example : pow R5 big5 2 = .error .overflow := by decide
example : times R5 big5 f5 = .error .overflow := by decide
example : pow R5 big5 0 = .ok (some [((0, 0), 1)]) := by decide

-- sanity evaluations of the model
-- (2X+3Y) + (3X+X²Y²) = 3Y + X²Y² : the X-term cancels and is deleted
example : add (primeOps 5) f5 g5 = [((0, 1), 3), ((2, 2), 1)] := by decide
example : sub (primeOps 5) f5 f5 = [] := by decide
example : add (primeOps 5) f5 (neg (primeOps 5) f5) = [] := by decide
example : scale (primeOps 5) f5 0 = [] := by decide
example : scale (primeOps 5) f5 3 = [((1, 0), 1), ((0, 1), 4)] := by decide
example : incCoef (primeOps 5) f5 (1, 0) 3 = [((0, 1), 3)] := by decide
example : setCoef (primeOps 5) f5 (0, 1) 0 = [((1, 0), 2)] := by decide
-- (2X+3Y)(3X+X²Y²) = X² + 2X³Y² + 4XY + 3X²Y³
example : mulNoReduce (primeOps 5) f5 g5
    = some [((2, 0), 1), ((3, 2), 2), ((1, 1), 4), ((2, 3), 3)] := by decide
-- exponent overflow is reported, and only when it happens
example : mulNoReduce (primeOps 5) big5 f5 = none := by decide
example : (mulNoReduce (primeOps 5) big5 [((0, 5), 2)]).isSome = true := by decide
-- f5 - 2·XY·g5
example : subShiftScale (primeOps 5) f5 g5 (1, 1) 2
    = [((1, 0), 2), ((0, 1), 3), ((2, 1), 4), ((3, 3), 3)] := by decide
-- f5(2,1) = 4 + 3 = 2 in GF(5)
example : eval (primeOps 5) f5 2 1 = 2 := by decide +kernel
example : isZero ([] : BPoly Nat) = true ∧ isZero f5 = false ∧ isMonomial big5 = true ∧
    isMonomial f5 = false := by decide
example : equal (primeOps 5) f5 f5.reverse = true ∧ equal (primeOps 5) f5 g5 = false := by decide
example : lt (primeOps 5) ⟨.lex, true⟩ ([] : BPoly Nat) = [] := by decide
example : addDegs (2 ^ 64 - 1, 0) (1, 0) = none ∧ addDegs (3, 4) (1, 2) = some (4, 6) ∧
    subDegs (3, 4) (1, 2) = some (2, 2) ∧ subDegs (3, 4) (4, 0) = none := by decide

end Examples

end Algobra.C08
