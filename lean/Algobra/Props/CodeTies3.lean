/-
  Props/CodeTies3.lean — third batch of equivalence theorems between the MACHINE-TRANSLATED Go code
  (`Algobra/Gen/Code.lean`, regenerated on every run from the Go working tree by
  /verif/extract/translate.go) and the hand-written model (Model/Field.lean).

  Subject: the core of `binfield.(*Element).Inv` (/repo/finitefield/binfield/arithmetic.go), translated
  from `r0 := a.field.conwayPoly` to the end of the method body as
      go_binfield_Element_Inv_core_loop1
      go_binfield_Element_Inv_core (a_field_conwayPoly a_val : Nat) (new_Element_reduce : Nat → Nat)
  (the final `(&Element{field: a.field, val: i0}).reduce()` is an uninterpreted function parameter).
  The prefix of the method (error status, `a.IsZero()` → InputValue error object, `a.IsOne()` → copy)
  is the `none` / `some a` part of the model's `Bin.inv`.

  The translated loop calls the translated helpers `go_binfield_bitQuoRem`, `go_binfield_bitProd`; they
  are replaced by the model helpers with the ties of Props/CodeTies.lean (`bitQuoRem_tie` needs a word
  dividend and a non-zero divisor, `bitProd_tie` a word second factor), so the proof carries the
  invariant that `r0, r1` (and the quotient) stay below `2^64`.  The translated loop runs on
  `loopFuel = 2^64`, the model loop `Bin.invLoop` on an explicit fuel (`2 * n + 4` in `Bin.inv`): both are
  shown fuel-independent as soon as the fuel reaches `bitLen r1` (the bit length of the remainder
  strictly decreases in every round, so the loop started on `(m, a)` makes at most `bitLen a` rounds —
  also when `a` is longer than `m`, the first round then only swaps).

  Findings: no hypothesis beyond what the Go code guarantees is needed.  `a ≠ 0` is NOT needed for the
  loop tie (for `a = 0` both loops return `i0 = 0` at once), only for `Bin.inv` (prefix case).  The
  model's fuel `2 * n + 4` is always sufficient for a reduced element (`a < 2^n`, then `bitLen a ≤ n`);
  it is insufficient only for unreduced values with `bitLen a > 2 * n + 4` that no field element has
  (example at the end).

  All proofs are in Proofs/CodeTies3.lean (core Lean + the model, no Mathlib).
-/
import Algobra.Proofs.CodeTies3
import Algobra.Props.CodeTies
import Algobra.Model.Ext

namespace Algobra
namespace CodeTies3
open Algobra Algobra.Gen.Code

/-! ### 0. word bounds of the model helpers used by the loop -/

/-- `Bin.bitProd` returns a word for all arguments (every summand is truncated) -/
theorem bin_bitProd_word (a b : Nat) : Bin.bitProd a b < 2 ^ 64 := CodeTies3Proofs.bitProd_lt a b

/-- `Bin.bitQuoRem` on a word dividend and a non-zero divisor: word quotient, remainder not above the
    dividend and strictly shorter than the divisor -/
theorem bin_bitQuoRem_bounds {a b : Nat} (ha : a < 2 ^ 64) (hb : b ≠ 0) :
    (Bin.bitQuoRem a b).1 < 2 ^ 64 ∧ (Bin.bitQuoRem a b).2 ≤ a ∧
      bitLen (Bin.bitQuoRem a b).2 < bitLen b := CodeTies3Proofs.bitQuoRem_bounds ha hb

example : (27 : Nat) < 2 ^ 64 ∧ (5 : Nat) ≠ 0 := by decide

/-! ### 1. the loop -/

/-- one translated round is one model round (helpers replaced by `bitQuoRem_tie`, `bitProd_tie`) -/
theorem bin_inv_round_tie (f i0 i1 : Nat) {r0 r1 : Nat} (hr0 : r0 < 2 ^ 64) (h : r1 ≠ 0) :
    go_binfield_Element_Inv_core_loop1 (f + 1) (i0, i1, r0, r1)
      = go_binfield_Element_Inv_core_loop1 f
          (i1, i0 ^^^ Bin.bitProd i1 (Bin.bitQuoRem r0 r1).1, r1, (Bin.bitQuoRem r0 r1).2) :=
  CodeTies3Proofs.go_inv_loop_succ f i0 i1 hr0 h

/-- from any state with word remainders: the translated loop on `fuel` rounds and the model loop on
    `fuel'` rounds return the same `i0` as soon as both fuels reach `bitLen r1` -/
theorem bin_inv_loop_state_tie {fuel fuel' r0 r1 : Nat} (i0 i1 : Nat) (hr0 : r0 < 2 ^ 64)
    (hr1 : r1 < 2 ^ 64) (hf : bitLen r1 ≤ fuel) (hf' : bitLen r1 ≤ fuel') :
    (go_binfield_Element_Inv_core_loop1 fuel (i0, i1, r0, r1)).1 = Bin.invLoop r0 r1 i0 i1 fuel' :=
  CodeTies3Proofs.inv_loop fuel fuel' i0 i1 r0 r1 hr0 hr1 hf hf'

/-- the model loop is independent of its fuel from `bitLen r1` on -/
theorem bin_invLoop_fuel_indep {fuel fuel' r0 r1 : Nat} (i0 i1 : Nat) (hr0 : r0 < 2 ^ 64)
    (hr1 : r1 < 2 ^ 64) (hf : bitLen r1 ≤ fuel) (hf' : bitLen r1 ≤ fuel') :
    Bin.invLoop r0 r1 i0 i1 fuel = Bin.invLoop r0 r1 i0 i1 fuel' :=
  CodeTies3Proofs.invLoop_fuel_indep i0 i1 hr0 hr1 hf hf'

/-- `loopFuel` is enough for every word -/
theorem bin_inv_loopFuel_suffices {a : Nat} (ha : a < 2 ^ 64) : bitLen a ≤ loopFuel :=
  CodeTies3Proofs.bitLen_le_loopFuel ha

/-- the model's fuel `2 * n + 4` is enough for every reduced element of `GF(2^n)` -/
theorem bin_inv_model_fuel_suffices {n a : Nat} (ha : a < 2 ^ n) : bitLen a ≤ 2 * n + 4 :=
  CodeTies3Proofs.model_fuel_suffices ha

/-- THE LOOP TIE.  For words `m`, `a`, any final function `R` and every fuel `≥ bitLen a` (explicit
    bound: the loop started on `(m, a)` makes at most `bitLen a` rounds) the translated core is `R` of the
    model loop.  `a ≠ 0` is not needed, nor any relation between `m` and `a`. -/
theorem bin_inv_loop_tie {m a : Nat} (hm : m < 2 ^ 64) (ha : a < 2 ^ 64) (R : Nat → Nat) {fuel : Nat}
    (hf : bitLen a ≤ fuel) :
    go_binfield_Element_Inv_core m a R = R (Bin.invLoop m a 0 1 fuel) :=
  CodeTies3Proofs.bin_inv_gen hm ha R hf

/-- … in particular with the model's fuel whenever `a < 2^n` -/
theorem bin_inv_loop_tie_model_fuel {n m a : Nat} (hm : m < 2 ^ 64) (ha64 : a < 2 ^ 64)
    (ha : a < 2 ^ n) (R : Nat → Nat) :
    go_binfield_Element_Inv_core m a R = R (Bin.invLoop m a 0 1 (2 * n + 4)) :=
  bin_inv_loop_tie hm ha64 R (bin_inv_model_fuel_suffices ha)

/-- the loop result is a word (for all arguments and fuels: `i0 = 0`, `i1 = 1` are words and every
    update xors a `Bin.bitProd` value, a word, into a word) -/
theorem bin_invLoop_word (m a fuel : Nat) : Bin.invLoop m a 0 1 fuel < 2 ^ 64 :=
  CodeTies3Proofs.invLoop_lt fuel 0 1 m a (by decide) (by decide)

example : (11 : Nat) < 2 ^ 64 ∧ (3 : Nat) < 2 ^ 64 ∧ bitLen 3 ≤ 2 * 3 + 4 ∧ (3 : Nat) < 2 ^ 3 := by
  decide
example : go_binfield_Element_Inv_core 11 3 id = 6 := by decide +kernel
example : Bin.invLoop 11 3 0 1 (2 * 3 + 4) = 6 :=
  (bin_inv_loop_tie_model_fuel (n := 3) (m := 11) (a := 3) (by decide) (by decide) (by decide)
    id).symm.trans (by decide +kernel)
/-- two rounds suffice for `a = 3` (`bitLen 3 = 2`) -/
example : Bin.invLoop 11 3 0 1 2 = 6 :=
  (bin_inv_loop_tie (m := 11) (a := 3) (by decide) (by decide) id (fuel := 2)
    (by decide)).symm.trans (by decide +kernel)

/-! ### 2. `Bin.inv` -/

/-- prefix case `a.IsZero()`: the Go method returns an element carrying an InputValue error -/
theorem bin_inv_zero (n m : Nat) : Bin.inv n m 0 = none := by simp [Bin.inv]

/-- prefix case `a.IsOne()`: the Go method returns a copy of `a` -/
theorem bin_inv_one (n m : Nat) : Bin.inv n m 1 = some 1 := by simp [Bin.inv]

/-- sharpest form: only word bounds and the fuel condition `bitLen a ≤ 2 * n + 4` -/
theorem bin_inv_tie' {n m a : Nat} (hm : m < 2 ^ 64) (ha64 : a < 2 ^ 64)
    (hf : bitLen a ≤ 2 * n + 4) (h0 : a ≠ 0) (h1 : a ≠ 1) :
    Bin.inv n m a = some (go_binfield_Element_Inv_core m a (Bin.reduce n m)) :=
  CodeTies3Proofs.bin_inv hm ha64 hf h0 h1

/-- with the guards of a binary field: degree `n ≤ 63` (Go's `Define` refuses `extDeg > 32`), a modulus
    word below `2^(n+1)`, a reduced element `a < 2^n` other than 0 and 1 (the prefix cases).
    `2^n ≤ m` and irreducibility are not needed for this equality. -/
theorem bin_inv_tie {n m a : Nat} (hn : n ≤ 63) (hm2 : m < 2 ^ (n + 1)) (ha : a < 2 ^ n)
    (h0 : a ≠ 0) (h1 : a ≠ 1) :
    Bin.inv n m a = some (go_binfield_Element_Inv_core m a (Bin.reduce n m)) :=
  bin_inv_tie' (Nat.lt_of_lt_of_le hm2 (Nat.pow_le_pow_right (by decide) (by omega)))
    (Nat.lt_of_lt_of_le ha (Nat.pow_le_pow_right (by decide) (by omega)))
    (bin_inv_model_fuel_suffices ha) h0 h1

/-- the same as the `inv` field of `binOps` (Model/Ext.lean) -/
theorem bin_inv_tie_ops (v : String) {n m a : Nat} (hn : n ≤ 63) (hm2 : m < 2 ^ (n + 1))
    (ha : a < 2 ^ n) (h0 : a ≠ 0) (h1 : a ≠ 1) :
    (binOps n m v).inv a = some (go_binfield_Element_Inv_core m a (Bin.reduce n m)) :=
  bin_inv_tie hn hm2 ha h0 h1

/-- both translations composed: the final `reduce` is the translated `(*Element).reduce`
    (parameter order `a.val`, `a.field.conwayPoly`, `a.field.extDeg`); `reduce_tie` needs a modulus of
    degree exactly `n` and a word argument — the loop result is a word by `bin_invLoop_word`.
    Sharpest form (word bounds, fuel condition). -/
theorem bin_inv_tie_composed' {n m a : Nat} (hm : m < 2 ^ 64) (hm1 : 2 ^ n ≤ m)
    (hm2 : m < 2 ^ (n + 1)) (ha64 : a < 2 ^ 64) (hf : bitLen a ≤ 2 * n + 4)
    (h0 : a ≠ 0) (h1 : a ≠ 1) :
    Bin.inv n m a
      = some (go_binfield_Element_Inv_core m a (fun v => go_binfield_Element_reduce v m n)) := by
  rw [bin_inv_tie' hm ha64 hf h0 h1, bin_inv_loop_tie hm ha64 _ hf,
    bin_inv_loop_tie hm ha64 (fun v => go_binfield_Element_reduce v m n) hf,
    CodeTies.reduce_tie (bin_invLoop_word m a _) hm1 hm2]

/-- composed, with the guards of a binary field -/
theorem bin_inv_tie_composed {n m a : Nat} (hn : n ≤ 63) (hm1 : 2 ^ n ≤ m) (hm2 : m < 2 ^ (n + 1))
    (ha : a < 2 ^ n) (h0 : a ≠ 0) (h1 : a ≠ 1) :
    Bin.inv n m a
      = some (go_binfield_Element_Inv_core m a (fun v => go_binfield_Element_reduce v m n)) :=
  bin_inv_tie_composed' (Nat.lt_of_lt_of_le hm2 (Nat.pow_le_pow_right (by decide) (by omega)))
    hm1 hm2 (Nat.lt_of_lt_of_le ha (Nat.pow_le_pow_right (by decide) (by omega)))
    (bin_inv_model_fuel_suffices ha) h0 h1

/-! ### non-vacuity and sanity: GF(8) with modulus X^3 + X + 1 = 11, GF(256) with 0x11D -/

example : (3 : Nat) ≤ 63 ∧ 2 ^ 3 ≤ 11 ∧ 11 < 2 ^ (3 + 1) ∧ (3 : Nat) < 2 ^ 3 ∧ (3 : Nat) ≠ 0 ∧
    (3 : Nat) ≠ 1 := by decide
example : go_binfield_Element_Inv_core 11 3 (Bin.reduce 3 11) = 6 := by decide +kernel
example : go_binfield_Element_Inv_core 11 3 (fun v => go_binfield_Element_reduce v 11 3) = 6 := by
  decide +kernel
example : Bin.inv 3 11 3 = some 6 := by
  rw [bin_inv_tie (by decide) (by decide) (by decide) (by decide) (by decide)]; decide +kernel
example : Bin.inv 3 11 3 = some 6 := by
  rw [bin_inv_tie_composed (by decide) (by decide) (by decide) (by decide) (by decide) (by decide)]
  decide +kernel
/-- `6` is the inverse of `3`: (X + 1)(X^2 + X) = X^3 + X = 1 mod X^3 + X + 1 -/
example : go_binfield_Element_Prod_core 0 3 6 3 11 = 1 := by decide +kernel
example : Bin.inv 3 11 0 = none := bin_inv_zero 3 11
example : Bin.inv 3 11 1 = some 1 := bin_inv_one 3 11
example : Bin.inv 8 0x11D 0x53 = some 140 := by
  rw [bin_inv_tie_composed (by decide) (by decide) (by decide) (by decide) (by decide) (by decide)]
  decide +kernel
example : go_binfield_Element_Prod_core 0 0x53 140 8 0x11D = 1 := by decide +kernel

/-- the fuel condition cannot be dropped for values that are not reduced field elements: consecutive
    "Fibonacci polynomials" `m = X^7 = 128`, `a = X^6 + X^4 + 1 = 81` need `bitLen 81 = 7` rounds; with
    `n = 1` the model stops after `2 * 1 + 4 = 6` rounds with the unfinished coefficient `34`, the code
    runs to the end (`81`).  No element of `GF(2)` = `{0, 1}` is concerned. -/
example : bitLen 81 = 7 ∧ Bin.invLoop 128 81 0 1 (2 * 1 + 4) = 34 ∧ Bin.invLoop 128 81 0 1 7 = 81 ∧
    go_binfield_Element_Inv_core 128 81 id = 81 := by decide +kernel

end CodeTies3
end Algobra
