/-
  Props/ErrTies.lean — the error kinds of the model tied to the Go source.

  PART A: the `errors` package itself (Model/ErrChain.lean): `errors.Is` on wrapper chains of any
  length agrees with the three-valued status `Err` the model works with; `Err.wrapInherit` /
  `Err.wrap` are exactly what `errors.Wrap` does to that status; the three Go functions are pinned
  by their source text.

  PART B: for each modelled function, the kinds the model can return are among the kinds the Go
  function can construct (`Gen.errClosed`, closed under the call graph), and every kind the Go
  function constructs itself (`Gen.errDirect`) is returned by the model on a concrete input.
  Both tables are regenerated from the Go source on every run (extract/errsites.go), so a changed
  kind at any error site of a listed function breaks the corresponding obligation.
-/
import Algobra.Model.ErrChain
import Algobra.Model.Names
import Algobra.Model.Tables
import Algobra.Model.Extra
import Algobra.Gen.ErrSites
import Algobra.Gen.Consts
import Algobra.Proofs.Strings
import Algobra.Proofs.Groebner
import Algobra.Proofs.ConwayLookup
namespace Algobra.ErrTies
open Algobra

/-! ## PART A — errors.New / errors.Wrap / errors.Is -/

/-- a non-nil error is an error: its status is never `none` -/
theorem status_ne_none : ∀ e : GoErr, e.status ≠ Err.none
  | .foreign _ => by simp [GoErr.status]
  | .wrap _ (some _) _ => by simp [GoErr.status]
  | .wrap _ none none => by simp [GoErr.status]
  | .wrap _ none (some e) => by simpa [GoErr.status] using status_ne_none e

theorem status_isErr (e : GoErr) : e.status.isErr = true := by
  have := status_ne_none e
  cases h : e.status <;> simp_all [Err.isErr]

/-- the status of a Go `error` value is `none` exactly for nil -/
theorem statusO_eq_none (o : Option GoErr) : GoErr.statusO o = Err.none ↔ o = none := by
  cases o with
  | none => simp [GoErr.statusO]
  | some e => simpa [GoErr.statusO] using status_ne_none e

/-- (A1) `errors.Is(k, e)` holds exactly when the status of the chain is `kind k` -/
theorem is_iff_status (k : Kind) : ∀ e : GoErr, e.is k = true ↔ e.status = Err.kind k
  | .foreign _ => by simp [GoErr.is, GoErr.status]
  | .wrap _ (some _) _ => by simp [GoErr.is, GoErr.status]
  | .wrap _ none none => by simp [GoErr.is, GoErr.status]
  | .wrap _ none (some e) => by simpa [GoErr.is, GoErr.status] using is_iff_status k e

/-- (A1) for a possibly nil error -/
theorem isO_iff_statusO (k : Kind) (o : Option GoErr) :
    GoErr.isO k o = true ↔ GoErr.statusO o = Err.kind k := by
  cases o with
  | none => simp [GoErr.isO, GoErr.statusO]
  | some e => simpa [GoErr.isO, GoErr.statusO] using is_iff_status k e

/-- (A1) no kind at all: `Is` fails for every kind exactly on the kind-less chains -/
theorem is_none_iff_kindless (e : GoErr) : (∀ k, e.is k = false) ↔ e.status = Err.kindless := by
  constructor
  · intro h
    cases hs : e.status with
    | none => exact absurd hs (status_ne_none e)
    | kindless => rfl
    | kind k => have := (is_iff_status k e).2 hs; simp [h k] at this
  · intro h k
    cases hk : e.is k with
    | false => rfl
    | true => have := (is_iff_status k e).1 hk; simp [h] at this

/-- (A2) `errors.Wrap(op, Inherit, err)` on the status is `Err.wrapInherit`, nil `err` included
    (`Wrap(op, Inherit, nil)` gives the kind-less error, as Model/Errors.lean says) -/
theorem status_wrap_inherit (op : String) (inner : Option GoErr) :
    (GoErr.wrapE op none inner).status = (GoErr.statusO inner).wrapInherit := by
  cases inner with
  | none => rfl
  | some e =>
    have := status_ne_none e
    simp only [GoErr.wrapE, GoErr.status, GoErr.statusO]
    cases h : e.status <;> simp_all [Err.wrapInherit]

/-- (A2) non-nil inner error: the status is unchanged -/
theorem status_wrap_inherit_some (op : String) (e : GoErr) :
    (GoErr.wrapE op none (some e)).status = e.status.wrapInherit ∧
    (GoErr.wrapE op none (some e)).status = e.status := by
  have h := status_wrap_inherit op (some e)
  refine ⟨h, ?_⟩
  simp [GoErr.wrapE, GoErr.status]

/-- (A2) nil inner error: kind-less -/
theorem status_wrap_inherit_nil (op : String) :
    (GoErr.wrapE op none none).status = Err.none.wrapInherit ∧
    (GoErr.wrapE op none none).status = Err.kindless := ⟨rfl, rfl⟩

/-- (A2) `errors.Wrap(op, k, err)` with `k ≠ Inherit` on the status is `Err.wrap k`, whatever `err` is -/
theorem status_wrap_kind (op : String) (k : Kind) (inner : Option GoErr) :
    (GoErr.wrapE op (some k) inner).status = Err.wrap k (GoErr.statusO inner) := rfl

/-- (A2) `errors.New(op, k, msg)` has status `kind k` -/
theorem status_new (op : String) (k : Kind) (msg : String) : (GoErr.new op k msg).status = Err.kind k := rfl

theorem is_new (op : String) (k k' : Kind) (msg : String) : (GoErr.new op k msg).is k' = (k == k') := rfl

/-- (A3) `errors.Is` does not look at operation names or messages -/
theorem is_relabel (k : Kind) (fop fmsg : String → String) :
    ∀ e : GoErr, (e.relabel fop fmsg).is k = e.is k
  | .foreign _ => rfl
  | .wrap _ (some _) none => rfl
  | .wrap _ (some _) (some _) => rfl
  | .wrap _ none none => rfl
  | .wrap _ none (some e) => by simpa [GoErr.relabel, GoErr.is] using is_relabel k fop fmsg e

theorem status_relabel (fop fmsg : String → String) (e : GoErr) :
    (e.relabel fop fmsg).status = e.status := by
  cases hs : e.status with
  | none => exact absurd hs (status_ne_none e)
  | kind k => exact (is_iff_status k _).1 (by rw [is_relabel]; exact (is_iff_status k e).2 hs)
  | kindless =>
    apply (is_none_iff_kindless _).1
    intro k; rw [is_relabel]; exact (is_none_iff_kindless e).2 hs k

/-- (A3) in particular the outermost operation name and the message of `New` are irrelevant -/
theorem is_op_irrelevant (k : Kind) (op op' : String) (kd : Option Kind) (inner : Option GoErr) :
    (GoErr.wrapE op kd inner).is k = (GoErr.wrapE op' kd inner).is k := by
  cases kd <;> cases inner <;> rfl

theorem is_msg_irrelevant (k k' : Kind) (op op' msg msg' : String) :
    (GoErr.new op k' msg).is k = (GoErr.new op' k' msg').is k := rfl

/-- (A3) an error has at most one kind -/
theorem is_unique {k k' : Kind} {e : GoErr} (h : e.is k = true) (h' : e.is k' = true) : k = k' := by
  have a := (is_iff_status k e).1 h
  have b := (is_iff_status k' e).1 h'
  rw [a] at b
  exact Err.kind.inj b

/-- (A4) chains of any length: wrapping `n` times with `Inherit` changes neither `Is` nor the status -/
theorem is_wrapInheritN (k : Kind) (ops : Nat → String) (e : GoErr) :
    ∀ n, (GoErr.wrapInheritN ops n e).is k = e.is k
  | 0 => rfl
  | n + 1 => by simpa [GoErr.wrapInheritN, GoErr.is] using is_wrapInheritN k ops e n

theorem status_wrapInheritN (ops : Nat → String) (e : GoErr) :
    ∀ n, (GoErr.wrapInheritN ops n e).status = e.status
  | 0 => rfl
  | n + 1 => by simpa [GoErr.wrapInheritN, GoErr.status] using status_wrapInheritN ops e n

/-- (A4) the kind given at the bottom by `errors.New` is found below any number of `Inherit` wrappers -/
theorem is_new_below (k : Kind) (ops : Nat → String) (op msg : String) (n : Nat) :
    (GoErr.wrapInheritN ops n (GoErr.new op k msg)).is k = true := by
  rw [is_wrapInheritN]; simp [is_new]

theorem depth_wrapInheritN (ops : Nat → String) (e : GoErr) :
    ∀ n, (GoErr.wrapInheritN ops n e).depth = e.depth + n
  | 0 => rfl
  | n + 1 => by simp [GoErr.wrapInheritN, GoErr.depth, depth_wrapInheritN ops e n]; omega

/-- what (A4) excludes: an `Is` that gives up after `d` wrappers (here: `d = 2`) loses the kind of a
    chain with three wrappers -/
def isDepth (k : Kind) : Nat → GoErr → Bool
  | 0, _ => false
  | _ + 1, .foreign _ => false
  | _ + 1, .wrap _ (some k') _ => k' == k
  | _ + 1, .wrap _ none none => false
  | d + 1, .wrap _ none (some e) => isDepth k d e

example : isDepth .parsing 2 (GoErr.wrapInheritN (fun _ => "op") 2 (GoErr.new "op" .parsing "m")) = false ∧
    (GoErr.wrapInheritN (fun _ => "op") 2 (GoErr.new "op" .parsing "m")).is .parsing = true := by decide

/-- (A5) pinned source of `errors.Is`. `GoErr.is` (Model/ErrChain.lean) was written clause by clause
    against exactly this text; any edit of the Go function changes `Gen.errorsIsSrc` and breaks this
    obligation, so that the model must be re-read against the new text. -/
theorem errorsIs_pinned : Gen.errorsIsSrc =
    "func Is(kind Kind, err error) bool { e, ok := err.(*Error) switch { case !ok: return false case e.Kind != Inherit: return e.Kind == kind } return Is(kind, e.Err) }" := by
  decide +kernel

/-- (A5) pinned source of `errors.Wrap` (`GoErr.wrapE` was written against exactly this text) -/
theorem errorsWrap_pinned : Gen.errorsWrapSrc =
    "func Wrap(op Op, kind Kind, err error) *Error { return &Error{ Op: op, Kind: kind, Err: err, } }" := by
  decide +kernel

/-- (A5) pinned source of `errors.New` (`GoErr.new` was written against exactly this text:
    the inner error is what `fmt.Errorf` returns, never an `*errors.Error`) -/
theorem errorsNew_pinned : Gen.errorsNewSrc =
    "func New(op Op, kind Kind, message string, formatArgs ...interface{}) *Error { return &Error{ Op: op, Kind: kind, Err: fmt.Errorf(message, formatArgs...), } }" := by
  decide +kernel

/-- the kind names of the model are the Go constant names, in `iota` order (index 0 = `Inherit`) -/
theorem kindNames_name : Gen.kindNames = "Inherit" :: [Kind.input, .inputValue, .inputIncompatible,
    .inputTooLarge, .arithmeticIncompat, .parsing, .conversion, .overflow, .internal].map Kind.name := by
  decide +kernel

theorem name_injective {k k' : Kind} (h : k.name = k'.name) : k = k' := by
  cases k <;> cases k' <;> first | rfl | (revert h; decide)

/-! ## PART B — kinds per modelled function

  `direct_*`: one lookup of a key in `Gen.errDirect`, stated as an exact literal list (a changed kind at
  one of the function's own sites breaks it).
  `closed_*`: a SUBSET statement — the kinds the model function can return occur in the closed list of
  the key. (`Gen.errClosed` is a coarse name-based closure: a new error site in some callee changes many
  closed lists; the subset form is insensitive to that.)  `closedExact_*`: the few closed lists that are
  claimed exactly (leaf functions); not used by the sound proofs.
  `*_sound`: every kind the model function returns is in the closed list of the Go function.
  `*_complete`: the direct list of the Go function, and for each of its kinds a concrete input on
  which the model returns exactly that kind. -/

/-- (local) decidable equality of results, for the witness evaluations -/
local instance instDecEqExcept {ε α : Type} [DecidableEq ε] [DecidableEq α] : DecidableEq (Except ε α)
  | .ok a, .ok b =>
    if h : a = b then isTrue (by rw [h]) else isFalse (fun h' => by injection h' with h'; exact h h')
  | .error a, .error b =>
    if h : a = b then isTrue (by rw [h]) else isFalse (fun h' => by injection h' with h'; exact h h')
  | .ok _, .error _ => isFalse (fun h => by cases h)
  | .error _, .ok _ => isFalse (fun h => by cases h)

/-- membership of a kind name in a literal list of names -/
macro "kind_mem" : tactic => `(tactic| first | decide | simp [Kind.name, Kind.toString])

/-! ### auxmath.Pow -/

theorem closed_auxmath_Pow :
    ∀ x ∈ ["Overflow"], x ∈ kindsOf Gen.errClosed "auxmath.Pow" := by decide +kernel
/-- exactness claim (not used by the sound proofs): this function constructs nothing else, also through its callees -/
theorem closedExact_auxmath_Pow :
    kindsOf Gen.errClosed "auxmath.Pow" = ["Overflow"] := by decide +kernel
theorem direct_auxmath_Pow : kindsOf Gen.errDirect "auxmath.Pow" = ["Overflow"] := by decide +kernel

theorem pow_err {a n : Nat} {k : Kind} (h : Auxmath.pow a n = .error k) : k = .overflow := by
  unfold Auxmath.pow at h
  split at h <;> cases h; rfl

theorem pow_sound (a n : Nat) (k : Kind) (h : Auxmath.pow a n = .error k) :
    k.name ∈ kindsOf Gen.errClosed "auxmath.Pow" := by
  rw [pow_err h]; apply closed_auxmath_Pow; kind_mem

theorem pow_complete : kindsOf Gen.errDirect "auxmath.Pow" = ["Overflow"] ∧
    Auxmath.pow 2 64 = .error .overflow := ⟨direct_auxmath_Pow, by decide +kernel⟩

/-! ### auxmath.FactorizePrimePower -/

theorem closed_auxmath_FactorizePrimePower :
    ∀ x ∈ ["InputValue"], x ∈ kindsOf Gen.errClosed "auxmath.FactorizePrimePower" := by decide +kernel
theorem direct_auxmath_FactorizePrimePower :
    kindsOf Gen.errDirect "auxmath.FactorizePrimePower" = ["InputValue"] := by decide +kernel

theorem fpp_err {q : Nat} {k : Kind} (h : Auxmath.factorizePrimePower q = .error k) : k = .inputValue := by
  unfold Auxmath.factorizePrimePower at h
  simp only at h
  repeat' split at h
  all_goals first | (cases h; rfl) | cases h

theorem fpp_sound (q : Nat) (k : Kind) (h : Auxmath.factorizePrimePower q = .error k) :
    k.name ∈ kindsOf Gen.errClosed "auxmath.FactorizePrimePower" := by
  rw [fpp_err h]; apply closed_auxmath_FactorizePrimePower; kind_mem

/-- both error sites of the Go function (0 or 1; not a prime power) -/
theorem fpp_complete : kindsOf Gen.errDirect "auxmath.FactorizePrimePower" = ["InputValue"] ∧
    Auxmath.factorizePrimePower 1 = .error .inputValue ∧
    Auxmath.factorizePrimePower 12 = .error .inputValue :=
  ⟨direct_auxmath_FactorizePrimePower, by decide +kernel, by decide +kernel⟩

/-! ### primefield.Define -/

theorem closed_primefield_Define :
    ∀ x ∈ ["InputValue", "InputTooLarge"], x ∈ kindsOf Gen.errClosed "primefield.Define" := by decide +kernel
theorem direct_primefield_Define :
    kindsOf Gen.errDirect "primefield.Define" = ["InputValue", "InputTooLarge"] := by decide +kernel

theorem primeDefine_err {c : Nat} {k : Kind} (h : Prime.define c = .error k) :
    k = .inputValue ∨ k = .inputTooLarge := by
  unfold Prime.define at h
  split at h
  · cases h; exact .inl rfl
  · split at h
    · cases h; exact .inr rfl
    · split at h
      · next k' hk => cases h; exact .inl (fpp_err hk)
      · split at h <;> cases h; exact .inl rfl

theorem primeDefine_sound (c : Nat) (k : Kind) (h : Prime.define c = .error k) :
    k.name ∈ kindsOf Gen.errClosed "primefield.Define" := by
  apply closed_primefield_Define
  rcases primeDefine_err h with rfl | rfl <;> kind_mem

theorem definePrime_sound (c : Nat) (k : Kind) (h : Define.prime c = .error k) :
    k.name ∈ kindsOf Gen.errClosed "primefield.Define" := by
  apply primeDefine_sound c
  unfold Define.prime at h
  cases hd : Prime.define c with
  | ok v => rw [hd] at h; cases h
  | error k' => rw [hd] at h; cases h; rfl

theorem primeDefine_complete :
    kindsOf Gen.errDirect "primefield.Define" = ["InputValue", "InputTooLarge"] ∧
    Prime.define 0 = .error .inputValue ∧ Prime.define 9 = .error .inputValue ∧
    Prime.define (2 ^ 40) = .error .inputTooLarge :=
  ⟨direct_primefield_Define, by decide +kernel, by decide +kernel, by decide +kernel⟩

/-! ### conway.lookupInternal / conway.Lookup -/

theorem closed_conway_lookupInternal :
    ∀ x ∈ ["InputValue", "Internal"], x ∈ kindsOf Gen.errClosed "conway.lookupInternal" := by decide +kernel
/-- exactness claim (not used by the sound proofs): this function constructs nothing else, also through its callees -/
theorem closedExact_conway_lookupInternal :
    kindsOf Gen.errClosed "conway.lookupInternal" = ["InputValue", "Internal"] := by decide +kernel
theorem closed_conway_Lookup :
    ∀ x ∈ ["InputValue", "Internal"], x ∈ kindsOf Gen.errClosed "conway.Lookup" := by decide +kernel
/-- exactness claim (not used by the sound proofs): this function constructs nothing else, also through its callees -/
theorem closedExact_conway_Lookup :
    kindsOf Gen.errClosed "conway.Lookup" = ["InputValue", "Internal"] := by decide +kernel
theorem direct_conway_lookupInternal :
    kindsOf Gen.errDirect "conway.lookupInternal" = ["InputValue", "Internal"] := by decide +kernel

theorem lookupIn_err {t : String} {p n : Nat} {k : Kind} (h : Conway.lookupIn t p n = .error k) :
    k = .inputValue ∨ k = .internal := by
  unfold Conway.lookupIn at h
  simp only at h
  repeat' split at h
  all_goals first | (cases h; simp) | cases h

/-- for every database text (in particular `Gen.dbText` = `conway.Lookup`) -/
theorem lookupIn_sound (t : String) (p n : Nat) (k : Kind) (h : Conway.lookupIn t p n = .error k) :
    k.name ∈ kindsOf Gen.errClosed "conway.lookupInternal" ∧
    k.name ∈ kindsOf Gen.errClosed "conway.Lookup" := by
  rcases lookupIn_err h with rfl | rfl <;>
    exact ⟨closed_conway_lookupInternal _ (by kind_mem), closed_conway_Lookup _ (by kind_mem)⟩

/-- no entry: InputValue. `Internal` needs a malformed database text (an entry with a wrong number of
    coefficients, or a coefficient that is not a word); on the shipped text `Gen.dbText` it is
    unreachable (Props/C04.lean `lookup_spec`/`lookup_absent`), and the kernel cannot evaluate
    `String.splitOn` on a literal, so only the list equation is stated for it. The first `InputValue`
    site of the Go function — `regexp.Compile` failing on a pattern made of two printed numbers — is
    unreachable as well; the second one is the witness. -/
theorem lookupIn_complete :
    kindsOf Gen.errDirect "conway.lookupInternal" = ["InputValue", "Internal"] ∧
    Conway.lookupIn "" 3 1 = .error .inputValue := by
  refine ⟨direct_conway_lookupInternal, C04.lookupIn_absent_of_not_infix "" 3 1 ?_⟩
  intro h
  have h2 : C04.keyPattern 3 1 = [] := by simpa using h
  simp [C04.keyPattern] at h2

/-! ### binfield.Define -/

theorem closed_binfield_Define :
    ∀ x ∈ ["InputValue", "InputTooLarge", "Internal"], x ∈ kindsOf Gen.errClosed "binfield.Define" := by decide +kernel
theorem direct_binfield_Define :
    kindsOf Gen.errDirect "binfield.Define" = ["InputValue", "InputTooLarge"] := by decide +kernel

theorem defineBin_err {db : String} {c : Nat} {k : Kind} (h : Define.bin db c = .error k) :
    k = .inputValue ∨ k = .inputTooLarge ∨ k = .internal := by
  unfold Define.bin at h
  split at h
  · cases h; simp
  · split at h
    · next k' hk => cases h; exact .inl (fpp_err hk)
    · split at h
      · cases h; simp
      · split at h
        · cases h; simp
        · split at h
          · next k' hk => cases h; rcases lookupIn_err hk with rfl | rfl <;> simp
          · cases h

theorem defineBin_sound (db : String) (c : Nat) (k : Kind) (h : Define.bin db c = .error k) :
    k.name ∈ kindsOf Gen.errClosed "binfield.Define" := by
  apply closed_binfield_Define
  rcases defineBin_err h with rfl | rfl | rfl <;> kind_mem

/-- the three sites of `binfield.Define` (zero; not a power of two; too large), for every database -/
theorem defineBin_complete (db : String) :
    kindsOf Gen.errDirect "binfield.Define" = ["InputValue", "InputTooLarge"] ∧
    Define.bin db 0 = .error .inputValue ∧ Define.bin db 9 = .error .inputValue ∧
    Define.bin db (2 ^ 33) = .error .inputTooLarge := by
  have h9 : Auxmath.factorizePrimePower 9 = .ok (3, 2) := by decide +kernel
  have h33 : Auxmath.factorizePrimePower (2 ^ 33) = .ok (2, 33) := by decide +kernel
  refine ⟨direct_binfield_Define, rfl, ?_, ?_⟩
  · simp [Define.bin, h9]
  · unfold Define.bin
    rw [if_neg (by decide), h33]
    simp [uintSize]

/-! ### extfield.Define -/

theorem closed_extfield_Define :
    ∀ x ∈ ["InputValue", "InputTooLarge", "Internal"], x ∈ kindsOf Gen.errClosed "extfield.Define" := by decide +kernel
theorem direct_extfield_Define : kindsOf Gen.errDirect "extfield.Define" = ["InputValue"] := by
  decide +kernel

theorem defineExt_err {db : String} {c : Nat} {k : Kind} (h : Define.ext db c = .error k) :
    k = .inputValue ∨ k = .inputTooLarge ∨ k = .internal := by
  unfold Define.ext at h
  split at h
  · cases h; simp
  · split at h
    · next k' hk => cases h; exact .inl (fpp_err hk)
    · split at h
      · next k' hk => cases h; rcases primeDefine_err hk with rfl | rfl <;> simp
      · split at h
        · next k' hk => cases h; rcases lookupIn_err hk with rfl | rfl <;> simp
        · simp only at h
          split at h
          · cases h; simp
          · cases h

theorem defineExt_sound (db : String) (c : Nat) (k : Kind) (h : Define.ext db c = .error k) :
    k.name ∈ kindsOf Gen.errClosed "extfield.Define" := by
  apply closed_extfield_Define
  rcases defineExt_err h with rfl | rfl | rfl <;> kind_mem

theorem defineExt_complete (db : String) :
    kindsOf Gen.errDirect "extfield.Define" = ["InputValue"] ∧
    Define.ext db 0 = .error .inputValue := ⟨direct_extfield_Define, rfl⟩

/-! ### finitefield.Define -/

theorem closed_finitefield_Define :
    ∀ x ∈ ["InputValue", "InputTooLarge", "Internal"], x ∈ kindsOf Gen.errClosed "finitefield.Define" := by decide +kernel
theorem direct_finitefield_Define : kindsOf Gen.errDirect "finitefield.Define" = ["InputValue"] := by
  decide +kernel

theorem defineAny_err {db : String} {c : Nat} {k : Kind} (h : Define.any db c = .error k) :
    k = .inputValue ∨ k = .inputTooLarge ∨ k = .internal := by
  unfold Define.any at h
  split at h
  · cases h; simp
  · split at h
    · exact defineBin_err h
    · split at h
      · unfold Define.prime at h
        cases hd : Prime.define c with
        | ok v => rw [hd] at h; cases h
        | error k' =>
          rw [hd] at h; cases h
          rcases primeDefine_err hd with rfl | rfl <;> simp
      · exact defineExt_err h

theorem defineAny_sound (db : String) (c : Nat) (k : Kind) (h : Define.any db c = .error k) :
    k.name ∈ kindsOf Gen.errClosed "finitefield.Define" := by
  apply closed_finitefield_Define
  rcases defineAny_err h with rfl | rfl | rfl <;> kind_mem

/-- `errors.Wrap(op, errors.InputValue, err)` around the factorisation error -/
theorem defineAny_complete (db : String) :
    kindsOf Gen.errDirect "finitefield.Define" = ["InputValue"] ∧
    Define.any db 0 = .error .inputValue ∧ Define.any db 12 = .error .inputValue := by
  have h0 : Auxmath.factorizePrimePower 0 = .error .inputValue := by decide +kernel
  have h12 : Auxmath.factorizePrimePower 12 = .error .inputValue := by decide +kernel
  exact ⟨direct_finitefield_Define, by simp [Define.any, h0], by simp [Define.any, h12]⟩

/-! ### the element parsers -/

theorem closed_primefield_ElementFromString :
    ∀ x ∈ ["Parsing"], x ∈ kindsOf Gen.errClosed "primefield.Field.ElementFromString" := by decide +kernel
theorem direct_primefield_ElementFromString :
    kindsOf Gen.errDirect "primefield.Field.ElementFromString" = ["Parsing"] := by decide +kernel

theorem primeParse_err {p : Nat} {s : String} {k : Kind} (h : Prime.parse p s = .error k) :
    k = .parsing := by
  unfold Prime.parse at h
  simp only at h
  repeat' split at h
  all_goals first | (cases h; rfl) | cases h

theorem primeParse_sound (p : Nat) (s : String) (k : Kind) (h : Prime.parse p s = .error k) :
    k.name ∈ kindsOf Gen.errClosed "primefield.Field.ElementFromString" := by
  rw [primeParse_err h]; apply closed_primefield_ElementFromString; kind_mem

theorem primeParse_complete (p : Nat) :
    kindsOf Gen.errDirect "primefield.Field.ElementFromString" = ["Parsing"] ∧
    Prime.parse p "" = .error .parsing := by
  refine ⟨direct_primefield_ElementFromString, ?_⟩
  rcases Strings.parse_cases p "" with h | ⟨t, ht, _⟩ | h
  · have := ((Strings.isDigits_iff "").1 h).1; exact absurd rfl this
  · have := congrArg String.toList ht
    simp at this
  · exact h

theorem closed_binfield_ElementFromString :
    ∀ x ∈ ["InputValue", "Parsing", "InputTooLarge"], x ∈ kindsOf Gen.errClosed "binfield.Field.ElementFromString" := by decide +kernel
theorem direct_binfield_ElementFromString :
    kindsOf Gen.errDirect "binfield.Field.ElementFromString" =
    ["InputValue", "Parsing", "InputTooLarge"] := by decide +kernel

theorem binParse_sound (n m : Nat) (v s : String) (k : Kind) (h : Bin.parse n m v s = .error k) :
    k.name ∈ kindsOf Gen.errClosed "binfield.Field.ElementFromString" := by
  apply closed_binfield_ElementFromString
  rcases Strings.bin_parse_error h with rfl | rfl | rfl <;> kind_mem

/-- the matches of the two inputs with an exponent (the tokeniser evaluates in the kernel, the
    decimal conversions of `parseUint` do not: they go through `Strings.parseUint_eq`) -/
theorem binParse_complete :
    kindsOf Gen.errDirect "binfield.Field.ElementFromString" =
      ["InputValue", "Parsing", "InputTooLarge"] ∧
    Bin.parse 3 11 "a" "?" = .error .parsing ∧
    Bin.parse 3 11 "a" "a^64" = .error .inputTooLarge ∧
    Bin.parse 3 11 "a" "a^18446744073709551616" = .error .inputValue := by
  refine ⟨direct_binfield_ElementFromString, by decide +kernel, ?_, ?_⟩
  · have hs : Parse.simpleName "a" = true := by decide +kernel
    have hm : Parse.matchesBin "a" "a^64" = some [#["a^64", "a^64", "64"]] := by decide +kernel
    have hp : parseUint "64" = some 64 := by
      have := Strings.parseUint_toString (n := 64) (by decide)
      rwa [show toString 64 = "64" by decide +kernel] at this
    unfold Bin.parse
    rw [if_pos hs, hm]
    simp [Bin.parseRx.go, hp, uintSize]
  · have hs : Parse.simpleName "a" = true := by decide +kernel
    have hm : Parse.matchesBin "a" "a^18446744073709551616" =
        some [#["a^18446744073709551616", "a^18446744073709551616", "18446744073709551616"]] := by
      decide +kernel
    have hp : parseUint "18446744073709551616" = none := by
      have : parseUint (toString (2 ^ 64)) = none := by
        rw [Strings.parseUint_eq, if_pos (Strings.isDigits_toString _), Strings.toNat!_toString]
        simp
      rwa [show toString (2 ^ 64) = "18446744073709551616" by decide +kernel] at this
    unfold Bin.parse
    rw [if_pos hs, hm]
    simp [Bin.parseRx.go, hp]

theorem closed_extfield_ElementFromString :
    ∀ x ∈ ["Parsing"], x ∈ kindsOf Gen.errClosed "extfield.Field.ElementFromString" := by decide +kernel
theorem direct_extfield_ElementFromString :
    kindsOf Gen.errDirect "extfield.Field.ElementFromString" = ["Parsing"] := by decide +kernel

theorem extParse_sound (p : Nat) (g : List Nat) (s : String) (k : Kind)
    (h : Ext.parse p g s = .error k) :
    k.name ∈ kindsOf Gen.errClosed "extfield.Field.ElementFromString" := by
  rw [Strings.ext_parse_error h]; apply closed_extfield_ElementFromString; kind_mem

/-- `errors.Wrap(op, errors.Parsing, err)` around whatever `PolynomialFromString` reports -/
theorem extParse_complete :
    kindsOf Gen.errDirect "extfield.Field.ElementFromString" = ["Parsing"] ∧
    Ext.parse 3 [2, 2, 1] "?" = .error .parsing :=
  ⟨direct_extfield_ElementFromString, by decide +kernel⟩

/-! ### the polynomial parsers -/

theorem closed_univariate_PolynomialFromString :
    ∀ x ∈ ["Internal", "Parsing", "Conversion"], x ∈ kindsOf Gen.errClosed "univariate.QuotientRing.PolynomialFromString" := by decide +kernel
theorem closed_univariate_polynomialStringToMap :
    ∀ x ∈ ["Internal", "Parsing", "Conversion"], x ∈ kindsOf Gen.errClosed "univariate.polynomialStringToMap" := by decide +kernel
theorem direct_univariate_polynomialStringToMap :
    kindsOf Gen.errDirect "univariate.polynomialStringToMap" = ["Internal", "Parsing"] := by
  decide +kernel
theorem direct_univariate_degreeAndCoef :
    kindsOf Gen.errDirect "univariate.monomialMatch.degreeAndCoef" = ["Conversion"] := by decide +kernel

theorem uParse_sound {α : Type} (R : UPoly.Ring α) (s : String) (k : Kind)
    (h : UPoly.parse R s = .error k) :
    k.name ∈ kindsOf Gen.errClosed "univariate.QuotientRing.PolynomialFromString" ∧
    k.name ∈ kindsOf Gen.errClosed "univariate.polynomialStringToMap" := by
  rcases Strings.u_parse_error h with rfl | rfl | rfl <;>
    exact ⟨closed_univariate_PolynomialFromString _ (by kind_mem),
      closed_univariate_polynomialStringToMap _ (by kind_mem)⟩

/-- Parsing: a character no match covers. (`Internal` of `polynomialStringToMap`/`newMonomialMatch` —
    a pattern that does not compile, a match without the expected groups — is unreachable in the Go
    code for a pattern assembled from quoted names; a `Conversion` witness is
    Props/C15Full.lean `parse_monomial_overflow`.) -/
theorem uParse_complete :
    kindsOf Gen.errDirect "univariate.polynomialStringToMap" = ["Internal", "Parsing"] ∧
    kindsOf Gen.errDirect "univariate.monomialMatch.degreeAndCoef" = ["Conversion"] ∧
    UPoly.parse { F := primeOps 7, varName := "X", modulus := none } "?" = .error .parsing :=
  ⟨direct_univariate_polynomialStringToMap, direct_univariate_degreeAndCoef, by decide +kernel⟩

theorem closed_bivariate_PolynomialFromString :
    ∀ x ∈ ["Internal", "Parsing", "Conversion"], x ∈ kindsOf Gen.errClosed "bivariate.QuotientRing.PolynomialFromString" := by decide +kernel
theorem closed_bivariate_polynomialStringToMap :
    ∀ x ∈ ["Internal", "Parsing", "Conversion"], x ∈ kindsOf Gen.errClosed "bivariate.polynomialStringToMap" := by decide +kernel
theorem direct_bivariate_polynomialStringToMap :
    kindsOf Gen.errDirect "bivariate.polynomialStringToMap" = ["Internal", "Parsing"] := by
  decide +kernel

theorem bParse_sound {α : Type} (R : BPoly.Ring α) (s : String) (k : Kind)
    (h : BPoly.parse R s = .error k) :
    k.name ∈ kindsOf Gen.errClosed "bivariate.QuotientRing.PolynomialFromString" ∧
    k.name ∈ kindsOf Gen.errClosed "bivariate.polynomialStringToMap" := by
  rcases Strings.b_parse_error h with rfl | rfl | rfl <;>
    exact ⟨closed_bivariate_PolynomialFromString _ (by kind_mem),
      closed_bivariate_polynomialStringToMap _ (by kind_mem)⟩

theorem bParse_complete :
    kindsOf Gen.errDirect "bivariate.polynomialStringToMap" = ["Internal", "Parsing"] ∧
    BPoly.parse ⟨primeOps 5, ⟨.lex, true⟩, ("X", "Y"), none⟩ "?" = .error .parsing :=
  ⟨direct_bivariate_polynomialStringToMap, by decide +kernel⟩

/-! ### QuoRem / Rem -/

theorem closed_univariate_QuoRem :
    ∀ x ∈ ["InputValue"], x ∈ kindsOf Gen.errClosed "univariate.Polynomial.QuoRem" := by decide +kernel
theorem direct_univariate_QuoRem :
    kindsOf Gen.errDirect "univariate.Polynomial.QuoRem" = ["InputValue"] := by decide +kernel

theorem uQuoRem_err {α : Type} {F : FOps α} {fuel : Nat} {f : UPoly α} {gs : List (UPoly α)} {k : Kind}
    (h : UPoly.quoRem F fuel f gs = .error k) : k = .inputValue := by
  unfold UPoly.quoRem at h
  split at h <;> cases h; rfl

theorem uQuoRem_sound {α : Type} (F : FOps α) (fuel : Nat) (f : UPoly α) (gs : List (UPoly α)) (k : Kind)
    (h : UPoly.quoRem F fuel f gs = .error k) :
    k.name ∈ kindsOf Gen.errClosed "univariate.Polynomial.QuoRem" := by
  rw [uQuoRem_err h]; apply closed_univariate_QuoRem; kind_mem

/-- a zero divisor among the divisors -/
theorem uQuoRem_complete : kindsOf Gen.errDirect "univariate.Polynomial.QuoRem" = ["InputValue"] ∧
    UPoly.quoRem (primeOps 5) 10 [1, 2, 0, 1, 3] [[1, 0, 2], [0]] = .error .inputValue :=
  ⟨direct_univariate_QuoRem, by decide +kernel⟩

theorem closed_bivariate_QuoRem :
    ∀ x ∈ ["InputValue"], x ∈ kindsOf Gen.errClosed "bivariate.Polynomial.QuoRem" := by decide +kernel
theorem closed_bivariate_quoRemWithIgnore :
    ∀ x ∈ ["InputValue"], x ∈ kindsOf Gen.errClosed "bivariate.Polynomial.quoRemWithIgnore" := by decide +kernel
theorem direct_bivariate_quoRemWithIgnore :
    kindsOf Gen.errDirect "bivariate.Polynomial.quoRemWithIgnore" = ["InputValue"] := by decide +kernel
theorem closed_bivariate_Rem :
    ∀ x ∈ ["InputValue"], x ∈ kindsOf Gen.errClosed "bivariate.Polynomial.Rem" := by decide +kernel
theorem direct_bivariate_Rem :
    kindsOf Gen.errDirect "bivariate.Polynomial.Rem" = ["InputValue"] := by decide +kernel

theorem bQuoRem_err {α : Type} {F : FOps α} {o : Order} {fuel : Nat} {ig : Option Nat} {f : BPoly α}
    {gs : List (BPoly α)} {k : Kind} (h : BPoly.quoRem F o fuel ig f gs = .error k) : k = .inputValue := by
  unfold BPoly.quoRem at h
  split at h <;> cases h; rfl

theorem bRem_err {α : Type} {F : FOps α} {o : Order} {fuel : Nat} {f : BPoly α}
    {gs : List (BPoly α)} {k : Kind} (h : BPoly.rem F o fuel f gs = .error k) : k = .inputValue := by
  unfold BPoly.rem at h
  split at h
  · next k' hk => cases h; exact bQuoRem_err hk
  · cases h

theorem bQuoRem_sound {α : Type} (F : FOps α) (o : Order) (fuel : Nat) (ig : Option Nat) (f : BPoly α)
    (gs : List (BPoly α)) (k : Kind) (h : BPoly.quoRem F o fuel ig f gs = .error k) :
    k.name ∈ kindsOf Gen.errClosed "bivariate.Polynomial.quoRemWithIgnore" ∧
    k.name ∈ kindsOf Gen.errClosed "bivariate.Polynomial.QuoRem" := by
  rw [bQuoRem_err h]
  exact ⟨closed_bivariate_quoRemWithIgnore _ (by kind_mem), closed_bivariate_QuoRem _ (by kind_mem)⟩

theorem bRem_sound {α : Type} (F : FOps α) (o : Order) (fuel : Nat) (f : BPoly α)
    (gs : List (BPoly α)) (k : Kind) (h : BPoly.rem F o fuel f gs = .error k) :
    k.name ∈ kindsOf Gen.errClosed "bivariate.Polynomial.Rem" := by
  rw [bRem_err h]; apply closed_bivariate_Rem; kind_mem

theorem bQuoRem_complete :
    kindsOf Gen.errDirect "bivariate.Polynomial.quoRemWithIgnore" = ["InputValue"] ∧
    kindsOf Gen.errDirect "bivariate.Polynomial.Rem" = ["InputValue"] ∧
    BPoly.quoRem (primeOps 5) ⟨.lex, true⟩ 20 none [((2, 1), 1), ((0, 2), 1)]
      [[((1, 1), 1), ((0, 0), 4)], []] = .error .inputValue ∧
    BPoly.rem (primeOps 5) ⟨.lex, true⟩ 20 [((2, 1), 1), ((0, 2), 1)] [[]] = .error .inputValue :=
  ⟨direct_bivariate_quoRemWithIgnore, direct_bivariate_Rem, rfl, rfl⟩

/-! ### bivariate.addDegs (through multNoReduce / Times / Mult) -/

theorem closed_bivariate_addDegs :
    ∀ x ∈ ["Overflow"], x ∈ kindsOf Gen.errClosed "bivariate.addDegs" := by decide +kernel
/-- exactness claim (not used by the sound proofs): this function constructs nothing else, also through its callees -/
theorem closedExact_bivariate_addDegs :
    kindsOf Gen.errClosed "bivariate.addDegs" = ["Overflow"] := by decide +kernel
theorem direct_bivariate_addDegs : kindsOf Gen.errDirect "bivariate.addDegs" = ["Overflow"] := by
  decide +kernel
theorem closed_bivariate_multNoReduce :
    ∀ x ∈ ["Overflow"], x ∈ kindsOf Gen.errClosed "bivariate.Polynomial.multNoReduce" := by decide +kernel
theorem closed_bivariate_Mult :
    ∀ x ∈ ["Overflow"], x ∈ kindsOf Gen.errClosed "bivariate.Polynomial.Mult" := by decide +kernel

/-- the model's `addDegs` returns `none` exactly where the code constructs its only error -/
theorem bTimes_err {α : Type} {R : BPoly.Ring α} {f g : BPoly α} {k : Kind}
    (h : BPoly.times R f g = .error k) : k = .overflow := by
  unfold BPoly.times at h
  split at h <;> cases h; rfl

theorem bTimes_sound {α : Type} (R : BPoly.Ring α) (f g : BPoly α) (k : Kind)
    (h : BPoly.times R f g = .error k) :
    k.name ∈ kindsOf Gen.errClosed "bivariate.addDegs" ∧
    k.name ∈ kindsOf Gen.errClosed "bivariate.Polynomial.multNoReduce" ∧
    k.name ∈ kindsOf Gen.errClosed "bivariate.Polynomial.Mult" := by
  rw [bTimes_err h]
  exact ⟨closed_bivariate_addDegs _ (by kind_mem), closed_bivariate_multNoReduce _ (by kind_mem),
    closed_bivariate_Mult _ (by kind_mem)⟩

theorem addDegs_complete : kindsOf Gen.errDirect "bivariate.addDegs" = ["Overflow"] ∧
    BPoly.addDegs (2 ^ 63, 0) (2 ^ 63, 0) = none ∧ BPoly.addDegs (0, 2 ^ 64 - 1) (0, 1) = none ∧
    BPoly.times ⟨primeOps 5, ⟨.lex, true⟩, ("X", "Y"), none⟩ [((2 ^ 63, 0), 1)] [((2 ^ 63, 0), 1)] =
      .error .overflow :=
  ⟨direct_bivariate_addDegs, by decide +kernel, by decide +kernel, by decide +kernel⟩

/-! ### MinimizeBasis / ReduceBasis -/

theorem closed_bivariate_MinimizeBasis :
    ∀ x ∈ ["InputValue"], x ∈ kindsOf Gen.errClosed "bivariate.Ideal.MinimizeBasis" := by decide +kernel
theorem direct_bivariate_MinimizeBasis :
    kindsOf Gen.errDirect "bivariate.Ideal.MinimizeBasis" = ["InputValue"] := by decide +kernel
theorem closed_bivariate_ReduceBasis :
    ∀ x ∈ ["InputValue"], x ∈ kindsOf Gen.errClosed "bivariate.Ideal.ReduceBasis" := by decide +kernel
theorem direct_bivariate_ReduceBasis :
    kindsOf Gen.errDirect "bivariate.Ideal.ReduceBasis" = ["InputValue"] := by decide +kernel

theorem minimizeBasis_sound {α : Type} (F : FOps α) (o : Order) (id id' : BPoly.Ideal α) (k : Kind)
    (h : id.minimizeBasis F o = some (id', .error k)) :
    k.name ∈ kindsOf Gen.errClosed "bivariate.Ideal.MinimizeBasis" := by
  rw [(BPoly.minimizeBasis_error_iff.1 h).2]; apply closed_bivariate_MinimizeBasis; kind_mem

theorem reduceBasis_sound {α : Type} (F : FOps α) (o : Order) (id id' : BPoly.Ideal α) (k : Kind)
    (h : id.reduceBasis F o = some (id', .error k)) :
    k.name ∈ kindsOf Gen.errClosed "bivariate.Ideal.ReduceBasis" := by
  rw [(BPoly.reduceBasis_error_iff.1 h).2]; apply closed_bivariate_ReduceBasis; kind_mem

/-- GF(3), Lex: `{XY + 2, Y² + 2}` is not a Gröbner basis -/
theorem basis_complete :
    kindsOf Gen.errDirect "bivariate.Ideal.MinimizeBasis" = ["InputValue"] ∧
    kindsOf Gen.errDirect "bivariate.Ideal.ReduceBasis" = ["InputValue"] ∧
    (({ gens := [[((1, 1), 1), ((0, 0), 2)], [((0, 2), 1), ((0, 0), 2)]] } : BPoly.Ideal Nat).minimizeBasis
      (primeOps 3) ⟨.lex, true⟩).map (·.2) = some (.error .inputValue) ∧
    (({ gens := [[((1, 1), 1), ((0, 0), 2)], [((0, 2), 1), ((0, 0), 2)]] } : BPoly.Ideal Nat).reduceBasis
      (primeOps 3) ⟨.lex, true⟩).map (·.2) = some (.error .inputValue) :=
  ⟨direct_bivariate_MinimizeBasis, direct_bivariate_ReduceBasis, by decide +kernel, by decide +kernel⟩

/-! ### Interpolate -/

theorem closed_univariate_Interpolate :
    ∀ x ∈ ["InputValue"], x ∈ kindsOf Gen.errClosed "univariate.QuotientRing.Interpolate" := by decide +kernel
theorem direct_univariate_Interpolate :
    kindsOf Gen.errDirect "univariate.QuotientRing.Interpolate" = ["InputValue"] := by decide +kernel
theorem closed_bivariate_Interpolate :
    ∀ x ∈ ["InputValue", "Overflow"], x ∈ kindsOf Gen.errClosed "bivariate.QuotientRing.Interpolate" := by decide +kernel
theorem direct_bivariate_Interpolate :
    kindsOf Gen.errDirect "bivariate.QuotientRing.Interpolate" = ["InputValue"] := by decide +kernel

theorem uInterp_err {α : Type} {F : FOps α} {ps vs : List α} {k : Kind}
    (h : UPoly.interpolate F ps vs = .error k) : k = .inputValue := by
  unfold UPoly.interpolate at h
  repeat' split at h
  all_goals first | (cases h; rfl) | cases h

theorem uInterp_sound {α : Type} (F : FOps α) (ps vs : List α) (k : Kind)
    (h : UPoly.interpolate F ps vs = .error k) :
    k.name ∈ kindsOf Gen.errClosed "univariate.QuotientRing.Interpolate" := by
  rw [uInterp_err h]; apply closed_univariate_Interpolate; kind_mem

/-- both sites: different numbers of points and values; a repeated point -/
theorem uInterp_complete : kindsOf Gen.errDirect "univariate.QuotientRing.Interpolate" = ["InputValue"] ∧
    UPoly.interpolate (primeOps 5) [0, 1] [1, 2, 0] = .error .inputValue ∧
    UPoly.interpolate (primeOps 5) [0, 1, 1] [1, 2, 0] = .error .inputValue :=
  ⟨direct_univariate_Interpolate, by decide +kernel, by decide +kernel⟩

/-- an error coming out of a left fold satisfies `P` when the start value does and every step
    either keeps an error or produces one satisfying `P` -/
theorem foldl_err_inv {β γ : Type} (P : Kind → Prop) (step : Except Kind β → γ → Except Kind β)
    (hstep : ∀ acc x k, (∀ k', acc = .error k' → P k') → step acc x = .error k → P k) :
    ∀ (l : List γ) (acc : Except Kind β), (∀ k', acc = .error k' → P k') →
      ∀ k, l.foldl step acc = .error k → P k
  | [], _, hacc, k, h => hacc k h
  | x :: l, acc, hacc, k, h =>
    foldl_err_inv P step hstep l (step acc x) (fun k' hk' => hstep acc x k' hacc hk') k h

theorem bInterp_err {α : Type} {R : BPoly.Ring α} {ps : List (α × α)} {vs : List α} {k : Kind}
    (h : BPoly.interpolate R ps vs = .error k) : k = .inputValue ∨ k = .overflow := by
  unfold BPoly.interpolate at h
  simp only at h
  split at h
  · cases h; exact .inl rfl
  · split at h
    · cases h; exact .inl rfl
    · refine .inr (foldl_err_inv (· = .overflow) _ ?_ _ _ (fun k' hk' => by cases hk') k h)
      intro _ x k hacc hs
      obtain ⟨p, v⟩ := x
      simp only at hs
      repeat' split at hs
      all_goals first
        | (cases hs; done)
        | (cases hs; exact hacc _ rfl)
        | (cases hs; exact bTimes_err (by assumption))

theorem bInterp_sound {α : Type} (R : BPoly.Ring α) (ps : List (α × α)) (vs : List α) (k : Kind)
    (h : BPoly.interpolate R ps vs = .error k) :
    k.name ∈ kindsOf Gen.errClosed "bivariate.QuotientRing.Interpolate" := by
  apply closed_bivariate_Interpolate
  rcases bInterp_err h with rfl | rfl <;> kind_mem

theorem bInterp_complete : kindsOf Gen.errDirect "bivariate.QuotientRing.Interpolate" = ["InputValue"] ∧
    BPoly.interpolate ⟨primeOps 5, ⟨.lex, true⟩, ("X", "Y"), none⟩ [(0, 0), (1, 0)] [1, 2, 3] =
      .error .inputValue ∧
    BPoly.interpolate ⟨primeOps 5, ⟨.lex, true⟩, ("X", "Y"), none⟩ [(0, 0), (1, 0), (0, 0)] [1, 2, 3] =
      .error .inputValue :=
  ⟨direct_bivariate_Interpolate, by decide +kernel, by decide +kernel⟩

/-! ### tables -/

theorem closed_primefield_ComputeTables :
    ∀ x ∈ ["InputTooLarge"], x ∈ kindsOf Gen.errClosed "primefield.Field.ComputeTables" := by decide +kernel
theorem closed_primefield_newTable :
    ∀ x ∈ ["InputTooLarge"], x ∈ kindsOf Gen.errClosed "primefield.newTable" := by decide +kernel
theorem direct_primefield_newTable :
    kindsOf Gen.errDirect "primefield.newTable" = ["InputTooLarge"] := by decide +kernel
theorem closed_extfield_newLogTable :
    ∀ x ∈ ["InputTooLarge"], x ∈ kindsOf Gen.errClosed "extfield.newLogTable" := by decide +kernel
theorem direct_extfield_newLogTable :
    kindsOf Gen.errDirect "extfield.newLogTable" = ["InputTooLarge"] := by decide +kernel

theorem computeTables_err {p : Nat} {a m : Bool} {mm : Nat} {k : Kind}
    (h : Prime.computeTables p a m mm = .error k) : k = .inputTooLarge := by
  unfold Prime.computeTables at h
  split at h <;> cases h; rfl

theorem computeTables_sound (p : Nat) (a m : Bool) (mm : Nat) (k : Kind)
    (h : Prime.computeTables p a m mm = .error k) :
    k.name ∈ kindsOf Gen.errClosed "primefield.Field.ComputeTables" ∧
    k.name ∈ kindsOf Gen.errClosed "primefield.newTable" := by
  rw [computeTables_err h]
  exact ⟨closed_primefield_ComputeTables _ (by kind_mem), closed_primefield_newTable _ (by kind_mem)⟩

theorem computeTables_complete : kindsOf Gen.errDirect "primefield.newTable" = ["InputTooLarge"] ∧
    Prime.computeTables 65537 true false 1000 = .error .inputTooLarge :=
  ⟨direct_primefield_newTable, by decide +kernel⟩

/-- the `.tables` operation of `step` (primefield `ComputeTables`, extfield `ComputeMultTable`):
    the only error reply is `InputTooLarge` -/
theorem stepT_tables_sound {α : Type} (desc : FieldDesc) (s : St α) (f : Nat) (a m : Bool)
    (mm : Option Nat) (r : St α × String) (h : stepT desc s (.tables f a m mm) = some r) :
    r.2 = "ok" ∨ (r.2 = "err " ++ Kind.inputTooLarge.name ∧
      Kind.inputTooLarge.name ∈ kindsOf Gen.errClosed "primefield.Field.ComputeTables" ∧
      Kind.inputTooLarge.name ∈ kindsOf Gen.errClosed "extfield.newLogTable") := by
  have hname : "err " ++ Kind.inputTooLarge.name = "err InputTooLarge" := by decide +kernel
  rw [hname]
  have hm : Kind.inputTooLarge.name ∈ kindsOf Gen.errClosed "primefield.Field.ComputeTables" ∧
      Kind.inputTooLarge.name ∈ kindsOf Gen.errClosed "extfield.newLogTable" :=
    ⟨closed_primefield_ComputeTables _ (by kind_mem), closed_extfield_newLogTable _ (by kind_mem)⟩
  unfold stepT at h
  cases desc with
  | prime p =>
    simp only [Option.some.injEq] at h
    subst h
    simp only
    repeat' split
    all_goals first | exact .inl rfl | exact .inr ⟨rfl, hm⟩
  | bin n m' => simp only [Option.some.injEq] at h; subst h; exact .inl rfl
  | ext p n g =>
    simp only at h
    split at h
    · simp only [Option.some.injEq] at h; subst h; exact .inl rfl
    · split at h
      · simp only [Option.some.injEq] at h; subst h; exact .inr ⟨rfl, hm⟩
      · simp only [Option.some.injEq] at h; subst h; exact .inl rfl

/-- GF(3^8) with a limit of 0 KiB -/
theorem logTable_complete : kindsOf Gen.errDirect "extfield.newLogTable" = ["InputTooLarge"] ∧
    (stepT (.ext 3 8 []) ({} : St Nat) (.tables 0 false true (some 0))).map (·.2) =
      some ("err " ++ Kind.inputTooLarge.name) :=
  ⟨direct_extfield_newLogTable, by decide +kernel⟩

/-! ### Inv of zero -/

theorem direct_Inv :
    kindsOf Gen.errDirect "primefield.Element.Inv" = ["InputValue"] ∧
    kindsOf Gen.errDirect "binfield.Element.Inv" = ["InputValue"] ∧
    kindsOf Gen.errDirect "extfield.Element.Inv" = ["InputValue"] := by
  refine ⟨by decide +kernel, by decide +kernel, by decide +kernel⟩

/-- the model's `inv` returns `none` (the element carrying the InputValue error) on zero -/
theorem inv_complete : Prime.inv 7 0 = none ∧ Bin.inv 3 11 0 = none ∧ Ext.inv 3 [2, 2, 1] [0] = none ∧
    LogT.invWith (extOps 3 2 [2, 2, 1]) (Ext.logTable 3 2 [2, 2, 1]) [0] = none := by
  refine ⟨by decide +kernel, by decide +kernel, by decide +kernel, by decide +kernel⟩

/-! ### the variable-name setters -/

theorem closed_SetVarName :
    (∀ x ∈ ["InputValue"], x ∈ kindsOf Gen.errClosed "univariate.QuotientRing.SetVarName") ∧
    (∀ x ∈ ["InputValue"], x ∈ kindsOf Gen.errClosed "bivariate.QuotientRing.SetVarNames") ∧
    (∀ x ∈ ["InputValue"], x ∈ kindsOf Gen.errClosed "binfield.Field.SetVarName") := by
  refine ⟨by decide +kernel, by decide +kernel, by decide +kernel⟩
/-- exactness claim (not used by the sound proofs): the setters construct nothing but InputValue -/
theorem closedExact_SetVarName :
    kindsOf Gen.errClosed "univariate.QuotientRing.SetVarName" = ["InputValue"] ∧
    kindsOf Gen.errClosed "bivariate.QuotientRing.SetVarNames" = ["InputValue"] ∧
    kindsOf Gen.errClosed "binfield.Field.SetVarName" = ["InputValue"] := by
  refine ⟨by decide +kernel, by decide +kernel, by decide +kernel⟩
theorem direct_SetVarName :
    kindsOf Gen.errDirect "univariate.QuotientRing.SetVarName" = ["InputValue"] ∧
    kindsOf Gen.errDirect "bivariate.QuotientRing.SetVarNames" = ["InputValue"] ∧
    kindsOf Gen.errDirect "binfield.Field.SetVarName" = ["InputValue"] := by
  refine ⟨by decide +kernel, by decide +kernel, by decide +kernel⟩

theorem setVarName_sound (old new : String) (k : Kind) (h : (Names.setVarName old new).2 = .error k) :
    k.name ∈ kindsOf Gen.errClosed "univariate.QuotientRing.SetVarName" := by
  apply closed_SetVarName.1
  unfold Names.setVarName at h
  simp only at h
  split at h <;> cases h; kind_mem

theorem binSetVarName_sound (old new : String) (k : Kind) (h : (Names.binSetVarName old new).2 = .error k) :
    k.name ∈ kindsOf Gen.errClosed "binfield.Field.SetVarName" := by
  apply closed_SetVarName.2.2
  unfold Names.binSetVarName at h
  simp only at h
  repeat' split at h
  all_goals first | (cases h; kind_mem) | cases h

theorem setVarNames_sound (old new : String × String) (k : Kind)
    (h : (Names.setVarNames old new).2 = .error k) :
    k.name ∈ kindsOf Gen.errClosed "bivariate.QuotientRing.SetVarNames" := by
  apply closed_SetVarName.2.1
  unfold Names.setVarNames at h
  simp only at h
  repeat' split at h
  all_goals first | (cases h; kind_mem) | cases h

theorem setVarName_complete :
    (Names.setVarName "X" "  ").2 = .error .inputValue ∧
    (Names.binSetVarName "a" " 1 ").2 = .error .inputValue ∧
    (Names.setVarNames ("X", "Y") ("x", " X")).2 = .error .inputValue := by
  refine ⟨by decide +kernel, by decide +kernel, by decide +kernel⟩

/-! ### NewIdeal / Quotient / SPolynomial (reply strings of the object-level operations)

  These operations exist in the model only at the object level; their error replies are
  `"err " ++ kind name`. -/

theorem errReply_names :
    "err " ++ Kind.inputValue.name = "err InputValue" ∧
    "err " ++ Kind.inputIncompatible.name = "err InputIncompatible" ∧
    "err-ideal " ++ Kind.inputValue.name = "err-ideal InputValue" := by
  refine ⟨by decide +kernel, by decide +kernel, by decide +kernel⟩

theorem closed_univariate_NewIdeal :
    ∀ x ∈ ["InputValue"], x ∈ kindsOf Gen.errClosed "univariate.QuotientRing.NewIdeal" := by decide +kernel
theorem direct_univariate_NewIdeal : kindsOf Gen.errDirect "univariate.QuotientRing.NewIdeal" =
    ["InputValue", "InputIncompatible"] := by decide +kernel
theorem closed_univariate_Quotient :
    ∀ x ∈ ["InputValue", "InputIncompatible"], x ∈ kindsOf Gen.errClosed "univariate.QuotientRing.Quotient" := by decide +kernel
theorem direct_univariate_Quotient : kindsOf Gen.errDirect "univariate.QuotientRing.Quotient" =
    ["InputValue", "InputIncompatible"] := by decide +kernel
theorem closed_bivariate_NewIdeal :
    ∀ x ∈ ["InputValue", "InputIncompatible"], x ∈ kindsOf Gen.errClosed "bivariate.QuotientRing.NewIdeal" := by decide +kernel
theorem direct_bivariate_NewIdeal : kindsOf Gen.errDirect "bivariate.QuotientRing.NewIdeal" =
    ["InputIncompatible", "InputValue"] := by decide +kernel
theorem closed_bivariate_Quotient :
    ∀ x ∈ ["InputValue"], x ∈ kindsOf Gen.errClosed "bivariate.QuotientRing.Quotient" := by decide +kernel
theorem direct_bivariate_Quotient : kindsOf Gen.errDirect "bivariate.QuotientRing.Quotient" =
    ["InputValue", "InputIncompatible"] := by decide +kernel
theorem closed_bivariate_SPolynomial :
    ∀ x ∈ ["InputValue"], x ∈ kindsOf Gen.errClosed "bivariate.SPolynomial" := by decide +kernel
theorem direct_bivariate_SPolynomial : kindsOf Gen.errDirect "bivariate.SPolynomial" =
    ["InputValue"] := by decide +kernel

section replies
variable {α : Type} (env : Env α)

/-- `uquot@k j:gens` = `NewIdeal` in ring j, then `ring k .Quotient(id)`: the ideal step fails only with
    InputValue (∈ closed list of `univariate.QuotientRing.NewIdeal`), the quotient step only with
    InputValue or InputIncompatible (= the closed list of `univariate.QuotientRing.Quotient`) -/
theorem uquot_reply_sound (st : St α) (k j : Nat) (gens : List (UPoly α)) :
    (uquotOp env st k j gens).2 = "ok" ∨ (uquotOp env st k j gens).2 = "bad-op" ∨
    ((uquotOp env st k j gens).2 = "err-ideal " ++ Kind.inputValue.name ∧
      Kind.inputValue.name ∈ kindsOf Gen.errClosed "univariate.QuotientRing.NewIdeal") ∨
    (∃ kd : Kind, (uquotOp env st k j gens).2 = "err " ++ kd.name ∧
      kd.name ∈ kindsOf Gen.errClosed "univariate.QuotientRing.Quotient") := by
  rw [errReply_names.2.2]
  have hm := closed_univariate_NewIdeal Kind.inputValue.name (by kind_mem)
  unfold uquotOp
  repeat' split
  · exact .inr (.inl rfl)
  · exact .inr (.inr (.inl ⟨rfl, hm⟩))
  · exact .inr (.inr (.inl ⟨rfl, hm⟩))
  · exact .inr (.inr (.inr ⟨.inputValue, by rw [errReply_names.1],
      closed_univariate_Quotient _ (by kind_mem)⟩))
  · exact .inr (.inr (.inr ⟨.inputIncompatible, by rw [errReply_names.2.1],
      closed_univariate_Quotient _ (by kind_mem)⟩))
  · exact .inl rfl

/-- `bivariate.(*QuotientRing).NewIdeal` (`Op.iNew`): the error replies are InputIncompatible and
    InputValue — exactly the closed (and direct) list of the Go function -/
theorem iNew_reply_sound (s : St α) (dst ring : Nat) (gs : List Nat) :
    ∃ r, stepB env s (.iNew dst ring gs) = some r ∧
      ((∃ kd : Kind, r.2 = "err " ++ kd.name ∧
          kd.name ∈ kindsOf Gen.errClosed "bivariate.QuotientRing.NewIdeal") ∨
       ∃ gens, r.2 = "ok " ++ showGens env (bord env 0) gens) := by
  simp only [stepB]
  split
  · exact ⟨_, rfl, .inl ⟨.inputIncompatible, by rw [errReply_names.2.1],
      closed_bivariate_NewIdeal _ (by kind_mem)⟩⟩
  · split
    · exact ⟨_, rfl, .inl ⟨.inputValue, by rw [errReply_names.1],
        closed_bivariate_NewIdeal _ (by kind_mem)⟩⟩
    · exact ⟨_, rfl, .inr ⟨_, rfl⟩⟩

/-- `quotient@1` (a quotient of a quotient ring: InputValue) -/
theorem quotient1_reply_sound (st : St α) (n : Nat) :
    (quotient1Op env st n).2 = "bad-op" ∨
    ((quotient1Op env st n).2 = "err " ++ Kind.inputValue.name ∧
      Kind.inputValue.name ∈ kindsOf Gen.errClosed "bivariate.QuotientRing.Quotient") := by
  rw [errReply_names.1]
  unfold quotient1Op
  simp only
  split
  · exact .inr ⟨rfl, closed_bivariate_Quotient _ (by kind_mem)⟩
  · exact .inl rfl

/-- `bivariate.SPolynomial` (`spolyOp`) with error-free operands of one ring: the only error reply is
    InputValue (a zero operand) -/
theorem spoly_reply_sound (st : St α) (dst a b : Nat) (hc : bCheck (bGet st a) [bGet st b] = none) :
    (spolyOp env st dst a b).2 = "fuel-exhausted" ∨
    ((spolyOp env st dst a b).2 = "err " ++ Kind.inputValue.name ∧
      Kind.inputValue.name ∈ kindsOf Gen.errClosed "bivariate.SPolynomial") ∨
    ∃ r : BReg α, (spolyOp env st dst a b).2 = "ok " ++ showB env r := by
  rw [errReply_names.1]
  unfold spolyOp
  simp only [hc]
  repeat' split
  · exact .inr (.inl ⟨rfl, closed_bivariate_SPolynomial _ (by kind_mem)⟩)
  · exact .inl rfl
  · exact .inl rfl
  · exact .inr (.inr ⟨_, rfl⟩)

end replies

/-- the direct lists of the four ring-level constructors, and concrete replies of the model:
    a quotient of a quotient ring and an ideal of another ring (univariate); generators of another
    ring and no nonzero generator (bivariate `NewIdeal`). -/
theorem ideals_complete :
    kindsOf Gen.errDirect "univariate.QuotientRing.NewIdeal" = ["InputValue", "InputIncompatible"] ∧
    kindsOf Gen.errDirect "univariate.QuotientRing.Quotient" = ["InputValue", "InputIncompatible"] ∧
    kindsOf Gen.errDirect "bivariate.QuotientRing.NewIdeal" = ["InputIncompatible", "InputValue"] ∧
    kindsOf Gen.errDirect "bivariate.QuotientRing.Quotient" = ["InputValue", "InputIncompatible"] ∧
    kindsOf Gen.errDirect "bivariate.SPolynomial" = ["InputValue"] :=
  ⟨direct_univariate_NewIdeal, direct_univariate_Quotient, direct_bivariate_NewIdeal,
   direct_bivariate_Quotient, direct_bivariate_SPolynomial⟩

end Algobra.ErrTies
