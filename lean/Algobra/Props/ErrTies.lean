/-
  Props/ErrTies.lean — the error kinds of the model tied to the Go source.

  PART A: the `errors` package itself (Model/ErrChain.lean): `errors.Is` on wrapper chains of any
  length agrees with the three-valued status `Err` the model works with; `Err.wrapInherit` /
  `Err.wrap` are exactly what `errors.Wrap` does to that status; the three Go functions are pinned
  by their source text.

  PART B: for each modelled function, the kinds the model can return are among the kinds the Go
  function can construct (`Gen.errClosed`, closed under the call graph), and every kind the Go
  function constructs itself (`Gen.errDirect`) is returned by the model on a concrete input.
  Both tables are regenerated from the Go source on every run (extract/errsites.go), so a changed
  kind at any error site of a listed function breaks the corresponding obligation.
-/
import Algobra.Model.ErrChain
import Algobra.Model.Names
import Algobra.Model.Tables
import Algobra.Model.Extra
import Algobra.Gen.ErrSites
import Algobra.Gen.Consts
namespace Algobra.ErrTies
open Algobra

/-! ## PART A — errors.New / errors.Wrap / errors.Is -/

/-- a non-nil error is an error: its status is never `none` -/
theorem status_ne_none : ∀ e : GoErr, e.status ≠ Err.none
  | .foreign _ => by simp [GoErr.status]
  | .wrap _ (some _) _ => by simp [GoErr.status]
  | .wrap _ none none => by simp [GoErr.status]
  | .wrap _ none (some e) => by simpa [GoErr.status] using status_ne_none e

theorem status_isErr (e : GoErr) : e.status.isErr = true := by
  have := status_ne_none e
  cases h : e.status <;> simp_all [Err.isErr]

/-- the status of a Go `error` value is `none` exactly for nil -/
theorem statusO_eq_none (o : Option GoErr) : GoErr.statusO o = Err.none ↔ o = none := by
  cases o with
  | none => simp [GoErr.statusO]
  | some e => simpa [GoErr.statusO] using status_ne_none e

/-- (A1) `errors.Is(k, e)` holds exactly when the status of the chain is `kind k` -/
theorem is_iff_status (k : Kind) : ∀ e : GoErr, e.is k = true ↔ e.status = Err.kind k
  | .foreign _ => by simp [GoErr.is, GoErr.status]
  | .wrap _ (some _) _ => by simp [GoErr.is, GoErr.status]
  | .wrap _ none none => by simp [GoErr.is, GoErr.status]
  | .wrap _ none (some e) => by simpa [GoErr.is, GoErr.status] using is_iff_status k e

/-- (A1) for a possibly nil error -/
theorem isO_iff_statusO (k : Kind) (o : Option GoErr) :
    GoErr.isO k o = true ↔ GoErr.statusO o = Err.kind k := by
  cases o with
  | none => simp [GoErr.isO, GoErr.statusO]
  | some e => simpa [GoErr.isO, GoErr.statusO] using is_iff_status k e

/-- (A1) no kind at all: `Is` fails for every kind exactly on the kind-less chains -/
theorem is_none_iff_kindless (e : GoErr) : (∀ k, e.is k = false) ↔ e.status = Err.kindless := by
  constructor
  · intro h
    cases hs : e.status with
    | none => exact absurd hs (status_ne_none e)
    | kindless => rfl
    | kind k => have := (is_iff_status k e).2 hs; simp [h k] at this
  · intro h k
    cases hk : e.is k with
    | false => rfl
    | true => have := (is_iff_status k e).1 hk; simp [h] at this

/-- (A2) `errors.Wrap(op, Inherit, err)` on the status is `Err.wrapInherit`, nil `err` included
    (`Wrap(op, Inherit, nil)` gives the kind-less error, as Model/Errors.lean says) -/
theorem status_wrap_inherit (op : String) (inner : Option GoErr) :
    (GoErr.wrapE op none inner).status = (GoErr.statusO inner).wrapInherit := by
  cases inner with
  | none => rfl
  | some e =>
    have := status_ne_none e
    simp only [GoErr.wrapE, GoErr.status, GoErr.statusO]
    cases h : e.status <;> simp_all [Err.wrapInherit]

/-- (A2) non-nil inner error: the status is unchanged -/
theorem status_wrap_inherit_some (op : String) (e : GoErr) :
    (GoErr.wrapE op none (some e)).status = e.status.wrapInherit ∧
    (GoErr.wrapE op none (some e)).status = e.status := by
  have h := status_wrap_inherit op (some e)
  refine ⟨h, ?_⟩
  simp [GoErr.wrapE, GoErr.status]

/-- (A2) nil inner error: kind-less -/
theorem status_wrap_inherit_nil (op : String) :
    (GoErr.wrapE op none none).status = Err.none.wrapInherit ∧
    (GoErr.wrapE op none none).status = Err.kindless := ⟨rfl, rfl⟩

/-- (A2) `errors.Wrap(op, k, err)` with `k ≠ Inherit` on the status is `Err.wrap k`, whatever `err` is -/
theorem status_wrap_kind (op : String) (k : Kind) (inner : Option GoErr) :
    (GoErr.wrapE op (some k) inner).status = Err.wrap k (GoErr.statusO inner) := rfl

/-- (A2) `errors.New(op, k, msg)` has status `kind k` -/
theorem status_new (op : String) (k : Kind) (msg : String) : (GoErr.new op k msg).status = Err.kind k := rfl

theorem is_new (op : String) (k k' : Kind) (msg : String) : (GoErr.new op k msg).is k' = (k == k') := rfl

/-- (A3) `errors.Is` does not look at operation names or messages -/
theorem is_relabel (k : Kind) (fop fmsg : String → String) :
    ∀ e : GoErr, (e.relabel fop fmsg).is k = e.is k
  | .foreign _ => rfl
  | .wrap _ (some _) none => rfl
  | .wrap _ (some _) (some _) => rfl
  | .wrap _ none none => rfl
  | .wrap _ none (some e) => by simpa [GoErr.relabel, GoErr.is] using is_relabel k fop fmsg e

theorem status_relabel (fop fmsg : String → String) (e : GoErr) :
    (e.relabel fop fmsg).status = e.status := by
  cases hs : e.status with
  | none => exact absurd hs (status_ne_none e)
  | kind k => exact (is_iff_status k _).1 (by rw [is_relabel]; exact (is_iff_status k e).2 hs)
  | kindless =>
    apply (is_none_iff_kindless _).1
    intro k; rw [is_relabel]; exact (is_none_iff_kindless e).2 hs k

/-- (A3) in particular the outermost operation name and the message of `New` are irrelevant -/
theorem is_op_irrelevant (k : Kind) (op op' : String) (kd : Option Kind) (inner : Option GoErr) :
    (GoErr.wrapE op kd inner).is k = (GoErr.wrapE op' kd inner).is k := by
  cases kd <;> cases inner <;> rfl

theorem is_msg_irrelevant (k k' : Kind) (op op' msg msg' : String) :
    (GoErr.new op k' msg).is k = (GoErr.new op' k' msg').is k := rfl

/-- (A3) an error has at most one kind -/
theorem is_unique {k k' : Kind} {e : GoErr} (h : e.is k = true) (h' : e.is k' = true) : k = k' := by
  have a := (is_iff_status k e).1 h
  have b := (is_iff_status k' e).1 h'
  rw [a] at b
  exact Err.kind.inj b

/-- (A4) chains of any length: wrapping `n` times with `Inherit` changes neither `Is` nor the status -/
theorem is_wrapInheritN (k : Kind) (ops : Nat → String) (e : GoErr) :
    ∀ n, (GoErr.wrapInheritN ops n e).is k = e.is k
  | 0 => rfl
  | n + 1 => by simpa [GoErr.wrapInheritN, GoErr.is] using is_wrapInheritN k ops e n

theorem status_wrapInheritN (ops : Nat → String) (e : GoErr) :
    ∀ n, (GoErr.wrapInheritN ops n e).status = e.status
  | 0 => rfl
  | n + 1 => by simpa [GoErr.wrapInheritN, GoErr.status] using status_wrapInheritN ops e n

/-- (A4) the kind given at the bottom by `errors.New` is found below any number of `Inherit` wrappers -/
theorem is_new_below (k : Kind) (ops : Nat → String) (op msg : String) (n : Nat) :
    (GoErr.wrapInheritN ops n (GoErr.new op k msg)).is k = true := by
  rw [is_wrapInheritN]; simp [is_new]

theorem depth_wrapInheritN (ops : Nat → String) (e : GoErr) :
    ∀ n, (GoErr.wrapInheritN ops n e).depth = e.depth + n
  | 0 => rfl
  | n + 1 => by simp [GoErr.wrapInheritN, GoErr.depth, depth_wrapInheritN ops e n]; omega

/-- what (A4) excludes: an `Is` that gives up after `d` wrappers (here: `d = 2`) loses the kind of a
    chain with three wrappers -/
def isDepth (k : Kind) : Nat → GoErr → Bool
  | 0, _ => false
  | _ + 1, .foreign _ => false
  | _ + 1, .wrap _ (some k') _ => k' == k
  | _ + 1, .wrap _ none none => false
  | d + 1, .wrap _ none (some e) => isDepth k d e

example : isDepth .parsing 2 (GoErr.wrapInheritN (fun _ => "op") 2 (GoErr.new "op" .parsing "m")) = false ∧
    (GoErr.wrapInheritN (fun _ => "op") 2 (GoErr.new "op" .parsing "m")).is .parsing = true := by decide

/-- (A5) pinned source of `errors.Is`. `GoErr.is` (Model/ErrChain.lean) was written clause by clause
    against exactly this text; any edit of the Go function changes `Gen.errorsIsSrc` and breaks this
    obligation, so that the model must be re-read against the new text. -/
theorem errorsIs_pinned : Gen.errorsIsSrc =
    "func Is(kind Kind, err error) bool { e, ok := err.(*Error) switch { case !ok: return false case e.Kind != Inherit: return e.Kind == kind } return Is(kind, e.Err) }" := by
  decide +kernel

/-- (A5) pinned source of `errors.Wrap` (`GoErr.wrapE` was written against exactly this text) -/
theorem errorsWrap_pinned : Gen.errorsWrapSrc =
    "func Wrap(op Op, kind Kind, err error) *Error { return &Error{ Op: op, Kind: kind, Err: err, } }" := by
  decide +kernel

/-- (A5) pinned source of `errors.New` (`GoErr.new` was written against exactly this text:
    the inner error is what `fmt.Errorf` returns, never an `*errors.Error`) -/
theorem errorsNew_pinned : Gen.errorsNewSrc =
    "func New(op Op, kind Kind, message string, formatArgs ...interface{}) *Error { return &Error{ Op: op, Kind: kind, Err: fmt.Errorf(message, formatArgs...), } }" := by
  decide +kernel

/-- the kind names of the model are the Go constant names, in `iota` order (index 0 = `Inherit`) -/
theorem kindNames_name : Gen.kindNames = "Inherit" :: [Kind.input, .inputValue, .inputIncompatible,
    .inputTooLarge, .arithmeticIncompat, .parsing, .conversion, .overflow, .internal].map Kind.name := by
  decide +kernel

theorem name_injective {k k' : Kind} (h : k.name = k'.name) : k = k' := by
  cases k <;> cases k' <;> first | rfl | (revert h; decide)

end Algobra.ErrTies
