/-
  Props/C05.lean — property C05: univariate polynomial arithmetic (Model/UPoly.lean, the model of
  /repo/univariate/polynomial.go and arithmetic.go) is exact in `K[X]`, and every result is in
  canonical form (`UPoly.Canon`: non-empty, no zero leading coefficient unless the length is one).

  Setting: `L : Lawful F K` is any coefficient record `F : FOps α` that implements a field `K` on its
  valid representations (Proofs/Lawful.lean; lawfulness of the concrete records is C01/C02).
  `toPoly L f : K[X]` is the polynomial denoted by the coefficient list `f` (index = degree),
  `AllValid L f` says every entry is a valid representation and `WF L f := AllValid L f ∧ Canon F f`.
  The hypotheses below are exactly: inputs that the library can produce (well-formed receiver,
  valid coefficients of the argument, valid scalars).  All proofs are in Proofs/UPolyRefine.lean.
-/
import Mathlib.Algebra.Field.ZMod
import Algobra.Proofs.UPolyRefine

namespace Algobra
namespace C05

open Polynomial UPoly

variable {α : Type} {F : FOps α} {K : Type} [Field K] (L : Lawful F K)

/-! ### representation -/

/-- `Coef(d)` is the `d`-th coefficient of the denoted polynomial (for every `d`, also beyond
    the stored length). -/
theorem coef_spec (f : UPoly α) (d : Nat) :
    L.embed (coef F f d) = (toPoly L f).coeff d := (coeff_toPoly_coef L f d).symm

/-- well-formed lists represent polynomials uniquely -/
theorem repr_unique {f g : UPoly α} (hf : WF L f) (hg : WF L g)
    (h : toPoly L f = toPoly L g) : f = g := toPoly_injective_on_WF L hf hg h

theorem zero_spec : WF L (zero F) ∧ toPoly L (zero F) = 0 := ⟨wf_zero L, toPoly_zero L⟩

theorem one_spec : WF L (one F) ∧ toPoly L (one F) = 1 := ⟨wf_one L, toPoly_one L⟩

/-- `reslice()`: keeps the value, makes the list canonical, and is the identity on canonical
    lists -/
theorem trim_spec {f : UPoly α} (hf : AllValid L f) :
    WF L (trim F f) ∧ toPoly L (trim F f) = toPoly L f ∧ (Canon F f → trim F f = f) :=
  ⟨trim_wf L hf, toPoly_trim L hf, trim_of_canon⟩

/-! ### coefficient updates -/

/-- `SetCoef(d, v)` replaces the coefficient of `X^d` by `v` -/
theorem setCoef_spec {f : UPoly α} (hf : WF L f) (d : Nat) {v : α} (hv : L.valid v) :
    WF L (setCoef F f d v) ∧
      toPoly L (setCoef F f d v) = toPoly L f + monomial d (L.embed v - (toPoly L f).coeff d) := by
  rw [coeff_toPoly_coef]
  exact ⟨setCoef_wf L hf d hv, toPoly_setCoef L hf d hv⟩

/-- `IncrementCoef(d, v)` adds `v·X^d` -/
theorem incCoef_spec {f : UPoly α} (hf : WF L f) (d : Nat) {v : α} (hv : L.valid v) :
    WF L (incCoef F f d v) ∧ toPoly L (incCoef F f d v) = toPoly L f + monomial d (L.embed v) :=
  ⟨incCoef_wf L hf d hv, toPoly_incCoef L hf d hv⟩

/-- `DecrementCoef(d, v)` subtracts `v·X^d` -/
theorem decCoef_spec {f : UPoly α} (hf : WF L f) (d : Nat) {v : α} (hv : L.valid v) :
    WF L (decCoef F f d v) ∧ toPoly L (decCoef F f d v) = toPoly L f - monomial d (L.embed v) :=
  ⟨decCoef_wf L hf d hv, toPoly_decCoef L hf d hv⟩

/-- `removeCoef(d)` deletes the term of degree `d` -/
theorem removeCoef_spec {f : UPoly α} (hf : WF L f) (d : Nat) :
    WF L (removeCoef F f d) ∧
      toPoly L (removeCoef F f d) = toPoly L f - monomial d ((toPoly L f).coeff d) :=
  ⟨removeCoef_wf L hf d, toPoly_removeCoef L hf d⟩

/-! ### ring operations -/

/-- `Add` -/
theorem add_spec {f g : UPoly α} (hf : WF L f) (hg : AllValid L g) :
    WF L (add F f g) ∧ toPoly L (add F f g) = toPoly L f + toPoly L g := UPoly.add_spec L hf hg

/-- `Sub` -/
theorem sub_spec {f g : UPoly α} (hf : WF L f) (hg : AllValid L g) :
    WF L (sub F f g) ∧ toPoly L (sub F f g) = toPoly L f - toPoly L g := UPoly.sub_spec L hf hg

/-- `SetNeg` (no re-slicing in the code: canonical because `-c ≠ 0` for `c ≠ 0`) -/
theorem neg_spec {f : UPoly α} (hf : WF L f) :
    WF L (neg F f) ∧ toPoly L (neg F f) = - toPoly L f := ⟨neg_wf L hf, toPoly_neg L hf.1⟩

/-- `SetScale(c)` (no re-slicing for `c ≠ 0`: canonical because `K` has no zero divisors) -/
theorem scale_spec {f : UPoly α} (hf : WF L f) {c : α} (hc : L.valid c) :
    WF L (scale F f c) ∧ toPoly L (scale F f c) = C (L.embed c) * toPoly L f :=
  ⟨scale_wf L hf hc, toPoly_scale L hf.1 hc⟩

/-- `multNoReduce`: the schoolbook product is the product in `K[X]`, for all valid inputs
    (canonical or not) -/
theorem mulNoReduce_spec {f g : UPoly α} (hf : AllValid L f) (hg : AllValid L g) :
    WF L (mulNoReduce F f g) ∧ toPoly L (mulNoReduce F f g) = toPoly L f * toPoly L g :=
  UPoly.mulNoReduce_spec L hf hg

/-- `subWithShiftAndScale(g, i, a)` computes `f - a·X^i·g` -/
theorem subShiftScale_spec {f g : UPoly α} (hf : WF L f) (hg : AllValid L g) (i : Nat) {a : α}
    (ha : L.valid a) :
    WF L (subShiftScale F f g i a) ∧
      toPoly L (subShiftScale F f g i a) = toPoly L f - C (L.embed a) * X ^ i * toPoly L g :=
  UPoly.subShiftScale_spec L hf hg i ha

/-- `Normalize`: division by the leading coefficient (also correct, trivially, for `f = 0`);
    the result of a nonzero polynomial is monic.  In particular the `none` branch of the model
    (`Inv` failing) is never taken on well-formed input. -/
theorem normalize_spec {f : UPoly α} (hf : WF L f) :
    WF L (normalize F f) ∧
      toPoly L (normalize F f) = C ((toPoly L f).leadingCoeff)⁻¹ * toPoly L f ∧
      (toPoly L f ≠ 0 → (toPoly L (normalize F f)).Monic) :=
  ⟨normalize_wf L hf, toPoly_normalize L hf, normalize_monic L hf⟩

/-- `Eval(x)` (running-power loop) is evaluation in `K` -/
theorem eval_spec {f : UPoly α} (hf : AllValid L f) {x : α} (hx : L.valid x) :
    L.valid (eval F f x) ∧ L.embed (eval F f x) = (toPoly L f).eval (L.embed x) :=
  ⟨eval_valid L hf hx, UPoly.eval_spec L hf hx⟩

/-! ### observers -/

/-- `Ld()` is the degree (and 0 for the zero polynomial) -/
theorem ld_spec {f : UPoly α} (hf : WF L f) : ld f = (toPoly L f).natDegree :=
  ld_eq_natDegree L hf

/-- `Lc()` is the leading coefficient -/
theorem lc_spec {f : UPoly α} (hf : WF L f) :
    L.valid (lc F f) ∧ L.embed (lc F f) = (toPoly L f).leadingCoeff :=
  ⟨lc_valid L hf.1, embed_lc L hf⟩

/-- `Lt()` is the leading term -/
theorem lt_spec {f : UPoly α} (hf : WF L f) :
    WF L (lt F f) ∧
      toPoly L (lt F f) = monomial (toPoly L f).natDegree (toPoly L f).leadingCoeff :=
  ⟨lt_wf L hf.1, toPoly_lt L hf⟩

theorem isZero_spec {f : UPoly α} (hf : WF L f) : isZero F f = true ↔ toPoly L f = 0 :=
  isZero_iff L hf

theorem isOne_spec {f : UPoly α} (hf : WF L f) : isOne F f = true ↔ toPoly L f = 1 :=
  isOne_iff L hf

/-- `Degrees()` is the support in strictly decreasing order -/
theorem degrees_spec {f : UPoly α} (hf : AllValid L f) :
    (degrees F f).Pairwise (· > ·) ∧
      (∀ d, d ∈ degrees F f ↔ (toPoly L f).coeff d ≠ 0) ∧
      degrees F f = (toPoly L f).support.sort (· ≥ ·) :=
  ⟨degrees_sorted f, mem_degrees L hf, degrees_eq_sort L hf⟩

open Classical in
/-- `NTerms()` (the code counts the zero polynomial as one term) -/
theorem nTerms_spec {f : UPoly α} (hf : WF L f) :
    nTerms F f = if toPoly L f = 0 then 1 else (toPoly L f).support.card := nTerms_eq L hf

theorem isMonomial_spec {f : UPoly α} (hf : AllValid L f) :
    isMonomial F f = true ↔ (toPoly L f).support.card = 1 := isMonomial_iff L hf

/-- `Equal` decides equality of the denoted polynomials -/
theorem equal_spec {f g : UPoly α} (hf : WF L f) (hg : WF L g) :
    equal F f g = true ↔ toPoly L f = toPoly L g := equal_iff L hf hg

/-! ### non-vacuity

`Lawful` is inhabited for every field with decidable equality (coefficients represented by
themselves), so the hypotheses of all theorems above are satisfiable; concrete well-formed
polynomials over `ZMod 3` are exhibited, and one theorem is instantiated at them.  (That the
library's own records `primeOps p`, `binOps`, `extOps` are lawful is C01/C02.) -/

/-- a field acting as its own coefficient record (fields irrelevant to C05 carry dummies) -/
def fieldOps (K : Type) [Field K] [DecidableEq K] : FOps K where
  char := 0
  card := 0
  zero := 0
  one := 1
  add := (· + ·)
  sub := (· - ·)
  mul := (· * ·)
  neg := fun a => -a
  inv := fun a => if a = 0 then none else some a⁻¹
  pow := fun a n => a ^ n
  trace := id
  isZero := fun a => decide (a = 0)
  isOne := fun a => decide (a = 1)
  beq := fun a b => decide (a = b)
  ofNat := fun n => (n : K)
  ofInt := fun n => (n : K)
  nTerms := fun _ => 1
  toStr := fun _ => ""
  parse := fun _ => .error .parsing
  regex := fun _ => ""
  gen := 1
  enc := fun _ => ""
  dec := fun _ => none

def fieldLawful (K : Type) [Field K] [DecidableEq K] : Lawful (fieldOps K) K where
  embed := id
  valid := fun _ => True
  inj := fun _ _ _ _ h => h
  zero_valid := trivial
  one_valid := trivial
  embed_zero := rfl
  embed_one := rfl
  add_valid := fun _ _ _ _ => trivial
  embed_add := fun _ _ _ _ => rfl
  sub_valid := fun _ _ _ _ => trivial
  embed_sub := fun _ _ _ _ => rfl
  mul_valid := fun _ _ _ _ => trivial
  embed_mul := fun _ _ _ _ => rfl
  neg_valid := fun _ _ => trivial
  embed_neg := fun _ _ => rfl
  inv_some := fun a _ h => ⟨a⁻¹, by simp [fieldOps] at h ⊢; exact h, trivial, rfl⟩
  inv_none := fun a _ h => by simp [fieldOps] at h ⊢; exact h
  isZero_iff := fun a _ => by simp [fieldOps]
  isOne_iff := fun a _ => by simp [fieldOps]
  beq_iff := fun a b _ _ => by simp [fieldOps]

section Examples

instance : Fact (Nat.Prime 3) := Nat.fact_prime_three

/-- `1 + 2X + X^3` (with an interior zero) and `2 + X` over `GF(3)` are well-formed -/
example : WF (fieldLawful (ZMod 3)) [1, 2, 0, 1] :=
  ⟨fun _ _ => trivial, by unfold Canon; decide⟩

example : WF (fieldLawful (ZMod 3)) [2, 1] :=
  ⟨fun _ _ => trivial, by unfold Canon; decide⟩

/-- a non-canonical list (trailing zero) is not well-formed: `Canon` is a real restriction -/
example : ¬ WF (fieldLawful (ZMod 3)) [2, 1, 0] := by
  rintro ⟨-, h⟩; revert h; unfold Canon; decide

/-- the hypotheses of `add_spec` / `mulNoReduce_spec` / `subShiftScale_spec` / `scale_spec` /
    `eval_spec` hold for these, so the conclusions hold -/
example :
    let L := fieldLawful (ZMod 3)
    toPoly L (mulNoReduce (fieldOps (ZMod 3)) [1, 2, 0, 1] [2, 1]) =
      toPoly L [1, 2, 0, 1] * toPoly L [2, 1] :=
  (mulNoReduce_spec (fieldLawful (ZMod 3)) (fun _ _ => trivial) (fun _ _ => trivial)).2

example :
    let L := fieldLawful (ZMod 3)
    toPoly L (subShiftScale (fieldOps (ZMod 3)) [1, 2, 0, 1] [2, 1] 2 1) =
      toPoly L [1, 2, 0, 1] - C 1 * X ^ 2 * toPoly L [2, 1] :=
  (subShiftScale_spec (fieldLawful (ZMod 3))
    ⟨fun _ _ => trivial, by unfold Canon; decide⟩ (fun _ _ => trivial) 2 trivial).2

/-! sanity evaluations of the model functions on the library's prime-field record
    `primeOps 5` (Model/Field.lean) -/

-- (1 + 2X + 3X²) + (4 + 3X + 2X²) = 0 : everything cancels, result is the canonical zero
example : add (primeOps 5) [1, 2, 3] [4, 3, 2] = [0] := by decide
-- (1 + 2X + 3X²) − (1 + 2X + 3X²) = 0
example : sub (primeOps 5) [1, 2, 3] [1, 2, 3] = [0] := by decide
-- (1 + X)(4 + X) = 4 + 0·X + X²  (interior zero kept, leading coefficient nonzero)
example : mulNoReduce (primeOps 5) [1, 1] [4, 1] = [4, 0, 1] := by decide
-- (1 + X²) − 1·X·(1 + X) = 1 + 4X  (leading terms cancel, list is re-sliced)
example : subShiftScale (primeOps 5) [1, 0, 1] [1, 1] 1 1 = [1, 4] := by decide
-- 3·(1 + 2X) = 3 + X
example : scale (primeOps 5) [1, 2] 3 = [3, 1] := by decide
example : neg (primeOps 5) [1, 2] = [4, 3] := by decide
-- (2 + 4X)/4 = 3 + X  (`Inv` is defined by well-founded recursion: kernel evaluation)
example : normalize (primeOps 5) [2, 4] = [3, 1] := by decide +kernel
-- (1 + 2X + 3X²)(2) = 17 = 2 mod 5
example : eval (primeOps 5) [1, 2, 3] 2 = 2 := by decide
example : degrees (primeOps 5) [4, 0, 1] = [2, 0] := by decide
example : lt (primeOps 5) [4, 0, 3] = [0, 0, 3] := by decide
example : setCoef (primeOps 5) [4, 0, 3] 2 0 = [4] := by decide
example : incCoef (primeOps 5) [4] 3 2 = [4, 0, 0, 2] := by decide
example : decCoef (primeOps 5) [4] 2 2 = [4, 0, 3] := by decide
example : equal (primeOps 5) [4, 0, 1] [4, 0, 1] = true := by decide
example : isMonomial (primeOps 5) [0, 0, 1] = true := by decide
example : nTerms (primeOps 5) [0] = 1 := by decide

end Examples

end C05
end Algobra
