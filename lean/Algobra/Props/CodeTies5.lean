/-
  Props/CodeTies5.lean — fifth batch of equivalence theorems between the MACHINE-TRANSLATED Go code
  (`Algobra/Gen/Code.lean`, regenerated on every run from the Go working tree by
  /verif/extract/translate.go) and the hand-written model (Model/Auxmath.lean, Model/Field.lean,
  Model/Tables.lean).

  New in this batch: functions that INDEX slices.  Go panics when an index is out of range (or a signed
  `make` length is negative); the translator turns such a function into a PARTIAL one: its Lean result
  type is `Option …`, every statement whose expressions index a slice is guarded by the bounds
  (`0 ≤ i ∧ i < len` for an `int` index, `i < len` for a `uint` index) and the function returns `none`
  when a guard fails.  The ties below therefore also prove that the Go code does not panic on the stated
  inputs (`= some …`), and `lookup_tie` / `newCombinIter_panics` say exactly when it does.

  Subjects
  1. `auxmath.CombinIter` (/repo/auxmath/combination.go): `NewCombinIter`, `Current`, `Active`, `Next`.
     The iterator object is its three fields `(n, slice, atEnd)`; Go `int` = Lean `Int` with `wrapInt`,
     `[]int` = `List Int`; `for i := range ci.slice` is a counting loop up to the length taken once;
     `Next` (no results) returns the new values `(atEnd, slice)` of the fields it assigns.
     Model: `Auxmath.next` (one step of the model's `Auxmath.combinations`, see Props/C19.lean).
  2. `primefield.(*table).lookup` (a method calling itself: recursion fuel) and the core of
     `primefield.newTable` from `t := make([][]uint, …)` to the end (/repo/finitefield/primefield/tables.go;
     `[][]uint` = `List (List Nat)`, `t[i][j-i] = op(i, j)` = nested `List.set`), against
     `Prime.lookup`, `Prime.newTable`, `Prime.addTable`, `Prime.mulTable`.
  3. the search loop of `primefield.(*Field).MultGenerator` (/repo/finitefield/primefield/primefield.go,
     from `var e *Element` to the end; labelled `continue`, `range` over the factor slice, `Pow`/`IsOne`
     as function parameters; the slice `factors` bound in the skipped head by
     `factors, _ := auxmath.Factorize(f.Card() - 1)` is a parameter, instantiated in the ties with the
     translated `go_auxmath_Factorize loopFuel (wsub p 1)`) against `Prime.genSearch` /
     `Prime.multGenerator`.

  The only hypotheses are word/int bounds (and, for 3, the existence of a generator, proved for primes);
  the sufficiency of `loopFuel = 2^64` for every translated loop is proved from them.
  Proofs: Proofs/CodeTies5.lean, Proofs/CodeTies5Tab.lean, Proofs/CodeTies5Gen.lean.
-/
import Algobra.Proofs.CodeTies5
import Algobra.Proofs.CodeTies5Tab
import Algobra.Proofs.CodeTies5Gen
import Algobra.Props.CodeTies4
import Mathlib.Tactic.NormNum.Prime

namespace Algobra
namespace CodeTies5
open Algobra Algobra.Gen.Code

/-! ### 1. `auxmath.CombinIter` -/

/-- the model's slices (`List Nat`) as Go `[]int` -/
abbrev toInts (s : List Nat) : List Int := s.map Int.ofNat

/-- `NewCombinIter(n, k)` for `0 ≤ k` (any Go `int`; `k < 2^63` is the range of `int`): no panic, the
    iterator `{n, slice = [0, …, k-1], atEnd = false}` — the start `List.range k` of
    `Auxmath.combinations n k`.  (Loop fuel: `k < 2^63` rounds, `i + 1` never wraps.) -/
theorem newCombinIter_tie (n : Int) {k : Int} (h0 : 0 ≤ k) (hk : k < 2 ^ 63) :
    go_auxmath_NewCombinIter n k = some (n, toInts (List.range k.toNat), false) :=
  CodeTies5Proofs.newCombinIter n h0 hk

/-- `NewCombinIter(n, k)` with `k < 0` panics (`make([]int, k, k)`) -/
theorem newCombinIter_panics (n : Int) {k : Int} (h : k < 0) : go_auxmath_NewCombinIter n k = none :=
  CodeTies5Proofs.newCombinIter_neg n h

example : (0 : Int) ≤ 3 ∧ (3 : Int) < 2 ^ 63 := by decide
example : go_auxmath_NewCombinIter 6 3 = some (6, [0, 1, 2], false) := by
  rw [newCombinIter_tie 6 (by decide) (by decide)]; decide

/-- `Current()` returns the slice -/
theorem combinIter_current_tie (sl : List Int) : go_auxmath_CombinIter_Current sl = sl := rfl

/-- `Active()` is `!atEnd` -/
theorem combinIter_active_tie (atEnd : Bool) : go_auxmath_CombinIter_Active atEnd = !atEnd := rfl

/-- THE TIE for `Next()` on an iterator that is not at its end: for `0 ≤ n < 2^63` (a non-negative Go
    `int`) and a slice of non-negative entries of length `< 2^63` (the length of a Go slice is an `int`),
    the translated method does not panic and yields the new fields `(atEnd, slice)`:
    `(false, s')` when the model's `Auxmath.next n s = some s'`, and `(true, s)` (slice unchanged) when
    the model's iterator is exhausted.  No `int` operation wraps (`ci.n - i - 1`, `ci.slice[j] + l`, …);
    both loops run on `loopFuel`. -/
theorem combinIter_next_tie {n : Nat} {s : List Nat} (hn : n < 2 ^ 63) (hL : s.length < 2 ^ 63) :
    go_auxmath_CombinIter_Next (toInts s) false (n : Int)
      = some (match Auxmath.next n s with
              | none => (true, toInts s)
              | some s' => (false, toInts s')) :=
  CodeTies5Proofs.next_active hn hL

/-- `Next()` on an iterator at its end returns immediately -/
theorem combinIter_next_atEnd (sl : List Int) (n : Int) :
    go_auxmath_CombinIter_Next sl true n = some (true, sl) :=
  CodeTies5Proofs.next_atEnd sl n

example : (6 : Nat) < 2 ^ 63 ∧ [0, 1, 5].length < 2 ^ 63 := by decide
/-- `[0,1,5] ↦ [0,2,3]` for `n = 6` (position 1 is incremented, the tail refilled) -/
example : go_auxmath_CombinIter_Next [0, 1, 5] false 6 = some (false, [0, 2, 3]) := by
  have h := combinIter_next_tie (n := 6) (s := [0, 1, 5]) (by decide) (by decide)
  rw [show Auxmath.next 6 [0, 1, 5] = some [0, 2, 3] by decide] at h
  exact h
/-- the last combination: the iterator is marked as exhausted, the slice stays -/
example : go_auxmath_CombinIter_Next [3, 4, 5] false 6 = some (true, [3, 4, 5]) := by
  have h := combinIter_next_tie (n := 6) (s := [3, 4, 5]) (by decide) (by decide)
  rw [show Auxmath.next 6 [3, 4, 5] = none by decide] at h
  exact h

/-! ### 2. `primefield.(*table).lookup`, `primefield.newTable` -/

/-- THE TIE for `lookup`: with recursion fuel ≥ 2 (the method calls itself at most once, with swapped
    arguments) and word arguments, the translated method returns the model's value EXACTLY when both
    index operations are in range, and panics (`none`) otherwise -/
theorem lookup_tie (t : List (List Nat)) {fuel i j : Nat} (hf : 2 ≤ fuel) (hi : i < 2 ^ 64)
    (hj : j < 2 ^ 64) :
    go_primefield_table_lookup t fuel i j
      = if min i j < t.length ∧ max i j - min i j < (t.getD (min i j) []).length
        then some (Prime.lookup t i j) else none :=
  CodeTies5Proofs.Tab.lookup_tie t hf hi hj

example : (2 : Nat) ≤ 2 ∧ (1 : Nat) < 2 ^ 64 ∧ (0 : Nat) < 2 ^ 64 := by decide
example : go_primefield_table_lookup [[1, 2], [3]] 2 1 0 = some 2 := by decide
example : go_primefield_table_lookup [[1, 2], [3]] 2 0 2 = none := by decide

/-- THE TIE for the core of `newTable` (after the memory check): for every word characteristic and every
    `op`, no panic, the model's triangular table, and no error.  (Both loops on `loopFuel`; `i + 1`,
    `j + 1`, `f.char - i`, `j - i` never wrap.) -/
theorem newTable_core_tie (op : Nat → Nat → Nat) {p : Nat} (hp : p < 2 ^ 64) :
    go_primefield_newTable_core p op = some (Prime.newTable p op, none) :=
  CodeTies5Proofs.Tab.newTable_core_tie op hp

example : (7 : Nat) < 2 ^ 64 := by decide

/-- composed: looking up `(i, j)`, `i, j < p`, in the table built by the translated `newTable` with what
    translated callers pass as recursion fuel -/
theorem lookup_newTable_tie (op : Nat → Nat → Nat) {p i j : Nat} (hp : p < 2 ^ 64) (hi : i < p)
    (hj : j < p) :
    (go_primefield_newTable_core p op).bind
        (fun r => go_primefield_table_lookup r.1 loopFuel i j) = some (op (min i j) (max i j)) := by
  rw [newTable_core_tie op hp]
  exact CodeTies5Proofs.Tab.lookup_newTable_tie op hp hi hj

/-- the tables `ComputeTables` builds: the lookups are the untabled operations -/
theorem lookup_addTable_tie {p i j : Nat} (hp : p < 2 ^ 64) (hi : i < p) (hj : j < p) :
    go_primefield_table_lookup (Prime.addTable p) loopFuel i j = some (Prime.add p i j) :=
  CodeTies5Proofs.Tab.lookup_addTable_tie hp hi hj

theorem lookup_mulTable_tie {p i j : Nat} (hp : p < 2 ^ 64) (hi : i < p) (hj : j < p) :
    go_primefield_table_lookup (Prime.mulTable p) loopFuel i j = some (Prime.mulClosure p i j) :=
  CodeTies5Proofs.Tab.lookup_mulTable_tie hp hi hj

example : (7 : Nat) < 2 ^ 64 ∧ (6 : Nat) < 7 ∧ (3 : Nat) < 7 := by decide
example : go_primefield_table_lookup (Prime.mulTable 7) 2 6 3 = some 4 := by decide

/-! ### 3. the search loop of `primefield.(*Field).MultGenerator` -/

/-- generic form: whatever the observations `element`, `IsOne`, `Pow` (and the word standing for the nil
    `*Element`) are, for `1 ≤ Card() ≤ 2^64` the translated search (run on the factor list computed by the translated
    `auxmath.Factorize`; labelled `continue`, `range` over the factors) returns without panic
    `element(g)` for the LEAST candidate `g ≥ 2` that passes the test for every prime factor.
    (`loopFuel` suffices: `g < 2^64` candidates, at most 64 factors; `i + 1` never wraps.) -/
theorem multGenerator_core_generic {card : Nat} (nilE : Nat) (el : Nat → Nat) (isOne : Nat → Bool)
    (pw : Nat → Nat → Nat) (h1 : 1 ≤ card) (h2 : card ≤ 2 ^ 64) (g : Nat) (hg2 : 2 ≤ g)
    (hg64 : g < 2 ^ 64)
    (hgood : ((go_auxmath_Factorize loopFuel (wsub card 1)).1.all
        fun r => !(isOne (pw (el g) ((card - 1) / r)))) = true)
    (hleast : ∀ i, 2 ≤ i → i < g → ((go_auxmath_Factorize loopFuel (wsub card 1)).1.all
        fun r => !(isOne (pw (el i) ((card - 1) / r)))) = false) :
    go_primefield_Field_MultGenerator_core nilE el isOne card pw
      (go_auxmath_Factorize loopFuel (wsub card 1)).1 = some (el g) :=
  CodeTies5Proofs.Gen.multGenerator_core_generic nilE el isOne pw h1 h2 g hg2 hg64 hgood hleast

/-- against the model's search `Prime.genSearch` (fuel `p`: candidates `2, …, p + 1`), with the
    observations `element = Prime.element p`, `IsOne = (· == 1)`, `Pow = Prime.pow p`, `Card() = p`,
    provided some candidate in that range passes the model's test -/
theorem multGenerator_core_tie {p : Nat} (nilE : Nat) (hp1 : 1 ≤ p) (hp2 : p ≤ 2 ^ 64)
    (hex : ∃ g, 2 ≤ g ∧ g < p + 2 ∧ g < 2 ^ 64 ∧
      Prime.isGenerator p ((Auxmath.factorize 64 (p - 1)).map (·.1)) g = true) :
    go_primefield_Field_MultGenerator_core nilE (Prime.element p) (fun x => x == 1) p (Prime.pow p)
        (go_auxmath_Factorize loopFuel (wsub p 1)).1
      = some (Prime.genSearch p ((Auxmath.factorize 64 (p - 1)).map (·.1)) 2 p) :=
  CodeTies5Proofs.Gen.multGenerator_core_tie nilE hp1 hp2 hex

example : (1 ≤ 7 ∧ 7 ≤ 2 ^ 64) ∧ ∃ g, 2 ≤ g ∧ g < 7 + 2 ∧ g < 2 ^ 64 ∧
    Prime.isGenerator 7 ((Auxmath.factorize 64 (7 - 1)).map (·.1)) g = true :=
  ⟨by decide, 3, by decide, by decide, by decide, by decide +kernel⟩

/-- THE TIE: for an odd prime `p` with `p - 1 < 2^32` (Go's `Define` accepts exactly these; `p = 2` is
    the case `MultGenerator` treats before the loop) the translated search returns the model's
    `Prime.multGenerator p`, without panic, whatever the nil word is.  (The observations are passed BY
    NAME: the parameter names carry the Go method names `element`, `IsOne`, `Card`, `Pow`, so calling a
    different method in the Go source breaks this statement.) -/
theorem multGenerator_tie {p : Nat} (nilE : Nat) (hp : p.Prime) (h32 : p - 1 < 2 ^ 32) (hp2 : p ≠ 2) :
    go_primefield_Field_MultGenerator_core (nil_Element := nilE) (f_element := Prime.element p)
        (method_IsOne := fun x => x == 1) (f_Card := p) (method_Pow := Prime.pow p)
        (factors := (go_auxmath_Factorize loopFuel (wsub p 1)).1)
      = some (Prime.multGenerator p) :=
  CodeTies5Proofs.Gen.multGenerator_tie nilE hp h32 hp2

/-- composed with the translated `Pow` core (CodeTies4) for the method `e.Pow(k)` -/
theorem multGenerator_tie_composed {p : Nat} (nilE : Nat) (hp : p.Prime) (h32 : p - 1 < 2 ^ 32)
    (hp2 : p ≠ 2) :
    go_primefield_Field_MultGenerator_core nilE (Prime.element p) (fun x => x == 1) p
        (fun a k => if k < 2 ^ 64 then
            go_primefield_Element_Pow_core (Prime.element p) p a (Prime.mul p) (a == 0) k
          else Prime.pow p a k)
        (go_auxmath_Factorize loopFuel (wsub p 1)).1
      = some (Prime.multGenerator p) := by
  have hpw : (fun a k => if k < 2 ^ 64 then
      go_primefield_Element_Pow_core (Prime.element p) p a (Prime.mul p) (a == 0) k
      else Prime.pow p a k) = Prime.pow p := by
    funext a k
    by_cases hk : k < 2 ^ 64
    · rw [if_pos hk]
      exact CodeTies4.prime_pow_tie (by have := hp.two_le; omega) (by omega) hk
    · rw [if_neg hk]
  rw [hpw]
  exact multGenerator_tie nilE hp h32 hp2

example : Nat.Prime 7 ∧ 7 - 1 < 2 ^ 32 ∧ 7 ≠ 2 := ⟨by norm_num, by decide, by decide⟩
example : go_primefield_Field_MultGenerator_core 0 (Prime.element 7) (fun x => x == 1) 7 (Prime.pow 7)
    (go_auxmath_Factorize loopFuel (wsub 7 1)).1 = some 3 := by
  rw [multGenerator_tie 0 (by norm_num) (by decide) (by decide)]; decide +kernel

end CodeTies5
end Algobra
