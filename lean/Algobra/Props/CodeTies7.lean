/-
  Props/CodeTies7.lean — seventh batch of equivalence theorems between the MACHINE-TRANSLATED Go code
  (`Algobra/Gen/Code.lean`) and the model: the remaining observers of univariate polynomials
  (/repo/univariate/polynomial.go) `Degrees`, `NTerms`, `IsMonomial` against `UPoly.degrees`,
  `UPoly.nTerms`, `UPoly.isMonomial` (Model/UPoly.lean).  Representation and abstraction as in
  Props/CodeTies6.lean (`f.coefs` = `List (Option Nat)`, `absC F c`: nil ↦ `F.zero`); the loops call the
  translated `coefIsZero` / `IsZero` / `Degrees` on the current `f.coefs`.  `make([]int, 0, len(f.coefs))`
  is the empty list (capacity invisible).  Proofs: Proofs/CodeTies7.lean.
  Part 2: the word-level element constructors / observers of binfield and primefield
  (/repo/finitefield/{binfield,primefield}/element.go) against the fields `ofNat`, `ofInt`, `nTerms` of
  `binOps` (Model/Ext.lean) and `primeOps` (Model/Field.lean).  An object literal `&Element{field: f,
  val: X}` is the value word `X`; returned as an `ff.Element` it is the non-nil element `some X`; a
  method returning its receiver as `ff.Element` (`SetUnsigned`) returns the new `val`.
  Proofs: Proofs/CodeTies7b.lean.
-/
import Algobra.Proofs.CodeTies7
import Algobra.Proofs.CodeTies7b
import Algobra.Props.CodeTies

namespace Algobra
namespace CodeTies7
open Algobra Algobra.Gen.Code Algobra.CodeTies6Proofs

/-- THE TIE for `Degrees()`: for every slice (length `< 2^63`), no panic, and the model's support of the
    abstraction, highest degree first, as Go `int`s.  Needs `F.isZero F.zero` (a nil entry is skipped). -/
theorem degrees_tie (F : FOps Nat) (hz : F.isZero F.zero = true) (c : List (Option Nat))
    (hlen : c.length < 2 ^ 63) :
    go_univariate_Polynomial_Degrees (f_coefs := c) (method_IsZero := F.isZero)
      = some ((UPoly.degrees F (absC F c)).map Int.ofNat) :=
  CodeTies7Proofs.degrees F hz c hlen

/-- THE TIE for `NTerms()`: entry 0 not nil (part of `Rep`; `IsZero()` dereferences it); the counter
    `c++` never wraps (at most `len < 2^63` terms) -/
theorem nTerms_tie (F : FOps Nat) (hz : F.isZero F.zero = true) (c : List (Option Nat))
    (h0 : c.head? ≠ some none) (hlen : c.length < 2 ^ 63) :
    go_univariate_Polynomial_NTerms (f_coefs := c) (method_IsZero := F.isZero)
      = some (UPoly.nTerms F (absC F c)) :=
  CodeTies7Proofs.nTerms F hz c h0 hlen

/-- THE TIE for `IsMonomial()` -/
theorem isMonomial_tie (F : FOps Nat) (hz : F.isZero F.zero = true) (c : List (Option Nat))
    (hlen : c.length < 2 ^ 63) :
    go_univariate_Polynomial_IsMonomial (f_coefs := c) (method_IsZero := F.isZero)
      = some (UPoly.isMonomial F (absC F c)) :=
  CodeTies7Proofs.isMonomial F hz c hlen

/-- non-vacuity and sanity: GF(5), `1 + 2x²` stored as `[1, nil, 2]` -/
example : (primeOps 5).isZero (primeOps 5).zero = true ∧
    ([some 1, none, some 2] : List (Option Nat)).head? ≠ some none ∧
    ([some 1, none, some 2] : List (Option Nat)).length < 2 ^ 63 := by decide
example : go_univariate_Polynomial_Degrees [some 1, none, some 2] (primeOps 5).isZero = some [2, 0] := by
  rw [degrees_tie (primeOps 5) (by decide) _ (by decide)]; decide
example : go_univariate_Polynomial_NTerms [some 1, none, some 2] (primeOps 5).isZero = some 2 := by
  rw [nTerms_tie (primeOps 5) (by decide) _ (by decide) (by decide)]; decide
example : go_univariate_Polynomial_IsMonomial [some 0, none, some 2] (primeOps 5).isZero = some true := by
  rw [isMonomial_tie (primeOps 5) (by decide) _ (by decide)]; decide

/-! ### 2. word-level constructors and observers of the fields -/

/-- binfield `ElementFromUnsigned(v)` = `(binOps n m).ofNat v`, never nil -/
theorem bin_fromUnsigned_tie (n m : Nat) (v : Nat) :
    go_binfield_Field_ElementFromUnsigned (val := v) = some ((binOps n m).ofNat v) := rfl

/-- binfield `ElementFromSigned(v)` = `(binOps n m).ofInt v` for every `v` (`val += 2` never wraps) -/
theorem bin_fromSigned_tie (n m : Nat) (v : Int) :
    go_binfield_Field_ElementFromSigned (val := v) = some ((binOps n m).ofInt v) :=
  CodeTies7Proofs.bin_fromSigned v

/-- binfield `ElementFromBits(v)`: the value word after the method statement `a.reduce()`; composed with
    the translated `reduce` (Props/CodeTies.lean) it is the model's `Bin.reduce` for a valid modulus -/
theorem bin_fromBits_tie {v m n : Nat} (hv : v < 2 ^ 64) (hm1 : 2 ^ n ≤ m) (hm2 : m < 2 ^ (n + 1)) :
    go_binfield_Field_ElementFromBits (method_reduce := fun x => go_binfield_Element_reduce x m n)
        (val := v) = some (Bin.reduce n m v) := by
  show some (go_binfield_Element_reduce v m n) = _
  rw [CodeTies.reduce_tie hv hm1 hm2]

/-- binfield `(*Element).NTerms()` = `(binOps n m).nTerms` on words (`uint(bits.OnesCount(·))`) -/
theorem bin_nTerms_tie (n m : Nat) {a : Nat} (ha : a < 2 ^ 64) :
    go_binfield_Element_NTerms (a_val := a) = (binOps n m).nTerms a :=
  CodeTies7Proofs.bin_nTerms ha

/-- binfield `SetUnsigned(v)`: the new value is `(binOps n m).ofNat v` whatever the old one was -/
theorem bin_setUnsigned_tie (n m a v : Nat) :
    go_binfield_Element_SetUnsigned (a_val := a) (val := v) = (binOps n m).ofNat v := rfl

/-- primefield `element(v)` and `ElementFromUnsigned(v)` = `(primeOps p).ofNat v` -/
theorem prime_element_tie (p v : Nat) :
    go_primefield_Field_element (f_char := p) (val := v) = Prime.element p v := rfl

theorem prime_fromUnsigned_tie (p v : Nat) :
    go_primefield_Field_ElementFromUnsigned (f_char := p) (val := v) = some ((primeOps p).ofNat v) := rfl

/-- primefield `SetUnsigned(v)` (`a.field.Char() = p`) -/
theorem prime_setUnsigned_tie (p a v : Nat) :
    go_primefield_Element_SetUnsigned (a_val := a) (a_field_Char := p) (val := v) = (primeOps p).ofNat v :=
  rfl

/-- primefield `Uint()` is the value word; `NTerms()` is 1 -/
theorem prime_uint_tie (a : Nat) : go_primefield_Element_Uint (a_val := a) = a := rfl

theorem prime_nTerms_tie (p a : Nat) : go_primefield_Element_NTerms = (primeOps p).nTerms a := rfl

example : (200 : Nat) < 2 ^ 64 ∧ 2 ^ 3 ≤ 11 ∧ 11 < 2 ^ (3 + 1) := by decide
example : go_binfield_Field_ElementFromBits (fun x => go_binfield_Element_reduce x 11 3) 200 = some 7 := by
  decide
example : go_binfield_Field_ElementFromSigned (-3) = some 1 := by decide
example : go_binfield_Element_NTerms 11 = 3 := by
  rw [bin_nTerms_tie 3 11 (by decide)]; decide +kernel
example : go_primefield_Field_ElementFromUnsigned 7 10 = some 3 := by decide

end CodeTies7
end Algobra
