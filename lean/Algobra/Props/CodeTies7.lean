/-
  Props/CodeTies7.lean — seventh batch of equivalence theorems between the MACHINE-TRANSLATED Go code
  (`Algobra/Gen/Code.lean`) and the model: the remaining observers of univariate polynomials
  (/repo/univariate/polynomial.go) `Degrees`, `NTerms`, `IsMonomial` against `UPoly.degrees`,
  `UPoly.nTerms`, `UPoly.isMonomial` (Model/UPoly.lean).  Representation and abstraction as in
  Props/CodeTies6.lean (`f.coefs` = `List (Option Nat)`, `absC F c`: nil ↦ `F.zero`); the loops call the
  translated `coefIsZero` / `IsZero` / `Degrees` on the current `f.coefs`.  `make([]int, 0, len(f.coefs))`
  is the empty list (capacity invisible).  Proofs: Proofs/CodeTies7.lean.
-/
import Algobra.Proofs.CodeTies7

namespace Algobra
namespace CodeTies7
open Algobra Algobra.Gen.Code Algobra.CodeTies6Proofs

/-- THE TIE for `Degrees()`: for every slice (length `< 2^63`), no panic, and the model's support of the
    abstraction, highest degree first, as Go `int`s.  Needs `F.isZero F.zero` (a nil entry is skipped). -/
theorem degrees_tie (F : FOps Nat) (hz : F.isZero F.zero = true) (c : List (Option Nat))
    (hlen : c.length < 2 ^ 63) :
    go_univariate_Polynomial_Degrees (f_coefs := c) (method_IsZero := F.isZero)
      = some ((UPoly.degrees F (absC F c)).map Int.ofNat) :=
  CodeTies7Proofs.degrees F hz c hlen

/-- THE TIE for `NTerms()`: entry 0 not nil (part of `Rep`; `IsZero()` dereferences it); the counter
    `c++` never wraps (at most `len < 2^63` terms) -/
theorem nTerms_tie (F : FOps Nat) (hz : F.isZero F.zero = true) (c : List (Option Nat))
    (h0 : c.head? ≠ some none) (hlen : c.length < 2 ^ 63) :
    go_univariate_Polynomial_NTerms (f_coefs := c) (method_IsZero := F.isZero)
      = some (UPoly.nTerms F (absC F c)) :=
  CodeTies7Proofs.nTerms F hz c h0 hlen

/-- THE TIE for `IsMonomial()` -/
theorem isMonomial_tie (F : FOps Nat) (hz : F.isZero F.zero = true) (c : List (Option Nat))
    (hlen : c.length < 2 ^ 63) :
    go_univariate_Polynomial_IsMonomial (f_coefs := c) (method_IsZero := F.isZero)
      = some (UPoly.isMonomial F (absC F c)) :=
  CodeTies7Proofs.isMonomial F hz c hlen

/-- non-vacuity and sanity: GF(5), `1 + 2x²` stored as `[1, nil, 2]` -/
example : (primeOps 5).isZero (primeOps 5).zero = true ∧
    ([some 1, none, some 2] : List (Option Nat)).head? ≠ some none ∧
    ([some 1, none, some 2] : List (Option Nat)).length < 2 ^ 63 := by decide
example : go_univariate_Polynomial_Degrees [some 1, none, some 2] (primeOps 5).isZero = some [2, 0] := by
  rw [degrees_tie (primeOps 5) (by decide) _ (by decide)]; decide
example : go_univariate_Polynomial_NTerms [some 1, none, some 2] (primeOps 5).isZero = some 2 := by
  rw [nTerms_tie (primeOps 5) (by decide) _ (by decide) (by decide)]; decide
example : go_univariate_Polynomial_IsMonomial [some 0, none, some 2] (primeOps 5).isZero = some true := by
  rw [isMonomial_tie (primeOps 5) (by decide) _ (by decide)]; decide

end CodeTies7
end Algobra
