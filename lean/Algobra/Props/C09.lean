/-
  Props/C09.lean — property C09 (monomial orders, leading data).

  "Each ordering constructor (Lex, DegLex, DegRevLex, WDegLex with non-negative weights, WDegRevLex
   with positive weights), for either variable precedence, yields a monomial order: a total order on
   exponent pairs that returns 0 only for equal pairs, is antisymmetric and transitive, has (0,0) as
   least element and is preserved when the same exponent pair is added to both sides; the degree
   orders compare (weighted) total degree first. For every nonzero polynomial, SortedDegrees is its
   support in strictly decreasing order and Ld, Lc, Lt are the largest term under the ring's order."

  Model functions: `Order.cmp` (with `Order.lex`, `Order.degCompare`, `Order.wdeg`), `BPoly.sortedDegrees`,
  `BPoly.ld`, `BPoly.lc`, `BPoly.lt` of Algobra/Model/BPoly.lean
  (Go: /repo/bivariate/orders.go, polynomial.go).

  The model constructors are `⟨.lex, x⟩` (Lex), `⟨.wdeglex wx wy, x⟩` (WDegLex; DegLex = weights 1 1),
  `⟨.wdegrevlex wx wy, x⟩` (WDegRevLex; DegRevLex = weights 1 1); `x = xGtY`.

  Hypotheses.  `Order.Admissible o` : kind `lex`, or `wdeglex` with any weights, or `wdegrevlex` with
  both weights positive.  `Order.NoOverflow o a` : both exponents and the true weighted degree
  `a.1*wx + a.2*wy` are `< 2^64`, so that the wrapping `wdeg` (Go `uint` arithmetic) is exact.
  Range, zero-iff-equal, antisymmetry and transitivity turn out to need NEITHER hypothesis (the
  comparison by wrapped degrees is still a total order) and are stated unconditionally, which is
  stronger than required.  The least element needs both, translation invariance and degree-first need
  `NoOverflow`; the counterexamples at the end show that these hypotheses cannot be dropped.
-/
import Algobra.Proofs.Order

namespace Algobra.C09
open Algobra Order BPoly

/-! ### 1. three-valued, zero only on the diagonal, antisymmetric -/

/-- `cmp a b ∈ {-1, 0, 1}` for every order and all pairs -/
theorem cmp_range (o : Order) (a b : Deg) : o.cmp a b = -1 ∨ o.cmp a b = 0 ∨ o.cmp a b = 1 :=
  (cmp_isTot o).range a b

theorem cmp_eq_zero_iff (o : Order) (a b : Deg) : o.cmp a b = 0 ↔ a = b :=
  (cmp_isTot o).eq_zero a b

theorem cmp_antisymm (o : Order) (a b : Deg) : o.cmp a b = - o.cmp b a :=
  (cmp_isTot o).antisymm a b

/-- totality: two different pairs are strictly comparable -/
theorem cmp_total (o : Order) (a b : Deg) (h : a ≠ b) : o.cmp a b = 1 ∨ o.cmp b a = 1 := by
  have h1 := cmp_range o a b
  have h2 := cmp_antisymm o a b
  have h3 : o.cmp a b ≠ 0 := fun e => h ((cmp_eq_zero_iff o a b).mp e)
  omega

/-! ### 2. transitive -/

theorem cmp_trans (o : Order) (a b c : Deg) (h1 : o.cmp a b = 1) (h2 : o.cmp b c = 1) :
    o.cmp a c = 1 :=
  (cmp_isTot o).trans a b c h1 h2

/-- the non-strict version -/
theorem cmp_trans_le (o : Order) (a b c : Deg) (h1 : o.cmp a b ≤ 0) (h2 : o.cmp b c ≤ 0) :
    o.cmp a c ≤ 0 :=
  (cmp_isTot o).le_trans h1 h2

/-! ### 3. `(0,0)` is the least element -/

theorem cmp_zero_le (o : Order) (hadm : Admissible o) (a : Deg) (ha : NoOverflow o a) :
    o.cmp (0, 0) a ≤ 0 :=
  cmp_zero_le' o hadm a ha

/-- strict form: `(0,0)` is strictly below every other pair -/
theorem cmp_zero_lt (o : Order) (hadm : Admissible o) (a : Deg) (ha : NoOverflow o a)
    (hne : a ≠ (0, 0)) : o.cmp a (0, 0) = 1 := by
  have h1 := cmp_zero_le o hadm a ha
  have h2 := cmp_antisymm o a (0, 0)
  have h3 := cmp_range o a (0, 0)
  have h4 : o.cmp a (0, 0) ≠ 0 := fun e => hne ((cmp_eq_zero_iff o a (0, 0)).mp e)
  omega

-- non-vacuity: all five constructors, both precedences, are admissible; a large pair does not overflow
example : Admissible ⟨.lex, true⟩ ∧ Admissible ⟨.lex, false⟩ ∧
    Admissible ⟨.wdeglex 1 1, true⟩ ∧ Admissible ⟨.wdeglex 0 5, false⟩ ∧ Admissible ⟨.wdeglex 0 0, true⟩ ∧
    Admissible ⟨.wdegrevlex 1 1, false⟩ ∧ Admissible ⟨.wdegrevlex 2 3, true⟩ := by decide
example : NoOverflow ⟨.wdegrevlex 2 3, true⟩ (1000000007, 4000000000000000000) := by decide
example : (⟨.wdegrevlex 2 3, true⟩ : Order).cmp (0, 0) (1000000007, 4000000000000000000) = -1 := by
  decide

/-! ### 4. compatible with multiplication of monomials (addition of exponent pairs) -/

theorem cmp_add (o : Order) (a b c : Deg)
    (ha : NoOverflow o (a.1 + c.1, a.2 + c.2)) (hb : NoOverflow o (b.1 + c.1, b.2 + c.2)) :
    o.cmp (a.1 + c.1, a.2 + c.2) (b.1 + c.1, b.2 + c.2) = o.cmp a b :=
  cmp_add' o a b c ha hb

example : NoOverflow ⟨.wdeglex 3 2, false⟩ (5 + 7, 1 + 9) ∧ NoOverflow ⟨.wdeglex 3 2, false⟩ (2 + 7, 4 + 9) := by
  decide
example : (⟨.wdeglex 3 2, false⟩ : Order).cmp (5 + 7, 1 + 9) (2 + 7, 4 + 9) = 1 ∧
    (⟨.wdeglex 3 2, false⟩ : Order).cmp (5, 1) (2, 4) = 1 := by decide

/-! ### 5. the degree orders compare the weighted degree first -/

/-- larger true weighted degree wins (`weightedDeg o a = a.1*wx + a.2*wy` for the two degree kinds) -/
theorem cmp_degree_first (o : Order) (hk : o.kind ≠ .lex) (a b : Deg)
    (ha : NoOverflow o a) (hb : NoOverflow o b) (h : weightedDeg o b < weightedDeg o a) :
    o.cmp a b = 1 :=
  cmp_degree_first' o hk a b ha hb h

theorem cmp_degree_first_lt (o : Order) (hk : o.kind ≠ .lex) (a b : Deg)
    (ha : NoOverflow o a) (hb : NoOverflow o b) (h : weightedDeg o a < weightedDeg o b) :
    o.cmp a b = -1 := by
  have := cmp_degree_first o hk b a hb ha h
  have := cmp_antisymm o a b
  omega

/-- the same with the weights spelled out -/
theorem cmp_wdeglex_degree_first (wx wy : Nat) (x : Bool) (a b : Deg)
    (ha : NoOverflow ⟨.wdeglex wx wy, x⟩ a) (hb : NoOverflow ⟨.wdeglex wx wy, x⟩ b)
    (h : b.1 * wx + b.2 * wy < a.1 * wx + a.2 * wy) :
    cmp ⟨.wdeglex wx wy, x⟩ a b = 1 :=
  cmp_degree_first _ (by simp) a b ha hb h

theorem cmp_wdegrevlex_degree_first (wx wy : Nat) (x : Bool) (a b : Deg)
    (ha : NoOverflow ⟨.wdegrevlex wx wy, x⟩ a) (hb : NoOverflow ⟨.wdegrevlex wx wy, x⟩ b)
    (h : b.1 * wx + b.2 * wy < a.1 * wx + a.2 * wy) :
    cmp ⟨.wdegrevlex wx wy, x⟩ a b = 1 :=
  cmp_degree_first _ (by simp) a b ha hb h

/-- ties in the weighted degree are broken lexicographically … -/
theorem cmp_wdeglex_tie (wx wy : Nat) (x : Bool) (a b : Deg)
    (ha : NoOverflow ⟨.wdeglex wx wy, x⟩ a) (hb : NoOverflow ⟨.wdeglex wx wy, x⟩ b)
    (h : a.1 * wx + a.2 * wy = b.1 * wx + b.2 * wy) :
    cmp ⟨.wdeglex wx wy, x⟩ a b = cmp ⟨.lex, x⟩ a b :=
  cmp_tie_wdeglex wx wy x a b ha.2.2 hb.2.2 h

/-- … resp. reverse lexicographically with the opposite variable precedence -/
theorem cmp_wdegrevlex_tie (wx wy : Nat) (x : Bool) (a b : Deg)
    (ha : NoOverflow ⟨.wdegrevlex wx wy, x⟩ a) (hb : NoOverflow ⟨.wdegrevlex wx wy, x⟩ b)
    (h : a.1 * wx + a.2 * wy = b.1 * wx + b.2 * wy) :
    cmp ⟨.wdegrevlex wx wy, x⟩ a b = - cmp ⟨.lex, !x⟩ a b :=
  cmp_tie_wdegrevlex wx wy x a b ha.2.2 hb.2.2 h

example : NoOverflow ⟨.wdegrevlex 1 1, true⟩ (0, 3) ∧ NoOverflow ⟨.wdegrevlex 1 1, true⟩ (2, 0) ∧
    weightedDeg ⟨.wdegrevlex 1 1, true⟩ (2, 0) < weightedDeg ⟨.wdegrevlex 1 1, true⟩ (0, 3) := by decide
-- DegRevLex(true): x^2 > xy > y^2 ; DegLex(false): y^2 > xy > x^2
example : (⟨.wdegrevlex 1 1, true⟩ : Order).cmp (2, 0) (1, 1) = 1 ∧
    (⟨.wdegrevlex 1 1, true⟩ : Order).cmp (1, 1) (0, 2) = 1 ∧
    (⟨.wdeglex 1 1, false⟩ : Order).cmp (0, 2) (1, 1) = 1 ∧
    (⟨.wdeglex 1 1, false⟩ : Order).cmp (1, 1) (2, 0) = 1 := by decide

/-! ### 7. leading data

  A polynomial is a list of (exponent pair, coefficient) with pairwise distinct okeys
  (Go: the okeys of a map).  Sortedness and maximality need no hypothesis on the order;
  `Ld ∈ support` needs `(0,0)` to be least on the support (the fold of `Ld` starts from `(0,0)`).  -/

variable {α : Type}

/-- `SortedDegrees` lists exactly the support … -/
theorem sortedDegrees_perm (o : Order) (f : BPoly α) (hnd : (f.map (·.1)).Nodup) :
    (sortedDegrees o f).Perm (f.map (·.1)) :=
  BPoly.sortedDegrees_perm o f hnd

/-- … in strictly decreasing order -/
theorem sortedDegrees_strictDecreasing (o : Order) (f : BPoly α) (hnd : (f.map (·.1)).Nodup) :
    (sortedDegrees o f).Pairwise (fun a b => o.cmp a b = 1) :=
  BPoly.sortedDegrees_sorted o f hnd

/-- `Ld` is at least as large as every exponent pair of the support -/
theorem ld_max (o : Order) (f : BPoly α) : ∀ d ∈ f.map (·.1), o.cmp d (ld o f) ≤ 0 :=
  BPoly.ld_ge o f

/-- `Ld` of a nonzero polynomial belongs to the support -/
theorem ld_mem (o : Order) (hadm : Admissible o) (f : BPoly α) (hne : f ≠ [])
    (hno : ∀ d ∈ f.map (·.1), NoOverflow o d) : ld o f ∈ f.map (·.1) :=
  BPoly.ld_mem o f hne (fun d hd => cmp_zero_le o hadm d (hno d hd))

/-- `Ld` is strictly larger than every other exponent pair of the support -/
theorem ld_strict_max (o : Order) (f : BPoly α) :
    ∀ d ∈ f.map (·.1), d ≠ ld o f → o.cmp (ld o f) d = 1 := by
  intro d hd hne
  have h1 := ld_max o f d hd
  have h2 := cmp_antisymm o d (ld o f)
  have h3 := cmp_range o d (ld o f)
  have h4 : o.cmp d (ld o f) ≠ 0 := fun e => hne ((cmp_eq_zero_iff o d (ld o f)).mp e)
  omega

/-- `Ld` is the first entry of `SortedDegrees` -/
theorem ld_eq_head (o : Order) (hadm : Admissible o) (f : BPoly α) (hnd : (f.map (·.1)).Nodup)
    (hne : f ≠ []) (hno : ∀ d ∈ f.map (·.1), NoOverflow o d) :
    (sortedDegrees o f).head? = some (ld o f) :=
  BPoly.ld_eq_head o f hnd hne (fun d hd => cmp_zero_le o hadm d (hno d hd))

/-- `Lc` is the coefficient stored at `Ld`: the pair (`Ld`, `Lc`) is a term of `f` -/
theorem ld_lc_mem (F : FOps α) (o : Order) (hadm : Admissible o) (f : BPoly α)
    (hnd : (f.map (·.1)).Nodup) (hne : f ≠ []) (hno : ∀ d ∈ f.map (·.1), NoOverflow o d) :
    (ld o f, lc F o f) ∈ f := by
  obtain ⟨p, hp, hpe⟩ := List.mem_map.mp (ld_mem o hadm f hne hno)
  have hp' : (ld o f, p.2) ∈ f := by rw [← hpe]; exact hp
  have : lc F o f = p.2 := coef_of_mem_nodup F f hnd (ld o f) p.2 hp'
  rw [this]; exact hp'

/-- `Lt` is the one-term polynomial (`Ld`, `Lc`) when the stored coefficients are nonzero
    (the representation invariant of polynomials) -/
theorem lt_eq (F : FOps α) (o : Order) (hadm : Admissible o) (f : BPoly α)
    (hnd : (f.map (·.1)).Nodup) (hne : f ≠ []) (hno : ∀ d ∈ f.map (·.1), NoOverflow o d)
    (hnz : ∀ p ∈ f, F.isZero p.2 = false) :
    lt F o f = [(ld o f, lc F o f)] ∧ (ld o f, lc F o f) ∈ f := by
  have hm := ld_lc_mem F o hadm f hnd hne hno
  exact ⟨lt_eq_single F o f (hnz _ hm), hm⟩

/-- `SortedDegrees` is THE strictly decreasing listing of the support: any strictly decreasing
    permutation of the okeys (e.g. the output of Go's `sort.Slice`, whatever the map iteration order)
    coincides with it. -/
theorem sortedDegrees_unique (o : Order) (f : BPoly α) (hnd : (f.map (·.1)).Nodup) (l : List Deg)
    (hp : l.Perm (f.map (·.1))) (hs : l.Pairwise (fun a b => o.cmp a b = 1)) :
    l = sortedDegrees o f := by
  refine List.Perm.eq_of_pairwise (le := fun a b => o.cmp a b = 1) ?_ hs
    (sortedDegrees_strictDecreasing o f hnd) (hp.trans (sortedDegrees_perm o f hnd).symm)
  intro a b _ _ h1 h2
  have := cmp_antisymm o a b
  omega

/-- `Ld` is THE maximal key: it does not depend on the order in which the terms are visited
    (Go iterates over a map). -/
theorem ld_unique (o : Order) (hadm : Admissible o) (f : BPoly α) (hne : f ≠ [])
    (hno : ∀ d ∈ f.map (·.1), NoOverflow o d) (m : Deg) (hm : m ∈ f.map (·.1))
    (hmax : ∀ d ∈ f.map (·.1), o.cmp d m ≤ 0) : m = ld o f :=
  (cmp_isTot o).le_antisymm (ld_max o f m hm) (hmax _ (ld_mem o hadm f hne hno))

theorem ld_perm (o : Order) (hadm : Admissible o) (f g : BPoly α) (hne : f ≠ [])
    (hno : ∀ d ∈ f.map (·.1), NoOverflow o d) (hp : f.Perm g) : ld o g = ld o f := by
  have hk : (g.map (·.1)).Perm (f.map (·.1)) := (hp.map _).symm
  have hgne : g ≠ [] := fun h => hne (by rw [h] at hp; exact hp.eq_nil)
  have hgno : ∀ d ∈ g.map (·.1), NoOverflow o d := fun d hd => hno d (hk.mem_iff.mp hd)
  refine ld_unique o hadm f hne hno _ (hk.mem_iff.mp (ld_mem o hadm g hgne hgno)) ?_
  intro d hd
  exact ld_max o g d (hk.mem_iff.mpr hd)

-- non-vacuity and sanity evaluation:  f = y^2 + xy + x^2 + 1 + 5x^3 over "coefficients" Nat
example :
    let f : BPoly Nat := [((0, 2), 1), ((1, 1), 1), ((2, 0), 1), ((0, 0), 1), ((3, 0), 5)]
    let o : Order := ⟨.wdegrevlex 1 1, true⟩
    Admissible o ∧ (f.map (·.1)).Nodup ∧ f ≠ [] ∧ (∀ d ∈ f.map (·.1), NoOverflow o d) ∧
    sortedDegrees o f = [(3, 0), (2, 0), (1, 1), (0, 2), (0, 0)] ∧ ld o f = (3, 0) := by
  decide

/-! ### 6. the hypotheses are needed -/

/-- `WDegRevLex` with a zero weight is NOT a monomial order: `(0,0)` is not the least element
    (`1 > x > x^2 > …` for `WDegRevLex(0, 1, true)`), although nothing overflows. -/
theorem wdegrevlex_zero_weight_not_least :
    ¬ Admissible ⟨.wdegrevlex 0 1, true⟩ ∧ NoOverflow ⟨.wdegrevlex 0 1, true⟩ (1, 0) ∧
    cmp ⟨.wdegrevlex 0 1, true⟩ (0, 0) (1, 0) = 1 := by decide

/-- the same for a zero `y`-weight, for the other precedence, and for both weights zero -/
theorem wdegrevlex_zero_weight_not_least' :
    cmp ⟨.wdegrevlex 1 0, true⟩ (0, 0) (0, 1) = 1 ∧
    cmp ⟨.wdegrevlex 0 1, false⟩ (0, 0) (1, 0) = 1 ∧
    cmp ⟨.wdegrevlex 1 0, false⟩ (0, 0) (0, 1) = 1 ∧
    cmp ⟨.wdegrevlex 0 0, true⟩ (0, 0) (1, 0) = 1 ∧
    cmp ⟨.wdegrevlex 0 0, false⟩ (0, 0) (1, 0) = 1 := by decide

/-- consequence for the leading data: under `WDegRevLex(0, 1, true)` the nonzero polynomial `x`
    has `Ld = (0,0)`, which is not in its support (so `Lc` is the zero coefficient). -/
theorem wdegrevlex_zero_weight_ld_not_mem :
    ld ⟨.wdegrevlex 0 1, true⟩ ([((1, 0), 1)] : BPoly Nat) = (0, 0) := by decide

/-- `NoOverflow` is needed for degree-first: for `DegLex(true)` the pair `(2^63, 2^63)` (both
    exponents are valid words) has wrapped degree 0 and therefore compares below `(1, 0)`. -/
theorem overflow_breaks_degree_first :
    cmp ⟨.wdeglex 1 1, true⟩ (2 ^ 63, 2 ^ 63) (1, 0) = -1 ∧
    ¬ NoOverflow ⟨.wdeglex 1 1, true⟩ (2 ^ 63, 2 ^ 63) := by decide

/-- … and for translation invariance: `(1,1) > (0,1)`, but after adding `(2^64 - 2, 0)` the
    degree of the first sum wraps to 0 and the comparison flips (all exponents are valid words). -/
theorem overflow_breaks_add :
    cmp ⟨.wdeglex 1 1, true⟩ (1, 1) (0, 1) = 1 ∧
    cmp ⟨.wdeglex 1 1, true⟩ (1 + (2 ^ 64 - 2), 1 + 0) (0 + (2 ^ 64 - 2), 1 + 0) = -1 := by decide

end Algobra.C09
