/-
  Props/C04.lean — property C04 (Conway polynomial database, `finitefield/conway`).

  "For every pair (p,n) for which conway.Lookup succeeds, the returned list is, constant term first,
   a monic polynomial of degree exactly n with all coefficients below p that is irreducible over
   GF(p); whenever p^n fits a machine word (so that a field can be defined from it) the polynomial
   is moreover primitive, i.e. its root has multiplicative order p^n-1.  Lookup(p,n) returns the
   entry stored for exactly that pair, and an InputValue error when there is none."

  Model: `Conway.lookupIn Gen.dbText` (= `conway.Lookup`), `Conway.parseDB Gen.dbText` (the table).

  Trust structure.  The table has 35 357 entries; kernel evaluation over it is infeasible, so the
  closed Boolean facts `checker … = true` about `Gen.dbText` (and the untrusted certificate text
  `Certs/Data.lean`) are evaluated by `native_decide` (axiom `Lean.ofReduceBool`) in
  `Certs/TabCheck.lean` and `Certs/Sweep00 … Sweep31.lean`:
      tab_ok, db_shape_ok, scan_ok, sweepNN, lookNN        (NN = 00..31)
  Everything else — in particular every step "checker = true → mathematical statement" — is an
  ordinary kernel-checked proof (`Proofs/Conway.lean`, `Proofs/ConwayLookup.lean`).
-/
import Algobra.Proofs.Conway
import Algobra.Proofs.ConwayLookup
import Algobra.Certs.All

namespace Algobra.C04
open Algobra Algobra.C04Check Polynomial

/-! ## collected table facts -/

theorem sweep_ok : ∀ i, i < db.length → entryOKAtData i = true :=
  stride_sound (by decide : 0 < strides) (fun k hk => sweep_all k hk)

theorem look_ok : ∀ i, i < db.length → lookupOKAt i = true :=
  stride_sound (by decide : 0 < strides) (fun k hk => look_all k hk)

theorem db_entryGood : ∀ e ∈ Conway.parseDB Gen.dbText, EntryGood e :=
  entryGood_of_sweep tab_ok sweep_ok

/-! ## A. shape of the table -/

/-- **C04-A** the table has 35 357 entries; every entry `(p, n, cs)` has `p ≥ 2`, `n ≥ 1`,
    `n + 1` coefficients, all below `p`, the last one `1`; and the keys `(p, n)` are pairwise
    distinct. -/
theorem db_shape :
    (Conway.parseDB Gen.dbText).length = 35357 ∧
    (∀ e ∈ Conway.parseDB Gen.dbText,
      2 ≤ e.1 ∧ 1 ≤ e.2.1 ∧ e.2.2.length = e.2.1 + 1 ∧ (∀ c ∈ e.2.2, c < e.1) ∧
        e.2.2.getLast? = some 1) ∧
    (∀ x ∈ Conway.parseDB Gen.dbText, ∀ y ∈ Conway.parseDB Gen.dbText,
      x.1 = y.1 → x.2.1 = y.2.1 → x = y) := by
  obtain ⟨h1, h2, h3⟩ := (dbShapeOK_iff _ _).mp db_shape_ok
  exact ⟨h1, fun e he => (shapeOK_iff e).mp (h2 e he), key_unique h3⟩

/-- every characteristic in the table is a prime number -/
theorem db_char_prime : ∀ e ∈ Conway.parseDB Gen.dbText, e.1.Prime :=
  fun e he => (db_entryGood e he).2.1

/-! ## B. `Lookup` returns exactly the stored entry -/

/-- **C04-B (present keys)** for every stored entry, `Lookup` on its key returns its coefficients -/
theorem lookup_present {p n : ℕ} {cs : List ℕ} (h : (p, n, cs) ∈ Conway.parseDB Gen.dbText) :
    Conway.lookupIn Gen.dbText p n = .ok cs :=
  lookup_of_sweep look_ok (p, n, cs) h

/-- the search key `[p,n,[` occurs in the text only where an entry with key `(p, n)` starts -/
theorem key_of_infix {p n : ℕ} (h : keyPattern p n <:+: Gen.dbText.toList) :
    ∃ cs, (p, n, cs) ∈ Conway.parseDB Gen.dbText := by
  have h1 := mem_scanKeys_of_infix _ p n h
  have h2 : scanKeys Gen.dbText.toList = db.map (fun e => (e.1, e.2.1)) := by
    have := scan_ok; simpa [scanOK] using this
  rw [h2, List.mem_map] at h1
  obtain ⟨⟨p', n', cs⟩, he, hk⟩ := h1
  simp only [Prod.mk.injEq] at hk
  obtain ⟨rfl, rfl⟩ := hk
  exact ⟨cs, he⟩

/-- **C04-B (absent keys)** `Lookup` reports `InputValue` when no entry has key `(p, n)` -/
theorem lookup_absent {p n : ℕ} (h : ∀ cs, (p, n, cs) ∉ Conway.parseDB Gen.dbText) :
    Conway.lookupIn Gen.dbText p n = .error .inputValue := by
  apply lookupIn_absent_of_not_infix
  intro hin
  obtain ⟨cs, hcs⟩ := key_of_infix hin
  exact h cs hcs

/-- **C04-B** `Lookup(p, n)` succeeds with `cs` iff `(p, n, cs)` is an entry of the table -/
theorem lookup_spec {p n : ℕ} {cs : List ℕ} :
    Conway.lookupIn Gen.dbText p n = .ok cs ↔ (p, n, cs) ∈ Conway.parseDB Gen.dbText := by
  constructor
  · intro h
    by_cases hex : ∃ cs', (p, n, cs') ∈ Conway.parseDB Gen.dbText
    · obtain ⟨cs', hcs'⟩ := hex
      have := lookup_present hcs'
      rw [h] at this
      cases this
      exact hcs'
    · have := lookup_absent (p := p) (n := n) (fun cs' hcs' => hex ⟨cs', hcs'⟩)
      rw [h] at this
      cases this
  · exact lookup_present

/-- `Lookup` never fails with any other error kind than `InputValue` -/
theorem lookup_error {p n : ℕ} {k : Kind} (h : Conway.lookupIn Gen.dbText p n = .error k) :
    k = .inputValue ∧ ∀ cs, (p, n, cs) ∉ Conway.parseDB Gen.dbText := by
  by_cases hex : ∃ cs', (p, n, cs') ∈ Conway.parseDB Gen.dbText
  · obtain ⟨cs', hcs'⟩ := hex
    have := lookup_present hcs'
    rw [h] at this
    cases this
  · have := lookup_absent (p := p) (n := n) (fun cs' hcs' => hex ⟨cs', hcs'⟩)
    rw [h] at this
    cases this
    exact ⟨rfl, fun cs' hcs' => hex ⟨cs', hcs'⟩⟩

/-! ## C. the property -/

/-- **C04 (shape)** a successful `Lookup(p, n)` returns `n + 1` coefficients, constant term first,
    all below `p`, leading coefficient `1`; `p` is a prime and `n ≥ 1`. -/
theorem lookup_monic_lt {p n : ℕ} {cs : List ℕ} (h : Conway.lookupIn Gen.dbText p n = .ok cs) :
    p.Prime ∧ 1 ≤ n ∧ cs.length = n + 1 ∧ cs.getLast? = some 1 ∧ ∀ c ∈ cs, c < p := by
  obtain ⟨⟨-, hn, hlen, hlt, hlast⟩, hp, -⟩ := db_entryGood _ (lookup_spec.mp h)
  exact ⟨hp, hn, hlen, hlast, hlt⟩

/-- the same as a statement about the polynomial over `ZMod p`: monic of degree exactly `n`;
    `coeff_toPolyZMod` says that its `i`-th coefficient is the `i`-th list element. -/
theorem lookup_monic_natDegree {p n : ℕ} {cs : List ℕ}
    (h : Conway.lookupIn Gen.dbText p n = .ok cs) :
    (toPolyZMod p cs).Monic ∧ (toPolyZMod p cs).natDegree = n := by
  obtain ⟨hp, -, hlen, hlast, -⟩ := lookup_monic_lt h
  have := Fact.mk hp
  exact toPolyZMod_monic_natDegree hlen hlast

/-- **C04 (primitive, hence irreducible)** whenever `p^n` fits a machine word, the root of the
    returned polynomial has multiplicative order `p^n - 1` in `F_p[X]/(f)`, and the polynomial is
    irreducible over `ZMod p`. -/
theorem lookup_primitive {p n : ℕ} {cs : List ℕ} (h : Conway.lookupIn Gen.dbText p n = .ok cs)
    (hw : p ^ n < 2 ^ 64) :
    p.Prime ∧ orderOf (AdjoinRoot.root (toPolyZMod p cs)) = p ^ n - 1 ∧
      Irreducible (toPolyZMod p cs) := by
  obtain ⟨-, hp, hord⟩ := db_entryGood _ (lookup_spec.mp h)
  have hord := hord hw
  simp only at hord
  obtain ⟨hmonic, hdeg⟩ := lookup_monic_natDegree h
  obtain ⟨-, hn, -⟩ := lookup_monic_lt h
  have := Fact.mk hp
  refine ⟨hp, hord, primitive_imp_irreducible _ hmonic (by omega) ?_⟩
  rw [hdeg]; exact hord

/-- table form of the same statement -/
theorem db_primitive : ∀ e ∈ Conway.parseDB Gen.dbText, e.1 ^ e.2.1 < 2 ^ 64 →
    e.1.Prime ∧ orderOf (AdjoinRoot.root (toPolyZMod e.1 e.2.2)) = e.1 ^ e.2.1 - 1 ∧
      Irreducible (toPolyZMod e.1 e.2.2) := by
  intro e he hw
  obtain ⟨p, n, cs⟩ := e
  exact lookup_primitive (lookup_present he) hw

/-! ## D. not proved: irreducibility of the 7 653 entries with `p^n ≥ 2^64`

The property also claims irreducibility for the entries whose field size does not fit a machine
word (degrees up to 409).  That needs a Rabin-test sweep whose native evaluation is too slow with
the interpreted list arithmetic used here; it is NOT proved.  The full statement: -/

def db_irreducible_big_full : Prop :=
  ∀ e ∈ Conway.parseDB Gen.dbText, 2 ^ 64 ≤ e.1 ^ e.2.1 → Irreducible (toPolyZMod e.1 e.2.2)

/-- the complete property C04 as one statement; proved: everything except
    `db_irreducible_big_full` (see `lookup_spec`, `lookup_error`, `lookup_monic_lt`,
    `lookup_monic_natDegree`, `lookup_primitive`). -/
def C04_full : Prop :=
  (∀ p n cs, Conway.lookupIn Gen.dbText p n = .ok cs ↔ (p, n, cs) ∈ Conway.parseDB Gen.dbText) ∧
  (∀ p n k, Conway.lookupIn Gen.dbText p n = .error k → k = .inputValue) ∧
  (∀ p n cs, Conway.lookupIn Gen.dbText p n = .ok cs →
    p.Prime ∧ cs.length = n + 1 ∧ (∀ c ∈ cs, c < p) ∧
    (toPolyZMod p cs).Monic ∧ (toPolyZMod p cs).natDegree = n ∧ Irreducible (toPolyZMod p cs) ∧
    (p ^ n < 2 ^ 64 → orderOf (AdjoinRoot.root (toPolyZMod p cs)) = p ^ n - 1))

/-- what is proved of `C04_full`: all of it with irreducibility restricted to `p^n < 2^64` -/
theorem C04_partial :
  (∀ p n cs, Conway.lookupIn Gen.dbText p n = .ok cs ↔ (p, n, cs) ∈ Conway.parseDB Gen.dbText) ∧
  (∀ p n k, Conway.lookupIn Gen.dbText p n = .error k → k = .inputValue) ∧
  (∀ p n cs, Conway.lookupIn Gen.dbText p n = .ok cs →
    p.Prime ∧ cs.length = n + 1 ∧ (∀ c ∈ cs, c < p) ∧
    (toPolyZMod p cs).Monic ∧ (toPolyZMod p cs).natDegree = n ∧
    (p ^ n < 2 ^ 64 → Irreducible (toPolyZMod p cs) ∧
      orderOf (AdjoinRoot.root (toPolyZMod p cs)) = p ^ n - 1)) := by
  refine ⟨fun p n cs => lookup_spec, fun p n k h => (lookup_error h).1, fun p n cs h => ?_⟩
  obtain ⟨hp, -, hlen, -, hlt⟩ := lookup_monic_lt h
  obtain ⟨hm, hd⟩ := lookup_monic_natDegree h
  exact ⟨hp, hlen, hlt, hm, hd, fun hw => ⟨(lookup_primitive h hw).2.2, (lookup_primitive h hw).2.1⟩⟩

/-- `C04_full` follows from the proved part and the unproved `db_irreducible_big_full` -/
theorem C04_full_of_big (hbig : db_irreducible_big_full) : C04_full := by
  obtain ⟨h1, h2, h3⟩ := C04_partial
  refine ⟨h1, h2, fun p n cs h => ?_⟩
  obtain ⟨hp, hlen, hlt, hm, hd, hw⟩ := h3 p n cs h
  refine ⟨hp, hlen, hlt, hm, hd, ?_, fun hlt' => (hw hlt').2⟩
  by_cases hlt' : p ^ n < 2 ^ 64
  · exact (hw hlt').1
  · exact hbig (p, n, cs) ((h1 p n cs).mp h) (by simpa using Nat.le_of_not_lt hlt')

/-! ## non-vacuity / sanity -/

-- the hypotheses of `lookup_primitive` are satisfiable (closed evaluations on the real text)
example : (match Conway.lookupIn Gen.dbText 2 3 with | .ok cs => cs == [1, 1, 0, 1] | _ => false)
    = true := by native_decide
example : (match Conway.lookupIn Gen.dbText 109987 4 with
    | .ok cs => cs == [3, 100525, 3, 0, 1] | _ => false) = true := by native_decide
example : (match Conway.lookupIn Gen.dbText 4 2 with | .error .inputValue => true | _ => false)
    = true := by native_decide
example : (2 : ℕ) ^ 3 < 2 ^ 64 := by norm_num
-- the checker rejects a non-primitive polynomial: x^4+x^3+x^2+x+1 over GF(2) (order of x is 5)
example : isOneL 2 (powX 2 4 (negfOf 2 4 [1, 1, 1, 1, 1]) (15 / 3)) = true := by decide +kernel
-- … and a reducible one: x^2+1 = (x+1)^2 over GF(2): x^(3) ≠ 1
example : isOneL 2 (powX 2 2 (negfOf 2 2 [1, 0, 1]) 3) = false := by decide +kernel

end Algobra.C04
