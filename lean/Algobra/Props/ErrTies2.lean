/-
  Props/ErrTies2.lean — complements to Props/ErrTies.lean (same namespace):
  (1) `Inv` of zero at the step level; (2) the InputIncompatible replies of univariate `NewIdeal`
  (`stepU (.uCtor … "ideal")`) and of bivariate `Quotient` (`quotient2Op`, `.iXform "quotient"`);
  (3) concrete model witnesses for the direct kinds of NewIdeal / Quotient / SPolynomial;
  (4) the error kinds of `BPoly.pow`.
-/
import Algobra.Props.ErrTies
import Algobra.Props.C17Extra
namespace Algobra.ErrTies
open Algobra

/-- (local) decidable equality of results, for the witness evaluations -/
local instance instDecEqExcept2 {ε α : Type} [DecidableEq ε] [DecidableEq α] : DecidableEq (Except ε α)
  | .ok a, .ok b =>
    if h : a = b then isTrue (by rw [h]) else isFalse (fun h' => by injection h' with h'; exact h h')
  | .error a, .error b =>
    if h : a = b then isTrue (by rw [h]) else isFalse (fun h' => by injection h' with h'; exact h h')
  | .ok _, .error _ => isFalse (fun h => by cases h)
  | .error _, .ok _ => isFalse (fun h => by cases h)

/-- the environment of a history over one field record: ring 1 is a quotient ring when `um` / `bi`
    are given, rings 0 and 2 are plain rings -/
def envOf {α : Type} (F : FOps α) (um : Option (UPoly α) := none) (bi : Option (List (BPoly α)) := none) :
    Env α where
  fld := fun _ => F
  uring := fun i => ⟨F, "X", if i = 1 then um else none⟩
  bring := fun i => ⟨F, ⟨.lex, true⟩, ("X", "Y"), if i = 1 then bi else none⟩

/-! ## (1) `Inv` of zero, step level -/

section inv
variable {α : Type} (env : Env α)

/-- `c := a.Inv()`: the status of the result is the operand's, or `InputValue` -/
theorem eUnRes_inv_err (s : St α) (a : Nat) :
    (eUnRes env s "inv" a).err = (eGet env s a).err ∨
    (eUnRes env s "inv" a).err = .kind .inputValue := by
  simp only [eUnRes, show ("inv" == "copy") = false by decide, show ("inv" == "neg") = false by decide,
    show ("inv" == "trace") = false by decide, Bool.false_eq_true, if_false]
  split
  · exact .inl rfl
  · split
    · exact .inl rfl
    · exact .inr rfl

/-- … and it is `InputValue` when the operand is error-free and the record's `inv` answers `none` -/
theorem eUnRes_inv_none (s : St α) (a : Nat) (hne : (eGet env s a).err.isErr = false)
    (hz : (fld env (eGet env s a).home).inv (eGet env s a).val = none) :
    (eUnRes env s "inv" a).err = .kind .inputValue := by
  simp only [eUnRes, show ("inv" == "copy") = false by decide, show ("inv" == "neg") = false by decide,
    show ("inv" == "trace") = false by decide, Bool.false_eq_true, if_false, hne, hz]

/-- sound: whatever `step` stores for `.eUn dst "inv" a`, a kind that was not on the operand is
    `InputValue`, which the three `Inv` methods construct themselves -/
theorem step_inv_sound (desc : FieldDesc) (s : St α) (dst a : Nat) :
    ∃ r : EReg α,
      step env desc s (.eUn dst "inv" a) = ({ s with es := St.setL s.es dst r }, "ok " ++ showE env r) ∧
      (r.err = (eGet env s a).err ∨
        (r.err = .kind .inputValue ∧
          Kind.inputValue.name ∈ kindsOf Gen.errDirect "primefield.Element.Inv" ∧
          Kind.inputValue.name ∈ kindsOf Gen.errDirect "binfield.Element.Inv" ∧
          Kind.inputValue.name ∈ kindsOf Gen.errDirect "extfield.Element.Inv")) := by
  refine ⟨_, step_eUn env desc s dst "inv" a, ?_⟩
  rcases eUnRes_inv_err env s a with h | h
  · exact .inl h
  · refine .inr ⟨h, ?_, ?_, ?_⟩
    · rw [direct_Inv.1]; kind_mem
    · rw [direct_Inv.2.1]; kind_mem
    · rw [direct_Inv.2.2]; kind_mem

/-- the step on an error-free operand whose inverse is refused stores status `InputValue` -/
theorem step_inv_none (desc : FieldDesc) (s : St α) (dst a : Nat)
    (hne : (eGet env s a).err.isErr = false)
    (hz : (fld env (eGet env s a).home).inv (eGet env s a).val = none) :
    ∃ r : EReg α,
      step env desc s (.eUn dst "inv" a) = ({ s with es := St.setL s.es dst r }, "ok " ++ showE env r) ∧
      r.err = .kind .inputValue :=
  ⟨_, step_eUn env desc s dst "inv" a, eUnRes_inv_none env s a hne hz⟩

end inv

/-- the three field records (and the tabled extension-field record) refuse zero, for all parameters -/
theorem primeOps_inv_zero (p : Nat) : (primeOps p).inv 0 = none := by simp [primeOps, Prime.inv]
theorem binOps_inv_zero (n m : Nat) (v : String) : (binOps n m v).inv 0 = none := by
  simp [binOps, Bin.inv]
theorem extOps_inv_zero (p n : Nat) (g : List Nat) : (extOps p n g).inv [0] = none := by
  simp [extOps, Ext.inv, UPoly.isZero, primeOps]
theorem extOpsT_inv_zero (p n : Nat) (g : List Nat) : (extOpsT p n g true).inv [0] = none := by
  simp [extOpsT, Ext.invT, LogT.invWith, extOps, UPoly.isZero, primeOps]

/-- the element register 0 holds zero -/
def zeroStore {α : Type} (z : α) : St α := { es := [(0, { home := 0, val := z })] }

/-- (1) the step-level statement for the three records, with the `direct_Inv` tie:
    `e1 := e0.Inv()` on `e0 = 0` stores an element of status `InputValue` -/
theorem inv_zero_step :
    kindsOf Gen.errDirect "primefield.Element.Inv" = ["InputValue"] ∧
    kindsOf Gen.errDirect "binfield.Element.Inv" = ["InputValue"] ∧
    kindsOf Gen.errDirect "extfield.Element.Inv" = ["InputValue"] ∧
    (∀ p desc, ∃ r : EReg Nat, step (envOf (primeOps p)) desc (zeroStore 0) (.eUn 1 "inv" 0) =
        ({ zeroStore 0 with es := St.setL (zeroStore 0).es 1 r }, "ok " ++ showE (envOf (primeOps p)) r) ∧
        r.err = .kind .inputValue) ∧
    (∀ n m desc, ∃ r : EReg Nat, step (envOf (binOps n m)) desc (zeroStore 0) (.eUn 1 "inv" 0) =
        ({ zeroStore 0 with es := St.setL (zeroStore 0).es 1 r }, "ok " ++ showE (envOf (binOps n m)) r) ∧
        r.err = .kind .inputValue) ∧
    (∀ p n g desc, ∃ r : EReg (UPoly Nat),
        step (envOf (extOps p n g)) desc (zeroStore [0]) (.eUn 1 "inv" 0) =
        ({ zeroStore [0] with es := St.setL (zeroStore [0]).es 1 r },
          "ok " ++ showE (envOf (extOps p n g)) r) ∧
        r.err = .kind .inputValue) :=
  ⟨direct_Inv.1, direct_Inv.2.1, direct_Inv.2.2,
   fun p desc => step_inv_none _ desc _ 1 0 rfl (primeOps_inv_zero p),
   fun n m desc => step_inv_none _ desc _ 1 0 rfl (binOps_inv_zero n m "a"),
   fun p n g desc => step_inv_none _ desc _ 1 0 rfl (extOps_inv_zero p n g)⟩

/-! ## (4) `BPoly.pow` -/

theorem closed_bivariate_Pow :
    ∀ x ∈ ["Overflow"], x ∈ kindsOf Gen.errClosed "bivariate.Polynomial.Pow" := by decide +kernel

theorem bPowLoop_err {α : Type} {R : BPoly.Ring α} :
    ∀ (fuel n : Nat) (out g : BPoly α) (k : Kind),
      BPoly.powLoop R fuel n out g = .error k → k = .overflow := by
  intro fuel
  induction fuel with
  | zero => intro n out g k h; simp [BPoly.powLoop] at h
  | succ f ih =>
    intro n out g k h
    have aux : ∀ k', (if n % 2 = 1 then BPoly.times R out g else Except.ok (some out)) = .error k' →
        k' = .overflow := by
      intro k' hk
      split at hk
      · exact bTimes_err hk
      · cases hk
    unfold BPoly.powLoop at h
    simp only at h
    repeat' split at h
    all_goals first
      | (cases h; done)
      | (cases h; exact aux _ (by assumption))
      | (cases h; exact bTimes_err (by assumption))
      | exact ih _ _ _ _ h

theorem bPow_err {α : Type} {R : BPoly.Ring α} {f : BPoly α} {n : Nat} {k : Kind}
    (h : BPoly.pow R f n = .error k) : k = .overflow := by
  unfold BPoly.pow at h
  split at h
  · exact bPowLoop_err _ _ _ _ _ h
  · cases h

theorem bPow_sound {α : Type} (R : BPoly.Ring α) (f : BPoly α) (n : Nat) (k : Kind)
    (h : BPoly.pow R f n = .error k) :
    k.name ∈ kindsOf Gen.errClosed "bivariate.Polynomial.Pow" ∧
    k.name ∈ kindsOf Gen.errClosed "bivariate.addDegs" := by
  rw [bPow_err h]
  exact ⟨closed_bivariate_Pow _ (by kind_mem), closed_bivariate_addDegs _ (by kind_mem)⟩

/-- `Pow` constructs no error itself (no entry in `Gen.errDirect`); the Overflow of `addDegs`
    comes out of it: `(X^(2^64-1))^2` -/
theorem bPow_complete :
    kindsOf Gen.errDirect "bivariate.Polynomial.Pow" = [] ∧
    BPoly.pow ⟨primeOps 5, ⟨.lex, true⟩, ("X", "Y"), none⟩ [((2 ^ 64 - 1, 0), 1)] 2 = .error .overflow :=
  ⟨by decide +kernel, by decide +kernel⟩

/-! ## (2), (3) NewIdeal / Quotient / SPolynomial -/

theorem closed_univariate_NewIdeal2 : ∀ x ∈ ["InputValue", "InputIncompatible"],
    x ∈ kindsOf Gen.errClosed "univariate.QuotientRing.NewIdeal" := by decide +kernel
theorem closed_bivariate_Quotient2 : ∀ x ∈ ["InputValue", "InputIncompatible"],
    x ∈ kindsOf Gen.errClosed "bivariate.QuotientRing.Quotient" := by decide +kernel

section replies
variable {α : Type} (env : Env α) (desc : FieldDesc)

/-- `quotient@2` (`ring2.Quotient(id)` for an ideal of ring 0): InputIncompatible, or the model
    gives up in the Gröbner basis computation that precedes the test -/
theorem quotient2_reply_sound (st : St α) (n : Nat) :
    (quotient2Op env desc st n).2 = "fuel-exhausted" ∨
    ((quotient2Op env desc st n).2 = "err " ++ Kind.inputIncompatible.name ∧
      Kind.inputIncompatible.name ∈ kindsOf Gen.errClosed "bivariate.QuotientRing.Quotient") := by
  rw [C17Extra.quotient2_spec, errReply_names.2.1]
  simp only
  split
  · exact .inl rfl
  · exact .inr ⟨rfl, closed_bivariate_Quotient2 _ (by kind_mem)⟩

/-- `.iXform "quotient"` (`ring0.Quotient(id)` for an ideal of ring 0) never replies with an error -/
theorem iXform_quotient_reply (st : St α) (n : Nat) :
    (step env desc st (.iXform "quotient" n)).2 = "ok" ∨
    (step env desc st (.iXform "quotient" n)).2 = "fuel-exhausted" := by
  have h := C17Extra.quotient_spec env desc st none n
  unfold quotientOp at h
  cases hq : BPoly.quotientGens (F0 env) (bord env 0) (iGet st n) with
  | none => rw [hq] at h; exact .inr (congrArg Prod.snd h)
  | some gs => rw [hq] at h; exact .inl (congrArg Prod.snd h)

end replies

/-- GF(5); univariate ring 1 = GF(5)[X]/(X² + 1), bivariate ring 1 = GF(5)[X,Y]/(X) -/
def env5 : Env Nat := envOf (primeOps 5) (some [1, 0, 1]) (some [[((1, 0), 1)]])

/-- bivariate registers: q0 = 0 and q1 = X in ring 0 -/
def store5 : St Nat :=
  { bs := [(0, { home := 0, val := [] }), (1, { home := 0, val := [((1, 0), 1)] })] }

/-- (3) concrete replies of the model for every direct kind of the five functions:
    univariate `NewIdeal`: no generator / only the zero generator (InputValue);
    univariate `Quotient`: of a quotient ring (InputValue), with an ideal of another ring (InputIncompatible);
    bivariate `NewIdeal`: a generator of another ring (InputIncompatible), no nonzero generator (InputValue);
    bivariate `Quotient`: of a quotient ring (InputValue), with an ideal of another ring (InputIncompatible);
    `SPolynomial`: a zero operand (InputValue).
    (The InputIncompatible of univariate `NewIdeal` is `uIdeal_incompatible_witness` below.) -/
theorem ideals_witnesses :
    (uquotOp env5 {} 0 0 []).2 = "err-ideal " ++ Kind.inputValue.name ∧
    (uquotOp env5 {} 0 0 [[0]]).2 = "err-ideal " ++ Kind.inputValue.name ∧
    (uquotOp env5 {} 1 0 [[1, 1]]).2 = "err " ++ Kind.inputValue.name ∧
    (uquotOp env5 {} 2 0 [[1, 1]]).2 = "err " ++ Kind.inputIncompatible.name ∧
    (stepB env5 store5 (.iNew 5 1 [1])).map (·.2) = some ("err " ++ Kind.inputIncompatible.name) ∧
    (stepB env5 store5 (.iNew 5 0 [0])).map (·.2) = some ("err " ++ Kind.inputValue.name) ∧
    (quotient1Op env5 store5 0).2 = "err " ++ Kind.inputValue.name ∧
    (quotient2Op env5 (.prime 5) store5 0).2 = "err " ++ Kind.inputIncompatible.name ∧
    (spolyOp env5 store5 5 1 0).2 = "err " ++ Kind.inputValue.name := by
  refine ⟨by decide +kernel, by decide +kernel, by decide +kernel, by decide +kernel, by decide +kernel,
    by decide +kernel, by decide +kernel, by decide +kernel, by decide +kernel⟩

/-! ### univariate `NewIdeal` at the step level (`stepU (.uCtor dst ring "ideal" arg)`) -/

section uideal
variable {α : Type} (env : Env α)

/-- the generator registers named by the argument of the `ideal` constructor -/
def idealGens (s : St α) (arg : String) : List (UReg α) :=
  (if arg == "-" then [] else arg.splitOn ",").map fun t => uGet env s ((t.drop 1).toString.toNat!)

/-- `r.NewIdeal(gens...)`: the reply, case by case -/
theorem stepU_ideal (s : St α) (dst ring : Nat) (arg : String) :
    stepU env s (.uCtor dst ring "ideal" arg) =
      (let R := uring env ring
       let gens := idealGens env s arg
       if gens.isEmpty then some (s, "err InputValue")
       else if gens.any (·.home ≠ ring) then some (s, "err InputIncompatible")
       else match UPoly.newIdeal R.F (gens.map (·.val)) with
         | none => some (s, "fuel-exhausted")
         | some g =>
           if UPoly.isZero R.F g then some (s, "err InputValue")
           else
             let r : UReg α := { home := ring, val := g }
             some ({ s with us := St.setL s.us dst r }, "ok " ++ showU env r)) := by
  simp only [stepU, idealGens, show ("ideal" == "coefs") = false by decide,
    show ("ideal" == "nats") = false by decide, show ("ideal" == "ints") = false by decide,
    show ("ideal" == "zero") = false by decide, show ("ideal" == "one") = false by decide,
    show ("ideal" == "regs") = false by decide, show ("ideal" == "ideal") = true by decide,
    Bool.false_eq_true, if_false, if_true]
  rfl

/-- sound: the error replies of univariate `NewIdeal` are InputValue and InputIncompatible -/
theorem uIdeal_reply_sound (s : St α) (dst ring : Nat) (arg : String) :
    ∃ r, stepU env s (.uCtor dst ring "ideal" arg) = some r ∧
      ((∃ kd : Kind, r.2 = "err " ++ kd.name ∧
          kd.name ∈ kindsOf Gen.errClosed "univariate.QuotientRing.NewIdeal") ∨
       r.2 = "fuel-exhausted" ∨ ∃ reg : UReg α, r.2 = "ok " ++ showU env reg) := by
  have hv : ∃ kd : Kind, "err InputValue" = "err " ++ kd.name ∧
      kd.name ∈ kindsOf Gen.errClosed "univariate.QuotientRing.NewIdeal" :=
    ⟨.inputValue, errReply_names.1.symm, closed_univariate_NewIdeal2 _ (by kind_mem)⟩
  have hi : ∃ kd : Kind, "err InputIncompatible" = "err " ++ kd.name ∧
      kd.name ∈ kindsOf Gen.errClosed "univariate.QuotientRing.NewIdeal" :=
    ⟨.inputIncompatible, errReply_names.2.1.symm, closed_univariate_NewIdeal2 _ (by kind_mem)⟩
  rw [stepU_ideal]
  simp only
  repeat' split
  · exact ⟨_, rfl, .inl hv⟩
  · exact ⟨_, rfl, .inl hi⟩
  · exact ⟨_, rfl, .inr (.inl rfl)⟩
  · exact ⟨_, rfl, .inl hv⟩
  · exact ⟨_, rfl, .inr (.inr ⟨_, rfl⟩)⟩

/-- a generator of another ring: InputIncompatible -/
theorem uIdeal_incompatible (s : St α) (dst ring : Nat) (arg : String)
    (hne : (idealGens env s arg).isEmpty = false)
    (hall : ∀ k, (uGet env s k).home ≠ ring) :
    stepU env s (.uCtor dst ring "ideal" arg) = some (s, "err " ++ Kind.inputIncompatible.name) := by
  rw [stepU_ideal, errReply_names.2.1]
  simp only [hne, Bool.false_eq_true, if_false]
  have hany : (idealGens env s arg).any (fun x => decide (x.home ≠ ring)) = true := by
    cases hg : idealGens env s arg with
    | nil => rw [hg] at hne; simp at hne
    | cons x t =>
      have hx : x ∈ idealGens env s arg := by rw [hg]; simp
      unfold idealGens at hx
      obtain ⟨t', _, rfl⟩ := List.mem_map.1 hx
      simp [hall]
  rw [if_pos hany]

end uideal

/-- (2) witness: `ring1.NewIdeal(p0)` where (in the empty store) p0 is a polynomial of ring 0 -/
theorem uIdeal_incompatible_witness :
    kindsOf Gen.errDirect "univariate.QuotientRing.NewIdeal" = ["InputValue", "InputIncompatible"] ∧
    stepU env5 {} (.uCtor 5 1 "ideal" "p0") = some ({}, "err " ++ Kind.inputIncompatible.name) := by
  refine ⟨direct_univariate_NewIdeal, uIdeal_incompatible env5 {} 5 1 "p0" ?_ (fun k => by show (0 : Nat) ≠ 1; decide)⟩
  have hs : "p0".splitOn "," = ["p0"] := C04.splitOn_of_not_infix "p0" "," (by decide)
  simp [idealGens, hs]

end Algobra.ErrTies
