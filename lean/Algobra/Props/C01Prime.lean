/-
  Props/C01Prime.lean — prime-field part of C01 (field operations agree with `ZMod p`),
  C02 (canonical representations / equality) and C18 (arithmetic tables), plus the prime-field
  part of C03 (`MultGenerator`).

  Model functions: `Algobra.Prime.*`, `Algobra.primeOps`, `Algobra.genericPow`, `Algobra.powLoop`
  (Model/Field.lean, Model/Word.lean).  Go source: /repo/finitefield/primefield.

  Guards used everywhere (those the code really has):
  * `p.Prime`            — `primefield.Define` refuses non-primes,
  * `p - 1 < 2^32`       — `Define` refuses `card-1 >= 1<<32`,
  * operands `< p`       — elements are stored reduced.
  All `w64` / `wrapInt` / `intToWord` / `wordToInt` truncations of the model are discharged from
  these guards inside the proofs (see Proofs/PrimeField.lean); none is assumed away.
-/
import Mathlib.Tactic.NormNum.Prime
import Mathlib.Tactic.IntervalCases
import Algobra.Proofs.PrimeField

namespace Algobra.C01Prime
open Algobra

/-! ## 1. Add / Sub / Mult (Prod) / Neg -/

/-- `Add`: `(a + b) % p` on 64-bit words does not wrap and is addition of `ZMod p`. -/
theorem add_spec {p a b : Nat} (hp : p.Prime) (h32 : p - 1 < 2 ^ 32) (ha : a < p) (hb : b < p) :
    Prime.add p a b < p ∧ ((Prime.add p a b : ℕ) : ZMod p) = (a : ZMod p) + b :=
  ⟨Prime.add_lt hp.pos, Prime.cast_add h32 ha hb⟩

/-- `Sub`: both branches (`a ≥ b`: `a - b`; else `a + (p - b)`, which does not wrap). -/
theorem sub_spec {p a b : Nat} (_hp : p.Prime) (h32 : p - 1 < 2 ^ 32) (ha : a < p) (hb : b < p) :
    Prime.sub p a b < p ∧ ((Prime.sub p a b : ℕ) : ZMod p) = (a : ZMod p) - b :=
  ⟨Prime.sub_lt h32 ha hb, Prime.cast_sub h32 ha hb⟩

/-- `Prod`/`Mult`: `a * b < 2^64`, so the word product is exact; includes the zero shortcut. -/
theorem mul_spec {p a b : Nat} (hp : p.Prime) (h32 : p - 1 < 2 ^ 32) (ha : a < p) (hb : b < p) :
    Prime.mul p a b < p ∧ ((Prime.mul p a b : ℕ) : ZMod p) = (a : ZMod p) * b :=
  ⟨Prime.mul_lt hp.pos, Prime.cast_mul h32 ha hb⟩

/-- the word product of two reduced elements never overflows (what the `Define` guard is for) -/
theorem mul_no_overflow {p a b : Nat} (h32 : p - 1 < 2 ^ 32) (ha : a < p) (hb : b < p) :
    w64 (a * b) = a * b := w64_of_lt (Prime.mul_bound h32 ha hb)

/-- `Neg`/`SetNeg` -/
theorem neg_spec {p a : Nat} (hp : p.Prime) (ha : a < p) :
    Prime.neg p a < p ∧ ((Prime.neg p a : ℕ) : ZMod p) = -(a : ZMod p) :=
  ⟨Prime.neg_lt hp.pos, Prime.cast_neg ha⟩

-- non-vacuity and sanity evaluations
example : Nat.Prime 7 ∧ 7 - 1 < 2 ^ 32 ∧ 5 < 7 ∧ 4 < 7 := by norm_num
example : 4294967291 - 1 < 2 ^ 32 := by norm_num  -- 2^32 - 5, the largest admissible prime
example : Prime.add 7 5 4 = 2 := by decide
example : Prime.sub 7 3 5 = 5 := by decide
example : Prime.sub 7 5 3 = 2 := by decide
example : Prime.mul 7 5 4 = 6 := by decide
example : Prime.mul 7 0 4 = 0 := by decide
example : Prime.neg 7 0 = 0 ∧ Prime.neg 7 3 = 4 := by decide
-- the guard is sharp: one bit more and the word product wraps
example : w64 (2 ^ 32 * 2 ^ 32) ≠ 2 ^ 32 * 2 ^ 32 := by decide

/-! ## 2. element / ElementFromSigned -/

/-- `f.element(v)` / `ElementFromUnsigned` for an arbitrary word `v` -/
theorem element_spec {p : Nat} (hp : p.Prime) (v : Nat) :
    Prime.element p v < p ∧ ((Prime.element p v : ℕ) : ZMod p) = (v : ZMod p) :=
  ⟨Prime.element_lt hp.pos, Prime.cast_element⟩

/-- `ElementFromSigned(v)`: Go's truncated `%`, sign correction, conversion to `uint`.
    Holds for every integer `v`, in particular for every Go `int` (`-2^63 ≤ v < 2^63`). -/
theorem fromSigned_spec {p : Nat} (hp : p.Prime) (h32 : p - 1 < 2 ^ 32) (v : Int) :
    Prime.fromSigned p v < p ∧ ((Prime.fromSigned p v : ℕ) : ZMod p) = (v : ZMod p) :=
  ⟨Prime.fromSigned_lt hp.pos h32 v, Prime.cast_fromSigned hp.pos h32 v⟩

/-- the form asked for: restricted to the Go `int` range -/
theorem fromSigned_spec_goInt {p : Nat} (hp : p.Prime) (h32 : p - 1 < 2 ^ 32) (v : Int)
    (_hlo : -(2 ^ 63) ≤ v) (_hhi : v < 2 ^ 63) :
    Prime.fromSigned p v < p ∧ ((Prime.fromSigned p v : ℕ) : ZMod p) = (v : ZMod p) :=
  fromSigned_spec hp h32 v

/-- explicit value: the least non-negative residue -/
theorem fromSigned_eq_emod {p : Nat} (hp : p.Prime) (h32 : p - 1 < 2 ^ 32) (v : Int) :
    Prime.fromSigned p v = (v % (p : Int)).toNat :=
  Prime.fromSigned_eq hp.pos h32 v

example : (-(2 ^ 63) : Int) ≤ -10 ∧ (-10 : Int) < 2 ^ 63 := by norm_num
example : Prime.element 7 23 = 2 := by decide
example : Prime.fromSigned 7 (-10) = 4 := by decide
example : Prime.fromSigned 7 (-14) = 0 := by decide
example : Prime.fromSigned 7 (-(2 ^ 63)) = 6 := by decide

/-! ## 3. Inv -/

/-- `Inv` of a nonzero element: the extended Euclid loop on words / Go ints returns the inverse
    (all `wrapInt`s are the identity because the cofactors are bounded by `p ≤ 2^32`). -/
theorem inv_spec {p a : Nat} (hp : p.Prime) (h32 : p - 1 < 2 ^ 32) (ha : a < p) (ha0 : a ≠ 0) :
    ∃ i, Prime.inv p a = some i ∧ i < p ∧ (i : ZMod p) * (a : ZMod p) = 1 :=
  Prime.inv_spec' hp h32 ha ha0

/-- `Inv` of zero carries an InputValue error (`none` in the model). -/
theorem inv_zero (p : Nat) : Prime.inv p 0 = none := Prime.inv_zero p

/-- the loop invariant behind `inv_spec`, exported: bounded cofactor and Bézout relation -/
theorem invLoop_bezout {p a : Nat} (hp : p.Prime) (h32 : p - 1 < 2 ^ 32) (ha : a < p) :
    |Prime.invLoop p a 0 1| ≤ p ∧
      ((Prime.invLoop p a 0 1 : ℤ) : ZMod p) * a = (Nat.gcd p a : ZMod p) :=
  Prime.invLoop_spec (p := p) a (Prime.le_of_guard h32) a p 0 1 1 0 1 (Or.inl rfl) (by simp)
    (by simp) (by simp) hp.pos le_rfl ha.le (Nat.zero_le _) (by simp) (by simp)

example : Nat.Prime 7 ∧ 7 - 1 < 2 ^ 32 ∧ 3 < 7 ∧ 3 ≠ 0 := by norm_num
example : Prime.inv 7 3 = some 5 := by decide +kernel
example : Prime.inv 65537 3 = some 21846 := by decide +kernel
example : Prime.invLoop 7 3 0 1 = -2 := by decide +kernel   -- negative cofactor, fixed by fromSigned

/-! ## 4. Pow -/

/-- Generic square-and-multiply (re-exported from Proofs/PrimeField.lean for reuse). -/
theorem powLoop_spec {α M : Type*} [Monoid M] (mul : α → α → α) (valid : α → Prop) (embed : α → M)
    (hv : ∀ x y, valid x → valid y → valid (mul x y))
    (hm : ∀ x y, valid x → valid y → embed (mul x y) = embed x * embed y)
    (n : Nat) (out b : α) (ho : valid out) (hb : valid b) :
    valid (powLoop mul out b n) ∧ embed (powLoop mul out b n) = embed out * embed b ^ n :=
  Algobra.powLoop_spec mul valid embed hv hm n out b ho hb

/-- `Pow(n)` for every exponent (in particular every word `n < 2^64`): includes `0^0 = 1`,
    `0^n = 0` and the Fermat shortcut `n ≥ card → n % (card - 1)`. -/
theorem pow_spec {p a : Nat} (hp : p.Prime) (h32 : p - 1 < 2 ^ 32) (ha : a < p) (n : Nat) :
    Prime.pow p a n < p ∧ ((Prime.pow p a n : ℕ) : ZMod p) = (a : ZMod p) ^ n :=
  Prime.pow_spec' hp h32 ha n

theorem pow_zero_zero {p : Nat} (hp : p.Prime) : Prime.pow p 0 0 = 1 := by
  simp [Prime.pow, genericPow, Prime.element, Nat.mod_eq_of_lt hp.one_lt]

theorem pow_zero_pos {p n : Nat} (hn : n ≠ 0) : Prime.pow p 0 n = 0 := by
  simp [Prime.pow, genericPow, Prime.element, hn]

example : Prime.pow 7 0 0 = 1 := pow_zero_zero (by norm_num)
example : Prime.pow 7 3 100 = 4 := by decide +kernel            -- uses the shortcut 100 % 6 = 4
example : Prime.pow 7 3 (2 ^ 64 - 1) = 6 := by decide +kernel   -- largest word exponent

/-! ## 5. the Lawful instance (C01/C02 for `primeOps`)

  The instance itself is the definition `Algobra.primeLawful p hp h32` (equivalently
  `Algobra.primeLawfulFact p h32` under `[Fact p.Prime]`) in Proofs/PrimeField.lean; every field of
  the structure is proved there.  Here: what its `valid`/`embed` are, and the operations of the
  record that are not part of `Lawful` (`pow`, `ofNat`, `ofInt`). -/

section
variable (p : Nat) [hpf : Fact p.Prime] (h32 : p - 1 < 2 ^ 32)

include h32 in
/-- existence form of the lawfulness statement with the intended `valid` and `embed` -/
theorem primeOps_lawful : ∃ L : Lawful (primeOps p) (ZMod p),
    (∀ a, L.valid a ↔ a < p) ∧ (∀ a, L.embed a = ((a : ℕ) : ZMod p)) :=
  ⟨primeLawfulFact p h32, fun _ => Iff.rfl, fun _ => rfl⟩

theorem primeLawful_valid (a : Nat) : (primeLawfulFact p h32).valid a ↔ a < p := Iff.rfl

theorem primeLawful_embed (a : Nat) : (primeLawfulFact p h32).embed a = ((a : ℕ) : ZMod p) := rfl

/-- the explicit-hypothesis version is the same structure -/
theorem primeLawful_eq (hp : p.Prime) : primeLawful p hp h32 = primeLawfulFact p h32 := rfl

/-- `Pow` of the record, in the vocabulary of `Lawful` -/
theorem primeOps_pow (a n : Nat) (ha : (primeLawfulFact p h32).valid a) :
    (primeLawfulFact p h32).valid ((primeOps p).pow a n) ∧
      (primeLawfulFact p h32).embed ((primeOps p).pow a n) = (primeLawfulFact p h32).embed a ^ n :=
  pow_spec hpf.out h32 ha n

/-- `ElementFromUnsigned` / `ElementFromSigned` of the record -/
theorem primeOps_ofNat (v : Nat) :
    (primeLawfulFact p h32).valid ((primeOps p).ofNat v) ∧
      (primeLawfulFact p h32).embed ((primeOps p).ofNat v) = (v : ZMod p) :=
  element_spec hpf.out v

theorem primeOps_ofInt (v : Int) :
    (primeLawfulFact p h32).valid ((primeOps p).ofInt v) ∧
      (primeLawfulFact p h32).embed ((primeOps p).ofInt v) = (v : ZMod p) :=
  fromSigned_spec hpf.out h32 v

end

/-- characteristic and cardinality of the record -/
theorem primeOps_char_card (p : Nat) : (primeOps p).char = p ∧ (primeOps p).card = p := ⟨rfl, rfl⟩

example : Nat.Prime 65537 ∧ 65537 - 1 < 2 ^ 32 := by norm_num

/-! ## 6. canonical forms (C02) -/

/-- `Equal`: word equality of reduced elements is equality in `ZMod p`. -/
theorem beq_iff {p a b : Nat} (ha : a < p) (hb : b < p) :
    (a == b) = true ↔ (a : ZMod p) = (b : ZMod p) := Prime.beq_iff_cast ha hb

/-- reduced representations are unique -/
theorem repr_unique {p a b : Nat} (ha : a < p) (hb : b < p) (h : (a : ZMod p) = (b : ZMod p)) :
    a = b := Prime.cast_inj ha hb h

theorem isZero_iff {p a : Nat} (ha : a < p) :
    (primeOps p).isZero a = true ↔ (a : ZMod p) = 0 := Prime.isZero_iff_cast ha

theorem isOne_iff {p a : Nat} (hp : p.Prime) (ha : a < p) :
    (primeOps p).isOne a = true ↔ (a : ZMod p) = 1 := Prime.isOne_iff_cast hp.two_le ha

/-- `Zero()` and `One()` of the record are the words 0 and 1 (`1 % p = 1` since `p ≥ 2`). -/
theorem zero_one_repr {p : Nat} (hp : p.Prime) : (primeOps p).zero = 0 ∧ (primeOps p).one = 1 :=
  ⟨rfl, Nat.mod_eq_of_lt hp.one_lt⟩

/-! ## 7. arithmetic tables (C18) -/

/-- triangular storage: a lookup in a freshly computed table of a commutative operation returns
    the operation's value, for both orders of the indices. -/
theorem lookup_newTable {p : Nat} (op : Nat → Nat → Nat) {i j : Nat} (hi : i < p) (hj : j < p)
    (hcomm : ∀ x y, op x y = op y x) : Prime.lookup (Prime.newTable p op) i j = op i j :=
  Prime.lookup_newTable' op hi hj hcomm

/-- without commutativity: the upper triangle is exact, the lower triangle is mirrored -/
theorem lookup_newTable_le {p : Nat} (op : Nat → Nat → Nat) {i j : Nat} (hij : i ≤ j) (hj : j < p) :
    Prime.lookup (Prime.newTable p op) i j = op i j := by
  unfold Prime.lookup
  rw [if_neg (by omega), Prime.newTable_entry op (by omega) (by omega)]
  congr 1; omega

theorem lookup_newTable_gt {p : Nat} (op : Nat → Nat → Nat) {i j : Nat} (hji : j < i) (hi : i < p) :
    Prime.lookup (Prime.newTable p op) i j = op j i := by
  unfold Prime.lookup
  rw [if_pos hji, Prime.newTable_entry op (by omega) (by omega)]
  congr 1; omega

/-- the tables installed by `ComputeTables` agree with the table-free arithmetic -/
theorem lookup_addTable {p i j : Nat} (hi : i < p) (hj : j < p) :
    Prime.lookup (Prime.newTable p (Prime.add p)) i j = Prime.add p i j :=
  lookup_newTable _ hi hj (fun x y => by unfold Prime.add; rw [Nat.add_comm])

theorem lookup_multTable {p i j : Nat} (hi : i < p) (hj : j < p) :
    Prime.lookup (Prime.newTable p (Prime.mul p)) i j = Prime.mul p i j :=
  lookup_newTable _ hi hj (fun x y => by simp only [Prime.mul, Nat.mul_comm x y, or_comm])

/-- `ComputeTables` fails (InputTooLarge) exactly when a table is requested and the memory
    estimate exceeds `maxMem`. -/
theorem computeTables_limit (p : Nat) (add mult : Bool) (maxMem : Nat) :
    Prime.computeTables p add mult maxMem = .error .inputTooLarge ↔
      (add = true ∨ mult = true) ∧ Prime.estimateMemory p > maxMem :=
  Prime.computeTables_limit' p add mult maxMem

/-- otherwise it succeeds -/
theorem computeTables_ok (p : Nat) (add mult : Bool) (maxMem : Nat) :
    Prime.computeTables p add mult maxMem = .ok () ↔
      ¬((add = true ∨ mult = true) ∧ Prime.estimateMemory p > maxMem) := by
  rw [← computeTables_limit]
  unfold Prime.computeTables
  split <;> simp

/-- For `p < 2^31` the memory estimate is computed without wrap-around. -/
theorem estimateMemory_exact {p : Nat} (h : p < 2 ^ 31) :
    Prime.estimateMemory p = p * (p + 1) * 4 / 1024 := by
  have h1 : p * (p + 1) < 2 ^ 62 := by
    calc p * (p + 1) ≤ (2 ^ 31 - 1) * 2 ^ 31 := Nat.mul_le_mul (by omega) (by omega)
      _ < 2 ^ 62 := by norm_num
  unfold Prime.estimateMemory uintSize
  rw [w64_of_lt (x := p + 1) (by omega), w64_of_lt (x := p * (p + 1)) (by omega),
    w64_of_lt (by omega), Nat.shiftRight_eq_div_pow]

/-- FINDING (documentation bug, tables.go `estimateMemory`): for admissible `p ≥ 2^31` the product
    `char*(char+1)*(UintSize/16)` wraps, so the "lower bound" is far too small.  Witness: the
    smallest prime above `2^31` is accepted by `Define`, the estimate is 184 GiB whereas the table
    needs 16 EiB. -/
example : (2147483659 - 1 < 2 ^ 32) ∧ Prime.estimateMemory 2147483659 = 192937984 ∧
    2147483659 * (2147483659 + 1) * 4 / 1024 = 18014398702419968 := by decide

example : Prime.lookup (Prime.newTable 7 (Prime.mul 7)) 5 3 = 1 := by decide
example : Prime.lookup (Prime.newTable 7 (Prime.mul 7)) 3 5 = 1 := by decide
example : Prime.estimateMemory 65537 = 16777984 := by decide
example : Prime.computeTables 65537 true false 1000 = .error .inputTooLarge := by decide
example : Prime.computeTables 65537 false false 1000 = .ok () := by decide

/-! ## 8. MultGenerator (C03, prime-field part) -/

/-- `MultGenerator` returns a reduced element of multiplicative order `p - 1`; in particular the
    search (fuel `p`) terminates by finding one.
    EXPLICIT HYPOTHESIS `hfac`: the specification of `Auxmath.factorize` on `p - 1`
    (the listed first components are exactly the prime divisors) — proved by the C19 agent. -/
theorem multGenerator_spec {p : Nat} (hp : p.Prime) (h32 : p - 1 < 2 ^ 32)
    (hfac : ∀ r, r ∈ (Auxmath.factorize 64 (p - 1)).map (·.1) ↔ r.Prime ∧ r ∣ p - 1) :
    Prime.multGenerator p < p ∧ orderOf ((Prime.multGenerator p : ℕ) : ZMod p) = p - 1 :=
  Prime.multGenerator_spec' hp h32 hfac

-- non-vacuity: the hypotheses (including `hfac`) hold for p = 7, where the generator is 3
example : Nat.Prime 7 ∧ 7 - 1 < 2 ^ 32 ∧
    ∀ r, r ∈ (Auxmath.factorize 64 (7 - 1)).map (·.1) ↔ r.Prime ∧ r ∣ 7 - 1 := by
  refine ⟨by norm_num, by norm_num, ?_⟩
  have h : (Auxmath.factorize 64 (7 - 1)).map (·.1) = [2, 3] := by decide +kernel
  rw [h]
  intro r
  constructor
  · intro hr
    simp only [List.mem_cons, List.not_mem_nil, or_false] at hr
    rcases hr with rfl | rfl <;> norm_num
  · rintro ⟨hr, hd⟩
    have : r ≤ 6 := Nat.le_of_dvd (by norm_num) hd
    interval_cases r <;> simp_all <;> norm_num at hr
example : Prime.multGenerator 7 = 3 := by decide +kernel
example : Prime.multGenerator 2 = 1 := by decide +kernel
example : Prime.multGenerator 65537 = 3 := by decide +kernel

/-- the test used by the search is exact on nonzero reduced elements -/
theorem isGenerator_iff {p g : Nat} (hp : p.Prime) (h32 : p - 1 < 2 ^ 32) (factors : List Nat)
    (hfac : ∀ r, r ∈ factors ↔ r.Prime ∧ r ∣ p - 1) (hg0 : g ≠ 0) (hg : g < p) :
    Prime.isGenerator p factors g = true ↔ orderOf (g : ZMod p) = p - 1 :=
  Prime.isGenerator_iff hp h32 factors hfac hg0 hg

/-- the returned element is the smallest primitive root `≥ 2` (for `p ≠ 2`) -/
theorem multGenerator_least {p : Nat} (hp : p.Prime) (h32 : p - 1 < 2 ^ 32) (hp2 : p ≠ 2)
    (hfac : ∀ r, r ∈ (Auxmath.factorize 64 (p - 1)).map (·.1) ↔ r.Prime ∧ r ∣ p - 1) :
    2 ≤ Prime.multGenerator p ∧
      ∀ g, 2 ≤ g → g < Prime.multGenerator p → orderOf (g : ZMod p) ≠ p - 1 :=
  Prime.multGenerator_least' hp h32 hp2 hfac


end Algobra.C01Prime
