/-
  Props/C17Names.lean — the variable-name setters (Model/Names.lean): which requests fail, with which kind,
  and what the object looks like afterwards. Core Lean only.
-/
import Algobra.Model.Names
namespace Algobra.C17Names
open Algobra Algobra.Names

/-- `SetVarName` (univariate): fails exactly when nothing is left after trimming, with InputValue, and then
    keeps the old name; otherwise the ring has the trimmed name. -/
theorem setVarName_spec (old new : String) :
    ((trimSpace new).isEmpty = true → setVarName old new = (old, .error .inputValue)) ∧
    ((trimSpace new).isEmpty = false → setVarName old new = (trimSpace new, .ok ())) := by
  unfold setVarName
  constructor <;> intro h <;> simp [h]

/-- `binfield.SetVarName`: additionally refuses "0" and "1"; a refused call leaves the name unchanged -/
theorem binSetVarName_spec (old new : String) :
    ((trimSpace new).isEmpty = true ∨ trimSpace new = "0" ∨ trimSpace new = "1" →
      binSetVarName old new = (old, .error .inputValue)) ∧
    ((trimSpace new).isEmpty = false → trimSpace new ≠ "0" → trimSpace new ≠ "1" →
      binSetVarName old new = (trimSpace new, .ok ())) := by
  unfold binSetVarName
  constructor
  · rintro (h | h | h)
    · simp [h]
    · simp [h]
    · simp [h]
  · intro h h0 h1
    simp [h, h0, h1]

/-- `SetVarNames` (bivariate): success exactly when both trimmed names are non-empty and differ ignoring
    letter case; every failure is InputValue -/
theorem setVarNames_ok_iff (old new : String × String) :
    (setVarNames old new).2 = .ok () ↔
      ((trimSpace new.1).isEmpty = false ∧ (trimSpace new.2).isEmpty = false ∧
        (UPoly.strLower (trimSpace new.1) == UPoly.strLower (trimSpace new.2)) = false) := by
  unfold setVarNames
  by_cases h0 : (trimSpace new.1).isEmpty = true
  · simp [h0]
  · by_cases h1 : (trimSpace new.2).isEmpty = true
    · simp [h0, h1]
    · by_cases h2 : (UPoly.strLower (trimSpace new.1) == UPoly.strLower (trimSpace new.2)) = true
      · simp [h0, h1, h2]
      · simp [h0, h1, h2]

theorem setVarNames_ok_state (old new : String × String) (h : (setVarNames old new).2 = .ok ()) :
    (setVarNames old new).1 = (trimSpace new.1, trimSpace new.2) := by
  have := (setVarNames_ok_iff old new).1 h
  unfold setVarNames
  simp [this.1, this.2.1, this.2.2]

/-- all three setters: the only error kind is InputValue -/
theorem setters_error_kind (old new : String) (oldp newp : String × String) (k : Kind) :
    ((setVarName old new).2 = .error k → k = .inputValue) ∧
    ((binSetVarName old new).2 = .error k → k = .inputValue) ∧
    ((setVarNames oldp newp).2 = .error k → k = .inputValue) := by
  have key : ∀ (β : Type) (x : β), ((x, (Except.error Kind.inputValue : Except Kind Unit)).2 = .error k → k = .inputValue) :=
    fun _ _ h => by injection h with h; exact h.symm
  have key2 : ∀ (β : Type) (x : β), ((x, (Except.ok () : Except Kind Unit)).2 = .error k → k = .inputValue) :=
    fun _ _ h => by cases h
  refine ⟨?_, ?_, ?_⟩
  · unfold setVarName; dsimp only; split
    · exact key _ _
    · exact key2 _ _
  · unfold binSetVarName; dsimp only; split
    · exact key _ _
    · split
      · exact key _ _
      · exact key2 _ _
  · unfold setVarNames; dsimp only; split
    · exact key _ _
    · split
      · exact key _ _
      · split
        · exact key _ _
        · exact key2 _ _

def isOk {ε β : Type} : Except ε β → Bool | .ok _ => true | .error _ => false

/-- a refused `SetVarNames` may nevertheless have changed the ring: the names are stored before they are
    compared (this is what `bivariate/ring.go` does; recorded, not a property violation: no property speaks
    about the state after a refused setter) -/
theorem setVarNames_refused_but_stored :
    (setVarNames ("X", "Y") ("t", "T")).1 = ("t", "T") ∧ isOk (setVarNames ("X", "Y") ("t", "T")).2 = false := by
  decide

-- sanity
example : (setVarName "X" "  t\t").1 = "t" ∧ isOk (setVarName "X" "  t\t").2 = true := by decide
example : (setVarName "X" " \n ").1 = "X" ∧ isOk (setVarName "X" " \n ").2 = false := by decide
example : (binSetVarName "a" " 1 ").1 = "a" ∧ isOk (binSetVarName "a" " 1 ").2 = false := by decide
example : (setVarNames ("X", "Y") (" u", "v ")).1 = ("u", "v") ∧ isOk (setVarNames ("X", "Y") (" u", "v ")).2 = true := by decide

end Algobra.C17Names
