/-
  Props/C18.lean — tables never change an observable result (model side).
  In the model a `.tables` request records only table *presence* (`St.addTabs`, `St.mulTabs`);
  no other operation reads or writes these two fields.
-/
import Algobra.Proofs.Step
namespace Algobra.C18
open Algobra
variable {α : Type} (env : Env α) (desc : FieldDesc)

/-- C18-1a. A `.tables` request leaves all element / polynomial / ideal registers untouched. -/
theorem tables_keeps_registers (s : St α) (f : Nat) (add mult : Bool) (maxMem : Option Nat) :
    let s' := (step env desc s (.tables f add mult maxMem)).1
    s'.es = s.es ∧ s'.us = s.us ∧ s'.bs = s.bs ∧ s'.ids = s.ids :=
  let h := step_tables_regEq env desc s (.tables f add mult maxMem) rfl
  ⟨h.1.symm, h.2.1.symm, h.2.2.1.symm, h.2.2.2.symm⟩

/-- C18-1b. No other operation reads or writes table presence: with any other presence lists `a m`
    it returns the same reply and the same registers, and hands the lists through unchanged. -/
theorem other_ops_ignore_tables (s : St α) (a m : List Nat) (op : Op) (h : op.isTables = false) :
    step env desc { s with addTabs := a, mulTabs := m } op
      = ({ (step env desc s op).1 with addTabs := a, mulTabs := m }, (step env desc s op).2) :=
  step_withTabs env desc s a m op h

/-- C18-1 (`tables_transparent`). Delete all `.tables` requests from a history: the final registers are
    identical and the replies to all remaining operations are identical (the deleted requests' own
    replies are the only difference). -/
theorem tables_transparent (s : St α) (ops : List Op) :
    let full := runOps env desc s ops
    let without := runOps env desc s (ops.filter (!·.isTables))
    (full.1.es = without.1.es ∧ full.1.us = without.1.us ∧ full.1.bs = without.1.bs ∧ full.1.ids = without.1.ids) ∧
    ((ops.zip full.2).filter (!·.1.isTables)).map (·.2) = without.2 :=
  runOps_filter_tables env desc s s ops (St.RegEq.refl s)

/-- the same for the driver's fold of `step` (stores only) -/
theorem tables_transparent_fold (s : St α) (ops : List Op) :
    let s1 := ops.foldl (fun st op => (step env desc st op).1) s
    let s2 := (ops.filter (!·.isTables)).foldl (fun st op => (step env desc st op).1) s
    s1.es = s2.es ∧ s1.us = s2.us ∧ s1.bs = s2.bs ∧ s1.ids = s2.ids := by
  have h := (tables_transparent env desc s ops).1
  simp only [runOps_fst] at h
  exact h

/-- `.tables` is not a no-op on the whole store: presence is recorded (prime field, tables fit) -/
example : (step env5 (.prime 5) {} (.tables 0 true true none)).1.addTabs = [0] := by
  decide

/-- non-vacuity of the guard, and a concrete history over GF(101): the first table request is refused
    (limit 0 KiB), the second succeeds, the third — same limit 0 — is "ok" because the tables exist now
    (table presence IS state for `.tables` itself), and nothing else notices any of this -/
example : (Op.eBin 0 "plus" 0 0).isTables = false := rfl
example :
    let env : Env Nat := { env5 with fld := fun _ => primeOps 101 }
    let ops : List Op := [.eCtor 0 0 "one" "", .tables 0 true true (some 0), .eBin 1 "times" 0 0,
                          .tables 0 true true none, .eEq 1 0, .tables 0 true true (some 0), .eIn "add" 1 0]
    (runOps env (.prime 101) {} ops).2
      = ["ok 0#1", "err InputTooLarge", "ok 0#1", "ok", "eq true", "ok", "recv 0#2"] ∧
    (runOps env (.prime 101) {} (ops.filter (!·.isTables))).2 = ["ok 0#1", "ok 0#1", "eq true", "recv 0#2"] := by
  decide

end Algobra.C18
