/-
  Props/C11Full2.lean — C11-4, strengthened: the exactness hypothesis `hGx` of
  `C11.buchberger_criterion` (Props/C11Full.lean) is NOT needed.
  (Proofs/Criterion5.lean: a case analysis on "the model's `Ld g` is the true leading exponent of
  `g`" (`BPoly.LdOK`): all generators `LdOK` → the proof of the criterion goes through; one `LdOK`
  and another not → their S-polynomial has an inexact exponent, contradicting `RunSafe`; none
  `LdOK` → no guarded division makes a step, all S-polynomials vanish, `G` is a Gröbner basis for
  the TRUE leading exponents and every nonzero element of the ideal has an inexact leading
  exponent, so `IsGroebnerBasisExact` holds vacuously.)

  `buchberger_criterion_noexact` has literally the hypotheses of `C11.buchberger_criterion_full`;
  its conclusion is `IsGroebnerBasisExact` (members `f` with exact exponents) instead of
  `IsGroebnerBasis` (all members) — and that restriction cannot be removed
  (`buchberger_criterion_full_false`).
-/
import Algobra.Props.C11Full
import Algobra.Proofs.Criterion5

namespace Algobra
namespace C11

open BPoly

variable {α : Type} {F : FOps α} {K : Type} [Field K]

/-- **BUCHBERGER'S CRITERION for the model, without the exactness hypothesis on `G`**: exactly
    the hypotheses of `buchberger_criterion_full` -/
theorem buchberger_criterion_noexact (L : Lawful F K) (o : Order) (G : List (BPoly α))
    (hadm : Order.Admissible o) (hG : ∀ g ∈ G, WF L g ∧ g ≠ [] ∧ Bounded g)
    (hsafe : RoundSafe F o (RunSafe F o) G) (hz : sPairRems F o G = some []) :
    IsGroebnerBasisExact L o G := by
  intro f wf hne hfx hmem
  refine criterion_model_noexact L hadm hG ?_ wf hne hfx hmem
  intro i j hij hj
  obtain ⟨s, qs, hs, hq⟩ := (sPairRems_nil_iff G).1 hz i j hij hj
  have := hsafe i j hij hj s hs
  exact ⟨s, qs, hs, hq, this.2.1, this.2.2⟩

/-- the three cases, for reference -/
theorem criterion_cases (L : Lawful F K) {o : Order} (hadm : Order.Admissible o)
    {G : List (BPoly α)} (hG : ∀ g ∈ G, WF L g ∧ g ≠ [] ∧ Bounded g)
    (hsafe : RoundSafe F o (RunSafe F o) G) (hz : sPairRems F o G = some []) :
    (∀ g ∈ G, LdOK o g) ∨ (∀ g ∈ G, ¬ LdOK o g) := by
  by_contra hc
  rw [not_or] at hc
  obtain ⟨hall, hnone⟩ := hc
  obtain ⟨g0, hg0, hbad⟩ : ∃ g0 ∈ G, ¬ LdOK o g0 := by
    by_contra hc
    exact hall (fun g hg => by by_contra hb; exact hc ⟨g, hg, hb⟩)
  obtain ⟨g1, hg1, hok⟩ : ∃ g1 ∈ G, LdOK o g1 := by
    by_contra hc
    exact hnone (fun g hg hb => hc ⟨g, hg, hb⟩)
  obtain ⟨i0, hi0, rfl⟩ := List.getElem_of_mem hg0
  obtain ⟨i1, hi1, rfl⟩ := List.getElem_of_mem hg1
  have hne01 : i0 ≠ i1 := by rintro rfl; exact hbad hok
  rcases Nat.lt_or_gt_of_ne hne01 with hlt | hlt
  · obtain ⟨s, qs, hs, -⟩ := (sPairRems_nil_iff G).1 hz i0 i1 hlt hi1
    have hno := (hsafe i0 i1 hlt hi1 s hs).2.1
    exact hbad ((ldOK_iff_of_sPoly L hadm (hG _ hg0) (hG _ hg1) hs hno).2 hok)
  · obtain ⟨s, qs, hs, -⟩ := (sPairRems_nil_iff G).1 hz i1 i0 hlt hi0
    have hno := (hsafe i1 i0 hlt hi0 s hs).2.1
    exact hbad ((ldOK_iff_of_sPoly L hadm (hG _ hg1) (hG _ hg0) hs hno).1 hok)

/-! ### non-vacuity: an instance the theorem with `hGx` does not cover -/

section NonVacuity

/-- `X^(2^63) Y^(2^63+1)` and `X^(2^63+1) Y^(2^63)` over GF(3): word-size exponents, but the total
    degree `2^64 + 1` is not a machine word -/
def big1 : BPoly (ZMod 3) := [((2 ^ 63, 2 ^ 63 + 1), 1)]
def big2 : BPoly (ZMod 3) := [((2 ^ 63 + 1, 2 ^ 63), 1)]

/-- the hypotheses of `buchberger_criterion_noexact` hold for `G = [big1, big2]` and `DegLex`
    (one real S-pair, which is the zero polynomial), while `hGx` fails -/
example :
    let o : Order := { kind := .wdeglex 1 1, xGtY := true }
    let L := C05.fieldLawful (ZMod 3)
    Order.Admissible o ∧ (∀ g ∈ [big1, big2], WF L g ∧ g ≠ [] ∧ Bounded g) ∧
    RoundSafe (C05.fieldOps (ZMod 3)) o (RunSafe (C05.fieldOps (ZMod 3)) o) [big1, big2] ∧
    sPairRems (C05.fieldOps (ZMod 3)) o [big1, big2] = some [] ∧
    ¬ (∀ g ∈ [big1, big2], ∀ d ∈ keys g, Exact o d) := by
  intro o L
  refine ⟨trivial, ?_, roundSafe_of_test (by decide +kernel), by decide +kernel, ?_⟩
  · intro g hg
    simp only [List.mem_cons, List.not_mem_nil, or_false] at hg
    rcases hg with rfl | rfl
    · exact ⟨wf_zmod3 _ (by decide) (by decide), by decide, by intro dc hdc; revert dc; decide⟩
    · exact ⟨wf_zmod3 _ (by decide) (by decide), by decide, by intro dc hdc; revert dc; decide⟩
  · intro h
    rcases h big1 (by simp) (2 ^ 63, 2 ^ 63 + 1) (by decide) with hk | hn
    · cases hk
    · revert hn; decide

end NonVacuity

end C11
end Algobra
