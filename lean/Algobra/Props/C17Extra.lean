/-
  Props/C17Extra.lean — error behaviour and frames of the protocol operations of Model/Extra.lean
  (the operations that are not an `Op` of `step`): `spolyOp`, `ireduceOp`, `uireduceOp`, `quotientOp`,
  `quotient1Op`, `quotient2Op`, `uquotOp`, `embedQOp`, `anyOp`, `escrOp`, `tcheckOp`.

  In the spirit of C17 ("failures are errors of the documented kind; an object that carries an error never
  yields a plausible value") and C16 ("value-returning operations change nothing else").

  Conventions. A reply `"err " ++ toString e` is an error reply of the kind of `e`; `"fuel-exhausted"` is the
  model giving up (never compared as a value); `"bad-op"` a malformed line. `St.Frame s s' we wu wb wi false`
  (Proofs/Step.lean) says: every element / univariate / bivariate / ideal register outside `we` / `wu` / `wb` /
  `wi` reads the same in `s'` as in `s`, and the table-presence lists are equal — the statement of
  `C16.step_frame` as one structure. CORE LEAN ONLY (no Mathlib).
-/
import Algobra.Proofs.Extra
namespace Algobra.C17Extra
open Algobra
variable {α : Type} (env : Env α) (desc : FieldDesc)

/-! ### `escr@f`, `tcheck@f` : pure observers -/

theorem escr_state (st : St α) (f : Nat) : (escrOp env st f).1 = st := rfl
theorem escr_reply (st : St α) (f : Nat) : (escrOp env st f).2 = "ok " ++ toString (env.fld f).card := rfl
theorem tcheck_state (st : St α) (f : Nat) : (tcheckOp env st f).1 = st := rfl
/-- the model's answer is always "no mismatch among the `card` elements" -/
theorem tcheck_reply (st : St α) (f : Nat) : (tcheckOp env st f).2 = "ok 0 of " ++ toString (env.fld f).card := rfl

/-! ### `eN=any…@f arg` : `Field.Element(interface{})` -/

/-- uint, int, string: exactly the constructor the generic one dispatches to -/
theorem any_uint (st : St α) (dst idx : Nat) (a : String) :
    anyOp env desc st dst idx "anyu" a = step env desc st (.eCtor dst idx "u" a) := by
  simp [anyOp, anyRewrite]
theorem any_int (st : St α) (dst idx : Nat) (a : String) :
    anyOp env desc st dst idx "anyi" a = step env desc st (.eCtor dst idx "s" a) := by
  simp [anyOp, anyRewrite]
theorem any_string (st : St α) (dst idx : Nat) (a : String) :
    anyOp env desc st dst idx "anystr" a = step env desc st (.eCtor dst idx "str" a) := by
  simp [anyOp, anyRewrite]

/-- []uint over an extension field: the element whose wire form is that of Σ cᵢ·aⁱ (`hornerGen`, computed with
    the field's own `add`, `mul`, `gen`, `ofNat`) -/
theorem any_uint_slice_ext (st : St α) (dst idx : Nat) (a : String) (hx : desc.isExt = true) :
    anyOp env desc st dst idx "anysl" a =
      step env desc st (.eCtor dst idx "enc"
        ((env.fld idx).enc (hornerGen (env.fld idx) ((anyItems a).map fun t => (env.fld idx).ofNat t.toNat!)))) := by
  simp [anyOp, anyRewrite, hx]
/-- []int over an extension field -/
theorem any_int_slice_ext (st : St α) (dst idx : Nat) (a : String) (hx : desc.isExt = true) :
    anyOp env desc st dst idx "anyisl" a =
      step env desc st (.eCtor dst idx "enc"
        ((env.fld idx).enc (hornerGen (env.fld idx) ((anyItems a).map fun t => (env.fld idx).ofInt (parseInt t))))) := by
  simp [anyOp, anyRewrite, hx]

/-- slices for prime and binary fields: an Input error, no object, nothing changes -/
theorem any_slice_not_ext (st : St α) (dst idx : Nat) (op a : String) (hx : desc.isExt = false)
    (hop : op = "anysl" ∨ op = "anyisl") :
    anyOp env desc st dst idx op a = (st, "err Input") := by
  rcases hop with rfl | rfl <;> simp [anyOp, anyRewrite, hx]

/-- every other dynamic type (every operation name but the five supported ones): an Input error, no object,
    nothing changes -/
theorem any_unsupported (st : St α) (dst idx : Nat) (op a : String)
    (hop : op ∉ ["anyu", "anyi", "anystr", "anysl", "anyisl"]) :
    anyOp env desc st dst idx op a = (st, "err Input") := by
  simp only [List.mem_cons, List.not_mem_nil, or_false, not_or] at hop
  obtain ⟨h1, h2, h3, h4, h5⟩ := hop
  simp [anyOp, anyRewrite, h1, h2, h3, h4, h5]

/-- conversely the Input error arises in no other way: whenever `anyOp` does not answer through `step`, the
    operation is unsupported (or a slice over a non-extension field) and the store is unchanged -/
theorem any_cases (st : St α) (dst idx : Nat) (op a : String) :
    (∃ how arg, how ∈ ["u", "s", "str", "enc"] ∧
        anyOp env desc st dst idx op a = step env desc st (.eCtor dst idx how arg)) ∨
    ((op ∉ ["anyu", "anyi", "anystr", "anysl", "anyisl"] ∨ (desc.isExt = false ∧ (op = "anysl" ∨ op = "anyisl"))) ∧
        anyOp env desc st dst idx op a = (st, "err Input")) := by
  by_cases h1 : op = "anyu"
  · subst h1; exact .inl ⟨"u", a, by simp, any_uint env desc st dst idx a⟩
  by_cases h2 : op = "anyi"
  · subst h2; exact .inl ⟨"s", a, by simp, any_int env desc st dst idx a⟩
  by_cases h3 : op = "anystr"
  · subst h3; exact .inl ⟨"str", a, by simp, any_string env desc st dst idx a⟩
  by_cases hx : desc.isExt = true
  · by_cases h4 : op = "anysl"
    · subst h4; exact .inl ⟨"enc", _, by simp, any_uint_slice_ext env desc st dst idx a hx⟩
    by_cases h5 : op = "anyisl"
    · subst h5; exact .inl ⟨"enc", _, by simp, any_int_slice_ext env desc st dst idx a hx⟩
    exact .inr ⟨.inl (by simp [h1, h2, h3, h4, h5]), any_unsupported env desc st dst idx op a (by simp [h1, h2, h3, h4, h5])⟩
  · have hx' : desc.isExt = false := by simpa using hx
    by_cases h45 : op = "anysl" ∨ op = "anyisl"
    · exact .inr ⟨.inr ⟨hx', h45⟩, any_slice_not_ext env desc st dst idx op a hx' h45⟩
    · rw [not_or] at h45
      exact .inr ⟨.inl (by simp [h1, h2, h3, h45.1, h45.2]),
        any_unsupported env desc st dst idx op a (by simp [h1, h2, h3, h45.1, h45.2])⟩

/-! ### `quotient iN`, `quotient@1 iN`, `quotient@2 iN` -/

/-- `ring0.Quotient(id)`: the store never changes (the caller's ideal object is left as it is); the reply is `ok`
    exactly when the generators of the new ring could be computed, and then these are remembered. -/
theorem quotient_spec (st : St α) (lq : Option (List (BPoly α))) (n : Nat) :
    quotientOp env desc (st, lq) n =
      match BPoly.quotientGens (F0 env) (bord env 0) (iGet st n) with
      | none => ((st, lq), "fuel-exhausted")
      | some gs => ((st, some gs), "ok") := by
  have hs : step env desc st (.iXform "quotient" n) =
      match BPoly.quotientGens (F0 env) (bord env 0) (iGet st n) with
      | none => (st, "fuel-exhausted")
      | some _ => (st, "ok") := by
    show (match stepE env st (.iXform "quotient" n) with
      | some r => r
      | none => match stepU env st (.iXform "quotient" n) with
        | some r => r
        | none => match stepB env st (.iXform "quotient" n) with
          | some r => r
          | none => match stepT desc st (.iXform "quotient" n) with
            | some r => r
            | none => (st, "bad-op")) = _
    simp only [stepE, stepU, stepB]
    cases BPoly.quotientGens (F0 env) (bord env 0) (iGet st n) <;> simp
  unfold quotientOp
  rw [hs]
  cases h : BPoly.quotientGens (F0 env) (bord env 0) (iGet st n) <;> simp

theorem quotient_state (stq : St α × Option (List (BPoly α))) (n : Nat) :
    (quotientOp env desc stq n).1.1 = stq.1 := by
  obtain ⟨st, lq⟩ := stq
  rw [quotient_spec]
  cases BPoly.quotientGens (F0 env) (bord env 0) (iGet st n) <;> rfl

/-- a quotient of a quotient ring: InputValue, whatever the ideal; the store never changes -/
theorem quotient1_state (st : St α) (n : Nat) : (quotient1Op env st n).1 = st := rfl
theorem quotient1_reply (st : St α) (n : Nat) (hq : (bring env 1).ideal.isSome = true) :
    quotient1Op env st n = (st, "err InputValue") := by
  simp [quotient1Op, hq]
/-- … and exactly then (otherwise ring 1 is not a quotient ring and the line is malformed) -/
theorem quotient1_reply_iff (st : St α) (n : Nat) :
    (quotient1Op env st n).2 = "err InputValue" ↔ (bring env 1).ideal.isSome = true := by
  unfold quotient1Op
  cases (bring env 1).ideal.isSome <;> simp

/-- an ideal of another ring: the store never changes; the reply is never `ok`: it is InputIncompatible exactly
    when the Gröbner basis (which is computed first) could be computed -/
theorem quotient2_state (st : St α) (n : Nat) : (quotient2Op env desc st n).1 = st := rfl
theorem quotient2_spec (st : St α) (n : Nat) :
    quotient2Op env desc st n =
      (st, match BPoly.quotientGens (F0 env) (bord env 0) (iGet st n) with
           | none => "fuel-exhausted"
           | some _ => "err InputIncompatible") := by
  have h := quotient_spec env desc st none n
  unfold quotientOp at h
  unfold quotient2Op
  cases hq : BPoly.quotientGens (F0 env) (bord env 0) (iGet st n) with
  | none =>
    rw [hq] at h
    have h2 : (step env desc st (.iXform "quotient" n)).2 = "fuel-exhausted" := congrArg Prod.snd h
    simp [h2]
  | some gs =>
    rw [hq] at h
    have h2 : (step env desc st (.iXform "quotient" n)).2 = "ok" := congrArg Prod.snd h
    simp [h2]
theorem quotient2_reply_iff (st : St α) (n : Nat) :
    (quotient2Op env desc st n).2 = "err InputIncompatible" ↔
      (BPoly.quotientGens (F0 env) (bord env 0) (iGet st n)).isSome = true := by
  rw [quotient2_spec]
  cases BPoly.quotientGens (F0 env) (bord env 0) (iGet st n) <;> simp

/-! ### `uquot@k j:gens` -/

theorem uquot_state (st : St α) (k j : Nat) (gens : List (UPoly α)) : (uquotOp env st k j gens).1 = st := by
  unfold uquotOp
  split
  · rfl
  · split
    · rfl
    · split
      · rfl
      · split
        · rfl
        · split <;> rfl

/-- the ideal itself cannot be made (no generators / gcd gave up, or the zero ideal): reported as `err-ideal` -/
theorem uquot_ideal_err (st : St α) (k j : Nat) (gens : List (UPoly α))
    (hk : uRingExists env k = true) (hj : uRingExists env j = true)
    (hg : ∀ g, UPoly.newIdeal (F0 env) gens = some g → UPoly.isZero (F0 env) g = true) :
    uquotOp env st k j gens = (st, "err-ideal InputValue") := by
  unfold uquotOp
  simp only [hk, hj, Bool.and_self, Bool.not_true, Bool.false_eq_true, if_false]
  cases h : UPoly.newIdeal (F0 env) gens with
  | none => rfl
  | some g => simp [hg g h]

/-- for rings that exist and a proper ideal `⟨g⟩`, `g ≠ 0`: the complete reply table -/
theorem uquot_spec (st : St α) (k j : Nat) (gens : List (UPoly α)) (g : UPoly α)
    (hk : uRingExists env k = true) (hj : uRingExists env j = true)
    (hg : UPoly.newIdeal (F0 env) gens = some g) (hz : UPoly.isZero (F0 env) g = false) :
    uquotOp env st k j gens =
      (st, if k = 1 ∨ k = 3 then "err InputValue"                    -- quotient of a quotient ring
           else if (k = 2) ≠ (j = 2) then "err InputIncompatible"     -- ideal of another ring
           else "ok") := by
  unfold uquotOp
  simp only [hk, hj, Bool.and_self, Bool.not_true, Bool.false_eq_true, if_false, hg, hz]
  by_cases h13 : k = 1 ∨ k = 3
  · rcases h13 with rfl | rfl <;> simp
  · have h13' := h13
    rw [not_or] at h13'
    simp only [h13, if_false]
    have : (k == 1 || k == 3) = false := by simp [h13'.1, h13'.2]
    simp only [this, Bool.false_eq_true, if_false]
    by_cases hk2 : k = 2 <;> by_cases hj2 : j = 2 <;>
      simp [hk2, hj2, beq_eq_false_iff_ne.mpr]

/-- InputValue (as the reply of `Quotient`) exactly for a quotient of a quotient ring -/
theorem uquot_inputValue_iff (st : St α) (k j : Nat) (gens : List (UPoly α)) :
    (uquotOp env st k j gens).2 = "err InputValue" ↔
      (uRingExists env k = true ∧ uRingExists env j = true ∧
        (∃ g, UPoly.newIdeal (F0 env) gens = some g ∧ UPoly.isZero (F0 env) g = false) ∧ (k = 1 ∨ k = 3)) := by
  by_cases hk : uRingExists env k = true
  · by_cases hj : uRingExists env j = true
    · cases hg : UPoly.newIdeal (F0 env) gens with
      | none =>
        rw [uquot_ideal_err env st k j gens hk hj (by simp [hg])]
        simp
      | some g =>
        by_cases hz : UPoly.isZero (F0 env) g = true
        · rw [uquot_ideal_err env st k j gens hk hj (by simp [hg, hz])]
          simp [hz]
        · have hz' : UPoly.isZero (F0 env) g = false := by simpa using hz
          rw [uquot_spec env st k j gens g hk hj hg hz']
          by_cases h13 : k = 1 ∨ k = 3
          · simp [h13, hk, hj, hz']
          · simp only [h13, if_false, hk, hj, and_false, iff_false]
            split <;> simp
    · unfold uquotOp; simp [hj]
  · unfold uquotOp; simp [hk]

/-- InputIncompatible exactly for a base ring and an ideal made in another ring object (ring 2 against 0, 1, 3) -/
theorem uquot_inputIncompatible_iff (st : St α) (k j : Nat) (gens : List (UPoly α)) :
    (uquotOp env st k j gens).2 = "err InputIncompatible" ↔
      (uRingExists env k = true ∧ uRingExists env j = true ∧
        (∃ g, UPoly.newIdeal (F0 env) gens = some g ∧ UPoly.isZero (F0 env) g = false) ∧
        ¬ (k = 1 ∨ k = 3) ∧ ((k = 2) ≠ (j = 2))) := by
  by_cases hk : uRingExists env k = true
  · by_cases hj : uRingExists env j = true
    · cases hg : UPoly.newIdeal (F0 env) gens with
      | none =>
        rw [uquot_ideal_err env st k j gens hk hj (by simp [hg])]
        simp
      | some g =>
        by_cases hz : UPoly.isZero (F0 env) g = true
        · rw [uquot_ideal_err env st k j gens hk hj (by simp [hg, hz])]
          simp [hz]
        · have hz' : UPoly.isZero (F0 env) g = false := by simpa using hz
          rw [uquot_spec env st k j gens g hk hj hg hz']
          by_cases h13 : k = 1 ∨ k = 3
          · simp [h13]
          · simp only [h13, if_false, hk, hj, true_and, not_false_eq_true, hz', exists_eq_left', Option.some.injEq]
            by_cases h2 : (k = 2) ≠ (j = 2)
            · simp [h2]
            · simp [h2]
    · unfold uquotOp; simp [hj]
  · unfold uquotOp; simp [hk]

/-! ### `qK=spoly qA qB` : `bivariate.SPolynomial` -/

/-- an operand that carries an error: the reply is an error of that operand's status — the receiver's if it is
    erroneous, else the argument's (`firstErr`, checking order of C17) — and nothing changes -/
theorem spoly_operand_err (st : St α) (dst a b : Nat)
    (h : (bGet st a).err.isErr = true ∨ (bGet st b).err.isErr = true) :
    spolyOp env st dst a b = (st, "err " ++ toString (firstErr [(bGet st a).err, (bGet st b).err])) ∧
    (firstErr [(bGet st a).err, (bGet st b).err]).isErr = true := by
  unfold spolyOp
  by_cases ha : (bGet st a).err.isErr = true
  · simp [bCheck_recvErr _ _ ha, firstErr, ha]
  · have hb := h.resolve_left ha
    have ha' : (bGet st a).err.isErr = false := by simpa using ha
    simp [bCheck_argErr _ _ ha' hb, firstErr, ha', hb]

theorem spoly_recv_err (st : St α) (dst a b : Nat) (ha : (bGet st a).err.isErr = true) :
    spolyOp env st dst a b = (st, "err " ++ toString (bGet st a).err) := by
  have h := (spoly_operand_err env st dst a b (.inl ha)).1
  simpa [firstErr, ha] using h

theorem spoly_arg_err (st : St α) (dst a b : Nat) (ha : (bGet st a).err.isErr = false)
    (hb : (bGet st b).err.isErr = true) :
    spolyOp env st dst a b = (st, "err " ++ toString (bGet st b).err) := by
  have h := (spoly_operand_err env st dst a b (.inr hb)).1
  simpa [firstErr, ha, hb] using h

/-- error-free operands of different rings: ArithmeticIncompat, nothing changes -/
theorem spoly_ring_mismatch (st : St α) (dst a b : Nat) (ha : (bGet st a).err.isErr = false)
    (hb : (bGet st b).err.isErr = false) (hh : (bGet st b).home ≠ (bGet st a).home) :
    spolyOp env st dst a b = (st, "err ArithmeticIncompat") := by
  unfold spolyOp
  simp only [bCheck_mismatch _ _ ha hb hh]
  rfl

/-- a zero operand (error-free operands of one ring): InputValue, nothing changes -/
theorem spoly_zero_operand (st : St α) (dst a b : Nat) (ha : (bGet st a).err.isErr = false)
    (hb : (bGet st b).err.isErr = false) (hh : (bGet st b).home = (bGet st a).home)
    (hz : BPoly.isZero (bGet st a).val = true ∨ BPoly.isZero (bGet st b).val = true) :
    spolyOp env st dst a b = (st, "err InputValue") := by
  unfold spolyOp
  simp only [bCheck_ok _ _ ha hb hh]
  unfold BPoly.isZero at hz
  rcases hz with hz | hz <;> simp [hz]

/-- otherwise: the value written to `dst` — and nothing else is written — is `BPoly.sPoly` (in the order of the
    operands' ring) reduced by `BPoly.reduceIn` in that ring; it lives in the operands' ring and is error-free.
    When one of the two model functions gives up, nothing changes. -/
theorem spoly_ok (st : St α) (dst a b : Nat) (ha : (bGet st a).err.isErr = false)
    (hb : (bGet st b).err.isErr = false) (hh : (bGet st b).home = (bGet st a).home)
    (hza : BPoly.isZero (bGet st a).val = false) (hzb : BPoly.isZero (bGet st b).val = false) :
    let h := (bGet st a).home
    let sp := BPoly.sPoly (F0 env) (bord env h) (bGet st a).val (bGet st b).val
    spolyOp env st dst a b =
      match sp.bind (BPoly.reduceIn (bring env h)) with
      | none => (st, "fuel-exhausted")
      | some v => ({ st with bs := St.setL st.bs dst { home := h, val := v } },
                   "ok " ++ showB env { home := h, val := v }) := by
  intro h sp
  unfold spolyOp
  simp only [bCheck_ok _ _ ha hb hh]
  unfold BPoly.isZero at hza hzb
  simp only [hza, hzb, Bool.or_self, Bool.false_eq_true, if_false]
  show (match BPoly.sPoly (F0 env) (bord env h) (bGet st a).val (bGet st b).val with
    | none => _ | some sp => _) = _
  cases hsp : BPoly.sPoly (F0 env) (bord env h) (bGet st a).val (bGet st b).val with
  | none => simp [sp, hsp]
  | some p =>
    simp only [sp, hsp, Option.bind_some]
    cases BPoly.reduceIn (bring env h) p <;> rfl

/-- the outcomes above are exhaustive: every reply other than `ok …` leaves the store as it is -/
theorem spoly_unchanged_or_ok (st : St α) (dst a b : Nat) :
    (spolyOp env st dst a b).1 = st ∨
    ∃ v, spolyOp env st dst a b =
      ({ st with bs := St.setL st.bs dst { home := (bGet st a).home, val := v } },
       "ok " ++ showB env { home := (bGet st a).home, val := v }) := by
  by_cases ha : (bGet st a).err.isErr = true
  · rw [spoly_recv_err env st dst a b ha]; exact .inl rfl
  have ha' : (bGet st a).err.isErr = false := by simpa using ha
  by_cases hb : (bGet st b).err.isErr = true
  · rw [spoly_arg_err env st dst a b ha' hb]; exact .inl rfl
  have hb' : (bGet st b).err.isErr = false := by simpa using hb
  by_cases hh : (bGet st b).home = (bGet st a).home
  · by_cases hz : BPoly.isZero (bGet st a).val = true ∨ BPoly.isZero (bGet st b).val = true
    · rw [spoly_zero_operand env st dst a b ha' hb' hh hz]; exact .inl rfl
    · rw [not_or] at hz
      have h := spoly_ok env st dst a b ha' hb' hh (by simpa using hz.1) (by simpa using hz.2)
      simp only [] at h
      rw [h]
      cases (BPoly.sPoly (F0 env) (bord env (bGet st a).home) (bGet st a).val (bGet st b).val).bind
        (BPoly.reduceIn (bring env (bGet st a).home)) with
      | none => exact .inl rfl
      | some v => exact .inr ⟨v, rfl⟩
  · rw [spoly_ring_mismatch env st dst a b ha' hb' hh]; exact .inl rfl

/-- frame (C16): whatever happens, no register but bivariate register `dst` is touched -/
theorem spoly_frame (st : St α) (dst a b : Nat) :
    St.Frame st (spolyOp env st dst a b).1 [] [] [dst] [] false := by
  rcases spoly_unchanged_or_ok env st dst a b with h | ⟨v, h⟩
  · rw [h]; exact St.Frame.refl st
  · rw [h]; exact St.Frame.setB st dst _ (by simp)

/-! ### `ireduce iN qK` : `Ideal.Reduce` (bivariate) -/

/-- the generators `Reduce` divides by: the ideal's own when `IsGroebner()` answers yes, else a Gröbner basis
    computed on the side by Buchberger's algorithm (not stored in the ideal object). `none`: the model gives up. -/
def reduceGens (F : FOps α) (o : Order) (id : BPoly.Ideal α) : Option (List (BPoly α)) :=
  match id.isGroebnerQ F o with
  | none => none
  | some (_, true) => some id.gens
  | some (_, false) => BPoly.buchberger F o BPoly.groebnerFuel id.gens

/-- the ideal object after `IsGroebner()` has been asked: only the cached flag may differ -/
def flagged (id : BPoly.Ideal α) (isG : Bool) : BPoly.Ideal α := { id with isGroebner := if isG then 1 else -1 }

theorem flagged_gens (id : BPoly.Ideal α) (b : Bool) :
    (flagged id b).gens = id.gens ∧ (flagged id b).isMinimal = id.isMinimal ∧ (flagged id b).isReduced = id.isReduced :=
  ⟨rfl, rfl, rfl⟩

/-- Complete description of `ireduceOp`. With `id` the ideal and `f` the polynomial register:
    * `IsGroebner()` gives up: nothing changes.
    * Otherwise its answer `isG` is cached in the ideal register (`flagged`: generators and the other two flags
      stay), and this is the ONLY change unless the reply is `ok`:
      - the side computation of a Gröbner basis gives up: `fuel-exhausted`;
      - `f` carries an error: an error of that status;
      - `f` error-free but not of ring 0 (the ideal's ring): ArithmeticIncompat;
      - `BPoly.rem` fails — only possible for a zero generator, InputValue — or gives up;
      - else `f`'s value becomes the remainder `BPoly.rem … f gs` (home and error status of the register stay). -/
theorem ireduce_spec (st : St α) (n k : Nat) :
    let id := iGet st n; let f := bGet st k; let F := F0 env; let o := bord env 0
    (id.isGroebnerQ F o = none ∧ ireduceOp env st n k = (st, "fuel-exhausted")) ∨
    ∃ isG, id.isGroebnerQ F o = some (flagged id isG, isG) ∧
      let st1 : St α := { st with ids := St.setL st.ids n (flagged id isG) }
      ((reduceGens F o id = none ∧ isG = false ∧ ireduceOp env st n k = (st1, "fuel-exhausted")) ∨
       ∃ gs, reduceGens F o id = some gs ∧
        ((f.err.isErr = true ∧ ireduceOp env st n k = (st1, "err " ++ toString f.err)) ∨
         (f.err.isErr = false ∧ f.home ≠ 0 ∧ ireduceOp env st n k = (st1, "err ArithmeticIncompat")) ∨
         (f.err.isErr = false ∧ f.home = 0 ∧ gs.any (·.isEmpty) = true ∧
            ireduceOp env st n k = (st1, "err InputValue")) ∨
         (f.err.isErr = false ∧ f.home = 0 ∧ BPoly.rem F o BPoly.divFuel f.val gs = .ok none ∧
            ireduceOp env st n k = (st1, "fuel-exhausted")) ∨
         (∃ v, f.err.isErr = false ∧ f.home = 0 ∧ BPoly.rem F o BPoly.divFuel f.val gs = .ok (some v) ∧
            ireduceOp env st n k = ({ st1 with bs := St.setL st.bs k { f with val := v } },
                                    "ok " ++ showB env { f with val := v })))) := by
  intro id f F o
  unfold ireduceOp
  simp only []
  cases hq : BPoly.Ideal.isGroebnerQ (F0 env) (bord env 0) (iGet st n) with
  | none => exact .inl ⟨rfl, rfl⟩
  | some r =>
    obtain ⟨id1, isG⟩ := r
    have hid : id1 = flagged id isG := BPoly.Ideal.isGroebnerQ_eq hq
    subst hid
    refine .inr ⟨isG, rfl, ?_⟩
    have hrg : reduceGens F o id =
        (if isG then some (flagged id isG) else (flagged id isG).groebnerBasis F o).map (·.gens) := by
      unfold reduceGens
      rw [hq]
      cases isG with
      | true => rfl
      | false =>
        show _ = Option.map _ ((flagged id false).groebnerBasis F o)
        unfold flagged
        simp only [Bool.false_eq_true, if_false]
        rw [BPoly.Ideal.groebnerBasis_of_not]
        cases BPoly.buchberger F o BPoly.groebnerFuel id.gens <;> rfl
    simp only []
    cases hgb : (if isG then some (flagged id isG) else (flagged id isG).groebnerBasis F o) with
    | none =>
      rw [hgb] at hrg
      have : isG = false := by
        cases isG with
        | true => simp at hgb
        | false => rfl
      exact .inl ⟨hrg, this, rfl⟩
    | some gb =>
      rw [hgb] at hrg
      refine .inr ⟨gb.gens, hrg, ?_⟩
      by_cases he : f.err.isErr = true
      · exact .inl ⟨he, by simp only [f] at he; simp only [he, if_true]; rfl⟩
      · have he' : f.err.isErr = false := by simpa using he
        by_cases hh : f.home = 0
        · have hh' : (f.home != 0) = false := by simp [hh]
          simp only [f] at he' hh'
          simp only [he', hh', Bool.false_eq_true, if_false]
          cases hr : BPoly.rem (F0 env) (bord env 0) BPoly.divFuel (bGet st k).val gb.gens with
          | error e =>
            obtain ⟨rfl, hz⟩ := BPoly.rem_error hr
            exact .inr (.inr (.inl ⟨he', hh, hz, rfl⟩))
          | ok r =>
            cases r with
            | none => exact .inr (.inr (.inr (.inl ⟨he', hh, rfl, rfl⟩)))
            | some v => exact .inr (.inr (.inr (.inr ⟨v, he', hh, rfl, rfl⟩)))
        · have hh' : (f.home != 0) = true := by simp [hh]
          simp only [f] at he' hh'
          refine .inr (.inl ⟨he', hh, ?_⟩)
          simp only [he', hh', Bool.false_eq_true, if_false, if_true]

/-- frame (C16): whatever happens, nothing but ideal register `n` and bivariate register `k` is touched … -/
theorem ireduce_frame (st : St α) (n k : Nat) :
    St.Frame st (ireduceOp env st n k).1 [] [] [k] [n] false := by
  have hI : ∀ x : BPoly.Ideal α, St.Frame st { st with ids := St.setL st.ids n x } [] [] [k] [n] false :=
    fun x => St.Frame.setI st n x (by simp)
  have hIB : ∀ (x : BPoly.Ideal α) (y : BReg α),
      St.Frame st { st with ids := St.setL st.ids n x, bs := St.setL st.bs k y } [] [] [k] [n] false := fun x y =>
    ⟨fun _ _ => rfl, fun _ _ => rfl, fun _ hk => St.getL_setL_ne _ _ (by simpa using hk),
     fun _ hk => St.getL_setL_ne _ _ (by simpa using hk), fun _ => ⟨rfl, rfl⟩⟩
  rcases ireduce_spec env st n k with ⟨_, h⟩ | ⟨isG, _, h⟩
  · rw [h]; exact St.Frame.refl st
  · rcases h with ⟨_, _, h⟩ | ⟨gs, _, ⟨_, h⟩ | ⟨_, _, h⟩ | ⟨_, _, _, h⟩ | ⟨_, _, _, h⟩ | ⟨v, _, _, _, h⟩⟩
    all_goals rw [h]
    all_goals first | exact hI _ | exact hIB _ _

/-- … and of the ideal object only the cached Gröbner flag can change: afterwards register `n` holds the same
    generators (and the same `isMinimal` / `isReduced` flags) as before -/
theorem ireduce_ideal_kept (st : St α) (n k : Nat) :
    let id' := iGet (ireduceOp env st n k).1 n
    id'.gens = (iGet st n).gens ∧ id'.isMinimal = (iGet st n).isMinimal ∧ id'.isReduced = (iGet st n).isReduced := by
  intro id'
  have hset : ∀ (s' : St α) (b : Bool), s'.ids = St.setL st.ids n (flagged (iGet st n) b) →
      iGet s' n = flagged (iGet st n) b := by
    intro s' b h
    unfold iGet
    rw [h, St.getL_setL_same]
    rfl
  rcases ireduce_spec env st n k with ⟨_, h⟩ | ⟨isG, _, h⟩
  · simp only [id', h]; simp
  · rcases h with ⟨_, _, h⟩ | ⟨gs, _, ⟨_, h⟩ | ⟨_, _, h⟩ | ⟨_, _, _, h⟩ | ⟨_, _, _, h⟩ | ⟨v, _, _, _, h⟩⟩
    all_goals simp only [id', h]
    all_goals rw [hset _ isG rfl]
    all_goals exact flagged_gens _ _

/-- on every reply other than `ok …` the polynomial registers are exactly as before -/
theorem ireduce_polys_unchanged_or_ok (st : St α) (n k : Nat) :
    (ireduceOp env st n k).1.bs = st.bs ∨
    ∃ v, (ireduceOp env st n k).1.bs = St.setL st.bs k { bGet st k with val := v } ∧
      (ireduceOp env st n k).2 = "ok " ++ showB env { bGet st k with val := v } ∧
      (bGet st k).err.isErr = false ∧ (bGet st k).home = 0 ∧
      ∃ gs, reduceGens (F0 env) (bord env 0) (iGet st n) = some gs ∧
        BPoly.rem (F0 env) (bord env 0) BPoly.divFuel (bGet st k).val gs = .ok (some v) := by
  rcases ireduce_spec env st n k with ⟨_, h⟩ | ⟨isG, _, h⟩
  · rw [h]; exact .inl rfl
  · rcases h with ⟨_, _, h⟩ | ⟨gs, hgs, ⟨_, h⟩ | ⟨_, _, h⟩ | ⟨_, _, _, h⟩ | ⟨_, _, _, h⟩ | ⟨v, he, hh, hr, h⟩⟩
    · rw [h]; exact .inl rfl
    · rw [h]; exact .inl rfl
    · rw [h]; exact .inl rfl
    · rw [h]; exact .inl rfl
    · rw [h]; exact .inl rfl
    · rw [h]; exact .inr ⟨v, rfl, rfl, he, hh, gs, hgs, hr⟩

/-- C17 for `Reduce`: a polynomial that carries an error is never reduced — the reply is an error of its status
    (unless the ideal computations give up first) and the polynomial registers do not change -/
theorem ireduce_poly_err (st : St α) (n k : Nat) (he : (bGet st k).err.isErr = true) :
    ((ireduceOp env st n k).2 = "err " ++ toString (bGet st k).err ∨ (ireduceOp env st n k).2 = "fuel-exhausted") ∧
    (ireduceOp env st n k).1.bs = st.bs := by
  rcases ireduce_spec env st n k with ⟨_, h⟩ | ⟨isG, _, h⟩
  · rw [h]; exact ⟨.inr rfl, rfl⟩
  · rcases h with ⟨_, _, h⟩ | ⟨gs, hgs, ⟨_, h⟩ | ⟨he', _, h⟩ | ⟨he', _, _, h⟩ | ⟨he', _, _, h⟩ | ⟨v, he', hh, hr, h⟩⟩
    · rw [h]; exact ⟨.inr rfl, rfl⟩
    · rw [h]; exact ⟨.inl rfl, rfl⟩
    all_goals (rw [he] at he'; exact absurd he' (by simp))

/-- … and likewise a polynomial of another ring: ArithmeticIncompat -/
theorem ireduce_ring_mismatch (st : St α) (n k : Nat) (he : (bGet st k).err.isErr = false)
    (hh : (bGet st k).home ≠ 0) :
    ((ireduceOp env st n k).2 = "err ArithmeticIncompat" ∨ (ireduceOp env st n k).2 = "fuel-exhausted") ∧
    (ireduceOp env st n k).1.bs = st.bs := by
  rcases ireduce_spec env st n k with ⟨_, h⟩ | ⟨isG, _, h⟩
  · rw [h]; exact ⟨.inr rfl, rfl⟩
  · rcases h with ⟨_, _, h⟩ | ⟨gs, hgs, ⟨he', h⟩ | ⟨_, _, h⟩ | ⟨_, hh', _, h⟩ | ⟨_, hh', _, h⟩ | ⟨v, _, hh', hr, h⟩⟩
    · rw [h]; exact ⟨.inr rfl, rfl⟩
    · rw [he] at he'; exact absurd he' (by simp)
    · rw [h]; exact ⟨.inl rfl, rfl⟩
    all_goals exact absurd hh' hh

/-! ### `uireduce j:gens pK` : `Ideal.Reduce` (univariate) -/

theorem uireduce_ideal_err (st : St α) (j k : Nat) (gens : List (UPoly α))
    (hg : ∀ g, UPoly.newIdeal (F0 env) gens = some g → UPoly.isZero (F0 env) g = true) :
    uireduceOp env st j gens k = (st, "err-ideal InputValue") := by
  unfold uireduceOp
  cases h : UPoly.newIdeal (F0 env) gens with
  | none => rfl
  | some g => simp [hg g h]

/-- For a proper ideal `⟨g⟩` (`g` = the normalised gcd of the generators, `g ≠ 0`): the polynomial's own error
    first, then the ring test (ArithmeticIncompat), then `UPoly.reduce g` — the remainder modulo the monic
    generator, zero for the unit ideal (C07: `UPoly.reduce` is `%ₘ`, see `C07.reduce_monic` and
    Props/C17ExtraU.lean). Only the polynomial register changes, only on `ok`, and only its value (home and
    error status stay). -/
theorem uireduce_spec (st : St α) (j k : Nat) (gens : List (UPoly α)) (g : UPoly α)
    (hg : UPoly.newIdeal (F0 env) gens = some g) (hz : UPoly.isZero (F0 env) g = false) :
    uireduceOp env st j gens k =
      if (uGet env st k).err.isErr then (st, "err " ++ toString (uGet env st k).err)
      else if (uGet env st k).home ≠ j then (st, "err ArithmeticIncompat")
      else match UPoly.reduce (F0 env) g (uGet env st k).val with
        | none => (st, "fuel-exhausted")
        | some v =>
          ({ st with us := St.setL st.us k { home := (uGet env st k).home, val := v, err := (uGet env st k).err } },
           "ok " ++ showU env { home := (uGet env st k).home, val := v, err := (uGet env st k).err }) := by
  unfold uireduceOp
  simp only [hg, hz, Bool.false_eq_true, if_false]
  by_cases he : (uGet env st k).err.isErr = true
  · simp only [he, if_true]
  · have he' : (uGet env st k).err.isErr = false := by simpa using he
    simp only [he', Bool.false_eq_true, if_false]
    by_cases hh : (uGet env st k).home = j
    · have : ((uGet env st k).home != j) = false := by simp [hh]
      rw [if_neg (by simp [this]), if_neg (by simp [hh])]
      cases UPoly.reduce (F0 env) g (uGet env st k).val <;> rfl
    · have : ((uGet env st k).home != j) = true := by simpa using hh
      simp only [this, if_true, ne_eq, hh, not_false_eq_true]

theorem uireduce_poly_err (st : St α) (j k : Nat) (gens : List (UPoly α)) (g : UPoly α)
    (hg : UPoly.newIdeal (F0 env) gens = some g) (hz : UPoly.isZero (F0 env) g = false)
    (he : (uGet env st k).err.isErr = true) :
    uireduceOp env st j gens k = (st, "err " ++ toString (uGet env st k).err) := by
  rw [uireduce_spec env st j k gens g hg hz, if_pos he]

theorem uireduce_ring_mismatch (st : St α) (j k : Nat) (gens : List (UPoly α)) (g : UPoly α)
    (hg : UPoly.newIdeal (F0 env) gens = some g) (hz : UPoly.isZero (F0 env) g = false)
    (he : (uGet env st k).err.isErr = false) (hh : (uGet env st k).home ≠ j) :
    uireduceOp env st j gens k = (st, "err ArithmeticIncompat") := by
  rw [uireduce_spec env st j k gens g hg hz, if_neg (by simp [he]), if_pos hh]

theorem uireduce_ok (st : St α) (j k : Nat) (gens : List (UPoly α)) (g v : UPoly α)
    (hg : UPoly.newIdeal (F0 env) gens = some g) (hz : UPoly.isZero (F0 env) g = false)
    (he : (uGet env st k).err.isErr = false) (hh : (uGet env st k).home = j)
    (hv : UPoly.reduce (F0 env) g (uGet env st k).val = some v) :
    uireduceOp env st j gens k =
      ({ st with us := St.setL st.us k { home := (uGet env st k).home, val := v, err := (uGet env st k).err } },
       "ok " ++ showU env { home := (uGet env st k).home, val := v, err := (uGet env st k).err }) := by
  rw [uireduce_spec env st j k gens g hg hz, if_neg (by simp [he]), if_neg (by simp [hh]), hv]

theorem uireduce_gives_up (st : St α) (j k : Nat) (gens : List (UPoly α)) (g : UPoly α)
    (hg : UPoly.newIdeal (F0 env) gens = some g) (hz : UPoly.isZero (F0 env) g = false)
    (he : (uGet env st k).err.isErr = false) (hh : (uGet env st k).home = j)
    (hv : UPoly.reduce (F0 env) g (uGet env st k).val = none) :
    uireduceOp env st j gens k = (st, "fuel-exhausted") := by
  rw [uireduce_spec env st j k gens g hg hz, if_neg (by simp [he]), if_neg (by simp [hh]), hv]

/-- every reply other than `ok …` leaves the store as it is; an `ok` writes the remainder into `k` -/
theorem uireduce_unchanged_or_ok (st : St α) (j k : Nat) (gens : List (UPoly α)) :
    (uireduceOp env st j gens k).1 = st ∨
    ∃ g v, UPoly.newIdeal (F0 env) gens = some g ∧ UPoly.isZero (F0 env) g = false ∧
      (uGet env st k).err.isErr = false ∧ (uGet env st k).home = j ∧
      UPoly.reduce (F0 env) g (uGet env st k).val = some v ∧
      uireduceOp env st j gens k =
        ({ st with us := St.setL st.us k { home := (uGet env st k).home, val := v, err := (uGet env st k).err } },
         "ok " ++ showU env { home := (uGet env st k).home, val := v, err := (uGet env st k).err }) := by
  cases hg : UPoly.newIdeal (F0 env) gens with
  | none => rw [uireduce_ideal_err env st j k gens (by simp [hg])]; exact .inl rfl
  | some g =>
    by_cases hz : UPoly.isZero (F0 env) g = true
    · rw [uireduce_ideal_err env st j k gens (by simp [hg, hz])]; exact .inl rfl
    have hz' : UPoly.isZero (F0 env) g = false := by simpa using hz
    by_cases he : (uGet env st k).err.isErr = true
    · rw [uireduce_poly_err env st j k gens g hg hz' he]; exact .inl rfl
    have he' : (uGet env st k).err.isErr = false := by simpa using he
    by_cases hh : (uGet env st k).home = j
    · cases hv : UPoly.reduce (F0 env) g (uGet env st k).val with
      | none => rw [uireduce_gives_up env st j k gens g hg hz' he' hh hv]; exact .inl rfl
      | some v => exact .inr ⟨g, v, rfl, hz', he', hh, hv, uireduce_ok env st j k gens g v hg hz' he' hh hv⟩
    · rw [uireduce_ring_mismatch env st j k gens g hg hz' he' hh]; exact .inl rfl

/-- frame (C16): nothing but univariate register `k` is touched -/
theorem uireduce_frame (st : St α) (j k : Nat) (gens : List (UPoly α)) :
    St.Frame st (uireduceOp env st j gens k).1 [] [k] [] [] false := by
  rcases uireduce_unchanged_or_ok env st j k gens with h | ⟨g, v, _, _, _, _, _, h⟩
  · rw [h]; exact St.Frame.refl st
  · rw [h]; exact St.Frame.setU st k _ (by simp)

/-! ### `qK=embed@3 src:r` : embedding into the ring made by the last `quotient` -/

/-- a polynomial of ring 2 (another ring object): InputIncompatible, nothing changes -/
theorem embedQ_other_ring (st : St α) (gs : List (BPoly α)) (dst src : Nat) (red : Bool)
    (h2 : (bGet st src).home = 2) :
    embedQOp env st gs dst src red = (st, "err InputIncompatible") := by
  simp [embedQOp, h2]

/-- otherwise the copy written to `dst` (home 3) carries the source's error status unchanged (C17: an erroneous
    polynomial stays erroneous across the embedding), and its value is the source's, reduced by
    `BPoly.reduceIn` modulo the remembered generators when reduction was asked for -/
theorem embedQ_spec (st : St α) (gs : List (BPoly α)) (dst src : Nat) (red : Bool)
    (h2 : (bGet st src).home ≠ 2) :
    let f := bGet st src
    embedQOp env st gs dst src red =
      match (if red then BPoly.reduceIn { bring env 0 with ideal := some gs } f.val else some f.val) with
      | none => (st, "fuel-exhausted")
      | some v => ({ st with bs := St.setL st.bs dst { home := 3, val := v, err := f.err } },
                   "ok " ++ showB env { home := 3, val := v, err := f.err }) := by
  intro f
  have : ((bGet st src).home == 2) = false := by simpa using h2
  unfold embedQOp
  simp only [this, Bool.false_eq_true, if_false]
  rfl

theorem embedQ_sticky (st : St α) (gs : List (BPoly α)) (dst src : Nat) (red : Bool)
    (h2 : (bGet st src).home ≠ 2) (he : (bGet st src).err.isErr = true) :
    (embedQOp env st gs dst src red).2 = "fuel-exhausted" ∨
    ((embedQOp env st gs dst src red).2 = "ok !" ++ toString (bGet st src).err ∧
     (bGet (embedQOp env st gs dst src red).1 dst).err = (bGet st src).err) := by
  have h := embedQ_spec env st gs dst src red h2
  simp only [] at h
  rw [h]
  cases (if red = true then BPoly.reduceIn { bring env 0 with ideal := some gs } (bGet st src).val
         else some (bGet st src).val) with
  | none => exact .inl rfl
  | some v =>
    refine .inr ⟨?_, ?_⟩
    · simp only [showB, he, if_true]; rw [← String.append_assoc]; simp
    · simp only [bGet, St.getL_setL_same, Option.getD_some]

/-- frame (C16): nothing but bivariate register `dst` is touched -/
theorem embedQ_frame (st : St α) (gs : List (BPoly α)) (dst src : Nat) (red : Bool) :
    St.Frame st (embedQOp env st gs dst src red).1 [] [] [dst] [] false := by
  by_cases h2 : (bGet st src).home = 2
  · rw [embedQ_other_ring env st gs dst src red h2]; exact St.Frame.refl st
  · have h := embedQ_spec env st gs dst src red h2
    simp only [] at h
    rw [h]
    cases (if red = true then BPoly.reduceIn { bring env 0 with ideal := some gs } (bGet st src).val
           else some (bGet st src).val) with
    | none => exact St.Frame.refl st
    | some v => exact St.Frame.setB st dst _ (by simp)

/-! ### C17-3 for the in-place operations `Reduce`: a tainted register stays tainted -/

/-- `ireduce` never clears an error: every bivariate register that carries an error before carries one after
    (also the reduced register `k` itself — an erroneous polynomial is not reduced at all) -/
theorem ireduce_keeps_taint (st : St α) (n k k' : Nat) (ht : TaintedB st k') :
    TaintedB (ireduceOp env st n k).1 k' := by
  rcases ireduce_polys_unchanged_or_ok env st n k with h | ⟨v, h, _, he, _⟩
  · unfold TaintedB; rw [h]; exact ht
  · obtain ⟨r, hr, hi⟩ := ht
    by_cases hk : k' = k
    · subst hk
      rw [bGet_of_getL hr] at he
      rw [he] at hi
      exact absurd hi (by simp)
    · exact ⟨r, by rw [h, St.getL_setL_ne _ _ hk]; exact hr, hi⟩

theorem uireduce_keeps_taint (st : St α) (j k k' : Nat) (gens : List (UPoly α)) (ht : TaintedU st k') :
    TaintedU (uireduceOp env st j gens k).1 k' := by
  rcases uireduce_unchanged_or_ok env st j k gens with h | ⟨g, v, _, _, he, _, _, h⟩
  · rw [h]; exact ht
  · obtain ⟨r, hr, hi⟩ := ht
    by_cases hk : k' = k
    · subst hk
      rw [uGet_of_getL env hr] at he
      rw [he] at hi
      exact absurd hi (by simp)
    · rw [h]
      exact ⟨r, by rw [St.getL_setL_ne _ _ hk]; exact hr, hi⟩

/-- `spoly` and `embed@3` are value-returning: registers other than `dst` keep their taint (frame); `dst` itself
    receives a clean polynomial from `spoly` (`spoly_unchanged_or_ok`: no `err` field is set) and the source's
    error status from `embed@3` (`embedQ_sticky`) -/
theorem spoly_keeps_taint (st : St α) (dst a b k' : Nat) (hk : k' ≠ dst) (ht : TaintedB st k') :
    TaintedB (spolyOp env st dst a b).1 k' := by
  obtain ⟨r, hr, hi⟩ := ht
  exact ⟨r, by rw [(spoly_frame env st dst a b).bs k' (by simpa using hk)]; exact hr, hi⟩

theorem embedQ_keeps_taint (st : St α) (gs : List (BPoly α)) (dst src : Nat) (red : Bool) (k' : Nat)
    (hk : k' ≠ dst) (ht : TaintedB st k') :
    TaintedB (embedQOp env st gs dst src red).1 k' := by
  obtain ⟨r, hr, hi⟩ := ht
  exact ⟨r, by rw [(embedQ_frame env st gs dst src red).bs k' (by simpa using hk)]; exact hr, hi⟩

/-! ### non-vacuity and sanity (GF(5); `env5q`, store `sX` of Proofs/Extra.lean: univariate ring 1 = GF(5)[X]/(X²+1),
    bivariate ring 1 = GF(5)[X,Y]/(Y²); p0 clean, p1 erroneous (Parsing), p2 of ring 2; q0 = X+2Y, q1 = Y², q2 erroneous
    (Parsing), q3 = XY of ring 1, q4 = 0, q5 = XY²+1; i0 = ⟨X+2Y, Y²⟩, i1 = ⟨XY+1, Y²⟩, i2 = ⟨Y²⟩ flagged Gröbner; GF(9): `env9`) -/

-- `any…`
example := any_uint_slice_ext env9 (.ext 3 2 [2, 2, 1]) {} 0 0 "1.2" rfl
example := any_int_slice_ext env9 (.ext 3 2 [2, 2, 1]) {} 0 0 "-1.2" rfl
example := any_slice_not_ext env5q (.prime 5) sX 9 0 "anysl" "1.2" rfl (.inl rfl)
example := any_slice_not_ext env5q (.bin 3 11) sX 9 0 "anyisl" "1.2" rfl (.inr rfl)
example := any_unsupported env5q (.prime 5) sX 9 0 "anyf64" "1" (by decide)
/-- 1 + 2a in GF(9) (coefficients low to high), wire form `1,2`. (The text-to-number steps `String.toNat!` /
    `splitOn` do not reduce in the kernel, so the parsed items are given.) -/
example : (extOps 3 2 [2, 2, 1]).enc (hornerGen (extOps 3 2 [2, 2, 1]) ([1, 2].map (extOps 3 2 [2, 2, 1]).ofNat)) = "1,2" := by
  decide
example : (extOps 3 2 [2, 2, 1]).enc (hornerGen (extOps 3 2 [2, 2, 1]) ([-1, 2].map (extOps 3 2 [2, 2, 1]).ofInt)) = "2,2" := by
  decide
example : (anyOp env9 (.ext 3 2 [2, 2, 1]) {} 0 0 "anynil" "0").2 = "err Input" := by decide

-- `quotient…`
example := quotient1_reply env5q sX 0 rfl
example : (quotient1Op env5 sErr 0).2 = "bad-op" := by decide          -- no quotient ring in `env5`
example : (quotient2Op env5q (.prime 5) sX 2).2 = "err InputIncompatible" := by
  rw [quotient2_spec]; decide
example : (quotientOp env5q (.prime 5) (sX, none) 2).2 = "ok" ∧
    (quotientOp env5q (.prime 5) (sX, none) 2).1.2 = some [[((0, 2), 1)]] := by
  rw [quotient_spec]; decide

-- `uquot`
example : uRingExists env5q 1 = true ∧ uRingExists env5q 3 = false ∧ uRingExists env5q 7 = false := by decide
example := uquot_spec env5q sX 1 0 [[1, 0, 1]] [1, 0, 1] (by decide) (by decide) (by decide) (by decide)
example := uquot_ideal_err env5q sX 0 0 [[0]] (by decide) (by decide) (by decide)
example : (uquotOp env5q sX 1 0 [[1, 0, 1]]).2 = "err InputValue" := by decide
example : (uquotOp env5q sX 0 2 [[1, 0, 1]]).2 = "err InputIncompatible" := by decide
example : (uquotOp env5q sX 2 0 [[1, 0, 1]]).2 = "err InputIncompatible" := by decide
example : (uquotOp env5q sX 0 1 [[1, 0, 1]]).2 = "ok" := by decide
example : (uquotOp env5q sX 2 2 [[1, 0, 1]]).2 = "ok" := by decide
example : (uquot_inputValue_iff env5q sX 1 0 [[1, 0, 1]]).mp (by decide) = (by decide) := rfl

-- `spoly`
example := spoly_operand_err env5q sX 9 0 2 (.inr (by decide))
example := spoly_recv_err env5q sX 9 2 0 (by decide)
example := spoly_arg_err env5q sX 9 0 2 (by decide) (by decide)
example := spoly_ring_mismatch env5q sX 9 0 3 (by decide) (by decide) (by decide)
example := spoly_zero_operand env5q sX 9 0 4 (by decide) (by decide) (by decide) (.inr (by decide))
example := spoly_ok env5q sX 9 0 1 (by decide) (by decide) (by decide) (by decide) (by decide)
/-- S(X+2Y, Y²) = Y²·(X+2Y) − X·Y² = 2Y³; in GF(5)[X,Y]/(Y²) S(XY, XY) = 0 -/
example : spolyOp env5q sX 9 0 1 =
    ({ sX with bs := sX.bs ++ [(9, { home := 0, val := [((0, 3), 2)] })] }, "ok 0#0:3:2") := by rfl
example : (spolyOp env5q sX 9 3 3).2 = "ok 1#" := by decide
example : spolyOp env5q sX 9 0 2 = (sX, "err Parsing") := by rfl
example : spolyOp env5q sX 9 2 3 = (sX, "err Parsing") := by rfl
example : spolyOp env5q sX 9 0 3 = (sX, "err ArithmeticIncompat") := by rfl
example : spolyOp env5q sX 9 4 0 = (sX, "err InputValue") := by rfl

-- `ireduce`
/-- i0 is a Gröbner basis (the flag is cached: 0 ↦ 1), XY²+1 ≡ 1 -/
example : reduceGens (primeOps 5) ⟨.lex, true⟩ (iGet sX 0) = some (iGet sX 0).gens := by decide
example : (ireduceOp env5q sX 0 5).2 = "ok 0#0:0:1" ∧ (iGet (ireduceOp env5q sX 0 5).1 0).isGroebner = 1 := by decide
/-- i1 is not (flag 0 ↦ −1, generators kept); the side basis contains 1, everything reduces to 0 -/
example : (ireduceOp env5q sX 1 5).2 = "ok 0#" ∧ (iGet (ireduceOp env5q sX 1 5).1 1).isGroebner = -1 ∧
    (iGet (ireduceOp env5q sX 1 5).1 1).gens = (iGet sX 1).gens := by decide
example := ireduce_poly_err env5q sX 0 2 (by decide)
example := ireduce_ring_mismatch env5q sX 0 3 (by decide) (by decide)
example : (ireduceOp env5q sX 0 2).2 = "err Parsing" ∧ (ireduceOp env5q sX 0 2).1.bs = sX.bs := ⟨by decide, by rfl⟩
example : (ireduceOp env5q sX 0 3).2 = "err ArithmeticIncompat" := by decide
/-- a zero generator (not constructible through `NewIdeal`, which drops zero polynomials): InputValue -/
example : (ireduceOp env5q { sX with ids := [(0, { gens := [[]] })] } 0 0).2 = "err InputValue" := by decide

-- `uireduce`
example := uireduce_ideal_err env5q sX 0 0 [[0]] (by decide)
example := uireduce_spec env5q sX 0 0 [[1, 0, 1]] [1, 0, 1] (by decide) (by decide)
example := uireduce_poly_err env5q sX 0 1 [[1, 0, 1]] [1, 0, 1] (by decide) (by decide) (by decide)
example := uireduce_ring_mismatch env5q sX 0 2 [[1, 0, 1]] [1, 0, 1] (by decide) (by decide) (by decide) (by decide)
example := uireduce_ok env5q sX 0 0 [[1, 0, 1]] [1, 0, 1] [4, 1] (by decide) (by decide) (by decide) (by decide) (by decide)
/-- 1+2X+X³+3X⁴ mod X²+1 = 4+X; modulo the unit ideal: 0 -/
example : (uireduceOp env5q sX 0 [[1, 0, 1]] 0).2 = "ok 0#4/1" := by decide
example : (uireduceOp env5q sX 0 [[1, 0, 1], [1]] 0).2 = "ok 0#0" := by decide
example : uireduceOp env5q sX 0 [[1, 0, 1]] 1 = (sX, "err Parsing") := by rfl
example : uireduceOp env5q sX 0 [[1, 0, 1]] 2 = (sX, "err ArithmeticIncompat") := by rfl
example : uireduceOp env5q sX 0 [] 0 = (sX, "err-ideal InputValue") := by rfl

-- `embed@3`
example := embedQ_other_ring env5q { sX with bs := [(0, { home := 2, val := [] })] } [] 9 0 true rfl
example := embedQ_spec env5q sX [[((0, 2), 1)]] 9 5 true (by decide)
example := embedQ_sticky env5q sX [[((0, 2), 1)]] 9 2 true (by decide) (by decide)
/-- XY²+1 ↦ 1 modulo ⟨Y²⟩; an erroneous source stays erroneous -/
example : (embedQOp env5q sX [[((0, 2), 1)]] 9 5 true).2 = "ok 3#0:0:1" := by decide
example : (embedQOp env5q sX [[((0, 2), 1)]] 9 5 false).2 = "ok 3#1:2:1/0:0:1" := by decide
example : (embedQOp env5q sX [[((0, 2), 1)]] 9 2 true).2 = "ok !Parsing" := by decide

-- `escr`, `tcheck`
example : (escrOp env5q sX 0).2 = "ok 5" := by decide
example : (tcheckOp env9 {} 0).2 = "ok 0 of 9" := by decide

-- taint
example : TaintedB sX 2 := ⟨_, rfl, rfl⟩
example : TaintedU sX 1 := ⟨_, rfl, rfl⟩
example := ireduce_keeps_taint env5q sX 0 2 2 ⟨_, rfl, rfl⟩
example := uireduce_keeps_taint env5q sX 0 1 1 [[1, 0, 1]] ⟨_, rfl, rfl⟩
example := spoly_keeps_taint env5q sX 9 0 1 2 (by decide) ⟨_, rfl, rfl⟩
example := embedQ_keeps_taint env5q sX [[((0, 2), 1)]] 9 5 true 2 (by decide) ⟨_, rfl, rfl⟩

end Algobra.C17Extra
