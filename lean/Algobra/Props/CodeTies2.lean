/-
  Props/CodeTies2.lean — second batch of equivalence theorems between the MACHINE-TRANSLATED Go code
  (`Algobra/Gen/Code.lean`, regenerated on every run from the Go working tree by
  /verif/extract/translate.go) and the hand-written model (Model/Field.lean, Model/Auxmath.lean).

  Subject: `auxmath.FactorizePrimePower` (whole function, section 9) and the ARITHMETIC CORES of eight methods, translated from the first arithmetic statement to the end
  of the method body ("suffix extraction" of translate.go; the prefix of each method is the type
  assertion / error / compatibility checking that the model expresses elsewhere):
    primefield  (*Element).Add, Sub, Prod, SetNeg, Inv   (*Field).ElementFromSigned
    binfield    (*Element).Add, Prod
  Receiver / field selectors are extra parameters of the translated functions, pointer tests
  (`a.field.addTable != nil`) are Bool parameters, table look-ups and helper methods are uninterpreted
  function parameters, `IsZero()` observations are Bool parameters.

  Each theorem says: on all word-sized arguments (hypotheses only where the proof needs them) the translated
  core equals the model operation (`Prime.add` … `Bin.mul`, the fields of `primeOps`).  An edit of the
  Go source that changes the behaviour of one of these statements changes `Gen/Code.lean` and the
  corresponding theorem stops compiling.

  All proofs are in Proofs/CodeTies2.lean (core Lean + the model, no Mathlib).
-/
import Algobra.Proofs.CodeTies2
import Algobra.Model.Ext

namespace Algobra
namespace CodeTies2
open Algobra Algobra.Gen.Code

/-! ### 7. binfield `(*Element).Add`: `a.val ^= bb.val` -/

/-- for all naturals -/
theorem bin_add_tie (a b : Nat) : go_binfield_Element_Add_core a b = a ^^^ b :=
  CodeTies2Proofs.bin_add a b

/-- the same as the `add` field of `binOps` (Model/Ext.lean) -/
theorem bin_add_tie_ops (n m : Nat) (v : String) (a b : Nat) :
    go_binfield_Element_Add_core a b = (binOps n m v).add a b := rfl

example : go_binfield_Element_Add_core 6 3 = 5 := by decide

/-! ### 1. primefield `(*Element).Add` -/

/-- without an addition table (`a.field.addTable == nil`): `(a.val + bb.val) % a.field.Char()`;
    for all naturals (both sides truncate the sum in the same place) -/
theorem prime_add_tie (a b : Nat) (lookup : Nat → Nat → Nat) (p : Nat) :
    go_primefield_Element_Add_core a b lookup p false = Prime.add p a b :=
  CodeTies2Proofs.prime_add a b lookup p

/-- the same as the `add` field of `primeOps` -/
theorem prime_add_tie_ops (a b : Nat) (lookup : Nat → Nat → Nat) (p : Nat) :
    go_primefield_Element_Add_core a b lookup p false = (primeOps p).add a b :=
  CodeTies2Proofs.prime_add a b lookup p

/-- with a table the result is whatever the table returns (`C01Prime.lookup_addTable`: for the table
    built by `newTable p (Prime.add p)` and `a, b < p` that is `Prime.add p a b`) -/
theorem prime_add_table_tie (a b : Nat) (lookup : Nat → Nat → Nat) (p : Nat) :
    go_primefield_Element_Add_core a b lookup p true = lookup a b :=
  CodeTies2Proofs.prime_add_table a b lookup p

example : go_primefield_Element_Add_core 5 4 (fun _ _ => 99) 7 false = 2 := by decide
example : go_primefield_Element_Add_core 5 4 (fun _ _ => 99) 7 true = 99 := by decide
example : go_primefield_Element_Add_core 5 4
    (Prime.lookup (Prime.newTable 7 (Prime.add 7))) 7 true = 2 := by decide

/-! ### 3. primefield `(*Element).Prod` — `bb.IsZero()` observes `bb.val == 0` -/

/-- without a multiplication table; for all naturals; the receiver's old value `a` is irrelevant -/
theorem prime_prod_tie (a b c : Nat) (lookup : Nat → Nat → Nat) (p : Nat) :
    go_primefield_Element_Prod_core a b c lookup p false (decide (b = 0)) (decide (c = 0))
      = Prime.mul p b c :=
  CodeTies2Proofs.prime_prod a b c lookup p

/-- with a table and both factors non-zero the result is the table entry -/
theorem prime_prod_table_tie (a b c : Nat) (lookup : Nat → Nat → Nat) (p : Nat)
    (hb : b ≠ 0) (hc : c ≠ 0) :
    go_primefield_Element_Prod_core a b c lookup p true (decide (b = 0)) (decide (c = 0))
      = lookup b c :=
  CodeTies2Proofs.prime_prod_table a b c lookup p hb hc

/-- a zero factor gives 0 with or without a table (the table is not consulted) -/
theorem prime_prod_zero_tie (a b c : Nat) (lookup : Nat → Nat → Nat) (p : Nat) (t : Bool)
    (h : b = 0 ∨ c = 0) :
    go_primefield_Element_Prod_core a b c lookup p t (decide (b = 0)) (decide (c = 0)) = 0 :=
  CodeTies2Proofs.prime_prod_table_zero a b c lookup p t h

example : (3 : Nat) ≠ 0 ∧ (5 : Nat) ≠ 0 := by decide
example : go_primefield_Element_Prod_core 1 3 5 (fun _ _ => 99) 7 false false false = 1 := by decide
example : go_primefield_Element_Prod_core 1 3 5 (fun _ _ => 99) 7 true false false = 99 := by decide
example : go_primefield_Element_Prod_core 1 0 5 (fun _ _ => 99) 7 true true false = 0 := by decide

/-! ### 2. primefield `(*Element).Sub` -/

/-- `a < 2^64` is needed in the branch `a ≥ b` (model: `a - b`, code: `wsub a b`), `b ≤ p` in the branch
    `a < b` (model: `w64 (a + (p - b))` with truncated subtraction, code: `w64 (a + wsub p b)`);
    `b < 2^64` and `p < 2^64` are NOT needed. -/
theorem prime_sub_tie {a b p : Nat} (ha : a < 2 ^ 64) (hb : b ≤ p) :
    go_primefield_Element_Sub_core a b p = Prime.sub p a b :=
  CodeTies2Proofs.prime_sub (fun _ => ha) (fun _ => hb)

/-- sharpest form: each hypothesis only in the branch that uses it -/
theorem prime_sub_tie' {a b p : Nat} (ha : a ≥ b → a < 2 ^ 64) (hb : a < b → b ≤ p) :
    go_primefield_Element_Sub_core a b p = Prime.sub p a b :=
  CodeTies2Proofs.prime_sub ha hb

example : (2 : Nat) < 2 ^ 64 ∧ (5 : Nat) ≤ 7 := by decide
example : go_primefield_Element_Sub_core 2 5 7 = 4 := by decide
example : go_primefield_Element_Sub_core 5 2 7 = 3 := by decide
/-- the hypothesis `b ≤ p` cannot be dropped: for a subtrahend above the characteristic (never the
    case for a field element) the code wraps where the model's `p - b` truncates to 0 -/
example : go_primefield_Element_Sub_core 2 9 7 = 0 ∧ Prime.sub 7 2 9 = 2 := by decide

/-! ### 4. primefield `(*Element).SetNeg` -/

theorem prime_setneg_tie {a p : Nat} (ha : a ≤ p) (hp : p < 2 ^ 64) :
    go_primefield_Element_SetNeg_core a p = Prime.neg p a :=
  CodeTies2Proofs.prime_setneg ha hp

example : (3 : Nat) ≤ 7 ∧ (7 : Nat) < 2 ^ 64 := by decide
example : go_primefield_Element_SetNeg_core 3 7 = 4 := by decide
example : go_primefield_Element_SetNeg_core 0 7 = 0 := by decide
/-- `a ≤ p` cannot be dropped (never violated by a field element): the code wraps, the model truncates -/
example : go_primefield_Element_SetNeg_core 8 7 = 1 ∧ Prime.neg 7 8 = 0 := by decide
/-- `p < 2^64` cannot be dropped for naturals that are not words -/
example : go_primefield_Element_SetNeg_core 0 (2 ^ 64 + 1) = 1 ∧ Prime.neg (2 ^ 64 + 1) 0 = 0 := by
  decide

/-! ### 5. primefield `(*Field).ElementFromSigned` -/

/-- for a characteristic below `2^63` (so that `int(f.char)` is `f.char`; `Define` guarantees
    `p - 1 < 2^32`) and a Go `int` argument -/
theorem prime_fromSigned_tie {p : Nat} (hp : p < 2 ^ 63) {v : Int}
    (hv : -(2 ^ 63) ≤ v ∧ v < 2 ^ 63) :
    go_primefield_Field_ElementFromSigned_core p (Prime.element p) v = Prime.fromSigned p v :=
  CodeTies2Proofs.prime_fromSigned hp v (Or.inr hv)

/-- for `0 < p` no range hypothesis on the argument is needed (`|v % p| < p`, so `val + p` cannot wrap) -/
theorem prime_fromSigned_tie' {p : Nat} (hp : p < 2 ^ 63) (hp0 : 0 < p) (v : Int) :
    go_primefield_Field_ElementFromSigned_core p (Prime.element p) v = Prime.fromSigned p v :=
  CodeTies2Proofs.prime_fromSigned hp v (Or.inl hp0)

/-- the same as the `ofInt` field of `primeOps` -/
theorem prime_fromSigned_tie_ops {p : Nat} (hp : p < 2 ^ 63) (hp0 : 0 < p) (v : Int) :
    go_primefield_Field_ElementFromSigned_core p (primeOps p).ofNat v = (primeOps p).ofInt v :=
  CodeTies2Proofs.prime_fromSigned hp v (Or.inl hp0)

example : (7 : Nat) < 2 ^ 63 ∧ (-(2 ^ 63) ≤ (-10 : Int) ∧ (-10 : Int) < 2 ^ 63) := by decide
example : go_primefield_Field_ElementFromSigned_core 7 (Prime.element 7) (-10) = 4 := by decide
example : go_primefield_Field_ElementFromSigned_core 7 (Prime.element 7) 10 = 3 := by decide
/-- `p < 2^63` cannot be dropped on words: for a characteristic with the top bit set `int(f.char)` is
    negative in the code while the model takes `Int.ofNat p` (harmless: `Define` refuses `p - 1 ≥ 2^32`) -/
example : go_primefield_Field_ElementFromSigned_core (2 ^ 64 - 1) (Prime.element (2 ^ 64 - 1)) (-1) = 0
    ∧ Prime.fromSigned (2 ^ 64 - 1) (-1) = 2 ^ 64 - 2 := by decide +kernel

/-! ### 8. binfield `(*Element).Prod` -/

/-- parameter order of the translated function: `a.val`, `bb.val`, `cc.val`, `a.field.extDeg`,
    `a.field.conwayPoly`.  The receiver's old value `a` is irrelevant; only `b < 2^64` is needed (the
    loop makes `bitLen b` rounds); `c`, `n`, `m` are arbitrary: both sides truncate in the same places. -/
theorem bin_prod_tie (a : Nat) {b : Nat} (c n m : Nat) (hb : b < 2 ^ 64) :
    go_binfield_Element_Prod_core a b c n m = Bin.mul n m b c :=
  CodeTies2Proofs.bin_prod a c n m hb

/-- the same as the `mul` field of `binOps` -/
theorem bin_prod_tie_ops (v : String) (a : Nat) {b : Nat} (c n m : Nat) (hb : b < 2 ^ 64) :
    go_binfield_Element_Prod_core a b c n m = (binOps n m v).mul b c :=
  CodeTies2Proofs.bin_prod a c n m hb

example : (6 : Nat) < 2 ^ 64 := by decide
example : go_binfield_Element_Prod_core 1 6 7 3 11 = 4 := by decide
example : Bin.mul 3 11 6 7 = 4 := by rw [← bin_prod_tie 1 7 3 11 (by decide)]; decide

/-! ### 6. primefield `(*Element).Inv` -/

/-- the translated core (extended Euclid loop with `r0 - q*r1` on wrapping words, then the helper
    `ElementFromSigned`, here an arbitrary function `F`) runs the model's `Prime.invLoop` (which writes
    `r0 % r1`).  Only word bounds are needed: `loopFuel` suffices because the product `r0 * r1` at least
    halves per round once `r1 ≤ r0` (at most 130 rounds on words). -/
theorem prime_inv_loop_tie {p a : Nat} (hp : p < 2 ^ 64) (ha : a < 2 ^ 64) (F : Int → Nat) :
    go_primefield_Element_Inv_core p a F = F (Prime.invLoop p a 0 1) :=
  CodeTies2Proofs.prime_inv_gen hp ha F

/-- for a non-zero word `a` (the zero case is the InputValue error of the method's prefix, `none` in the
    model) the model's `Inv` is the translated core with the model's `ElementFromSigned`;
    `a < p`, `p` prime are not needed for the equality -/
theorem prime_inv_tie {p a : Nat} (hp : p < 2 ^ 64) (ha : a < 2 ^ 64) (h0 : a ≠ 0) :
    Prime.inv p a = some (go_primefield_Element_Inv_core p a (Prime.fromSigned p)) :=
  CodeTies2Proofs.prime_inv hp ha h0

/-- both cores composed: the helper is the translated `ElementFromSigned` core itself
    (`0 < p < 2^63` for that tie) -/
theorem prime_inv_tie_composed {p a : Nat} (hp : p < 2 ^ 63) (hp0 : 0 < p) (ha : a < 2 ^ 64)
    (h0 : a ≠ 0) :
    Prime.inv p a = some (go_primefield_Element_Inv_core p a
      (go_primefield_Field_ElementFromSigned_core p (Prime.element p))) := by
  have h : go_primefield_Field_ElementFromSigned_core p (Prime.element p) = Prime.fromSigned p := by
    funext v; exact prime_fromSigned_tie' hp hp0 v
  rw [h]
  exact prime_inv_tie (Nat.lt_trans hp (by decide)) ha h0

example : (7 : Nat) < 2 ^ 64 ∧ (3 : Nat) < 2 ^ 64 ∧ (3 : Nat) ≠ 0 := by decide
example : go_primefield_Element_Inv_core 7 3 (Prime.fromSigned 7) = 5 := by decide
example : Prime.inv 7 3 = some 5 := by
  rw [prime_inv_tie (by decide) (by decide) (by decide)]; decide
example : Prime.inv 65521 2 = some 32761 := by
  rw [prime_inv_tie (by decide) (by decide) (by decide)]; decide +kernel

/-! ### 9. `auxmath.FactorizePrimePower` -/

/-- the whole function on every word: value `(p, n)` with a nil error, or `(0, 0)` with the error kind.
    (The translator duplicates the continuation of the `if q%2 == 0 … else if q%3 == 0 …` statement, so
    the translated function contains three copies of the scan loop and of the divide-out loop; they are
    shown equal.)  Scan loop `for k := 6; p == 0 && k-1 <= maxP; k += 6` vs `Auxmath.fppScan`:
    `maxP = BoundSqrt q ≤ 2^32`, so `k ≤ 2^32 + 7` and neither `k - 1` nor `k + 6` wraps, and at most
    `2^32 + 1 ≤ loopFuel` rounds happen.  Divide-out loop `for q > 1` vs `Auxmath.fppDivide`: `p ≥ 2`
    (2, 3, or a scan result `≥ 5`), `n + q` does not increase, so `n + 1` does not wrap and at most 64
    rounds happen; the early `return 0, 0, InputValue` inside the loop is the model's `none`. -/
theorem fpp_tie {q : Nat} (hq : q < 2 ^ 64) :
    go_auxmath_FactorizePrimePower q =
      match Auxmath.factorizePrimePower q with
      | .ok (p, n) => (p, n, none)
      | .error k => (0, 0, some k) := CodeTies2Proofs.fpp hq

/-- scan loop alone (`_loop3`, `_loop5` are literally the same function) -/
theorem fpp_scan_tie (maxP q : Nat) (hm : maxP + 7 < 2 ^ 64) :
    (go_auxmath_FactorizePrimePower_loop1 maxP q loopFuel (6, 0)).2 = Auxmath.fppScan q maxP 6 :=
  CodeTies2Proofs.fpp_scan_loop maxP q hm loopFuel 6 (by decide) (by decide)
    (by rw [CodeTies2Proofs.loopFuel_eq]; omega)

theorem fpp_scan_copies :
    go_auxmath_FactorizePrimePower_loop3 = go_auxmath_FactorizePrimePower_loop1 ∧
    go_auxmath_FactorizePrimePower_loop5 = go_auxmath_FactorizePrimePower_loop1 ∧
    go_auxmath_FactorizePrimePower_loop4 = go_auxmath_FactorizePrimePower_loop2 ∧
    go_auxmath_FactorizePrimePower_loop6 = go_auxmath_FactorizePrimePower_loop2 :=
  ⟨CodeTies2Proofs.fpp_loop3_eq, CodeTies2Proofs.fpp_loop5_eq, CodeTies2Proofs.fpp_loop4_eq,
    CodeTies2Proofs.fpp_loop6_eq⟩

/-- divide-out loop alone, from `n = 0`: the early-return slot if set, else `(p, n, nil)` -/
theorem fpp_divide_tie {p q : Nat} (hp : 2 ≤ p) (hq : q < 2 ^ 64) :
    CodeTies2Proofs.fppResult p (go_auxmath_FactorizePrimePower_loop2 p loopFuel (0, q, none))
      = match Auxmath.fppDivide q p 0 with
        | some n' => (p, n', none)
        | none => (0, 0, some Kind.inputValue) :=
  CodeTies2Proofs.fpp_divide_loop hp loopFuel 0 q (CodeTiesProofs.lt_two_pow_fuel hq) (by omega)

example : (343 : Nat) < 2 ^ 64 := by decide
example : go_auxmath_FactorizePrimePower 343 = (7, 3, none) := by decide +kernel
example : go_auxmath_FactorizePrimePower 64 = (2, 6, none) := by decide +kernel
example : go_auxmath_FactorizePrimePower 35 = (0, 0, some Kind.inputValue) := by decide +kernel
example : go_auxmath_FactorizePrimePower 1 = (0, 0, some Kind.inputValue) := by decide +kernel
example : go_auxmath_FactorizePrimePower 65521 = (65521, 1, none) := by decide +kernel

end CodeTies2
end Algobra
