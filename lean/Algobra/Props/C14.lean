/-
  Props/C14.lean — property C14 (Lagrange interpolation), model functions
  `Algobra.UPoly.{coefK, ignoreIndex, lagrangeBasis, allDistinct, interpolate}` (Model/UPoly.lean,
  Go: /repo/univariate/interpolation.go) and `Algobra.BPoly.{lagrangeBasis, interpolate, …}`.

  Setting: `L : Lawful F K` — the coefficient record `F : FOps α` implements the field `K` on its
  valid representations (Proofs/Lawful.lean; lawfulness of the concrete records is C01/C02).
  Two further facts about the record are used, as explicit named hypotheses:
    `hone   : L.valid (F.ofNat 1) ∧ L.embed (F.ofNat 1) = 1`   (`SetUnsigned(1)` is the one of the field;
                                                                it follows from `F.ofNat 1 = F.one`),
    `htoStr : ∀ a b, L.valid a → L.valid b → (F.toStr a = F.toStr b ↔ a = b)`
                                                               (printing is injective on valid elements).
  "Pairwise distinct" is `points.Nodup` (= `points.Pairwise (· ≠ ·)`).

  Contents: 1. `coefK_spec` (Vieta), 2. `ignoreIndex_spec`, `lagrangeBasis_spec`, 3. `interpolate_spec`,
  `interpolate_samples`, `interpolate_eval`, 4. error cases and `allDistinct_iff`,
  5. bivariate (ring without ideal): `bivariate_interpolate_spec`, `bivariate_interpolate_eval`, error cases;
  the quotient-ring case is left as `bivariate_interpolate_quotient_full` (not proved).
  Remark on 5: Go's `distinct` lists the distinct coordinates in map-iteration (unspecified) order, the
  model in order of first occurrence; the theorem uses only that the list is repetition-free with the
  right members, and the denoted polynomial depends only on that set.
-/
import Algobra.Proofs.Interp
import Algobra.Proofs.PrimeField

namespace Algobra.C14
open Polynomial Algobra Algobra.UPoly

variable {α : Type} {F : FOps α} {K : Type} [Field K] (L : Lawful F K)

/-- `F.ofNat 1 = F.one` gives the form of `hone` used below -/
theorem hone_of_eq (h : F.ofNat 1 = F.one) : L.valid (F.ofNat 1) ∧ L.embed (F.ofNat 1) = 1 := by
  rw [h]; exact ⟨L.one_valid, L.embed_one⟩

/-! ### 1. `coefK` (Vieta) -/

/-- `coefK(points, idx, k)` is the coefficient of `X^k` in the numerator
    `∏_{j ≠ idx} (X - p_j)` of the Lagrange basis polynomial. -/
theorem coefK_spec {points : List α} (hp : ∀ p ∈ points, L.valid p)
    (hone : L.valid (F.ofNat 1) ∧ L.embed (F.ofNat 1) = 1) {idx k : ℕ}
    (hidx : idx < points.length) (hk : k < points.length) :
    L.valid (coefK F points idx k) ∧
    L.embed (coefK F points idx k) =
      (∏ j ∈ (Finset.range points.length).erase idx,
        (X - C (L.embed (points.getD j F.zero)))).coeff k :=
  Interp.coefK_spec L hp hone hidx hk

/-! ### 2. `lagrangeBasis` -/

/-- the index search finds the position of `ignore` when it occurs exactly once -/
theorem ignoreIndex_spec {points : List α} (hp : ∀ p ∈ points, L.valid p) (hnd : points.Nodup)
    {idx : ℕ} (hidx : idx < points.length) :
    ignoreIndex F points points[idx] = idx := by
  refine Interp.ignoreIndex_spec L points _ hp (hp _ (List.getElem_mem hidx)) hidx
    (List.getD_eq_getElem _ _ hidx) ?_
  intro j hj hje
  rw [List.getD_eq_getElem _ _ hj] at hje
  exact (hnd.getElem_inj_iff).1 hje

/-- For pairwise distinct valid points, `lagrangeBasis(points, points[idx])` is well-formed and denotes
    `(∏_{j≠idx} (p_idx - p_j))⁻¹ · ∏_{j≠idx} (X - p_j)`, i.e. Mathlib's `Lagrange.basis`; it takes the
    value 1 at `p_idx`, 0 at every other point, and has degree `n - 1 < n`. -/
theorem lagrangeBasis_spec {points : List α} (hp : ∀ p ∈ points, L.valid p)
    (hone : L.valid (F.ofNat 1) ∧ L.embed (F.ofNat 1) = 1) (hnd : points.Nodup) {idx : ℕ}
    (hidx : idx < points.length) :
    let e : ℕ → K := fun j => L.embed (points.getD j F.zero)
    let b := toPoly L (lagrangeBasis F points points[idx])
    WF L (lagrangeBasis F points points[idx]) ∧
    b = C (∏ j ∈ (Finset.range points.length).erase idx, (e idx - e j))⁻¹ *
          ∏ j ∈ (Finset.range points.length).erase idx, (X - C (e j)) ∧
    b = Lagrange.basis (Finset.range points.length) e idx ∧
    b.eval (L.embed points[idx]) = 1 ∧
    (∀ j (hj : j < points.length), j ≠ idx → b.eval (L.embed points[j]) = 0) ∧
    b.degree < points.length := by
  intro e b
  have h1 := Interp.lagrangeBasis_spec L hp hone hnd hidx
  have h2 := Interp.lagrangeBasis_eq_basis L hp hone hnd hidx
  have hinj := Interp.pt_injOn L hp hnd
  rw [List.getD_eq_getElem _ _ hidx] at h1 h2
  have hmem : idx ∈ Finset.range points.length := Finset.mem_range.2 hidx
  have he : ∀ j (hj : j < points.length), L.embed points[j] = e j := fun j hj => by
    simp only [e, List.getD_eq_getElem _ _ hj]
  refine ⟨h1.1, h1.2, h2, ?_, ?_, ?_⟩
  · rw [he idx hidx]
    show (toPoly L _).eval _ = 1
    rw [h2]
    exact Lagrange.eval_basis_self hinj hmem
  · intro j hj hne
    rw [he j hj]
    show (toPoly L _).eval _ = 0
    rw [h2]
    exact Lagrange.eval_basis_of_ne (Ne.symm hne) (Finset.mem_range.2 hj)
  · show (toPoly L _).degree < _
    rw [h2, Lagrange.degree_basis hinj hmem, Finset.card_range]
    exact_mod_cast Nat.sub_lt (by omega) Nat.one_pos

/-! ### 4. error cases and the distinctness test -/

/-- lists of different length: InputValue error -/
theorem interpolate_length_error (points values : List α) (h : points.length ≠ values.length) :
    interpolate F points values = .error .inputValue := by
  unfold interpolate; rw [if_pos h]

/-- a repeated point: InputValue error (equal points print equally; no further hypothesis) -/
theorem interpolate_repeated_error (points values : List α) (h : ¬ points.Nodup) :
    interpolate F points values = .error .inputValue := by
  unfold interpolate
  split
  · rfl
  · have : allDistinct F points = false := by
      rw [← Bool.not_eq_true, Interp.allDistinct_iff]
      exact fun hn => h (List.Nodup.of_map _ hn)
    simp [this]

/-- the distinctness test `allDistinct` accepts exactly the pairwise distinct lists of valid points -/
theorem allDistinct_iff {points : List α} (hp : ∀ p ∈ points, L.valid p)
    (htoStr : ∀ a b, L.valid a → L.valid b → (F.toStr a = F.toStr b ↔ a = b)) :
    allDistinct F points = true ↔ points.Nodup :=
  Interp.allDistinct_iff_nodup L hp htoStr

/-- the only error of `Interpolate` is InputValue -/
theorem interpolate_error_kind (points values : List α) {k : Kind}
    (h : interpolate F points values = .error k) : k = .inputValue := by
  unfold interpolate at h
  split at h
  · cases h; rfl
  · split at h
    · cases h; rfl
    · cases h

/-! ### 3. `Interpolate` -/

/-- what `Interpolate` returns on accepted input -/
theorem interpolate_ok {points values : List α} (hlen : points.length = values.length)
    (hd : allDistinct F points = true) :
    interpolate F points values = .ok ((points.zip values).foldl (fun f (p, v) =>
      if F.isZero v then f else add F f (scale F (lagrangeBasis F points p) v)) (zero F)) := by
  unfold interpolate
  rw [if_neg (by simpa using hlen), hd]
  rfl

/-- Main theorem. For pairwise distinct valid points and equally many valid values `Interpolate` succeeds;
    its result `f` is well-formed, denotes Mathlib's Lagrange interpolant, takes the prescribed value at
    every point (in `K[X]`, and for the model's own `Eval`), has degree below the number of points, and is
    the unique polynomial with these two properties. -/
theorem interpolate_spec {points values : List α} (hp : ∀ p ∈ points, L.valid p)
    (hv : ∀ v ∈ values, L.valid v) (hone : L.valid (F.ofNat 1) ∧ L.embed (F.ofNat 1) = 1)
    (htoStr : ∀ a b, L.valid a → L.valid b → (F.toStr a = F.toStr b ↔ a = b))
    (hnd : points.Nodup) (hlen : points.length = values.length) :
    ∃ f, interpolate F points values = .ok f ∧ WF L f ∧
      toPoly L f = Lagrange.interpolate (Finset.range points.length)
        (fun j => L.embed (points.getD j F.zero)) (fun i => L.embed (values.getD i F.zero)) ∧
      (∀ i (hi : i < points.length) (hi' : i < values.length),
        (toPoly L f).eval (L.embed points[i]) = L.embed values[i] ∧
        UPoly.eval F f points[i] = values[i]) ∧
      (toPoly L f).degree < points.length ∧
      ∀ g : K[X], g.degree < points.length →
        (∀ i (hi : i < points.length) (hi' : i < values.length),
          g.eval (L.embed points[i]) = L.embed values[i]) → g = toPoly L f := by
  have hinj := Interp.pt_injOn L hp hnd
  obtain ⟨h1, h2⟩ := Interp.interp_fold L hp hv hone hnd hlen points.length le_rfl
  rw [List.take_of_length_le (by simp [hlen])] at h1 h2
  obtain ⟨f, hok, h1, h2⟩ : ∃ f, interpolate F points values = .ok f ∧ WF L f ∧
      toPoly L f = ∑ i ∈ Finset.range points.length, C (L.embed (values.getD i F.zero)) *
        Lagrange.basis (Finset.range points.length) (Interp.pt L points) i :=
    ⟨_, interpolate_ok hlen ((allDistinct_iff L hp htoStr).2 hnd), h1, h2⟩
  refine ⟨f, hok, h1, ?_, ?_, ?_, ?_⟩
  · rw [h2]; rfl
  · intro i hi hi'
    have hev : (toPoly L f).eval (L.embed points[i]) = L.embed values[i] := by
      rw [h2]
      have := Lagrange.eval_interpolate_at_node (v := Interp.pt L points)
        (fun i => L.embed (values.getD i F.zero)) hinj (Finset.mem_range.2 hi)
      rw [Lagrange.interpolate_apply] at this
      rw [Interp.pt, List.getD_eq_getElem _ _ hi] at this
      rw [this, List.getD_eq_getElem _ _ hi']
    refine ⟨hev, ?_⟩
    have hpi := hp _ (List.getElem_mem hi)
    refine L.inj _ _ (UPoly.eval_valid L h1.1 hpi) (hv _ (List.getElem_mem hi')) ?_
    rw [UPoly.eval_spec L h1.1 hpi, hev]
  · rw [h2]
    have := Lagrange.degree_interpolate_lt (v := Interp.pt L points)
      (fun i => L.embed (values.getD i F.zero)) hinj
    rw [Lagrange.interpolate_apply, Finset.card_range] at this
    exact this
  · intro g hg hgv
    rw [h2]
    have := Lagrange.eq_interpolate_of_eval_eq (v := Interp.pt L points) (f := g)
      (fun i => L.embed (values.getD i F.zero)) hinj (by rw [Finset.card_range]; exact hg)
      (fun i hi => by
        have hi1 := Finset.mem_range.1 hi
        have := hgv i hi1 (by omega)
        rw [Interp.pt, List.getD_eq_getElem _ _ hi1, this, List.getD_eq_getElem _ _ (by omega)])
    rw [this, Lagrange.interpolate_apply]

/-- Interpolating the samples of a polynomial `g` of degree below the number of points returns `g`. -/
theorem interpolate_samples {points values : List α} (hp : ∀ p ∈ points, L.valid p)
    (hv : ∀ v ∈ values, L.valid v) (hone : L.valid (F.ofNat 1) ∧ L.embed (F.ofNat 1) = 1)
    (htoStr : ∀ a b, L.valid a → L.valid b → (F.toStr a = F.toStr b ↔ a = b))
    (hnd : points.Nodup) (hlen : points.length = values.length)
    (g : K[X]) (hg : g.degree < points.length)
    (hs : ∀ i (hi : i < points.length) (hi' : i < values.length),
      L.embed values[i] = g.eval (L.embed points[i])) :
    ∃ f, interpolate F points values = .ok f ∧ WF L f ∧ toPoly L f = g := by
  obtain ⟨f, h1, h2, _, _, _, h6⟩ := interpolate_spec L hp hv hone htoStr hnd hlen
  exact ⟨f, h1, h2, (h6 g hg fun i hi hi' => (hs i hi hi').symm).symm⟩

/-- the same at the level of the model: interpolating the values `Eval(g, p_i)` of a well-formed model
    polynomial `g` with fewer coefficients than points returns `g` itself -/
theorem interpolate_eval {points : List α} (hp : ∀ p ∈ points, L.valid p)
    (hone : L.valid (F.ofNat 1) ∧ L.embed (F.ofNat 1) = 1)
    (htoStr : ∀ a b, L.valid a → L.valid b → (F.toStr a = F.toStr b ↔ a = b))
    (hnd : points.Nodup) {g : UPoly α} (hg : WF L g) (hgl : g.length ≤ points.length) :
    interpolate F points (points.map (UPoly.eval F g)) = .ok g := by
  have hv : ∀ v ∈ points.map (UPoly.eval F g), L.valid v := by
    intro v hv
    obtain ⟨p, hp', rfl⟩ := List.mem_map.1 hv
    exact UPoly.eval_valid L hg.1 (hp p hp')
  have hdeg : (toPoly L g).degree < points.length := by
    by_cases h0 : toPoly L g = 0
    · rw [h0, degree_zero]
      exact WithBot.bot_lt_coe _
    · rw [UPoly.degree_toPoly L hg h0]
      have := UPoly.WF.length_pos L hg
      unfold ld
      exact_mod_cast (by omega : g.length - 1 < points.length)
  obtain ⟨f, h1, h2, h3⟩ := interpolate_samples L hp hv hone htoStr hnd (by simp) (toPoly L g) hdeg
    (fun i hi hi' => by
      rw [List.getElem_map, UPoly.eval_spec L hg.1 (hp _ (List.getElem_mem hi))])
  rw [h1, UPoly.toPoly_injective_on_WF L h2 hg h3]

/-! ### 5. bivariate `Interpolate` (ring without ideal) -/

section Bivariate
variable {β : Type}

/-- lists of different length: InputValue error -/
theorem bivariate_length_error (R : BPoly.Ring β) (points : List (β × β)) (values : List β)
    (h : points.length ≠ values.length) :
    BPoly.interpolate R points values = .error .inputValue := by
  rw [Interp.interpolate_eq, if_pos h]

/-- a repeated point of the plane: InputValue error -/
theorem bivariate_repeated_error (R : BPoly.Ring β) (points : List (β × β)) (values : List β)
    (h : ¬ points.Nodup) : BPoly.interpolate R points values = .error .inputValue := by
  rw [Interp.interpolate_eq]
  split
  · rfl
  · have : BPoly.allDistinct R.F points = false := by
      rw [← Bool.not_eq_true, Interp.ballDistinct_iff]
      exact fun hn => h (List.Nodup.of_map _ hn)
    simp [this]

/-- the distinctness test accepts exactly the pairwise distinct lists of valid points of the plane -/
theorem bivariate_allDistinct_iff {G : FOps β} (L : Lawful G K) {points : List (β × β)}
    (hp : ∀ p ∈ points, L.valid p.1 ∧ L.valid p.2)
    (htoStr : ∀ a b, L.valid a → L.valid b → (G.toStr a = G.toStr b ↔ a = b)) :
    BPoly.allDistinct G points = true ↔ points.Nodup :=
  Interp.ballDistinct_iff_nodup L hp htoStr

/-- Main bivariate theorem (polynomial ring without ideal). For pairwise distinct valid points of the plane
    (fewer than `2^64`, the range of a Go slice length) and equally many valid values, `Interpolate`
    succeeds — no Overflow, no InputValue; the result is well-formed, takes the prescribed value at every
    point (`BPoly.evalHom x y` is the evaluation homomorphism `K[X,Y] → K`), and every exponent pair
    `(a, b)` of the result has `a <` the number of distinct abscissae and `b <` the number of distinct
    ordinates: `dx`/`dy` are the repetition-free lists of the abscissae/ordinates that occur. -/
theorem bivariate_interpolate_spec {R : BPoly.Ring β} (hR : R.ideal = none) (L : Lawful R.F K)
    {points : List (β × β)} {values : List β}
    (hp : ∀ p ∈ points, L.valid p.1 ∧ L.valid p.2) (hv : ∀ v ∈ values, L.valid v)
    (hone : L.valid (R.F.ofNat 1) ∧ L.embed (R.F.ofNat 1) = 1)
    (htoStr : ∀ a b, L.valid a → L.valid b → (R.F.toStr a = R.F.toStr b ↔ a = b))
    (hnd : points.Nodup) (hlen : points.length = values.length)
    (hsize : points.length < 2 ^ 64) :
    let dx := BPoly.distinctStrs R.F (points.map (·.1))
    let dy := BPoly.distinctStrs R.F (points.map (·.2))
    ∃ f, BPoly.interpolate R points values = .ok (some f) ∧ BPoly.WF L f ∧
      (∀ i (hi : i < points.length) (hi' : i < values.length),
        BPoly.evalHom (L.embed points[i].1) (L.embed points[i].2) (BPoly.toMv L f) =
          L.embed values[i]) ∧
      (∀ d, (BPoly.toMv L f).coeff d ≠ 0 → d.1 < dx.length ∧ d.2 < dy.length) ∧
      BPoly.KeysIn (fun d => d.1 < dx.length ∧ d.2 < dy.length) f ∧
      (dx.Nodup ∧ ∀ a, a ∈ dx ↔ ∃ p ∈ points, p.1 = a) ∧
      (dy.Nodup ∧ ∀ a, a ∈ dy ↔ ∃ p ∈ points, p.2 = a) := by
  intro dx dy
  have hxs : ∀ x ∈ points.map (·.1), L.valid x := by
    intro x hx; obtain ⟨p, hp', rfl⟩ := List.mem_map.1 hx; exact (hp p hp').1
  have hys : ∀ y ∈ points.map (·.2), L.valid y := by
    intro y hy; obtain ⟨p, hp', rfl⟩ := List.mem_map.1 hy; exact (hp p hp').2
  obtain ⟨dxn, dxm, dxl⟩ := Interp.distinctStrs_spec L htoStr _ hxs
  obtain ⟨dyn, dym, dyl⟩ := Interp.distinctStrs_spec L htoStr _ hys
  rw [List.length_map] at dxl dyl
  have hdx : ∀ a ∈ dx, L.valid a := fun a ha => hxs a ((dxm a).1 ha)
  have hdy : ∀ a ∈ dy, L.valid a := fun a ha => hys a ((dym a).1 ha)
  have hpx : ∀ p ∈ points, p.1 ∈ dx := fun p hp' => (dxm _).2 (List.mem_map.2 ⟨p, hp', rfl⟩)
  have hpy : ∀ p ∈ points, p.2 ∈ dy := fun p hp' => (dym _).2 (List.mem_map.2 ⟨p, hp', rfl⟩)
  obtain ⟨f, h0, h1, h2, h3⟩ := Interp.binterp_fold hR L hdx dxn hdy dyn hone
    (lt_of_le_of_lt dxl hsize) (lt_of_le_of_lt dyl hsize) hpx hpy hv hlen points.length le_rfl
  rw [List.take_of_length_le (by simp [hlen])] at h0
  refine ⟨f, ?_, h1, ?_, ?_, h2, ⟨dxn, fun a => ?_⟩, ⟨dyn, fun a => ?_⟩⟩
  · rw [Interp.interpolate_eq, if_neg (by simpa using hlen),
      (bivariate_allDistinct_iff L hp htoStr).2 hnd]
    exact h0
  · intro i hi hi'
    rw [h3, map_sum, Finset.sum_eq_single i]
    · rw [List.getD_eq_getElem _ _ hi, List.getD_eq_getElem _ _ hi']
      exact (Interp.evalHom_bterm L hdx dxn hdy dyn hone (hpx _ (List.getElem_mem hi))
        (hpy _ (List.getElem_mem hi)) (hpx _ (List.getElem_mem hi))
        (hpy _ (List.getElem_mem hi)) _).1 rfl
    · intro j hj hji
      have hj' := Finset.mem_range.1 hj
      rw [List.getD_eq_getElem _ _ hj']
      refine (Interp.evalHom_bterm L hdx dxn hdy dyn hone (hpx _ (List.getElem_mem hj'))
        (hpy _ (List.getElem_mem hj')) (hpx _ (List.getElem_mem hi))
        (hpy _ (List.getElem_mem hi)) _).2 ?_
      exact fun h => hji ((hnd.getElem_inj_iff).1 h)
    · intro hni
      exact absurd (Finset.mem_range.2 hi) hni
  · intro d hd
    exact h2 d ((BPoly.mem_keys_iff L h1 d).2 hd)
  · rw [dxm, List.mem_map]
  · rw [dym, List.mem_map]

/-- the same for the model's own `Eval` (given that the record's `Pow` is the field's power) -/
theorem bivariate_interpolate_eval {R : BPoly.Ring β} (hR : R.ideal = none) (L : Lawful R.F K)
    {points : List (β × β)} {values : List β}
    (hp : ∀ p ∈ points, L.valid p.1 ∧ L.valid p.2) (hv : ∀ v ∈ values, L.valid v)
    (hone : L.valid (R.F.ofNat 1) ∧ L.embed (R.F.ofNat 1) = 1)
    (htoStr : ∀ a b, L.valid a → L.valid b → (R.F.toStr a = R.F.toStr b ↔ a = b))
    (hpow : ∀ a n, L.valid a → L.valid (R.F.pow a n) ∧ L.embed (R.F.pow a n) = L.embed a ^ n)
    (hnd : points.Nodup) (hlen : points.length = values.length)
    (hsize : points.length < 2 ^ 64) :
    ∃ f, BPoly.interpolate R points values = .ok (some f) ∧
      ∀ i (hi : i < points.length) (hi' : i < values.length),
        BPoly.eval R.F f points[i].1 points[i].2 = values[i] := by
  obtain ⟨f, h1, h2, h3, _⟩ := bivariate_interpolate_spec hR L hp hv hone htoStr hnd hlen hsize
  refine ⟨f, h1, fun i hi hi' => ?_⟩
  have hpi := hp _ (List.getElem_mem hi)
  refine L.inj _ _ (BPoly.eval_valid L hpow hpi.1 hpi.2 h2.cv) (hv _ (List.getElem_mem hi')) ?_
  rw [BPoly.eval_hom L hpow hpi.1 hpi.2 h2.cv, h3 i hi hi']

/-- NOT PROVED (outside the assignment: quotient rings). In a quotient ring `R.ideal = some gs` every
    product inside `Interpolate` is reduced modulo the generators, so the result — when the division fuel
    suffices, i.e. the model returns `.ok (some f)` — should be congruent modulo the ideal to the result
    `f0` computed in the ring without ideal (which `bivariate_interpolate_spec` describes completely).
    Missing: the specification of `BPoly.rem` (remainder ≡ dividend modulo the span of the divisors),
    which belongs to C08. -/
def bivariate_interpolate_quotient_full : Prop :=
  ∀ (β : Type) (K : Type) [Field K] (R : BPoly.Ring β) (L : Lawful R.F K) (gs : List (BPoly β))
    (points : List (β × β)) (values : List β),
    R.ideal = some gs → (∀ g ∈ gs, BPoly.WF L g ∧ BPoly.Bounded g) →
    (∀ p ∈ points, L.valid p.1 ∧ L.valid p.2) → (∀ v ∈ values, L.valid v) →
    (L.valid (R.F.ofNat 1) ∧ L.embed (R.F.ofNat 1) = 1) →
    (∀ a b, L.valid a → L.valid b → (R.F.toStr a = R.F.toStr b ↔ a = b)) →
    points.Nodup → points.length = values.length → points.length < 2 ^ 64 →
    ∀ f, BPoly.interpolate R points values = .ok (some f) →
      ∃ f0, BPoly.interpolate { R with ideal := none } points values = .ok (some f0) ∧
        BPoly.toMv L f - BPoly.toMv L f0 ∈
          Ideal.span {q : AddMonoidAlgebra K (ℕ × ℕ) | ∃ g ∈ gs, q = BPoly.toMv L g}

end Bivariate

/-! ### non-vacuity and sanity evaluations (GF(5), the library's own record `primeOps 5`) -/

section Examples

instance : Fact (Nat.Prime 5) := ⟨by norm_num⟩

/-- the lawful coefficient field GF(5) -/
noncomputable def L5 : Lawful (primeOps 5) (ZMod 5) := primeLawful 5 (by norm_num) (by norm_num)

theorem L5_valid (a : Nat) : L5.valid a ↔ a < 5 := Iff.rfl

/-- `hone` holds for `primeOps 5` -/
theorem L5_hone : L5.valid ((primeOps 5).ofNat 1) ∧ L5.embed ((primeOps 5).ofNat 1) = 1 :=
  hone_of_eq L5 rfl

/-- `htoStr` holds for `primeOps 5` -/
theorem L5_htoStr : ∀ a b, L5.valid a → L5.valid b →
    ((primeOps 5).toStr a = (primeOps 5).toStr b ↔ a = b) := by
  have h : ∀ a < 5, ∀ b < 5, (toString a = toString b ↔ a = b) := by decide
  exact fun a b ha hb => h a ha b hb

/-- the hypotheses of `coefK_spec`, `lagrangeBasis_spec`, `interpolate_spec` are satisfiable -/
example : (∀ p ∈ [0, 1, 2, 4], L5.valid p) ∧ (∀ v ∈ [1, 2, 0, 3], L5.valid v) ∧
    ([0, 1, 2, 4] : List Nat).Nodup ∧ ([0, 1, 2, 4] : List Nat).length = [1, 2, 0, 3].length := by
  simp only [L5_valid]; decide

/-- `interpolate_spec` instantiated: the result exists, is well-formed and takes the prescribed values -/
example : ∃ f, interpolate (primeOps 5) [0, 1, 2, 4] [1, 2, 0, 3] = .ok f ∧ WF L5 f ∧
    (toPoly L5 f).degree < 4 := by
  obtain ⟨f, h1, h2, _, _, h5, _⟩ := interpolate_spec L5 (points := [0, 1, 2, 4])
    (values := [1, 2, 0, 3]) (by simp only [L5_valid]; decide) (by simp only [L5_valid]; decide)
    L5_hone L5_htoStr (by decide) rfl
  exact ⟨f, h1, h2, h5⟩

-- 1 + X^2 through (0,1), (1,2), (2,0) over GF(5)
example : interpolate (primeOps 5) [0, 1, 2] [1, 2, 0] = .ok [1, 0, 1] := by decide +kernel
example : interpolate (primeOps 5) [0, 1, 2, 4] [1, 2, 0, 3] = .ok [1, 3, 4, 4] := by decide +kernel
example : eval (primeOps 5) [1, 3, 4, 4] 4 = 3 := by decide
-- samples of 1 + 3X + 4X^2 + 4X^3 are interpolated back to it (`interpolate_eval`)
example : interpolate (primeOps 5) [0, 1, 2, 4] ([0, 1, 2, 4].map (eval (primeOps 5) [1, 3, 4, 4])) =
    .ok [1, 3, 4, 4] := by decide +kernel
-- (X - 0)(X - 2) = X^2 - 2X: coefficient of X is 3 = -2; basis polynomial at 1 is -(X^2 - 2X)
example : coefK (primeOps 5) [0, 1, 2] 1 1 = 3 := by decide +kernel
example : lagrangeBasis (primeOps 5) [0, 1, 2] 1 = [0, 2, 4] := by decide +kernel
example : ignoreIndex (primeOps 5) [0, 1, 2] 2 = 2 := by decide
example : allDistinct (primeOps 5) [0, 1, 2] = true := by decide
example : allDistinct (primeOps 5) [0, 1, 1] = false := by decide
-- error cases
example : interpolate (primeOps 5) [0, 1, 1] [1, 2, 0] = .error .inputValue := by decide
example : interpolate (primeOps 5) [0, 1] [1, 2, 0] = .error .inputValue := by decide
example : ¬ ([0, 1, 1] : List Nat).Nodup := by decide
example : interpolate (primeOps 5) [] [] = .ok [0] := by decide +kernel

/-! bivariate: GF(5)[X,Y] -/

/-- the polynomial ring GF(5)[X,Y] (no ideal) -/
def R5 : BPoly.Ring Nat :=
  { F := primeOps 5, ord := ⟨.lex, true⟩, varNames := ("X", "Y"), ideal := none }

/-- `bivariate_interpolate_spec` instantiated (all hypotheses discharged) -/
example : ∃ f, BPoly.interpolate R5 [(0, 0), (1, 0), (0, 1), (2, 1)] [1, 2, 3, 0] = .ok (some f) ∧
    BPoly.WF L5 f := by
  obtain ⟨f, h1, h2, _⟩ := bivariate_interpolate_spec (R := R5) rfl L5
    (points := [(0, 0), (1, 0), (0, 1), (2, 1)]) (values := [1, 2, 3, 0])
    (by simp only [L5_valid]; decide) (by simp only [L5_valid]; decide)
    L5_hone L5_htoStr (by decide) rfl (by norm_num)
  exact ⟨f, h1, h2⟩

-- 1 + 2Y + X^2 + 3X^2Y + 3XY through (0,0)↦1, (1,0)↦2, (0,1)↦3, (2,1)↦0:
-- X-degree 2 < 3 abscissae {0,1,2}, Y-degree 1 < 2 ordinates {0,1}
example : BPoly.interpolate R5 [(0, 0), (1, 0), (0, 1), (2, 1)] [1, 2, 3, 0] =
    .ok (some [((0, 0), 1), ((0, 1), 2), ((2, 0), 1), ((2, 1), 3), ((1, 1), 3)]) := by
  decide +kernel
example : BPoly.eval (primeOps 5)
    [((0, 0), 1), ((0, 1), 2), ((2, 0), 1), ((2, 1), 3), ((1, 1), 3)] 2 1 = 0 := by decide +kernel
example : BPoly.distinctStrs (primeOps 5) [0, 1, 0, 2] = [0, 1, 2] := by decide
example : BPoly.interpolate R5 [(0, 0), (1, 0), (0, 0)] [1, 2, 3] = .error .inputValue := by decide
example : BPoly.interpolate R5 [(0, 0), (1, 0)] [1, 2, 3] = .error .inputValue := by decide

end Examples

end Algobra.C14
