/-
  Props/C14Full.lean — property C14 (interpolation) in a bivariate QUOTIENT ring `F[X,Y]/⟨gs⟩`:
  model function `BPoly.interpolate R points values` with `R.ideal = some gs`
  (Go: /repo/bivariate/interpolation.go, every `tmp.Mult(...)` is followed by `reduce`).
  Helper lemmas: Proofs/InterpQuot.lean (uses the division theorem through `BPoly.QuotCtx`).

  RESULT on `C14.bivariate_interpolate_quotient_full` (Props/C14.lean), read literally:
   * it is FALSE (`bivariate_interpolate_quotient_full_false`).  The division behind `reduce` adds
     exponents in `uint` arithmetic without an overflow check (`subWithShiftAndScale`); under Lex a
     division step can wrap an exponent around, and then the remainder is NOT congruent to the
     dividend.  Concrete instance over GF(5), Lex, `gs = [XY - Y^(2^64-1)]`, points
     (0,0), (1,1), (1,4) — all three are common zeros of `gs` — and values 0, 1, 0: the library
     returns `3·Y^(2^64-1) + 3`, which is not congruent to the interpolant `3XY + 3XY²` computed
     without ideal, and takes the value 3 instead of 0 at the point (0,0)
     (`quotient_values_need_guard`).  All hypotheses of the literal statement hold
     (generators well-formed with word-size exponents, …).
   * the closest true statement is PROVED (`bivariate_interpolate_quotient`): the same conclusion
     under the guard of the division theorem for every reduction made during the run
     (`QuotientInterpSafe` = `Interp.InterpSafe` with `C11.RunSafe`: admissible order, the
     dividend's exponents and weighted degrees are machine words, no exponent wraps around —
     `RunOK` mirrors the loop and is decidable).  In addition the result is a NORMAL FORM
     (well-formed, word-size exponents, no exponent divisible by a leading exponent of `gs`).
   * for the graded orders (WDegLex/WDegRevLex with positive weights, e.g. DegLex, DegRevLex) the
     guard is discharged from a static bound (`interpSafe_of_graded`): exponents and weighted
     degrees of the generators are machine words and so is the weighted degree of `(n, n)`,
     `n` = number of points.  This gives `bivariate_interpolate_quotient_graded`.
   * corollary asked for (`bivariate_interpolate_quotient_evalHom`, `…_eval`, `…_eval_graded`):
     if every point is a common zero of all generators, the polynomial returned in the quotient
     ring takes the prescribed value at every given point (for the evaluation homomorphism of
     `K[X,Y]` and for the model's own `BPoly.eval`).
   * none of the statements above needs `gs` to be a Gröbner basis.  If it is one
     (`C11.IsGroebnerBasisExact`, the conclusion of the proved criterion), the result is moreover
     THE normal form of the interpolant computed without ideal
     (`bivariate_interpolate_quotient_unique`).
   * the other outcomes: the only errors are InputValue and Overflow
     (`bivariate_interpolate_error_kind`); `.ok none` is "division fuel exhausted" (or a zero
     generator), about which nothing is claimed.

  UNIVARIATE quotient rings `F[X]/(g)`: nothing is open.  `(*QuotientRing).Interpolate` of
  /repo/univariate/interpolation.go uses only `SetCoef`, `SetScale`, `Scale`, `Add`, none of which
  reduces; the model function `UPoly.interpolate` accordingly has no ring argument, and
  `C14.interpolate_spec` describes the result in every ring, quotient or not: it is literally the
  Lagrange interpolant of degree `< n` (NOT reduced modulo `g` when `deg g ≤ n - 1`; it still takes
  the prescribed values exactly).
-/
import Algobra.Props.C14
import Algobra.Props.C13
import Algobra.Props.C11Full
import Algobra.Proofs.InterpQuot

namespace Algobra.C14
open Algobra Algobra.BPoly

section Quotient
variable {β : Type} {K : Type} [Field K]

/-- the generating set written in `bivariate_interpolate_quotient_full` is the image of the list -/
theorem span_set_eq {F : FOps β} (L : Lawful F K) (gs : List (BPoly β)) :
    {q : AddMonoidAlgebra K (ℕ × ℕ) | ∃ g ∈ gs, q = toMv L g} = (toMv L) '' {g | g ∈ gs} := by
  ext q
  constructor
  · rintro ⟨g, hg, rfl⟩; exact ⟨g, hg, rfl⟩
  · rintro ⟨g, hg, rfl⟩; exact ⟨g, hg, rfl⟩

/-- THE GUARD: the guard `C11.RunSafe` of the division theorem (admissible order; exponents and
    weighted degrees of the dividend are machine words; `RunOK`: no exponent wraps around during
    the run) holds for every reduction made by `Interpolate(points, values)` in the quotient ring,
    i.e. for every point `p` with nonzero value for the division of `1·Lx(p)` and — `t1` being its
    remainder — of `t1·Ly(p)` by `gs`. -/
def QuotientInterpSafe (R : BPoly.Ring β) (gs : List (BPoly β)) (points : List (β × β))
    (values : List β) : Prop :=
  Interp.InterpSafe R (C11.RunSafe R.F R.ord) gs points values

/-- `QuotientInterpSafe`, unfolded -/
theorem quotientInterpSafe_iff (R : BPoly.Ring β) (gs : List (BPoly β)) (points : List (β × β))
    (values : List β) :
    QuotientInterpSafe R gs points values ↔
    ∀ pv ∈ points.zip values, R.F.isZero pv.2 = false →
      let dx := BPoly.distinctStrs R.F (points.map (·.1))
      let dy := BPoly.distinctStrs R.F (points.map (·.2))
      let one : BPoly β := BPoly.setCoef R.F [] (0, 0) R.F.one
      (∀ h, mulNoReduce R.F one (BPoly.lagrangeBasis R.F dx pv.1.1 0) = some h →
        C11.RunSafe R.F R.ord none gs divFuel h) ∧
      ∀ t1, times R one (BPoly.lagrangeBasis R.F dx pv.1.1 0) = .ok (some t1) →
        ∀ h, mulNoReduce R.F t1 (BPoly.lagrangeBasis R.F dy pv.1.2 1) = some h →
          C11.RunSafe R.F R.ord none gs divFuel h :=
  Iff.rfl

/-- **C14 in a quotient ring (`bivariate_interpolate_quotient_full` with the missing guard).**
    `R.ideal = some gs`, generators well-formed; pairwise distinct valid points, equally many valid
    values; the guard `QuotientInterpSafe`.  Whenever `Interpolate` returns a polynomial `f`
    (`.ok (some f)`: no Overflow error and the division fuel sufficed), then
    1. `f` is a normal form: well-formed, exponents and their weighted degrees are machine words
       (so the comparisons of the order are exact on them), no exponent divisible by the leading
       exponent of a generator;
    2. the same call in the ring without ideal returns a polynomial `f0` (the interpolant that
       `bivariate_interpolate_spec` describes completely) and `f ≡ f0` modulo `⟨gs⟩`. -/
theorem bivariate_interpolate_quotient {R : BPoly.Ring β} (L : Lawful R.F K) {gs : List (BPoly β)}
    {points : List (β × β)} {values : List β}
    (hR : R.ideal = some gs) (hw : ∀ g ∈ gs, BPoly.WF L g)
    (hp : ∀ p ∈ points, L.valid p.1 ∧ L.valid p.2) (hv : ∀ v ∈ values, L.valid v)
    (hone : L.valid (R.F.ofNat 1) ∧ L.embed (R.F.ofNat 1) = 1)
    (htoStr : ∀ a b, L.valid a → L.valid b → (R.F.toStr a = R.F.toStr b ↔ a = b))
    (hnd : points.Nodup) (hlen : points.length = values.length)
    (hsize : points.length < 2 ^ 64)
    (hsafe : QuotientInterpSafe R gs points values) {f : BPoly β}
    (h : BPoly.interpolate R points values = .ok (some f)) :
    (BPoly.WF L f ∧ Bounded f ∧ (∀ d ∈ keys f, Order.NoOverflow R.ord d) ∧
      ∀ d ∈ keys f, ∀ g ∈ gs, subDegs d (ld R.ord g) = none) ∧
    ∃ f0, BPoly.interpolate { R with ideal := none } points values = .ok (some f0) ∧
      BPoly.toMv L f - BPoly.toMv L f0 ∈
        Ideal.span {q : AddMonoidAlgebra K (ℕ × ℕ) | ∃ g ∈ gs, q = BPoly.toMv L g} := by
  obtain ⟨g1, f0, h0, -, m0⟩ := Interp.qinterpolate_spec (C13.quotCtx_runSafe (L := L) hR hw)
    hp hv hone htoStr hnd hlen hsize hsafe h
  have no := Interp.qinterpolate_noOverflow L hR hw hp hone htoStr hnd hlen hsize hsafe h
  refine ⟨⟨g1.1, g1.2.1, no, g1.2.2⟩, f0, h0, ?_⟩
  rw [span_set_eq]
  exact m0

/-- **Corollary (evaluation homomorphism).**  If moreover every given point is a common zero of all
    generators, the polynomial returned in the quotient ring takes the prescribed value at every
    given point. -/
theorem bivariate_interpolate_quotient_evalHom {R : BPoly.Ring β} (L : Lawful R.F K)
    {gs : List (BPoly β)} {points : List (β × β)} {values : List β}
    (hR : R.ideal = some gs) (hw : ∀ g ∈ gs, BPoly.WF L g)
    (hp : ∀ p ∈ points, L.valid p.1 ∧ L.valid p.2) (hv : ∀ v ∈ values, L.valid v)
    (hone : L.valid (R.F.ofNat 1) ∧ L.embed (R.F.ofNat 1) = 1)
    (htoStr : ∀ a b, L.valid a → L.valid b → (R.F.toStr a = R.F.toStr b ↔ a = b))
    (hnd : points.Nodup) (hlen : points.length = values.length)
    (hsize : points.length < 2 ^ 64)
    (hsafe : QuotientInterpSafe R gs points values)
    (hzero : ∀ g ∈ gs, ∀ p ∈ points,
      BPoly.evalHom (L.embed p.1) (L.embed p.2) (BPoly.toMv L g) = 0)
    {f : BPoly β} (h : BPoly.interpolate R points values = .ok (some f)) :
    BPoly.WF L f ∧ ∀ i (hi : i < points.length) (hi' : i < values.length),
      BPoly.evalHom (L.embed points[i].1) (L.embed points[i].2) (BPoly.toMv L f) =
        L.embed values[i] := by
  obtain ⟨⟨wf, -, -, -⟩, f0, h0, m0⟩ :=
    bivariate_interpolate_quotient L hR hw hp hv hone htoStr hnd hlen hsize hsafe h
  obtain ⟨f0', h0', -, e0, -⟩ := bivariate_interpolate_spec (R := { R with ideal := none }) rfl L
    hp hv hone htoStr hnd hlen hsize
  rw [h0] at h0'
  cases h0'
  refine ⟨wf, fun i hi hi' => ?_⟩
  rw [← e0 i hi hi']
  have hle : Ideal.span {q : AddMonoidAlgebra K (ℕ × ℕ) | ∃ g ∈ gs, q = BPoly.toMv L g} ≤
      RingHom.ker (BPoly.evalHom (L.embed points[i].1) (L.embed points[i].2)) := by
    rw [Ideal.span_le]
    rintro _ ⟨g, hg, rfl⟩
    exact hzero g hg _ (List.getElem_mem hi)
  have := hle m0
  rw [RingHom.mem_ker, map_sub, sub_eq_zero] at this
  exact this

/-- **Corollary (the model's own `Eval`).**  Given that the record's `Pow` is the field's power
    (`hpow`, as in `bivariate_interpolate_eval`): if `Eval(g, p) = 0` for every generator `g` and
    every given point `p`, then `Eval(f, points[i]) = values[i]` for the polynomial `f` returned in
    the quotient ring. -/
theorem bivariate_interpolate_quotient_eval {R : BPoly.Ring β} (L : Lawful R.F K)
    {gs : List (BPoly β)} {points : List (β × β)} {values : List β}
    (hR : R.ideal = some gs) (hw : ∀ g ∈ gs, BPoly.WF L g)
    (hp : ∀ p ∈ points, L.valid p.1 ∧ L.valid p.2) (hv : ∀ v ∈ values, L.valid v)
    (hone : L.valid (R.F.ofNat 1) ∧ L.embed (R.F.ofNat 1) = 1)
    (htoStr : ∀ a b, L.valid a → L.valid b → (R.F.toStr a = R.F.toStr b ↔ a = b))
    (hpow : ∀ a n, L.valid a → L.valid (R.F.pow a n) ∧ L.embed (R.F.pow a n) = L.embed a ^ n)
    (hnd : points.Nodup) (hlen : points.length = values.length)
    (hsize : points.length < 2 ^ 64)
    (hsafe : QuotientInterpSafe R gs points values)
    (hzero : ∀ g ∈ gs, ∀ p ∈ points, BPoly.eval R.F g p.1 p.2 = R.F.zero)
    {f : BPoly β} (h : BPoly.interpolate R points values = .ok (some f)) :
    ∀ i (hi : i < points.length) (hi' : i < values.length),
      BPoly.eval R.F f points[i].1 points[i].2 = values[i] := by
  have hz : ∀ g ∈ gs, ∀ p ∈ points,
      BPoly.evalHom (L.embed p.1) (L.embed p.2) (BPoly.toMv L g) = 0 := by
    intro g hg p hp'
    rw [← BPoly.eval_hom L hpow (hp p hp').1 (hp p hp').2 (hw g hg).cv, hzero g hg p hp',
      L.embed_zero]
  obtain ⟨wf, e⟩ := bivariate_interpolate_quotient_evalHom L hR hw hp hv hone htoStr hnd hlen
    hsize hsafe hz h
  intro i hi hi'
  have hpi := hp _ (List.getElem_mem hi)
  refine L.inj _ _ (BPoly.eval_valid L hpow hpi.1 hpi.2 wf.cv) (hv _ (List.getElem_mem hi')) ?_
  rw [BPoly.eval_hom L hpow hpi.1 hpi.2 wf.cv, e i hi hi']

/-- normal forms are unique modulo a list with the Gröbner property for exact exponents
    (`C11.IsGroebnerBasisExact`, the conclusion of the proved criterion `C11.buchberger_criterion`;
    the argument of `C13.nf_unique_of_groebner`) -/
theorem nf_unique_of_groebnerExact {F : FOps β} (L : Lawful F K) {o : Order} {gs : List (BPoly β)}
    (hG : C11.IsGroebnerBasisExact L o gs) (hadm : Order.Admissible o) {r1 r2 : BPoly β}
    (w1 : BPoly.WF L r1) (w2 : BPoly.WF L r2) (n1 : IsNF o gs r1) (n2 : IsNF o gs r2)
    (o1 : ∀ d ∈ keys r1, Order.NoOverflow o d) (o2 : ∀ d ∈ keys r2, Order.NoOverflow o d)
    (h : toMv L r1 - toMv L r2 ∈ Ideal.span ((toMv L) '' {g | g ∈ gs})) :
    toMv L r1 = toMv L r2 ∧ equal F r1 r2 = true := by
  have wd := WF_sub L w1 w2.cv
  have td := toMv_sub L w1 w2.cv
  have key : toMv L r1 = toMv L r2 := by
    by_contra hne
    have hd : BPoly.sub F r1 r2 ≠ [] := by
      intro h0
      rw [h0, toMv_nil] at td
      exact hne (sub_eq_zero.1 td.symm)
    have hno : ∀ d ∈ keys (BPoly.sub F r1 r2), Order.NoOverflow o d :=
      KeysIn_sub (P := fun d => Order.NoOverflow o d) o1 o2
    obtain ⟨g, hg, hdiv⟩ := hG _ wd hd (fun d hd' => Or.inr (hno d hd')) (by rw [td]; exact h)
    have hld := ld_mem_keys hadm hd hno
    exact hdiv (KeysIn_sub n1 n2 _ hld g hg)
  exact ⟨key, (equal_iff L w1 w2).2 key⟩

/-- **The result is THE normal form of the interpolant.**  If moreover the stored generators have the
    Gröbner property (`C11.IsGroebnerBasisExact`: what `C11.buchberger_criterion` proves from
    `sPairRems = some []`, and what `C13.quotientGens_groebner` proves for the list stored by
    `Quotient(id)`), then the polynomial `f` returned in the quotient ring is determined by the
    interpolant `f0` of the ring without ideal: every well-formed normal form `r` with exact
    exponents that is congruent to `f0` modulo `⟨gs⟩` denotes the same polynomial as `f`, and the
    library's `Equal(r, f)` answers true.  (In particular `r = reduce(f0)`, by `C13.reduceIn_spec`.) -/
theorem bivariate_interpolate_quotient_unique {R : BPoly.Ring β} (L : Lawful R.F K)
    {gs : List (BPoly β)} {points : List (β × β)} {values : List β}
    (hR : R.ideal = some gs) (hw : ∀ g ∈ gs, BPoly.WF L g)
    (hadm : Order.Admissible R.ord) (hG : C11.IsGroebnerBasisExact L R.ord gs)
    (hp : ∀ p ∈ points, L.valid p.1 ∧ L.valid p.2) (hv : ∀ v ∈ values, L.valid v)
    (hone : L.valid (R.F.ofNat 1) ∧ L.embed (R.F.ofNat 1) = 1)
    (htoStr : ∀ a b, L.valid a → L.valid b → (R.F.toStr a = R.F.toStr b ↔ a = b))
    (hnd : points.Nodup) (hlen : points.length = values.length)
    (hsize : points.length < 2 ^ 64)
    (hsafe : QuotientInterpSafe R gs points values) {f f0 r : BPoly β}
    (h : BPoly.interpolate R points values = .ok (some f))
    (h0 : BPoly.interpolate { R with ideal := none } points values = .ok (some f0))
    (wr : BPoly.WF L r) (nr : ∀ d ∈ keys r, ∀ g ∈ gs, subDegs d (ld R.ord g) = none)
    (er : ∀ d ∈ keys r, Order.NoOverflow R.ord d)
    (hc : BPoly.toMv L r - BPoly.toMv L f0 ∈ Ideal.span ((toMv L) '' {g | g ∈ gs})) :
    BPoly.toMv L r = BPoly.toMv L f ∧ equal R.F r f = true := by
  obtain ⟨⟨wf, -, ef, nf⟩, f0', h0', m0⟩ :=
    bivariate_interpolate_quotient L hR hw hp hv hone htoStr hnd hlen hsize hsafe h
  rw [h0] at h0'
  cases h0'
  rw [span_set_eq] at m0
  refine nf_unique_of_groebnerExact L hG hadm wr wf nr nf er ef ?_
  have : BPoly.toMv L r - BPoly.toMv L f =
      (BPoly.toMv L r - BPoly.toMv L f0) - (BPoly.toMv L f - BPoly.toMv L f0) := by ring
  rw [this]
  exact Ideal.sub_mem _ hc m0

/-! ### graded orders: the guard is static -/

/-- For WDegLex / WDegRevLex with positive weights (DegLex, DegRevLex, …) no reduction made by
    `Interpolate` can wrap an exponent around, provided the exponents and weighted degrees of the
    generators are machine words and the weighted degree of `X^n Y^n`, `n` = number of points, is
    one (`NoOverflow R.ord (n, n)`: `n < 2^64` and `n·wx + n·wy < 2^64`). -/
theorem interpSafe_of_graded {R : BPoly.Ring β} (L : Lawful R.F K) {gs : List (BPoly β)}
    {points : List (β × β)} {values : List β}
    (hR : R.ideal = some gs) (hw : ∀ g ∈ gs, BPoly.WF L g) (hgr : Graded R.ord)
    (hgs : ∀ g ∈ gs, ∀ d ∈ keys g, Order.NoOverflow R.ord d)
    (hp : ∀ p ∈ points, L.valid p.1 ∧ L.valid p.2)
    (hone : L.valid (R.F.ofNat 1) ∧ L.embed (R.F.ofNat 1) = 1)
    (htoStr : ∀ a b, L.valid a → L.valid b → (R.F.toStr a = R.F.toStr b ↔ a = b))
    (hno : Order.NoOverflow R.ord (points.length, points.length)) :
    QuotientInterpSafe R gs points values := by
  have hxs : ∀ x ∈ points.map (·.1), L.valid x := by
    intro x hx; obtain ⟨p, hp', rfl⟩ := List.mem_map.1 hx; exact (hp p hp').1
  have hys : ∀ y ∈ points.map (·.2), L.valid y := by
    intro y hy; obtain ⟨p, hp', rfl⟩ := List.mem_map.1 hy; exact (hp p hp').2
  obtain ⟨dxn, dxm, dxl⟩ := Interp.distinctStrs_spec L htoStr _ hxs
  obtain ⟨dyn, dym, dyl⟩ := Interp.distinctStrs_spec L htoStr _ hys
  rw [List.length_map] at dxl dyl
  intro pv hpv _
  have hmem : pv.1 ∈ points := (List.of_mem_zip (a := pv.1) (b := pv.2) hpv).1
  exact Interp.stepSafe_of_graded L hR hw hgr hgs (fun a ha => hxs a ((dxm a).1 ha)) dxn
    (fun a ha => hys a ((dym a).1 ha)) dyn hone (NoOverflow_mono hno dxl dyl)
    ((dxm _).2 (List.mem_map.2 ⟨pv.1, hmem, rfl⟩)) ((dym _).2 (List.mem_map.2 ⟨pv.1, hmem, rfl⟩))

/-- **C14 in a quotient ring with a graded order, no run hypothesis.** -/
theorem bivariate_interpolate_quotient_graded {R : BPoly.Ring β} (L : Lawful R.F K)
    {gs : List (BPoly β)} {points : List (β × β)} {values : List β}
    (hR : R.ideal = some gs) (hw : ∀ g ∈ gs, BPoly.WF L g) (hgr : Graded R.ord)
    (hgs : ∀ g ∈ gs, ∀ d ∈ keys g, Order.NoOverflow R.ord d)
    (hp : ∀ p ∈ points, L.valid p.1 ∧ L.valid p.2) (hv : ∀ v ∈ values, L.valid v)
    (hone : L.valid (R.F.ofNat 1) ∧ L.embed (R.F.ofNat 1) = 1)
    (htoStr : ∀ a b, L.valid a → L.valid b → (R.F.toStr a = R.F.toStr b ↔ a = b))
    (hnd : points.Nodup) (hlen : points.length = values.length)
    (hno : Order.NoOverflow R.ord (points.length, points.length)) {f : BPoly β}
    (h : BPoly.interpolate R points values = .ok (some f)) :
    (BPoly.WF L f ∧ Bounded f ∧ (∀ d ∈ keys f, Order.NoOverflow R.ord d) ∧
      ∀ d ∈ keys f, ∀ g ∈ gs, subDegs d (ld R.ord g) = none) ∧
    ∃ f0, BPoly.interpolate { R with ideal := none } points values = .ok (some f0) ∧
      BPoly.toMv L f - BPoly.toMv L f0 ∈
        Ideal.span {q : AddMonoidAlgebra K (ℕ × ℕ) | ∃ g ∈ gs, q = BPoly.toMv L g} :=
  bivariate_interpolate_quotient L hR hw hp hv hone htoStr hnd hlen hno.1
    (interpSafe_of_graded L hR hw hgr hgs hp hone htoStr hno) h

/-- **Corollary for graded orders**: points on the variety of `gs` get their prescribed values. -/
theorem bivariate_interpolate_quotient_eval_graded {R : BPoly.Ring β} (L : Lawful R.F K)
    {gs : List (BPoly β)} {points : List (β × β)} {values : List β}
    (hR : R.ideal = some gs) (hw : ∀ g ∈ gs, BPoly.WF L g) (hgr : Graded R.ord)
    (hgs : ∀ g ∈ gs, ∀ d ∈ keys g, Order.NoOverflow R.ord d)
    (hp : ∀ p ∈ points, L.valid p.1 ∧ L.valid p.2) (hv : ∀ v ∈ values, L.valid v)
    (hone : L.valid (R.F.ofNat 1) ∧ L.embed (R.F.ofNat 1) = 1)
    (htoStr : ∀ a b, L.valid a → L.valid b → (R.F.toStr a = R.F.toStr b ↔ a = b))
    (hpow : ∀ a n, L.valid a → L.valid (R.F.pow a n) ∧ L.embed (R.F.pow a n) = L.embed a ^ n)
    (hnd : points.Nodup) (hlen : points.length = values.length)
    (hno : Order.NoOverflow R.ord (points.length, points.length))
    (hzero : ∀ g ∈ gs, ∀ p ∈ points, BPoly.eval R.F g p.1 p.2 = R.F.zero)
    {f : BPoly β} (h : BPoly.interpolate R points values = .ok (some f)) :
    ∀ i (hi : i < points.length) (hi' : i < values.length),
      BPoly.eval R.F f points[i].1 points[i].2 = values[i] :=
  bivariate_interpolate_quotient_eval L hR hw hp hv hone htoStr hpow hnd hlen hno.1
    (interpSafe_of_graded L hR hw hgr hgs hp hone htoStr hno) hzero h

/-! ### the other outcomes of a run in a quotient ring -/

/-- the only errors of `Interpolate` in any ring are InputValue (lengths, repeated point) and
    Overflow (an exponent sum in `multNoReduce` does not fit a machine word) -/
theorem bivariate_interpolate_error_kind (R : BPoly.Ring β) (points : List (β × β))
    (values : List β) {k : Kind} (h : BPoly.interpolate R points values = .error k) :
    k = .inputValue ∨ k = .overflow := by
  rw [Interp.interpolate_eq] at h
  split at h
  · cases h; exact Or.inl rfl
  · split at h
    · cases h; exact Or.inl rfl
    · have key : ∀ (l : List ((β × β) × β)) (acc : Except Kind (Option (BPoly β))),
          (∀ k', acc = .error k' → k' = .overflow) →
          l.foldl (Interp.istep R (BPoly.distinctStrs R.F (points.map (·.1)))
            (BPoly.distinctStrs R.F (points.map (·.2)))) acc = .error k → k = .overflow := by
        intro l
        induction l with
        | nil => intro acc ha h'; exact ha k h'
        | cons x t ih =>
          intro acc ha h'
          rw [List.foldl_cons] at h'
          refine ih _ ?_ h'
          intro k' hk'
          unfold Interp.istep at hk'
          split at hk'
          · rename_i k0
            cases hk'
            exact ha _ rfl
          · cases hk'
          · simp only [] at hk'
            split at hk'
            · cases hk'
            · split at hk'
              · rename_i k1 e1
                cases hk'
                exact (C13.times_error_iff.1 e1).2
              · cases hk'
              · split at hk'
                · rename_i k2 e2
                  cases hk'
                  exact (C13.times_error_iff.1 e2).2
                · cases hk'
                · cases hk'
      exact Or.inr (key _ _ (fun k' hk' => by cases hk') h)

end Quotient

/-! ### the literal statement is false: wrap-around under Lex (GF(5), `primeOps 5`) -/

section Counterexample

theorem wf5 (f : BPoly Nat) (h1 : (f.map (·.1)).Nodup) (h2 : ∀ dc ∈ f, 0 < dc.2 ∧ dc.2 < 5) :
    BPoly.WF L5 f := by
  refine ⟨h1, fun dc hdc => ⟨(h2 dc hdc).2, ?_⟩⟩
  show ((dc.2 : ℕ) : ZMod 5) ≠ 0
  rw [Ne, ZMod.natCast_eq_zero_iff]
  intro hdvd
  have := Nat.le_of_dvd (h2 dc hdc).1 hdvd
  have := (h2 dc hdc).2
  omega

/-- `hpow` holds for `primeOps 5` -/
theorem L5_hpow : ∀ a n, L5.valid a → L5.valid ((primeOps 5).pow a n) ∧
    L5.embed ((primeOps 5).pow a n) = L5.embed a ^ n :=
  fun a n ha => Prime.pow_spec' (by norm_num) (by norm_num) ha n

/-- XY - Y^(2^64-1) -/
def gw : BPoly Nat := [((1, 1), 1), ((0, 2 ^ 64 - 1), 4)]

/-- GF(5)[X,Y]/⟨XY - Y^(2^64-1)⟩ with Lex, X > Y -/
def RW : BPoly.Ring Nat :=
  { F := primeOps 5, ord := ⟨.lex, true⟩, varNames := ("X", "Y"), ideal := some [gw] }

def ptsW : List (Nat × Nat) := [(0, 0), (1, 1), (1, 4)]
def valsW : List Nat := [0, 1, 0]
/-- what the library returns in the quotient ring: 3·Y^(2^64-1) + 3 -/
def fW : BPoly Nat := [((0, 2 ^ 64 - 1), 3), ((0, 0), 3)]
/-- the interpolant computed without ideal: 3XY + 3XY² -/
def f0W : BPoly Nat := [((1, 1), 3), ((1, 2), 3)]

/-- the two runs -/
theorem runW : BPoly.interpolate RW ptsW valsW = .ok (some fW) ∧
    BPoly.interpolate { RW with ideal := none } ptsW valsW = .ok (some f0W) := by
  constructor <;> decide +kernel

/-- all hypotheses of `bivariate_interpolate_quotient_full` (and of the corollary about common
    zeros) hold for this instance -/
theorem hypsW :
    RW.ideal = some [gw] ∧ (∀ g ∈ [gw], BPoly.WF L5 g ∧ BPoly.Bounded g) ∧
    (∀ p ∈ ptsW, L5.valid p.1 ∧ L5.valid p.2) ∧ (∀ v ∈ valsW, L5.valid v) ∧
    ptsW.Nodup ∧ ptsW.length = valsW.length ∧ ptsW.length < 2 ^ 64 ∧
    (∀ g ∈ [gw], ∀ p ∈ ptsW, BPoly.eval RW.F g p.1 p.2 = RW.F.zero) := by
  refine ⟨rfl, ?_, ?_, ?_, by decide, rfl, by decide, by decide +kernel⟩
  · intro g hg
    rw [List.mem_singleton] at hg
    subst hg
    exact ⟨wf5 _ (by decide) (by decide), by intro dc hdc; revert dc; decide⟩
  · simp only [L5_valid]; decide
  · simp only [L5_valid]; decide

/-- **`bivariate_interpolate_quotient_full` is false as stated.**  With `gs = [XY - Y^(2^64-1)]`
    under Lex the division of `3XY² + 3XY` wraps `Y·Y^(2^64-1)` around to `Y^0`; the result
    `3Y^(2^64-1) + 3` differs from the true interpolant `3XY + 3XY²` by a polynomial that does not
    vanish at the common zero (0,0) of the ideal, hence is not in the ideal. -/
theorem bivariate_interpolate_quotient_full_false : ¬ bivariate_interpolate_quotient_full := by
  intro H
  obtain ⟨h1, h2, h3, h4, h5, h6, h7, -⟩ := hypsW
  obtain ⟨f0, h0, hm⟩ := H Nat (ZMod 5) RW L5 [gw] ptsW valsW h1 h2 h3 h4 L5_hone L5_htoStr h5 h6 h7
    fW runW.1
  rw [runW.2] at h0
  cases h0
  have hle : Ideal.span {q : AddMonoidAlgebra (ZMod 5) (ℕ × ℕ) | ∃ g ∈ [gw], q = BPoly.toMv L5 g} ≤
      RingHom.ker (BPoly.evalHom (0 : ZMod 5) 0) := by
    rw [Ideal.span_le]
    rintro _ ⟨g, hg, rfl⟩
    rw [List.mem_singleton] at hg
    subst hg
    show BPoly.evalHom (0 : ZMod 5) 0 (BPoly.toMv L5 gw) = 0
    rw [BPoly.evalHom_toMv]
    simp [gw]
  have hmem := hle hm
  rw [RingHom.mem_ker, map_sub] at hmem
  have key : BPoly.evalHom (0 : ZMod 5) 0 (BPoly.toMv (F := primeOps 5) L5 fW) -
      BPoly.evalHom (0 : ZMod 5) 0 (BPoly.toMv (F := primeOps 5) L5 f0W) = 0 := hmem
  rw [BPoly.evalHom_toMv, BPoly.evalHom_toMv] at key
  have e3 : L5.embed 3 = 3 := by show ((3 : ℕ) : ZMod 5) = 3; simp
  revert key
  simp [fW, f0W, e3]
  decide

/-- **The corollary about common zeros needs the guard as well.**  In the same instance all three
    points are common zeros of the generator, the run succeeds, and the returned polynomial takes
    the value 3 at the point (0,0) where 0 was prescribed.  Consequently the guard fails there. -/
theorem quotient_values_need_guard :
    (∀ g ∈ [gw], ∀ p ∈ ptsW, BPoly.eval RW.F g p.1 p.2 = RW.F.zero) ∧
    BPoly.interpolate RW ptsW valsW = .ok (some fW) ∧
    BPoly.eval RW.F fW 0 0 = 3 ∧ valsW[0] = 0 ∧
    ¬ QuotientInterpSafe RW [gw] ptsW valsW := by
  obtain ⟨h1, h2, h3, h4, h5, h6, h7, h8⟩ := hypsW
  have hev : BPoly.eval RW.F fW 0 0 = 3 := by decide +kernel
  refine ⟨h8, runW.1, hev, rfl, fun hs => ?_⟩
  have := bivariate_interpolate_quotient_eval (R := RW) L5 h1 (fun g hg => (h2 g hg).1) h3 h4
    L5_hone L5_htoStr L5_hpow h5 h6 h7 hs h8 runW.1 0 (by decide) (by decide)
  rw [show ptsW[0] = (0, 0) from rfl, hev] at this
  exact absurd this (by decide)

end Counterexample

/-! ### non-vacuity and sanity evaluations: GF(5)[X,Y]/⟨Y - X²⟩, points on the parabola -/

section Examples

/-- Y - X² -/
def gp : BPoly Nat := [((0, 1), 1), ((2, 0), 4)]

/-- the quotient ring with DegLex (graded), X > Y -/
def RD : BPoly.Ring Nat :=
  { F := primeOps 5, ord := ⟨.wdeglex 1 1, true⟩, varNames := ("X", "Y"), ideal := some [gp] }

/-- the quotient ring with Lex, X > Y -/
def RL : BPoly.Ring Nat :=
  { F := primeOps 5, ord := ⟨.lex, true⟩, varNames := ("X", "Y"), ideal := some [gp] }

def ptsP : List (Nat × Nat) := [(0, 0), (1, 1), (2, 4), (3, 4)]
def valsP : List Nat := [1, 2, 3, 4]
/-- 4XY³ + Y³ + 4XY + 2Y² + 4X + Y + 1 (X-degree < 2: a normal form modulo X² - Y) -/
def fP : BPoly Nat :=
  [((1, 3), 4), ((0, 3), 1), ((1, 1), 4), ((0, 2), 2), ((1, 0), 4), ((0, 1), 1), ((0, 0), 1)]

theorem gp_wf : ∀ g ∈ [gp], BPoly.WF L5 g := by
  intro g hg
  rw [List.mem_singleton] at hg
  subst hg
  exact wf5 _ (by decide) (by decide)

theorem ptsP_valid : (∀ p ∈ ptsP, L5.valid p.1 ∧ L5.valid p.2) ∧ (∀ v ∈ valsP, L5.valid v) := by
  constructor <;> (simp only [L5_valid]; decide)

-- the run in the quotient ring (DegLex) and the values of the result at the four points
example : BPoly.interpolate RD ptsP valsP = .ok (some fP) := by decide +kernel
example : ptsP.map (fun p => BPoly.eval (primeOps 5) fP p.1 p.2) = valsP := by decide +kernel
-- every point lies on the parabola
example : ∀ g ∈ [gp], ∀ p ∈ ptsP, BPoly.eval RD.F g p.1 p.2 = RD.F.zero := by decide +kernel
-- the static hypotheses of the graded theorems
example : Graded RD.ord ∧ (∀ g ∈ [gp], ∀ d ∈ keys g, Order.NoOverflow RD.ord d) ∧
    Order.NoOverflow RD.ord (ptsP.length, ptsP.length) := by decide

/-- `bivariate_interpolate_quotient_graded` and `…_eval_graded` instantiated, all hypotheses
    discharged: the result is a normal form, congruent to the interpolant without ideal, and
    takes the prescribed values -/
example : (BPoly.WF L5 fP ∧ Bounded fP ∧ (∀ d ∈ keys fP, Order.NoOverflow RD.ord d) ∧
      ∀ d ∈ keys fP, ∀ g ∈ [gp], subDegs d (ld RD.ord g) = none) ∧
    (∃ f0, BPoly.interpolate { RD with ideal := none } ptsP valsP = .ok (some f0) ∧
      BPoly.toMv L5 fP - BPoly.toMv L5 f0 ∈
        Ideal.span {q : AddMonoidAlgebra (ZMod 5) (ℕ × ℕ) | ∃ g ∈ [gp], q = BPoly.toMv L5 g}) ∧
    ∀ i (hi : i < ptsP.length) (hi' : i < valsP.length),
      BPoly.eval RD.F fP (ptsP[i]'hi).1 (ptsP[i]'hi).2 = valsP[i]'hi' := by
  have hrun : BPoly.interpolate RD ptsP valsP = .ok (some fP) := by decide +kernel
  have h1 := bivariate_interpolate_quotient_graded (R := RD) L5 rfl gp_wf (by decide) (by decide)
    ptsP_valid.1 ptsP_valid.2 L5_hone L5_htoStr (by decide) rfl (by decide) hrun
  have h2 := bivariate_interpolate_quotient_eval_graded (R := RD) L5 rfl gp_wf (by decide)
    (by decide) ptsP_valid.1 ptsP_valid.2 L5_hone L5_htoStr L5_hpow (by decide) rfl (by decide)
    (by decide +kernel) hrun
  exact ⟨h1.1, h1.2, h2⟩

instance (F : FOps Nat) (o : Order) (gs : List (BPoly Nat)) (f : BPoly Nat) :
    Decidable (C11.RunSafe F o none gs divFuel f) := by
  unfold C11.RunSafe; infer_instance

/-- under Lex the guard `QuotientInterpSafe` is checked by evaluation (`Interp.interpSafeB`) … -/
theorem safeL : QuotientInterpSafe RL [gp] ptsP valsP :=
  Interp.interpSafe_of_B (by decide +kernel)

/-- … and `bivariate_interpolate_quotient` / `…_eval` instantiate -/
example : ∃ f, BPoly.interpolate RL ptsP valsP = .ok (some f) ∧ BPoly.WF L5 f ∧
    (∃ f0, BPoly.interpolate { RL with ideal := none } ptsP valsP = .ok (some f0) ∧
      BPoly.toMv L5 f - BPoly.toMv L5 f0 ∈
        Ideal.span {q : AddMonoidAlgebra (ZMod 5) (ℕ × ℕ) | ∃ g ∈ [gp], q = BPoly.toMv L5 g}) ∧
    ∀ i (hi : i < ptsP.length) (hi' : i < valsP.length),
      BPoly.eval RL.F f (ptsP[i]'hi).1 (ptsP[i]'hi).2 = valsP[i]'hi' := by
  have hrun : BPoly.interpolate RL ptsP valsP = .ok (some
      [((1, 3), 4), ((1, 1), 4), ((1, 0), 4), ((0, 3), 1), ((0, 2), 2), ((0, 1), 1), ((0, 0), 1)]) := by
    decide +kernel
  have h1 := bivariate_interpolate_quotient (R := RL) L5 rfl gp_wf ptsP_valid.1 ptsP_valid.2
    L5_hone L5_htoStr (by decide) rfl (by decide) safeL hrun
  have h2 := bivariate_interpolate_quotient_eval (R := RL) L5 rfl gp_wf ptsP_valid.1 ptsP_valid.2
    L5_hone L5_htoStr L5_hpow (by decide) rfl (by decide) safeL (by decide +kernel) hrun
  exact ⟨_, hrun, h1.1.1, h1.2, h2⟩

/-- `[Y - X²]` has the Gröbner property under Lex (Buchberger's criterion, no pairs) -/
theorem gp_groebner : C11.IsGroebnerBasisExact L5 RL.ord [gp] := by
  refine C11.buchberger_criterion L5 RL.ord [gp] (by decide) ?_ (fun _ _ _ _ => Or.inl rfl) ?_
    (by decide +kernel)
  · intro g hg
    refine ⟨gp_wf g hg, ?_, ?_⟩
    · rw [List.mem_singleton] at hg; subst hg; decide
    · rw [List.mem_singleton] at hg; subst hg; intro dc hdc; revert dc; decide
  · intro i j hij hj
    simp only [List.length_singleton] at hj
    omega

/-- `bivariate_interpolate_quotient_unique` instantiated: the Lex result is the normal form of the
    interpolant; e.g. `reduce(f0)` returns a list `Equal` to it -/
example : ∀ f f0 r : BPoly Nat, BPoly.interpolate RL ptsP valsP = .ok (some f) →
    BPoly.interpolate { RL with ideal := none } ptsP valsP = .ok (some f0) →
    BPoly.WF L5 r → (∀ d ∈ keys r, ∀ g ∈ [gp], subDegs d (ld RL.ord g) = none) →
    (∀ d ∈ keys r, Order.NoOverflow RL.ord d) →
    BPoly.toMv L5 r - BPoly.toMv L5 f0 ∈ Ideal.span ((toMv L5) '' {g | g ∈ [gp]}) →
    BPoly.toMv L5 r = BPoly.toMv L5 f ∧ equal RL.F r f = true :=
  fun _ _ _ h h0 wr nr er hc =>
    bivariate_interpolate_quotient_unique (R := RL) L5 rfl gp_wf (by decide) gp_groebner
      ptsP_valid.1 ptsP_valid.2 L5_hone L5_htoStr (by decide) rfl (by decide) safeL h h0 wr nr er hc

-- sanity: `reduce` of the interpolant without ideal is the Lex result
example : reduceIn RL [((0, 0), 1), ((0, 2), 4), ((1, 0), 4), ((1, 2), 2), ((2, 0), 1), ((2, 2), 1),
      ((3, 0), 4), ((3, 2), 4), ((2, 1), 3), ((3, 1), 3)] =
    some [((1, 3), 4), ((1, 1), 4), ((1, 0), 4), ((0, 3), 1), ((0, 2), 2), ((0, 1), 1), ((0, 0), 1)] ∧
    BPoly.interpolate { RL with ideal := none } ptsP valsP =
      .ok (some [((0, 0), 1), ((0, 2), 4), ((1, 0), 4), ((1, 2), 2), ((2, 0), 1), ((2, 2), 1),
        ((3, 0), 4), ((3, 2), 4), ((2, 1), 3), ((3, 1), 3)]) := by
  constructor <;> decide +kernel

-- a point off the variety does NOT get its value (the hypothesis `hzero` matters): (2,0) is not on
-- Y = X²; the result 2XY + 2X + Y² + Y + 1 takes the values 1, 2 at (0,0), (1,1) but 0 ≠ 3 at (2,0)
example : BPoly.interpolate RD [(0, 0), (1, 1), (2, 0)] [1, 2, 3] =
    .ok (some [((1, 1), 2), ((1, 0), 2), ((0, 1), 1), ((0, 0), 1), ((0, 2), 1)]) := by decide +kernel
example : [((0, 0) : Nat × Nat), (1, 1), (2, 0)].map (fun p => BPoly.eval (primeOps 5)
    [((1, 1), 2), ((1, 0), 2), ((0, 1), 1), ((0, 0), 1), ((0, 2), 1)] p.1 p.2) = [1, 2, 0] := by
  decide +kernel
-- error outcomes
example : BPoly.interpolate RD [(0, 0), (0, 0)] [1, 2] = .error .inputValue := by decide
example : BPoly.interpolate RD [(0, 0)] [1, 2] = .error .inputValue := by decide

end Examples

end Algobra.C14
