/-
  Props/C18Tables3.lean — C18, continued: the COMPLETE univariate layer (`PolynomialFromString`
  included) and the bivariate ARITHMETIC layer (constructors, arithmetic, `QuoRem`/`Rem`, reduction
  modulo the ring's ideal, `Interpolate`, equality, observers) are transparent for precomputed tables.

  Method as in Props/C18Tables2.lean: for records with `OpsAgree F F' V`, `Closed F V` and
  arguments all of whose coefficients satisfy `V` (`Tables.AllM V f` for association lists),
  `BPoly.f F' args = BPoly.f F args` and the result's coefficients satisfy `V`
  (Proofs/Tables3.lean, namespace `Tables.B`); then the lifting through `step` / `runOps` with the
  store invariant `Tables.StoreOKB` (= element + univariate + bivariate part of `StoreOKAll`).

  COVERAGE of the `Op` constructors of Model/Hist.lean (T25/T26 = this file):
    covered   eCtor (all `how` but "enc")  eBin eUn ePow eIn eProd eSetNeg eSetU eEq eShow  tables
    covered   uCtor (all `how` but "coefs": nats ints zero one regs ideal str)  uBin uUn uScale uPow
              uEval uCoef uLc uIn uSetNeg uSetScale uSetCoef uSetZero uEmbed uQuoRem uGcd uInterp
              uEq uObs                                      — the univariate layer is complete
    covered   bCtor (nats ints zero embed regs)  bBin bUn bScale bPow bEval bCoef bLc bIn bSetScale
              bSetCoef bQuoRem bRem bInterp bEq bObs
    NOT       bCtor "str" (`BPoly.parse`: same argument as `uCtor "str"` through
              `BPoly.stringToMapRx.go`, not carried out)  bCtor "map" (raw decoder, excluded by `noRaw`)
    NOT       iNew iCopy iGroebner iPred iXform iGens iObs (ideal registers: needs the invariant
              through `sPoly`/`sPairRems`/`buchberger`/`minimizeLoop`/`reduceBasis`; every one of them
              is a fold over `quoRemLoop`, `mulNoReduce`, `sub`, `normalize`, `lt`, `equal`, which all
              have their congruence + closure lemmas in Proofs/Tables3.lean)
    NOT       bad (trivial: `step` returns "bad-op")
  `history_transparent_full2` (Props/C18Tables2.lean) therefore remains unproved.

  Axioms: propext, Classical.choice, Quot.sound only.
-/
import Algobra.Proofs.Tables3
import Algobra.Props.C18Tables2

namespace Algobra.C18Tables
open Algobra Tables

/-! ## (g) the complete univariate layer -/

/-- C18-T25 (`history_transparent_univariate_all`).  T22 extended by `PolynomialFromString`
    (`uCtor … "str"`, through `UPoly.stringToMap` / `mapAdd` with the `parse` hypothesis of
    `EnvAgreeU`): ALL element-level and univariate operations except the raw decoders
    `eCtor … "enc"` and `uCtor … "coefs"` (`Tables.elemOrUOpAll`). -/
theorem history_transparent_univariate_all {α : Type} {env env' : Env α} {V : Nat → α → Prop}
    (h : EnvAgreeU env env' V) (desc : FieldDesc) (ops : List Op)
    (hops : ∀ op ∈ ops, elemOrUOpAll op = true) {s : St α} (hs : StoreOKU V s) :
    runOps env' desc s ops = runOps env desc s ops ∧ StoreOKU V (runOps env desc s ops).1 :=
  runOps_elemOrUAll_agree h desc ops hops hs

/-- value level: `PolynomialFromString` in the ring `R` over `F` against the same ring over `F'` -/
theorem upoly_parse_transparent {α : Type} {F F' : FOps α} {V : α → Prop} (hA : OpsAgree F F' V)
    (hC : Closed F V) {R : UPoly.Ring α} (hR : RingOK F V R)
    (hparse : ∀ str v, F.parse str = .ok v → V v) (s : String) :
    UPoly.parse (withF R F') s = UPoly.parse R s ∧ ∀ o, UPoly.parse R s = .ok o → OptV V o :=
  uparse_par hA hC hR hparse s

/-- on the univariate constructors `uOpAll` is exactly `noRaw` -/
theorem uOpAll_uCtor_eq_noRaw (d r : Nat) (how a : String) :
    uOpAll (.uCtor d r how a) = noRaw (.uCtor d r how a) := rfl

/-! ## (h) value level: the bivariate model functions -/

section ValueB
variable {α : Type} {F F' : FOps α} {V : α → Prop} (hA : OpsAgree F F' V) (hC : Closed F V)
include hA hC

/-- C18-T26a. Bivariate `Plus/Minus/multNoReduce/Neg/Scale/Normalize/Lt/Eval` and the coefficient
    setters: same result over `F'` as over `F`, coefficients stay valid. -/
theorem bpoly_arith_transparent (o : Order) {f g : BPoly α} (hf : AllM V f) (hg : AllM V g) {c x y : α}
    (hc : V c) (hx : V x) (hy : V y) (d : Deg) :
    (BPoly.add F' f g = BPoly.add F f g ∧ AllM V (BPoly.add F f g)) ∧
    (BPoly.sub F' f g = BPoly.sub F f g ∧ AllM V (BPoly.sub F f g)) ∧
    (BPoly.mulNoReduce F' f g = BPoly.mulNoReduce F f g ∧ B.OptM V (BPoly.mulNoReduce F f g)) ∧
    (BPoly.neg F' f = BPoly.neg F f ∧ AllM V (BPoly.neg F f)) ∧
    (BPoly.scale F' f c = BPoly.scale F f c ∧ AllM V (BPoly.scale F f c)) ∧
    (BPoly.normalize F' o f = BPoly.normalize F o f ∧ AllM V (BPoly.normalize F o f)) ∧
    (BPoly.lt F' o f = BPoly.lt F o f ∧ AllM V (BPoly.lt F o f)) ∧
    (BPoly.eval F' f x y = BPoly.eval F f x y ∧ V (BPoly.eval F f x y)) ∧
    (BPoly.setCoef F' f d c = BPoly.setCoef F f d c ∧ AllM V (BPoly.setCoef F f d c)) ∧
    (BPoly.incCoef F' f d c = BPoly.incCoef F f d c ∧ AllM V (BPoly.incCoef F f d c)) ∧
    (BPoly.decCoef F' f d c = BPoly.decCoef F f d c ∧ AllM V (BPoly.decCoef F f d c)) :=
  ⟨B.add_par hA hC hf hg, B.sub_par hA hC hf hg, B.mulNoReduce_par hA hC hf hg, B.neg_par hA hC hf,
    B.scale_par hA hC hf hc, B.normalize_par hA hC o hf, B.lt_par hA hC o hf,
    B.eval_par hA hC hf hx hy, B.setCoef_par hA hf d hc, B.incCoef_par hA hC hf d hc,
    B.decCoef_par hA hC hf d hc⟩

/-- C18-T26b. Bivariate `QuoRem` (any order, fuel, ignored index), `Rem`; in a ring over `F` with
    valid ideal generators: reduction modulo the ideal, `Times`, `Pow`, the map constructor. -/
theorem bpoly_division_transparent (o : Order) (fuel : Nat) (ignore : Option Nat) {f g : BPoly α}
    {gs : List (BPoly α)} (hf : AllM V f) (hg : AllM V g) (hgs : B.AllMM V gs)
    {R : BPoly.Ring α} (hR : B.BRingOK F V R) (n : Nat) :
    (BPoly.quoRem F' o fuel ignore f gs = BPoly.quoRem F o fuel ignore f gs ∧
      B.QRM V (BPoly.quoRem F o fuel ignore f gs)) ∧
    (BPoly.rem F' o fuel f gs = BPoly.rem F o fuel f gs ∧ B.RemM V (BPoly.rem F o fuel f gs)) ∧
    (BPoly.reduceIn (B.withFB R F') f = BPoly.reduceIn R f ∧ B.OptM V (BPoly.reduceIn R f)) ∧
    (BPoly.times (B.withFB R F') f g = BPoly.times R f g ∧ B.RemM V (BPoly.times R f g)) ∧
    (BPoly.pow (B.withFB R F') f n = BPoly.pow R f n ∧ B.RemM V (BPoly.pow R f n)) ∧
    (BPoly.ofMap (B.withFB R F') f = BPoly.ofMap R f ∧ B.OptM V (BPoly.ofMap R f)) :=
  ⟨B.quoRem_par hA hC o fuel ignore hf hgs, B.rem_par hA hC o fuel hf hgs,
    B.reduceIn_par hA hC hR hf, B.times_par hA hC hR hf hg, B.pow_par hA hC hR hf n,
    B.ofMap_par hA hC hR hf⟩

end ValueB

/-! ## (i) histories with bivariate arithmetic -/

/-- C18-T26 (`history_transparent_bivariate`).  Any history of element-level, univariate and
    bivariate ARITHMETIC operations (`Tables.elemOrUOrBOp`, see the coverage table in the header) in
    two environments related by `Tables.EnvAgreeB` (= `EnvAgreeU` + bivariate rings over field 0 with
    valid ideal generators, `env'` with the same rings over its field 0), from a store valid in its
    element, univariate and bivariate registers (`Tables.StoreOKB`): EQUAL final stores, EQUAL
    replies, and the final store is valid again. -/
theorem history_transparent_bivariate {α : Type} {env env' : Env α} {V : Nat → α → Prop}
    (h : EnvAgreeB env env' V) (desc : FieldDesc) (ops : List Op)
    (hops : ∀ op ∈ ops, elemOrUOrBOp op = true) {s : St α} (hs : StoreOKB V s) :
    runOps env' desc s ops = runOps env desc s ops ∧ StoreOKB V (runOps env desc s ops).1 :=
  runOps_elemOrUOrB_agree h desc ops hops hs

/-- one step, with the invariant -/
theorem step_transparent_bivariate {α : Type} {env env' : Env α} {V : Nat → α → Prop}
    (h : EnvAgreeB env env' V) (desc : FieldDesc) {s : St α} (hs : StoreOKB V s) (op : Op)
    (hop : elemOrUOrBOp op = true) :
    step env' desc s op = step env desc s op ∧ StoreOKB V (step env desc s op).1 :=
  step_elemOrUOrB_agree h desc hs op hop

/-- `StoreOKB` is the element + univariate + bivariate part of `StoreOKAll` -/
theorem storeOKB_of_all {α : Type} {V : Nat → α → Prop} {s : St α} (hs : StoreOKAll V s) :
    StoreOKB V s := ⟨⟨hs.1, hs.2.1⟩, hs.2.2.1⟩

/-- what T26 gives towards `history_transparent_full2`: its hypotheses imply `EnvAgreeB`, and the
    conclusion holds for histories within `elemOrUOrBOp` -/
theorem history_transparent_full2_bivariate {α : Type} (env env' : Env α) (V : Nat → α → Prop)
    (desc : FieldDesc) (ops : List Op) (s : St α) (h : EnvAgreeU env env' V)
    (hb : ∀ i, (env.bring i).F = env.fld 0 ∧ env'.bring i = { env.bring i with F := env'.fld 0 } ∧
      ∀ gs, (env.bring i).ideal = some gs → ∀ f ∈ gs, ∀ t ∈ f, V 0 t.2)
    (hs : StoreOKAll V s) (hops : ∀ op ∈ ops, elemOrUOrBOp op = true) :
    runOps env' desc s ops = runOps env desc s ops :=
  (history_transparent_bivariate
    ⟨h, fun i => ⟨(hb i).1, fun gs hgs f hf t ht => (hb i).2.2 gs hgs f hf t ht⟩,
      fun i => (hb i).2.1⟩ desc ops hops (storeOKB_of_all hs)).1

/-- the tabled and the untabled environment of a prime field satisfy `EnvAgreeB` -/
theorem envAgreeB_prime {p : Nat} (hp : p.Prime) (h32 : p - 1 < 2 ^ 32) (tabs : Nat → Bool × Bool)
    (env : Env Nat) (henv : ∀ i, env.fld i = primeOps p)
    (hring : ∀ i, (env.uring i).F = primeOps p ∧
      ∀ m, (env.uring i).modulus = some m → ∀ c ∈ m, c < p)
    (hbring : ∀ i, (env.bring i).F = primeOps p ∧
      ∀ gs, (env.bring i).ideal = some gs → ∀ f ∈ gs, ∀ t ∈ f, t.2 < p) :
    EnvAgreeB env
      { fld := fun i => primeOpsT p (tabs i).1 (tabs i).2,
        uring := fun i => { env.uring i with F := primeOpsT p (tabs 0).1 (tabs 0).2 },
        bring := fun i => { env.bring i with F := primeOpsT p (tabs 0).1 (tabs 0).2 } }
      (fun _ a => a < p) where
  u :=
    { base := ⟨(envAgree_prime hp h32 tabs env henv).agree, (envAgree_prime hp h32 tabs env henv).closed⟩
      down := fun _ _ h => h
      ofNat := fun i k => by rw [henv i]; exact (C01Prime.element_spec hp k).1
      ofInt := fun i z => by rw [henv i]; exact (C01Prime.fromSigned_spec hp h32 z).1
      parse := fun i str v hv => by rw [henv i] at hv; exact prime_parse_lt hp.pos h32 hv
      ringOK := fun i => ⟨by rw [(hring i).1, henv 0], (hring i).2⟩
      ring' := fun _ => rfl }
  bringOK := fun i => ⟨by rw [(hbring i).1, henv 0], fun gs hgs f hf t ht => (hbring i).2 gs hgs f hf t ht⟩
  bring' := fun _ => rfl

/-- C18-T27 (`history_transparent_bivariate_prime`).  A history over GF(p) with element-level,
    univariate and bivariate arithmetic operations (base and quotient rings with reduced moduli /
    ideal generators): the TABLED algorithms give the same stores and replies as the untabled model. -/
theorem history_transparent_bivariate_prime {p : Nat} (hp : p.Prime) (h32 : p - 1 < 2 ^ 32)
    (tabs : Nat → Bool × Bool) (env : Env Nat) (henv : ∀ i, env.fld i = primeOps p)
    (hring : ∀ i, (env.uring i).F = primeOps p ∧
      ∀ m, (env.uring i).modulus = some m → ∀ c ∈ m, c < p)
    (hbring : ∀ i, (env.bring i).F = primeOps p ∧
      ∀ gs, (env.bring i).ideal = some gs → ∀ f ∈ gs, ∀ t ∈ f, t.2 < p)
    (ops : List Op) (hops : ∀ op ∈ ops, elemOrUOrBOp op = true) {s : St Nat}
    (hs : StoreOKB (fun _ a => a < p) s) :
    runOps { fld := fun i => primeOpsT p (tabs i).1 (tabs i).2,
             uring := fun i => { env.uring i with F := primeOpsT p (tabs 0).1 (tabs 0).2 },
             bring := fun i => { env.bring i with F := primeOpsT p (tabs 0).1 (tabs 0).2 } }
        (.prime p) s ops
      = runOps env (.prime p) s ops :=
  (history_transparent_bivariate (envAgreeB_prime hp h32 tabs env henv hring hbring) _ ops hops hs).1

/-! ### non-vacuity: GF(7), `F_7[X,Y]` (lex) and the quotient ring modulo `X² + 1` -/

/-- untabled environment with bivariate rings over GF(7); ring 1 is `F_7[X,Y]/(X² + 1)` -/
def env7b : Env Nat :=
  { env7 with bring := fun i => { F := primeOps 7, ord := ⟨.lex, true⟩, varNames := ("X", "Y"),
                                  ideal := if i = 1 then some [[((2, 0), 1), ((0, 0), 1)]] else none } }

/-- tabled environment -/
def env7bT : Env Nat :=
  { fld := fun _ => primeOpsT 7 true true,
    uring := fun i => { env7b.uring i with F := primeOpsT 7 true true },
    bring := fun i => { env7b.bring i with F := primeOpsT 7 true true } }

/-- a history with bivariate arithmetic (constructors without string decoding): builds
    `3X²Y + 4Y + 1` and `XY + 3`, requests tables, then `Times Plus Pow QuoRem Rem Eval Scale
    Normalize SetCoef/Increment Mult Equal`, observers, and a univariate `Times` in between -/
def ops7b : List Op := [.eCtor 0 0 "gen" "", .eCtor 1 0 "one" "", .eBin 2 "plus" 0 1,
  .bCtor 0 0 "zero" "", .bSetCoef "set" 0 (2, 1) 0, .bSetCoef "inc" 0 (0, 1) 2, .bSetCoef "set" 0 (0, 0) 1,
  .bCtor 1 0 "zero" "", .bSetCoef "set" 1 (1, 1) 1, .bSetCoef "dec" 1 (0, 0) 2,
  .tables 0 true true none, .bBin 2 "times" 0 1, .bBin 3 "plus" 2 0, .bPow 4 1 3,
  .bQuoRem [5, 6] 4 [1], .bRem 7 2 [0], .bEval 3 4 0 2, .bScale 8 3 2, .bUn 9 "normalize" 8,
  .uCtor 0 0 "one" "", .uSetCoef "set" 0 2 0, .uBin 1 "times" 0 0,
  .bIn "mult" 9 1, .bCoef 4 9 (1, 1), .bLc 5 9, .bEq 9 4, .bObs 9, .bObs 7]

/-- T27 applied (`env7bT` is, by definition, the tabled environment of T27) -/
example : runOps env7bT (.prime 7) {} ops7b = runOps env7b (.prime 7) {} ops7b :=
  history_transparent_bivariate_prime (by norm_num) (by norm_num) (fun _ => (true, true)) env7b
    (fun _ => rfl) (fun i => ⟨rfl, fun m hm => by
      simp only [env7b, env7] at hm
      split at hm
      · cases hm; decide
      · cases hm⟩)
    (fun i => ⟨rfl, fun gs hgs => by
      simp only [env7b] at hgs
      split at hgs
      · cases hgs; decide
      · cases hgs⟩) ops7b (by decide)
    ⟨⟨fun k r hk => (by cases hk), fun k r hk => (by cases hk)⟩, fun k r hk => (by cases hk)⟩

/-- … and evaluated: both environments, explicit replies -/
example : (runOps env7bT (.prime 7) {} ops7b).2 = (runOps env7b (.prime 7) {} ops7b).2 ∧
    (runOps env7b (.prime 7) {} ops7b).2 =
  ["ok 0#3", "ok 0#1", "ok 0#4", "ok 0#", "recv 0#2:1:3", "recv 0#2:1:3/0:1:4",
   "recv 0#2:1:3/0:1:4/0:0:1", "ok 0#", "recv 0#1:1:1", "recv 0#1:1:1/0:0:3", "ok",
   "ok 0#3:2:3/2:1:2/1:2:4/1:1:1/0:1:5/0:0:3", "ok 0#3:2:3/2:1:5/1:2:4/1:1:1/0:1:2/0:0:4",
   "ok 0#3:3:1/2:2:2/1:1:6/0:0:6", "ok 2:2:1/1:1:6/0:0:2 ", "ok ", "ok 0#1",
   "ok 0#3:2:5/2:1:6/1:2:2/1:1:4/0:1:1/0:0:2", "ok 0#3:2:1/2:1:4/1:2:6/1:1:5/0:1:3/0:0:6", "ok 0#1",
   "recv 0#1/0/3", "ok 0#1/0/6/0/2", "recv 0#4:3:1/2:3:6/2:2:5/2:1:5/0:1:2/0:0:4", "ok 0#0", "ok 0#1",
   "eq false", "obs ld=4:3 lc=1 z=false m=false lt=4:3:1 s=X^4Y^3 + 6X^2Y^3 + 5X^2Y^2 + 5X^2Y + 2Y + 4",
   "obs ld=0:0 lc=0 z=true m=false lt= s=0"] := by
  decide +kernel

/-- reduction modulo the ideal of the quotient ring `F_7[X,Y]/(X² + 1)`, both records -/
example : BPoly.reduceIn (env7bT.bring 1) [((3, 1), 2), ((0, 0), 5)] = some [((1, 1), 5), ((0, 0), 5)] ∧
    BPoly.reduceIn (env7b.bring 1) [((3, 1), 2), ((0, 0), 5)] = some [((1, 1), 5), ((0, 0), 5)] := by
  decide +kernel

end Algobra.C18Tables
