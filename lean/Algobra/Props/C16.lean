/-
  Props/C16.lean — in-place operations change only their receiver; all others change nothing but
  their destination (object level, model side).
-/
import Algobra.Proofs.Step
namespace Algobra.C16
open Algobra
variable {α : Type} (env : Env α) (desc : FieldDesc)

/-! ### C16-1 : frame -/

/-- C16-1. Every register that is not in the operation's write set has the same content after `step`;
    the table-presence lists change only under `.tables`. "Modify no other object". -/
theorem step_frame (s : St α) (op : Op) :
    (∀ k, k ∉ op.writesE → St.getL (step env desc s op).1.es k = St.getL s.es k) ∧
    (∀ k, k ∉ op.writesU → St.getL (step env desc s op).1.us k = St.getL s.us k) ∧
    (∀ k, k ∉ op.writesB → St.getL (step env desc s op).1.bs k = St.getL s.bs k) ∧
    (∀ k, k ∉ op.writesI → St.getL (step env desc s op).1.ids k = St.getL s.ids k) ∧
    (op.isTables = false → (step env desc s op).1.addTabs = s.addTabs ∧ (step env desc s op).1.mulTabs = s.mulTabs) :=
  let h := step_frame' env desc s op
  ⟨h.es, h.us, h.bs, h.ids, h.tabs⟩

/-- C16-1 for histories (the driver's fold of `step`): a register outside the union of the write sets
    is unchanged at the end. -/
theorem history_frame (s : St α) (ops : List Op) :
    let s' := ops.foldl (fun st op => (step env desc st op).1) s
    (∀ k, k ∉ ops.flatMap Op.writesE → St.getL s'.es k = St.getL s.es k) ∧
    (∀ k, k ∉ ops.flatMap Op.writesU → St.getL s'.us k = St.getL s.us k) ∧
    (∀ k, k ∉ ops.flatMap Op.writesB → St.getL s'.bs k = St.getL s.bs k) ∧
    (∀ k, k ∉ ops.flatMap Op.writesI → St.getL s'.ids k = St.getL s.ids k) ∧
    (ops.any Op.isTables = false → s'.addTabs = s.addTabs ∧ s'.mulTabs = s.mulTabs) := by
  intro s'
  have h := runOps_frame env desc s ops
  rw [runOps_fst] at h
  exact ⟨h.es, h.us, h.bs, h.ids, h.tabs⟩

/-- the write sets are tight on the element side: what was written can be read back -/
example (s : St α) : St.getL (step env desc s (.eSetU 3 5)).1.es 3
    = some { eGet env s 3 with val := (fld env (eGet env s 3).home).ofNat 5 } :=
  St.getL_setL_same _ _ _

end Algobra.C16
