/-
  Props/C16.lean — in-place operations change only their receiver; all others change nothing but
  their destination (object level, model side).
-/
import Algobra.Proofs.Step
namespace Algobra.C16
open Algobra
variable {α : Type} (env : Env α) (desc : FieldDesc)

/-! ### C16-1 : frame -/

/-- C16-1. Every register that is not in the operation's write set has the same content after `step`;
    the table-presence lists change only under `.tables`. "Modify no other object". -/
theorem step_frame (s : St α) (op : Op) :
    (∀ k, k ∉ op.writesE → St.getL (step env desc s op).1.es k = St.getL s.es k) ∧
    (∀ k, k ∉ op.writesU → St.getL (step env desc s op).1.us k = St.getL s.us k) ∧
    (∀ k, k ∉ op.writesB → St.getL (step env desc s op).1.bs k = St.getL s.bs k) ∧
    (∀ k, k ∉ op.writesI → St.getL (step env desc s op).1.ids k = St.getL s.ids k) ∧
    (op.isTables = false → (step env desc s op).1.addTabs = s.addTabs ∧ (step env desc s op).1.mulTabs = s.mulTabs) :=
  let h := step_frame' env desc s op
  ⟨h.es, h.us, h.bs, h.ids, h.tabs⟩

/-- C16-1 for histories (the driver's fold of `step`): a register outside the union of the write sets
    is unchanged at the end. -/
theorem history_frame (s : St α) (ops : List Op) :
    let s' := ops.foldl (fun st op => (step env desc st op).1) s
    (∀ k, k ∉ ops.flatMap Op.writesE → St.getL s'.es k = St.getL s.es k) ∧
    (∀ k, k ∉ ops.flatMap Op.writesU → St.getL s'.us k = St.getL s.us k) ∧
    (∀ k, k ∉ ops.flatMap Op.writesB → St.getL s'.bs k = St.getL s.bs k) ∧
    (∀ k, k ∉ ops.flatMap Op.writesI → St.getL s'.ids k = St.getL s.ids k) ∧
    (ops.any Op.isTables = false → s'.addTabs = s.addTabs ∧ s'.mulTabs = s.mulTabs) := by
  intro s'
  have h := runOps_frame env desc s ops
  rw [runOps_fst] at h
  exact ⟨h.es, h.us, h.bs, h.ids, h.tabs⟩

/-- sanity: `e1 := e0 + e0` in GF(5) leaves `e0` alone and writes 4 to `e1` -/
example : let s' := (step env5 (.prime 5) sErr (.eBin 1 "plus" 0 0)).1
    (St.getL s'.es 0).map (·.val) = some 2 ∧ (St.getL s'.es 1).map (·.val) = some 4 := by decide

/-- the write sets are tight on the element side: what was written can be read back -/
example (s : St α) : St.getL (step env desc s (.eSetU 3 5)).1.es 3
    = some { eGet env s 3 with val := (fld env (eGet env s 3).home).ofNat 5 } :=
  St.getL_setL_same _ _ _

/-! ### C16-2 : value-returning operations preserve their operands and read before they write -/

/-- C16-2 (read-before-write form). For every single-destination value-returning operation
    (`Op.isValue`: constructors, `eBin eUn ePow`, `uBin uUn uScale uPow uEval uCoef uLc uGcd uInterp`,
    `bBin bUn bScale bPow bEval bCoef bLc bRem bInterp`, `iNew iCopy iGroebner`) there are a written value `w`
    (possibly "nothing": the operation failed) and a reply, both determined by the OLD store alone, such that
    running the operation with ANY destination `d'` — fresh, or equal to one of its operand registers —
    yields exactly the old store with `d'` set to `w`, and that reply. `op` itself is `op.withDst op.dst`. -/
theorem value_ops_read_before_write (s : St α) (op : Op) (hv : op.isValue = true) :
    ∃ (w : Wr α) (reply : String), ∀ d', step env desc s (op.withDst d') = (s.write d' w, reply) :=
  step_dst env desc s op hv

/-- non-vacuity / sanity: `e0 := e0 * e0` (destination = both operands) computes 2*2 = 4 from the old value,
    exactly as with the fresh destination 7 -/
example : (Op.eBin 0 "times" 0 0).isValue = true := rfl
example : (St.getL (step env5 (.prime 5) sErr (.eBin 0 "times" 0 0)).1.es 0).map (·.val) = some 4 ∧
    (St.getL (step env5 (.prime 5) sErr (.eBin 7 "times" 0 0)).1.es 7).map (·.val) = some 4 ∧
    (step env5 (.prime 5) sErr (.eBin 0 "times" 0 0)).2 = (step env5 (.prime 5) sErr (.eBin 7 "times" 0 0)).2 := by
  decide

/-- … in particular the result with an aliased destination equals the result with any other (e.g. fresh)
    destination `d'`: same reply, same written value. -/
theorem value_ops_alias_free (s : St α) (op : Op) (hv : op.isValue = true) (d' : Nat) :
    ∃ w : Wr α, step env desc s op = (s.write op.dst w, (step env desc s op).2) ∧
      step env desc s (op.withDst d') = (s.write d' w, (step env desc s op).2) := by
  obtain ⟨w, reply, h⟩ := step_dst env desc s op hv
  have h0 := h op.dst
  rw [Op.withDst_dst] at h0
  exact ⟨w, by rw [h0], by rw [h d', h0]⟩

/-- C16-2 (operands preserved). A value-returning operation changes no register other than its
    destination: every operand register different from `op.dst` (of any sort) is unchanged. -/
theorem value_ops_preserve_operands (s : St α) (op : Op) (hv : op.isValue = true) (k : Nat) (hk : k ≠ op.dst) :
    St.getL (step env desc s op).1.es k = St.getL s.es k ∧
    St.getL (step env desc s op).1.us k = St.getL s.us k ∧
    St.getL (step env desc s op).1.bs k = St.getL s.bs k ∧
    St.getL (step env desc s op).1.ids k = St.getL s.ids k := by
  obtain ⟨w, h, _⟩ := value_ops_alias_free env desc s op hv 0
  rw [h]
  cases w <;> unfold St.write <;>
    first
    | exact ⟨rfl, rfl, rfl, rfl⟩
    | exact ⟨St.getL_setL_ne _ _ hk, rfl, rfl, rfl⟩
    | exact ⟨rfl, St.getL_setL_ne _ _ hk, rfl, rfl⟩
    | exact ⟨rfl, rfl, St.getL_setL_ne _ _ hk, rfl⟩
    | exact ⟨rfl, rfl, rfl, St.getL_setL_ne _ _ hk⟩

/-- the multi-destination operations: outputs and reply are independent of the destination list -/
theorem uQuoRem_reads_before_write (s : St α) (a : Nat) (gs : List Nat) :
    ∃ (o : Option (Nat × List (UPoly α))) (reply : String), ∀ dsts',
      step env desc s (.uQuoRem dsts' a gs) =
        (match o with
          | none => s
          | some (h, outs) =>
            { s with us := (dsts'.zip outs).foldl (fun us (k, v) => St.setL us k { home := h, val := v }) s.us },
         reply) :=
  step_uQuoRem_dsts env desc s a gs

theorem bQuoRem_reads_before_write (s : St α) (a : Nat) (gs : List Nat) :
    ∃ (o : Option (Nat × List (BPoly α))) (reply : String), ∀ dsts',
      step env desc s (.bQuoRem dsts' a gs) =
        (match o with
          | none => s
          | some (h, outs) =>
            { s with bs := (dsts'.zip outs).foldl (fun bs (k, v) => St.setL bs k { home := h, val := v }) s.bs },
         reply) :=
  step_bQuoRem_dsts env desc s a gs

theorem iGens_reads_before_write (s : St α) (a : Nat) :
    ∃ (outs : List (BPoly α)) (reply : String), ∀ dsts',
      step env desc s (.iGens dsts' a) =
        ({ s with bs := (dsts'.zip outs).foldl (fun bs (k, v) => St.setL bs k { home := 0, val := v }) s.bs },
         reply) :=
  step_iGens_dsts env desc s a

/-! ### C16-3 : in-place operations return their receiver -/

/-- C16-3. Under the operation's exact success guard `Op.recvOk` (spelled out per operation in
    Proofs/Step.lean: operands error-free, not foreign, same field / ring — and nothing at all for
    `SetNeg`, `SetUint`, `SetScale`, `SetCoef`, `SetZero` and polynomial `Mult`), the reply is
    `"recv " ++ show r` and the new store is the old one with exactly the receiver register set to `r`. -/
theorem inplace_returns_receiver (s : St α) (op : Op) (h : op.recvOk env s) :
    (∃ (a : Nat) (r : EReg α), op.writesE = [a] ∧ op.writesU = [] ∧ op.writesB = [] ∧ op.writesI = [] ∧
        step env desc s op = ({ s with es := St.setL s.es a r }, "recv " ++ showE env r)) ∨
    (∃ (a : Nat) (r : UReg α), op.writesE = [] ∧ op.writesU = [a] ∧ op.writesB = [] ∧ op.writesI = [] ∧
        step env desc s op = ({ s with us := St.setL s.us a r }, "recv " ++ showU env r)) ∨
    (∃ (a : Nat) (r : BReg α), op.writesE = [] ∧ op.writesU = [] ∧ op.writesB = [a] ∧ op.writesI = [] ∧
        step env desc s op = ({ s with bs := St.setL s.bs a r }, "recv " ++ showB env r)) := by
  cases op <;> try (exact h.elim)
  case eIn op a b =>
    obtain ⟨hfa, hfb, hae, hbe, hh⟩ := h
    obtain ⟨r0, hr0⟩ : ∃ r0, eInRes env s op a b = (r0, r0, true) := by
      unfold eInRes
      by_cases hop : (op == "mult") = true
      · simp only [hop, if_true]
        rw [eProdFn_ok env _ _ _ _ _ (hfa hop) hfb hae hbe hh]; exact ⟨_, rfl⟩
      · simp only [hop, Bool.false_eq_true, if_false]
        rw [eInPlace_ok env _ _ _ hfb hae hbe hh]; exact ⟨_, rfl⟩
    refine .inl ⟨a, r0, rfl, rfl, rfl, rfl, ?_⟩
    rw [step_eIn, hr0]; rfl
  case eProd a b c =>
    obtain ⟨hfb, hfc, hbe, hce, hh⟩ := h
    obtain ⟨r0, hr0⟩ : ∃ r0, eProdRes env s a b c = (r0, r0, true) := by
      unfold eProdRes
      rw [eProdFn_ok env _ _ _ _ _ hfb hfc hbe hce hh]; exact ⟨_, rfl⟩
    refine .inl ⟨a, r0, rfl, rfl, rfl, rfl, ?_⟩
    rw [step_eProd, hr0]; rfl
  case eSetNeg a => exact .inl ⟨a, _, rfl, rfl, rfl, rfl, rfl⟩
  case eSetU a n => exact .inl ⟨a, _, rfl, rfl, rfl, rfl, rfl⟩
  case uIn op a b =>
    obtain ⟨r0, hr0⟩ : ∃ r0, uInRes env s op a b = (r0, r0, true) := by
      unfold uInRes
      by_cases hop : (op == "mult") = true
      · simp only [hop, if_true]; exact ⟨_, rfl⟩
      · obtain ⟨hae, hbe, hh⟩ := h.resolve_left hop
        simp only [hop, Bool.false_eq_true, if_false]
        rw [uInPlace_ok env _ _ _ hae hbe hh]; exact ⟨_, rfl⟩
    refine .inr (.inl ⟨a, r0, rfl, rfl, rfl, rfl, ?_⟩)
    rw [step_uIn, hr0]; rfl
  case uSetNeg a => exact .inr (.inl ⟨a, _, rfl, rfl, rfl, rfl, rfl⟩)
  case uSetScale a e => exact .inr (.inl ⟨a, _, rfl, rfl, rfl, rfl, rfl⟩)
  case uSetCoef op a d e => exact .inr (.inl ⟨a, _, rfl, rfl, rfl, rfl, rfl⟩)
  case uSetZero a => exact .inr (.inl ⟨a, _, rfl, rfl, rfl, rfl, rfl⟩)
  case bIn op a b =>
    obtain ⟨r0, hr0⟩ : ∃ r0, bInRes env s op a b = (r0, r0, true) := by
      unfold bInRes
      by_cases hop : (op == "mult") = true
      · simp only [hop, if_true]; exact ⟨_, rfl⟩
      · obtain ⟨hae, hbe, hh⟩ := h.resolve_left hop
        simp only [hop, Bool.false_eq_true, if_false]
        rw [bInPlace_ok env _ _ _ hae hbe hh]; exact ⟨_, rfl⟩
    refine .inr (.inr ⟨a, r0, rfl, rfl, rfl, rfl, ?_⟩)
    rw [step_bIn, hr0]; rfl
  case bSetScale a e => exact .inr (.inr ⟨a, _, rfl, rfl, rfl, rfl, rfl⟩)
  case bSetCoef op a d e => exact .inr (.inr ⟨a, _, rfl, rfl, rfl, rfl, rfl⟩)

/-- non-vacuity: the guard holds for `e0.Add(e0)`, `e0.Prod(e0, e0)`, `p0.Add(p0)`, `q0.Sub(q0)` on `sErr` … -/
example : (Op.eIn "add" 0 0).recvOk env5 sErr := by unfold Op.recvOk; decide
example : (Op.eProd 0 0 0).recvOk env5 sErr := by unfold Op.recvOk; decide
example : (Op.uIn "add" 0 0).recvOk env5 sErr := by unfold Op.recvOk; decide
example : (Op.bIn "sub" 0 0).recvOk env5 sErr := by unfold Op.recvOk; decide
/-- … and fails when the argument is erroneous: then *another* object is returned -/
example : (step env5 (.prime 5) sErr (.eIn "add" 0 1)).2 = "other !InputValue" := by decide
example : (step env5 (.prime 5) sErr (.eIn "add" 0 0)).2 = "recv 0#4" := by decide

end Algobra.C16
