/-
  Props/C07.lean — property C07: univariate quotient rings compute with unique reduced
  representatives (Model/UPoly.lean: `reduceLoop`, `reduce`, `Ring`, `reduceIn`, `ofCoefs`,
  `ofNats`, `ofInts`, `times`, `powLoop`, `pow`; the model of /repo/univariate/ideal.go `Reduce`,
  ring.go constructors, polynomial.go `reduce`, arithmetic.go `Times`/`Mult`/`Pow`).

  "In a quotient ring F[X]/(g) with deg g >= 1, every polynomial obtained from any constructor
   (coefficient slices, signed or unsigned integers, strings, embedding with reduction) or from
   Plus, Minus, Times, Mult, Pow and scaling is the unique representative of its residue class of
   degree below deg g; hence two expressions denote the same class exactly when Equal reports
   true.  Arithmetic commutes with reduction: the value computed in the quotient equals the
   Euclidean remainder modulo g of the same expression evaluated in F[X]."

  Setting: `R : UPoly.Ring α` with coefficient record `R.F`, `L : Lawful R.F K` (the record
  implements the field `K`), `IsQuot R L g` : the modulus of `R` is the well-formed monic `g` with
  `deg g ≥ 1` (moduli are normalised by `NewIdeal`, C06).  `p %ₘ q` is Mathlib's remainder modulo a
  monic polynomial (`= p % q`, `modByMonic_eq_mod`).  Proofs are in Proofs/UPolyDiv.lean.
  The string constructor is not part of Model/UPoly.lean (parsing is C04); it produces a
  coefficient map that goes through the same `reduce`.
-/
import Algobra.Proofs.UPolyDiv
import Algobra.Proofs.PrimeField
import Algobra.Props.C05

namespace Algobra
namespace C07

open Polynomial UPoly

variable {α : Type} {K : Type} [Field K]

/-! ### C07-1: `Ideal.Reduce` -/

section Reduce
variable {F : FOps α} (L : Lawful F K)

/-- for a well-formed monic modulus of degree ≥ 1, `reduce` (with the fuel `len f + 1` the model
    gives it) returns the canonical representation of the remainder `f %ₘ g`, of degree `< deg g` -/
theorem reduce_spec {g : UPoly α} (hg : WF L g) (hmon : (toPoly L g).Monic)
    (hdeg : 1 ≤ (toPoly L g).natDegree) {f : UPoly α} (hf : WF L f) :
    ∃ f', reduce F g f = some f' ∧ WF L f' ∧ toPoly L f' = toPoly L f %ₘ toPoly L g ∧
      (toPoly L f').degree < (toPoly L g).degree :=
  UPoly.reduce_spec L hg hmon hdeg hf

/-- the loop itself, for any fuel above `Ld f` -/
theorem reduceLoop_spec {g : UPoly α} (hg : WF L g) (hmon : (toPoly L g).Monic)
    (hdeg : 1 ≤ ld g) (fuel : Nat) (f : UPoly α) (hf : WF L f) (hfuel : ld f < fuel) :
    ∃ f', reduceLoop F g fuel f = some f' ∧ WF L f' ∧
      toPoly L f' = toPoly L f %ₘ toPoly L g ∧ ld f' < ld g :=
  UPoly.reduceLoop_spec L hg hmon hdeg fuel f hf hfuel

/-- unit ideal ("fix: unit ideals"): a modulus of degree 0 sends everything to zero … -/
theorem reduce_unit {g : UPoly α} (h : ld g = 0) (f : UPoly α) : reduce F g f = some (zero F) :=
  UPoly.reduce_unit h f

/-- … which is again the remainder, so `reduce` is `%ₘ` for every monic modulus -/
theorem reduce_monic {g : UPoly α} (hg : WF L g) (hmon : (toPoly L g).Monic) {f : UPoly α}
    (hf : WF L f) :
    ∃ f', reduce F g f = some f' ∧ WF L f' ∧ toPoly L f' = toPoly L f %ₘ toPoly L g :=
  UPoly.reduce_monic L hg hmon hf

/-- the remainder modulo a monic polynomial is the Euclidean remainder -/
theorem modByMonic_eq_mod {p q : K[X]} (hq : q.Monic) : p %ₘ q = p % q :=
  Polynomial.modByMonic_eq_mod p hq

/-- reduced representatives are unique: two well-formed lists of degree `< deg g` in the same
    residue class are the same list -/
theorem reduced_unique {g r1 r2 : UPoly α} (h1 : WF L r1) (h2 : WF L r2)
    (d1 : (toPoly L r1).degree < (toPoly L g).degree)
    (d2 : (toPoly L r2).degree < (toPoly L g).degree)
    (h : toPoly L g ∣ toPoly L r1 - toPoly L r2) : r1 = r2 :=
  toPoly_injective_on_WF L h1 h2 ((equal_iff L h1 h2).1 ((equal_iff_dvd_sub L h1 h2 d1 d2).2 h))

/-! ### C07-4: `Equal` on reduced representatives decides equality of residue classes -/

theorem equal_iff_same_class {g r1 r2 : UPoly α} (h1 : WF L r1) (h2 : WF L r2)
    (d1 : (toPoly L r1).degree < (toPoly L g).degree)
    (d2 : (toPoly L r2).degree < (toPoly L g).degree) :
    equal F r1 r2 = true ↔ toPoly L g ∣ toPoly L r1 - toPoly L r2 :=
  equal_iff_dvd_sub L h1 h2 d1 d2

end Reduce

/-! ### C07-2: constructors and operations of a quotient ring -/

section Quot
variable {R : UPoly.Ring α} {L : Lawful R.F K} {g : UPoly α} (Q : IsQuot R L g)
include Q

omit Q in
/-- what `IsQuot` says -/
theorem isQuot_iff : IsQuot R L g ↔ R.modulus = some g ∧ WF L g ∧ (toPoly L g).Monic ∧
    1 ≤ (toPoly L g).natDegree :=
  ⟨fun h => ⟨h.modulus_eq, h.wf, h.monic, h.deg⟩, fun h => ⟨h.1, h.2.1, h.2.2.1, h.2.2.2⟩⟩

omit Q in
/-- the moduli the library produces qualify: a generator returned by `NewIdeal` (C06) is monic as
    soon as it has degree ≥ 1 -/
theorem isQuot_of_newIdeal {gens : List (UPoly α)} (hgens : ∀ x ∈ gens, WF L x)
    (h : newIdeal R.F gens = some g) (hmod : R.modulus = some g)
    (hdeg : 1 ≤ (toPoly L g).natDegree) : IsQuot R L g := by
  obtain ⟨hw, -, hm⟩ := UPoly.newIdeal_spec L hgens h
  refine ⟨hmod, hw, hm.resolve_left fun h0 => ?_, hdeg⟩
  rw [h0, natDegree_zero] at hdeg
  omega

/-- embedding with reduction (`(*Polynomial).reduce`) -/
theorem reduceIn_spec {f : UPoly α} (hf : WF L f) :
    ∃ f', reduceIn R f = some f' ∧ WF L f' ∧ toPoly L f' = toPoly L f %ₘ toPoly L g ∧
      (toPoly L f').degree < (toPoly L g).degree :=
  UPoly.reduceIn_spec Q hf

/-- `Polynomial(coefs)`: any list of valid coefficients (trailing zeros allowed) -/
theorem ofCoefs_spec {cs : List α} (hcs : AllValid L cs) :
    ∃ r, ofCoefs R cs = some r ∧ WF L r ∧ toPoly L r = toPoly L cs %ₘ toPoly L g ∧
      (toPoly L r).degree < (toPoly L g).degree :=
  UPoly.ofCoefs_spec Q hcs

/-- `PolynomialFromUnsigned`; `hofNat` is what C01 proves about `ElementFromUnsigned` -/
theorem ofNats_spec (hofNat : ∀ n, L.valid (R.F.ofNat n) ∧ L.embed (R.F.ofNat n) = (n : K))
    (cs : List Nat) :
    ∃ r, ofNats R cs = some r ∧ WF L r ∧
      toPoly L r = polyOfList (cs.map (Nat.cast : ℕ → K)) %ₘ toPoly L g ∧
      (toPoly L r).degree < (toPoly L g).degree := by
  obtain ⟨r, h1, h2, h3, h4⟩ := UPoly.ofNats_spec Q (fun n => (hofNat n).1) cs
  refine ⟨r, h1, h2, ?_, h4⟩
  have e : (cs.map R.F.ofNat).map L.embed = cs.map (Nat.cast : ℕ → K) := by
    rw [List.map_map]; exact List.map_congr_left fun n _ => (hofNat n).2
  rw [h3, toPoly_eq_polyOfList, e]

/-- `PolynomialFromSigned`; `hofInt` is what C01 proves about `ElementFromSigned` -/
theorem ofInts_spec (hofInt : ∀ n, L.valid (R.F.ofInt n) ∧ L.embed (R.F.ofInt n) = (n : K))
    (cs : List Int) :
    ∃ r, ofInts R cs = some r ∧ WF L r ∧
      toPoly L r = polyOfList (cs.map (Int.cast : ℤ → K)) %ₘ toPoly L g ∧
      (toPoly L r).degree < (toPoly L g).degree := by
  obtain ⟨r, h1, h2, h3, h4⟩ := UPoly.ofInts_spec Q (fun n => (hofInt n).1) cs
  refine ⟨r, h1, h2, ?_, h4⟩
  have e : (cs.map R.F.ofInt).map L.embed = cs.map (Int.cast : ℤ → K) := by
    rw [List.map_map]; exact List.map_congr_left fun n _ => (hofInt n).2
  rw [h3, toPoly_eq_polyOfList, e]

omit Q in
/-- `polyOfList cs` is the polynomial with coefficient list `cs` -/
theorem coeff_polyOfList (cs : List K) (i : Nat) : (polyOfList cs).coeff i = cs.getD i 0 :=
  UPoly.coeff_polyOfList cs i

/-- `Times` / `Mult` -/
theorem times_spec {f h : UPoly α} (hf : AllValid L f) (hh : AllValid L h) :
    ∃ r, times R f h = some r ∧ WF L r ∧
      toPoly L r = (toPoly L f * toPoly L h) %ₘ toPoly L g ∧
      (toPoly L r).degree < (toPoly L g).degree :=
  UPoly.times_spec Q hf hh

/-- `Pow`: the loop bound 70 of the model suffices for every exponent `< 2^69`, in particular for
    every Go `uint` -/
theorem pow_spec {f : UPoly α} (hf : AllValid L f) {n : Nat} (hn : n < 2 ^ 64) :
    ∃ r, pow R f n = some r ∧ WF L r ∧ toPoly L r = (toPoly L f ^ n) %ₘ toPoly L g ∧
      (toPoly L r).degree < (toPoly L g).degree :=
  UPoly.pow_spec Q hf (lt_trans hn (by norm_num))

end Quot

/-! ### C07-3: all finite sequences of ring operations -/

/-- expressions over a quotient ring: the constructors and operations of the API -/
inductive QExpr (α : Type) where
  /-- an existing polynomial brought into the ring (embedding with reduction) -/
  | embed (f : UPoly α)
  /-- `Polynomial(coefs)` -/
  | coefs (cs : List α)
  /-- `PolynomialFromUnsigned(coefs)` -/
  | nats (cs : List Nat)
  /-- `PolynomialFromSigned(coefs)` -/
  | ints (cs : List Int)
  /-- `Plus` / `Add` -/
  | add (a b : QExpr α)
  /-- `Minus` / `Sub` -/
  | sub (a b : QExpr α)
  /-- `Neg` / `SetNeg` -/
  | neg (a : QExpr α)
  /-- `Times` / `Mult` -/
  | mul (a b : QExpr α)
  /-- `Pow` -/
  | pow (a : QExpr α) (n : Nat)
  /-- `Scale` / `SetScale` -/
  | scale (a : QExpr α) (c : α)

/-- evaluation with the model functions, in the quotient ring `R` -/
def evalQ (R : UPoly.Ring α) : QExpr α → Option (UPoly α)
  | .embed f => reduceIn R f
  | .coefs cs => ofCoefs R cs
  | .nats cs => ofNats R cs
  | .ints cs => ofInts R cs
  | .add a b => (evalQ R a).bind fun x => (evalQ R b).map fun y => UPoly.add R.F x y
  | .sub a b => (evalQ R a).bind fun x => (evalQ R b).map fun y => UPoly.sub R.F x y
  | .neg a => (evalQ R a).map fun x => UPoly.neg R.F x
  | .mul a b => (evalQ R a).bind fun x => (evalQ R b).bind fun y => times R x y
  | .pow a n => (evalQ R a).bind fun x => UPoly.pow R x n
  | .scale a c => (evalQ R a).map fun x => UPoly.scale R.F x c

/-- evaluation of the same expression in `K[X]`, without any reduction -/
noncomputable def evalP {R : UPoly.Ring α} (L : Lawful R.F K) : QExpr α → K[X]
  | .embed f => toPoly L f
  | .coefs cs => toPoly L cs
  | .nats cs => toPoly L (cs.map R.F.ofNat)
  | .ints cs => toPoly L (cs.map R.F.ofInt)
  | .add a b => evalP L a + evalP L b
  | .sub a b => evalP L a - evalP L b
  | .neg a => - evalP L a
  | .mul a b => evalP L a * evalP L b
  | .pow a n => evalP L a ^ n
  | .scale a c => C (L.embed c) * evalP L a

/-- admissible inputs: well-formed polynomials, valid coefficients and scalars, `uint` exponents -/
def QExpr.Valid {R : UPoly.Ring α} (L : Lawful R.F K) : QExpr α → Prop
  | .embed f => WF L f
  | .coefs cs => AllValid L cs
  | .nats cs => ∀ n ∈ cs, L.valid (R.F.ofNat n)
  | .ints cs => ∀ n ∈ cs, L.valid (R.F.ofInt n)
  | .add a b => a.Valid L ∧ b.Valid L
  | .sub a b => a.Valid L ∧ b.Valid L
  | .neg a => a.Valid L
  | .mul a b => a.Valid L ∧ b.Valid L
  | .pow a n => a.Valid L ∧ n < 2 ^ 64
  | .scale a c => a.Valid L ∧ L.valid c

section Quot
variable {R : UPoly.Ring α} {L : Lawful R.F K} {g : UPoly α} (Q : IsQuot R L g)
include Q

/-- Every expression evaluates (no fuel runs out), the value is well-formed, of degree below
    `deg g`, and denotes the remainder modulo `g` of the expression evaluated in `K[X]`:
    arithmetic commutes with reduction. -/
theorem evalQ_spec (e : QExpr α) (he : e.Valid L) :
    ∃ r, evalQ R e = some r ∧ WF L r ∧ toPoly L r = evalP L e %ₘ toPoly L g ∧
      (toPoly L r).degree < (toPoly L g).degree := by
  have hmon := Q.monic
  have hlt : ∀ p : K[X], (p %ₘ toPoly L g).degree < (toPoly L g).degree :=
    fun p => degree_modByMonic_lt p hmon
  induction e with
  | embed f => exact UPoly.reduceIn_spec Q he
  | coefs cs => exact UPoly.ofCoefs_spec Q he
  | nats cs =>
    refine UPoly.ofCoefs_spec Q (cs := cs.map R.F.ofNat) ?_
    intro c hc
    rw [List.mem_map] at hc
    obtain ⟨n, hn, rfl⟩ := hc
    exact he n hn
  | ints cs =>
    refine UPoly.ofCoefs_spec Q (cs := cs.map R.F.ofInt) ?_
    intro c hc
    rw [List.mem_map] at hc
    obtain ⟨n, hn, rfl⟩ := hc
    exact he n hn
  | add a b iha ihb =>
    obtain ⟨x, hx, hxw, hxe, -⟩ := iha he.1
    obtain ⟨y, hy, hyw, hye, -⟩ := ihb he.2
    have e : toPoly L (UPoly.add R.F x y) = (evalP L a + evalP L b) %ₘ toPoly L g := by
      rw [toPoly_add L hxw hyw.1, hxe, hye, add_modByMonic]
    exact ⟨_, by simp [evalQ, hx, hy], add_wf L hxw hyw.1, e, by rw [e]; exact hlt _⟩
  | sub a b iha ihb =>
    obtain ⟨x, hx, hxw, hxe, -⟩ := iha he.1
    obtain ⟨y, hy, hyw, hye, -⟩ := ihb he.2
    have e : toPoly L (UPoly.sub R.F x y) = (evalP L a - evalP L b) %ₘ toPoly L g := by
      rw [toPoly_sub L hxw hyw.1, hxe, hye, sub_modByMonic]
    exact ⟨_, by simp [evalQ, hx, hy], sub_wf L hxw hyw.1, e, by rw [e]; exact hlt _⟩
  | neg a iha =>
    obtain ⟨x, hx, hxw, hxe, -⟩ := iha he
    have e : toPoly L (UPoly.neg R.F x) = (- evalP L a) %ₘ toPoly L g := by
      rw [toPoly_neg L hxw.1, hxe, neg_modByMonic]
    exact ⟨_, by simp [evalQ, hx], neg_wf L hxw, e, by rw [e]; exact hlt _⟩
  | mul a b iha ihb =>
    obtain ⟨x, hx, hxw, hxe, -⟩ := iha he.1
    obtain ⟨y, hy, hyw, hye, -⟩ := ihb he.2
    obtain ⟨r, h1, h2, h3, h4⟩ := UPoly.times_spec Q hxw.1 hyw.1
    refine ⟨r, by simp [evalQ, hx, hy, h1], h2, ?_, h4⟩
    rw [h3, hxe, hye]
    exact (mul_modByMonic _ _ _).symm
  | pow a n iha =>
    obtain ⟨x, hx, hxw, hxe, -⟩ := iha he.1
    obtain ⟨r, h1, h2, h3, h4⟩ := UPoly.pow_spec Q hxw.1 (lt_trans he.2 (by norm_num))
    refine ⟨r, by simp [evalQ, hx, h1], h2, ?_, h4⟩
    rw [h3, hxe]
    exact pow_modByMonic_congr (modByMonic_modByMonic hmon _) n
  | scale a c iha =>
    obtain ⟨x, hx, hxw, hxe, -⟩ := iha he.1
    have e : toPoly L (UPoly.scale R.F x c) = (C (L.embed c) * evalP L a) %ₘ toPoly L g := by
      rw [toPoly_scale L hxw.1 he.2, hxe, ← smul_eq_C_mul, ← smul_eq_C_mul, smul_modByMonic]
    exact ⟨_, by simp [evalQ, hx], scale_wf L hxw he.2, e, by rw [e]; exact hlt _⟩

/-- the value is *the* representative: any well-formed list of degree `< deg g` in the residue
    class of the expression is equal (as a list) to the computed value -/
theorem evalQ_unique (e : QExpr α) (he : e.Valid L) {r s : UPoly α} (hr : evalQ R e = some r)
    (hs : WF L s) (hsd : (toPoly L s).degree < (toPoly L g).degree)
    (hcls : toPoly L g ∣ toPoly L s - evalP L e) : s = r := by
  obtain ⟨r', h1, h2, h3, h4⟩ := evalQ_spec Q e he
  rw [hr] at h1
  cases h1
  apply reduced_unique L hs h2 hsd h4
  rw [h3]
  have := dvd_modByMonic_sub (evalP L e) (toPoly L g)
  have e2 : toPoly L s - evalP L e %ₘ toPoly L g =
      (toPoly L s - evalP L e) - (evalP L e %ₘ toPoly L g - evalP L e) := by ring
  rw [e2]
  exact dvd_sub hcls this

/-- two expressions denote the same residue class exactly when `Equal` reports true on their
    computed values -/
theorem equal_iff_same_class_expr (e1 e2 : QExpr α) (h1 : e1.Valid L) (h2 : e2.Valid L)
    {r1 r2 : UPoly α} (hr1 : evalQ R e1 = some r1) (hr2 : evalQ R e2 = some r2) :
    equal R.F r1 r2 = true ↔ toPoly L g ∣ evalP L e1 - evalP L e2 := by
  obtain ⟨r1', a1, a2, a3, a4⟩ := evalQ_spec Q e1 h1
  obtain ⟨r2', b1, b2, b3, b4⟩ := evalQ_spec Q e2 h2
  rw [hr1] at a1; cases a1
  rw [hr2] at b1; cases b1
  rw [equal_iff_dvd_sub L a2 b2 a4 b4, a3, b3]
  have d1 := dvd_modByMonic_sub (evalP L e1) (toPoly L g)
  have d2 := dvd_modByMonic_sub (evalP L e2) (toPoly L g)
  constructor
  · intro h
    have e : evalP L e1 - evalP L e2 =
        (evalP L e1 %ₘ toPoly L g - evalP L e2 %ₘ toPoly L g)
          - (evalP L e1 %ₘ toPoly L g - evalP L e1) + (evalP L e2 %ₘ toPoly L g - evalP L e2) := by
      ring
    rw [e]
    exact dvd_add (dvd_sub h d1) d2
  · intro h
    have e : evalP L e1 %ₘ toPoly L g - evalP L e2 %ₘ toPoly L g =
        (evalP L e1 - evalP L e2)
          + (evalP L e1 %ₘ toPoly L g - evalP L e1) - (evalP L e2 %ₘ toPoly L g - evalP L e2) := by
      ring
    rw [e]
    exact dvd_sub (dvd_add h d1) d2

end Quot

/-! ### non-vacuity and sanity evaluations -/

section Examples

instance : Fact (Nat.Prime 5) := ⟨by decide⟩

/-- the library's own prime-field record over GF(5), lawful by C01 -/
noncomputable abbrev L5 : Lawful (primeOps 5) (ZMod 5) := primeLawfulFact 5 (by norm_num)

/-- GF(5)[X]/(X² + 2) -/
def R5 : UPoly.Ring Nat := ⟨primeOps 5, "X", some [2, 0, 1]⟩

noncomputable abbrev LR5 : Lawful R5.F (ZMod 5) := L5

theorem wf5 {f : UPoly Nat} (h1 : ∀ c ∈ f, c < 5) (h2 : Canon (primeOps 5) f) : WF LR5 f :=
  ⟨h1, h2⟩

theorem toPoly_R5 : toPoly LR5 [2, 0, 1] = X ^ 2 + C 2 := by
  simp only [toPoly_cons, toPoly_nil, primeLawfulFact_embed]
  simp only [Nat.cast_ofNat, Nat.cast_zero, Nat.cast_one, map_zero, map_one]
  ring

/-- the hypotheses `IsQuot` are satisfiable: `X² + 2` is well-formed, monic, of degree 2 -/
theorem isQuot_R5 : IsQuot R5 LR5 [2, 0, 1] where
  modulus_eq := rfl
  wf := wf5 (by decide) (by unfold Canon; decide)
  monic := by
    rw [toPoly_R5]; exact monic_X_pow_add_C 2 (by norm_num)
  deg := by
    rw [toPoly_R5, natDegree_X_pow_add_C]; norm_num

/-- a valid expression: `((1 + X)·(4 + X) − 3·X⁷)^1000 + Polynomial(7, 8, 9, 10)` -/
def e5 : QExpr Nat :=
  .add (.pow (.sub (.mul (.embed [1, 1]) (.embed [4, 1])) (.scale (.embed [0, 0, 0, 0, 0, 0, 0, 1]) 3))
    1000) (.nats [7, 8, 9, 10])

theorem e5_valid : e5.Valid LR5 := by
  refine ⟨⟨⟨⟨?_, ?_⟩, ?_, ?_⟩, by norm_num⟩, ?_⟩
  · exact wf5 (by decide) (by unfold Canon; decide)
  · exact wf5 (by decide) (by unfold Canon; decide)
  · exact wf5 (by decide) (by unfold Canon; decide)
  · show (3 : Nat) < 5; norm_num
  · intro n _; exact Nat.mod_lt _ (by norm_num)

/-- so `evalQ_spec` applies to it -/
example := evalQ_spec isQuot_R5 e5 e5_valid

example : evalQ R5 e5 = some [1, 2] := by decide +kernel

/-- `equal_iff_same_class` / `reduced_unique` for two concrete reduced representatives -/
example : equal (primeOps 5) [1, 2] [4, 3] = true ↔
    toPoly LR5 [2, 0, 1] ∣ toPoly LR5 [1, 2] - toPoly LR5 [4, 3] :=
  equal_iff_same_class LR5 (wf5 (by decide) (by unfold Canon; decide))
    (wf5 (by decide) (by unfold Canon; decide))
    (degree_lt_of_ld_lt LR5 (wf5 (by decide) (by unfold Canon; decide)) isQuot_R5.wf (by decide))
    (degree_lt_of_ld_lt LR5 (wf5 (by decide) (by unfold Canon; decide)) isQuot_R5.wf (by decide))

/-- the modulus `1 + X` produced by `NewIdeal` in C06 qualifies through `isQuot_of_newIdeal` -/
example : newIdeal (primeOps 5) [[3, 0, 2], [2, 4, 2]] = some [1, 1] := by decide +kernel

-- sanity evaluations of the model functions
example : reduce (primeOps 5) [1, 0, 1] [1, 2, 0, 1, 3] = some [4, 1] := by decide
example : reduce (primeOps 5) [1] [1, 2, 0, 1, 3] = some [0] := by decide
example : times R5 [1, 1] [4, 1] = some [2] := by decide
example : ofNats R5 [7, 8, 9, 10] = some [4, 3] := by decide
example : ofInts R5 [-1, -2, 3, 4] = some [3] := by decide +kernel
example : pow R5 [1, 1] 1000 = some [2, 4] := by decide +kernel

/-- the generic field-as-its-own-record instance of C05 satisfies the hypotheses of
    `reduce_spec` as well -/
example := reduce_spec (C05.fieldLawful (ZMod 5)) (g := [2, 0, 1])
  ⟨fun _ _ => trivial, by unfold Canon; decide⟩
  (by
    have : toPoly (C05.fieldLawful (ZMod 5)) [2, 0, 1] = X ^ 2 + C 2 := by
      simp only [toPoly_cons, toPoly_nil, C05.fieldLawful]; simp; ring
    rw [this]; exact monic_X_pow_add_C 2 (by norm_num))
  (by
    have : toPoly (C05.fieldLawful (ZMod 5)) [2, 0, 1] = X ^ 2 + C 2 := by
      simp only [toPoly_cons, toPoly_nil, C05.fieldLawful]; simp; ring
    rw [this, natDegree_X_pow_add_C]; norm_num)
  (f := [1, 2, 0, 1, 3]) ⟨fun _ _ => trivial, by unfold Canon; decide⟩

end Examples

end C07
end Algobra
