/-
  Props/C12Full.lean — C12 closed as far as Buchberger's criterion carries: the SEMANTICS of the
  Gröbner flag along any history of calls, and `MinimizeBasis()` / `ReduceBasis()` keep the ideal.
  (Mathematics: Proofs/Criterion.lean, Criterion2.lean, Criterion3.lean.)

  RESULT on the two open statements of Props/C12.lean, read literally:
   * `minimize_span_full L o` has the hypothesis `C11.buchberger_criterion_full L o`, which is false
     for the graded orders (Props/C11Full.lean), and no guard against exponent wrap-around in the
     divisions made by the history `ops`; likewise `flags_sound_full`.  Without such a guard the
     model's `IsGroebner()`/`GroebnerBasis()` can answer from wrapped arithmetic and nothing about
     ideals follows.  They are NOT proved as stated.
   * PROVED instead, for every admissible order, with the guard `SafeRun` ("no division of the
     history wraps around", the exact analogue of `RoundSafe`/`ReduceSafe` used in C11/C12-4):
       - `flag_semantics` : along any history from `NewIdeal(gens)`, an object flagged
         `isGroebner = 1` holds a Gröbner basis (`BPoly.GB`) of the ideal `⟨gens⟩` — so in
         particular it still generates `⟨gens⟩` (`history_span`);
       - `minimize_span`, `reduce_span` : `MinimizeBasis()` / `ReduceBasis()` keep the ideal
         (the statement of `minimize_span_full` with the guard);
       - `flags_sound_groebner` (`flags_sound_groebner'`) : the first clause of `flags_sound_full`
         — a positive Gröbner flag is never contradicted by the un-cached decision on the CURRENT
         generators;
       - `flags_sound_minimal` : the second clause — a positive minimality flag implies that
         `decideMinimal` of the CURRENT generators is `true`, equivalently (`decideMinimal_iff`)
         no leading exponent of a generator is divisible by the leading exponent of another one;
         and every object of the history holds well-formed nonzero generators of word size with
         exact exponents;
       - one-call versions without histories: `minimizeBasis_groebner`, `reduceBasis_groebner`.
       - `flags_sound_reduced` : the third clause — a positive reducedness flag is never
         contradicted by `decideReduced` on the CURRENT generators (the answer is `some true`, or
         `none` when a generator has more terms than the division has fuel), and it means: no
         exponent of a generator is divisible by the leading exponent of another generator
         (`ReducedSem`) and every generator has LEADING COEFFICIENT ONE (`Monic`; the model
         normalises in `MinimizeBasis()`/`IsMinimal()` via `Normalize`, `ReduceBasis()` itself only
         keeps leading exponents and coefficients — since it always minimises first or is applied
         to a minimal-flagged object, its result is monic: `flags_sound_monic`);
         the fixed-point property of the division it rests on is `BPoly.quoRemLoop_fixed`,
         `quoRem_fixed`, `rem_fixed` (Proofs/Criterion4.lean);
       - `reduced_canonical` : CANONICITY — two guarded histories from generators of the same
         ideal that end in reduced-flagged objects end in the same set of polynomials
         (`BPoly.reduced_unique`, `reduced_unique_perm`: uniqueness of the reduced Gröbner basis).
     With these, all three clauses of `flags_sound_full` are proved in guarded form.
-/
import Algobra.Props.C12
import Algobra.Props.C11Full
import Algobra.Proofs.Criterion3
import Algobra.Proofs.Criterion4

namespace Algobra
namespace C12

open BPoly

variable {α : Type} {F : FOps α} {K : Type} [Field K]

/-! ### single calls -/

section Single
variable {L : Lawful F K} {o : Order} {I : _root_.Ideal (AddMonoidAlgebra K (ℕ × ℕ))}

/-- `BPoly.GB L o I G` (Proofs/Criterion3.lean): `G` consists of well-formed members of `I` with
    exact exponents and every nonzero element of `I` has a leading exponent (for the mathematical
    order `tlt o`) divisible by that of a nonzero element of `G`.  It implies that `G` generates `I`
    and the model-level Gröbner property `C11.IsGroebnerBasisExact`. -/
theorem GB_iff_span_and_exact {G : List (BPoly α)} (h : GB L o I G) (hadm : Order.Admissible o) :
    Ideal.span ((toMv L) '' {g | g ∈ G}) = I ∧ C11.IsGroebnerBasisExact L o G := by
  refine ⟨h.span hadm, ?_⟩
  intro f wf hne hfx hmem
  rw [h.span hadm] at hmem
  obtain ⟨g, hg, -, hd⟩ := h.exact hadm wf hne hfx hmem
  exact ⟨g, hg, hd⟩

/-- `MinimizeBasis()` on an object holding a Gröbner basis of `I`: the result is again a Gröbner
    basis of `I`, in particular it generates the same ideal.  No run guard is needed (the removal
    loop only divides single terms). -/
theorem minimizeBasis_groebner (hadm : Order.Admissible o) {id id' : Ideal α}
    (hGB : GB L o I id.gens) (h : id.minimizeBasis F o = some (id', .ok ())) :
    GB L o I id'.gens ∧
    Ideal.span ((toMv L) '' {x | x ∈ id'.gens}) = Ideal.span ((toMv L) '' {x | x ∈ id.gens}) := by
  obtain ⟨id1, hq, rfl⟩ := minimizeBasis_ok h
  have hg : id1.gens = id.gens := (Effects.isGroebnerQ_frame F o hq).1
  have h2 : GB L o I (minimized F o id1.gens) := by rw [hg]; exact hGB.minimized hadm
  exact ⟨h2, by rw [h2.span hadm, hGB.span hadm]⟩

/-- `ReduceBasis()` on an object holding a Gröbner basis of `I`, with the guard of C12-4 for the
    replacement loop: again a Gröbner basis of `I`, same ideal -/
theorem reduceBasis_groebner (hadm : Order.Admissible o) {id id' : Ideal α}
    (hGB : GB L o I id.gens)
    (hsafe : ∀ id1 b, id.isGroebnerQ F o = some (id1, b) →
      ReduceSafe F o (C11.RunSafe F o)
        (List.range (if id1.isMinimal = 1 then id.gens else minimized F o id.gens).length)
        (if id1.isMinimal = 1 then id.gens else minimized F o id.gens))
    (h : id.reduceBasis F o = some (id', .ok ())) :
    GB L o I id'.gens ∧
    Ideal.span ((toMv L) '' {x | x ∈ id'.gens}) = Ideal.span ((toMv L) '' {x | x ∈ id.gens}) := by
  obtain ⟨id1, bg, hq, hc⟩ := reduceBasis_spec h
  have hg : id1.gens = id.gens := (Effects.isGroebnerQ_frame F o hq).1
  have hs := hsafe id1 bg hq
  rcases hc with ⟨_, _, he⟩ | ⟨rfl, -, idm, gens, hM, hl, rfl⟩
  · cases he
  · have hidm : idm.gens = (if id1.isMinimal = 1 then id.gens else minimized F o id.gens) := by
      by_cases hmin : id1.isMinimal = 1
      · rw [if_neg (by simpa using hmin)] at hM
        cases hM
        rw [if_pos hmin, hg]
      · rw [if_pos hmin, minimizeBasis_of_isGroebnerQ_true (isGroebnerQ_idem hq)] at hM
        simp only [Option.map_some, Option.some.injEq] at hM
        subst hM
        rw [if_neg hmin, ← hg]
    have h1 : GB L o I idm.gens := by
      rw [hidm]
      split
      · exact hGB
      · exact hGB.minimized hadm
    rw [← hidm] at hs
    have h2 := (h1.reduceLoop hadm hs hl).1
    exact ⟨h2, by rw [h2.span hadm, hGB.span hadm]⟩

end Single

/-! ### histories -/

section History
variable (F)

/-- guard of a call that may evaluate `IsGroebner()` on an undecided object: the S-polynomial
    divisions of that round do not wrap around -/
def UndecidedSafe (o : Order) (id : Ideal α) : Prop :=
  id.isGroebner ≠ 1 → id.isGroebner ≠ -1 → RoundSafe F o (C11.RunSafe F o) id.gens

/-- guard of one call -/
def OpSafe (o : Order) : IdealOp → Ideal α → Prop
  | .groebnerBasis, id => id.isGroebner ≠ 1 → ∀ G, buchberger F o groebnerFuel id.gens = some G →
      ∀ gb, id.gens <+: gb → gb <+: G → RoundSafe F o (C11.RunSafe F o) gb
  | .reduceBasis, id => UndecidedSafe F o id ∧
      ∀ id1 b, id.isGroebnerQ F o = some (id1, b) →
        ReduceSafe F o (C11.RunSafe F o)
          (List.range (if id1.isMinimal = 1 then id.gens else minimized F o id.gens).length)
          (if id1.isMinimal = 1 then id.gens else minimized F o id.gens)
  | .copy, _ => True
  | _, id => UndecidedSafe F o id

/-- guard of a history: every call is guarded in the state in which it is made -/
def SafeRun (o : Order) : List IdealOp → Ideal α → Prop
  | [], _ => True
  | op :: ops, id => OpSafe F o op id ∧ ∀ id', op.apply F o id = some id' → SafeRun o ops id'

variable {F}

/-- the meaning of the Gröbner flag of an object descending from `NewIdeal(gens0)`:
    not flagged ⇒ the generators are still `gens0`; flagged ⇒ a Gröbner basis of `⟨gens0⟩` -/
structure Sem (L : Lawful F K) (o : Order) (gens0 : List (BPoly α)) (id : Ideal α) : Prop where
  und : id.isGroebner ≠ 1 → id.gens = gens0
  pos : id.isGroebner = 1 → GB L o (Ideal.span ((toMv L) '' {g | g ∈ gens0})) id.gens

variable {L : Lawful F K} {o : Order} {gens0 : List (BPoly α)}

theorem Sem.fresh (L : Lawful F K) (o : Order) (gens0 : List (BPoly α)) :
    Sem L o gens0 { gens := gens0 } :=
  ⟨fun _ => rfl, fun h => by simp at h⟩

theorem Sem.isGroebnerQ (hadm : Order.Admissible o)
    (h0 : ∀ g ∈ gens0, WF L g ∧ g ≠ [] ∧ Bounded g ∧ ∀ d ∈ keys g, Exact o d)
    {id id' : Ideal α} {b : Bool} (hS : Sem L o gens0 id) (hsafe : UndecidedSafe F o id)
    (h : id.isGroebnerQ F o = some (id', b)) : Sem L o gens0 id' := by
  obtain ⟨rfl, hc⟩ := isGroebnerQ_spec h
  rcases hc with ⟨h1, rfl⟩ | ⟨h1, rfl⟩ | ⟨h1, h2, hd⟩
  · have : ({ id with isGroebner := if true then 1 else -1 } : Ideal α) = id := by
      cases id; simp_all
    rw [this]; exact hS
  · have : ({ id with isGroebner := if false then 1 else -1 } : Ideal α) = id := by
      cases id; simp_all
    rw [this]; exact hS
  · have hg := hS.und h1
    cases b
    · exact ⟨fun _ => hg, fun hc => by simp at hc⟩
    · refine ⟨fun hc => by simp at hc, fun _ => ?_⟩
      show GB L o _ id.gens
      rw [hg]
      rw [hg] at hd
      exact GB.of_decideGroebner L hadm h0 (by rw [← hg]; exact hsafe h1 h2) hd

theorem Sem.isMinimalQ (hadm : Order.Admissible o)
    (h0 : ∀ g ∈ gens0, WF L g ∧ g ≠ [] ∧ Bounded g ∧ ∀ d ∈ keys g, Exact o d)
    {id id' : Ideal α} {b : Bool} (hS : Sem L o gens0 id) (hsafe : UndecidedSafe F o id)
    (h : id.isMinimalQ F o = some (id', b)) : Sem L o gens0 id' := by
  rcases isMinimalQ_spec h with ⟨_, rfl, _⟩ | ⟨_, rfl, _⟩ | ⟨-, -, id1, bg, hq, h3⟩
  · exact hS
  · exact hS
  · have S1 := hS.isGroebnerQ hadm h0 hsafe hq
    have hf := isGroebnerQ_flag hq
    rcases h3 with ⟨rfl, rfl, rfl⟩ | ⟨rfl, -, rfl⟩
    · exact ⟨S1.und, S1.pos⟩
    · simp only [if_true] at hf
      exact ⟨fun hc => absurd hf hc, fun _ => (S1.pos hf).normalize hadm⟩

theorem Sem.isReducedQ (hadm : Order.Admissible o)
    (h0 : ∀ g ∈ gens0, WF L g ∧ g ≠ [] ∧ Bounded g ∧ ∀ d ∈ keys g, Exact o d)
    {id id' : Ideal α} {b : Bool} (hS : Sem L o gens0 id) (hsafe : UndecidedSafe F o id)
    (h : id.isReducedQ F o = some (id', b)) : Sem L o gens0 id' := by
  rcases isReducedQ_spec h with ⟨_, rfl, _⟩ | ⟨_, rfl, _⟩ | ⟨-, -, id1, bm, hq, h3⟩
  · exact hS
  · exact hS
  · have S1 := hS.isMinimalQ hadm h0 hsafe hq
    rcases h3 with ⟨rfl, rfl, rfl⟩ | ⟨rfl, -, rfl⟩
    · exact ⟨S1.und, S1.pos⟩
    · exact ⟨S1.und, S1.pos⟩

theorem Sem.minimizeBasis (hadm : Order.Admissible o)
    (h0 : ∀ g ∈ gens0, WF L g ∧ g ≠ [] ∧ Bounded g ∧ ∀ d ∈ keys g, Exact o d)
    {id id' : Ideal α} {res : Except Kind Unit} (hS : Sem L o gens0 id)
    (hsafe : UndecidedSafe F o id) (h : id.minimizeBasis F o = some (id', res)) :
    Sem L o gens0 id' := by
  obtain ⟨id1, b, hq, hc⟩ := minimizeBasis_spec h
  have S1 := hS.isGroebnerQ hadm h0 hsafe hq
  have hf := isGroebnerQ_flag hq
  rcases hc with ⟨rfl, rfl, -⟩ | ⟨rfl, -, rfl⟩
  · exact S1
  · simp only [if_true] at hf
    exact ⟨fun hc => absurd hf hc, fun _ => (S1.pos hf).minimized hadm⟩

theorem Sem.reduceBasis (hadm : Order.Admissible o)
    (h0 : ∀ g ∈ gens0, WF L g ∧ g ≠ [] ∧ Bounded g ∧ ∀ d ∈ keys g, Exact o d)
    {id id' : Ideal α} {res : Except Kind Unit} (hS : Sem L o gens0 id)
    (hsafe : OpSafe F o .reduceBasis id) (h : id.reduceBasis F o = some (id', res)) :
    Sem L o gens0 id' := by
  obtain ⟨id1, bg, hq, hc⟩ := reduceBasis_spec h
  have S1 := hS.isGroebnerQ hadm h0 hsafe.1 hq
  have hf := isGroebnerQ_flag hq
  have hg : id1.gens = id.gens := (Effects.isGroebnerQ_frame F o hq).1
  have hs := hsafe.2 id1 bg hq
  rcases hc with ⟨rfl, rfl, -⟩ | ⟨rfl, -, idm, gens, hM, hl, rfl⟩
  · exact S1
  · simp only [if_true] at hf
    have hGB := S1.pos hf
    have hidm : idm.gens = (if id1.isMinimal = 1 then id.gens else minimized F o id.gens) ∧
        idm.isGroebner = 1 := by
      by_cases hmin : id1.isMinimal = 1
      · rw [if_neg (by simpa using hmin)] at hM
        cases hM
        rw [if_pos hmin, hg]; exact ⟨rfl, hf⟩
      · rw [if_pos hmin, minimizeBasis_of_isGroebnerQ_true (isGroebnerQ_idem hq)] at hM
        simp only [Option.map_some, Option.some.injEq] at hM
        subst hM
        rw [if_neg hmin, ← hg]; exact ⟨rfl, hf⟩
    have h1 : GB L o (Ideal.span ((toMv L) '' {g | g ∈ gens0})) idm.gens := by
      rw [hidm.1, ← hg]
      split
      · exact hGB
      · exact hGB.minimized hadm
    rw [← hidm.1] at hs
    exact ⟨fun hc => absurd hidm.2 hc, fun _ => (h1.reduceLoop hadm hs hl).1⟩

theorem Sem.groebnerBasis (hadm : Order.Admissible o)
    (h0 : ∀ g ∈ gens0, WF L g ∧ g ≠ [] ∧ Bounded g ∧ ∀ d ∈ keys g, Exact o d)
    {id gb : Ideal α} (hS : Sem L o gens0 id) (hsafe : OpSafe F o .groebnerBasis id)
    (h : id.groebnerBasis F o = some gb) : Sem L o gens0 gb := by
  rcases groebnerBasis_spec h with ⟨-, rfl⟩ | ⟨h1, G, hG, rfl⟩
  · exact hS
  · have hg := hS.und h1
    refine ⟨fun hc => by simp at hc, fun _ => ?_⟩
    show GB L o _ G
    rw [hg] at hG
    exact GB.of_buchberger L hadm h0 hG (by rw [← hg]; exact hsafe h1 G (by rw [hg]; exact hG))

theorem Sem.apply (hadm : Order.Admissible o)
    (h0 : ∀ g ∈ gens0, WF L g ∧ g ≠ [] ∧ Bounded g ∧ ∀ d ∈ keys g, Exact o d)
    {id id' : Ideal α} (op : IdealOp) (hS : Sem L o gens0 id) (hsafe : OpSafe F o op id)
    (h : op.apply F o id = some id') : Sem L o gens0 id' := by
  cases op <;> simp only [IdealOp.apply, Option.map_eq_some_iff, Prod.exists, exists_and_right,
    exists_eq_right] at h
  · obtain ⟨b, h⟩ := h; exact hS.isGroebnerQ hadm h0 hsafe h
  · obtain ⟨b, h⟩ := h; exact hS.isMinimalQ hadm h0 hsafe h
  · obtain ⟨b, h⟩ := h; exact hS.isReducedQ hadm h0 hsafe h
  · obtain ⟨b, h⟩ := h; exact hS.minimizeBasis hadm h0 hsafe h
  · obtain ⟨b, h⟩ := h; exact hS.reduceBasis hadm h0 hsafe h
  · exact hS.groebnerBasis hadm h0 hsafe h
  · cases h; exact hS

theorem Sem.run (hadm : Order.Admissible o)
    (h0 : ∀ g ∈ gens0, WF L g ∧ g ≠ [] ∧ Bounded g ∧ ∀ d ∈ keys g, Exact o d)
    {id id' : Ideal α} (ops : List IdealOp) (hS : Sem L o gens0 id) (hsafe : SafeRun F o ops id)
    (h : IdealOp.run F o ops id = some id') : Sem L o gens0 id' := by
  induction ops generalizing id with
  | nil => simp only [IdealOp.run, Option.some.injEq] at h; subst h; exact hS
  | cons op ops ih =>
    simp only [IdealOp.run] at h
    cases ha : op.apply F o id with
    | none => rw [ha] at h; cases h
    | some id1 =>
      rw [ha] at h
      exact ih (hS.apply hadm h0 op hsafe.1 ha) (hsafe.2 id1 ha) h

/-- **THE SEMANTICS OF THE GRÖBNER FLAG**: along any history of calls on an object created by
    `NewIdeal(gens)` (well-formed nonzero generators of word size with exact exponents, admissible
    order, no division of the history wraps around), an object that is flagged `isGroebner = 1`
    holds a Gröbner basis of `⟨gens⟩`, and an object that is not flagged still holds `gens` -/
theorem flag_semantics (L : Lawful F K) {o : Order} (hadm : Order.Admissible o)
    {gens : List (BPoly α)}
    (h0 : ∀ g ∈ gens, WF L g ∧ g ≠ [] ∧ Bounded g ∧ ∀ d ∈ keys g, Exact o d)
    (ops : List IdealOp) {id' : Ideal α} (hsafe : SafeRun F o ops { gens := gens })
    (h : IdealOp.run F o ops { gens := gens } = some id') :
    (id'.isGroebner ≠ 1 → id'.gens = gens) ∧
    (id'.isGroebner = 1 → GB L o (Ideal.span ((toMv L) '' {g | g ∈ gens})) id'.gens) :=
  let S := (Sem.fresh L o gens).run hadm h0 ops hsafe h
  ⟨S.und, S.pos⟩

/-- every object of a guarded history generates the ideal of the original generators, and a
    flagged one has the model-level Gröbner property -/
theorem history_span (L : Lawful F K) {o : Order} (hadm : Order.Admissible o)
    {gens : List (BPoly α)}
    (h0 : ∀ g ∈ gens, WF L g ∧ g ≠ [] ∧ Bounded g ∧ ∀ d ∈ keys g, Exact o d)
    (ops : List IdealOp) {id' : Ideal α} (hsafe : SafeRun F o ops { gens := gens })
    (h : IdealOp.run F o ops { gens := gens } = some id') :
    Ideal.span ((toMv L) '' {x | x ∈ id'.gens}) = Ideal.span ((toMv L) '' {x | x ∈ gens}) ∧
    (id'.isGroebner = 1 → C11.IsGroebnerBasisExact L o id'.gens) := by
  obtain ⟨h1, h2⟩ := flag_semantics L hadm h0 ops hsafe h
  by_cases hf : id'.isGroebner = 1
  · have hGB := h2 hf
    have hx := GB_iff_span_and_exact hGB hadm
    exact ⟨hx.1, fun _ => hx.2⟩
  · rw [h1 hf]; exact ⟨rfl, fun hc => absurd hc hf⟩

/-- **`minimize_span_full` with the guard**: after any guarded history, a successful
    `MinimizeBasis()` keeps the ideal -/
theorem minimize_span (L : Lawful F K) {o : Order} (hadm : Order.Admissible o)
    {gens : List (BPoly α)}
    (h0 : ∀ g ∈ gens, WF L g ∧ g ≠ [] ∧ Bounded g ∧ ∀ d ∈ keys g, Exact o d)
    (ops : List IdealOp) {id id' : Ideal α} (hsafe : SafeRun F o ops { gens := gens })
    (h : IdealOp.run F o ops { gens := gens } = some id) (hs : UndecidedSafe F o id)
    (hm : id.minimizeBasis F o = some (id', .ok ())) :
    Ideal.span ((toMv L) '' {x | x ∈ id'.gens}) = Ideal.span ((toMv L) '' {x | x ∈ id.gens}) := by
  have S := (Sem.fresh L o gens).run hadm h0 ops hsafe h
  have S' := S.minimizeBasis hadm h0 hs hm
  have f' : id'.isGroebner = 1 := by
    rcases minimizeBasis_flag hm with ⟨he, -⟩ | ⟨-, h3, -⟩
    · cases he
    · exact h3
  have e1 := (S'.pos f').span hadm
  obtain ⟨id1, hq, -⟩ := minimizeBasis_ok hm
  have S1 := S.isGroebnerQ hadm h0 hs hq
  have f1 : id1.isGroebner = 1 := isGroebnerQ_flag hq
  have e2 := (S1.pos f1).span hadm
  rw [(Effects.isGroebnerQ_frame F o hq).1] at e2
  rw [e1, e2]

/-- … and so does a successful `ReduceBasis()` -/
theorem reduce_span (L : Lawful F K) {o : Order} (hadm : Order.Admissible o)
    {gens : List (BPoly α)}
    (h0 : ∀ g ∈ gens, WF L g ∧ g ≠ [] ∧ Bounded g ∧ ∀ d ∈ keys g, Exact o d)
    (ops : List IdealOp) {id id' : Ideal α} (hsafe : SafeRun F o ops { gens := gens })
    (h : IdealOp.run F o ops { gens := gens } = some id) (hs : OpSafe F o .reduceBasis id)
    (hm : id.reduceBasis F o = some (id', .ok ())) :
    Ideal.span ((toMv L) '' {x | x ∈ id'.gens}) = Ideal.span ((toMv L) '' {x | x ∈ id.gens}) := by
  have S := (Sem.fresh L o gens).run hadm h0 ops hsafe h
  have S' := S.reduceBasis hadm h0 hs hm
  obtain ⟨id1, hq, -, f', -, -⟩ := reduce_keeps_count hm
  have e1 := (S'.pos f').span hadm
  have S1 := S.isGroebnerQ hadm h0 hs.1 hq
  have f1 : id1.isGroebner = 1 := isGroebnerQ_flag hq
  have e2 := (S1.pos f1).span hadm
  rw [(Effects.isGroebnerQ_frame F o hq).1] at e2
  rw [e1, e2]

/-- **first clause of `flags_sound_full`, with the guards**: along any guarded history a positive
    Gröbner flag is never contradicted by the un-cached decision `decideGroebner` on the CURRENT
    generators (when that round does not wrap around either and the generators have word size) -/
theorem flags_sound_groebner (L : Lawful F K) {o : Order} (hadm : Order.Admissible o)
    {gens : List (BPoly α)}
    (h0 : ∀ g ∈ gens, WF L g ∧ g ≠ [] ∧ Bounded g ∧ ∀ d ∈ keys g, Exact o d)
    (ops : List IdealOp) {id' : Ideal α} (hsafe : SafeRun F o ops { gens := gens })
    (h : IdealOp.run F o ops { gens := gens } = some id')
    (hb : ∀ g ∈ id'.gens, Bounded g) (hr : RoundSafe F o (C11.RunSafe F o) id'.gens) :
    id'.isGroebner = 1 → decideGroebner F o id'.gens ≠ some false := fun hf =>
  ((flag_semantics L hadm h0 ops hsafe h).2 hf).decideGroebner hadm hb hr

end History

/-! ### histories: the minimality flag -/

section HistoryMinimal

/-- the generators of every object of a guarded history are "good" (well-formed, nonzero, of word
    size, exact exponents), and a positive minimality flag means that no leading exponent of a
    generator is divisible by the leading exponent of another one -/
structure SemMin (L : Lawful F K) (o : Order) (id : Ideal α) : Prop where
  good : ∀ g ∈ id.gens, WF L g ∧ g ≠ [] ∧ Bounded g ∧ ∀ d ∈ keys g, Exact o d
  min : id.isMinimal = 1 → MinimalLd o id.gens

variable {L : Lawful F K} {o : Order}

theorem SemMin.isGroebnerQ {id id' : Ideal α} {b : Bool} (hS : SemMin L o id)
    (h : id.isGroebnerQ F o = some (id', b)) : SemMin L o id' := by
  obtain ⟨hg, hm, -, -⟩ := Effects.isGroebnerQ_frame F o h
  exact ⟨by rw [hg]; exact hS.good, fun hc => by rw [hg]; exact hS.min (by rw [← hm]; exact hc)⟩

theorem SemMin.isMinimalQ (hadm : Order.Admissible o) {id id' : Ideal α} {b : Bool}
    (hS : SemMin L o id) (h : id.isMinimalQ F o = some (id', b)) : SemMin L o id' := by
  rcases isMinimalQ_spec h with ⟨_, rfl, _⟩ | ⟨_, rfl, _⟩ | ⟨-, -, id1, bg, hq, h3⟩
  · exact hS
  · exact hS
  · have S1 := hS.isGroebnerQ hq
    rcases h3 with ⟨rfl, rfl, rfl⟩ | ⟨rfl, hb, rfl⟩
    · exact ⟨S1.good, fun hc => by simp at hc⟩
    · refine ⟨good_map_normalize L hadm S1.good, fun hc => ?_⟩
      have hbt : b = true := by
        cases b
        · simp at hc
        · rfl
      rw [hbt] at hb
      exact (MinimalLd.map_normalize L hadm S1.good).2
        ((decideMinimal_iff L hadm S1.good).1 hb.symm)

theorem SemMin.isReducedQ (hadm : Order.Admissible o) {id id' : Ideal α} {b : Bool}
    (hS : SemMin L o id) (h : id.isReducedQ F o = some (id', b)) : SemMin L o id' := by
  rcases isReducedQ_spec h with ⟨_, rfl, _⟩ | ⟨_, rfl, _⟩ | ⟨-, -, id1, bm, hq, h3⟩
  · exact hS
  · exact hS
  · have S1 := hS.isMinimalQ hadm hq
    rcases h3 with ⟨rfl, rfl, rfl⟩ | ⟨rfl, -, rfl⟩
    · exact ⟨S1.good, S1.min⟩
    · exact ⟨S1.good, S1.min⟩

theorem SemMin.minimizeBasis (hadm : Order.Admissible o) {id id' : Ideal α}
    {res : Except Kind Unit} (hS : SemMin L o id) (h : id.minimizeBasis F o = some (id', res)) :
    SemMin L o id' := by
  obtain ⟨id1, b, hq, hc⟩ := minimizeBasis_spec h
  have S1 := hS.isGroebnerQ hq
  rcases hc with ⟨rfl, rfl, -⟩ | ⟨rfl, -, rfl⟩
  · exact S1
  · have := minimized_minimal L hadm S1.good
    exact ⟨this.2, fun _ => this.1⟩

theorem SemMin.reduceBasis (hadm : Order.Admissible o) {id id' : Ideal α}
    {res : Except Kind Unit} (hS : SemMin L o id) (hsafe : OpSafe F o .reduceBasis id)
    (h : id.reduceBasis F o = some (id', res)) : SemMin L o id' := by
  obtain ⟨id1, bg, hq, hc⟩ := reduceBasis_spec h
  have S1 := hS.isGroebnerQ hq
  have hg : id1.gens = id.gens := (Effects.isGroebnerQ_frame F o hq).1
  have hs := hsafe.2 id1 bg hq
  rcases hc with ⟨rfl, rfl, -⟩ | ⟨rfl, -, idm, gens, hM, hl, rfl⟩
  · exact S1
  · have hidm : idm.gens = (if id1.isMinimal = 1 then id.gens else minimized F o id.gens) ∧
        (∀ g ∈ idm.gens, WF L g ∧ g ≠ [] ∧ Bounded g ∧ ∀ d ∈ keys g, Exact o d) ∧
        MinimalLd o idm.gens := by
      by_cases hmin : id1.isMinimal = 1
      · rw [if_neg (by simpa using hmin)] at hM
        cases hM
        rw [if_pos hmin, hg]; exact ⟨rfl, by rw [← hg]; exact S1.good, by rw [← hg]; exact S1.min hmin⟩
      · rw [if_pos hmin, minimizeBasis_of_isGroebnerQ_true (isGroebnerQ_idem hq)] at hM
        simp only [Option.map_some, Option.some.injEq] at hM
        subst hM
        have := minimized_minimal L hadm S1.good
        rw [if_neg hmin, ← hg]; exact ⟨rfl, this.2, this.1⟩
    rw [← hidm.1] at hs
    have := reduceLoop_minimal L hadm hidm.2.1 hidm.2.2 hs hl
    exact ⟨this.1, fun _ => this.2⟩

theorem SemMin.groebnerBasis {id gb : Ideal α} (hS : SemMin L o id)
    (hsafe : OpSafe F o .groebnerBasis id) (h : id.groebnerBasis F o = some gb) :
    SemMin L o gb := by
  rcases groebnerBasis_spec h with ⟨-, rfl⟩ | ⟨h1, G, hG, rfl⟩
  · exact hS
  · exact ⟨buchberger_good L hS.good hG (hsafe h1 G hG), fun hc => by simp at hc⟩

theorem SemMin.apply (hadm : Order.Admissible o) {id id' : Ideal α} (op : IdealOp)
    (hS : SemMin L o id) (hsafe : OpSafe F o op id) (h : op.apply F o id = some id') :
    SemMin L o id' := by
  cases op <;> simp only [IdealOp.apply, Option.map_eq_some_iff, Prod.exists, exists_and_right,
    exists_eq_right] at h
  · obtain ⟨b, h⟩ := h; exact hS.isGroebnerQ h
  · obtain ⟨b, h⟩ := h; exact hS.isMinimalQ hadm h
  · obtain ⟨b, h⟩ := h; exact hS.isReducedQ hadm h
  · obtain ⟨b, h⟩ := h; exact hS.minimizeBasis hadm h
  · obtain ⟨b, h⟩ := h; exact hS.reduceBasis hadm hsafe h
  · exact hS.groebnerBasis hsafe h
  · cases h; exact hS

theorem SemMin.run (hadm : Order.Admissible o) {id id' : Ideal α} (ops : List IdealOp)
    (hS : SemMin L o id) (hsafe : SafeRun F o ops id) (h : IdealOp.run F o ops id = some id') :
    SemMin L o id' := by
  induction ops generalizing id with
  | nil => simp only [IdealOp.run, Option.some.injEq] at h; subst h; exact hS
  | cons op ops ih =>
    simp only [IdealOp.run] at h
    cases ha : op.apply F o id with
    | none => rw [ha] at h; cases h
    | some id1 =>
      rw [ha] at h
      exact ih (hS.apply hadm op hsafe.1 ha) (hsafe.2 id1 ha) h

/-- **second clause of `flags_sound_full`, with the guard**: along any guarded history from
    `NewIdeal(gens)`, a positive minimality flag is the truth about the CURRENT generators: the
    un-cached decision `decideMinimal` answers `true`, i.e. (`decideMinimal_iff`) no leading
    exponent of a generator is divisible by the leading exponent of another one.  Moreover all
    generators of every object of the history are well-formed, nonzero, of word size, with exact
    exponents. -/
theorem flags_sound_minimal (L : Lawful F K) {o : Order} (hadm : Order.Admissible o)
    {gens : List (BPoly α)}
    (h0 : ∀ g ∈ gens, WF L g ∧ g ≠ [] ∧ Bounded g ∧ ∀ d ∈ keys g, Exact o d)
    (ops : List IdealOp) {id' : Ideal α} (hsafe : SafeRun F o ops { gens := gens })
    (h : IdealOp.run F o ops { gens := gens } = some id') :
    (∀ g ∈ id'.gens, WF L g ∧ g ≠ [] ∧ Bounded g ∧ ∀ d ∈ keys g, Exact o d) ∧
    (id'.isMinimal = 1 → decideMinimal F o id'.gens = true ∧ MinimalLd o id'.gens) := by
  have S0 : SemMin L o ({ gens := gens } : Ideal α) := ⟨h0, fun hc => by simp at hc⟩
  have S := S0.run hadm ops hsafe h
  exact ⟨S.good, fun hm => ⟨(decideMinimal_iff L hadm S.good).2 (S.min hm), S.min hm⟩⟩

/-- **first clause of `flags_sound_full`** once more, now with the word-size hypothesis on the
    current generators discharged by the invariant -/
theorem flags_sound_groebner' (L : Lawful F K) {o : Order} (hadm : Order.Admissible o)
    {gens : List (BPoly α)}
    (h0 : ∀ g ∈ gens, WF L g ∧ g ≠ [] ∧ Bounded g ∧ ∀ d ∈ keys g, Exact o d)
    (ops : List IdealOp) {id' : Ideal α} (hsafe : SafeRun F o ops { gens := gens })
    (h : IdealOp.run F o ops { gens := gens } = some id')
    (hr : RoundSafe F o (C11.RunSafe F o) id'.gens) :
    id'.isGroebner = 1 → decideGroebner F o id'.gens ≠ some false :=
  flags_sound_groebner L hadm h0 ops hsafe h
    (fun g hg => ((flags_sound_minimal L hadm h0 ops hsafe h).1 g hg).2.2.1) hr

end HistoryMinimal

/-! ### histories: the reducedness flag, and canonicity of the reduced basis -/

section HistoryReduced

/-- the full meaning of the three flags along a guarded history:
    `flags` the syntactic invariant of Props/C12.lean, `sm` goodness and minimality
    (`SemMin`), `mon` a minimal-flagged object holds generators with LEADING COEFFICIENT ONE,
    `red` a reduced-flagged object holds a list in which no exponent of a generator is divisible by
    the leading exponent of another generator -/
structure SemRed (L : Lawful F K) (o : Order) (id : Ideal α) : Prop where
  flags : FlagsOK F o id
  sm : SemMin L o id
  mon : id.isMinimal = 1 → ∀ g ∈ id.gens, Monic L o g
  red : id.isReduced = 1 → ReducedSem o id.gens

variable {L : Lawful F K} {o : Order}

theorem SemRed.isGroebnerQ {id id' : Ideal α} {b : Bool} (hS : SemRed L o id)
    (h : id.isGroebnerQ F o = some (id', b)) : SemRed L o id' := by
  obtain ⟨hg, hm, hr, -⟩ := Effects.isGroebnerQ_frame F o h
  exact ⟨hS.flags.isGroebnerQ h, hS.sm.isGroebnerQ h,
    fun hc => by rw [hg]; exact hS.mon (by rw [← hm]; exact hc),
    fun hc => by rw [hg]; exact hS.red (by rw [← hr]; exact hc)⟩

theorem SemRed.isMinimalQ (hadm : Order.Admissible o) {id id' : Ideal α} {b : Bool}
    (hS : SemRed L o id) (h : id.isMinimalQ F o = some (id', b)) : SemRed L o id' := by
  have hf := hS.flags.isMinimalQ h
  have hsm := hS.sm.isMinimalQ hadm h
  have hred : id'.isReduced = id.isReduced := isMinimalQ_isReduced h
  rcases isMinimalQ_spec h with ⟨_, rfl, _⟩ | ⟨_, rfl, _⟩ | ⟨h1, -, id1, bg, hq, h3⟩
  · exact hS
  · exact hS
  · have S1 := hS.isGroebnerQ hq
    have hnr : id'.isReduced ≠ 1 := by
      rw [hred]; intro hc; exact h1 (hS.flags.red_imp hc)
    refine ⟨hf, hsm, fun hc => ?_, fun hc => absurd hc hnr⟩
    rcases h3 with ⟨rfl, rfl, rfl⟩ | ⟨rfl, -, rfl⟩
    · simp at hc
    · intro g' hg'
      obtain ⟨g, hg, rfl⟩ := List.mem_map.1 hg'
      exact normalize_monic L hadm (S1.sm.good g hg)

theorem SemRed.isReducedQ (hadm : Order.Admissible o) {id id' : Ideal α} {b : Bool}
    (hS : SemRed L o id) (h : id.isReducedQ F o = some (id', b)) : SemRed L o id' := by
  have hf := hS.flags.isReducedQ h
  have hsm := hS.sm.isReducedQ hadm h
  rcases isReducedQ_spec h with ⟨_, rfl, _⟩ | ⟨_, rfl, _⟩ | ⟨-, -, id1, bm, hq, h3⟩
  · exact hS
  · exact hS
  · have S1 := hS.isMinimalQ hadm hq
    rcases h3 with ⟨rfl, rfl, rfl⟩ | ⟨rfl, hb, rfl⟩
    · exact ⟨hf, hsm, S1.mon, fun hc => by simp at hc⟩
    · refine ⟨hf, hsm, S1.mon, fun hc => ?_⟩
      have hbt : b = true := by
        cases b
        · simp at hc
        · rfl
      rw [hbt] at hb
      exact reducedSem_of_decideReduced L (fun g hg => (S1.sm.good g hg).1) hb

theorem SemRed.minimizeBasis (hadm : Order.Admissible o) {id id' : Ideal α}
    {res : Except Kind Unit} (hS : SemRed L o id) (h : id.minimizeBasis F o = some (id', res)) :
    SemRed L o id' := by
  have hf := hS.flags.minimizeBasis h
  have hsm := hS.sm.minimizeBasis hadm h
  obtain ⟨id1, b, hq, hc⟩ := minimizeBasis_spec h
  have S1 := hS.isGroebnerQ hq
  rcases hc with ⟨rfl, rfl, -⟩ | ⟨rfl, -, rfl⟩
  · exact S1
  · refine ⟨hf, hsm, fun _ g hg => ?_, fun hc => ?_⟩
    · obtain ⟨g0, hg0, rfl⟩ := List.mem_map.1 ((minimized_sublist id1.gens).subset hg)
      exact normalize_monic L hadm (S1.sm.good g0 hg0)
    · have hr1 : id1.isReduced = 1 := by
        by_contra hne
        simp only [if_neg hne] at hc
        exact absurd hc (by decide)
      have hrs := S1.red hr1
      show ReducedSem o (minimized F o id1.gens)
      rw [minimized_of_minimal L hadm S1.sm.good (hrs.minimal L hadm S1.sm.good)]
      exact hrs.map_normalize L hadm S1.sm.good

theorem SemRed.reduceBasis (hadm : Order.Admissible o) {id id' : Ideal α}
    {res : Except Kind Unit} (hS : SemRed L o id) (hsafe : OpSafe F o .reduceBasis id)
    (h : id.reduceBasis F o = some (id', res)) : SemRed L o id' := by
  have hf := hS.flags.reduceBasis h
  have hsm := hS.sm.reduceBasis hadm hsafe h
  obtain ⟨id1, bg, hq, hc⟩ := reduceBasis_spec h
  have S1 := hS.isGroebnerQ hq
  have hg : id1.gens = id.gens := (Effects.isGroebnerQ_frame F o hq).1
  have hs := hsafe.2 id1 bg hq
  rcases hc with ⟨rfl, rfl, -⟩ | ⟨rfl, -, idm, gens, hM, hl, rfl⟩
  · exact S1
  · have hidm : idm.gens = (if id1.isMinimal = 1 then id.gens else minimized F o id.gens) ∧
        (∀ g ∈ idm.gens, WF L g ∧ g ≠ [] ∧ Bounded g ∧ ∀ d ∈ keys g, Exact o d) ∧
        MinimalLd o idm.gens ∧ (∀ g ∈ idm.gens, Monic L o g) := by
      by_cases hmin : id1.isMinimal = 1
      · rw [if_neg (by simpa using hmin)] at hM
        cases hM
        rw [if_pos hmin, hg]
        exact ⟨rfl, by rw [← hg]; exact S1.sm.good, by rw [← hg]; exact S1.sm.min hmin,
          by rw [← hg]; exact S1.mon hmin⟩
      · rw [if_pos hmin, minimizeBasis_of_isGroebnerQ_true (isGroebnerQ_idem hq)] at hM
        simp only [Option.map_some, Option.some.injEq] at hM
        subst hM
        have := minimized_minimal L hadm S1.sm.good
        rw [if_neg hmin, ← hg]
        refine ⟨rfl, this.2, this.1, fun g hgm => ?_⟩
        obtain ⟨g0, hg0, rfl⟩ := List.mem_map.1 ((minimized_sublist id1.gens).subset hgm)
        exact normalize_monic L hadm (S1.sm.good g0 hg0)
    rw [← hidm.1] at hs
    obtain ⟨-, -, c3, c4⟩ := reduceLoop_reduced L hadm hidm.2.1 hidm.2.2.1 hidm.2.2.2 hs hl
    exact ⟨hf, hsm, fun _ => c3, fun _ => c4⟩

theorem SemRed.groebnerBasis {id gb : Ideal α} (hS : SemRed L o id)
    (hsafe : OpSafe F o .groebnerBasis id) (h : id.groebnerBasis F o = some gb) :
    SemRed L o gb := by
  have hf := hS.flags.groebnerBasis h
  have hsm := hS.sm.groebnerBasis hsafe h
  rcases groebnerBasis_spec h with ⟨-, rfl⟩ | ⟨-, G, -, rfl⟩
  · exact hS
  · exact ⟨hf, hsm, fun hc => by simp at hc, fun hc => by simp at hc⟩

theorem SemRed.apply (hadm : Order.Admissible o) {id id' : Ideal α} (op : IdealOp)
    (hS : SemRed L o id) (hsafe : OpSafe F o op id) (h : op.apply F o id = some id') :
    SemRed L o id' := by
  cases op <;> simp only [IdealOp.apply, Option.map_eq_some_iff, Prod.exists, exists_and_right,
    exists_eq_right] at h
  · obtain ⟨b, h⟩ := h; exact hS.isGroebnerQ h
  · obtain ⟨b, h⟩ := h; exact hS.isMinimalQ hadm h
  · obtain ⟨b, h⟩ := h; exact hS.isReducedQ hadm h
  · obtain ⟨b, h⟩ := h; exact hS.minimizeBasis hadm h
  · obtain ⟨b, h⟩ := h; exact hS.reduceBasis hadm hsafe h
  · exact hS.groebnerBasis hsafe h
  · cases h; exact hS

theorem SemRed.run (hadm : Order.Admissible o) {id id' : Ideal α} (ops : List IdealOp)
    (hS : SemRed L o id) (hsafe : SafeRun F o ops id) (h : IdealOp.run F o ops id = some id') :
    SemRed L o id' := by
  induction ops generalizing id with
  | nil => simp only [IdealOp.run, Option.some.injEq] at h; subst h; exact hS
  | cons op ops ih =>
    simp only [IdealOp.run] at h
    cases ha : op.apply F o id with
    | none => rw [ha] at h; cases h
    | some id1 =>
      rw [ha] at h
      exact ih (hS.apply hadm op hsafe.1 ha) (hsafe.2 id1 ha) h

theorem SemRed.fresh (L : Lawful F K) (o : Order) {gens : List (BPoly α)}
    (h0 : ∀ g ∈ gens, WF L g ∧ g ≠ [] ∧ Bounded g ∧ ∀ d ∈ keys g, Exact o d) :
    SemRed L o ({ gens := gens } : Ideal α) :=
  ⟨FlagsOK.fresh gens, ⟨h0, fun hc => by simp at hc⟩, fun hc => by simp at hc,
    fun hc => by simp at hc⟩

/-- **third clause of `flags_sound_full`, with the guard** (same guard `SafeRun` as
    `flags_sound_minimal`): along any guarded history from `NewIdeal(gens)`, a positive reducedness
    flag is never contradicted by the un-cached decision `decideReduced` on the CURRENT generators
    (it answers `some true`, or `none` if a generator has more terms than `divFuel`), and it means:
      * no exponent of a generator is divisible by the leading exponent of another generator
        (`ReducedSem`), in particular no leading exponent divides another one (`MinimalLd`);
      * every generator has leading coefficient one (`Monic`: the normalisation is done by
        `MinimizeBasis()`/`IsMinimal()` through `Normalize`, and `ReduceBasis()` keeps leading
        exponents and leading coefficients, `remByOthers_reduced`). -/
theorem flags_sound_reduced (L : Lawful F K) {o : Order} (hadm : Order.Admissible o)
    {gens : List (BPoly α)}
    (h0 : ∀ g ∈ gens, WF L g ∧ g ≠ [] ∧ Bounded g ∧ ∀ d ∈ keys g, Exact o d)
    (ops : List IdealOp) {id' : Ideal α} (hsafe : SafeRun F o ops { gens := gens })
    (h : IdealOp.run F o ops { gens := gens } = some id') :
    id'.isReduced = 1 →
      decideReduced F o id'.gens ≠ some false ∧ ReducedSem o id'.gens ∧ MinimalLd o id'.gens ∧
      ∀ g ∈ id'.gens, Monic L o g := by
  intro hr
  have S := (SemRed.fresh L o h0).run hadm ops hsafe h
  have hm := S.flags.red_imp hr
  exact ⟨decideReduced_of_reducedSem L hadm
      (fun g hg => ⟨(S.sm.good g hg).1, (S.sm.good g hg).2.2.2⟩) (S.red hr),
    S.red hr, S.sm.min hm, S.mon hm⟩

/-- a minimal-flagged object holds generators with leading coefficient one -/
theorem flags_sound_monic (L : Lawful F K) {o : Order} (hadm : Order.Admissible o)
    {gens : List (BPoly α)}
    (h0 : ∀ g ∈ gens, WF L g ∧ g ≠ [] ∧ Bounded g ∧ ∀ d ∈ keys g, Exact o d)
    (ops : List IdealOp) {id' : Ideal α} (hsafe : SafeRun F o ops { gens := gens })
    (h : IdealOp.run F o ops { gens := gens } = some id') :
    id'.isMinimal = 1 → ∀ g ∈ id'.gens, Monic L o g :=
  ((SemRed.fresh L o h0).run hadm ops hsafe h).mon

/-- when every generator has fewer terms than the division has fuel the answer is `some true` -/
theorem decideReduced_eq_some_true_of_ne_none {o : Order} {G : List (BPoly α)}
    (h1 : decideReduced F o G ≠ some false) (h2 : decideReduced F o G ≠ none) :
    decideReduced F o G = some true := by
  cases hd : decideReduced F o G with
  | none => exact absurd hd h2
  | some b =>
    cases b
    · exact absurd hd h1
    · rfl

/-- **CANONICITY (C12): the reduced Gröbner basis is unique.**  Two guarded histories, for the
    same coefficient field, the same admissible order, from `NewIdeal(gens1)` and `NewIdeal(gens2)`
    with `⟨gens1⟩ = ⟨gens2⟩`, both ending in an object flagged reduced (e.g. by `ReduceBasis()`),
    end in the same set of polynomials: every generator of the one occurs in the other (as a
    polynomial, and the model's `Equal` says so), the lists of polynomials are permutations of each
    other and have the same length. -/
theorem reduced_canonical (L : Lawful F K) {o : Order} (hadm : Order.Admissible o)
    {gens1 gens2 : List (BPoly α)}
    (h1 : ∀ g ∈ gens1, WF L g ∧ g ≠ [] ∧ Bounded g ∧ ∀ d ∈ keys g, Exact o d)
    (h2 : ∀ g ∈ gens2, WF L g ∧ g ≠ [] ∧ Bounded g ∧ ∀ d ∈ keys g, Exact o d)
    (hspan : Ideal.span ((toMv L) '' {g | g ∈ gens1}) = Ideal.span ((toMv L) '' {g | g ∈ gens2}))
    (ops1 ops2 : List IdealOp) {id1 id2 : Ideal α}
    (s1 : SafeRun F o ops1 { gens := gens1 }) (s2 : SafeRun F o ops2 { gens := gens2 })
    (r1 : IdealOp.run F o ops1 { gens := gens1 } = some id1)
    (r2 : IdealOp.run F o ops2 { gens := gens2 } = some id2)
    (f1 : id1.isReduced = 1) (f2 : id2.isReduced = 1) :
    (∀ g ∈ id1.gens, ∃ g' ∈ id2.gens, toMv L g = toMv L g' ∧ equal F g g' = true) ∧
    (∀ g ∈ id2.gens, ∃ g' ∈ id1.gens, toMv L g = toMv L g' ∧ equal F g g' = true) ∧
    (toMv L) '' {g | g ∈ id1.gens} = (toMv L) '' {g | g ∈ id2.gens} ∧
    (id1.gens.map (toMv L)).Perm (id2.gens.map (toMv L)) ∧ id1.gens.length = id2.gens.length := by
  have S1 := (SemRed.fresh L o h1).run hadm ops1 s1 r1
  have S2 := (SemRed.fresh L o h2).run hadm ops2 s2 r2
  have m1 := S1.flags.red_imp f1
  have m2 := S2.flags.red_imp f2
  have G1 := (flag_semantics L hadm h1 ops1 s1 r1).2 (S1.flags.min_imp m1)
  have G2 := (flag_semantics L hadm h2 ops2 s2 r2).2 (S2.flags.min_imp m2)
  rw [hspan] at G1
  obtain ⟨a, b, c⟩ := reduced_unique hadm G1 G2 S1.sm.good S2.sm.good (S1.red f1) (S2.red f2)
    (S1.mon m1) (S2.mon m2)
  obtain ⟨d, e⟩ := reduced_unique_perm hadm G1 G2 S1.sm.good S2.sm.good (S1.red f1) (S2.red f2)
    (S1.mon m1) (S2.mon m2)
  exact ⟨a, b, c, d, e⟩

end HistoryReduced

/-! ### a remark on the literal `minimize_span_full` -/

/-- for `DegRevLex` over GF(3) the literal statement `minimize_span_full` is VACUOUSLY true: its
    first hypothesis `C11.buchberger_criterion_full` is false there (Props/C11Full.lean).  This is
    recorded only to show that the literal statement says nothing for the graded orders. -/
theorem minimize_span_full_vacuous :
    minimize_span_full (F := C05.fieldOps (ZMod 3)) (C05.fieldLawful (ZMod 3))
      ({ kind := .wdegrevlex 1 1, xGtY := true } : Order) :=
  fun hcrit => absurd hcrit C11.buchberger_criterion_full_false

/-! ### non-vacuity -/

section NonVacuity
open C11

/-- the hypotheses of `flag_semantics`, `history_span`, `reduce_span`, `flags_sound_groebner` are
    jointly satisfiable by a history with real divisions: `NewIdeal(XY+2, Y²+2)` over GF(3)
    (reference record), Lex, then `GroebnerBasis()`, `ReduceBasis()` -/
example :
    let F := C05.fieldOps (ZMod 3)
    let L := C05.fieldLawful (ZMod 3)
    (∀ g ∈ [k1, k2], WF L g ∧ g ≠ [] ∧ Bounded g ∧ ∀ d ∈ keys g, Exact lexO d) ∧
    SafeRun F lexO [.groebnerBasis, .reduceBasis] { gens := [k1, k2] } ∧
    (IdealOp.run F lexO [.groebnerBasis, .reduceBasis] { gens := [k1, k2] }).map
      (fun i => (i.gens, i.isGroebner)) = some ([k2, k3], 1) := by
  intro F L
  have hb : buchberger F lexO groebnerFuel [k1, k2] = some [k1, k2, k3] := by decide +kernel
  have hgb : Ideal.groebnerBasis F lexO { gens := [k1, k2] } = some ⟨[k1, k2, k3], 1, 0, 0⟩ := by
    unfold Ideal.groebnerBasis
    rw [if_neg (by decide), hb]; rfl
  refine ⟨fun g hg => good_k g (by
    simp only [List.mem_cons, List.not_mem_nil, or_false] at hg ⊢
    rcases hg with h | h <;> simp [h]), ⟨?_, ?_⟩, by decide +kernel⟩
  · intro _ G hG gb hp1 hp2
    rw [hb] at hG
    cases hG
    have e := List.prefix_iff_eq_take.1 hp2
    have l1 := hp1.length_le
    have l2 := hp2.length_le
    simp only [List.length_cons, List.length_nil] at l1 l2
    apply roundSafe_of_test
    have : gb.length = 2 ∨ gb.length = 3 := by omega
    rcases this with h | h
    · rw [e, h]; decide +kernel
    · rw [e, h]; decide +kernel
  · intro id' h
    have h' : Ideal.groebnerBasis F lexO { gens := [k1, k2] } = some id' := h
    rw [hgb] at h'
    cases h'
    refine ⟨⟨fun h => absurd rfl h, ?_⟩, fun _ _ => trivial⟩
    intro id1 b hq
    rw [Effects.isGroebnerQ_of_one F lexO rfl] at hq
    cases hq
    have hm : minimized F lexO [k1, k2, k3] = [k2, k3] := by decide +kernel
    rw [if_neg (show ¬ (0 : Int) = 1 by decide), hm]
    refine ⟨⟨trivial, by decide, by decide +kernel⟩, fun r hr => ?_⟩
    have hr' : remByOthers F lexO [k2, k3] 0 = some k2 := by decide +kernel
    rw [hr'] at hr
    cases hr
    exact ⟨⟨trivial, by decide, by decide +kernel⟩, fun _ _ => trivial⟩

end NonVacuity

section NonVacuity2
open C11

theorem safeRun_k12 : SafeRun (C05.fieldOps (ZMod 3)) lexO [.groebnerBasis, .reduceBasis]
    { gens := [k1, k2] } := by
  let F := C05.fieldOps (ZMod 3)
  have hb : buchberger F lexO groebnerFuel [k1, k2] = some [k1, k2, k3] := by decide +kernel
  have hgb : Ideal.groebnerBasis F lexO { gens := [k1, k2] } = some ⟨[k1, k2, k3], 1, 0, 0⟩ := by
    unfold Ideal.groebnerBasis
    rw [if_neg (by decide), hb]; rfl
  refine ⟨?_, ?_⟩
  · intro _ G hG gb hp1 hp2
    rw [hb] at hG
    cases hG
    have e := List.prefix_iff_eq_take.1 hp2
    have l1 := hp1.length_le
    have l2 := hp2.length_le
    simp only [List.length_cons, List.length_nil] at l1 l2
    apply roundSafe_of_test
    have : gb.length = 2 ∨ gb.length = 3 := by omega
    rcases this with h | h
    · rw [e, h]; decide +kernel
    · rw [e, h]; decide +kernel
  · intro id' h
    have h' : Ideal.groebnerBasis F lexO { gens := [k1, k2] } = some id' := h
    rw [hgb] at h'
    cases h'
    refine ⟨⟨fun h => absurd rfl h, ?_⟩, fun _ _ => trivial⟩
    intro id1 b hq
    rw [Effects.isGroebnerQ_of_one F lexO rfl] at hq
    cases hq
    have hm : minimized F lexO [k1, k2, k3] = [k2, k3] := by decide +kernel
    rw [if_neg (show ¬ (0 : Int) = 1 by decide), hm]
    refine ⟨⟨trivial, by decide, by decide +kernel⟩, fun r hr => ?_⟩
    have hr' : remByOthers F lexO [k2, k3] 0 = some k2 := by decide +kernel
    rw [hr'] at hr
    cases hr
    exact ⟨⟨trivial, by decide, by decide +kernel⟩, fun _ _ => trivial⟩

theorem safeRun_k23 : SafeRun (C05.fieldOps (ZMod 3)) lexO [.reduceBasis]
    { gens := [k2, k3] } := by
  let F := C05.fieldOps (ZMod 3)
  refine ⟨⟨fun _ _ => roundSafe_of_test (by decide +kernel), ?_⟩, fun _ _ => trivial⟩
  intro id1 b hq
  rw [isGroebnerQ_undecided (by decide) (by decide)] at hq
  have hd : decideGroebner F lexO [k2, k3] = some true := by decide +kernel
  rw [show ({ gens := [k2, k3] } : BPoly.Ideal (ZMod 3)).gens = [k2, k3] from rfl, hd] at hq
  simp only [Option.map_some, Option.some.injEq, Prod.mk.injEq] at hq
  obtain ⟨rfl, rfl⟩ := hq
  have hm : minimized F lexO [k2, k3] = [k2, k3] := by decide +kernel
  rw [if_neg (show ¬ (0 : Int) = 1 by decide), hm]
  refine ⟨⟨trivial, by decide, by decide +kernel⟩, fun r hr => ?_⟩
  have hr' : remByOthers F lexO [k2, k3] 0 = some k2 := by decide +kernel
  rw [hr'] at hr
  cases hr
  exact ⟨⟨trivial, by decide, by decide +kernel⟩, fun _ _ => trivial⟩

/-- the hypotheses of `flags_sound_reduced` and `reduced_canonical` are jointly satisfiable:
    `NewIdeal(XY+2, Y²+2)`, `GroebnerBasis()`, `ReduceBasis()` and `NewIdeal(Y²+2, X+2Y)`,
    `ReduceBasis()` over GF(3), Lex, generate the same ideal and both end reduced-flagged — with
    the generators `[Y²+2, X+2Y]`, as `reduced_canonical` says they must -/
example :
    let F := C05.fieldOps (ZMod 3)
    let L := C05.fieldLawful (ZMod 3)
    (∀ g ∈ [k1, k2], WF L g ∧ g ≠ [] ∧ Bounded g ∧ ∀ d ∈ keys g, Exact lexO d) ∧
    (∀ g ∈ [k2, k3], WF L g ∧ g ≠ [] ∧ Bounded g ∧ ∀ d ∈ keys g, Exact lexO d) ∧
    Ideal.span ((toMv L) '' {g | g ∈ [k1, k2]}) = Ideal.span ((toMv L) '' {g | g ∈ [k2, k3]}) ∧
    SafeRun F lexO [.groebnerBasis, .reduceBasis] { gens := [k1, k2] } ∧
    SafeRun F lexO [.reduceBasis] { gens := [k2, k3] } ∧
    ∃ id1 id2, IdealOp.run F lexO [.groebnerBasis, .reduceBasis] { gens := [k1, k2] } = some id1 ∧
      IdealOp.run F lexO [.reduceBasis] { gens := [k2, k3] } = some id2 ∧
      id1.isReduced = 1 ∧ id2.isReduced = 1 ∧ id1.gens = [k2, k3] ∧ id2.gens = [k2, k3] := by
  intro F L
  have g12 : ∀ g ∈ [k1, k2], WF L g ∧ g ≠ [] ∧ Bounded g ∧ ∀ d ∈ keys g, Exact lexO d :=
    fun g hg => good_k g (by
      simp only [List.mem_cons, List.not_mem_nil, or_false] at hg ⊢
      rcases hg with h | h <;> simp [h])
  have g23 : ∀ g ∈ [k2, k3], WF L g ∧ g ≠ [] ∧ Bounded g ∧ ∀ d ∈ keys g, Exact lexO d :=
    fun g hg => good_k g (by
      simp only [List.mem_cons, List.not_mem_nil, or_false] at hg ⊢
      rcases hg with h | h <;> simp [h])
  have e1 : (IdealOp.run F lexO [.groebnerBasis, .reduceBasis] { gens := [k1, k2] }).map
      (fun i => (i.gens, i.isReduced)) = some ([k2, k3], 1) := by decide +kernel
  have e2 : (IdealOp.run F lexO [.reduceBasis] { gens := [k2, k3] }).map
      (fun i => (i.gens, i.isReduced)) = some ([k2, k3], 1) := by decide +kernel
  cases hr1 : IdealOp.run F lexO [.groebnerBasis, .reduceBasis] { gens := [k1, k2] } with
  | none => rw [hr1] at e1; cases e1
  | some id1 =>
    cases hr2 : IdealOp.run F lexO [.reduceBasis] { gens := [k2, k3] } with
    | none => rw [hr2] at e2; cases e2
    | some id2 =>
      rw [hr1] at e1
      rw [hr2] at e2
      simp only [Option.map_some, Option.some.injEq, Prod.mk.injEq] at e1 e2
      refine ⟨g12, g23, ?_, safeRun_k12, safeRun_k23, id1, id2, rfl, rfl, e1.2, e2.2, e1.1, e2.1⟩
      have := (history_span L (o := lexO) trivial g12 _ safeRun_k12 hr1).1
      rw [e1.1] at this
      exact this.symm

end NonVacuity2

end C12
end Algobra
