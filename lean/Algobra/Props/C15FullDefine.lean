/-
  Props/C15FullDefine.lean — the round trips of `Props/C15Full.lean` instantiated at the fields the
  model's `Define` functions return for a cardinality that fits a machine word (`q < 2^64`).
  The field structure (`Lawful` records, irreducibility of the Conway polynomials) comes from
  `C01.define_bin_lawful` / `C01.define_ext_lawful`, which rest on the Conway-database
  certificates of C04 (`native_decide` sweeps, admitted for C04); this file is separate so that
  `Props/C15Full.lean` stays free of them.
-/
import Algobra.Props.C15Full
import Algobra.Props.C01

namespace Algobra.C15
open Algobra Algobra.Strings Algobra.Parse Algobra.ParseRT Algobra.UPoly Polynomial

/-- element clause of `C15_full` for every extension field `extfield.Define` returns -/
theorem ext_elemRoundTrip_define {q p n : Nat} {g : List Nat} (hq : q < 2 ^ 64)
    (hd : Define.ext Gen.dbText q = .ok (.ext p n g)) : ElemRoundTrip (extSpec p n g) := by
  obtain ⟨p', n', g', hF, h32, he, hp, hqe, hn, _, M, _⟩ := C01.define_ext_lawful hq hd
  injection he with e1 e2 e3
  subst e1 e2 e3
  have hn63 : n ≤ 2 ^ 63 := by
    have h1 : 2 ^ n ≤ p ^ n := Nat.pow_le_pow_left hp.two_le n
    have h2 : 2 ^ n < 2 ^ 64 := by omega
    have := (Nat.pow_lt_pow_iff_right (by norm_num : 1 < 2)).1 h2
    omega
  exact ext_elemRoundTrip M hn63

/-- `UPolyRoundTrip` clause 1 (default notation, at most `2^63` coefficients) over every binary
    field `binfield.Define` returns, with any admissible field variable `w` (`SetVarName`) -/
theorem bin_upolyRoundTrip_define {q n m : Nat} {w : String} (hq : q < 2 ^ 64)
    (hd : Define.bin Gen.dbText q = .ok (.bin n m)) (hw : AdmissibleName w)
    {v : String} (hv : AdmissibleName v) (hun : Unconfusable v w)
    (mod : Option (UPoly Nat)) {f : UPoly Nat}
    (hf : UValid (binSpec n m w) { F := binOps n m w, varName := v, modulus := mod } f)
    (hlen : f.length ≤ 2 ^ 63) :
    ∃ g, UPoly.parse { F := binOps n m w, varName := v, modulus := mod }
        (UPoly.toStr (binOps n m w) v f) = .ok (some g) ∧
      UPoly.equal (binOps n m w) f g = true := by
  obtain ⟨n', m', cs, he, _, h1, h32, _, _, ⟨hm1, hm2⟩, _, _, hF, _⟩ :=
    C01.define_bin_lawful hq hd
  injection he with e1 e2
  subst e1 e2
  have := bin_upoly_roundtrip_beq (BinField.binLawful h1 (by omega) hm1 hm2 w) (fun _ => Iff.rfl)
    hw (by omega) hv hun mod hf hlen
  rwa [uToStrN_default] at this

/-- `UPolyRoundTrip` clause 1 (default notation, at most `2^63` coefficients) over every
    extension field `extfield.Define` returns -/
theorem ext_upolyRoundTrip_define {q p n : Nat} {g : List Nat} (hq : q < 2 ^ 64)
    (hd : Define.ext Gen.dbText q = .ok (.ext p n g))
    {v : String} (hv : AdmissibleName v) (hun : Unconfusable v "a")
    (mod : Option (UPoly (UPoly Nat))) {f : UPoly (UPoly Nat)}
    (hf : UValid (extSpec p n g) { F := extOps p n g, varName := v, modulus := mod } f)
    (hlen : f.length ≤ 2 ^ 63) :
    ∃ g', UPoly.parse { F := extOps p n g, varName := v, modulus := mod }
        (UPoly.toStr (extOps p n g) v f) = .ok (some g') ∧
      UPoly.equal (extOps p n g) f g' = true := by
  obtain ⟨p', n', g', hF, h32, he, hp, hqe, hn, _, M, _, _, hF2, L, hL, _⟩ :=
    C01.define_ext_lawful hq hd
  injection he with e1 e2 e3
  subst e1 e2 e3
  have hn63 : n ≤ 2 ^ 63 := by
    have h1 : 2 ^ n ≤ p ^ n := Nat.pow_le_pow_left hp.two_le n
    have h2 : 2 ^ n < 2 ^ 64 := by omega
    have := (Nat.pow_lt_pow_iff_right (by norm_num : 1 < 2)).1 h2
    omega
  have := ext_upoly_roundtrip_beq M hn63 L hL hv hun mod hf hlen
  rwa [uToStrN_default] at this

/-- `BPolyRoundTrip` clause 1 (default notation) over every prime field `primefield.Define`
    returns: every order, with or without ideal -/
theorem prime_bpolyRoundTrip_define {p : Nat} (hq : p < 2 ^ 64)
    (hd : Define.prime p = .ok (.prime p)) {x y : String} (hx : AdmissibleName x)
    (hy : AdmissibleName y) (hxy : Unconfusable x y) (ord : Order)
    (ideal : Option (List (BPoly Nat))) {f : BPoly Nat}
    (hf : BValid (primeSpec p) { F := primeOps p, ord := ord, varNames := (x, y), ideal := ideal } f) :
    ∃ g, BPoly.parse { F := primeOps p, ord := ord, varNames := (x, y), ideal := ideal }
        (BPoly.toStr { F := primeOps p, ord := ord, varNames := (x, y), ideal := ideal } f) =
          .ok (some g) ∧
      BPoly.equal (primeOps p) f g = true := by
  obtain ⟨_, hp, h32⟩ := (C03.define_prime_iff hq _).1 hd
  have := prime_bpoly_roundtrip hp h32 hx hy hxy ord ideal hf
  rwa [bToStrN_default] at this

/-- … over every binary field `binfield.Define` returns, any admissible field variable `w` -/
theorem bin_bpolyRoundTrip_define {q n m : Nat} {w : String} (hq : q < 2 ^ 64)
    (hd : Define.bin Gen.dbText q = .ok (.bin n m)) (hw : AdmissibleName w)
    {x y : String} (hx : AdmissibleName x) (hy : AdmissibleName y) (hxy : Unconfusable x y)
    (hxw : Unconfusable x w) (hyw : Unconfusable y w) (ord : Order)
    (ideal : Option (List (BPoly Nat))) {f : BPoly Nat}
    (hf : BValid (binSpec n m w) { F := binOps n m w, ord := ord, varNames := (x, y), ideal := ideal } f) :
    ∃ g, BPoly.parse { F := binOps n m w, ord := ord, varNames := (x, y), ideal := ideal }
        (BPoly.toStr { F := binOps n m w, ord := ord, varNames := (x, y), ideal := ideal } f) =
          .ok (some g) ∧
      BPoly.equal (binOps n m w) f g = true := by
  obtain ⟨n', m', cs, he, _, h1, h32, _, _, ⟨hm1, hm2⟩, _, _, hF, _⟩ :=
    C01.define_bin_lawful hq hd
  injection he with e1 e2
  subst e1 e2
  have := bin_bpoly_roundtrip (BinField.binLawful h1 (by omega) hm1 hm2 w) (fun _ => Iff.rfl)
    hw (by omega) hx hy hxy hxw hyw ord ideal hf
  rwa [bToStrN_default] at this

/-- … over every extension field `extfield.Define` returns -/
theorem ext_bpolyRoundTrip_define {q p n : Nat} {g : List Nat} (hq : q < 2 ^ 64)
    (hd : Define.ext Gen.dbText q = .ok (.ext p n g))
    {x y : String} (hx : AdmissibleName x) (hy : AdmissibleName y) (hxy : Unconfusable x y)
    (hxw : Unconfusable x "a") (hyw : Unconfusable y "a") (ord : Order)
    (ideal : Option (List (BPoly (UPoly Nat)))) {f : BPoly (UPoly Nat)}
    (hf : BValid (extSpec p n g) { F := extOps p n g, ord := ord, varNames := (x, y), ideal := ideal } f) :
    ∃ g', BPoly.parse { F := extOps p n g, ord := ord, varNames := (x, y), ideal := ideal }
        (BPoly.toStr { F := extOps p n g, ord := ord, varNames := (x, y), ideal := ideal } f) =
          .ok (some g') ∧
      BPoly.equal (extOps p n g) f g' = true := by
  obtain ⟨p', n', g', hF, h32, he, hp, hqe, hn, _, M, _, _, hF2, L, hL, _⟩ :=
    C01.define_ext_lawful hq hd
  injection he with e1 e2 e3
  subst e1 e2 e3
  have hn63 : n ≤ 2 ^ 63 := by
    have h1 : 2 ^ n ≤ p ^ n := Nat.pow_le_pow_left hp.two_le n
    have h2 : 2 ^ n < 2 ^ 64 := by omega
    have := (Nat.pow_lt_pow_iff_right (by norm_num : 1 < 2)).1 h2
    omega
  have := ext_bpoly_roundtrip M hn63 L hL hx hy hxy hxw hyw ord ideal hf
  rwa [bToStrN_default] at this

/-- `UPolyRoundTrip` clause 2 (additivity) over every prime field `primefield.Define` returns -/
theorem prime_upolyAdditive_define {p : Nat} (hq : p < 2 ^ 64)
    (hd : Define.prime p = .ok (.prime p)) {v : String} (hv : AdmissibleName v)
    (mod : Option (UPoly Nat)) (hm : ModOK (primeSpec p) mod) {f₁ f₂ : UPoly Nat}
    (hf₁ : UValid (primeSpec p) { F := primeOps p, varName := v, modulus := mod } f₁)
    (hf₂ : UValid (primeSpec p) { F := primeOps p, varName := v, modulus := mod } f₂)
    (hl₁ : f₁.length ≤ 2 ^ 63) (hl₂ : f₂.length ≤ 2 ^ 63) :
    ∃ g, UPoly.parse { F := primeOps p, varName := v, modulus := mod }
        (UPoly.toStr (primeOps p) v f₁ ++ " + " ++ UPoly.toStr (primeOps p) v f₂) = .ok (some g) ∧
      UPoly.equal (primeOps p) g (UPoly.add (primeOps p) f₁ f₂) = true := by
  obtain ⟨_, hp, h32⟩ := (C03.define_prime_iff hq _).1 hd
  exact prime_upoly_additive hp h32 hv mod hm hf₁ hf₂ hl₁ hl₂

/-- … over every binary field `binfield.Define` returns -/
theorem bin_upolyAdditive_define {q n m : Nat} {w : String} (hq : q < 2 ^ 64)
    (hd : Define.bin Gen.dbText q = .ok (.bin n m)) (hw : AdmissibleName w)
    {v : String} (hv : AdmissibleName v) (hun : Unconfusable v w)
    (mod : Option (UPoly Nat)) (hm : ModOK (binSpec n m w) mod) {f₁ f₂ : UPoly Nat}
    (hf₁ : UValid (binSpec n m w) { F := binOps n m w, varName := v, modulus := mod } f₁)
    (hf₂ : UValid (binSpec n m w) { F := binOps n m w, varName := v, modulus := mod } f₂)
    (hl₁ : f₁.length ≤ 2 ^ 63) (hl₂ : f₂.length ≤ 2 ^ 63) :
    ∃ g, UPoly.parse { F := binOps n m w, varName := v, modulus := mod }
        (UPoly.toStr (binOps n m w) v f₁ ++ " + " ++ UPoly.toStr (binOps n m w) v f₂) =
          .ok (some g) ∧
      UPoly.equal (binOps n m w) g (UPoly.add (binOps n m w) f₁ f₂) = true := by
  obtain ⟨n', m', cs, he, _, h1, h32, _, _, ⟨hm1, hm2⟩, _, _, hF, _⟩ :=
    C01.define_bin_lawful hq hd
  injection he with e1 e2
  subst e1 e2
  exact bin_upoly_additive (BinField.binLawful h1 (by omega) hm1 hm2 w) (fun _ => Iff.rfl)
    hw (by omega) hv hun mod hm hf₁ hf₂ hl₁ hl₂

/-- … over every extension field `extfield.Define` returns -/
theorem ext_upolyAdditive_define {q p n : Nat} {g : List Nat} (hq : q < 2 ^ 64)
    (hd : Define.ext Gen.dbText q = .ok (.ext p n g))
    {v : String} (hv : AdmissibleName v) (hun : Unconfusable v "a")
    (mod : Option (UPoly (UPoly Nat))) (hm : ModOK (extSpec p n g) mod)
    {f₁ f₂ : UPoly (UPoly Nat)}
    (hf₁ : UValid (extSpec p n g) { F := extOps p n g, varName := v, modulus := mod } f₁)
    (hf₂ : UValid (extSpec p n g) { F := extOps p n g, varName := v, modulus := mod } f₂)
    (hl₁ : f₁.length ≤ 2 ^ 63) (hl₂ : f₂.length ≤ 2 ^ 63) :
    ∃ g', UPoly.parse { F := extOps p n g, varName := v, modulus := mod }
        (UPoly.toStr (extOps p n g) v f₁ ++ " + " ++ UPoly.toStr (extOps p n g) v f₂) =
          .ok (some g') ∧
      UPoly.equal (extOps p n g) g' (UPoly.add (extOps p n g) f₁ f₂) = true := by
  obtain ⟨p', n', g', hF, h32, he, hp, hqe, hn, _, M, _, _, hF2, L, hL, _⟩ :=
    C01.define_ext_lawful hq hd
  injection he with e1 e2 e3
  subst e1 e2 e3
  have hn63 : n ≤ 2 ^ 63 := by
    have h1 : 2 ^ n ≤ p ^ n := Nat.pow_le_pow_left hp.two_le n
    have h2 : 2 ^ n < 2 ^ 64 := by omega
    have := (Nat.pow_lt_pow_iff_right (by norm_num : 1 < 2)).1 h2
    omega
  exact ext_upoly_additive M hn63 L hL hv hun mod hm hf₁ hf₂ hl₁ hl₂

/-! ### the assembled statement

  `C15_full` of `Props/C15.lean` with the bounds it lacks:
  * cardinality `q < 2^64` (the `Define` lemmas of C03/C01 are stated for machine-word
    cardinalities);
  * at most `2^63` coefficients of a univariate polynomial (`strconv.ParseInt` on the exponent;
    without it the statement is false: `C15_full_literal_false`);
  * bivariate additivity in a quotient ring under `BAddSide`: admissible order, no overflow of the
    weighted degrees, and the MODEL's division fuel (an artifact of the model, see `BAddSide`).
  Nothing else of `C15_full` is omitted. -/

/-- `BPolyRoundTrip` with the side conditions of additivity in a quotient ring -/
def BPolyRoundTripB {α : Type} (S : FieldSpec α) : Prop :=
  ∀ (x y : String) (ord : Order) (ideal : Option (List (BPoly α))),
    AdmissibleName x → AdmissibleName y → Unconfusable x y →
    (∀ w, S.ownVar = some w → Unconfusable x w ∧ Unconfusable y w) →
    (∀ f, BValid S { F := S.F, ord := ord, varNames := (x, y), ideal := ideal } f →
      ∀ N : Notation, N.ok →
      ∃ g, BPoly.parse { F := S.F, ord := ord, varNames := (x, y), ideal := ideal }
          (bToStrN N { F := S.F, ord := ord, varNames := (x, y), ideal := ideal } f) = .ok (some g) ∧
        BPoly.equal S.F f g = true) ∧
    (∀ f₁ f₂, BValid S { F := S.F, ord := ord, varNames := (x, y), ideal := ideal } f₁ →
      BValid S { F := S.F, ord := ord, varNames := (x, y), ideal := ideal } f₂ →
      (ideal ≠ none → BAddSide ord f₁ f₂) →
      ∃ g, BPoly.parse { F := S.F, ord := ord, varNames := (x, y), ideal := ideal }
          (BPoly.toStr { F := S.F, ord := ord, varNames := (x, y), ideal := ideal } f₁ ++ " + " ++
            BPoly.toStr { F := S.F, ord := ord, varNames := (x, y), ideal := ideal } f₂) =
              .ok (some g) ∧
        BPoly.equal S.F g (BPoly.add S.F f₁ f₂) = true)

def FieldRoundTripB {α : Type} (S : FieldSpec α) : Prop :=
  ElemRoundTrip S ∧ UPolyRoundTripB S ∧ BPolyRoundTripB S

theorem prime_fieldRoundTripB {p : Nat} (hq : p < 2 ^ 64) (hd : Define.prime p = .ok (.prime p)) :
    FieldRoundTripB (primeSpec p) := by
  obtain ⟨_, hp, h32⟩ := (C03.define_prime_iff hq _).1 hd
  refine ⟨C15_partial p hd, ?_, ?_⟩
  · intro v mod hv _ hm
    exact ⟨fun f hf hlen N hN => prime_upoly_notation hp h32 hv mod hf hlen N hN,
      fun f₁ f₂ h1 h2 l1 l2 => prime_upoly_additive hp h32 hv mod hm h1 h2 l1 l2⟩
  · intro x y ord ideal hx hy hxy _
    exact ⟨fun f hf N hN => prime_bpoly_notation hp h32 hx hy hxy ord ideal hf N hN,
      fun f₁ f₂ h1 h2 hs => prime_bpoly_additive_bounded hp h32 hx hy hxy ord ideal h1 h2 hs⟩

theorem bin_fieldRoundTripB {q n m : Nat} {w : String} (hq : q < 2 ^ 64)
    (hd : Define.bin Gen.dbText q = .ok (.bin n m)) (hw : AdmissibleName w) :
    FieldRoundTripB (binSpec n m w) := by
  obtain ⟨n', m', cs, he, _, h1, h32, _, _, ⟨hm1, hm2⟩, _, _, hF, _⟩ :=
    C01.define_bin_lawful hq hd
  injection he with e1 e2
  subst e1 e2
  have hn : n < 64 := by omega
  let L := BinField.binLawful h1 (by omega) hm1 hm2 w
  have hL : ∀ a, L.valid a ↔ a < 2 ^ n := fun _ => Iff.rfl
  refine ⟨bin_elemRoundTrip hw m hn, ?_, ?_⟩
  · intro v mod hv hun hm
    have hvw : Unconfusable v w := hun w rfl
    exact ⟨fun f hf hlen N hN => bin_upoly_notation L hL hw hn hv hvw mod hf hlen N hN,
      fun f₁ f₂ k1 k2 l1 l2 => bin_upoly_additive L hL hw hn hv hvw mod hm k1 k2 l1 l2⟩
  · intro x y ord ideal hx hy hxy hun
    obtain ⟨hxw, hyw⟩ := hun w rfl
    exact ⟨fun f hf N hN => bin_bpoly_notation L hL hw hn hx hy hxy hxw hyw ord ideal hf N hN,
      fun f₁ f₂ k1 k2 hs =>
        bin_bpoly_additive_bounded L hL hw hn hx hy hxy hxw hyw ord ideal k1 k2 hs⟩

theorem ext_fieldRoundTripB {q p n : Nat} {g : List Nat} (hq : q < 2 ^ 64)
    (hd : Define.ext Gen.dbText q = .ok (.ext p n g)) : FieldRoundTripB (extSpec p n g) := by
  have helem := ext_elemRoundTrip_define hq hd
  obtain ⟨p', n', g', hF, h32, he, hp, hqe, hn, _, M, _, _, hF2, L, hL, _⟩ :=
    C01.define_ext_lawful hq hd
  injection he with e1 e2 e3
  subst e1 e2 e3
  have hn63 : n ≤ 2 ^ 63 := by
    have h1 : 2 ^ n ≤ p ^ n := Nat.pow_le_pow_left hp.two_le n
    have h2 : 2 ^ n < 2 ^ 64 := by omega
    have := (Nat.pow_lt_pow_iff_right (by norm_num : 1 < 2)).1 h2
    omega
  refine ⟨helem, ?_, ?_⟩
  · intro v mod hv hun hm
    have hva : Unconfusable v "a" := hun "a" rfl
    exact ⟨fun f hf hlen N hN => ext_upoly_notation M hn63 L hL hv hva mod hf hlen N hN,
      fun f₁ f₂ k1 k2 l1 l2 => ext_upoly_additive M hn63 L hL hv hva mod hm k1 k2 l1 l2⟩
  · intro x y ord ideal hx hy hxy hun
    obtain ⟨hxw, hyw⟩ := hun "a" rfl
    exact ⟨fun f hf N hN => ext_bpoly_notation M hn63 L hL hx hy hxy hxw hyw ord ideal hf N hN,
      fun f₁ f₂ k1 k2 hs =>
        ext_bpoly_additive_bounded M hn63 L hL hx hy hxy hxw hyw ord ideal k1 k2 hs⟩

/-- **C15, assembled and bounded: every clause of `C15_full`.**  Over every field the three
    `Define` functions of the model return for a cardinality `q < 2^64`, and every admissible
    renaming of a binary field's variable: element round trip; univariate round trip in EVERY
    notation and additivity (at most `2^63` coefficients), in every ring and quotient ring;
    bivariate round trip in EVERY notation for every order and ideal; bivariate additivity for
    every order, without ideal unconditionally and in a quotient ring under `BAddSide`
    (admissible order, no overflow of weighted degrees, the model's division fuel).  Relative to
    the literal `C15_full` (which is false: `C15_full_literal_false`) exactly these bounds are
    added. -/
theorem C15_full_bounded :
    (∀ p, p < 2 ^ 64 → Define.prime p = .ok (.prime p) → FieldRoundTripB (primeSpec p)) ∧
    (∀ q n m v, q < 2 ^ 64 → Define.bin Gen.dbText q = .ok (.bin n m) → AdmissibleName v →
      FieldRoundTripB (binSpec n m v)) ∧
    (∀ q p n g, q < 2 ^ 64 → Define.ext Gen.dbText q = .ok (.ext p n g) →
      FieldRoundTripB (extSpec p n g)) :=
  ⟨fun _ hq hd => prime_fieldRoundTripB hq hd,
   fun _ _ _ _ hq hd hv => bin_fieldRoundTripB hq hd hv,
   fun _ _ _ _ hq hd => ext_fieldRoundTripB hq hd⟩

-- non-vacuity (as in `Props/C01.lean`: the lookup fact of the real database as hypothesis)
example (h : Conway.lookupIn Gen.dbText 2 3 = .ok [1, 1, 0, 1]) :
    ∃ g, UPoly.parse { F := binOps 3 11 "b", varName := "X", modulus := none }
        (UPoly.toStr (binOps 3 11 "b") "X" [5, 0, 3]) = .ok (some g) ∧
      UPoly.equal (binOps 3 11 "b") [5, 0, 3] g = true := by
  have hd : Define.bin Gen.dbText 8 = .ok (.bin 3 11) :=
    (C03.define_bin_iff Gen.dbText (by norm_num) _).2
      ⟨3, [1, 1, 0, 1], by norm_num, by norm_num, by norm_num, h, by decide⟩
  exact bin_upolyRoundTrip_define (by norm_num) hd ⟨'b', [], by decide, by decide, by decide⟩
    ⟨'X', [], by decide, by decide, by decide⟩ (by unfold Unconfusable; decide) none
    ⟨⟨by simp, fun _ => by decide⟩, fun c hc => by
        have : c < 2 ^ 3 := by simp at hc; omega
        exact this, rfl⟩ (by decide)

end Algobra.C15
