/-
  Props/CodeTies4.lean — fourth batch of equivalence theorems between the MACHINE-TRANSLATED Go code
  (`Algobra/Gen/Code.lean`, regenerated on every run from the Go working tree by
  /verif/extract/translate.go) and the hand-written model (Model/Field.lean, Model/Auxmath.lean).

  Subjects
  * the cores of `binfield.(*Element).Pow` and `primefield.(*Element).Pow`
    (/repo/finitefield/{binfield,primefield}/arithmetic.go), translated from `if a.IsZero()` to the end
    of the method body:  zero cases, reduction of the exponent modulo `Card() - 1` when `n ≥ Card()`,
    square-and-multiply loop.  Objects are represented by their value words; the observations
    `a.IsZero()`, `a.field.One()`, `a.field.Zero()`, `a.field.element(·)`, `a.field.Card()`, `a.Copy()`
    are parameters, and the method statements `out.Mult(b)`, `b.Mult(b)` on the local objects `out`, `b`
    are translated as `out := method_Mult out b` with an uninterpreted function parameter
    `method_Mult : Nat → Nat → Nat` (assumption of the translation: a method statement on a local
    object changes the value of that object only, as a function of the values involved).  The ties are
    stated with `method_Mult := Bin.mul n m` / `Prime.mul p` and, composed, with the translated `Prod`
    cores (`Mult(b)` is `a.Prod(a, b)` in the Go code).
  * the core (whole body) of `binfield.(*Element).Trace`, with `out.Pow(2)` / `out.Add(a)` as
    `method_Pow`, `method_Add`.
  * `auxmath.Factorize` (/repo/auxmath/factorize.go), a function that calls itself: translated with a
    recursion fuel as first argument (`default` = `([], [])` when used up); slices are `List Nat`,
    `append` is `++`, the `range` over `[]uint{k - 1, k + 1}` is unrolled.

  The only hypotheses are word bounds; the sufficiency of `loopFuel = 2^64` for every translated loop is
  proved from them.  Proofs are in Proofs/CodeTies4.lean and Proofs/CodeTies4Fact.lean (core Lean + the
  model, no Mathlib).
-/
import Algobra.Proofs.CodeTies4
import Algobra.Proofs.CodeTies4Fact
import Algobra.Props.CodeTies2

namespace Algobra
namespace CodeTies4
open Algobra Algobra.Gen.Code

/-! ### 1. `Pow`: generic forms (any observations, any multiplication) -/

/-- binfield `Pow` core = `genericPow` for ANY values of the observations and any `Mult`; needs only
    `1 ≤ Card() ≤ 2^64` (no wrap of `Card() - 1`) and a word exponent (loop fuel: the exponent is halved
    in every round) -/
theorem bin_pow_core_generic (one zer a : Nat) {card k : Nat} (mul : Nat → Nat → Nat)
    (isZero : Nat → Bool) (h1 : 1 ≤ card) (h2 : card ≤ 2 ^ 64) (hk : k < 2 ^ 64) :
    go_binfield_Element_Pow_core one zer card a mul (isZero a) k
      = genericPow card zer one isZero mul a k :=
  CodeTies4Proofs.bin_pow_gen one zer a mul isZero h1 h2 hk

/-- primefield `Pow` core = `genericPow`, `a.field.element` any function -/
theorem prime_pow_core_generic (el : Nat → Nat) (a : Nat) {card k : Nat} (mul : Nat → Nat → Nat)
    (isZero : Nat → Bool) (h1 : 1 ≤ card) (h2 : card ≤ 2 ^ 64) (hk : k < 2 ^ 64) :
    go_primefield_Element_Pow_core el card a mul (isZero a) k
      = genericPow card (el 0) (el 1) isZero mul a k :=
  CodeTies4Proofs.prime_pow_gen el a mul isZero h1 h2 hk

example : (1 : Nat) ≤ 8 ∧ (8 : Nat) ≤ 2 ^ 64 ∧ (10 : Nat) < 2 ^ 64 := by decide

/-! ### 2. `Pow`: the model functions -/

/-- THE TIE for binfield: in `GF(2^n)`, `n ≤ 63` (Go's `Define` refuses `extDeg > 32`), with the
    observations `One() = 1`, `Zero() = 0`, `Card() = Bin.card n`, `Copy() = a`, `IsZero() = (a == 0)`
    and `Mult = Bin.mul n m`, for every word exponent -/
theorem bin_pow_tie {n m a k : Nat} (hn : n ≤ 63) (hk : k < 2 ^ 64) :
    go_binfield_Element_Pow_core 1 0 (Bin.card n) a (Bin.mul n m) (a == 0) k = Bin.pow n m a k :=
  CodeTies4Proofs.bin_pow hn hk

/-- composed with the translated `Prod` core (`x.Mult(y)` = `x.Prod(x, y)`); needs a word `a` -/
theorem bin_pow_tie_composed {n m a k : Nat} (hn : n ≤ 63) (ha : a < 2 ^ 64) (hk : k < 2 ^ 64) :
    go_binfield_Element_Pow_core 1 0 (Bin.card n) a
        (fun x y => go_binfield_Element_Prod_core x x y n m) (a == 0) k = Bin.pow n m a k :=
  CodeTies4Proofs.bin_pow_composed hn ha hk

/-- the same as the `pow` field of `binOps` (Model/Ext.lean) -/
theorem bin_pow_tie_ops (v : String) {n m a k : Nat} (hn : n ≤ 63) (hk : k < 2 ^ 64) :
    go_binfield_Element_Pow_core 1 0 (Bin.card n) a (Bin.mul n m) (a == 0) k
      = (binOps n m v).pow a k :=
  CodeTies4Proofs.bin_pow hn hk

/-- THE TIE for primefield: characteristic `1 ≤ p ≤ 2^64`, observations `element = Prime.element p`,
    `Card() = p`, `Copy() = a`, `IsZero() = (a == 0)`, `Mult = Prime.mul p`, every word exponent -/
theorem prime_pow_tie {p a k : Nat} (hp1 : 1 ≤ p) (hp2 : p ≤ 2 ^ 64) (hk : k < 2 ^ 64) :
    go_primefield_Element_Pow_core (Prime.element p) p a (Prime.mul p) (a == 0) k
      = Prime.pow p a k :=
  CodeTies4Proofs.prime_pow hp1 hp2 hk

/-- composed with the translated `Prod` core without tables (any `lookup`) -/
theorem prime_pow_tie_composed {p a k : Nat} (lookup : Nat → Nat → Nat) (hp1 : 1 ≤ p)
    (hp2 : p ≤ 2 ^ 64) (hk : k < 2 ^ 64) :
    go_primefield_Element_Pow_core (Prime.element p) p a
        (fun x y => go_primefield_Element_Prod_core x x y lookup p false (decide (x = 0))
          (decide (y = 0))) (a == 0) k = Prime.pow p a k :=
  CodeTies4Proofs.prime_pow_composed lookup hp1 hp2 hk

/-- the same as the `pow` field of `primeOps` -/
theorem prime_pow_tie_ops {p a k : Nat} (hp1 : 1 ≤ p) (hp2 : p ≤ 2 ^ 64) (hk : k < 2 ^ 64) :
    go_primefield_Element_Pow_core (Prime.element p) p a (Prime.mul p) (a == 0) k
      = (primeOps p).pow a k :=
  CodeTies4Proofs.prime_pow hp1 hp2 hk

/-! non-vacuity and sanity: GF(8) with modulus 11, GF(7) -/
example : (3 : Nat) ≤ 63 ∧ (3 : Nat) < 2 ^ 64 ∧ (5 : Nat) < 2 ^ 64 := by decide
example : go_binfield_Element_Pow_core 1 0 (Bin.card 3) 3
    (fun x y => go_binfield_Element_Prod_core x x y 3 11) (3 == 0) 5 = 2 := by decide +kernel
example : Bin.pow 3 11 3 5 = 2 := by
  rw [← bin_pow_tie_composed (by decide) (by decide) (by decide)]; decide +kernel
/-- exponent above the cardinality: reduced modulo `card - 1 = 7` (`3^12 = 3^5`) -/
example : go_binfield_Element_Pow_core 1 0 (Bin.card 3) 3
    (fun x y => go_binfield_Element_Prod_core x x y 3 11) (3 == 0) 12 = 2 := by decide +kernel
/-- zero cases -/
example : go_binfield_Element_Pow_core 1 0 (Bin.card 3) 0 (Bin.mul 3 11) (0 == 0) 0 = 1 ∧
    go_binfield_Element_Pow_core 1 0 (Bin.card 3) 0 (Bin.mul 3 11) (0 == 0) 4 = 0 := by
  decide +kernel
example : (1 : Nat) ≤ 7 ∧ (7 : Nat) ≤ 2 ^ 64 ∧ (4 : Nat) < 2 ^ 64 := by decide
example : go_primefield_Element_Pow_core (Prime.element 7) 7 3
    (fun x y => go_primefield_Element_Prod_core x x y (fun _ _ => 99) 7 false (decide (x = 0))
      (decide (y = 0))) (3 == 0) 4 = 4 := by decide +kernel
example : Prime.pow 7 3 4 = 4 := by
  rw [← prime_pow_tie_composed (fun _ _ => 99) (by decide) (by decide) (by decide)]; decide +kernel
/-- `p ≥ 1` cannot be dropped: for `p = 0` the code reduces the exponent modulo the wrapped
    `0 - 1 = 2^64 - 1`, the model modulo the truncated `0 - 1 = 0` (no field has characteristic 0) -/
example : go_primefield_Element_Pow_core id 0 3 (fun x y => x * y % 7) false (2 ^ 64 - 1) = 1 ∧
    genericPow 0 0 1 (· == 0) (fun x y => x * y % 7) 3 (2 ^ 64 - 1) = 6 := by decide +kernel

/-! ### 3. binfield `Trace` -/

/-- generic form: the translated loop applies `out := Add (Pow out 2) a` exactly `extDeg - 1` times to
    `a.Copy()`, for every word `extDeg` (loop fuel: `i` counts from 1 up to `extDeg` without wrap) -/
theorem bin_trace_core_generic (c a : Nat) (add pw : Nat → Nat → Nat) {ext : Nat}
    (hext : ext < 2 ^ 64) :
    go_binfield_Element_Trace_core c pw a add ext
      = (List.range (ext - 1)).foldl (fun o _ => add (pw o 2) a) c :=
  CodeTies4Proofs.trace_gen c a add pw hext

/-- THE TIE: observations `Copy() = a`, `a.val = a`, `extDeg = n`, `Pow = Bin.pow n m`, `Add = xor` -/
theorem bin_trace_tie {n m a : Nat} (hn : n < 2 ^ 64) :
    go_binfield_Element_Trace_core a (Bin.pow n m) a (fun x y => x ^^^ y) n = Bin.trace n m a :=
  CodeTies4Proofs.bin_trace hn

/-- composed with the translated `Add` and `Pow`/`Prod` cores -/
theorem bin_trace_tie_composed {n m a : Nat} (hn : n ≤ 63) :
    go_binfield_Element_Trace_core a
        (fun x k => go_binfield_Element_Pow_core 1 0 (Bin.card n) x (Bin.mul n m) (x == 0) k) a
        go_binfield_Element_Add_core n = Bin.trace n m a := by
  have h1 : (fun x k => go_binfield_Element_Pow_core 1 0 (Bin.card n) x (Bin.mul n m) (x == 0) k)
      = fun x k => if k < 2 ^ 64 then Bin.pow n m x k
          else go_binfield_Element_Pow_core 1 0 (Bin.card n) x (Bin.mul n m) (x == 0) k := by
    funext x k
    by_cases hk : k < 2 ^ 64
    · rw [if_pos hk]; exact bin_pow_tie hn hk
    · rw [if_neg hk]
  have h2 : go_binfield_Element_Add_core = fun x y => x ^^^ y := by
    funext x y; exact CodeTies2.bin_add_tie x y
  have hn' : n < 2 ^ 64 := by omega
  rw [h1, h2, bin_trace_core_generic a a _ _ hn', ← bin_trace_tie hn',
    bin_trace_core_generic a a _ _ hn']
  rfl

example : (3 : Nat) < 2 ^ 64 := by decide
example : go_binfield_Element_Trace_core 3 (Bin.pow 3 11) 3 (fun x y => x ^^^ y) 3 = 1 := by
  decide +kernel

/-! ### 4. `auxmath.Factorize` -/

/-- THE TIE: for every word `n` and EVERY recursion fuel, the translated function returns the two
    projections of the model's list of `(prime, exponent)` pairs (both sides spend one unit of fuel per
    recursive call and are empty when it is used up).  All translated loops run on `loopFuel`; its
    sufficiency is proved inside (division loops: at most 64 rounds; `p = 2, 3`: two rounds; the
    `k = 6, 12, …` scan: `k - 1 ≤ BoundSqrt(n) ≤ 2^32`, so `k + 1`, `k + 6` never wrap). -/
theorem factorize_tie (fuel : Nat) {n : Nat} (hn : n < 2 ^ 64) :
    go_auxmath_Factorize fuel n
      = ((Auxmath.factorize fuel n).map Prod.fst, (Auxmath.factorize fuel n).map Prod.snd) :=
  CodeTies4Proofs.factorize fuel hn

/-- the model does not depend on its fuel from 64 on (each level at least halves `n`) -/
theorem factorize_model_fuel {fuel n : Nat} (hf : 64 ≤ fuel) (hn : n < 2 ^ 64) :
    Auxmath.factorize fuel n = Auxmath.factorize 64 n :=
  CodeTies4Proofs.Fuel.factorize_fuel_64 hf hn

/-- … hence neither does the translated function: recursion fuel 64 is sufficient for every word -/
theorem factorize_go_fuel {fuel n : Nat} (hf : 64 ≤ fuel) (hn : n < 2 ^ 64) :
    go_auxmath_Factorize fuel n = go_auxmath_Factorize 64 n := by
  rw [factorize_tie fuel hn, factorize_tie 64 hn, factorize_model_fuel hf hn]

/-- what a translated caller gets (calls of a recursive function pass `loopFuel`), against the fuel 64
    used by the model's callers (`Prime.multGenerator`, …) -/
theorem factorize_tie_loopFuel {n : Nat} (hn : n < 2 ^ 64) :
    go_auxmath_Factorize loopFuel n
      = ((Auxmath.factorize 64 n).map Prod.fst, (Auxmath.factorize 64 n).map Prod.snd) := by
  rw [factorize_tie loopFuel hn, factorize_model_fuel (by decide) hn]

/-- the list of prime factors used by `primefield.(*Field).MultGenerator` -/
theorem factorize_tie_factors {n : Nat} (hn : n < 2 ^ 64) :
    (go_auxmath_Factorize loopFuel n).1 = (Auxmath.factorize 64 n).map (·.1) := by
  rw [factorize_tie_loopFuel hn]

example : (360 : Nat) < 2 ^ 64 := by decide
/-- (the right-hand sides are evaluated in the model; evaluating the translated function itself in the
    kernel is possible but takes minutes because of the nested `loopFuel` recursions) -/
example : go_auxmath_Factorize 64 360 = ([2, 3, 5], [3, 2, 1]) := by
  rw [factorize_tie 64 (by decide)]; decide +kernel
example : go_auxmath_Factorize loopFuel (7 * 7 * 11 * 13) = ([7, 11, 13], [2, 1, 1]) := by
  rw [factorize_tie_loopFuel (by decide)]; decide +kernel
example : go_auxmath_Factorize loopFuel 0 = ([0], [1]) ∧ go_auxmath_Factorize loopFuel 1 = ([], []) := by
  rw [factorize_tie_loopFuel (by decide), factorize_tie_loopFuel (by decide)]; decide +kernel
/-- with too little fuel both sides stop early in the same way -/
example : go_auxmath_Factorize 2 (7 * 7 * 11 * 13) = ([7, 11], [2, 1]) := by
  rw [factorize_tie 2 (by decide)]; decide +kernel

end CodeTies4
end Algobra
