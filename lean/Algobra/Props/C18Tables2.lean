/-
  Props/C18Tables2.lean — C18, polynomial layer: precomputed tables never change an observable
  result of a history that uses ELEMENT-LEVEL and UNIVARIATE operations.

  Method ("parametricity", Proofs/Tables2.lean): every model function `UPoly.f F args` uses the
  record `F` only through its operations.  For records with `Tables.OpsAgree F F' V` (equal
  observers/constructors, arithmetic agreeing on `V`) and `Tables.Closed F V`, and arguments all of
  whose coefficients satisfy `V` (`Tables.AllV V f`):
     (congruence)  `UPoly.f F' args = UPoly.f F args`
     (closure)     all coefficients of `UPoly.f F args` satisfy `V`.
  This is then lifted through `step` / `runOps` of Model/Hist.lean with the store invariant
  `Tables.StoreOKU` (= the element and the univariate component of `StoreOKAll`).

  Axioms: propext, Classical.choice, Quot.sound only.
-/
import Algobra.Proofs.Tables2
import Algobra.Props.C18Tables

namespace Algobra.C18Tables
open Algobra Tables

/-! ## (d) value level: the univariate model functions -/

section Value
variable {α : Type} {F F' : FOps α} {V : α → Prop} (hA : OpsAgree F F' V) (hC : Closed F V)
include hA hC

/-- C18-T18. `Plus/Add`, `Minus/Sub`, `multNoReduce`, `Neg`, `Scale`, `Normalize`, `Lt`, `Eval`
    and the coefficient setters compute the same polynomial (element) over `F'` as over `F`, and
    its coefficients stay in `V`. -/
theorem upoly_arith_transparent {f g : UPoly α} (hf : AllV V f) (hg : AllV V g) {c : α} (hc : V c)
    (d : Nat) :
    (UPoly.add F' f g = UPoly.add F f g ∧ AllV V (UPoly.add F f g)) ∧
    (UPoly.sub F' f g = UPoly.sub F f g ∧ AllV V (UPoly.sub F f g)) ∧
    (UPoly.mulNoReduce F' f g = UPoly.mulNoReduce F f g ∧ AllV V (UPoly.mulNoReduce F f g)) ∧
    (UPoly.neg F' f = UPoly.neg F f ∧ AllV V (UPoly.neg F f)) ∧
    (UPoly.scale F' f c = UPoly.scale F f c ∧ AllV V (UPoly.scale F f c)) ∧
    (UPoly.normalize F' f = UPoly.normalize F f ∧ AllV V (UPoly.normalize F f)) ∧
    (UPoly.lt F' f = UPoly.lt F f ∧ AllV V (UPoly.lt F f)) ∧
    (UPoly.eval F' f c = UPoly.eval F f c ∧ V (UPoly.eval F f c)) ∧
    (UPoly.setCoef F' f d c = UPoly.setCoef F f d c ∧ AllV V (UPoly.setCoef F f d c)) ∧
    (UPoly.incCoef F' f d c = UPoly.incCoef F f d c ∧ AllV V (UPoly.incCoef F f d c)) ∧
    (UPoly.decCoef F' f d c = UPoly.decCoef F f d c ∧ AllV V (UPoly.decCoef F f d c)) :=
  ⟨add_par hA hC hf hg, sub_par hA hC hf hg, mulNoReduce_par hA hC hf hg, neg_par hA hC hf,
    scale_par hA hC hf hc, normalize_par hA hC hf, lt_par hA hC hf, eval_par hA hC hf hc,
    setCoef_par hA hC hf d hc, incCoef_par hA hC hf d hc, decCoef_par hA hC hf d hc⟩

/-- C18-T19. `QuoRem` (any fuel), `Gcd`, `NewIdeal` and `Interpolate`: same result (same error,
    same fuel exhaustion, same quotients/remainder), results valid.  `Interpolate` starts its
    products from `ElementFromUnsigned(1)`, whose validity is a hypothesis. -/
theorem upoly_division_transparent (fuel : Nat) {f : UPoly α} {gs : List (UPoly α)} (hf : AllV V f)
    (hgs : AllVV V gs) (h1 : V (F.ofNat 1)) {pts vals : List α} (hp : AllV V pts)
    (hv : AllV V vals) :
    (UPoly.quoRem F' fuel f gs = UPoly.quoRem F fuel f gs ∧ QRV V (UPoly.quoRem F fuel f gs)) ∧
    (UPoly.gcd F' f gs = UPoly.gcd F f gs ∧ OptV V (UPoly.gcd F f gs)) ∧
    (UPoly.newIdeal F' gs = UPoly.newIdeal F gs ∧ OptV V (UPoly.newIdeal F gs)) ∧
    (UPoly.interpolate F' pts vals = UPoly.interpolate F pts vals ∧
      ∀ v, UPoly.interpolate F pts vals = .ok v → AllV V v) :=
  ⟨quoRem_par hA hC fuel hf hgs, gcd_par hA hC hf hgs, newIdeal_par hA hC hgs,
    interpolate_par hA hC h1 hp hv⟩

/-- C18-T20. Ring level (`reduce` modulo the ring's modulus, `Polynomial(coefs)`,
    `PolynomialFromUnsigned/Signed`, `Times`, `Pow`): the ring `R` over `F` with a valid modulus
    against the same ring over `F'` (`withF R F'`). -/
theorem upoly_ring_transparent {R : UPoly.Ring α} (hR : RingOK F V R) {f g : UPoly α}
    (hf : AllV V f) (hg : AllV V g) (hn : ∀ k, V (F.ofNat k)) (hz : ∀ z, V (F.ofInt z))
    (ns : List Nat) (zs : List Int) (n : Nat) :
    (UPoly.reduceIn (withF R F') f = UPoly.reduceIn R f ∧ OptV V (UPoly.reduceIn R f)) ∧
    (UPoly.ofCoefs (withF R F') f = UPoly.ofCoefs R f ∧ OptV V (UPoly.ofCoefs R f)) ∧
    (UPoly.ofNats (withF R F') ns = UPoly.ofNats R ns ∧ OptV V (UPoly.ofNats R ns)) ∧
    (UPoly.ofInts (withF R F') zs = UPoly.ofInts R zs ∧ OptV V (UPoly.ofInts R zs)) ∧
    (UPoly.times (withF R F') f g = UPoly.times R f g ∧ OptV V (UPoly.times R f g)) ∧
    (UPoly.pow (withF R F') f n = UPoly.pow R f n ∧ OptV V (UPoly.pow R f n)) :=
  ⟨reduceIn_par hA hC hR hf, ofCoefs_par hA hC hR hf, ofNats_par hA hC hR hn ns,
    ofInts_par hA hC hR hz zs, times_par hA hC hR hf hg, upow_par hA hC hR hf n⟩

omit hC in
/-- C18-T21. The observers (`Equal`, `Degrees`, `NTerms`, `IsZero`, `IsOne`, `IsMonomial`, `Lc`,
    `Coef`, `String`) do not look at the arithmetic at all: no validity needed. -/
theorem upoly_observers_transparent (f g : UPoly α) (d : Nat) (v : String) :
    UPoly.equal F' f g = UPoly.equal F f g ∧ UPoly.degrees F' f = UPoly.degrees F f ∧
    UPoly.nTerms F' f = UPoly.nTerms F f ∧ UPoly.isZero F' f = UPoly.isZero F f ∧
    UPoly.isOne F' f = UPoly.isOne F f ∧ UPoly.isMonomial F' f = UPoly.isMonomial F f ∧
    UPoly.lc F' f = UPoly.lc F f ∧ UPoly.coef F' f d = UPoly.coef F f d ∧
    UPoly.toStr F' v f = UPoly.toStr F v f :=
  ⟨equal_congr hA f g, degrees_congr hA f, nTerms_congr hA f, isZero_congr hA f, isOne_congr hA f,
    isMonomial_congr hA f, lc_congr hA f, coef_congr hA f d, toStr_congr hA v f⟩

end Value

/-! ## (e) histories with univariate operations -/

/-- C18-T22 (`history_transparent_univariate`).  Run any history of ELEMENT-LEVEL and UNIVARIATE
    operations (`Tables.elemOrUOp`: every `Op` constructor `e…`, `u…` and `tables` of Model/Hist.lean
    — element constructors `zero one gen foreign u s str`, `SetUnsigned`; polynomial constructors
    `nats ints zero one regs ideal`; `Plus Minus Times Neg Normalize Copy Lt Scale Pow Eval Coef Lc
    Add Sub Mult SetNeg SetScale SetCoef IncrementCoef DecrementCoef SetZero EmbedIn QuoRem Gcd
    Interpolate Equal`, the observers — EXCEPT the raw decoders `eCtor … "enc"`, `uCtor … "coefs"`,
    and `uCtor … "str"`) in two environments related by `Tables.EnvAgreeU`, from a store whose
    element registers and polynomial coefficients are valid (`Tables.StoreOKU`): the final stores
    are EQUAL, all replies are EQUAL, and the final store is again valid.
    `EnvAgreeU env env' V` = `EnvAgree` + (`ofNat ofInt parse` of `env` produce valid
    representations) + (univariate rings over field 0 with valid moduli; `env'` has the same rings
    over ITS field 0) + (`down`: valid in some field object ⇒ valid in field 0). -/
theorem history_transparent_univariate {α : Type} {env env' : Env α} {V : Nat → α → Prop}
    (h : EnvAgreeU env env' V) (desc : FieldDesc) (ops : List Op)
    (hops : ∀ op ∈ ops, elemOrUOp op = true) {s : St α} (hs : StoreOKU V s) :
    runOps env' desc s ops = runOps env desc s ops ∧ StoreOKU V (runOps env desc s ops).1 :=
  runOps_elemOrU_agree h desc ops hops hs

/-- one step, with the invariant -/
theorem step_transparent_univariate {α : Type} {env env' : Env α} {V : Nat → α → Prop}
    (h : EnvAgreeU env env' V) (desc : FieldDesc) {s : St α} (hs : StoreOKU V s) (op : Op)
    (hop : elemOrUOp op = true) :
    step env' desc s op = step env desc s op ∧ StoreOKU V (step env desc s op).1 :=
  step_elemOrU_agree h desc hs op hop

/-- `StoreOKU` is the element + univariate part of `StoreOKAll` -/
theorem storeOKU_of_all {α : Type} {V : Nat → α → Prop} {s : St α} (hs : StoreOKAll V s) :
    StoreOKU V s := ⟨hs.1, hs.2.1⟩

/-- `elemOrUOp` implies `noRaw` (the operations covered are among those of the full statement) -/
theorem noRaw_of_elemOrUOp (op : Op) (h : elemOrUOp op = true) : noRaw op = true := by
  cases op <;> first | rfl | skip
  case eCtor dst f how arg =>
    simp only [elemOrUOp, elemOpAll, uOp, Bool.or_false, Bool.or_eq_true, beq_iff_eq] at h
    simp only [noRaw, bne_iff_ne, ne_eq]
    rintro rfl
    revert h; decide
  case uCtor dst f how arg =>
    simp only [elemOrUOp, elemOpAll, uOp, Bool.false_or, Bool.or_eq_true, beq_iff_eq] at h
    simp only [noRaw, bne_iff_ne, ne_eq]
    rintro rfl
    revert h; decide
  case bCtor dst f how arg => simp [elemOrUOp, elemOpAll, uOp] at h

/-- the tabled and the untabled environment of a prime field satisfy `EnvAgreeU`: all field
    objects are GF(p) (`henv`), the univariate rings are over GF(p) with reduced moduli (`hring`);
    the tabled environment replaces every field object by a tabled one and the coefficient field
    of every ring by the tabled field object 0. -/
theorem envAgreeU_prime {p : Nat} (hp : p.Prime) (h32 : p - 1 < 2 ^ 32) (tabs : Nat → Bool × Bool)
    (env : Env Nat) (henv : ∀ i, env.fld i = primeOps p)
    (hring : ∀ i, (env.uring i).F = primeOps p ∧
      ∀ m, (env.uring i).modulus = some m → ∀ c ∈ m, c < p) :
    EnvAgreeU env
      { env with fld := fun i => primeOpsT p (tabs i).1 (tabs i).2,
                 uring := fun i => { env.uring i with F := primeOpsT p (tabs 0).1 (tabs 0).2 } }
      (fun _ a => a < p) where
  base := ⟨(envAgree_prime hp h32 tabs env henv).agree, (envAgree_prime hp h32 tabs env henv).closed⟩
  down := fun _ _ h => h
  ofNat := fun i k => by rw [henv i]; exact (C01Prime.element_spec hp k).1
  ofInt := fun i z => by rw [henv i]; exact (C01Prime.fromSigned_spec hp h32 z).1
  parse := fun i str v hv => by rw [henv i] at hv; exact prime_parse_lt hp.pos h32 hv
  ringOK := fun i => ⟨by rw [(hring i).1, henv 0], (hring i).2⟩
  ring' := fun _ => rfl

/-- C18-T23 (`history_transparent_univariate_prime`).  A history over GF(p) with element-level and
    univariate operations (base rings and quotient rings with reduced moduli): computing everything
    with the TABLED algorithms gives the same stores and replies as the untabled model.  The
    validity of `ofNat/ofInt/parse` is discharged by C01Prime (`element_spec`, `fromSigned_spec`)
    and `Tables.prime_parse_lt`. -/
theorem history_transparent_univariate_prime {p : Nat} (hp : p.Prime) (h32 : p - 1 < 2 ^ 32)
    (tabs : Nat → Bool × Bool) (env : Env Nat) (henv : ∀ i, env.fld i = primeOps p)
    (hring : ∀ i, (env.uring i).F = primeOps p ∧
      ∀ m, (env.uring i).modulus = some m → ∀ c ∈ m, c < p)
    (ops : List Op) (hops : ∀ op ∈ ops, elemOrUOp op = true) {s : St Nat}
    (hs : StoreOKU (fun _ a => a < p) s) :
    runOps { env with fld := fun i => primeOpsT p (tabs i).1 (tabs i).2,
                      uring := fun i => { env.uring i with F := primeOpsT p (tabs 0).1 (tabs 0).2 } }
        (.prime p) s ops
      = runOps env (.prime p) s ops :=
  (history_transparent_univariate (envAgreeU_prime hp h32 tabs env henv hring) _ ops hops hs).1

/-- extension fields (`extOps p n g` against `extOpsT`): `EnvAgree` is T13/`envAgree_ext`; the
    validity of `ofNat ofInt parse` is NOT part of `Assemble.FieldFacts` and is taken here as the
    explicit hypothesis `hctor` (for the `Define`d fields it follows from `ExtField`'s constructor
    lemmas, not packaged).  With it, T22 applies to extension fields with a logarithm table. -/
theorem envAgreeU_ext {p n : Nat} {g : List Nat} {K : Type} [Field K] (L : Lawful (extOps p n g) K)
    (hL : Assemble.FieldFacts L p n) (hcanon : ∀ a, L.valid a → UPoly.Canon (primeOps p) a)
    (hq : p ^ n ≤ 2 ^ 63) (tabs : Nat → Bool) (env : Env (UPoly Nat))
    (henv : ∀ i, env.fld i = extOps p n g)
    (hctor : ∀ k z str v, L.valid ((extOps p n g).ofNat k) ∧ L.valid ((extOps p n g).ofInt z) ∧
      ((extOps p n g).parse str = .ok v → L.valid v))
    (hring : ∀ i, (env.uring i).F = extOps p n g ∧
      ∀ m, (env.uring i).modulus = some m → ∀ c ∈ m, L.valid c) :
    EnvAgreeU env
      { env with fld := fun i => extOpsT p n g (tabs i),
                 uring := fun i => { env.uring i with F := extOpsT p n g (tabs 0) } }
      (fun _ => L.valid) where
  base := ⟨(envAgree_ext L hL hcanon hq tabs env henv).agree,
    (envAgree_ext L hL hcanon hq tabs env henv).closed⟩
  down := fun _ _ h => h
  ofNat := fun i k => by rw [henv i]; exact (hctor k 0 "" []).1
  ofInt := fun i z => by rw [henv i]; exact (hctor 0 z "" []).2.1
  parse := fun i str v hv => by rw [henv i] at hv; exact (hctor 0 0 str v).2.2 hv
  ringOK := fun i => ⟨by rw [(hring i).1, henv 0], (hring i).2⟩
  ring' := fun _ => rfl

/-! ### non-vacuity: GF(7), base ring `F_7[X]` and quotient ring `F_7[X]/(X² + 1)` -/

/-- untabled environment: all field objects GF(7); ring 1 is the quotient ring modulo `X² + 1` -/
def env7 : Env Nat :=
  { env5 with fld := fun _ => primeOps 7,
              uring := fun i => { F := primeOps 7, varName := "X",
                                  modulus := if i = 1 then some [1, 0, 1] else none } }

/-- tabled environment: every field object has both tables -/
def env7T : Env Nat :=
  { env7 with fld := fun _ => primeOpsT 7 true true,
              uring := fun i => { env7.uring i with F := primeOpsT 7 true true } }

/-- a history with univariate operations (constructors without string decoding, so that the
    kernel can evaluate it): builds `3X² + 4X + 1` and `X³ + 1` with the coefficient setters,
    requests tables, then `Times Minus Pow QuoRem Gcd Eval Scale Normalize DecrementCoef
    EmbedIn(reduce) Interpolate Mult Equal` and the observers -/
def ops7 : List Op := [.eCtor 0 0 "gen" "", .eCtor 1 0 "one" "", .eBin 2 "plus" 0 1,
  .uCtor 0 0 "zero" "", .uSetCoef "set" 0 2 0, .uSetCoef "inc" 0 1 2, .uSetCoef "set" 0 0 1,
  .uCtor 1 0 "one" "", .uSetCoef "set" 1 3 1,
  .tables 0 true true none, .uBin 2 "times" 0 1, .uBin 3 "minus" 2 0, .uPow 4 0 5,
  .uQuoRem [5, 6] 4 [1], .uGcd 7 [2, 1], .uEval 3 4 0, .uScale 8 3 2, .uUn 9 "normalize" 8,
  .uSetCoef "dec" 9 4 0, .uEmbed 9 1 true, .uInterp 10 0 [0, 1] [1, 2], .uIn "mult" 10 0,
  .uEq 9 4, .uObs 9, .uObs 10]

/-- the hypotheses of T23 hold for `env7`, `ops7` and the empty store -/
example : (∀ i, env7.fld i = primeOps 7) ∧
    (∀ i, (env7.uring i).F = primeOps 7 ∧ ∀ m, (env7.uring i).modulus = some m → ∀ c ∈ m, c < 7) ∧
    (∀ op ∈ ops7, elemOrUOp op = true) ∧ StoreOKU (fun _ a => a < 7) ({} : St Nat) := by
  refine ⟨fun _ => rfl, fun i => ⟨rfl, fun m hm => ?_⟩, by decide, fun k r hk => (by cases hk),
    fun k r hk => (by cases hk)⟩
  simp only [env7] at hm
  split at hm
  · cases hm; decide
  · cases hm

/-- T23 applied (`env7T` is, by definition, the tabled environment of T23) -/
example : runOps env7T (.prime 7) {} ops7 = runOps env7 (.prime 7) {} ops7 :=
  history_transparent_univariate_prime (by norm_num) (by norm_num) (fun _ => (true, true)) env7
    (fun _ => rfl) (fun i => ⟨rfl, fun m hm => by
      simp only [env7] at hm
      split at hm
      · cases hm; decide
      · cases hm⟩) ops7 (by decide) ⟨fun k r hk => (by cases hk), fun k r hk => (by cases hk)⟩

/-- … and evaluated: both environments, explicit replies -/
example : (runOps env7T (.prime 7) {} ops7).2 = (runOps env7 (.prime 7) {} ops7).2 ∧
    (runOps env7 (.prime 7) {} ops7).2 =
  ["ok 0#3", "ok 0#1", "ok 0#4", "ok 0#0", "recv 0#0/0/3", "recv 0#0/4/3", "recv 0#1/4/3", "ok 0#1",
   "recv 0#1/0/0/1", "ok", "ok 0#1/4/3/1/4/3", "ok 0#0/0/0/1/4/3", "ok 0#1/6/0/5/3/1/2/3/0/3/5",
   "ok 6/5/1/6/5/0/3/5 2/1/6", "ok 0#1/0/0/1", "ok 0#3", "ok 0#0/0/0/4/2/5", "ok 0#0/0/0/5/6/1",
   "recv 0#0/0/0/5/3/1", "ok 1#3/3", "ok 0#2/2", "recv 0#2/3/0/6", "eq false",
   "obs ld=1 lc=3 degs=1,0 n=2 z=false o=false m=false s=3X + 3",
   "obs ld=3 lc=6 degs=3,1,0 n=3 z=false o=false m=false s=6X^3 + 3X + 2"] := by
  decide +kernel

/-- value level: `(3X² + 4X + 1)·(X³ + 1)`, its remainder modulo `X² + 1` and a gcd, both records -/
example :
    UPoly.mulNoReduce (primeOpsT 7 true true) [1, 4, 3] [1, 0, 0, 1] = [1, 4, 3, 1, 4, 3] ∧
    UPoly.mulNoReduce (primeOps 7) [1, 4, 3] [1, 0, 0, 1] = [1, 4, 3, 1, 4, 3] ∧
    UPoly.reduce (primeOpsT 7 true true) [1, 0, 1] [1, 4, 3, 1, 4, 3] = some [2, 6] ∧
    UPoly.reduce (primeOps 7) [1, 0, 1] [1, 4, 3, 1, 4, 3] = some [2, 6] ∧
    UPoly.gcd (primeOpsT 7 true true) [1, 4, 3, 1, 4, 3] [[1, 0, 0, 1]] = some [1, 0, 0, 1] ∧
    UPoly.gcd (primeOps 7) [1, 4, 3, 1, 4, 3] [[1, 0, 0, 1]] = some [1, 0, 0, 1] := by
  decide +kernel

/-- validity of the coefficients matters: an unreduced coefficient `9` (never produced by the
    constructors covered) is outside the addition table -/
example : UPoly.add (primeOpsT 7 true true) [9] [1] ≠ UPoly.add (primeOps 7) [9] [1] := by
  decide +kernel

/-! ## (f) the full statement: what remains

  `history_transparent_full` (Props/C18Tables.lean) stays unproved — and is refuted as stated (T24).
  COVERED by T22/T23: every `Op` constructor `eCtor` (all `how` except "enc"), `eBin eUn ePow eIn
  eProd eSetNeg eSetU eEq eShow`, `uCtor` (`nats ints zero one regs ideal`), `uBin uUn uScale uPow
  uEval uCoef uLc uIn uSetNeg uSetScale uSetCoef uSetZero uEmbed uQuoRem uGcd uInterp uEq uObs`,
  `tables`.
  NOT COVERED: `uCtor … "str"` (`PolynomialFromString`: the post-processing `stringToMapRx.go` uses
  `parse one neg add` of the record — the same congruence/closure argument applies with the `parse`
  hypothesis of `EnvAgreeU`, not carried out); every bivariate constructor `bCtor bBin bUn bScale
  bPow bEval bCoef bLc bIn bSetScale bSetCoef bQuoRem bRem bInterp bEq bObs`; every ideal constructor
  `iNew iCopy iGroebner iPred iXform iGens iObs`; `bad` (trivial).  For the bivariate layer the same
  method applies to `BPoly.*` (terms `(Deg × α)`, invariant "every coefficient valid"); the Gröbner
  machinery additionally needs the invariant through `sPoly`/`reduceBasis` loops. -/

/-- two DIFFERENT prime fields as field objects 0 and 1 (rings over field 0) -/
def envMix : Env Nat where
  fld := fun i => if i = 1 then primeOps 11 else primeOps 7
  uring := fun _ => { F := primeOps 7, varName := "X", modulus := none }
  bring := fun _ => { F := primeOps 7, ord := ⟨.lex, true⟩, varNames := ("X", "Y"), ideal := none }
/-- … all tabled -/
def envMixT : Env Nat where
  fld := fun i => if i = 1 then primeOpsT 11 true true else primeOpsT 7 true true
  uring := fun _ => { F := primeOpsT 7 true true, varName := "X", modulus := none }
  bring := fun _ => { F := primeOpsT 7 true true, ord := ⟨.lex, true⟩, varNames := ("X", "Y"), ideal := none }
def opsMix : List Op := [.eCtor 0 1 "one" "", .eUn 1 "neg" 0, .uCtor 0 0 "zero" "", .uSetCoef "set" 0 0 1, .uBin 1 "plus" 0 0]
def VMix (i : Nat) (a : Nat) : Prop := if i = 1 then a < 11 else a < 7

example : (runOps envMix (.prime 7) {} opsMix).2 = ["ok 1#1", "ok 1#10", "ok 0#0", "recv 0#10", "ok 0#6"] ∧
    (runOps envMixT (.prime 7) {} opsMix).2 = ["ok 1#1", "ok 1#10", "ok 0#0", "recv 0#10", "ok 0#0"] := by
  decide +kernel

/-- C18-T24 (FINDING about the statement, not about the code).  `history_transparent_full` of
    Props/C18Tables.lean, AS STATED, is false: it lets the validity sets `V i` differ between field
    objects, but `SetCoef` / `IncrementCoef` on an absent term / `Polynomial([]ff.Element)` /
    `Interpolate` copy the value of an element of ANY field object into a polynomial over field 0.
    Counterexample: field object 0 = GF(7), field object 1 = GF(11) (both tabled in `envMixT`), the
    element `-1 = 10` of GF(11) set as constant coefficient, then `f + f`: the untabled sum is
    `20 mod 7 = 6`, the tabled one reads outside the 7×7 table (model default 0; Go panics).  The
    corrected statement `history_transparent_full2` below adds `EnvAgreeU.down`
    (valid in some field object ⇒ valid in field 0), which holds whenever all field objects of a
    history are the same field — the situation of T17/T23. -/
theorem history_transparent_full_false : ¬ history_transparent_full := by
  intro H
  have p7 : Nat.Prime 7 := by norm_num
  have p11 : Nat.Prime 11 := by norm_num
  have key := @H Nat envMix envMixT VMix (.prime 7) opsMix {}
    ⟨fun i => by
        by_cases hi : i = 1
        · subst hi; exact (primeOpsT_agree p11 (by norm_num) true true).1
        · have hV : VMix i = fun a => a < 7 := by funext a; simp only [VMix, hi, if_false]
          have e1 : envMix.fld i = primeOps 7 := by simp only [envMix, hi, if_false]
          have e2 : envMixT.fld i = primeOpsT 7 true true := by simp only [envMixT, hi, if_false]
          rw [hV, e1, e2]
          exact (primeOpsT_agree p7 (by norm_num) true true).1,
     fun i => by
        by_cases hi : i = 1
        · subst hi; exact (primeOpsT_agree p11 (by norm_num) true true).2
        · have hV : VMix i = fun a => a < 7 := by funext a; simp only [VMix, hi, if_false]
          have e1 : envMix.fld i = primeOps 7 := by simp only [envMix, hi, if_false]
          rw [hV, e1]
          exact (primeOpsT_agree p7 (by norm_num) true true).2⟩
    (fun i k z str v => by
      by_cases hi : i = 1
      · subst hi
        exact ⟨Prime.element_lt p11.pos, Prime.fromSigned_lt p11.pos (by norm_num) z,
          fun hv => prime_parse_lt p11.pos (by norm_num) hv⟩
      · simp only [envMix, VMix, hi, if_false]
        exact ⟨Prime.element_lt p7.pos, Prime.fromSigned_lt p7.pos (by norm_num) z,
          fun hv => prime_parse_lt p7.pos (by norm_num) hv⟩)
    (fun i => ⟨rfl, rfl, fun m hm => by cases hm⟩)
    (fun i => ⟨rfl, rfl, fun m hm => by cases hm⟩)
    ⟨fun k r hk => (by cases hk), fun k r hk => (by cases hk), fun k r hk => (by cases hk),
      fun k r hk => (by cases hk)⟩
    (by decide)
  have := congrArg Prod.snd key
  revert this
  decide +kernel

/-- NOT PROVED.  The corrected full statement: `EnvAgreeU` (which contains `down` and the validity
    of `ofNat/ofInt/parse`, and the ring condition for the univariate rings), the ring condition for
    the bivariate rings, a store valid everywhere, no raw-data constructors. -/
def history_transparent_full2 : Prop :=
  ∀ {α : Type} (env env' : Env α) (V : Nat → α → Prop) (desc : FieldDesc) (ops : List Op) (s : St α),
    EnvAgreeU env env' V →
    (∀ i, (env.bring i).F = env.fld 0 ∧ env'.bring i = { env.bring i with F := env'.fld 0 } ∧
      ∀ gs, (env.bring i).ideal = some gs → ∀ f ∈ gs, ∀ t ∈ f, V 0 t.2) →
    StoreOKAll V s → (∀ op ∈ ops, noRaw op = true) →
    runOps env' desc s ops = runOps env desc s ops

/-- what T22 gives towards `history_transparent_full2`: the same conclusion for histories within
    `elemOrUOp` (the bivariate hypotheses are not needed) -/
theorem history_transparent_full2_univariate {α : Type} (env env' : Env α) (V : Nat → α → Prop)
    (desc : FieldDesc) (ops : List Op) (s : St α) (h : EnvAgreeU env env' V) (hs : StoreOKAll V s)
    (hops : ∀ op ∈ ops, elemOrUOp op = true) :
    runOps env' desc s ops = runOps env desc s ops :=
  (history_transparent_univariate h desc ops hops (storeOKU_of_all hs)).1

end Algobra.C18Tables
