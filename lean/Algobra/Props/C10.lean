/-
  Props/C10.lean — property C10: bivariate division returns a standard representation.

  "For every polynomial f, every list of nonzero divisors g_1..g_k and every provided monomial order,
   QuoRem returns quotients q_i and a remainder r with f = q_1 g_1 + ... + q_k g_k + r, such that no
   term of r is divisible by the leading term of any g_i and the leading monomial of every product
   q_i g_i does not exceed that of f. Rem returns the same remainder."

  Model functions: `BPoly.quoRem`, `BPoly.quoRemLoop`, `BPoly.rem` (with `firstDiv`, `lcQuot`,
  `subShiftScale`, `incCoef`, `erase`, `ld`, `lc`, `subDegs`, `mulNoReduce`) of Model/BPoly.lean
  (Go: /repo/bivariate/arithmetic.go `quoRemWithIgnore`, `QuoRem`, `Rem`).  A run that exhausts the
  model's fuel returns `none`, which is not a result; all statements are about completed runs
  (`some (qs, r)`), and `quoRem_terminates` shows that enough fuel always exists.

  Specification: `toMv L f : AddMonoidAlgebra K (ℕ × ℕ)` (= K[X,Y]) is the polynomial denoted by the
  association list `f`, `WF L f` the representation invariant (distinct exponents, canonical nonzero
  coefficients), `L : Lawful F K` says that the coefficient record `F` implements the field `K`
  (Proofs/BPolyRefine.lean, Proofs/Lawful.lean).  `o.cmp a b ≤ 0` is "a ≤ b in the monomial order".

  Hypotheses.
  * `Admissible o`  — the constructor arguments for which `o` is a monomial order (C09).
  * `NoOverflow o d` for the exponents of `f` — exponents and weighted degrees are Go `uint`s (C09).
  * WORD SIZE.  `subWithShiftAndScale` adds exponents in `uint` arithmetic (`w64` in the model) and
    the Go code has no overflow check there.  The guard is the run predicate
        `RunOK F o ignore gs fuel f`
    (Proofs/BPolyDiv.lean), which mirrors the loop and says that at every division step (divisor `g`,
    shift `dd = Ld(p) - Ld(g)`) every shifted exponent `d + dd`, `d ∈ g`, and its weighted degree stay
    `< 2^64`.  It is decidable (`decide` evaluates it).  It is NOT assumed away:
      - for the graded orders with positive weights (`Graded o`: WDegLex/WDegRevLex with both weights
        ≥ 1, in particular DegLex and DegRevLex) it is PROVED from `NoOverflow` of the inputs alone
        (`RunOK_of_graded`: the weighted degree never grows), giving the unconditional
        `quoRem_spec_graded`;
      - for Lex (and WDegLex with a zero weight) the degree in the smaller variable can grow during
        the division, no static bound on the inputs excludes wrap-around, and `RunOK` remains a
        hypothesis.  `wraparound_breaks_identity` below shows that it cannot be dropped: dividing
        XY by X - Y^(2^64-1) under Lex returns (q, r) = (Y, 1), which is wrong.
-/
import Algobra.Proofs.BPolyDiv
import Mathlib.Tactic.NormNum.Prime
import Algobra.Proofs.PrimeField   -- only for the non-vacuity examples (the lawful field GF(5))

namespace Algobra.C10
open Algobra Algobra.BPoly Algobra.Order
open AddMonoidAlgebra (single)

variable {α : Type} {F : FOps α} {K : Type} [Field K] (L : Lawful F K)

/-! ## 1. the loop invariant -/

/-- **Main invariant of the division loop** (any `ignore`, any intermediate state).  If the loop is
    started in a state `(p, qs, r)` whose dividend `p` has all exponents `≤ m` and whose quotients
    satisfy the degree invariant `QOK … m` (every term `t` of `qs_j` has `t·lm(gs_j) ≤ m`), and it
    completes with `(qs', r')`, then
    (a) all results are canonical, `p + Σ qs_j gs_j + r = Σ qs'_j gs_j + r'` in K[X,Y];
    (b) every exponent of `r'` that was not already in `r` is `≤ m` and is not divisible by the
        leading exponent of any considered divisor (`subDegs d (ld o g) = none`);
    (c) the degree invariant holds for `qs'`. -/
theorem quoRemLoop_spec {o : Order} (hadm : Admissible o) {ignore : Option Nat}
    {gs : List (BPoly α)} (hgs : ∀ g ∈ gs, CV L g) (m : Deg)
    (fuel : Nat) (p : BPoly α) (qs : List (BPoly α)) (r : BPoly α)
    {qs' : List (BPoly α)} {r' : BPoly α}
    (hp : WF L p) (hpk : ∀ d ∈ p.map (·.1), NoOverflow o d ∧ o.cmp d m ≤ 0)
    (hqs : ∀ q ∈ qs, WF L q) (hr : WF L r) (hlen : qs.length = gs.length) (hq : QOK o gs m qs)
    (hrun : RunOK F o ignore gs fuel p)
    (h : quoRemLoop F o ignore gs fuel p qs r = some (qs', r')) :
    (∀ q ∈ qs', WF L q) ∧ WF L r' ∧ qs'.length = gs.length ∧
    toMv L p + (List.zipWith (fun q g => toMv L q * toMv L g) qs gs).sum + toMv L r
      = (List.zipWith (fun q g => toMv L q * toMv L g) qs' gs).sum + toMv L r' ∧
    (∀ d ∈ r'.map (·.1), d ∈ r.map (·.1) ∨ (NoOverflow o d ∧ o.cmp d m ≤ 0 ∧
        ∀ j g, gs[j]? = some g → ignore ≠ some j → subDegs d (ld o g) = none)) ∧
    QOK o gs m qs' :=
  BPoly.quoRemLoop_spec L hadm hgs m fuel p qs r hp hpk hqs hr hlen hq hrun h

/-! ## 2. `QuoRem` -/

/-- **C10, `QuoRem`.**  A completed `QuoRem` of a canonical `f` by canonical divisors returns a
    standard representation:
    1. the divisors are nonzero, there is one quotient per divisor, everything returned is canonical;
    2. `f = Σ q_i g_i + r` in K[X,Y];
    3. no exponent `d` of `r` is divisible by the leading exponent of a divisor
       (`subDegs d (ld o g) = none`, i.e. NOT (`(ld o g).1 ≤ d.1` and `(ld o g).2 ≤ d.2`)), and every
       exponent of `r` is `≤ Ld(f)`;
    4. for every `i`: each term `t` of `q_i` satisfies `t·lm(g_i) ≤ lm(f)`; the product `q_i g_i` as
       computed by the library (`multNoReduce`) does not overflow, is exact, and its leading exponent
       does not exceed that of `f`; equivalently every exponent in the support of `q_i g_i` is
       `≤ Ld(f)`. -/
theorem quoRem_spec {o : Order} (hadm : Admissible o) {gs : List (BPoly α)}
    (hgs : ∀ g ∈ gs, WF L g) {fuel : Nat} {f : BPoly α} {qs : List (BPoly α)} {r : BPoly α}
    (hf : WF L f) (hno : ∀ d ∈ f.map (·.1), NoOverflow o d)
    (hrun : RunOK F o none gs fuel f)
    (h : quoRem F o fuel none f gs = .ok (some (qs, r))) :
    ((∀ g ∈ gs, g ≠ []) ∧ qs.length = gs.length ∧ (∀ q ∈ qs, WF L q) ∧ WF L r) ∧
    toMv L f = (List.zipWith (fun q g => toMv L q * toMv L g) qs gs).sum + toMv L r ∧
    (∀ d ∈ r.map (·.1), (∀ g ∈ gs, subDegs d (ld o g) = none) ∧ o.cmp d (ld o f) ≤ 0) ∧
    (∀ (i : Nat) (q g : BPoly α), qs[i]? = some q → gs[i]? = some g →
      (∀ t ∈ q.map (·.1), o.cmp ((ld o g).1 + t.1, (ld o g).2 + t.2) (ld o f) ≤ 0) ∧
      (∃ h, mulNoReduce F q g = some h ∧ toMv L h = toMv L q * toMv L g ∧
        o.cmp (ld o h) (ld o f) ≤ 0) ∧
      (∀ e, (toMv L q * toMv L g).coeff e ≠ 0 → o.cmp e (ld o f) ≤ 0)) := by
  have hcv : ∀ g ∈ gs, CV L g := fun g hg => (hgs g hg).cv
  obtain ⟨hne, hl⟩ := quoRem_ok h
  obtain ⟨c1, c2, c3, c4, c5, c6⟩ := quoRemLoop_init_spec L hadm hcv hf hno hrun hl
  refine ⟨⟨hne, c3, c1, c2⟩, c4, ?_, ?_⟩
  · intro d hd
    obtain ⟨-, hle, hdiv⟩ := c5 d hd
    refine ⟨fun g hg => ?_, hle⟩
    obtain ⟨j, hj⟩ := List.getElem?_of_mem hg
    exact hdiv j g hj (by simp)
  · intro i q g hq hg
    have hQ := c6 i q g hq hg
    have hqw : WF L q := c1 q (List.mem_of_getElem? hq)
    obtain ⟨h', e1, -, e3, e4⟩ := mulNoReduce_bound L hadm (NoOverflow_ld hadm hno) hqw.cv
      (hcv g (List.mem_of_getElem? hg)) hQ
    exact ⟨fun t ht => (hQ t ht).2, ⟨h', e1, e3, e4⟩,
      fun e he => (mul_bound L hadm hQ e he).2⟩

/-- the same for `quoRemWithIgnore` with an arbitrary ignored index (used by `MinimizeBasis`,
    `ReduceBasis`): the remainder condition holds for every divisor that is not ignored -/
theorem quoRemWithIgnore_spec {o : Order} (hadm : Admissible o) {ignore : Option Nat}
    {gs : List (BPoly α)} (hgs : ∀ g ∈ gs, CV L g) {fuel : Nat} {f : BPoly α}
    {qs : List (BPoly α)} {r : BPoly α} (hf : WF L f) (hno : ∀ d ∈ f.map (·.1), NoOverflow o d)
    (hrun : RunOK F o ignore gs fuel f)
    (h : quoRem F o fuel ignore f gs = .ok (some (qs, r))) :
    (∀ g ∈ gs, g ≠ []) ∧
    (∀ q ∈ qs, WF L q) ∧ WF L r ∧ qs.length = gs.length ∧
    toMv L f = (List.zipWith (fun q g => toMv L q * toMv L g) qs gs).sum + toMv L r ∧
    (∀ d ∈ r.map (·.1), NoOverflow o d ∧ o.cmp d (ld o f) ≤ 0 ∧
        ∀ j g, gs[j]? = some g → ignore ≠ some j → subDegs d (ld o g) = none) ∧
    (∀ (j : Nat) (q g : BPoly α), qs[j]? = some q → gs[j]? = some g →
      (∀ t ∈ q.map (·.1), o.cmp ((ld o g).1 + t.1, (ld o g).2 + t.2) (ld o f) ≤ 0) ∧
      (∀ e, (toMv L q * toMv L g).coeff e ≠ 0 → o.cmp e (ld o f) ≤ 0)) :=
  BPoly.quoRem_spec L hadm hgs hf hno hrun h

/-- a zero divisor is rejected with an InputValue error (after "fix: zero divisor") … -/
theorem quoRem_zero_divisor (o : Order) (fuel : Nat) (ignore : Option Nat) (f : BPoly α)
    {gs : List (BPoly α)} (h : [] ∈ gs) : quoRem F o fuel ignore f gs = .error .inputValue :=
  BPoly.quoRem_zero_divisor o fuel ignore f h

/-- … and this is the only error -/
theorem quoRem_error {o : Order} {fuel : Nat} {ignore : Option Nat} {f : BPoly α}
    {gs : List (BPoly α)} {k : Kind} (h : quoRem F o fuel ignore f gs = .error k) :
    k = .inputValue ∧ [] ∈ gs :=
  BPoly.quoRem_error h

/-! ## 3. `Rem` -/

/-- `Rem` is `QuoRem` without the quotients -/
theorem rem_eq (o : Order) (fuel : Nat) (f : BPoly α) (gs : List (BPoly α)) :
    rem F o fuel f gs = (quoRem F o fuel none f gs).map (·.map Prod.snd) :=
  BPoly.rem_eq o fuel f gs

/-- **C10, `Rem`.**  `Rem` returns the remainder of `QuoRem`: there are quotients `qs` with which
    `QuoRem` returns `(qs, r)`, hence `f = Σ q_i g_i + r` is a standard representation and no
    exponent of `r` is divisible by a leading exponent of a divisor. -/
theorem rem_spec {o : Order} (hadm : Admissible o) {gs : List (BPoly α)}
    (hgs : ∀ g ∈ gs, WF L g) {fuel : Nat} {f r : BPoly α}
    (hf : WF L f) (hno : ∀ d ∈ f.map (·.1), NoOverflow o d)
    (hrun : RunOK F o none gs fuel f)
    (h : rem F o fuel f gs = .ok (some r)) :
    ∃ qs, quoRem F o fuel none f gs = .ok (some (qs, r)) ∧
      qs.length = gs.length ∧ (∀ q ∈ qs, WF L q) ∧ WF L r ∧
      toMv L f = (List.zipWith (fun q g => toMv L q * toMv L g) qs gs).sum + toMv L r ∧
      (∀ d ∈ r.map (·.1), (∀ g ∈ gs, subDegs d (ld o g) = none) ∧ o.cmp d (ld o f) ≤ 0) ∧
      (∀ (i : Nat) (q g : BPoly α), qs[i]? = some q → gs[i]? = some g →
        ∀ e, (toMv L q * toMv L g).coeff e ≠ 0 → o.cmp e (ld o f) ≤ 0) := by
  obtain ⟨qs, hq⟩ := rem_ok h
  obtain ⟨⟨-, c1, c2, c3⟩, c4, c5, c6⟩ := quoRem_spec L hadm hgs hf hno hrun hq
  exact ⟨qs, hq, c1, c2, c3, c4, c5, fun i q g h1 h2 => (c6 i q g h1 h2).2.2⟩

/-! ## 4. the word-size guard: graded orders need none -/

/-- For WDegLex / WDegRevLex with positive weights (DegLex, DegRevLex, …) no exponent can wrap
    around during a division once the exponents of the inputs and their weighted degrees are words. -/
theorem RunOK_of_graded {o : Order} (hgr : Graded o) {ignore : Option Nat}
    {gs : List (BPoly α)} (hgs : ∀ g ∈ gs, ∀ d ∈ g.map (·.1), NoOverflow o d)
    (fuel : Nat) (p : BPoly α) (hp : ∀ d ∈ p.map (·.1), NoOverflow o d) :
    RunOK F o ignore gs fuel p :=
  BPoly.RunOK_of_graded hgr hgs fuel p hp

/-- **C10 for the graded orders, without any run hypothesis.** -/
theorem quoRem_spec_graded {o : Order} (hgr : Graded o) {gs : List (BPoly α)}
    (hgs : ∀ g ∈ gs, WF L g ∧ ∀ d ∈ g.map (·.1), NoOverflow o d) {fuel : Nat} {f : BPoly α}
    {qs : List (BPoly α)} {r : BPoly α}
    (hf : WF L f) (hno : ∀ d ∈ f.map (·.1), NoOverflow o d)
    (h : quoRem F o fuel none f gs = .ok (some (qs, r))) :
    ((∀ g ∈ gs, g ≠ []) ∧ qs.length = gs.length ∧ (∀ q ∈ qs, WF L q) ∧ WF L r) ∧
    toMv L f = (List.zipWith (fun q g => toMv L q * toMv L g) qs gs).sum + toMv L r ∧
    (∀ d ∈ r.map (·.1), (∀ g ∈ gs, subDegs d (ld o g) = none) ∧ o.cmp d (ld o f) ≤ 0) ∧
    (∀ (i : Nat) (q g : BPoly α), qs[i]? = some q → gs[i]? = some g →
      (∀ t ∈ q.map (·.1), o.cmp ((ld o g).1 + t.1, (ld o g).2 + t.2) (ld o f) ≤ 0) ∧
      (∃ h, mulNoReduce F q g = some h ∧ toMv L h = toMv L q * toMv L g ∧
        o.cmp (ld o h) (ld o f) ≤ 0) ∧
      (∀ e, (toMv L q * toMv L g).coeff e ≠ 0 → o.cmp e (ld o f) ≤ 0)) :=
  quoRem_spec L hgr.admissible (fun g hg => (hgs g hg).1) hf hno
    (BPoly.RunOK_of_graded hgr (fun g hg => (hgs g hg).2) fuel f hno) h

/-! ## 5. termination (the fuel of the model is not a restriction) -/

/-- an admissible order is a well-order on the exponent pairs without overflow (Dickson's lemma) -/
theorem order_wellFounded {o : Order} (hadm : Admissible o) :
    WellFounded fun a b : Deg => NoOverflow o a ∧ NoOverflow o b ∧ o.cmp b a = 1 :=
  DegLT_wf hadm

/-- the leading exponent strictly decreases in every round, hence for some fuel `QuoRem` returns a
    value (nonzero canonical divisors, no wrap-around in the run) … -/
theorem quoRem_terminates {o : Order} (hadm : Admissible o) {ignore : Option Nat}
    {gs : List (BPoly α)}
    (hgs : ∀ g ∈ gs, WF L g ∧ g ≠ [] ∧ ∀ d ∈ g.map (·.1), NoOverflow o d)
    {f : BPoly α} (hf : WF L f) (hno : ∀ d ∈ f.map (·.1), NoOverflow o d)
    (hrun : ∀ fuel, RunOK F o ignore gs fuel f) :
    ∃ fuel qs r, quoRem F o fuel ignore f gs = .ok (some (qs, r)) :=
  BPoly.quoRem_terminates L hadm hgs hf hno hrun

/-- … for the graded orders unconditionally … -/
theorem quoRem_terminates_graded {o : Order} (hgr : Graded o) {ignore : Option Nat}
    {gs : List (BPoly α)}
    (hgs : ∀ g ∈ gs, WF L g ∧ g ≠ [] ∧ ∀ d ∈ g.map (·.1), NoOverflow o d)
    {f : BPoly α} (hf : WF L f) (hno : ∀ d ∈ f.map (·.1), NoOverflow o d) :
    ∃ fuel qs r, quoRem F o fuel ignore f gs = .ok (some (qs, r)) :=
  BPoly.quoRem_terminates L hgr.admissible hgs hf hno
    (fun fuel => BPoly.RunOK_of_graded hgr (fun g hg => (hgs g hg).2.2) fuel f hno)

/-- … and more fuel never changes a returned value. -/
theorem quoRem_fuel_mono {o : Order} {ignore : Option Nat} {gs : List (BPoly α)} {fuel : Nat}
    {f : BPoly α} {x : List (BPoly α) × BPoly α} (k : Nat)
    (h : quoRem F o fuel ignore f gs = .ok (some x)) :
    quoRem F o (fuel + k) ignore f gs = .ok (some x) := by
  obtain ⟨hne, hl⟩ := quoRem_ok h
  unfold quoRem
  have ha : ¬ gs.any (·.isEmpty) = true := by
    intro ha
    obtain ⟨g, hg, hge⟩ := List.any_eq_true.1 ha
    exact hne g hg (List.isEmpty_iff.1 hge)
  rw [if_neg ha, quoRemLoop_fuel_mono o ignore gs k fuel f _ _ hl]

/-! ## 6. non-vacuity and sanity evaluations over GF(5) -/

section Examples

instance : Fact (Nat.Prime 5) := ⟨by norm_num⟩

/-- the lawful coefficient field GF(5) -/
noncomputable def L5 : Lawful (primeOps 5) (ZMod 5) := primeLawful 5 (by norm_num) (by norm_num)

theorem wf5 (f : BPoly Nat) (h1 : (f.map (·.1)).Nodup) (h2 : ∀ dc ∈ f, 0 < dc.2 ∧ dc.2 < 5) :
    WF L5 f := by
  refine ⟨h1, fun dc hdc => ⟨(h2 dc hdc).2, ?_⟩⟩
  show ((dc.2 : ℕ) : ZMod 5) ≠ 0
  rw [Ne, ZMod.natCast_eq_zero_iff]
  intro hdvd
  have := Nat.le_of_dvd (h2 dc hdc).1 hdvd
  have := (h2 dc hdc).2
  omega

-- shortcut instances (the derived ones exceed the default instance-size limit for nested lists)
instance instDecEqBPolyNat : DecidableEq (BPoly Nat) := inferInstanceAs (DecidableEq (List (Deg × Nat)))
instance instDecEqResNat : DecidableEq (List (BPoly Nat) × BPoly Nat) := inferInstance

/-- X²Y + XY² + Y² -/
def f5 : BPoly Nat := [((2, 1), 1), ((1, 2), 1), ((0, 2), 1)]
/-- XY - 1 -/
def g1 : BPoly Nat := [((1, 1), 1), ((0, 0), 4)]
/-- Y² - 1 -/
def g2 : BPoly Nat := [((0, 2), 1), ((0, 0), 4)]

/-- Lex, X > Y -/
def oLex : Order := ⟨.lex, true⟩
/-- DegLex, X > Y -/
def oDegLex : Order := ⟨.wdeglex 1 1, true⟩
/-- DegRevLex, Y > X -/
def oDegRevLex : Order := ⟨.wdegrevlex 1 1, false⟩

-- the hypotheses of `quoRem_spec` hold for the textbook division of f5 by (g1, g2) under Lex
example : Admissible oLex ∧ Admissible oDegLex ∧ Graded oDegLex ∧ Graded oDegRevLex := by decide
example : WF L5 f5 ∧ WF L5 g1 ∧ WF L5 g2 :=
  ⟨wf5 _ (by decide) (by decide), wf5 _ (by decide) (by decide), wf5 _ (by decide) (by decide)⟩
example : ∀ d ∈ f5.map (·.1), NoOverflow oLex d := by decide
example : ∀ g ∈ [g1, g2], ∀ d ∈ g.map (·.1), NoOverflow oDegLex d := by decide
example : RunOK (primeOps 5) oLex none [g1, g2] 20 f5 := by decide
example : ∀ fuel ≤ 30, RunOK (primeOps 5) oLex none [g1, g2] fuel f5 := by decide

-- f5 = (X + Y)(XY - 1) + 1·(Y² - 1) + (X + Y + 1)   (Cox–Little–O'Shea, Ch. 2 §3, Example 2)
example : quoRem (primeOps 5) oLex 20 none f5 [g1, g2]
    = .ok (some ([[((1, 0), 1), ((0, 1), 1)], [((0, 0), 1)]],
        [((1, 0), 1), ((0, 1), 1), ((0, 0), 1)])) := by decide
example : quoRem (primeOps 5) oDegLex 20 none f5 [g1, g2]
    = .ok (some ([[((1, 0), 1), ((0, 1), 1)], [((0, 0), 1)]],
        [((1, 0), 1), ((0, 1), 1), ((0, 0), 1)])) := by decide
-- with the divisors in the other order and DegRevLex (Y > X):
--   f5 = (X + 1)(Y² - 1) + X·(XY - 1) + (2X + 1)
example : quoRem (primeOps 5) oDegRevLex 20 none f5 [g2, g1]
    = .ok (some ([[((1, 0), 1), ((0, 0), 1)], [((1, 0), 1)]], [((1, 0), 2), ((0, 0), 1)])) := by
  decide
-- `Rem` returns the same remainder
example : rem (primeOps 5) oLex 20 f5 [g1, g2]
    = .ok (some [((1, 0), 1), ((0, 1), 1), ((0, 0), 1)]) := by decide
-- no term of the remainder is divisible by a leading term; leading exponents
example : ld oLex g1 = (1, 1) ∧ ld oLex g2 = (0, 2) ∧ ld oLex f5 = (2, 1) ∧
    (∀ d ∈ [((1, 0) : Deg), (0, 1), (0, 0)], ∀ g ∈ [g1, g2], subDegs d (ld oLex g) = none) := by
  decide
-- the run needs 7 rounds (+1 to observe the empty dividend): less fuel is reported as `none`
example : quoRem (primeOps 5) oLex 6 none f5 [g1, g2] = .ok none ∧
    (quoRem (primeOps 5) oLex 7 none f5 [g1, g2]).toOption.join.isSome = true := by decide
-- zero divisor
example : quoRem (primeOps 5) oLex 20 none f5 [g1, [], g2] = .error .inputValue := by decide
example : rem (primeOps 5) oLex 20 f5 [[]] = .error .inputValue := by decide
-- ignoring index 0 (quoRemWithIgnore): only g2 is used, f5 = (X + 1)(Y² - 1) + (X²Y + X + 1)
example : quoRem (primeOps 5) oLex 20 (some 0) f5 [g1, g2]
    = .ok (some ([[], [((1, 0), 1), ((0, 0), 1)]],
        [((2, 1), 1), ((1, 0), 1), ((0, 0), 1)])) := by decide

-- the theorems instantiate: `quoRem_spec` applied to the Lex division above yields the identity
-- X²Y + XY² + Y² = (X + Y)(XY - 1) + 1·(Y² - 1) + (X + Y + 1) in GF(5)[X,Y]
theorem gs5_wf : ∀ g ∈ [g1, g2], WF L5 g := by
  intro g hg
  simp only [List.mem_cons, List.not_mem_nil, or_false] at hg
  rcases hg with rfl | rfl <;> exact wf5 _ (by decide) (by decide)

/-- the quotients X + Y, 1 -/
def q5 : List (BPoly Nat) := [[((1, 0), 1), ((0, 1), 1)], [((0, 0), 1)]]
/-- the remainder X + Y + 1 -/
def r5 : BPoly Nat := [((1, 0), 1), ((0, 1), 1), ((0, 0), 1)]

example : toMv L5 f5
    = toMv L5 [((1, 0), 1), ((0, 1), 1)] * toMv L5 g1 + toMv L5 [((0, 0), 1)] * toMv L5 g2
      + toMv L5 r5 := by
  have h := (quoRem_spec L5 (o := oLex) (fuel := 20) (f := f5) (qs := q5) (r := r5) (by decide)
    gs5_wf (wf5 _ (by decide) (by decide)) (by decide) (by decide) (by decide)).2.1
  simpa [q5, add_assoc] using h

-- … and `quoRem_spec_graded` (no run hypothesis) to the DegLex division
example : ∀ d ∈ r5.map (·.1),
    (∀ g ∈ [g1, g2], subDegs d (ld oDegLex g) = none) ∧ oDegLex.cmp d (ld oDegLex f5) ≤ 0 :=
  (quoRem_spec_graded L5 (o := oDegLex) (fuel := 20) (f := f5) (qs := q5) (r := r5) (by decide)
    (fun g hg => ⟨gs5_wf g hg, by
      simp only [List.mem_cons, List.not_mem_nil, or_false] at hg
      rcases hg with rfl | rfl <;> decide⟩)
    (wf5 _ (by decide) (by decide)) (by decide) (by decide)).2.2.1

-- the hypothesis `∀ fuel, RunOK …` of `quoRem_terminates` holds for the Lex example
-- (a completed run without wrap-around is `RunOK` for every fuel)
example : ∀ fuel, RunOK (primeOps 5) oLex none [g1, g2] fuel f5 :=
  RunOK_of_complete oLex none [g1, g2] 20 f5 ([g1, g2].map fun _ => []) []
    (x := (q5, r5))
    (by decide) (by decide)
example : ∀ g ∈ [g1, g2], WF L5 g ∧ g ≠ [] ∧ ∀ d ∈ g.map (·.1), NoOverflow oLex d := by
  intro g hg
  refine ⟨gs5_wf g hg, ?_⟩
  simp only [List.mem_cons, List.not_mem_nil, or_false] at hg
  rcases hg with rfl | rfl <;> decide

/-! ### the run hypothesis cannot be dropped for Lex -/

/-- XY -/
def fw : BPoly Nat := [((1, 1), 1)]
/-- X - Y^(2^64-1) -/
def gw : BPoly Nat := [((1, 0), 1), ((0, 2 ^ 64 - 1), 4)]

/-- Under Lex all exponents of `fw`, `gw` are machine words, but the division step computes
    `Y · Y^(2^64-1)` with a wrapped exponent: `RunOK` fails, `QuoRem` returns `(q, r) = (Y, 1)`,
    and `XY ≠ Y·(X - Y^(2^64-1)) + 1` in GF(5)[X,Y]. -/
theorem wraparound_breaks_identity :
    WF L5 fw ∧ WF L5 gw ∧ (∀ d ∈ fw.map (·.1), NoOverflow oLex d) ∧
    (∀ d ∈ gw.map (·.1), NoOverflow oLex d) ∧
    ¬ RunOK (primeOps 5) oLex none [gw] 20 fw ∧
    quoRem (primeOps 5) oLex 20 none fw [gw] = .ok (some ([[((0, 1), 1)]], [((0, 0), 1)])) ∧
    toMv L5 fw ≠ (List.zipWith (fun q g => toMv L5 q * toMv L5 g) [[((0, 1), 1)]] [gw]).sum
      + toMv L5 [((0, 0), 1)] := by
  refine ⟨wf5 _ (by decide) (by decide), wf5 _ (by decide) (by decide), by decide, by decide,
    by decide, by decide, ?_⟩
  intro h
  have h2 := congrArg (evalHom (0 : ZMod 5) 0) h
  simp only [List.zipWith_cons_cons, List.zipWith_nil_right, List.sum_cons, List.sum_nil, add_zero,
    map_add, map_mul, evalHom_toMv] at h2
  have e1 : L5.embed 1 = 1 := by show ((1 : ℕ) : ZMod 5) = 1; simp
  revert h2
  simp [fw, gw, e1]

end Examples

end Algobra.C10
