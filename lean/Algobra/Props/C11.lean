/-
  Props/C11.lean — property C11: "GroebnerBasis returns a Gröbner basis of the same ideal"
  (Model/BPoly.lean: `sPoly`, `sPairRems`, `buchberger`, `Ideal.groebnerBasis`; the model of
  /repo/bivariate/groebner.go `SPolynomial`, `GroebnerBasis`).

  What a theorem about the model can carry:
   C11-1  the run returns only after a whole round in which the S-polynomial of EVERY pair of basis
          elements reduced to zero with respect to the basis; the input generators are a prefix of
          the result (`buchberger_spairs_zero`, `buchberger_pairs_zero`, `buchberger_extends`);
   C11-2  the receiver is not modified, the result is flagged (1, 0, 0)
          (`groebnerBasis_receiver_unchanged`);
   C11-3  the result generates the same ideal of `K[X,Y]` (`buchberger_same_ideal`), first with the
          division equation as the named hypothesis `DivSpec`, then with that hypothesis discharged
          from Proofs/BPolyDiv.lean (`buchberger_same_ideal_runOK`);
   C11-4  Buchberger's criterion itself (S-pairs reduce to zero ⇒ Gröbner basis) is NOT in Mathlib;
          it is stated as `buchberger_criterion_full : Prop` and everything depending on it takes
          it as an explicit hypothesis (`groebnerBasis_is_groebner_of_criterion`).
  Proofs are in Proofs/Groebner.lean.
-/
import Algobra.Proofs.Groebner
import Algobra.Proofs.BPolyDiv
import Algobra.Props.C05
import Mathlib.Data.ZMod.Basic

namespace Algobra
namespace C11

open BPoly

variable {α : Type} {F : FOps α} {o : Order}

/-! ### C11-1 : all S-pairs of the result reduce to zero; nothing is dropped -/

/-- `GroebnerBasis()` returns only when a whole round over all pairs `i < j` of the returned list
    produced no nonzero remainder -/
theorem buchberger_spairs_zero {fuel : Nat} {gens G : List (BPoly α)}
    (h : buchberger F o fuel gens = some G) : sPairRems F o G = some [] :=
  BPoly.buchberger_spairs_zero h

/-- … unfolded: for all `i < j` the S-polynomial of `G[i]`, `G[j]` exists (no exponent overflow in
    `multNoReduce`) and its division by the whole list `G` ends with remainder zero -/
theorem buchberger_pairs_zero {fuel : Nat} {gens G : List (BPoly α)}
    (h : buchberger F o fuel gens = some G) (i j : Nat) (hij : i < j) (hj : j < G.length) :
    ∃ s qs, sPoly F o (G[i]'(by omega)) G[j] = some s ∧
      quoRemLoop F o none G divFuel s (G.map fun _ => []) [] = some (qs, []) :=
  (sPairRems_nil_iff G).1 (BPoly.buchberger_spairs_zero h) i j hij hj

/-- the characterisation used above, for any list -/
theorem sPairRems_nil_iff (gb : List (BPoly α)) :
    sPairRems F o gb = some [] ↔
      ∀ (i j : Nat) (_ : i < j) (hj : j < gb.length),
        ∃ s qs, sPoly F o (gb[i]'(by omega)) gb[j] = some s ∧
          quoRemLoop F o none gb divFuel s (gb.map fun _ => []) [] = some (qs, []) :=
  BPoly.sPairRems_nil_iff gb

/-- every list a round appends consists of nonzero remainders of S-polynomials of pairs `i < j` -/
theorem sPairRems_mem {gb news : List (BPoly α)} (h : sPairRems F o gb = some news) :
    ∀ r ∈ news, r ≠ [] ∧ ∃ (i j : Nat) (_ : i < j) (hj : j < gb.length), ∃ s qs,
      sPoly F o (gb[i]'(by omega)) gb[j] = some s ∧
      quoRemLoop F o none gb divFuel s (gb.map fun _ => []) [] = some (qs, r) :=
  BPoly.sPairRems_mem h

/-- the input generators are a prefix of the result -/
theorem buchberger_extends {fuel : Nat} {gens G : List (BPoly α)}
    (h : buchberger F o fuel gens = some G) : ∃ extra, G = gens ++ extra :=
  BPoly.buchberger_extends h

/-- the un-cached `IsGroebner()` test answers `true` on the result -/
theorem buchberger_decideGroebner {fuel : Nat} {gens G : List (BPoly α)}
    (h : buchberger F o fuel gens = some G) : decideGroebner F o G = some true :=
  decideGroebner_of_buchberger h

/-- the model reports a run as a value only below its size cap -/
theorem buchberger_length_le {fuel : Nat} {gens G : List (BPoly α)}
    (h : buchberger F o fuel gens = some G) : G.length ≤ maxBasis :=
  BPoly.buchberger_length_le h

/-! ### C11-2 : the receiver is not modified -/

/-- `GroebnerBasis()` is a function of the receiver's generators and Gröbner flag only; it returns
    the receiver itself (Go: a copy) when that is flagged, otherwise a NEW object with the flags
    (1, 0, 0) whose generators extend the receiver's; the receiver `id` is not changed (in the
    model it is an immutable value; `Hist.step (.iGroebner dst a)` writes register `dst` only) -/
theorem groebnerBasis_receiver_unchanged {id gb : Ideal α} (h : id.groebnerBasis F o = some gb) :
    (id.isGroebner = 1 ∧ gb = id) ∨
    (id.isGroebner ≠ 1 ∧ gb.isGroebner = 1 ∧ gb.isMinimal = 0 ∧ gb.isReduced = 0 ∧
      buchberger F o groebnerFuel id.gens = some gb.gens ∧ ∃ extra, gb.gens = id.gens ++ extra) := by
  rcases groebnerBasis_spec h with h1 | ⟨h1, G, hG, rfl⟩
  · exact Or.inl h1
  · exact Or.inr ⟨h1, rfl, rfl, rfl, hG, BPoly.buchberger_extends hG⟩

theorem groebnerBasis_flagged {id gb : Ideal α} (h : id.groebnerBasis F o = some gb) :
    gb.isGroebner = 1 := Effects.groebnerBasis_flagged F o h

/-! ### C11-3 : same ideal -/

section SameIdeal
variable {K : Type} [Field K] {L : Lawful F K}
  {Safe : Option Nat → List (BPoly α) → Nat → BPoly α → Prop}

/-- with the division equation as hypothesis `hdiv : DivSpec L o Safe` (`Safe` = the guard under
    which the equation is available for a run), well-formed generators with word-size exponents,
    and the guard for every S-polynomial division of the run: the result generates the same ideal
    of `K[X,Y] = AddMonoidAlgebra K (ℕ × ℕ)` -/
theorem buchberger_same_ideal (hdiv : DivSpec L o Safe) {fuel : Nat} {gens G : List (BPoly α)}
    (hgens : ∀ g ∈ gens, WF L g ∧ Bounded g) (h : buchberger F o fuel gens = some G)
    (hsafe : ∀ gb, gens <+: gb → gb <+: G → RoundSafe F o Safe gb) :
    (∀ g ∈ G, WF L g ∧ Bounded g) ∧
    Ideal.span ((toMv L) '' {g | g ∈ G}) = Ideal.span ((toMv L) '' {g | g ∈ gens}) :=
  BPoly.buchberger_same_ideal hdiv hgens h hsafe

/-- the S-polynomial is a combination of its arguments (no order facts needed) -/
theorem sPoly_combination {f g s : BPoly α} (hf : WF L f) (hg : WF L g) (bf : Bounded f)
    (bg : Bounded g) (h : sPoly F o f g = some s) :
    WF L s ∧ Bounded s ∧
      ∃ a b : AddMonoidAlgebra K (ℕ × ℕ), toMv L s = a * toMv L f - b * toMv L g :=
  Gb.sPoly_spec L hf.cv hg.cv bf bg h

/-! #### discharging `DivSpec` / `RemSpec` from Proofs/BPolyDiv.lean -/

variable (F) in
/-- the guard of the division theorem of Proofs/BPolyDiv.lean: an admissible order, the exponents
    of the dividend (and their weighted degrees) are machine words, and no exponent wraps around
    during the run (`RunOK` mirrors the loop) -/
def RunSafe (o : Order) : Option Nat → List (BPoly α) → Nat → BPoly α → Prop :=
  fun ignore gs fuel f =>
    Order.Admissible o ∧ (∀ d ∈ keys f, Order.NoOverflow o d) ∧ RunOK F o ignore gs fuel f

theorem qdot_eq_dot (qs gs : List (BPoly α)) : qdot L qs gs = dot L qs gs := rfl

/-- the division equation holds under `RunSafe` -/
theorem divSpec_holds (L : Lawful F K) (o : Order) : DivSpec L o (RunSafe F o) := by
  intro ignore gs fuel f qs r hf hgs hs h
  exact (quoRemLoop_init_spec L hs.1 (fun g hg => (hgs g hg).cv) hf hs.2.1 hs.2.2 h).2.2.2.1

/-- the remainder property holds under `RunSafe` -/
theorem remSpec_holds (L : Lawful F K) (o : Order) : RemSpec L o (RunSafe F o) := by
  intro ignore gs fuel f qs r hf hgs hs h d hd j g hg hj
  exact ((quoRemLoop_init_spec L hs.1 (fun g hg => (hgs g hg).cv) hf hs.2.1 hs.2.2 h).2.2.2.2.1
    d hd).2.2 j g hg hj

/-- C11-3 with the division hypothesis discharged: for an admissible order, if in every round of
    the run no exponent wraps around in the divisions of the S-polynomials, the result generates
    the same ideal -/
theorem buchberger_same_ideal_runOK (L : Lawful F K) {fuel : Nat} {gens G : List (BPoly α)}
    (hgens : ∀ g ∈ gens, WF L g ∧ Bounded g) (h : buchberger F o fuel gens = some G)
    (hsafe : ∀ gb, gens <+: gb → gb <+: G → RoundSafe F o (RunSafe F o) gb) :
    (∀ g ∈ G, WF L g ∧ Bounded g) ∧
    Ideal.span ((toMv L) '' {g | g ∈ G}) = Ideal.span ((toMv L) '' {g | g ∈ gens}) :=
  BPoly.buchberger_same_ideal (divSpec_holds L o) hgens h hsafe

/-- for the graded orders (`WDegLex`/`WDegRevLex` with positive weights) the run guard follows from
    a static one: the exponents and weighted degrees of the divisors and of the S-polynomial fit
    into a machine word -/
theorem roundSafe_of_graded (hgr : Graded o) {gb : List (BPoly α)}
    (hgb : ∀ g ∈ gb, ∀ d ∈ keys g, Order.NoOverflow o d)
    (hs : ∀ (i j : Nat) (_ : i < j) (hj : j < gb.length) (s : BPoly α),
      sPoly F o (gb[i]'(by omega)) gb[j] = some s → ∀ d ∈ keys s, Order.NoOverflow o d) :
    RoundSafe F o (RunSafe F o) gb := by
  intro i j hij hj s hsp
  exact ⟨hgr.admissible, hs i j hij hj s hsp, RunOK_of_graded hgr hgb divFuel s (hs i j hij hj s hsp)⟩

end SameIdeal

/-! ### C11-4 : Buchberger's criterion (stated, not proved) -/

section Criterion
variable {K : Type} [Field K]

/-- `G` is a Gröbner basis of the ideal it generates: the leading exponent of every nonzero member
    of the ideal is divisible by the leading exponent of some element of `G` -/
def IsGroebnerBasis (L : Lawful F K) (o : Order) (G : List (BPoly α)) : Prop :=
  ∀ f : BPoly α, WF L f → f ≠ [] → toMv L f ∈ Ideal.span ((toMv L) '' {g | g ∈ G}) →
    ∃ g ∈ G, subDegs (ld o f) (ld o g) ≠ none

/-- BUCHBERGER'S CRITERION for the model: if all generators are well-formed, nonzero, and all
    S-polynomials of pairs reduce to zero with respect to `G` (in the model's own terms:
    `sPairRems F o G = some []`), without exponent wrap-around, then `G` is a Gröbner basis.
    Mathlib v4.33 has `MonomialOrder` and the division theorem `MonomialOrder.div`
    (RingTheory/MvPolynomial/Groebner.lean) but neither a definition of Gröbner bases nor
    Buchberger's criterion; proving it here (including the refinement of the model order `o.cmp`
    to a `MonomialOrder` on `ℕ × ℕ`) is outside this development.  NOT PROVED. -/
def buchberger_criterion_full (L : Lawful F K) (o : Order) : Prop :=
  ∀ G : List (BPoly α), Order.Admissible o → (∀ g ∈ G, WF L g ∧ g ≠ [] ∧ Bounded g) →
    RoundSafe F o (RunSafe F o) G → sPairRems F o G = some [] → IsGroebnerBasis L o G

/-- the full C11 statement, given the criterion: the generators of the object returned by
    `GroebnerBasis()` form a Gröbner basis of the ideal generated by the receiver's generators -/
theorem groebnerBasis_is_groebner_of_criterion (L : Lawful F K)
    (hcrit : buchberger_criterion_full L o) (hadm : Order.Admissible o) {id gb : Ideal α}
    (hfresh : id.isGroebner ≠ 1) (hgens : ∀ g ∈ id.gens, WF L g ∧ Bounded g)
    (h : id.groebnerBasis F o = some gb) (hne : ∀ g ∈ gb.gens, g ≠ [])
    (hsafe : ∀ G, id.gens <+: G → G <+: gb.gens → RoundSafe F o (RunSafe F o) G) :
    IsGroebnerBasis L o gb.gens ∧
    Ideal.span ((toMv L) '' {g | g ∈ gb.gens}) = Ideal.span ((toMv L) '' {g | g ∈ id.gens}) := by
  rcases groebnerBasis_receiver_unchanged h with ⟨h1, -⟩ | ⟨-, -, -, -, hb, -⟩
  · exact absurd h1 hfresh
  · obtain ⟨hw, hsp⟩ := buchberger_same_ideal_runOK L hgens hb hsafe
    refine ⟨hcrit gb.gens hadm (fun g hg => ⟨(hw g hg).1, hne g hg, (hw g hg).2⟩)
      (hsafe gb.gens ?_ (List.prefix_refl _)) (BPoly.buchberger_spairs_zero hb), hsp⟩
    obtain ⟨e, he⟩ := BPoly.buchberger_extends hb
    exact ⟨e, he.symm⟩

end Criterion

/-! ### non-vacuity and sanity evaluations (coefficients `GF(3)` as `primeOps 3`, order `Lex`) -/

section Examples

def lexO : Order := { kind := .lex, xGtY := true }
def F3 : FOps Nat := primeOps 3

/-- `X·Y + 2` and `Y² + 2` over GF(3): not a Gröbner basis for Lex, one remainder is added -/
def g1 : BPoly Nat := [((1, 1), 1), ((0, 0), 2)]
def g2 : BPoly Nat := [((0, 2), 1), ((0, 0), 2)]

/-- S(g1, g2) = Y·g1 − X·g2 = 2Y − 2X = X + 2Y over GF(3) -/
example : sPoly F3 lexO g1 g2 = some [((0, 1), 2), ((1, 0), 1)] := by decide +kernel

/-- the remainder of that S-polynomial on division by `[g1, g2]` (terms in the order of discovery) -/
def g3 : BPoly Nat := [((1, 0), 1), ((0, 1), 2)]

/-- the run terminates with one new generator; the hypotheses of `buchberger_spairs_zero`,
    `buchberger_pairs_zero` and `buchberger_extends` are satisfied by a concrete run -/
example : buchberger F3 lexO groebnerFuel [g1, g2] = some [g1, g2, g3] := by decide +kernel

example : sPairRems F3 lexO [g1, g2] = some [g3] := by decide +kernel

example : sPairRems F3 lexO [g1, g2, g3] = some [] := by decide +kernel

example : (({ gens := [g1, g2] } : BPoly.Ideal Nat).groebnerBasis F3 lexO).map
      (fun i => (i.gens, i.isGroebner, i.isMinimal, i.isReduced)) =
    some ([g1, g2, g3], 1, 0, 0) := by decide +kernel

/-- the hypotheses of `buchberger_same_ideal_runOK` are jointly satisfiable (here over the
    reference record `C05.fieldOps (ZMod 3)`; a one-generator run has no S-pair, so the guard is
    empty and the theorem applies outright) -/
example :
    let L := C05.fieldLawful (ZMod 3)
    let g : BPoly (ZMod 3) := [((1, 1), 1), ((0, 0), 2)]
    (∀ x ∈ [g], WF L x ∧ Bounded x) ∧
    buchberger (C05.fieldOps (ZMod 3)) lexO groebnerFuel [g] = some [g] ∧
    (∀ gb, [g] <+: gb → gb <+: [g] →
      RoundSafe (C05.fieldOps (ZMod 3)) lexO (RunSafe (C05.fieldOps (ZMod 3)) lexO) gb) := by
  intro L g
  refine ⟨?_, by decide +kernel, ?_⟩
  · intro x hx
    simp only [List.mem_singleton] at hx
    subst hx
    refine ⟨⟨by decide, ?_⟩, ?_⟩
    · intro dc hdc
      refine ⟨trivial, ?_⟩
      revert dc; decide
    · intro dc hdc
      revert dc; decide
  · intro gb h1 h2
    have : gb = [g] := h2.eq_of_length_le h1.length_le
    subst this
    intro i j hij hj
    simp only [List.length_singleton] at hj
    omega

end Examples

end C11
end Algobra
