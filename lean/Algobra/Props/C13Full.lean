/-
  Props/C13Full.lean — C13-3 closed: in a quotient ring built by `Quotient(id)`, two polynomials
  are congruent modulo `⟨id.gens⟩` iff `reduce` gives them the same normal form.
  (Mathematics: Proofs/Criterion.lean, Criterion2.lean, Criterion3.lean — Buchberger's criterion and
  "`MinimizeBasis` / `ReduceBasis` keep a Gröbner basis of the same ideal".)

  RESULT on `C13.nf_unique_full L` (Props/C13.lean), read literally:
   * it is FALSE (`nf_unique_full_false`): it quantifies over arbitrary ideal OBJECTS `id`, also
     over one whose `isGroebner` flag was forged to `1` on generators that are no Gröbner basis;
     `Quotient(id)` then trusts the flag and stores the generators as they are.  (The Go type has
     the flag unexported, so the library user cannot forge it; the model record can.)  Besides, the
     statement carries no guard for the runs of `GroebnerBasis`/`ReduceBasis` made by
     `Quotient(id)`, whose divisions wrap exponents around silently.
   * the closest true statement is PROVED (`nf_unique`): the same conclusion for an object whose
     flag is not `1` (every object returned by `NewIdeal`), generators well-formed, nonzero, of word
     size, with exact exponents (`Exact`: no condition for Lex), and the guard "no wrap-around" for
     the divisions made by `Quotient(id)` (`QuotientSafe`).
-/
import Algobra.Props.C13
import Algobra.Props.C11Full
import Algobra.Proofs.Criterion3

namespace Algobra
namespace C13

open BPoly

variable {α : Type} {K : Type} [Field K]

/-- the guard of `C11.RunSafe` is the guard used in Proofs/Criterion3.lean -/
theorem runSafe_eq (F : FOps α) (o : Order) : C11.RunSafe F o = RunSafe' F o := rfl

/-- "no exponent wraps around in the divisions made by `Quotient(id)`": the S-polynomial divisions
    of every round of `GroebnerBasis()` and the divisions of the replacement loop of
    `ReduceBasis()` (the removal loop of `MinimizeBasis()` needs no guard) -/
def QuotientSafe (F : FOps α) (o : Order) (id : BPoly.Ideal α) : Prop :=
  ∀ G, buchberger F o groebnerFuel id.gens = some G →
    (∀ gb, id.gens <+: gb → gb <+: G → RoundSafe F o (C11.RunSafe F o) gb) ∧
    ReduceSafe F o (C11.RunSafe F o) (List.range (minimized F o G).length) (minimized F o G)

/-- **the list stored by `Quotient(id)` is a Gröbner basis of `⟨id.gens⟩`** and generates it -/
theorem quotientGens_groebner {F : FOps α} (L : Lawful F K) {o : Order}
    (hadm : Order.Admissible o) {id : BPoly.Ideal α} {gs : List (BPoly α)}
    (hfresh : id.isGroebner ≠ 1)
    (hgens : ∀ g ∈ id.gens, WF L g ∧ g ≠ [] ∧ Bounded g ∧ ∀ d ∈ keys g, Exact o d)
    (hq : quotientGens F o id = some gs) (hsafe : QuotientSafe F o id) :
    (∀ g ∈ gs, WF L g) ∧
    Ideal.span ((toMv L) '' {x | x ∈ gs}) = Ideal.span ((toMv L) '' {x | x ∈ id.gens}) ∧
    C11.IsGroebnerBasisExact L o gs := by
  have h := GB.of_quotientGens L hadm hfresh hgens hq hsafe
  refine ⟨h.wf, h.span hadm, ?_⟩
  intro f wf hne hfx hmem
  rw [h.span hadm] at hmem
  obtain ⟨g, hg, -, hd⟩ := h.exact hadm wf hne hfx hmem
  exact ⟨g, hg, hd⟩

section Quot
variable {R : BPoly.Ring α} {L : Lawful R.F K}

/-- **C13-3, `nf_unique_full` with the missing guards**: `f ≡ g (mod ⟨id.gens⟩)` iff `reduce`
    returns the same normal form for both -/
theorem nf_unique (L : Lawful R.F K) {id : BPoly.Ideal α} {gs : List (BPoly α)}
    (hadm : Order.Admissible R.ord) (hfresh : id.isGroebner ≠ 1)
    (hgens : ∀ g ∈ id.gens, WF L g ∧ g ≠ [] ∧ Bounded g ∧ ∀ d ∈ keys g, Exact R.ord d)
    (hq : quotientGens R.F R.ord id = some gs) (hsafe : QuotientSafe R.F R.ord id)
    (hR : R.ideal = some gs) {f g r1 r2 : BPoly α} (hf : WF L f) (hg : WF L g)
    (sf : C11.RunSafe R.F R.ord none gs divFuel f) (sg : C11.RunSafe R.F R.ord none gs divFuel g)
    (h1 : reduceIn R f = some r1) (h2 : reduceIn R g = some r2) :
    (toMv L f - toMv L g ∈ Ideal.span ((toMv L) '' {x | x ∈ id.gens}) ↔ toMv L r1 = toMv L r2) ∧
    (toMv L r1 = toMv L r2 ↔ equal R.F r1 r2 = true) := by
  have hGB := GB.of_quotientGens L hadm hfresh hgens hq hsafe
  have hw := hGB.wf
  have Q := quotCtx_runSafe (L := L) hR hw
  obtain ⟨w1, -, m1, n1⟩ := Q.reduceIn_spec hf sf h1
  obtain ⟨w2, -, m2, n2⟩ := Q.reduceIn_spec hg sg h2
  obtain ⟨q1, hq1⟩ := BPoly.reduceIn_run hR h1
  obtain ⟨q2, hq2⟩ := BPoly.reduceIn_run hR h2
  have o1 : ∀ d ∈ keys r1, Exact R.ord d := fun d hd =>
    Or.inr ((quoRemLoop_init_spec L sf.1 (fun x hx => (hw x hx).cv) hf sf.2.1 sf.2.2
      hq1).2.2.2.2.1 d hd).1
  have o2 : ∀ d ∈ keys r2, Exact R.ord d := fun d hd =>
    Or.inr ((quoRemLoop_init_spec L sg.1 (fun x hx => (hw x hx).cv) hg sg.2.1 sg.2.2
      hq2).2.2.2.2.1 d hd).1
  have hsp : Ideal.span ((toMv L) '' {x | x ∈ gs}) = Ideal.span ((toMv L) '' {x | x ∈ id.gens}) :=
    hGB.span hadm
  have m1' : toMv L f - toMv L r1 ∈ Ideal.span ((toMv L) '' {x | x ∈ id.gens}) := by
    rw [← hsp]; exact m1
  have m2' : toMv L g - toMv L r2 ∈ Ideal.span ((toMv L) '' {x | x ∈ id.gens}) := by
    rw [← hsp]; exact m2
  refine ⟨⟨fun h => ?_, fun h => ?_⟩, (equal_iff L w1 w2).symm⟩
  · refine hGB.nf_unique hadm w1 w2 n1 n2 o1 o2 ?_
    have : toMv L r1 - toMv L r2 = (toMv L f - toMv L g) - (toMv L f - toMv L r1)
        + (toMv L g - toMv L r2) := by ring
    rw [this]
    exact Ideal.add_mem _ (Ideal.sub_mem _ h m1') m2'
  · have : toMv L f - toMv L g = (toMv L f - toMv L r1) - (toMv L g - toMv L r2) := by
      rw [h]; ring
    rw [this]
    exact Ideal.sub_mem _ m1' m2'

/-- normal forms are unique modulo the stored list (the `IsGroebnerBasis` hypothesis of
    `nf_unique_of_groebner` discharged) -/
theorem nf_unique_stored (L : Lawful R.F K) {id : BPoly.Ideal α} {gs : List (BPoly α)}
    (hadm : Order.Admissible R.ord) (hfresh : id.isGroebner ≠ 1)
    (hgens : ∀ g ∈ id.gens, WF L g ∧ g ≠ [] ∧ Bounded g ∧ ∀ d ∈ keys g, Exact R.ord d)
    (hq : quotientGens R.F R.ord id = some gs) (hsafe : QuotientSafe R.F R.ord id)
    {r1 r2 : BPoly α} (w1 : WF L r1) (w2 : WF L r2) (n1 : IsNF R.ord gs r1) (n2 : IsNF R.ord gs r2)
    (o1 : ∀ d ∈ keys r1, Exact R.ord d) (o2 : ∀ d ∈ keys r2, Exact R.ord d)
    (h : toMv L r1 - toMv L r2 ∈ Ideal.span ((toMv L) '' {x | x ∈ id.gens})) :
    toMv L r1 = toMv L r2 ∧ equal R.F r1 r2 = true := by
  have hGB := GB.of_quotientGens L hadm hfresh hgens hq hsafe
  have key := hGB.nf_unique hadm w1 w2 n1 n2 o1 o2 h
  exact ⟨key, (equal_iff L w1 w2).2 key⟩

end Quot

/-! ### the literal statement `nf_unique_full` is false -/

section Refute
open C11

/-- `XY + 2`, `Y² + 2` over GF(3) (reference record): NOT a Gröbner basis for Lex -/
def h1 : BPoly (ZMod 3) := [((1, 1), 1), ((0, 0), 2)]
def h2 : BPoly (ZMod 3) := [((0, 2), 1), ((0, 0), 2)]

/-- a quotient ring whose stored list is `[h1, h2]` … -/
def Rbad : BPoly.Ring (ZMod 3) :=
  { F := C05.fieldOps (ZMod 3), ord := lexO, varNames := ("X", "Y"), ideal := some [h1, h2] }

/-- … which is what `Quotient(id)` stores for an object with a forged flag -/
example : quotientGens (C05.fieldOps (ZMod 3)) lexO ⟨[h1, h2], 1, 0, 0⟩ = some [h1, h2] := rfl

/-- `C13.nf_unique_full` is FALSE as stated: `id = ⟨[XY+2, Y²+2], isGroebner := 1⟩` (forged flag),
    `f = S(h1, h2) = X + 2Y ∈ ⟨h1, h2⟩`, `g = 0`: `f − g` lies in the ideal but `reduce f = X + 2Y`
    and `reduce 0 = 0` differ. -/
theorem nf_unique_full_false :
    ¬ nf_unique_full (R := Rbad) (C05.fieldLawful (ZMod 3)) := by
  intro H
  let L := C05.fieldLawful (ZMod 3)
  have wfx : ∀ x : BPoly (ZMod 3), (keys x).Nodup → (∀ dc ∈ x, dc.2 ≠ 0) → WF L x :=
    fun x h1 h2 => ⟨h1, fun dc hdc => ⟨trivial, h2 dc hdc⟩⟩
  have w1 : WF L h1 := wfx _ (by decide) (by decide)
  have w2 : WF L h2 := wfx _ (by decide) (by decide)
  have b1 : Bounded h1 := by intro dc hdc; revert dc; decide
  have b2 : Bounded h2 := by intro dc hdc; revert dc; decide
  have hs : sPoly (C05.fieldOps (ZMod 3)) lexO h1 h2 = some [((0, 1), 2), ((1, 0), 1)] := by
    decide +kernel
  obtain ⟨ws, -, a, b, hab⟩ := C11.sPoly_combination (L := L) w1 w2 b1 b2 hs
  have hgens : ∀ g ∈ ([h1, h2] : List (BPoly (ZMod 3))), WF L g ∧ g ≠ [] ∧ Bounded g := by
    intro g hg
    simp only [List.mem_cons, List.not_mem_nil, or_false] at hg
    rcases hg with rfl | rfl
    · exact ⟨w1, by decide, b1⟩
    · exact ⟨w2, by decide, b2⟩
  have key := H ⟨[h1, h2], 1, 0, 0⟩ [h1, h2] trivial hgens rfl rfl
    [((0, 1), 2), ((1, 0), 1)] [] [((1, 0), 1), ((0, 1), 2)] [] ws (WF_nil L)
    ⟨trivial, by decide, by decide +kernel⟩ ⟨trivial, by decide, by decide +kernel⟩
    (by decide +kernel) (by decide +kernel)
  have hmem : toMv L [((0, 1), 2), ((1, 0), 1)] - toMv L ([] : BPoly (ZMod 3)) ∈
      Ideal.span ((toMv L) '' {x | x ∈ ([h1, h2] : List (BPoly (ZMod 3)))}) := by
    rw [toMv_nil, sub_zero, hab]
    exact Ideal.sub_mem _
      (Ideal.mul_mem_left _ _ (Ideal.subset_span ⟨h1, by simp, rfl⟩))
      (Ideal.mul_mem_left _ _ (Ideal.subset_span ⟨h2, by simp, rfl⟩))
  have h0 : toMv L [((1, 0), 1), ((0, 1), 2)] = 0 := key.1 hmem
  have wr : WF L [((1, 0), 1), ((0, 1), 2)] := wfx _ (by decide) (by decide)
  exact absurd (eq_nil_of_toMv_eq_zero L wr h0) (by decide)

end Refute

/-! ### non-vacuity -/

section NonVacuity
open C11
variable {α : Type}

/-- the hypotheses of `nf_unique` / `quotientGens_groebner` are jointly satisfiable by a run with a
    real S-pair: `id = ⟨XY + 2, Y² + 2⟩` over GF(3) (reference record), Lex; `GroebnerBasis` adds
    `X + 2Y`, `MinimizeBasis` removes `XY + 2`; quotient ring with the stored list; `f = X²Y + 1` -/
example :
    let F := C05.fieldOps (ZMod 3)
    let L := C05.fieldLawful (ZMod 3)
    let id : BPoly.Ideal (ZMod 3) := { gens := [h1, h2] }
    let gs : List (BPoly (ZMod 3)) := [[((0, 2), 1), ((0, 0), 2)], [((1, 0), 1), ((0, 1), 2)]]
    let R : BPoly.Ring (ZMod 3) := { F := F, ord := lexO, varNames := ("X", "Y"), ideal := some gs }
    let f : BPoly (ZMod 3) := [((2, 1), 1), ((0, 0), 1)]
    Order.Admissible lexO ∧ id.isGroebner ≠ 1 ∧
    (∀ g ∈ id.gens, WF L g ∧ g ≠ [] ∧ Bounded g ∧ ∀ d ∈ keys g, Exact lexO d) ∧
    quotientGens F lexO id = some gs ∧ QuotientSafe F lexO id ∧ R.ideal = some gs ∧
    WF L f ∧ C11.RunSafe R.F R.ord none gs divFuel f ∧
    reduceIn R f = some [((0, 1), 1), ((0, 0), 1)] := by
  intro F L id gs R f
  have wfx : ∀ x : BPoly (ZMod 3), (keys x).Nodup → (∀ dc ∈ x, dc.2 ≠ 0) → WF L x :=
    fun x h1 h2 => ⟨h1, fun dc hdc => ⟨trivial, h2 dc hdc⟩⟩
  refine ⟨trivial, by decide, ?_, by decide +kernel, ?_, rfl, wfx _ (by decide) (by decide),
    ⟨trivial, by decide, by decide +kernel⟩, by decide +kernel⟩
  · intro g hg
    simp only [id, List.mem_cons, List.not_mem_nil, or_false] at hg
    rcases hg with rfl | rfl
    · exact ⟨wfx _ (by decide) (by decide), by decide, by intro dc hdc; revert dc; decide,
        fun _ _ => Or.inl rfl⟩
    · exact ⟨wfx _ (by decide) (by decide), by decide, by intro dc hdc; revert dc; decide,
        fun _ _ => Or.inl rfl⟩
  · intro G hG
    have hb : buchberger F lexO groebnerFuel id.gens
        = some [h1, h2, [((1, 0), 1), ((0, 1), 2)]] := by decide +kernel
    rw [hb] at hG
    cases hG
    refine ⟨?_, ?_⟩
    · intro gb hp1 hp2
      have e := List.prefix_iff_eq_take.1 hp2
      have l1 := hp1.length_le
      have l2 := hp2.length_le
      simp only [id, List.length_cons, List.length_nil] at l1 l2
      apply roundSafe_of_test
      have : gb.length = 2 ∨ gb.length = 3 := by omega
      rcases this with h | h
      · rw [e, h]; decide +kernel
      · rw [e, h]; decide +kernel
    · have hm : minimized F lexO [h1, h2, [((1, 0), 1), ((0, 1), 2)]]
          = [h2, [((1, 0), 1), ((0, 1), 2)]] := by decide +kernel
      rw [hm]
      refine ⟨⟨trivial, by decide, by decide +kernel⟩, fun r hr => ?_⟩
      have hr' : remByOthers F lexO [h2, [((1, 0), 1), ((0, 1), 2)]] 0 = some h2 := by
        decide +kernel
      rw [hr'] at hr
      cases hr
      exact ⟨⟨trivial, by decide, by decide +kernel⟩, fun _ _ => trivial⟩

end NonVacuity

end C13
end Algobra
