/-
  Props/C17ExtraU.lean — `uireduce j:gens pK` (Model/Extra.lean `uireduceOp`, the public univariate
  `Ideal.Reduce`) connected to the mathematics of C06/C07: for well-formed inputs the operation succeeds and
  the value written is the remainder `f %ₘ g` modulo the monic generator `g` of the ideal spanned by the given
  generators. (The only file of the C17Extra group that uses Mathlib; everything about errors and frames is in
  the core-only Props/C17Extra.lean.)
-/
import Algobra.Props.C06
import Algobra.Props.C07
import Algobra.Props.C17Extra

namespace Algobra
namespace C17Extra

open Polynomial UPoly

variable {α : Type} {K : Type} [Field K]

/-- Guards: the coefficient record of the environment is lawful (`L`); the generators are well-formed and not
    all zero; the polynomial register is error-free, of the ideal's ring `j`, and well-formed.
    Then `NewIdeal` yields a well-formed monic `g` spanning the same ideal, the reply is `ok`, only register `k`
    changes, and its new value is the canonical representation of `f %ₘ g` (`= f % g`). -/
theorem uireduce_is_modByMonic (env : Env α) (L : Lawful (F0 env) K) (st : St α) (j k : Nat)
    (gens : List (UPoly α)) (hgens : ∀ x ∈ gens, WF L x) (hne : ∃ x ∈ gens, toPoly L x ≠ 0)
    (he : (uGet env st k).err.isErr = false) (hh : (uGet env st k).home = j)
    (hf : WF L (uGet env st k).val) :
    ∃ g v, newIdeal (F0 env) gens = some g ∧ WF L g ∧ (toPoly L g).Monic ∧
      Ideal.span {toPoly L g} = Ideal.span {P | ∃ x ∈ gens, toPoly L x = P} ∧
      uireduceOp env st j gens k =
        ({ st with us := St.setL st.us k { home := (uGet env st k).home, val := v, err := (uGet env st k).err } },
         "ok " ++ showU env { home := (uGet env st k).home, val := v, err := (uGet env st k).err }) ∧
      WF L v ∧ toPoly L v = toPoly L (uGet env st k).val %ₘ toPoly L g := by
  have hnil : gens ≠ [] := by
    obtain ⟨x, hx, _⟩ := hne
    exact List.ne_nil_of_mem hx
  obtain ⟨g, hg⟩ := C06.newIdeal_total L hgens hnil
  obtain ⟨hwg, hspan, _⟩ := C06.newIdeal_spec L hgens hg
  have hmon := C06.newIdeal_monic L hgens hg hne
  have hz : isZero (F0 env) g = false := (UPoly.isZero_eq_false_iff L hwg).2 hmon.ne_zero
  obtain ⟨v, hv, hwv, hpoly⟩ := C07.reduce_monic L hwg hmon hf
  exact ⟨g, v, hg, hwg, hmon, hspan, uireduce_ok env st j k gens g v hg hz he hh hv, hwv, hpoly⟩

/-- non-vacuity over the library's GF(5) record (`env5q`, store `sX`: p0 = 1+2X+X³+3X⁴, generators X²+1) -/
example := uireduce_is_modByMonic (K := ZMod 5) env5q C06.L5 sX 0 0 [[1, 0, 1]]
  (by intro x hx; simp only [List.mem_cons, List.not_mem_nil, or_false] at hx; subst hx
      exact C06.wf5 (by decide) (by unfold Canon; decide))
  ⟨[1, 0, 1], by simp, by
    intro h
    have := (UPoly.isZero_iff C06.L5 (C06.wf5 (f := [1, 0, 1]) (by decide) (by unfold Canon; decide))).2 h
    exact absurd this (by decide)⟩
  (by decide) (by decide) (C06.wf5 (by decide) (by unfold Canon; decide))

end C17Extra
end Algobra
