/-
  Props/C01Bin.lean — C01/C02, binary-field part: the machine-word arithmetic of package `binfield`
  (model: `Algobra.Bin.*`, `Algobra.binOps`) is arithmetic in `GF(2)[X]/(m)`.

  Setting: `1 ≤ n ≤ 32` (guard of `binfield.Define`: `extDeg ≤ UintSize/2`), the modulus is a bit mask
  `m` with `2^n ≤ m < 2^(n+1)` (monic of degree `n`), elements are masks `a < 2^n`;
  `toPoly2 : ℕ → (ZMod 2)[X]` sends a mask to the polynomial whose coefficient of `X^i` is bit `i`.
  Congruence modulo `m` is stated as divisibility `toPoly2 m ∣ _ - _`; the `Lawful` record uses the
  equivalent equality in `AdjoinRoot (toPoly2 m)` (`BinField.emb_eq_iff`).
  Every `w64` truncation of the model is discharged inside the proofs (no wrap-around for `n ≤ 32`,
  most lemmas only need `n ≤ 63`).
-/
import Algobra.Proofs.BinField

open Polynomial

namespace Algobra
namespace C01Bin
open BinField

/-! ### non-vacuity: GF(8) = GF(2)[X]/(X^3+X+1), mask 11 (the Conway polynomial for 2^3) -/

example : (1 ≤ 3) ∧ (3 ≤ 32) ∧ ((2 : Nat) ^ 3 ≤ 11 ∧ 11 < 2 ^ (3 + 1)) ∧ Irreducible (toPoly2 11) :=
  ⟨by decide, by decide, by decide, irreducible_toPoly2_eleven⟩

example : toPoly2 11 = X ^ 3 + X + 1 := toPoly2_eleven

/-! ### 1. the bridge -/

theorem bridge_injective : Function.Injective toPoly2 := toPoly2_injective

theorem bridge_eq_zero_iff (v : Nat) : toPoly2 v = 0 ↔ v = 0 := toPoly2_eq_zero_iff

theorem bridge_coeff (v i : Nat) : (toPoly2 v).coeff i = if v.testBit i then 1 else 0 :=
  coeff_toPoly2 v i

theorem bridge_degree_lt_bitLen (v : Nat) : (toPoly2 v).degree < bitLen v :=
  degree_toPoly2_lt_bitLen v

theorem bridge_natDegree (v : Nat) (h : v ≠ 0) : (toPoly2 v).natDegree + 1 = bitLen v :=
  natDegree_toPoly2 h

theorem bridge_lt_two_pow_iff (v k : Nat) : v < 2 ^ k ↔ (toPoly2 v).degree < k :=
  degree_toPoly2_lt_iff.symm

theorem bridge_one : toPoly2 1 = 1 := toPoly2_one

theorem bridge_two : toPoly2 2 = X := toPoly2_two

theorem bridge_xor (a b : Nat) : toPoly2 (a ^^^ b) = toPoly2 a + toPoly2 b := toPoly2_xor a b

theorem bridge_shl (a k : Nat) : toPoly2 (a <<< k) = X ^ k * toPoly2 a := toPoly2_shl a k

/-- a modulus mask is a polynomial of degree exactly `n` -/
theorem modulus_natDegree {n m : Nat} (hm : 2 ^ n ≤ m ∧ m < 2 ^ (n + 1)) :
    (toPoly2 m).natDegree = n := natDegree_modulus hm.1 hm.2

example : (toPoly2 11).natDegree = 3 := modulus_natDegree (n := 3) (by decide)

/-! ### 2. `reduce` -/

/-- `(*Element).reduce` on any 64-bit word returns the canonical representative of its class;
    the unreachable `else` branch of the model and the `w64` are discharged in `reduce_step`. -/
theorem reduce_spec {n m : Nat} (hm : 2 ^ n ≤ m ∧ m < 2 ^ (n + 1)) (v : Nat) (hv : v < 2 ^ 64) :
    Bin.reduce n m v < 2 ^ n ∧ toPoly2 m ∣ toPoly2 (Bin.reduce n m v) - toPoly2 v := by
  obtain ⟨h1, h2⟩ := BinField.reduce_spec hm.1 hm.2 v hv
  exact ⟨h1, emb_eq_iff.1 h2⟩

/-- `reduce` is the identity on reduced masks -/
theorem reduce_of_lt {n m v : Nat} (hv : v < 2 ^ n) : Bin.reduce n m v = v :=
  BinField.reduce_of_lt hv

example : Bin.reduce 3 11 255 < 2 ^ 3 ∧ toPoly2 11 ∣ toPoly2 (Bin.reduce 3 11 255) - toPoly2 255 :=
  reduce_spec (n := 3) (by decide) 255 (by decide)
example : Bin.reduce 3 11 255 = 1 := by decide +kernel

/-! ### 3. `Add`/`Sub` (xor) -/

theorem add_spec {n : Nat} {a b : Nat} (ha : a < 2 ^ n) (hb : b < 2 ^ n) :
    a ^^^ b < 2 ^ n ∧ toPoly2 (a ^^^ b) = toPoly2 a + toPoly2 b ∧
      toPoly2 (a ^^^ b) = toPoly2 a - toPoly2 b :=
  ⟨Nat.xor_lt_two_pow ha hb, toPoly2_xor a b, by rw [toPoly2_xor, poly_sub_eq_add]⟩

theorem binOps_add (n m a b : Nat) : (binOps n m).add a b = a ^^^ b := rfl
theorem binOps_sub (n m a b : Nat) : (binOps n m).sub a b = a ^^^ b := rfl
theorem binOps_neg (n m a : Nat) : (binOps n m).neg a = a := rfl

example : (5 ^^^ 6 : Nat) < 2 ^ 3 := (add_spec (n := 3) (a := 5) (b := 6) (by decide) (by decide)).1

/-! ### 4. `Prod`/`Mult` -/

/-- the shift-and-add product is the product modulo `m`; no `w64` in `mulLoop` truncates.
    (Only the second operand needs to be reduced.) -/
theorem mul_spec {n m : Nat} (hn32 : n ≤ 32) (hm : 2 ^ n ≤ m ∧ m < 2 ^ (n + 1))
    {a b : Nat} (hb : b < 2 ^ n) :
    Bin.mul n m a b < 2 ^ n ∧ toPoly2 m ∣ toPoly2 (Bin.mul n m a b) - toPoly2 a * toPoly2 b := by
  obtain ⟨h1, h2⟩ := BinField.mul_spec (by omega) hm.1 hm.2 (a := a) hb
  exact ⟨h1, emb_eq_mk_iff.1 (h2.trans (map_mul _ _ _).symm)⟩

example : Bin.mul 3 11 5 6 < 2 ^ 3 ∧ toPoly2 11 ∣ toPoly2 (Bin.mul 3 11 5 6) - toPoly2 5 * toPoly2 6 :=
  mul_spec (n := 3) (by decide) (by decide) (by decide)
example : Bin.mul 3 11 5 6 = 3 := by decide +kernel

/-! ### 5. canonical representatives: `Equal`, `IsZero`, `IsOne` -/

theorem canonical {n m : Nat} (hm : 2 ^ n ≤ m ∧ m < 2 ^ (n + 1)) {a b : Nat}
    (ha : a < 2 ^ n) (hb : b < 2 ^ n) : a = b ↔ toPoly2 m ∣ toPoly2 a - toPoly2 b := by
  rw [← emb_eq_iff, emb_eq_emb_iff hm.1 hm.2 ha hb]

theorem beq_iff {n m : Nat} (hm : 2 ^ n ≤ m ∧ m < 2 ^ (n + 1)) {a b : Nat}
    (ha : a < 2 ^ n) (hb : b < 2 ^ n) :
    (binOps n m).beq a b = true ↔ toPoly2 m ∣ toPoly2 a - toPoly2 b := by
  rw [← canonical hm ha hb]
  show ((a == b) = true) ↔ _
  simp

theorem isZero_iff {n m : Nat} (hm : 2 ^ n ≤ m ∧ m < 2 ^ (n + 1)) {a : Nat} (ha : a < 2 ^ n) :
    (binOps n m).isZero a = true ↔ toPoly2 m ∣ toPoly2 a := by
  have := canonical hm ha (Nat.two_pow_pos n)
  rw [toPoly2_zero, sub_zero] at this
  rw [← this]
  show ((a == 0) = true) ↔ _
  simp

theorem isOne_iff {n m : Nat} (hn : 1 ≤ n) (hm : 2 ^ n ≤ m ∧ m < 2 ^ (n + 1)) {a : Nat}
    (ha : a < 2 ^ n) : (binOps n m).isOne a = true ↔ toPoly2 m ∣ toPoly2 a - 1 := by
  have := canonical hm ha (Nat.one_lt_two_pow (by omega))
  rw [toPoly2_one] at this
  rw [← this]
  show ((a == 1) = true) ↔ _
  simp

example : (5 : Nat) = 5 ↔ toPoly2 11 ∣ toPoly2 5 - toPoly2 5 :=
  canonical (n := 3) (by decide) (by decide) (by decide)

/-! ### 6. `Pow` -/

/-- generic square-and-multiply (`powLoop`) in any monoid -/
theorem powLoop_spec {α M : Type*} [Monoid M] (mul : α → α → α) (e : α → M) (P : α → Prop)
    (hmul : ∀ x y, P x → P y → P (mul x y) ∧ e (mul x y) = e x * e y) (k : Nat) (out b : α)
    (hout : P out) (hb : P b) :
    P (powLoop mul out b k) ∧ e (powLoop mul out b k) = e out * e b ^ k :=
  BinField.powLoop_spec mul e P hmul k out b hout hb

/-- `Pow`, including the zero cases and the exponent shortcut `k ≥ 2^n ↦ k mod (2^n - 1)`
    (which uses `x^(2^n-1) = 1` in the field with `2^n` elements). Holds for every `k`,
    in particular for every `uint` exponent `k < 2^64`. -/
theorem pow_spec {n m : Nat} (hn : 1 ≤ n) (hn32 : n ≤ 32) (hm : 2 ^ n ≤ m ∧ m < 2 ^ (n + 1))
    (hirr : Irreducible (toPoly2 m)) {a : Nat} (ha : a < 2 ^ n) (k : Nat) :
    Bin.pow n m a k < 2 ^ n ∧ toPoly2 m ∣ toPoly2 (Bin.pow n m a k) - toPoly2 a ^ k := by
  have : Fact (Irreducible (toPoly2 m)) := ⟨hirr⟩
  obtain ⟨h1, h2⟩ := BinField.pow_spec hn (by omega) hm.1 hm.2 ha k
  exact ⟨h1, emb_eq_mk_iff.1 (h2.trans (map_pow _ _ _).symm)⟩

example : Bin.pow 3 11 2 1000 < 2 ^ 3 ∧ toPoly2 11 ∣ toPoly2 (Bin.pow 3 11 2 1000) - toPoly2 2 ^ 1000 :=
  pow_spec (n := 3) (by decide) (by decide) (by decide) irreducible_toPoly2_eleven (by decide) 1000
example : Bin.pow 3 11 2 7 = 1 := by decide +kernel
example : Bin.pow 3 11 2 3 = 3 := by decide +kernel

/-! ### 7. `bitProd`, `bitQuoRem` -/

theorem bitProd_spec {a b : Nat} (ha : a < 2 ^ 32) (hb : b < 2 ^ 32) :
    toPoly2 (Bin.bitProd a b) = toPoly2 a * toPoly2 b := BinField.bitProd_spec ha hb

/-- general form: the product fits in a word -/
theorem bitProd_spec_bitLen {a b : Nat} (h : bitLen a + bitLen b ≤ 65) :
    toPoly2 (Bin.bitProd a b) = toPoly2 a * toPoly2 b := BinField.bitProd_spec_bitLen h

/-- polynomial division with remainder on words (`b ≠ 0`; for `b = 0` the Go loop does not
    terminate, the model stops) -/
theorem bitQuoRem_spec {a b : Nat} (hb : b ≠ 0) (ha : a < 2 ^ 64) :
    toPoly2 a = toPoly2 (Bin.bitQuoRem a b).1 * toPoly2 b + toPoly2 (Bin.bitQuoRem a b).2 ∧
      bitLen (Bin.bitQuoRem a b).2 < bitLen b := BinField.bitQuoRem_spec hb ha

example : toPoly2 (Bin.bitProd 5 6) = toPoly2 5 * toPoly2 6 := bitProd_spec (by decide) (by decide)
example : Bin.bitProd 5 6 = 30 := by decide +kernel
example : toPoly2 31 = toPoly2 (Bin.bitQuoRem 31 5).1 * toPoly2 5 + toPoly2 (Bin.bitQuoRem 31 5).2 ∧
    bitLen (Bin.bitQuoRem 31 5).2 < bitLen 5 := bitQuoRem_spec (by decide) (by decide)
example : Bin.bitQuoRem 31 5 = (6, 1) := by decide +kernel

/-! ### 8. `Inv` -/

/-- extended Euclid on bit masks returns the inverse of every nonzero element -/
theorem inv_spec {n m : Nat} (hn : 1 ≤ n) (hn32 : n ≤ 32) (hm : 2 ^ n ≤ m ∧ m < 2 ^ (n + 1))
    (hirr : Irreducible (toPoly2 m)) {a : Nat} (ha0 : a ≠ 0) (ha : a < 2 ^ n) :
    ∃ i, Bin.inv n m a = some i ∧ i < 2 ^ n ∧ toPoly2 m ∣ toPoly2 i * toPoly2 a - 1 := by
  obtain ⟨i, h1, h2, h3⟩ := BinField.inv_spec hn (by omega) hm.1 hm.2 hirr ha0 ha
  refine ⟨i, h1, h2, ?_⟩
  exact AdjoinRoot.mk_eq_mk.1 ((map_mul _ _ _).trans (h3.trans (map_one _).symm))

theorem inv_zero (n m : Nat) : Bin.inv n m 0 = none := BinField.inv_zero n m

example : ∃ i, Bin.inv 3 11 5 = some i ∧ i < 2 ^ 3 ∧ toPoly2 11 ∣ toPoly2 i * toPoly2 5 - 1 :=
  inv_spec (n := 3) (by decide) (by decide) (by decide) irreducible_toPoly2_eleven (by decide)
    (by decide)
example : Bin.inv 3 11 5 = some 2 := by decide +kernel

/-! ### 9. lawfulness of the record `binOps` -/

/-- `binOps n m` implements the field `GF(2)[X]/(m)`; `embed a` is the class of `toPoly2 a`,
    `valid a` is `a < 2^n`. -/
noncomputable def binLawful {n m : Nat} (hn : 1 ≤ n) (hn32 : n ≤ 32)
    (hm : 2 ^ n ≤ m ∧ m < 2 ^ (n + 1)) [Fact (Irreducible (toPoly2 m))] (varName : String := "a") :
    Lawful (binOps n m varName) (AdjoinRoot (toPoly2 m)) :=
  BinField.binLawful hn (by omega) hm.1 hm.2 varName

theorem binLawful_embed {n m : Nat} (hn : 1 ≤ n) (hn32 : n ≤ 32)
    (hm : 2 ^ n ≤ m ∧ m < 2 ^ (n + 1)) [Fact (Irreducible (toPoly2 m))] (a : Nat) :
    (binLawful hn hn32 hm).embed a = AdjoinRoot.mk (toPoly2 m) (toPoly2 a) := rfl

theorem binLawful_valid {n m : Nat} (hn : 1 ≤ n) (hn32 : n ≤ 32)
    (hm : 2 ^ n ≤ m ∧ m < 2 ^ (n + 1)) [Fact (Irreducible (toPoly2 m))] (a : Nat) :
    (binLawful hn hn32 hm).valid a ↔ a < 2 ^ n := Iff.rfl

section
local instance factEleven : Fact (Irreducible (toPoly2 11)) := ⟨irreducible_toPoly2_eleven⟩
noncomputable example : Lawful (binOps 3 11) (AdjoinRoot (toPoly2 11)) :=
  binLawful (n := 3) (by decide) (by decide) (by decide)
end

/-- `pow` of the record agrees with the power in the field -/
theorem binLawful_pow {n m : Nat} (hn : 1 ≤ n) (hn32 : n ≤ 32)
    (hm : 2 ^ n ≤ m ∧ m < 2 ^ (n + 1)) [Fact (Irreducible (toPoly2 m))] {a : Nat}
    (ha : a < 2 ^ n) (k : Nat) :
    (binLawful hn hn32 hm).valid ((binOps n m).pow a k) ∧
      (binLawful hn hn32 hm).embed ((binOps n m).pow a k) = (binLawful hn hn32 hm).embed a ^ k :=
  BinField.pow_spec hn (by omega) hm.1 hm.2 ha k

/-! ### extras: `Trace`, the generator, `polyFromCoefs`, `Card` -/

/-- `Trace` is the field trace `GF(2^n) → GF(2)`, i.e. `∑_{i<n} a^(2^i)` -/
theorem trace_spec {n m : Nat} (hn : 1 ≤ n) (hn32 : n ≤ 32) (hm : 2 ^ n ≤ m ∧ m < 2 ^ (n + 1))
    [Fact (Irreducible (toPoly2 m))] {a : Nat} (ha : a < 2 ^ n) :
    Bin.trace n m a < 2 ^ n ∧
      emb m (Bin.trace n m a) = ∑ i ∈ Finset.range n, emb m a ^ 2 ^ i ∧
      emb m (Bin.trace n m a)
        = algebraMap (ZMod 2) (AdjoinRoot (toPoly2 m))
            (Algebra.trace (ZMod 2) (AdjoinRoot (toPoly2 m)) (emb m a)) :=
  ⟨(BinField.trace_spec hn (by omega) hm.1 hm.2 ha).1,
    (BinField.trace_spec hn (by omega) hm.1 hm.2 ha).2,
    trace_eq_algebra_trace hn (by omega) hm.1 hm.2 ha⟩

example : Bin.trace 3 11 4 = 0 := by decide +kernel
section
local instance : Fact (Irreducible (toPoly2 11)) := ⟨irreducible_toPoly2_eleven⟩
example : Bin.trace 3 11 4 < 2 ^ 3 :=
  (trace_spec (n := 3) (m := 11) (by decide) (by decide) (by decide) (a := 4) (by decide)).1
example : (binLawful (n := 3) (m := 11) (by decide) (by decide) (by decide)).valid
    ((binOps 3 11).pow 5 100) :=
  (binLawful_pow (n := 3) (m := 11) (by decide) (by decide) (by decide) (a := 5) (by decide) 100).1
end

/-- `binOps.gen` is the class of `X` -/
theorem gen_spec {n m : Nat} (hm : 2 ^ n ≤ m ∧ m < 2 ^ (n + 1)) :
    (binOps n m).gen < 2 ^ n ∧ toPoly2 m ∣ toPoly2 (binOps n m).gen - X := by
  obtain ⟨h1, h2⟩ := BinField.gen_spec hm.1 hm.2
  refine ⟨h1, ?_⟩
  rw [← AdjoinRoot.mk_X] at h2
  exact emb_eq_mk_iff.1 h2

example : (binOps 3 11).gen < 2 ^ 3 ∧ toPoly2 11 ∣ toPoly2 (binOps 3 11).gen - X :=
  gen_spec (n := 3) (by decide)
example : (binOps 3 11).gen = 2 := by decide +kernel

theorem card_spec {n : Nat} (m : Nat) (hn32 : n ≤ 32) : (binOps n m).card = 2 ^ n :=
  card_eq (by omega)

/-- `conwayPoly += c << i`: bit `i` of the mask is the `i`-th Conway coefficient, and a monic
    list of `n+1` bits gives a valid modulus mask -/
theorem polyFromCoefs_spec {n : Nat} (cs : List Nat) (h : ∀ c ∈ cs, c < 2)
    (hlen : cs.length = n + 1) (hn32 : n ≤ 32) (hlead : cs.getD n 0 = 1) :
    (2 ^ n ≤ Bin.polyFromCoefs cs ∧ Bin.polyFromCoefs cs < 2 ^ (n + 1)) ∧
      ∀ i, (toPoly2 (Bin.polyFromCoefs cs)).coeff i = ((cs.getD i 0 : Nat) : ZMod 2) :=
  ⟨polyFromCoefs_bounds cs h hlen (by omega) hlead,
    coeff_polyFromCoefs cs h (by omega)⟩

example : Bin.polyFromCoefs [1, 1, 0, 1] = 11 := by decide +kernel
example : (2 ^ 3 ≤ Bin.polyFromCoefs [1, 1, 0, 1] ∧ Bin.polyFromCoefs [1, 1, 0, 1] < 2 ^ (3 + 1)) ∧
    ∀ i, (toPoly2 (Bin.polyFromCoefs [1, 1, 0, 1])).coeff i
      = ((([1, 1, 0, 1] : List Nat).getD i 0 : Nat) : ZMod 2) :=
  polyFromCoefs_spec (n := 3) [1, 1, 0, 1] (by decide) rfl (by decide) rfl

end C01Bin
end Algobra
