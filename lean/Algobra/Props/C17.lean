/-
  Props/C17.lean — errors stay attached to the objects that carry them (stickiness), model side.
-/
import Algobra.Proofs.Step
namespace Algobra.C17
open Algobra
variable {α : Type} (env : Env α) (desc : FieldDesc)

/-- `errors.Wrap(op, Inherit, e)` keeps the kind -/
theorem wrapInherit_kind (k : Kind) : (Err.kind k).wrapInherit = Err.kind k := rfl

/-- … and more generally is the identity on every error status, and always yields an error -/
theorem wrapInherit_of_isErr {e : Err} (h : e.isErr = true) : e.wrapInherit = e := Err.wrapInherit_of_isErr h
theorem wrapInherit_isErr (e : Err) : e.wrapInherit.isErr = true := Err.wrapInherit_isErr e

/-! ### C17-1 : elements -/

/-- `c := a.Plus(b)`, `a.Minus(b)`, `a.Times(b)`: the object stored in `dst` carries the error status of the
    first erroneous operand in checking order (receiver, then argument). Guard: the argument is not of a
    foreign implementation type (for `times = Copy().Prod(copy, b)` neither operand is). -/
theorem sticky_eBin (s : St α) (dst : Nat) (op : String) (a b : Nat)
    (hfa : (op == "times") = true → (eGet env s a).foreign = false)
    (hfb : (eGet env s b).foreign = false)
    (h : (eGet env s a).err.isErr = true ∨ (eGet env s b).err.isErr = true) :
    ∃ r : EReg α,
      step env desc s (.eBin dst op a b) = ({ s with es := St.setL s.es dst r }, "ok " ++ showE env r) ∧
      r.err = firstErr [(eGet env s a).err, (eGet env s b).err] ∧ r.err.isErr = true := by
  refine ⟨_, step_eBin env desc s dst op a b, ?_⟩
  unfold eBinRes
  by_cases hop : (op == "times") = true
  · simp only [hop, if_true]
    by_cases ha : (eGet env s a).err.isErr = true
    · rw [eProdFn_bErr env _ _ _ _ _ (hfa hop) hfb ha]
      simp [firstErr, ha]
    · have hb := h.resolve_left ha
      rw [eProdFn_cErr env _ _ _ _ _ (hfa hop) hfb (by simpa using ha) hb]
      simp [firstErr, ha, hb]
  · simp only [hop, Bool.false_eq_true, if_false]
    by_cases ha : (eGet env s a).err.isErr = true
    · rw [eInPlace_recvErr env _ _ _ hfb ha]
      simp [firstErr, ha]
    · have hb := h.resolve_left ha
      rw [eInPlace_argErr env _ _ _ hfb (by simpa using ha) hb]
      simp [firstErr, ha, hb]

/-- `Neg`, `Inv`, `Copy`, `Trace` (value-returning): the result carries the operand's error status unchanged.
    No guard. -/
theorem sticky_eUn (s : St α) (dst : Nat) (op : String) (a : Nat)
    (h : (eGet env s a).err.isErr = true) :
    ∃ r : EReg α,
      step env desc s (.eUn dst op a) = ({ s with es := St.setL s.es dst r }, "ok " ++ showE env r) ∧
      r.err = (eGet env s a).err ∧ r.err.isErr = true := by
  refine ⟨_, step_eUn env desc s dst op a, ?_⟩
  have : (eUnRes env s op a).err = (eGet env s a).err := by
    simp only [eUnRes, h, if_true]
    split
    · rfl
    · split
      · rfl
      · split <;> rfl
  exact ⟨this, this ▸ h⟩

/-- `Pow`: same. -/
theorem sticky_ePow (s : St α) (dst a n : Nat) (h : (eGet env s a).err.isErr = true) :
    ∃ r : EReg α,
      step env desc s (.ePow dst a n) = ({ s with es := St.setL s.es dst r }, "ok " ++ showE env r) ∧
      r = eGet env s a ∧ r.err.isErr = true := by
  refine ⟨_, step_ePow env desc s dst a n, ?_⟩
  have : ePowRes env s a n = eGet env s a := by simp only [ePowRes, h, if_true]
  exact ⟨this, this ▸ h⟩

/-- In-place `a.Add(b)`, `a.Sub(b)`, `a.Mult(b)`: the returned object carries the error status of the first
    erroneous operand (receiver, then argument). If that is the receiver, the receiver itself is returned
    (`recv`); if it is the argument, *another* object is returned (`other`) and the receiver register keeps
    its old content — except for `mult a a`, where the argument is the receiver. -/
theorem sticky_eIn (s : St α) (op : String) (a b : Nat)
    (hfa : (op == "mult") = true → (eGet env s a).foreign = false)
    (hfb : (eGet env s b).foreign = false)
    (h : (eGet env s a).err.isErr = true ∨ (eGet env s b).err.isErr = true) :
    ∃ (ra' r : EReg α) (isRecv : Bool),
      step env desc s (.eIn op a b) = ({ s with es := St.setL s.es a ra' }, ret isRecv (showE env r)) ∧
      r.err = firstErr [(eGet env s a).err, (eGet env s b).err] ∧ r.err.isErr = true ∧
      (if isRecv then ra' = r else ra' = eGet env s a) ∧
      ((eGet env s a).err.isErr = true → isRecv = true ∧ r = eGet env s a) := by
  refine ⟨_, _, _, step_eIn env desc s op a b, ?_⟩
  unfold eInRes
  by_cases hop : (op == "mult") = true
  · simp only [hop, if_true]
    by_cases ha : (eGet env s a).err.isErr = true
    · rw [eProdFn_bErr env _ _ _ _ _ (hfa hop) hfb ha]
      simp [firstErr, ha]
    · have hb := h.resolve_left ha
      rw [eProdFn_cErr env _ _ _ _ _ (hfa hop) hfb (by simpa using ha) hb]
      cases hab : (a == b) <;> simp [firstErr, ha, hb]
  · simp only [hop, Bool.false_eq_true, if_false]
    by_cases ha : (eGet env s a).err.isErr = true
    · rw [eInPlace_recvErr env _ _ _ hfb ha]
      simp [firstErr, ha]
    · have hb := h.resolve_left ha
      rw [eInPlace_argErr env _ _ _ hfb (by simpa using ha) hb]
      simp [firstErr, ha, hb]

/-- `a.Prod(b, c)`: the operands are checked in the order `b`, `c`; the receiver's own error status is
    NOT consulted. The returned object is the first erroneous operand; the receiver register is left alone
    unless that operand is the receiver itself. -/
theorem sticky_eProd (s : St α) (a b c : Nat)
    (hfb : (eGet env s b).foreign = false) (hfc : (eGet env s c).foreign = false)
    (h : (eGet env s b).err.isErr = true ∨ (eGet env s c).err.isErr = true) :
    ∃ (ra' r : EReg α) (isRecv : Bool),
      step env desc s (.eProd a b c) = ({ s with es := St.setL s.es a ra' }, ret isRecv (showE env r)) ∧
      r.err = firstErr [(eGet env s b).err, (eGet env s c).err] ∧ r.err.isErr = true ∧
      (if isRecv then ra' = r else ra' = eGet env s a) := by
  refine ⟨_, _, _, step_eProd env desc s a b c, ?_⟩
  unfold eProdRes
  by_cases hb : (eGet env s b).err.isErr = true
  · rw [eProdFn_bErr env _ _ _ _ _ hfb hfc hb]
    cases (a == b) <;> simp [firstErr, hb]
  · have hc := h.resolve_left hb
    rw [eProdFn_cErr env _ _ _ _ _ hfb hfc (by simpa using hb) hc]
    cases (a == c) <;> simp [firstErr, hb, hc]

/-- The receiver's error is not consulted by `Prod`, but it is not cleared either: an erroneous receiver
    stays erroneous whatever the operands are. -/
theorem eProd_receiver_stays_erroneous (s : St α) (a b c : Nat) (h : (eGet env s a).err.isErr = true) :
    (eGet env (step env desc s (.eProd a b c)).1 a).err.isErr = true := by
  rw [step_eProd]
  simp only [eGet, St.getL_setL_same, Option.getD_some]
  rcases eProdFn_recv_err env (eGet env s a) (eGet env s b) (eGet env s c) (a == b) (a == c) h with h' | ⟨h', hab⟩ | ⟨h', hac⟩
  · exact h'
  · unfold eProdRes; rw [h']
    have : a = b := by simpa using hab
    exact this ▸ h
  · unfold eProdRes; rw [h']
    have : a = c := by simpa using hac
    exact this ▸ h

/-- `firstErr` picks the error status of one of the erroneous entries -/
theorem firstErr_is_operand_error (l : List Err) (h : ∃ e ∈ l, e.isErr = true) :
    (firstErr l).isErr = true ∧ ∃ e ∈ l, e.isErr = true ∧ firstErr l = e :=
  let ⟨hm, he⟩ := firstErr_mem h
  ⟨he, _, hm, he, rfl⟩

/-! ### C17-2 : univariate polynomials -/

/-- `Plus`, `Minus`, `Times`: the polynomial stored in `dst` IS the first erroneous operand
    (receiver, then argument) — in particular it carries that operand's error status. No guard. -/
theorem sticky_uBin (s : St α) (dst : Nat) (op : String) (a b : Nat)
    (h : (uGet env s a).err.isErr = true ∨ (uGet env s b).err.isErr = true) :
    ∃ r : UReg α,
      step env desc s (.uBin dst op a b) = ({ s with us := St.setL s.us dst r }, "ok " ++ showU env r) ∧
      r = (if (uGet env s a).err.isErr then uGet env s a else uGet env s b) ∧
      r.err = firstErr [(uGet env s a).err, (uGet env s b).err] ∧ r.err.isErr = true := by
  refine ⟨_, step_uBin env desc s dst op a b, ?_⟩
  unfold uBinRes
  by_cases ha : (uGet env s a).err.isErr = true
  · by_cases hop : (op == "times") = true
    · simp [hop, uTimes_recvErr env _ _ ha, firstErr, ha]
    · simp [hop, uInPlace_recvErr env _ _ _ ha, firstErr, ha]
  · have hb := h.resolve_left ha
    have ha' : (uGet env s a).err.isErr = false := by simpa using ha
    by_cases hop : (op == "times") = true
    · simp [hop, uTimes_argErr env _ _ ha' hb, firstErr, ha', hb]
    · simp [hop, uInPlace_argErr env _ _ _ ha' hb, firstErr, ha', hb]

/-- `Neg`, `Normalize`, `Copy` keep the operand's error status. The guard excludes `lt`
    (every other operation name behaves as `lt` in the model). -/
theorem sticky_uUn (s : St α) (dst : Nat) (op : String) (a : Nat)
    (hop : op = "copy" ∨ op = "neg" ∨ op = "normalize") :
    ∃ r : UReg α,
      step env desc s (.uUn dst op a) = ({ s with us := St.setL s.us dst r }, "ok " ++ showU env r) ∧
      r.err = (uGet env s a).err := by
  refine ⟨_, step_uUn env desc s dst op a, ?_⟩
  rcases hop with rfl | rfl | rfl <;> simp [uUnRes]

/-- EXCEPTION (visible on purpose): `Lt()` returns a fresh, error-free term even when the polynomial
    carries an error. -/
theorem lt_drops_error (s : St α) (dst a : Nat) :
    ∃ r : UReg α,
      step env desc s (.uUn dst "lt" a) = ({ s with us := St.setL s.us dst r }, "ok " ++ showU env r) ∧
      r.err = Err.none := by
  refine ⟨_, step_uUn env desc s dst "lt" a, ?_⟩
  simp [uUnRes]

/-- `Scale(c)`: the polynomial's error status is kept … -/
theorem sticky_uScale (s : St α) (dst a e : Nat) :
    ∃ r : UReg α,
      step env desc s (.uScale dst a e) = ({ s with us := St.setL s.us dst r }, "ok " ++ showU env r) ∧
      r.err = (uGet env s a).err :=
  ⟨_, step_uScale env desc s dst a e, uScaleRes_err env s a e⟩

/-- `Pow`: the result is the erroneous polynomial itself. -/
theorem sticky_uPow (s : St α) (dst a n : Nat) (h : (uGet env s a).err.isErr = true) :
    ∃ r : UReg α,
      step env desc s (.uPow dst a n) = ({ s with us := St.setL s.us dst r }, "ok " ++ showU env r) ∧
      r = uGet env s a := by
  refine ⟨_, step_uPow env desc s dst a n, ?_⟩
  simp only [uPowRes, h, if_true, UReg.with_err_self _ h]

/-- In-place `Add`, `Sub`, `Mult`: the returned polynomial IS the first erroneous operand.
    For `add`/`sub` an erroneous *argument* is returned as another object and the receiver register is left
    alone; for `mult` (`*f = *f.multNoReduce(g)`) the receiver register is overwritten by it. -/
theorem sticky_uIn (s : St α) (op : String) (a b : Nat)
    (h : (uGet env s a).err.isErr = true ∨ (uGet env s b).err.isErr = true) :
    ∃ (ra' r : UReg α) (isRecv : Bool),
      step env desc s (.uIn op a b) = ({ s with us := St.setL s.us a ra' }, ret isRecv (showU env r)) ∧
      r = (if (uGet env s a).err.isErr then uGet env s a else uGet env s b) ∧
      r.err = firstErr [(uGet env s a).err, (uGet env s b).err] ∧ r.err.isErr = true ∧
      (if isRecv then ra' = r else ra' = uGet env s a) ∧
      (isRecv = ((op == "mult") || (uGet env s a).err.isErr)) := by
  refine ⟨_, _, _, step_uIn env desc s op a b, ?_⟩
  unfold uInRes
  by_cases ha : (uGet env s a).err.isErr = true
  · by_cases hop : (op == "mult") = true
    · simp [hop, uTimes_recvErr env _ _ ha, firstErr, ha]
    · simp [hop, uInPlace_recvErr env _ _ _ ha, firstErr, ha]
  · have hb := h.resolve_left ha
    have ha' : (uGet env s a).err.isErr = false := by simpa using ha
    by_cases hop : (op == "mult") = true
    · simp [hop, uTimes_argErr env _ _ ha' hb, firstErr, ha', hb]
    · simp [hop, uInPlace_argErr env _ _ _ ha' hb, firstErr, ha', hb]

/-- `SetNeg`, `SetScale`, `SetCoef`/`IncCoef`/`DecCoef`, `SetZero` keep the receiver's error status. -/
theorem sticky_uSet (s : St α) (op : Op)
    (hop : (∃ a, op = .uSetNeg a) ∨ (∃ a e, op = .uSetScale a e) ∨ (∃ o a d e, op = .uSetCoef o a d e) ∨
           (∃ a, op = .uSetZero a)) :
    ∃ (a : Nat) (r : UReg α), op.writesU = [a] ∧
      step env desc s op = ({ s with us := St.setL s.us a r }, "recv " ++ showU env r) ∧
      r.err = (uGet env s a).err := by
  rcases hop with ⟨a, rfl⟩ | ⟨a, e, rfl⟩ | ⟨o, a, d, e, rfl⟩ | ⟨a, rfl⟩
  · exact ⟨a, _, rfl, step_uSetNeg env desc s a, rfl⟩
  · exact ⟨a, _, rfl, step_uSetScale env desc s a e, uScaleRes_err env s a e⟩
  · exact ⟨a, _, rfl, step_uSetCoef env desc s o a d e, rfl⟩
  · exact ⟨a, _, rfl, step_uSetZero env desc s a, rfl⟩

/-! ### C17-2 : bivariate polynomials -/

theorem sticky_bBin (s : St α) (dst : Nat) (op : String) (a b : Nat)
    (h : (bGet s a).err.isErr = true ∨ (bGet s b).err.isErr = true) :
    ∃ r : BReg α,
      step env desc s (.bBin dst op a b) = ({ s with bs := St.setL s.bs dst r }, "ok " ++ showB env r) ∧
      r = (if (bGet s a).err.isErr then bGet s a else bGet s b) ∧
      r.err = firstErr [(bGet s a).err, (bGet s b).err] ∧ r.err.isErr = true := by
  refine ⟨_, step_bBin env desc s dst op a b, ?_⟩
  unfold bBinRes
  by_cases ha : (bGet s a).err.isErr = true
  · by_cases hop : (op == "times") = true
    · simp [hop, bTimes_recvErr env _ _ ha, firstErr, ha]
    · simp [hop, bInPlace_recvErr env _ _ _ ha, firstErr, ha]
  · have hb := h.resolve_left ha
    have ha' : (bGet s a).err.isErr = false := by simpa using ha
    by_cases hop : (op == "times") = true
    · simp [hop, bTimes_argErr env _ _ ha' hb, firstErr, ha', hb]
    · simp [hop, bInPlace_argErr env _ _ _ ha' hb, firstErr, ha', hb]

/-- bivariate `Neg`, `Normalize`, `Copy` keep the error status (the model's `neg` does so since the
    "bUn neg keeps the error" revision). -/
theorem sticky_bUn (s : St α) (dst : Nat) (op : String) (a : Nat)
    (hop : op = "copy" ∨ op = "neg" ∨ op = "normalize") :
    ∃ r : BReg α,
      step env desc s (.bUn dst op a) = ({ s with bs := St.setL s.bs dst r }, "ok " ++ showB env r) ∧
      r.err = (bGet s a).err := by
  refine ⟨_, step_bUn env desc s dst op a, ?_⟩
  rcases hop with rfl | rfl | rfl <;> simp [bUnRes]

/-- EXCEPTION: bivariate `Lt()` returns a fresh error-free term. -/
theorem lt_drops_error_b (s : St α) (dst a : Nat) :
    ∃ r : BReg α,
      step env desc s (.bUn dst "lt" a) = ({ s with bs := St.setL s.bs dst r }, "ok " ++ showB env r) ∧
      r.err = Err.none := by
  refine ⟨_, step_bUn env desc s dst "lt" a, ?_⟩
  simp [bUnRes]

theorem sticky_bScale (s : St α) (dst a e : Nat) :
    ∃ r : BReg α,
      step env desc s (.bScale dst a e) = ({ s with bs := St.setL s.bs dst r }, "ok " ++ showB env r) ∧
      r.err = (bGet s a).err :=
  ⟨_, step_bScale env desc s dst a e, bScaleRes_err env s a e⟩

theorem sticky_bPow (s : St α) (dst a n : Nat) (h : (bGet s a).err.isErr = true) :
    ∃ r : BReg α,
      step env desc s (.bPow dst a n) = ({ s with bs := St.setL s.bs dst r }, "ok " ++ showB env r) ∧
      r = bGet s a := by
  refine ⟨_, step_bPow env desc s dst a n, ?_⟩
  simp only [bPowRes, h, if_true, BReg.with_err_self _ h]

theorem sticky_bIn (s : St α) (op : String) (a b : Nat)
    (h : (bGet s a).err.isErr = true ∨ (bGet s b).err.isErr = true) :
    ∃ (ra' r : BReg α) (isRecv : Bool),
      step env desc s (.bIn op a b) = ({ s with bs := St.setL s.bs a ra' }, ret isRecv (showB env r)) ∧
      r = (if (bGet s a).err.isErr then bGet s a else bGet s b) ∧
      r.err = firstErr [(bGet s a).err, (bGet s b).err] ∧ r.err.isErr = true ∧
      (if isRecv then ra' = r else ra' = bGet s a) ∧
      (isRecv = ((op == "mult") || (bGet s a).err.isErr)) := by
  refine ⟨_, _, _, step_bIn env desc s op a b, ?_⟩
  unfold bInRes
  by_cases ha : (bGet s a).err.isErr = true
  · by_cases hop : (op == "mult") = true
    · simp [hop, bTimes_recvErr env _ _ ha, firstErr, ha]
    · simp [hop, bInPlace_recvErr env _ _ _ ha, firstErr, ha]
  · have hb := h.resolve_left ha
    have ha' : (bGet s a).err.isErr = false := by simpa using ha
    by_cases hop : (op == "mult") = true
    · simp [hop, bTimes_argErr env _ _ ha' hb, firstErr, ha', hb]
    · simp [hop, bInPlace_argErr env _ _ _ ha' hb, firstErr, ha', hb]

theorem sticky_bSet (s : St α) (op : Op)
    (hop : (∃ a e, op = .bSetScale a e) ∨ (∃ o a d e, op = .bSetCoef o a d e)) :
    ∃ (a : Nat) (r : BReg α), op.writesB = [a] ∧
      step env desc s op = ({ s with bs := St.setL s.bs a r }, "recv " ++ showB env r) ∧
      r.err = (bGet s a).err := by
  rcases hop with ⟨a, e, rfl⟩ | ⟨o, a, d, e, rfl⟩
  · exact ⟨a, _, rfl, step_bSetScale env desc s a e, bSetScaleRes_err env s a e⟩
  · exact ⟨a, _, rfl, step_bSetCoef env desc s o a d e, rfl⟩

/-! ### C17-3 : taint along histories -/

/-- two-element version of `firstErr_mem` -/
private theorem firstErr_pair {e1 e2 : Err} (h : e1.isErr = true ∨ e2.isErr = true) :
    (e1.isErr = true ∧ firstErr [e1, e2] = e1) ∨ (e2.isErr = true ∧ firstErr [e1, e2] = e2) := by
  by_cases h1 : e1.isErr = true
  · exact .inl ⟨h1, by simp [firstErr, h1]⟩
  · have h2 := h.resolve_left h1
    exact .inr ⟨h2, by simp [firstErr, h1, h2]⟩

/-- Every covered value-returning element operation (`eBin`, `eUn`, `ePow` under the guard
    `Op.propagatesE`: an erroneous, non-foreign operand) stores in its destination an erroneous object
    whose error status is that of one of the operands it consulted. -/
theorem taint_step_E (s : St α) (op : Op) (h : op.propagatesE env s) :
    ∃ r, St.getL (step env desc s op).1.es op.dst = some r ∧ r.err.isErr = true ∧
      ∃ k' ∈ op.readsE, (eGet env s k').err.isErr = true ∧ r.err = (eGet env s k').err := by
  cases op <;> try (exact h.elim)
  case eBin dst op a b =>
    obtain ⟨hfa, hfb, herr⟩ := h
    obtain ⟨r, hs, he, hi⟩ := sticky_eBin env desc s dst op a b hfa hfb herr
    refine ⟨r, by rw [hs]; exact St.getL_setL_same _ _ _, hi, ?_⟩
    rcases firstErr_pair herr with ⟨h1, h2⟩ | ⟨h1, h2⟩
    · exact ⟨a, by simp [Op.readsE], h1, he.trans h2⟩
    · exact ⟨b, by simp [Op.readsE], h1, he.trans h2⟩
  case eUn dst op a =>
    obtain ⟨r, hs, he, hi⟩ := sticky_eUn env desc s dst op a h
    exact ⟨r, by rw [hs]; exact St.getL_setL_same _ _ _, hi, a, by simp [Op.readsE], h, he⟩
  case ePow dst a n =>
    obtain ⟨r, hs, he, hi⟩ := sticky_ePow env desc s dst a n h
    exact ⟨r, by rw [hs]; exact St.getL_setL_same _ _ _, hi, a, by simp [Op.readsE], h, by rw [he]⟩

theorem taint_step_U (s : St α) (op : Op) (h : op.propagatesU env s) :
    ∃ r, St.getL (step env desc s op).1.us op.dst = some r ∧ r.err.isErr = true ∧
      ∃ k' ∈ op.readsU, (uGet env s k').err.isErr = true ∧ r.err = (uGet env s k').err := by
  cases op <;> try (exact h.elim)
  case uBin dst op a b =>
    obtain ⟨r, hs, _, he, hi⟩ := sticky_uBin env desc s dst op a b h
    refine ⟨r, by rw [hs]; exact St.getL_setL_same _ _ _, hi, ?_⟩
    rcases firstErr_pair h with ⟨h1, h2⟩ | ⟨h1, h2⟩
    · exact ⟨a, by simp [Op.readsU], h1, he.trans h2⟩
    · exact ⟨b, by simp [Op.readsU], h1, he.trans h2⟩
  case uUn dst op a =>
    obtain ⟨r, hs, he⟩ := sticky_uUn env desc s dst op a h.1
    exact ⟨r, by rw [hs]; exact St.getL_setL_same _ _ _, he ▸ h.2, a, by simp [Op.readsU], h.2, he⟩
  case uScale dst a e =>
    obtain ⟨r, hs, he⟩ := sticky_uScale env desc s dst a e
    exact ⟨r, by rw [hs]; exact St.getL_setL_same _ _ _, he ▸ h, a, by simp [Op.readsU], h, he⟩
  case uPow dst a n =>
    obtain ⟨r, hs, he⟩ := sticky_uPow env desc s dst a n h
    exact ⟨r, by rw [hs]; exact St.getL_setL_same _ _ _, he ▸ h, a, by simp [Op.readsU], h, by rw [he]⟩

theorem taint_step_B (s : St α) (op : Op) (h : op.propagatesB s) :
    ∃ r, St.getL (step env desc s op).1.bs op.dst = some r ∧ r.err.isErr = true ∧
      ∃ k' ∈ op.readsB, (bGet s k').err.isErr = true ∧ r.err = (bGet s k').err := by
  cases op <;> try (exact h.elim)
  case bBin dst op a b =>
    obtain ⟨r, hs, _, he, hi⟩ := sticky_bBin env desc s dst op a b h
    refine ⟨r, by rw [hs]; exact St.getL_setL_same _ _ _, hi, ?_⟩
    rcases firstErr_pair h with ⟨h1, h2⟩ | ⟨h1, h2⟩
    · exact ⟨a, by simp [Op.readsB], h1, he.trans h2⟩
    · exact ⟨b, by simp [Op.readsB], h1, he.trans h2⟩
  case bUn dst op a =>
    obtain ⟨r, hs, he⟩ := sticky_bUn env desc s dst op a h.1
    exact ⟨r, by rw [hs]; exact St.getL_setL_same _ _ _, he ▸ h.2, a, by simp [Op.readsB], h.2, he⟩
  case bScale dst a e =>
    obtain ⟨r, hs, he⟩ := sticky_bScale env desc s dst a e
    exact ⟨r, by rw [hs]; exact St.getL_setL_same _ _ _, he ▸ h, a, by simp [Op.readsB], h, he⟩
  case bPow dst a n =>
    obtain ⟨r, hs, he⟩ := sticky_bPow env desc s dst a n h
    exact ⟨r, by rw [hs]; exact St.getL_setL_same _ _ _, he ▸ h, a, by simp [Op.readsB], h, by rw [he]⟩

/-! ### C17-1 / C17-2 umbrella statements -/

private theorem pre_ok : "ok " ∈ ["ok ", "recv ", "other "] := by simp
private theorem pre_ret (b : Bool) : (if b then "recv " else "other ") ∈ ["ok ", "recv ", "other "] := by
  cases b <;> simp

/-- C17-1 (`sticky_elements`). For `eBin` (plus minus times), `eUn` (neg inv copy trace), `ePow`, `eIn`
    (add sub mult), `eProd` under the guard `Op.stickyE` (a consulted operand — `Op.readsE`, in checking
    order; for `prod a b c` these are `b`, `c`, not the receiver — is erroneous, none is foreign): the
    object the operation returns (the one shown in the reply) carries an error, and its error status,
    hence its kind, is that of an erroneous consulted operand. -/
theorem sticky_elements (s : St α) (op : Op) (h : op.stickyE env s) :
    ∃ (r : EReg α) (pre : String), (step env desc s op).2 = pre ++ showE env r ∧
      pre ∈ ["ok ", "recv ", "other "] ∧ r.err.isErr = true ∧
      ∃ k' ∈ op.readsE, (eGet env s k').err.isErr = true ∧ r.err = (eGet env s k').err := by
  cases op <;> try (exact h.elim)
  case eBin dst op a b =>
    obtain ⟨hfa, hfb, herr⟩ := h
    obtain ⟨r, hs, he, hi⟩ := sticky_eBin env desc s dst op a b hfa hfb herr
    refine ⟨r, "ok ", by rw [hs], pre_ok, hi, ?_⟩
    rcases firstErr_pair herr with ⟨h1, h2⟩ | ⟨h1, h2⟩
    · exact ⟨a, by simp [Op.readsE], h1, he.trans h2⟩
    · exact ⟨b, by simp [Op.readsE], h1, he.trans h2⟩
  case eUn dst op a =>
    obtain ⟨r, hs, he, hi⟩ := sticky_eUn env desc s dst op a h
    exact ⟨r, "ok ", by rw [hs], pre_ok, hi, a, by simp [Op.readsE], h, he⟩
  case ePow dst a n =>
    obtain ⟨r, hs, he, hi⟩ := sticky_ePow env desc s dst a n h
    exact ⟨r, "ok ", by rw [hs], pre_ok, hi, a, by simp [Op.readsE], h, by rw [he]⟩
  case eIn op a b =>
    obtain ⟨hfa, hfb, herr⟩ := h
    obtain ⟨ra', r, isRecv, hs, he, hi, _⟩ := sticky_eIn env desc s op a b hfa hfb herr
    refine ⟨r, _, by rw [hs, ret_eq], pre_ret isRecv, hi, ?_⟩
    rcases firstErr_pair herr with ⟨h1, h2⟩ | ⟨h1, h2⟩
    · exact ⟨a, by simp [Op.readsE], h1, he.trans h2⟩
    · exact ⟨b, by simp [Op.readsE], h1, he.trans h2⟩
  case eProd a b c =>
    obtain ⟨hfb, hfc, herr⟩ := h
    obtain ⟨ra', r, isRecv, hs, he, hi, _⟩ := sticky_eProd env desc s a b c hfb hfc herr
    refine ⟨r, _, by rw [hs, ret_eq], pre_ret isRecv, hi, ?_⟩
    rcases firstErr_pair herr with ⟨h1, h2⟩ | ⟨h1, h2⟩
    · exact ⟨b, by simp [Op.readsE], h1, he.trans h2⟩
    · exact ⟨c, by simp [Op.readsE], h1, he.trans h2⟩

/-- C17-2 (`sticky_upoly`). For `uBin`, `uUn` (copy neg normalize — NOT `lt`, see `lt_drops_error`),
    `uScale`, `uPow`, `uIn` with an erroneous consulted polynomial operand: the returned polynomial carries
    an error whose status is that of an erroneous consulted operand. No foreign-ness guard exists for
    polynomials; the scalar of `uScale` is not consulted (see `scalar_error_is_dropped`). -/
theorem sticky_upoly (s : St α) (op : Op) (h : op.stickyU env s) :
    ∃ (r : UReg α) (pre : String), (step env desc s op).2 = pre ++ showU env r ∧
      pre ∈ ["ok ", "recv ", "other "] ∧ r.err.isErr = true ∧
      ∃ k' ∈ op.readsU, (uGet env s k').err.isErr = true ∧ r.err = (uGet env s k').err := by
  cases op <;> try (exact h.elim)
  case uBin dst op a b =>
    obtain ⟨r, hs, _, he, hi⟩ := sticky_uBin env desc s dst op a b h
    refine ⟨r, "ok ", by rw [hs], pre_ok, hi, ?_⟩
    rcases firstErr_pair h with ⟨h1, h2⟩ | ⟨h1, h2⟩
    · exact ⟨a, by simp [Op.readsU], h1, he.trans h2⟩
    · exact ⟨b, by simp [Op.readsU], h1, he.trans h2⟩
  case uUn dst op a =>
    obtain ⟨r, hs, he⟩ := sticky_uUn env desc s dst op a h.1
    exact ⟨r, "ok ", by rw [hs], pre_ok, he ▸ h.2, a, by simp [Op.readsU], h.2, he⟩
  case uScale dst a e =>
    obtain ⟨r, hs, he⟩ := sticky_uScale env desc s dst a e
    exact ⟨r, "ok ", by rw [hs], pre_ok, he ▸ h, a, by simp [Op.readsU], h, he⟩
  case uPow dst a n =>
    obtain ⟨r, hs, he⟩ := sticky_uPow env desc s dst a n h
    exact ⟨r, "ok ", by rw [hs], pre_ok, he ▸ h, a, by simp [Op.readsU], h, by rw [he]⟩
  case uIn op a b =>
    obtain ⟨ra', r, isRecv, hs, _, he, hi, _⟩ := sticky_uIn env desc s op a b h
    refine ⟨r, _, by rw [hs, ret_eq], pre_ret isRecv, hi, ?_⟩
    rcases firstErr_pair h with ⟨h1, h2⟩ | ⟨h1, h2⟩
    · exact ⟨a, by simp [Op.readsU], h1, he.trans h2⟩
    · exact ⟨b, by simp [Op.readsU], h1, he.trans h2⟩

/-- C17-2 (`sticky_bpoly`): the bivariate analogue (`bBin`, `bUn` copy/neg/normalize, `bScale`, `bPow`, `bIn`). -/
theorem sticky_bpoly (s : St α) (op : Op) (h : op.stickyB s) :
    ∃ (r : BReg α) (pre : String), (step env desc s op).2 = pre ++ showB env r ∧
      pre ∈ ["ok ", "recv ", "other "] ∧ r.err.isErr = true ∧
      ∃ k' ∈ op.readsB, (bGet s k').err.isErr = true ∧ r.err = (bGet s k').err := by
  cases op <;> try (exact h.elim)
  case bBin dst op a b =>
    obtain ⟨r, hs, _, he, hi⟩ := sticky_bBin env desc s dst op a b h
    refine ⟨r, "ok ", by rw [hs], pre_ok, hi, ?_⟩
    rcases firstErr_pair h with ⟨h1, h2⟩ | ⟨h1, h2⟩
    · exact ⟨a, by simp [Op.readsB], h1, he.trans h2⟩
    · exact ⟨b, by simp [Op.readsB], h1, he.trans h2⟩
  case bUn dst op a =>
    obtain ⟨r, hs, he⟩ := sticky_bUn env desc s dst op a h.1
    exact ⟨r, "ok ", by rw [hs], pre_ok, he ▸ h.2, a, by simp [Op.readsB], h.2, he⟩
  case bScale dst a e =>
    obtain ⟨r, hs, he⟩ := sticky_bScale env desc s dst a e
    exact ⟨r, "ok ", by rw [hs], pre_ok, he ▸ h, a, by simp [Op.readsB], h, he⟩
  case bPow dst a n =>
    obtain ⟨r, hs, he⟩ := sticky_bPow env desc s dst a n h
    exact ⟨r, "ok ", by rw [hs], pre_ok, he ▸ h, a, by simp [Op.readsB], h, by rw [he]⟩
  case bIn op a b =>
    obtain ⟨ra', r, isRecv, hs, _, he, hi, _⟩ := sticky_bIn env desc s op a b h
    refine ⟨r, _, by rw [hs, ret_eq], pre_ret isRecv, hi, ?_⟩
    rcases firstErr_pair h with ⟨h1, h2⟩ | ⟨h1, h2⟩
    · exact ⟨a, by simp [Op.readsB], h1, he.trans h2⟩
    · exact ⟨b, by simp [Op.readsB], h1, he.trans h2⟩

/-- One step keeps register `k` tainted unless `k` is the destination of a value-returning operation that
    does not itself propagate an error: in-place operations NEVER clear their receiver's error, operations
    that do not write `k` leave it alone, covered value operations with an erroneous operand re-taint it. -/
theorem taint_preserved_E (s : St α) (op : Op) (k : Nat) (ht : TaintedE s k)
    (h : k ∈ op.writesE → op.inPlace = true ∨ op.propagatesE env s) :
    TaintedE (step env desc s op).1 k := by
  by_cases hk : k ∈ op.writesE
  · rcases h hk with hin | hp
    · exact step_inPlace_taintE env desc s op k hin hk ht
    · obtain ⟨r, hr, hi, _⟩ := taint_step_E env desc s op hp
      have : k = op.dst := by
        cases op <;> first | exact hp.elim | simpa [Op.writesE, Op.dst] using hk
      exact ⟨r, this ▸ hr, hi⟩
  · obtain ⟨r, hr, hi⟩ := ht
    exact ⟨r, by rw [(step_frame' env desc s op).es k hk]; exact hr, hi⟩

theorem taint_preserved_U (s : St α) (op : Op) (k : Nat) (ht : TaintedU s k)
    (h : k ∈ op.writesU → op.inPlace = true ∨ op.propagatesU env s) :
    TaintedU (step env desc s op).1 k := by
  by_cases hk : k ∈ op.writesU
  · rcases h hk with hin | hp
    · exact step_inPlace_taintU env desc s op k hin hk ht
    · obtain ⟨r, hr, hi, _⟩ := taint_step_U env desc s op hp
      have : k = op.dst := by
        cases op <;> first | exact hp.elim | simpa [Op.writesU, Op.dst] using hk
      exact ⟨r, this ▸ hr, hi⟩
  · obtain ⟨r, hr, hi⟩ := ht
    exact ⟨r, by rw [(step_frame' env desc s op).us k hk]; exact hr, hi⟩

theorem taint_preserved_B (s : St α) (op : Op) (k : Nat) (ht : TaintedB s k)
    (h : k ∈ op.writesB → op.inPlace = true ∨ op.propagatesB s) :
    TaintedB (step env desc s op).1 k := by
  by_cases hk : k ∈ op.writesB
  · rcases h hk with hin | hp
    · exact step_inPlace_taintB env desc s op k hin hk ht
    · obtain ⟨r, hr, hi, _⟩ := taint_step_B env desc s op hp
      have : k = op.dst := by
        cases op <;> first | exact hp.elim | simpa [Op.writesB, Op.dst] using hk
      exact ⟨r, this ▸ hr, hi⟩
  · obtain ⟨r, hr, hi⟩ := ht
    exact ⟨r, by rw [(step_frame' env desc s op).bs k hk]; exact hr, hi⟩

/-- along the history, whenever register `k` is written it is written in place or by an error-propagating
    covered operation (the guard is evaluated in the store reached at that point) -/
def SafeE (k : Nat) : St α → List Op → Prop
  | _, [] => True
  | s, op :: t => (k ∈ op.writesE → op.inPlace = true ∨ op.propagatesE env s) ∧ SafeE k (step env desc s op).1 t
def SafeU (k : Nat) : St α → List Op → Prop
  | _, [] => True
  | s, op :: t => (k ∈ op.writesU → op.inPlace = true ∨ op.propagatesU env s) ∧ SafeU k (step env desc s op).1 t
def SafeB (k : Nat) : St α → List Op → Prop
  | _, [] => True
  | s, op :: t => (k ∈ op.writesB → op.inPlace = true ∨ op.propagatesB s) ∧ SafeB k (step env desc s op).1 t

/-- C17-3. A tainted register stays tainted along every history that never overwrites it with the result
    of a value-returning operation on clean operands. -/
theorem sticky_histories_E (s : St α) (k : Nat) (ops : List Op) (ht : TaintedE s k)
    (hs : SafeE env desc k s ops) :
    TaintedE (ops.foldl (fun st op => (step env desc st op).1) s) k := by
  induction ops generalizing s with
  | nil => exact ht
  | cons op t ih => exact ih _ (taint_preserved_E env desc s op k ht hs.1) hs.2

theorem sticky_histories_U (s : St α) (k : Nat) (ops : List Op) (ht : TaintedU s k)
    (hs : SafeU env desc k s ops) :
    TaintedU (ops.foldl (fun st op => (step env desc st op).1) s) k := by
  induction ops generalizing s with
  | nil => exact ht
  | cons op t ih => exact ih _ (taint_preserved_U env desc s op k ht hs.1) hs.2

theorem sticky_histories_B (s : St α) (k : Nat) (ops : List Op) (ht : TaintedB s k)
    (hs : SafeB env desc k s ops) :
    TaintedB (ops.foldl (fun st op => (step env desc st op).1) s) k := by
  induction ops generalizing s with
  | nil => exact ht
  | cons op t ih => exact ih _ (taint_preserved_B env desc s op k ht hs.1) hs.2

/-- Corollary ("errors stay attached"): if no operation of the history uses `k` as the destination of a
    value-returning operation — i.e. the object in `k` is only ever read, or modified in place —
    then it carries an error for ever. Purely syntactic condition on the history. -/
theorem tainted_forever_E (s : St α) (k : Nat) (ops : List Op) (ht : TaintedE s k)
    (h : ∀ op ∈ ops, k ∈ op.writesE → op.inPlace = true) :
    TaintedE (ops.foldl (fun st op => (step env desc st op).1) s) k := by
  apply sticky_histories_E env desc s k ops ht
  clear ht
  induction ops generalizing s with
  | nil => trivial
  | cons op t ih =>
    exact ⟨fun hk => .inl (h op (List.mem_cons_self ..) hk), ih _ (fun o ho => h o (List.mem_cons_of_mem _ ho))⟩

theorem tainted_forever_U (s : St α) (k : Nat) (ops : List Op) (ht : TaintedU s k)
    (h : ∀ op ∈ ops, k ∈ op.writesU → op.inPlace = true) :
    TaintedU (ops.foldl (fun st op => (step env desc st op).1) s) k := by
  apply sticky_histories_U env desc s k ops ht
  clear ht
  induction ops generalizing s with
  | nil => trivial
  | cons op t ih =>
    exact ⟨fun hk => .inl (h op (List.mem_cons_self ..) hk), ih _ (fun o ho => h o (List.mem_cons_of_mem _ ho))⟩

theorem tainted_forever_B (s : St α) (k : Nat) (ops : List Op) (ht : TaintedB s k)
    (h : ∀ op ∈ ops, k ∈ op.writesB → op.inPlace = true) :
    TaintedB (ops.foldl (fun st op => (step env desc st op).1) s) k := by
  apply sticky_histories_B env desc s k ops ht
  clear ht
  induction ops generalizing s with
  | nil => trivial
  | cons op t ih =>
    exact ⟨fun hk => .inl (h op (List.mem_cons_self ..) hk), ih _ (fun o ho => h o (List.mem_cons_of_mem _ ho))⟩

/-! ### where the model does NOT propagate an error (negative lemmas, listed on purpose) -/

/-- univariate `Eval`, and `Coef`, `Lc` of both packages, applied to a (possibly erroneous) polynomial
    return a fresh error-free element. (Bivariate `Eval` is different: see `bEval_propagates`.) -/
theorem poly_to_element_drops_error (s : St α) (op : Op)
    (hop : (∃ d a e, op = .uEval d a e) ∨ (∃ d a k, op = .uCoef d a k) ∨ (∃ d a, op = .uLc d a) ∨
           (∃ d a k, op = .bCoef d a k) ∨ (∃ d a, op = .bLc d a)) :
    ∃ (dst : Nat) (r : EReg α), op.writesE = [dst] ∧
      step env desc s op = ({ s with es := St.setL s.es dst r }, "ok " ++ showE env r) ∧
      r.err = Err.none := by
  rcases hop with ⟨d, a, e, rfl⟩ | ⟨d, a, k, rfl⟩ | ⟨d, a, rfl⟩ | ⟨d, a, k, rfl⟩ | ⟨d, a, rfl⟩ <;>
    exact ⟨d, _, rfl, rfl, rfl⟩

/-- Bivariate `Eval` is composed of checked value-returning element operations
    (`out.Plus(coef.Times(x.Pow(i)).Times(y.Pow(j)))`): an erroneous first coordinate taints the result
    with its own error status whenever the polynomial has a term. -/
theorem bEval_propagates (s : St α) (dst a x y : Nat) (hne : (bGet s a).val.isEmpty = false)
    (hx : (eGet env s x).err.isErr = true) :
    ∃ r : EReg α,
      step env desc s (.bEval dst a x y) = ({ s with es := St.setL s.es dst r }, "ok " ++ showE env r) ∧
      r.err = (eGet env s x).err.wrapInherit := by
  refine ⟨_, rfl, ?_⟩
  simp [hne, hx, Option.orElse]

/-- …and an erroneous second coordinate does so when the first coordinate is usable. -/
theorem bEval_propagates_snd (s : St α) (dst a x y : Nat) (hne : (bGet s a).val.isEmpty = false)
    (hx : (eGet env s x).err.isErr = false) (hx0 : (eGet env s x).home = 0)
    (hy : (eGet env s y).err.isErr = true) :
    ∃ r : EReg α,
      step env desc s (.bEval dst a x y) = ({ s with es := St.setL s.es dst r }, "ok " ++ showE env r) ∧
      r.err = (eGet env s y).err.wrapInherit := by
  refine ⟨_, rfl, ?_⟩
  simp [hne, hx, hx0, hy, Option.orElse]

/-- An erroneous *scalar* does not taint `Scale`/`SetScale`: the result's error status is the polynomial's
    (recorded finding PF-18). Likewise the element handed to `SetCoef`/`IncCoef`/`DecCoef`. -/
theorem scalar_error_is_dropped (s : St α) (dst a e : Nat) (hclean : (uGet env s a).err = Err.none) :
    ∃ r : UReg α,
      step env desc s (.uScale dst a e) = ({ s with us := St.setL s.us dst r }, "ok " ++ showU env r) ∧
      r.err = Err.none :=
  ⟨_, step_uScale env desc s dst a e, (uScaleRes_err env s a e).trans hclean⟩

theorem scalar_error_is_dropped_b (s : St α) (dst a e : Nat) (hclean : (bGet s a).err = Err.none) :
    ∃ r : BReg α,
      step env desc s (.bScale dst a e) = ({ s with bs := St.setL s.bs dst r }, "ok " ++ showB env r) ∧
      r.err = Err.none :=
  ⟨_, step_bScale env desc s dst a e, (bScaleRes_err env s a e).trans hclean⟩

/-- A foreign argument overrides the receiver's error kind: the result is `InputIncompatible` whatever
    error the receiver carried (this is why the element theorems exclude foreign operands). -/
theorem foreign_overrides_kind (s : St α) (dst : Nat) (op : String) (a b : Nat)
    (hfb : (eGet env s b).foreign = true) :
    ∃ r : EReg α,
      step env desc s (.eBin dst op a b) = ({ s with es := St.setL s.es dst r }, "ok " ++ showE env r) ∧
      r.err = Err.kind Kind.inputIncompatible := by
  refine ⟨_, step_eBin env desc s dst op a b, ?_⟩
  unfold eBinRes
  by_cases hop : (op == "times") = true
  · simp [hop, eProdFn, hfb]
  · simp [hop, eInPlace, eCheck, hfb]

/-! ### non-vacuity and sanity (GF(5), store `sErr`: e0 clean, e1 erroneous (InputValue), e2 foreign;
    p0/q0 clean, p1/q1 erroneous (ArithmeticIncompat)) -/

example := sticky_eBin env5 (.prime 5) sErr 5 "plus" 1 0 (fun h => by decide) (by decide) (.inl (by decide))
example := sticky_eBin env5 (.prime 5) sErr 5 "times" 0 1 (fun h => by decide) (by decide) (.inr (by decide))
example := sticky_eUn env5 (.prime 5) sErr 5 "neg" 1 (by decide)
example := sticky_ePow env5 (.prime 5) sErr 5 1 3 (by decide)
example := sticky_eIn env5 (.prime 5) sErr "mult" 0 1 (fun h => by decide) (by decide) (.inr (by decide))
example := sticky_eProd env5 (.prime 5) sErr 0 0 1 (by decide) (by decide) (.inr (by decide))
example := eProd_receiver_stays_erroneous env5 (.prime 5) sErr 1 0 0 (by decide)
example := sticky_uBin env5 (.prime 5) sErr 5 "times" 0 1 (.inr (by decide))
example := sticky_uUn env5 (.prime 5) sErr 5 "normalize" 1 (.inr (.inr rfl))
example := sticky_uPow env5 (.prime 5) sErr 5 1 2 (by decide)
example := sticky_uIn env5 (.prime 5) sErr "add" 0 1 (.inr (by decide))
example := sticky_bBin env5 (.prime 5) sErr 5 "minus" 1 0 (.inl (by decide))
example := sticky_bPow env5 (.prime 5) sErr 5 1 2 (by decide)
example := sticky_bIn env5 (.prime 5) sErr "mult" 0 1 (.inr (by decide))
example := foreign_overrides_kind env5 (.prime 5) sErr 5 "plus" 1 2 (by decide)
example : (Op.eBin 5 "minus" 0 1).propagatesE env5 sErr := by unfold Op.propagatesE; decide
example : (Op.uUn 5 "neg" 1).propagatesU env5 sErr := ⟨.inr (.inl rfl), by decide⟩
example : (Op.bScale 5 1 0).propagatesB sErr := by unfold Op.propagatesB; decide
example : (Op.eProd 0 0 1).stickyE env5 sErr := by unfold Op.stickyE; decide
example : (Op.uIn "mult" 0 1).stickyU env5 sErr := by unfold Op.stickyU; decide
example : (Op.bUn 5 "copy" 1).stickyB sErr := ⟨.inl rfl, by decide⟩
example : TaintedE sErr 1 := ⟨_, rfl, rfl⟩
example : TaintedU sErr 1 := ⟨_, rfl, rfl⟩
example : TaintedB sErr 1 := ⟨_, rfl, rfl⟩
/-- a history in which e1 is negated in place, multiplied in place, used as operand and finally overwritten
    by a propagating `Plus` satisfies `SafeE` -/
example : SafeE env5 (.prime 5) 1 sErr [.eSetNeg 1, .eIn "mult" 1 0, .eBin 3 "plus" 0 1, .eBin 1 "plus" 0 1] := by
  simp only [SafeE, Op.writesE, Op.inPlace, Op.propagatesE]
  decide

/-- sanity: observable replies. The erroneous argument is returned; `Lt` of an erroneous polynomial is clean;
    an erroneous scalar leaves no trace in `Scale`. -/
example : (step env5 (.prime 5) sErr (.eBin 5 "plus" 0 1)).2 = "ok !InputValue" := by decide
example : (step env5 (.prime 5) sErr (.eBin 5 "plus" 1 2)).2 = "ok !InputIncompatible" := by decide
example : (step env5 (.prime 5) sErr (.uUn 5 "neg" 1)).2 = "ok !ArithmeticIncompat" := by decide
example : (uGet env5 (step env5 (.prime 5) sErr (.uUn 5 "lt" 1)).1 5).err = Err.none := by decide
example : (step env5 (.prime 5) sErr (.bUn 5 "lt" 1)).2 = "ok 0#" := by decide
example : (uGet env5 (step env5 (.prime 5) sErr (.uScale 5 0 1)).1 5).err = Err.none := by decide
example : (eGet env5 (step env5 (.prime 5) sErr (.uLc 5 1)).1 5).err = Err.none := by decide

end Algobra.C17
