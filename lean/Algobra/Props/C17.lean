/-
  Props/C17.lean — errors stay attached to the objects that carry them (stickiness), model side.
-/
import Algobra.Proofs.Step
namespace Algobra.C17
open Algobra
variable {α : Type} (env : Env α) (desc : FieldDesc)

/-- `errors.Wrap(op, Inherit, e)` keeps the kind -/
theorem wrapInherit_kind (k : Kind) : (Err.kind k).wrapInherit = Err.kind k := rfl

/-- … and more generally is the identity on every error status, and always yields an error -/
theorem wrapInherit_of_isErr {e : Err} (h : e.isErr = true) : e.wrapInherit = e := Err.wrapInherit_of_isErr h
theorem wrapInherit_isErr (e : Err) : e.wrapInherit.isErr = true := Err.wrapInherit_isErr e

/-! ### C17-1 : elements -/

/-- `c := a.Plus(b)`, `a.Minus(b)`, `a.Times(b)`: the object stored in `dst` carries the error status of the
    first erroneous operand in checking order (receiver, then argument). Guard: the argument is not of a
    foreign implementation type (for `times = Copy().Prod(copy, b)` neither operand is). -/
theorem sticky_eBin (s : St α) (dst : Nat) (op : String) (a b : Nat)
    (hfa : (op == "times") = true → (eGet env s a).foreign = false)
    (hfb : (eGet env s b).foreign = false)
    (h : (eGet env s a).err.isErr = true ∨ (eGet env s b).err.isErr = true) :
    ∃ r : EReg α,
      step env desc s (.eBin dst op a b) = ({ s with es := St.setL s.es dst r }, "ok " ++ showE env r) ∧
      r.err = firstErr [(eGet env s a).err, (eGet env s b).err] ∧ r.err.isErr = true := by
  refine ⟨_, step_eBin env desc s dst op a b, ?_⟩
  unfold eBinRes
  by_cases hop : (op == "times") = true
  · simp only [hop, if_true]
    by_cases ha : (eGet env s a).err.isErr = true
    · rw [eProdFn_bErr env _ _ _ _ _ (hfa hop) hfb ha]
      simp [firstErr, ha]
    · have hb := h.resolve_left ha
      rw [eProdFn_cErr env _ _ _ _ _ (hfa hop) hfb (by simpa using ha) hb]
      simp [firstErr, ha, hb]
  · simp only [hop, Bool.false_eq_true, if_false]
    by_cases ha : (eGet env s a).err.isErr = true
    · rw [eInPlace_recvErr env _ _ _ hfb ha]
      simp [firstErr, ha]
    · have hb := h.resolve_left ha
      rw [eInPlace_argErr env _ _ _ hfb (by simpa using ha) hb]
      simp [firstErr, ha, hb]

/-- `Neg`, `Inv`, `Copy`, `Trace` (value-returning): the result carries the operand's error status unchanged.
    No guard. -/
theorem sticky_eUn (s : St α) (dst : Nat) (op : String) (a : Nat)
    (h : (eGet env s a).err.isErr = true) :
    ∃ r : EReg α,
      step env desc s (.eUn dst op a) = ({ s with es := St.setL s.es dst r }, "ok " ++ showE env r) ∧
      r.err = (eGet env s a).err ∧ r.err.isErr = true := by
  refine ⟨_, step_eUn env desc s dst op a, ?_⟩
  have : (eUnRes env s op a).err = (eGet env s a).err := by
    simp only [eUnRes, h, if_true]
    split
    · rfl
    · split
      · rfl
      · split <;> rfl
  exact ⟨this, this ▸ h⟩

/-- `Pow`: same. -/
theorem sticky_ePow (s : St α) (dst a n : Nat) (h : (eGet env s a).err.isErr = true) :
    ∃ r : EReg α,
      step env desc s (.ePow dst a n) = ({ s with es := St.setL s.es dst r }, "ok " ++ showE env r) ∧
      r = eGet env s a ∧ r.err.isErr = true := by
  refine ⟨_, step_ePow env desc s dst a n, ?_⟩
  have : ePowRes env s a n = eGet env s a := by simp only [ePowRes, h, if_true]
  exact ⟨this, this ▸ h⟩

/-- In-place `a.Add(b)`, `a.Sub(b)`, `a.Mult(b)`: the returned object carries the error status of the first
    erroneous operand (receiver, then argument). If that is the receiver, the receiver itself is returned
    (`recv`); if it is the argument, *another* object is returned (`other`) and the receiver register keeps
    its old content — except for `mult a a`, where the argument is the receiver. -/
theorem sticky_eIn (s : St α) (op : String) (a b : Nat)
    (hfa : (op == "mult") = true → (eGet env s a).foreign = false)
    (hfb : (eGet env s b).foreign = false)
    (h : (eGet env s a).err.isErr = true ∨ (eGet env s b).err.isErr = true) :
    ∃ (ra' r : EReg α) (isRecv : Bool),
      step env desc s (.eIn op a b) = ({ s with es := St.setL s.es a ra' }, ret isRecv (showE env r)) ∧
      r.err = firstErr [(eGet env s a).err, (eGet env s b).err] ∧ r.err.isErr = true ∧
      (if isRecv then ra' = r else ra' = eGet env s a) ∧
      ((eGet env s a).err.isErr = true → isRecv = true ∧ r = eGet env s a) := by
  refine ⟨_, _, _, step_eIn env desc s op a b, ?_⟩
  unfold eInRes
  by_cases hop : (op == "mult") = true
  · simp only [hop, if_true]
    by_cases ha : (eGet env s a).err.isErr = true
    · rw [eProdFn_bErr env _ _ _ _ _ (hfa hop) hfb ha]
      simp [firstErr, ha]
    · have hb := h.resolve_left ha
      rw [eProdFn_cErr env _ _ _ _ _ (hfa hop) hfb (by simpa using ha) hb]
      cases hab : (a == b) <;> simp [firstErr, ha, hb]
  · simp only [hop, Bool.false_eq_true, if_false]
    by_cases ha : (eGet env s a).err.isErr = true
    · rw [eInPlace_recvErr env _ _ _ hfb ha]
      simp [firstErr, ha]
    · have hb := h.resolve_left ha
      rw [eInPlace_argErr env _ _ _ hfb (by simpa using ha) hb]
      simp [firstErr, ha, hb]

/-- `a.Prod(b, c)`: the operands are checked in the order `b`, `c`; the receiver's own error status is
    NOT consulted. The returned object is the first erroneous operand; the receiver register is left alone
    unless that operand is the receiver itself. -/
theorem sticky_eProd (s : St α) (a b c : Nat)
    (hfb : (eGet env s b).foreign = false) (hfc : (eGet env s c).foreign = false)
    (h : (eGet env s b).err.isErr = true ∨ (eGet env s c).err.isErr = true) :
    ∃ (ra' r : EReg α) (isRecv : Bool),
      step env desc s (.eProd a b c) = ({ s with es := St.setL s.es a ra' }, ret isRecv (showE env r)) ∧
      r.err = firstErr [(eGet env s b).err, (eGet env s c).err] ∧ r.err.isErr = true ∧
      (if isRecv then ra' = r else ra' = eGet env s a) := by
  refine ⟨_, _, _, step_eProd env desc s a b c, ?_⟩
  unfold eProdRes
  by_cases hb : (eGet env s b).err.isErr = true
  · rw [eProdFn_bErr env _ _ _ _ _ hfb hfc hb]
    cases (a == b) <;> simp [firstErr, hb]
  · have hc := h.resolve_left hb
    rw [eProdFn_cErr env _ _ _ _ _ hfb hfc (by simpa using hb) hc]
    cases (a == c) <;> simp [firstErr, hb, hc]

/-- The receiver's error is not consulted by `Prod`, but it is not cleared either: an erroneous receiver
    stays erroneous whatever the operands are. -/
theorem eProd_receiver_stays_erroneous (s : St α) (a b c : Nat) (h : (eGet env s a).err.isErr = true) :
    (eGet env (step env desc s (.eProd a b c)).1 a).err.isErr = true := by
  rw [step_eProd]
  simp only [eGet, St.getL_setL_same, Option.getD_some]
  rcases eProdFn_recv_err env (eGet env s a) (eGet env s b) (eGet env s c) (a == b) (a == c) h with h' | ⟨h', hab⟩ | ⟨h', hac⟩
  · exact h'
  · unfold eProdRes; rw [h']
    have : a = b := by simpa using hab
    exact this ▸ h
  · unfold eProdRes; rw [h']
    have : a = c := by simpa using hac
    exact this ▸ h

/-- C17-1 summary: for every covered element operation the returned object carries an error whose status
    (hence kind) is that of one of its erroneous operands. -/
theorem sticky_elements (l : List Err) (h : ∃ e ∈ l, e.isErr = true) :
    (firstErr l).isErr = true ∧ ∃ e ∈ l, e.isErr = true ∧ firstErr l = e :=
  let ⟨hm, he⟩ := firstErr_mem h
  ⟨he, _, hm, he, rfl⟩

end Algobra.C17
