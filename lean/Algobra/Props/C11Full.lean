/-
  Props/C11Full.lean — C11-4 closed: BUCHBERGER'S CRITERION for the model.
  (Mathematics: Proofs/Criterion.lean — abstract criterion over `AddMonoidAlgebra K (ℕ × ℕ)` for any
  monomial order; Proofs/Criterion2.lean — the mathematical order `tlt o` behind `Order.cmp o`,
  the model's `SPolynomial` is the S-polynomial, instantiation.)

  RESULT on `C11.buchberger_criterion_full L o` (Props/C11.lean), read literally:
   * it is PROVED for the lexicographic orders            (`buchberger_criterion_full_lex`);
   * it is FALSE for the graded orders                     (`buchberger_criterion_full_false`,
     refuted for `DegRevLex` over GF(3) with `G = [X]`).  Reason: `C11.IsGroebnerBasis` quantifies
     over ALL well-formed lists `f`, also with exponents whose weighted degree does not fit a
     64-bit word; for those the model's `Ld` (computed with the truncated degree `wdeg`) is not the
     leading exponent, e.g. `Ld (X^(2^64)) = (0,0)` for DegRevLex — and `X^(2^64) ∈ ⟨X⟩`.
   * the closest true statement is PROVED for every admissible order (`buchberger_criterion`):
     the same hypotheses, plus "the comparisons are exact on the exponents of `G`" (`Exact o d`:
     `o` is Lex, or `d` and its weighted degree are machine words — for Lex this is no condition),
     give the Gröbner property for all `f` whose exponents are exact (`IsGroebnerBasisExact`).
     Nothing else is assumed: in particular no hypothesis on the lcm's of the leading exponents
     (a wrapped comparison inside `SPolynomial` makes its monomial division spin until the fuel is
     exhausted, `monoDiv_ld`, so `sPairRems` would not have returned a value).
-/
import Algobra.Props.C11
import Algobra.Proofs.Criterion3

namespace Algobra
namespace C11

open BPoly

variable {α : Type} {F : FOps α} {K : Type} [Field K]

/-! ### the statement -/

/-- `BPoly.Exact o d` : the model comparison `o.cmp` is the mathematical one at `d` -/
example (o : Order) (d : Deg) : Exact o d ↔ (o.kind = .lex ∨ Order.NoOverflow o d) := Iff.rfl

/-- `BPoly.tlt o` : the mathematical monomial order behind `o.cmp` (weighted degree as a natural
    number, then the tiebreak); it is a monomial order on all of `ℕ × ℕ` … -/
theorem tlt_monomialOrder {o : Order} (hadm : Order.Admissible o) : Crit.MonOrd (tlt o) :=
  tlt_monOrd hadm

/-- … in particular a well-order (Dickson) … -/
theorem tlt_wellFounded {o : Order} (hadm : Order.Admissible o) : WellFounded (tlt o) :=
  (tlt_monOrd hadm).wf

/-- … and it is what `o.cmp` computes on exact exponent pairs -/
theorem cmp_eq_one_iff_tlt (o : Order) {a b : Deg} (ha : Exact o a) (hb : Exact o b) :
    o.cmp b a = 1 ↔ tlt o a b := BPoly.cmp_eq_one_iff o ha hb

/-- `G` is a Gröbner basis of the ideal it generates, for the polynomials the model can compare:
    the leading exponent of every nonzero member `f` of the ideal WITH EXACT EXPONENTS is divisible
    by the leading exponent of some element of `G` -/
def IsGroebnerBasisExact (L : Lawful F K) (o : Order) (G : List (BPoly α)) : Prop :=
  ∀ f : BPoly α, WF L f → f ≠ [] → (∀ d ∈ keys f, Exact o d) →
    toMv L f ∈ Ideal.span ((toMv L) '' {g | g ∈ G}) →
    ∃ g ∈ G, subDegs (ld o f) (ld o g) ≠ none

/-- for `Lex` this is `IsGroebnerBasis` -/
theorem isGroebnerBasisExact_iff_lex (L : Lawful F K) {o : Order} (hk : o.kind = .lex)
    (G : List (BPoly α)) : IsGroebnerBasisExact L o G ↔ IsGroebnerBasis L o G :=
  ⟨fun h f wf hne hmem => h f wf hne (fun _ _ => Or.inl hk) hmem,
   fun h f wf hne _ hmem => h f wf hne hmem⟩

/-- in general it is the restriction of `IsGroebnerBasis` -/
theorem IsGroebnerBasis.exact {L : Lawful F K} {o : Order} {G : List (BPoly α)}
    (h : IsGroebnerBasis L o G) : IsGroebnerBasisExact L o G :=
  fun f wf hne _ hmem => h f wf hne hmem

/-! ### Buchberger's criterion -/

/-- the ABSTRACT criterion (Proofs/Criterion.lean), for reference: `lt` a monomial order on `ℕ × ℕ`
    (`Crit.MonOrd`), generators `gen i` with leading exponents `ex i` (`Crit.GenOK`), every
    S-polynomial `Crit.sPol gen ex i j` in the `K`-span of the shifted generators `X^a · gen k` with
    `a + ex k` strictly below `lcm (ex i) (ex j)` (`Crit.SPairsOK`).  Then every nonzero `f` of the
    ideal has a largest exponent and it is of the form `a + ex i`. -/
theorem abstract_criterion {ι : Type} {lt : ℕ × ℕ → ℕ × ℕ → Prop}
    {gen : ι → AddMonoidAlgebra K (ℕ × ℕ)} {ex : ι → ℕ × ℕ} (H : Crit.MonOrd lt)
    (hG : Crit.GenOK lt gen ex) (hS : Crit.SPairsOK lt gen ex) {f : AddMonoidAlgebra K (ℕ × ℕ)}
    (hf : f ∈ Ideal.span (Set.range gen)) (hne : f ≠ 0) :
    ∃ i a, f.coeff (a + ex i) ≠ 0 ∧ ∀ d, f.coeff d ≠ 0 → ¬ lt (a + ex i) d :=
  Crit.criterion H hG hS hf hne

/-- the model's `SPolynomial` is that S-polynomial (no guard needed beyond word-size inputs whose
    `Ld` is a stored exponent: a wrapped comparison inside makes the function run out of fuel) -/
theorem sPoly_is_sPolynomial (L : Lawful F K) {o : Order} {f g s : BPoly α} (hf : WF L f)
    (hg : WF L g) (hfl : ld o f ∈ keys f) (hgl : ld o g ∈ keys g) (bf : Bounded f) (bg : Bounded g)
    (h : sPoly F o f g = some s) :
    toMv L s =
      AddMonoidAlgebra.single (Crit.lcmD (ld o f) (ld o g) - ld o f) (L.embed (lc F o f))⁻¹
        * toMv L f
      - AddMonoidAlgebra.single (Crit.lcmD (ld o f) (ld o g) - ld o g) (L.embed (lc F o g))⁻¹
        * toMv L g :=
  (sPoly_exact L hf hg hfl hgl bf bg h).2.2

/-- **BUCHBERGER'S CRITERION for the model**, every admissible order: well-formed nonzero
    generators with word-size exponents on which the comparisons are exact; all S-polynomials of
    pairs reduce to zero with respect to `G` in the model's own terms
    (`sPairRems F o G = some []`), without exponent wrap-around (`RoundSafe … RunSafe`).
    Then `G` is a Gröbner basis (for all members of the ideal with exact exponents). -/
theorem buchberger_criterion (L : Lawful F K) (o : Order) (G : List (BPoly α))
    (hadm : Order.Admissible o) (hG : ∀ g ∈ G, WF L g ∧ g ≠ [] ∧ Bounded g)
    (hGx : ∀ g ∈ G, ∀ d ∈ keys g, Exact o d)
    (hsafe : RoundSafe F o (RunSafe F o) G) (hz : sPairRems F o G = some []) :
    IsGroebnerBasisExact L o G := by
  intro f wf hne hfx hmem
  refine criterion_model L hadm hG hGx ?_ wf hne hfx hmem
  intro i j hij hj
  obtain ⟨s, qs, hs, hq⟩ := (sPairRems_nil_iff G).1 hz i j hij hj
  have := hsafe i j hij hj s hs
  exact ⟨s, qs, hs, hq, this.2.1, this.2.2⟩

/-- `C11.buchberger_criterion_full` holds, exactly as stated, for the lexicographic orders -/
theorem buchberger_criterion_full_lex (L : Lawful F K) (x : Bool) :
    buchberger_criterion_full L ({ kind := .lex, xGtY := x } : Order) := by
  intro G hadm hG hsafe hz
  rw [← isGroebnerBasisExact_iff_lex L rfl]
  exact buchberger_criterion L _ G hadm hG (fun _ _ _ _ => Or.inl rfl) hsafe hz

/-- … and for every order whose kind is `lex` -/
theorem buchberger_criterion_full_of_lex (L : Lawful F K) {o : Order} (hk : o.kind = .lex) :
    buchberger_criterion_full L o := by
  obtain ⟨k, x⟩ := o
  cases hk
  exact buchberger_criterion_full_lex L x

/-- `C11.buchberger_criterion_full` is FALSE for `DegRevLex` (`WDegRevLex(1,1)`), over GF(3) with
    the reference record: `G = [X]` passes all its hypotheses, `X^(2^64) ∈ ⟨X⟩` is a well-formed
    list, but the model's `Ld` of it is `(0,0)` (the truncated degree of `X^(2^64)` is 0 and the
    reverse tiebreak puts it below 1), which is not divisible by `Ld X = (1,0)`. -/
theorem buchberger_criterion_full_false :
    ¬ buchberger_criterion_full (C05.fieldLawful (ZMod 3))
        ({ kind := .wdegrevlex 1 1, xGtY := true } : Order) := by
  intro hcrit
  let L := C05.fieldLawful (ZMod 3)
  let o : Order := { kind := .wdegrevlex 1 1, xGtY := true }
  let G : List (BPoly (ZMod 3)) := [[((1, 0), 1)]]
  let f : BPoly (ZMod 3) := [((2 ^ 64, 0), 1)]
  have wfx : ∀ x : BPoly (ZMod 3), (keys x).Nodup → (∀ dc ∈ x, dc.2 ≠ 0) → WF L x :=
    fun x h1 h2 => ⟨h1, fun dc hdc => ⟨trivial, h2 dc hdc⟩⟩
  have hG : ∀ g ∈ G, WF L g ∧ g ≠ [] ∧ Bounded g := by
    intro g hg
    simp only [G, List.mem_singleton] at hg
    subst hg
    refine ⟨wfx _ (by decide) (by decide), by decide, ?_⟩
    intro dc hdc
    simp only [List.mem_singleton] at hdc
    subst hdc
    decide
  have hsafe : RoundSafe (C05.fieldOps (ZMod 3)) o (RunSafe (C05.fieldOps (ZMod 3)) o) G := by
    intro i j hij hj
    simp only [G, List.length_singleton] at hj
    omega
  have hz : sPairRems (C05.fieldOps (ZMod 3)) o G = some [] := by
    rw [sPairRems_nil_iff]
    intro i j hij hj
    simp only [G, List.length_singleton] at hj
    omega
  have hgb := hcrit G (by decide) hG hsafe hz
  have wf : WF L f := wfx _ (by decide) (by decide)
  have hmem : toMv L f ∈ Ideal.span ((toMv L) '' {g | g ∈ G}) := by
    have e : toMv L f = AddMonoidAlgebra.single (2 ^ 64 - 1, 0) 1 * toMv L [((1, 0), 1)] := by
      rw [toMv_single, toMv_single, AddMonoidAlgebra.single_mul_single, one_mul]
      rfl
    rw [e]
    exact Ideal.mul_mem_left _ _ (Ideal.subset_span ⟨_, by simp [G], rfl⟩)
  obtain ⟨g, hg, hdiv⟩ := hgb f wf (by decide) hmem
  simp only [G, List.mem_singleton] at hg
  subst hg
  apply hdiv
  decide +kernel

/-! ### the full C11 statement -/

/-- the generators of the object returned by `GroebnerBasis()` form a Gröbner basis of the ideal
    generated by the receiver's generators (`groebnerBasis_is_groebner_of_criterion` with the
    criterion discharged).  Hypotheses: admissible order, fresh receiver with well-formed
    generators of word size, a successful run whose S-polynomial divisions did not wrap around
    (`hsafe`, as in `buchberger_same_ideal_runOK`), and the result has no zero generator and exact
    exponents (`RunSafe` makes every appended remainder nonzero and exact, so this is a condition on
    the INPUT generators only — see `groebnerBasis_groebner` below). -/
theorem groebnerBasis_is_groebner (L : Lawful F K) {o : Order} (hadm : Order.Admissible o)
    {id gb : Ideal α} (hfresh : id.isGroebner ≠ 1) (hgens : ∀ g ∈ id.gens, WF L g ∧ Bounded g)
    (h : id.groebnerBasis F o = some gb) (hne : ∀ g ∈ gb.gens, g ≠ [])
    (hx : ∀ g ∈ gb.gens, ∀ d ∈ keys g, Exact o d)
    (hsafe : ∀ G, id.gens <+: G → G <+: gb.gens → RoundSafe F o (RunSafe F o) G) :
    IsGroebnerBasisExact L o gb.gens ∧
    Ideal.span ((toMv L) '' {g | g ∈ gb.gens}) = Ideal.span ((toMv L) '' {g | g ∈ id.gens}) := by
  rcases groebnerBasis_receiver_unchanged h with ⟨h1, -⟩ | ⟨-, -, -, -, hb, -⟩
  · exact absurd h1 hfresh
  · obtain ⟨hw, hsp⟩ := buchberger_same_ideal_runOK L hgens hb hsafe
    refine ⟨buchberger_criterion L o gb.gens hadm
      (fun g hg => ⟨(hw g hg).1, hne g hg, (hw g hg).2⟩) hx
      (hsafe gb.gens ?_ (List.prefix_refl _)) (BPoly.buchberger_spairs_zero hb), hsp⟩
    obtain ⟨e, he⟩ := BPoly.buchberger_extends hb
    exact ⟨e, he.symm⟩

/-- for `Lex`: the statement of `groebnerBasis_is_groebner_of_criterion` without the criterion
    hypothesis -/
theorem groebnerBasis_is_groebner_lex (L : Lawful F K) {o : Order} (hk : o.kind = .lex)
    {id gb : Ideal α} (hfresh : id.isGroebner ≠ 1) (hgens : ∀ g ∈ id.gens, WF L g ∧ Bounded g)
    (h : id.groebnerBasis F o = some gb) (hne : ∀ g ∈ gb.gens, g ≠ [])
    (hsafe : ∀ G, id.gens <+: G → G <+: gb.gens → RoundSafe F o (RunSafe F o) G) :
    IsGroebnerBasis L o gb.gens ∧
    Ideal.span ((toMv L) '' {g | g ∈ gb.gens}) = Ideal.span ((toMv L) '' {g | g ∈ id.gens}) :=
  groebnerBasis_is_groebner_of_criterion L (buchberger_criterion_full_of_lex L hk)
    (by unfold Order.Admissible; rw [hk]; trivial) hfresh hgens h hne hsafe

/-- **C11, complete, hypotheses on the input only**: admissible order, fresh receiver whose
    generators are well-formed, nonzero, of word size, with exact exponents (`Exact`: no condition
    for Lex; for the graded orders: the weighted degrees are machine words), and a successful run
    whose S-polynomial divisions did not wrap around.  Then the returned generators
      * are well-formed, nonzero, of word size, with exact exponents,
      * generate the ideal of the receiver's generators,
      * form a Gröbner basis of it: `BPoly.GB` (the leading-exponent property for ALL elements of
        the ideal, w.r.t. the mathematical order `tlt o`), hence `IsGroebnerBasisExact`. -/
theorem groebnerBasis_groebner (L : Lawful F K) {o : Order} (hadm : Order.Admissible o)
    {id gb : Ideal α} (hfresh : id.isGroebner ≠ 1)
    (hgens : ∀ g ∈ id.gens, WF L g ∧ g ≠ [] ∧ Bounded g ∧ ∀ d ∈ keys g, Exact o d)
    (h : id.groebnerBasis F o = some gb)
    (hsafe : ∀ G, id.gens <+: G → G <+: gb.gens → RoundSafe F o (RunSafe F o) G) :
    (∀ g ∈ gb.gens, WF L g ∧ g ≠ [] ∧ Bounded g ∧ ∀ d ∈ keys g, Exact o d) ∧
    Ideal.span ((toMv L) '' {g | g ∈ gb.gens}) = Ideal.span ((toMv L) '' {g | g ∈ id.gens}) ∧
    GB L o (Ideal.span ((toMv L) '' {g | g ∈ id.gens})) gb.gens ∧
    IsGroebnerBasisExact L o gb.gens := by
  rcases groebnerBasis_receiver_unchanged h with ⟨h1, -⟩ | ⟨-, -, -, -, hb, -⟩
  · exact absurd h1 hfresh
  · have hgood := buchberger_good L hgens hb hsafe
    have hGB := GB.of_buchberger L hadm hgens hb hsafe
    refine ⟨hgood, hGB.span hadm, hGB, ?_⟩
    intro f wf hne hfx hmem
    rw [hGB.span hadm] at hmem
    obtain ⟨g, hg, -, hd⟩ := hGB.exact hadm wf hne hfx hmem
    exact ⟨g, hg, hd⟩

/-! ### non-vacuity -/

section NonVacuity

instance (F : FOps α) (o : Order) (ig : Option Nat) (gs : List (BPoly α)) (fuel : Nat)
    (f : BPoly α) : Decidable (RunSafe F o ig gs fuel f) := by
  unfold RunSafe; infer_instance

/-- Boolean test of the guard of one round (sufficient) -/
def roundSafeB (F : FOps α) (o : Order) (gb : List (BPoly α)) : Bool :=
  (List.range gb.length).all fun j => (List.range j).all fun i =>
    match sPoly F o (gb.getD i []) (gb.getD j []) with
    | some s => decide (RunSafe F o none gb divFuel s)
    | none => true

theorem roundSafe_of_test {F : FOps α} {o : Order} {gb : List (BPoly α)}
    (h : roundSafeB F o gb = true) : RoundSafe F o (RunSafe F o) gb := by
  intro i j hij hj s hs
  unfold roundSafeB at h
  rw [List.all_eq_true] at h
  have h1 := h j (List.mem_range.2 hj)
  rw [List.all_eq_true] at h1
  have h2 := h1 i (List.mem_range.2 hij)
  have ei : gb.getD i [] = gb[i]'(by omega) := by
    simp [List.getD_eq_getElem?_getD, show i < gb.length by omega]
  have ej : gb.getD j [] = gb[j] := by simp [List.getD_eq_getElem?_getD, hj]
  rw [ei, ej, hs] at h2
  simpa using h2

/-- `XY + 2`, `Y² + 2`, `X + 2Y` over GF(3), reference record -/
def k1 : BPoly (ZMod 3) := [((1, 1), 1), ((0, 0), 2)]
def k2 : BPoly (ZMod 3) := [((0, 2), 1), ((0, 0), 2)]
def k3 : BPoly (ZMod 3) := [((1, 0), 1), ((0, 1), 2)]

theorem wf_zmod3 (x : BPoly (ZMod 3)) (h1 : (keys x).Nodup) (h2 : ∀ dc ∈ x, dc.2 ≠ 0) :
    WF (C05.fieldLawful (ZMod 3)) x := ⟨h1, fun dc hdc => ⟨trivial, h2 dc hdc⟩⟩

theorem good_k : ∀ g ∈ [k1, k2, k3], WF (C05.fieldLawful (ZMod 3)) g ∧ g ≠ [] ∧ Bounded g ∧
    ∀ d ∈ keys g, Exact lexO d := by
  intro g hg
  simp only [List.mem_cons, List.not_mem_nil, or_false] at hg
  rcases hg with rfl | rfl | rfl
  · exact ⟨wf_zmod3 _ (by decide) (by decide), by decide, by intro dc hdc; revert dc; decide,
      fun _ _ => Or.inl rfl⟩
  · exact ⟨wf_zmod3 _ (by decide) (by decide), by decide, by intro dc hdc; revert dc; decide,
      fun _ _ => Or.inl rfl⟩
  · exact ⟨wf_zmod3 _ (by decide) (by decide), by decide, by intro dc hdc; revert dc; decide,
      fun _ _ => Or.inl rfl⟩

/-- the hypotheses of `buchberger_criterion` hold for `G = [XY+2, Y²+2, X+2Y]` (three real
    S-pairs), so `G` is a Gröbner basis -/
example : IsGroebnerBasis (C05.fieldLawful (ZMod 3)) lexO [k1, k2, k3] := by
  rw [← isGroebnerBasisExact_iff_lex _ rfl]
  exact buchberger_criterion _ lexO [k1, k2, k3] trivial
    (fun g hg => ⟨(good_k g hg).1, (good_k g hg).2.1, (good_k g hg).2.2.1⟩)
    (fun g hg => (good_k g hg).2.2.2)
    (roundSafe_of_test (by decide +kernel)) (by decide +kernel)

/-- the same for a graded order (`DegLex`): all exponents and degrees are machine words -/
example : IsGroebnerBasisExact (C05.fieldLawful (ZMod 3))
    ({ kind := .wdeglex 1 1, xGtY := true } : Order) [k2, k3] := by
  refine buchberger_criterion _ _ [k2, k3] trivial ?_ ?_
    (roundSafe_of_test (by decide +kernel)) (by decide +kernel)
  · intro g hg
    simp only [List.mem_cons, List.not_mem_nil, or_false] at hg
    rcases hg with rfl | rfl
    · exact ⟨wf_zmod3 _ (by decide) (by decide), by decide, by intro dc hdc; revert dc; decide⟩
    · exact ⟨wf_zmod3 _ (by decide) (by decide), by decide, by intro dc hdc; revert dc; decide⟩
  · intro g hg
    simp only [List.mem_cons, List.not_mem_nil, or_false] at hg
    rcases hg with rfl | rfl
    · intro d hd; right; revert d; decide
    · intro d hd; right; revert d; decide

/-- the hypotheses of `groebnerBasis_groebner` hold for the run on `⟨XY+2, Y²+2⟩` -/
example :
    let F := C05.fieldOps (ZMod 3)
    let id : BPoly.Ideal (ZMod 3) := { gens := [k1, k2] }
    id.isGroebner ≠ 1 ∧
    (∀ g ∈ id.gens, WF (C05.fieldLawful (ZMod 3)) g ∧ g ≠ [] ∧ Bounded g ∧
      ∀ d ∈ keys g, Exact lexO d) ∧
    id.groebnerBasis F lexO = some ⟨[k1, k2, k3], 1, 0, 0⟩ ∧
    (∀ G, id.gens <+: G → G <+: [k1, k2, k3] → RoundSafe F lexO (RunSafe F lexO) G) := by
  intro F id
  refine ⟨by decide, fun g hg => good_k g (by
    simp only [id, List.mem_cons, List.not_mem_nil, or_false] at hg ⊢
    rcases hg with h | h <;> simp [h]), ?_, ?_⟩
  · have hb : buchberger F lexO groebnerFuel [k1, k2] = some [k1, k2, k3] := by decide +kernel
    show Ideal.groebnerBasis F lexO id = _
    unfold Ideal.groebnerBasis
    rw [if_neg (by decide), hb]; rfl
  intro gb hp1 hp2
  have e := List.prefix_iff_eq_take.1 hp2
  have l1 := hp1.length_le
  have l2 := hp2.length_le
  simp only [id, List.length_cons, List.length_nil] at l1 l2
  apply roundSafe_of_test
  have : gb.length = 2 ∨ gb.length = 3 := by omega
  rcases this with h | h
  · rw [e, h]; decide +kernel
  · rw [e, h]; decide +kernel

end NonVacuity

end C11
end Algobra
