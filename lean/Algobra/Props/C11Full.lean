/-
  Props/C11Full.lean — C11-4 closed: BUCHBERGER'S CRITERION for the model.
  (Mathematics: Proofs/Criterion.lean — abstract criterion over `AddMonoidAlgebra K (ℕ × ℕ)` for any
  monomial order; Proofs/Criterion2.lean — the mathematical order `tlt o` behind `Order.cmp o`,
  the model's `SPolynomial` is the S-polynomial, instantiation.)

  RESULT on `C11.buchberger_criterion_full L o` (Props/C11.lean), read literally:
   * it is PROVED for the lexicographic orders            (`buchberger_criterion_full_lex`);
   * it is FALSE for the graded orders                     (`buchberger_criterion_full_false`,
     refuted for `DegRevLex` over GF(3) with `G = [X]`).  Reason: `C11.IsGroebnerBasis` quantifies
     over ALL well-formed lists `f`, also with exponents whose weighted degree does not fit a
     64-bit word; for those the model's `Ld` (computed with the truncated degree `wdeg`) is not the
     leading exponent, e.g. `Ld (X^(2^64)) = (0,0)` for DegRevLex — and `X^(2^64) ∈ ⟨X⟩`.
   * the closest true statement is PROVED for every admissible order (`buchberger_criterion`):
     the same hypotheses, plus "the comparisons are exact on the exponents of `G`" (`Exact o d`:
     `o` is Lex, or `d` and its weighted degree are machine words — for Lex this is no condition),
     give the Gröbner property for all `f` whose exponents are exact (`IsGroebnerBasisExact`).
     Nothing else is assumed: in particular no hypothesis on the lcm's of the leading exponents
     (a wrapped comparison inside `SPolynomial` makes its monomial division spin until the fuel is
     exhausted, `monoDiv_ld`, so `sPairRems` would not have returned a value).
-/
import Algobra.Props.C11
import Algobra.Proofs.Criterion2

namespace Algobra
namespace C11

open BPoly

variable {α : Type} {F : FOps α} {K : Type} [Field K]

/-! ### the statement -/

/-- `BPoly.Exact o d` : the model comparison `o.cmp` is the mathematical one at `d` -/
example (o : Order) (d : Deg) : Exact o d ↔ (o.kind = .lex ∨ Order.NoOverflow o d) := Iff.rfl

/-- `BPoly.tlt o` : the mathematical monomial order behind `o.cmp` (weighted degree as a natural
    number, then the tiebreak); it is a monomial order on all of `ℕ × ℕ` … -/
theorem tlt_monomialOrder {o : Order} (hadm : Order.Admissible o) : Crit.MonOrd (tlt o) :=
  tlt_monOrd hadm

/-- … in particular a well-order (Dickson) … -/
theorem tlt_wellFounded {o : Order} (hadm : Order.Admissible o) : WellFounded (tlt o) :=
  (tlt_monOrd hadm).wf

/-- … and it is what `o.cmp` computes on exact exponent pairs -/
theorem cmp_eq_one_iff_tlt (o : Order) {a b : Deg} (ha : Exact o a) (hb : Exact o b) :
    o.cmp b a = 1 ↔ tlt o a b := BPoly.cmp_eq_one_iff o ha hb

/-- `G` is a Gröbner basis of the ideal it generates, for the polynomials the model can compare:
    the leading exponent of every nonzero member `f` of the ideal WITH EXACT EXPONENTS is divisible
    by the leading exponent of some element of `G` -/
def IsGroebnerBasisExact (L : Lawful F K) (o : Order) (G : List (BPoly α)) : Prop :=
  ∀ f : BPoly α, WF L f → f ≠ [] → (∀ d ∈ keys f, Exact o d) →
    toMv L f ∈ Ideal.span ((toMv L) '' {g | g ∈ G}) →
    ∃ g ∈ G, subDegs (ld o f) (ld o g) ≠ none

/-- for `Lex` this is `IsGroebnerBasis` -/
theorem isGroebnerBasisExact_iff_lex (L : Lawful F K) {o : Order} (hk : o.kind = .lex)
    (G : List (BPoly α)) : IsGroebnerBasisExact L o G ↔ IsGroebnerBasis L o G :=
  ⟨fun h f wf hne hmem => h f wf hne (fun _ _ => Or.inl hk) hmem,
   fun h f wf hne _ hmem => h f wf hne hmem⟩

/-- in general it is the restriction of `IsGroebnerBasis` -/
theorem IsGroebnerBasis.exact {L : Lawful F K} {o : Order} {G : List (BPoly α)}
    (h : IsGroebnerBasis L o G) : IsGroebnerBasisExact L o G :=
  fun f wf hne _ hmem => h f wf hne hmem

/-! ### Buchberger's criterion -/

/-- **BUCHBERGER'S CRITERION for the model**, every admissible order: well-formed nonzero
    generators with word-size exponents on which the comparisons are exact; all S-polynomials of
    pairs reduce to zero with respect to `G` in the model's own terms
    (`sPairRems F o G = some []`), without exponent wrap-around (`RoundSafe … RunSafe`).
    Then `G` is a Gröbner basis (for all members of the ideal with exact exponents). -/
theorem buchberger_criterion (L : Lawful F K) (o : Order) (G : List (BPoly α))
    (hadm : Order.Admissible o) (hG : ∀ g ∈ G, WF L g ∧ g ≠ [] ∧ Bounded g)
    (hGx : ∀ g ∈ G, ∀ d ∈ keys g, Exact o d)
    (hsafe : RoundSafe F o (RunSafe F o) G) (hz : sPairRems F o G = some []) :
    IsGroebnerBasisExact L o G := by
  intro f wf hne hfx hmem
  refine criterion_model L hadm hG hGx ?_ wf hne hfx hmem
  intro i j hij hj
  obtain ⟨s, qs, hs, hq⟩ := (sPairRems_nil_iff G).1 hz i j hij hj
  have := hsafe i j hij hj s hs
  exact ⟨s, qs, hs, hq, this.2.1, this.2.2⟩

/-- `C11.buchberger_criterion_full` holds, exactly as stated, for the lexicographic orders -/
theorem buchberger_criterion_full_lex (L : Lawful F K) (x : Bool) :
    buchberger_criterion_full L ({ kind := .lex, xGtY := x } : Order) := by
  intro G hadm hG hsafe hz
  rw [← isGroebnerBasisExact_iff_lex L rfl]
  exact buchberger_criterion L _ G hadm hG (fun _ _ _ _ => Or.inl rfl) hsafe hz

/-- … and for every order whose kind is `lex` -/
theorem buchberger_criterion_full_of_lex (L : Lawful F K) {o : Order} (hk : o.kind = .lex) :
    buchberger_criterion_full L o := by
  obtain ⟨k, x⟩ := o
  cases hk
  exact buchberger_criterion_full_lex L x

/-- `C11.buchberger_criterion_full` is FALSE for `DegRevLex` (`WDegRevLex(1,1)`), over GF(3) with
    the reference record: `G = [X]` passes all its hypotheses, `X^(2^64) ∈ ⟨X⟩` is a well-formed
    list, but the model's `Ld` of it is `(0,0)` (the truncated degree of `X^(2^64)` is 0 and the
    reverse tiebreak puts it below 1), which is not divisible by `Ld X = (1,0)`. -/
theorem buchberger_criterion_full_false :
    ¬ buchberger_criterion_full (C05.fieldLawful (ZMod 3))
        ({ kind := .wdegrevlex 1 1, xGtY := true } : Order) := by
  intro hcrit
  let L := C05.fieldLawful (ZMod 3)
  let o : Order := { kind := .wdegrevlex 1 1, xGtY := true }
  let G : List (BPoly (ZMod 3)) := [[((1, 0), 1)]]
  let f : BPoly (ZMod 3) := [((2 ^ 64, 0), 1)]
  have wfx : ∀ x : BPoly (ZMod 3), (keys x).Nodup → (∀ dc ∈ x, dc.2 ≠ 0) → WF L x :=
    fun x h1 h2 => ⟨h1, fun dc hdc => ⟨trivial, h2 dc hdc⟩⟩
  have hG : ∀ g ∈ G, WF L g ∧ g ≠ [] ∧ Bounded g := by
    intro g hg
    simp only [G, List.mem_singleton] at hg
    subst hg
    refine ⟨wfx _ (by decide) (by decide), by decide, ?_⟩
    intro dc hdc
    simp only [List.mem_singleton] at hdc
    subst hdc
    decide
  have hsafe : RoundSafe (C05.fieldOps (ZMod 3)) o (RunSafe (C05.fieldOps (ZMod 3)) o) G := by
    intro i j hij hj
    simp only [G, List.length_singleton] at hj
    omega
  have hz : sPairRems (C05.fieldOps (ZMod 3)) o G = some [] := by
    rw [sPairRems_nil_iff]
    intro i j hij hj
    simp only [G, List.length_singleton] at hj
    omega
  have hgb := hcrit G (by decide) hG hsafe hz
  have wf : WF L f := wfx _ (by decide) (by decide)
  have hmem : toMv L f ∈ Ideal.span ((toMv L) '' {g | g ∈ G}) := by
    have e : toMv L f = AddMonoidAlgebra.single (2 ^ 64 - 1, 0) 1 * toMv L [((1, 0), 1)] := by
      rw [toMv_single, toMv_single, AddMonoidAlgebra.single_mul_single, one_mul]
      rfl
    rw [e]
    exact Ideal.mul_mem_left _ _ (Ideal.subset_span ⟨_, by simp [G], rfl⟩)
  obtain ⟨g, hg, hdiv⟩ := hgb f wf (by decide) hmem
  simp only [G, List.mem_singleton] at hg
  subst hg
  apply hdiv
  decide +kernel

/-! ### the full C11 statement -/

/-- the generators of the object returned by `GroebnerBasis()` form a Gröbner basis of the ideal
    generated by the receiver's generators (`groebnerBasis_is_groebner_of_criterion` with the
    criterion discharged).  Hypotheses: admissible order, fresh receiver with well-formed
    generators of word size, a successful run whose S-polynomial divisions did not wrap around
    (`hsafe`, as in `buchberger_same_ideal_runOK`), and the result has no zero generator and exact
    exponents (for the graded orders: `RunSafe` makes every appended remainder exact, so this is a
    condition on the INPUT generators only — see `groebnerBasis_exact`). -/
theorem groebnerBasis_is_groebner (L : Lawful F K) {o : Order} (hadm : Order.Admissible o)
    {id gb : Ideal α} (hfresh : id.isGroebner ≠ 1) (hgens : ∀ g ∈ id.gens, WF L g ∧ Bounded g)
    (h : id.groebnerBasis F o = some gb) (hne : ∀ g ∈ gb.gens, g ≠ [])
    (hx : ∀ g ∈ gb.gens, ∀ d ∈ keys g, Exact o d)
    (hsafe : ∀ G, id.gens <+: G → G <+: gb.gens → RoundSafe F o (RunSafe F o) G) :
    IsGroebnerBasisExact L o gb.gens ∧
    Ideal.span ((toMv L) '' {g | g ∈ gb.gens}) = Ideal.span ((toMv L) '' {g | g ∈ id.gens}) := by
  rcases groebnerBasis_receiver_unchanged h with ⟨h1, -⟩ | ⟨-, -, -, -, hb, -⟩
  · exact absurd h1 hfresh
  · obtain ⟨hw, hsp⟩ := buchberger_same_ideal_runOK L hgens hb hsafe
    refine ⟨buchberger_criterion L o gb.gens hadm
      (fun g hg => ⟨(hw g hg).1, hne g hg, (hw g hg).2⟩) hx
      (hsafe gb.gens ?_ (List.prefix_refl _)) (BPoly.buchberger_spairs_zero hb), hsp⟩
    obtain ⟨e, he⟩ := BPoly.buchberger_extends hb
    exact ⟨e, he.symm⟩

/-- for `Lex`: the statement of `groebnerBasis_is_groebner_of_criterion` without the criterion
    hypothesis -/
theorem groebnerBasis_is_groebner_lex (L : Lawful F K) {o : Order} (hk : o.kind = .lex)
    {id gb : Ideal α} (hfresh : id.isGroebner ≠ 1) (hgens : ∀ g ∈ id.gens, WF L g ∧ Bounded g)
    (h : id.groebnerBasis F o = some gb) (hne : ∀ g ∈ gb.gens, g ≠ [])
    (hsafe : ∀ G, id.gens <+: G → G <+: gb.gens → RoundSafe F o (RunSafe F o) G) :
    IsGroebnerBasis L o gb.gens ∧
    Ideal.span ((toMv L) '' {g | g ∈ gb.gens}) = Ideal.span ((toMv L) '' {g | g ∈ id.gens}) :=
  groebnerBasis_is_groebner_of_criterion L (buchberger_criterion_full_of_lex L hk)
    (by unfold Order.Admissible; rw [hk]; trivial) hfresh hgens h hne hsafe

end C11
end Algobra
