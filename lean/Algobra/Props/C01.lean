/-
  Props/C01.lean — the headline corollaries of C01/C02/C03: EVERY field returned by a `Define`
  function over the real Conway database text `Gen.dbText` is a correct implementation of a finite
  field with `q` elements (`+ − × neg Inv Pow Trace`, canonical representations, `Card`, `Char`),
  its `MultGenerator()` has multiplicative order exactly `q - 1`, and `Elements()` lists each of
  the `q` elements exactly once.

  Model functions: `Algobra.Define.{prime, bin, ext, any}` (Model/Conway.lean) applied to
  `Gen.dbText` (= the `cpimport` constant of /repo/finitefield/conway), the operation records
  `Algobra.primeOps`, `Algobra.binOps`, `Algobra.extOps` (Model/Field.lean, Model/Ext.lean) and
  `C03.elementsByGen` (the `Elements()` enumeration of binfield/extfield).

  Ingredients (all proved elsewhere, none edited here):
  * C03 (`define_prime_iff`, `define_bin_iff`, `define_ext_iff`, `define_any_iff`, `card_char`,
    `generator_prime`): which `q` are accepted and which record is built;
  * C04 (`lookup_monic_lt`, `lookup_primitive`): a successful `Lookup(p, n)` on `Gen.dbText`
    returns `n + 1` coefficients below `p`, the last one `1`, and — for `p^n < 2^64` — the
    polynomial is irreducible over `ZMod p` with a root of multiplicative order `p^n - 1`;
  * C01Prime / C01Bin / C01Ext (`primeLawfulFact`, `binLawful`, `extLawful`, the `pow`/`trace`
    specifications): lawfulness of the three records under exactly these hypotheses;
  * Proofs/Assemble.lean: the bridges between the three encodings of the coefficient list
    (`toPoly2 (polyFromCoefs cs) = toPolyZMod 2 cs`, `toPoly (primeLawfulFact p _) cs =
    toPolyZMod p cs`, `Define.ext`'s `PolynomialFromUnsigned`+`Normalize` returns `cs` itself), the
    summary structure `Assemble.FieldFacts` and the enumeration lemmas.

  How to read the statements.  `Lawful F K` (Proofs/Lawful.lean) says: on the `valid`
  representations, `embed : α → K` is injective and commutes with `zero one add sub mul neg inv`,
  and `isZero isOne beq` decide `= 0`, `= 1`, `=` (C01, canonical forms, `Inv` of C02).
  `Assemble.FieldFacts L p n` adds: `p` prime, `n ≥ 1`, `|K| = p^n`, `CharP K p`, `Char() = p`,
  `Card() = p^n`, `Pow` for every exponent, `Trace = Σ_{i<n} a^(p^i)`, `MultGenerator()` valid of
  order `p^n - 1` (rest of C02, shape part of C03).

  AXIOMS.  C04's `lookup_monic_lt` and `lookup_primitive` rest on the `native_decide` sweeps of
  `Certs/TabCheck.lean`, `Certs/SweepNN.lean` (axioms `…._native.native_decide.ax_1_1`).  They are
  inherited by
      define_bin_lawful, define_ext_lawful, descOK_of_bin, descOK_of_ext, define_any_lawful,
      define_lawful, define_elements, define_elements_complete, elements_ext, lookup_some_ok
  (everything that speaks about `Define.bin`/`Define.ext`/`Define.any` on `Gen.dbText`).
  `define_prime_lawful`, `descOK_of_prime`, `IsFieldImpl.elements`, the bridges of section 0 and
  everything in Proofs/Assemble.lean depend only on propext, Classical.choice, Quot.sound.
  No `native_decide` is written in this file.
-/
import Algobra.Proofs.Assemble
import Algobra.Props.C04

open Polynomial

namespace Algobra.C01
open Algobra UPoly

/-! ## 0. bridges between the three polynomial encodings (re-exported from Proofs/Assemble.lean) -/

/-- bit mask ↔ `ZMod 2` polynomial of a list of bits (`polyFromCoefs` does not wrap for ≤ 64
    coefficients) -/
theorem toPoly2_polyFromCoefs (cs : List Nat) (h : ∀ c ∈ cs, c < 2) (hlen : cs.length ≤ 64) :
    BinField.toPoly2 (Bin.polyFromCoefs cs) = C04.toPolyZMod 2 cs :=
  Assemble.toPoly2_polyFromCoefs cs h hlen

/-- coefficient list over the lawful prime field ↔ `ZMod p` polynomial of the list -/
theorem toPoly_eq_toPolyZMod (p : Nat) [Fact p.Prime] (h32 : p - 1 < 2 ^ 32) (cs : List Nat) :
    toPoly (primeLawfulFact p h32) cs = C04.toPolyZMod p cs :=
  Assemble.toPoly_eq_toPolyZMod p h32 cs

/-- what `extfield.Define` does with a Conway list: `PolynomialFromUnsigned` (no modulus) followed
    by `Normalize` returns the list itself when it is reduced (`< p`) and monic (last entry `1`) -/
theorem ofNats_normalize_eq {p n : Nat} [Fact p.Prime] (h32 : p - 1 < 2 ^ 32) {cs g : List Nat}
    (hn : 1 ≤ n) (hlen : cs.length = n + 1) (hc : ∀ c ∈ cs, c < p)
    (hlast : cs.getLast? = some 1)
    (hg : UPoly.ofNats ⟨primeOps p, "a", none⟩ cs = some g) :
    UPoly.normalize (primeOps p) g = cs :=
  (Assemble.ext_modulus h32 hn hlen hc hlast hg).1

-- non-vacuity / sanity
example : (∀ c ∈ [1, 1, 0, 1], c < 2) ∧ [1, 1, 0, 1].length ≤ 64 := by decide
example : Bin.polyFromCoefs [1, 1, 0, 1] = 11 := by decide
example : (1 ≤ 2) ∧ [2, 2, 1].length = 2 + 1 ∧ (∀ c ∈ [2, 2, 1], c < 3) ∧
    [2, 2, 1].getLast? = some 1 := by decide
example : UPoly.ofNats ⟨primeOps 3, "a", none⟩ [2, 2, 1] = some [2, 2, 1] ∧
    UPoly.normalize (primeOps 3) [2, 2, 1] = [2, 2, 1] := by decide +kernel
-- the hypotheses matter: a non-monic list is changed by `Normalize` (2·(1 + 2a) = 2 + a)
example : UPoly.normalize (primeOps 3) [1, 2] = [2, 1] := by decide +kernel

/-! ## 1. primefield.Define -/

/-- **C01/C02/C03, prime fields.**  A field returned by `primefield.Define(q)` is `primeOps q` with
    `q` prime, `q - 1 < 2^32`; the record is lawful for `ZMod q` on the reduced words `a < q`
    (embedding: the cast), and `FieldFacts` holds with `p = q`, `n = 1`: `Card() = q = |ZMod q|`,
    `Pow`, `Trace`, and `MultGenerator()` is a reduced element of multiplicative order exactly
    `q - 1`. -/
theorem define_prime_lawful {q : Nat} (hq : q < 2 ^ 64) {d : FieldDesc}
    (h : Define.prime q = .ok d) :
    d = .prime q ∧ q.Prime ∧ q - 1 < 2 ^ 32 ∧
    ∃ (_ : Fact q.Prime) (L : Lawful (primeOps q) (ZMod q)),
      (∀ a, L.valid a ↔ a < q) ∧ (∀ a, L.embed a = ((a : ℕ) : ZMod q)) ∧
      Assemble.FieldFacts L q 1 := by
  obtain ⟨hd, hp, h32⟩ := (C03.define_prime_iff hq d).1 h
  have hF : Fact q.Prime := ⟨hp⟩
  exact ⟨hd, hp, h32, hF, primeLawfulFact q h32, fun _ => Iff.rfl, fun _ => rfl,
    Assemble.prime_field q h32⟩

-- non-vacuity
example : (7 : Nat) < 2 ^ 64 ∧ Define.prime 7 = .ok (.prime 7) := ⟨by norm_num, by decide +kernel⟩
example : (primeOps 7).gen = 3 := by decide +kernel
example : ∃ (_ : Fact (Nat.Prime 7)) (L : Lawful (primeOps 7) (ZMod 7)),
    orderOf (L.embed (primeOps 7).gen) = 7 ^ 1 - 1 := by
  obtain ⟨-, -, -, hF, L, -, -, hL⟩ :=
    define_prime_lawful (q := 7) (by norm_num) (d := .prime 7) (by decide +kernel)
  exact ⟨hF, L, hL.gen_order⟩

/-! ## 2. binfield.Define -/

/-- **C01/C02/C03, binary fields.**  A field returned by `binfield.Define(q)` over the real database
    is `binOps n m` with `q = 2^n`, `1 ≤ n ≤ 32`, `m` the bit mask of the Conway list `cs` returned by
    `Lookup(2, n)`; `m` is a modulus mask of degree `n` whose polynomial `toPoly2 m` (the `ZMod 2`
    polynomial of `cs`) is irreducible; the record is lawful for `GF(2)[X]/(m)` on the masks
    `a < 2^n` (embedding: class of `toPoly2 a`); `MultGenerator()` is embedded to the root `X`; and
    `FieldFacts` holds with `p = 2`: the field has `q` elements, `Card() = q`, `Pow`, `Trace`, and
    the generator has multiplicative order exactly `q - 1`. -/
theorem define_bin_lawful {q : Nat} (hq : q < 2 ^ 64) {d : FieldDesc}
    (h : Define.bin Gen.dbText q = .ok d) :
    ∃ n m cs, d = .bin n m ∧ q = 2 ^ n ∧ 1 ≤ n ∧ n ≤ 32 ∧
      Conway.lookupIn Gen.dbText 2 n = .ok cs ∧ m = Bin.polyFromCoefs cs ∧
      (2 ^ n ≤ m ∧ m < 2 ^ (n + 1)) ∧ BinField.toPoly2 m = C04.toPolyZMod 2 cs ∧
      Irreducible (BinField.toPoly2 m) ∧
      ∃ (_ : Fact (Irreducible (BinField.toPoly2 m)))
        (L : Lawful (binOps n m) (AdjoinRoot (BinField.toPoly2 m))),
        (∀ a, L.valid a ↔ a < 2 ^ n) ∧
        (∀ a, L.embed a = AdjoinRoot.mk (BinField.toPoly2 m) (BinField.toPoly2 a)) ∧
        L.embed (binOps n m).gen = AdjoinRoot.root (BinField.toPoly2 m) ∧
        Assemble.FieldFacts L 2 n ∧
        orderOf (L.embed (binOps n m).gen) = q - 1 := by
  obtain ⟨n, cs, rfl, h1, h32, hl, rfl⟩ := (C03.define_bin_iff Gen.dbText hq d).1 h
  obtain ⟨-, -, hlen, hlast, hc⟩ := C04.lookup_monic_lt hl
  obtain ⟨-, hord, hirr⟩ := C04.lookup_primitive hl hq
  obtain ⟨hm, hbr, hF, L, hv, he, hg, hL⟩ := Assemble.bin_field h1 h32 hlen hc hlast hirr hord
  exact ⟨n, _, cs, rfl, rfl, h1, h32, hl, rfl, hm, hbr, hF.out, hF, L, hv, he, hg, hL,
    hL.gen_order⟩

/-- from the Boolean form in which a closed lookup is evaluated (Props/C04.lean, non-vacuity
    section) to the equation used as hypothesis below -/
theorem lookup_of_check {p n : Nat} {cs : List Nat}
    (h : (match Conway.lookupIn Gen.dbText p n with | .ok cs' => cs' == cs | _ => false) = true) :
    Conway.lookupIn Gen.dbText p n = .ok cs := by
  cases hl : Conway.lookupIn Gen.dbText p n with
  | error k => rw [hl] at h; cases h
  | ok cs' =>
    rw [hl] at h
    rw [eq_of_beq h]

/- Non-vacuity.  `Conway.lookupIn Gen.dbText 2 3` is a closed term, but its String functions on the
   1 MB text do not reduce in the kernel (measured: `decide +kernel` on a 61-character prefix of the
   first 60 KB chunk runs > 5 min), and this file writes no `native_decide`; Props/C04.lean evaluates
   exactly this lookup (`= [1, 1, 0, 1]`) in an anonymous `native_decide` example.  Hence:
   (a) the instance `q = 8` is stated with the lookup fact as its only hypothesis,
   (b) the hypotheses of the assembly step `Assemble.bin_field` are proved to hold for GF(8)
       WITHOUT the database (`Assemble.gf8_irreducible`, `Assemble.gf8_order`),
   (c) abstractly, some lookup on the real text does succeed (`lookup_some_ok` below). -/
example (h : Conway.lookupIn Gen.dbText 2 3 = .ok [1, 1, 0, 1]) :
    Define.bin Gen.dbText 8 = .ok (.bin 3 11) ∧ (8 : Nat) < 2 ^ 64 :=
  ⟨(C03.define_bin_iff Gen.dbText (by norm_num) _).2
    ⟨3, [1, 1, 0, 1], by norm_num, by norm_num, by norm_num, h, by decide⟩, by norm_num⟩
example (h : Conway.lookupIn Gen.dbText 2 3 = .ok [1, 1, 0, 1]) :
    ∃ (_ : Fact (Irreducible (BinField.toPoly2 11)))
      (L : Lawful (binOps 3 11) (AdjoinRoot (BinField.toPoly2 11))),
      (∀ a, L.valid a ↔ a < 2 ^ 3) ∧ orderOf (L.embed (binOps 3 11).gen) = 8 - 1 := by
  have hd : Define.bin Gen.dbText 8 = .ok (.bin 3 11) :=
    (C03.define_bin_iff Gen.dbText (by norm_num) _).2
      ⟨3, [1, 1, 0, 1], by norm_num, by norm_num, by norm_num, h, by decide⟩
  obtain ⟨n, m, cs, hd', -, -, -, -, -, -, -, -, hF, L, hv, -, -, -, ho⟩ :=
    define_bin_lawful (by norm_num) hd
  injection hd' with hn hm
  subst hn hm
  exact ⟨hF, L, hv, ho⟩
example := Assemble.bin_field (n := 3) (cs := [1, 1, 0, 1]) (by decide) (by decide) rfl (by decide)
  rfl Assemble.gf8_irreducible Assemble.gf8_order
example : (binOps 3 11).gen = 2 := by decide +kernel

/-- abstract satisfiability: the real table is not empty, so some `Lookup` succeeds -/
theorem lookup_some_ok : ∃ p n cs, Conway.lookupIn Gen.dbText p n = .ok cs := by
  obtain ⟨hlen, -, -⟩ := C04.db_shape
  cases hdb : Conway.parseDB Gen.dbText with
  | nil => rw [hdb] at hlen; exact absurd hlen (by decide)
  | cons e t =>
    exact ⟨e.1, e.2.1, e.2.2, C04.lookup_present (by rw [hdb]; exact List.mem_cons_self)⟩

/-! ## 3. extfield.Define -/

/-- **C01/C02/C03, extension fields.**  A field returned by `extfield.Define(q)` over the real
    database is `extOps p n g` with `p` prime, `p - 1 < 2^32`, `q = p^n`, `n ≥ 1`, and `g` is the
    Conway list returned by `Lookup(p, n)` itself (`n + 1` coefficients below `p`, the last one `1`);
    `g` is a `Modulus` whose polynomial over the lawful prime field (the `ZMod p` polynomial of the
    list) is irreducible; the record is lawful for `F_p[X]/(g)` on the well-formed lists of length
    `≤ n` (embedding: class of the polynomial of the list); `MultGenerator()` is embedded to the
    root `a`; and `FieldFacts` holds: the field has `q` elements, `Card() = q` (the wrapping product
    does not wrap), `Pow`, `Trace`, and the generator has multiplicative order exactly `q - 1`. -/
theorem define_ext_lawful {q : Nat} (hq : q < 2 ^ 64) {d : FieldDesc}
    (h : Define.ext Gen.dbText q = .ok d) :
    ∃ (p n : Nat) (g : List Nat) (_ : Fact p.Prime) (h32 : p - 1 < 2 ^ 32),
      d = .ext p n g ∧ p.Prime ∧ q = p ^ n ∧ 1 ≤ n ∧
      Conway.lookupIn Gen.dbText p n = .ok g ∧
      ExtField.Modulus h32 n g ∧
      toPoly (primeLawfulFact p h32) g = C04.toPolyZMod p g ∧
      Irreducible (toPoly (primeLawfulFact p h32) g) ∧
      ∃ (_ : Fact (Irreducible (toPoly (primeLawfulFact p h32) g)))
        (L : Lawful (extOps p n g) (AdjoinRoot (toPoly (primeLawfulFact p h32) g))),
        (∀ a, L.valid a ↔ ExtField.Valid h32 n a) ∧
        (∀ a, L.embed a = AdjoinRoot.mk (toPoly (primeLawfulFact p h32) g)
          (toPoly (primeLawfulFact p h32) a)) ∧
        L.embed (extOps p n g).gen = AdjoinRoot.root (toPoly (primeLawfulFact p h32) g) ∧
        Assemble.FieldFacts L p n ∧
        orderOf (L.embed (extOps p n g).gen) = q - 1 := by
  obtain ⟨p, n, cs, g, hp, hn, rfl, h32, hl, hg, rfl⟩ := (C03.define_ext_iff Gen.dbText hq d).1 h
  obtain ⟨-, -, hlen, hlast, hc⟩ := C04.lookup_monic_lt hl
  obtain ⟨-, hord, hirr⟩ := C04.lookup_primitive hl hq
  have hF : Fact p.Prime := ⟨hp⟩
  have hnorm := (Assemble.ext_modulus h32 hn hlen hc hlast hg).1
  obtain ⟨M, hbr, hI, L, hv, he, hgen, hL⟩ :=
    Assemble.ext_field h32 hn hq hlen hc hlast hirr hord
  exact ⟨p, n, cs, hF, h32, by rw [hnorm], hp, rfl, hn, hl, M, hbr, hI.out, hI, L, hv, he, hgen,
    hL, hL.gen_order⟩

/- Non-vacuity (see the remark after `define_bin_lawful`): the instance `q = 9` with the lookup fact
   as hypothesis, and the hypotheses of the assembly step for GF(9) proved without the database. -/
example (h : Conway.lookupIn Gen.dbText 3 2 = .ok [2, 2, 1]) :
    Define.ext Gen.dbText 9 = .ok (.ext 3 2 [2, 2, 1]) ∧ (9 : Nat) < 2 ^ 64 :=
  ⟨(C03.define_ext_iff Gen.dbText (by norm_num) _).2
    ⟨3, 2, [2, 2, 1], [2, 2, 1], by norm_num, by norm_num, by norm_num, by norm_num, h,
      by decide +kernel, by decide +kernel⟩, by norm_num⟩
example (h : Conway.lookupIn Gen.dbText 3 2 = .ok [2, 2, 1]) :
    ∃ (_ : Fact (Nat.Prime 3)) (h32 : 3 - 1 < 2 ^ 32)
      (_ : Fact (Irreducible (toPoly (primeLawfulFact 3 h32) [2, 2, 1])))
      (L : Lawful (extOps 3 2 [2, 2, 1]) (AdjoinRoot (toPoly (primeLawfulFact 3 h32) [2, 2, 1]))),
      (∀ a, L.valid a ↔ ExtField.Valid h32 2 a) ∧
        orderOf (L.embed (extOps 3 2 [2, 2, 1]).gen) = 9 - 1 := by
  have hd : Define.ext Gen.dbText 9 = .ok (.ext 3 2 [2, 2, 1]) :=
    (C03.define_ext_iff Gen.dbText (by norm_num) _).2
      ⟨3, 2, [2, 2, 1], [2, 2, 1], by norm_num, by norm_num, by norm_num, by norm_num, h,
        by decide +kernel, by decide +kernel⟩
  obtain ⟨p, n, g, hF, h32, hd', -, -, -, -, -, -, -, hI, L, hv, -, -, -, ho⟩ :=
    define_ext_lawful (by norm_num) hd
  injection hd' with hp hn hg
  subst hp hn hg
  exact ⟨hF, h32, hI, L, hv, ho⟩
example := Assemble.ext_field ExtField.h32_three (n := 2) (cs := [2, 2, 1]) (by decide)
  (by norm_num) rfl (by decide) rfl Assemble.gf9_irreducible' Assemble.gf9_order
example : (extOps 3 2 [2, 2, 1]).gen = [0, 1] := by decide

/-! ## 4. uniform form and `finitefield.Define` -/

/-- `F` is a correct implementation of a finite field with `q` elements: there are a field `K`, a
    prime `p` and `n ≥ 1` with `q = p^n` such that the record is `Lawful` for `K` (C01: every
    operation agrees with `K` on the valid representations, which are canonical — `Lawful.inj`,
    `Lawful.beq_iff`; `Inv`) and `FieldFacts` holds (`|K| = q`, characteristic `p = Char()`,
    `Card() = q`, `Pow`, `Trace`, `MultGenerator()` of order exactly `q - 1`). -/
def IsFieldImpl {α : Type} (F : FOps α) (q : Nat) : Prop :=
  ∃ (K : Type) (_ : Field K) (L : Lawful F K) (p n : Nat),
    q = p ^ n ∧ Assemble.FieldFacts L p n

/-- the statement of C01/C02/C03 for a field description -/
def DescOK (q : Nat) : FieldDesc → Prop
  | .prime p => IsFieldImpl (primeOps p) q
  | .bin n m => IsFieldImpl (binOps n m) q
  | .ext p n g => IsFieldImpl (extOps p n g) q

theorem descOK_of_prime {q : Nat} (hq : q < 2 ^ 64) {d : FieldDesc}
    (h : Define.prime q = .ok d) : DescOK q d := by
  obtain ⟨rfl, -, -, hF, L, -, -, hL⟩ := define_prime_lawful hq h
  exact ⟨ZMod q, inferInstance, L, q, 1, (pow_one q).symm, hL⟩

theorem descOK_of_bin {q : Nat} (hq : q < 2 ^ 64) {d : FieldDesc}
    (h : Define.bin Gen.dbText q = .ok d) : DescOK q d := by
  obtain ⟨n, m, cs, rfl, hqn, -, -, -, -, -, -, -, hF, L, -, -, -, hL, -⟩ :=
    define_bin_lawful hq h
  exact ⟨_, inferInstance, L, 2, n, hqn, hL⟩

theorem descOK_of_ext {q : Nat} (hq : q < 2 ^ 64) {d : FieldDesc}
    (h : Define.ext Gen.dbText q = .ok d) : DescOK q d := by
  obtain ⟨p, n, g, hF, h32, rfl, -, hqn, -, -, -, -, -, hI, L, -, -, -, hL, -⟩ :=
    define_ext_lawful hq h
  exact ⟨_, inferInstance, L, p, n, hqn, hL⟩

/-- **C01/C02/C03 for `finitefield.Define`.**  A successful `finitefield.Define(q)` over the real
    database: `q = p^n` is a prime power, the result is the result of the implementation selected
    by `(p, n)` (to which `define_bin_lawful` / `define_prime_lawful` / `define_ext_lawful` apply
    verbatim), and in every case the returned description is a correct field implementation. -/
theorem define_any_lawful {q : Nat} (hq : q < 2 ^ 64) {d : FieldDesc}
    (h : Define.any Gen.dbText q = .ok d) :
    ∃ p n, p.Prime ∧ 0 < n ∧ q = p ^ n ∧
      ((p = 2 ∧ Define.bin Gen.dbText q = .ok d) ∨
       (p ≠ 2 ∧ n = 1 ∧ Define.prime q = .ok d) ∨
       (p ≠ 2 ∧ 2 ≤ n ∧ Define.ext Gen.dbText q = .ok d)) ∧
      DescOK q d := by
  obtain ⟨p, n, hp, hn, he, hcase⟩ := (C03.define_any_iff Gen.dbText hq d).1 h
  refine ⟨p, n, hp, hn, he, hcase, ?_⟩
  rcases hcase with ⟨-, hb⟩ | ⟨-, -, hpr⟩ | ⟨-, -, hx⟩
  · exact descOK_of_bin hq hb
  · exact descOK_of_prime hq hpr
  · exact descOK_of_ext hq hx

/-- **Headline.**  Every field returned by any of the four `Define` functions (over the real Conway
    database) is a correct implementation of a finite field with `q` elements whose
    `MultGenerator()` has order exactly `q - 1`; `Card() = q`, and `q` is a power of the prime
    `Char()`. -/
theorem define_lawful {q : Nat} (hq : q < 2 ^ 64) {d : FieldDesc}
    (h : Define.any Gen.dbText q = .ok d ∨ Define.prime q = .ok d ∨
      Define.bin Gen.dbText q = .ok d ∨ Define.ext Gen.dbText q = .ok d) :
    DescOK q d ∧ d.card = q ∧ d.char.Prime ∧ ∃ n, 0 < n ∧ q = d.char ^ n := by
  refine ⟨?_, C03.card_char Gen.dbText hq h⟩
  rcases h with h | h | h | h
  · obtain ⟨-, -, -, -, -, -, hd⟩ := define_any_lawful hq h
    exact hd
  · exact descOK_of_prime hq h
  · exact descOK_of_bin hq h
  · exact descOK_of_ext hq h

-- non-vacuity: `finitefield.Define(7)` (no database needed for a prime field)
example : DescOK 7 (.prime 7) :=
  (define_lawful (q := 7) (by norm_num) (Or.inr (Or.inl (by decide +kernel)))).1

/-! ## 5. Elements() -/

/-- the enumeration `0, 1, g, g², …` (`Elements()` of binfield/extfield) of a correct implementation:
    `q` entries, no repetition, `g^(q-1) = 1`; and, with respect to a witnessing `Lawful` structure
    for a field with `q` elements, the entries are exactly the valid representations — each of the
    `q` elements is listed exactly once. -/
theorem IsFieldImpl.elements {α : Type} {F : FOps α} {q : Nat} (h : IsFieldImpl F q) :
    (C03.elementsByGen F).length = q ∧ (C03.elementsByGen F).Nodup ∧
      (fun e => F.mul e F.gen)^[q - 1] F.one = F.one ∧
      ∃ (K : Type) (_ : Field K) (L : Lawful F K), Nat.card K = q ∧
        ∀ a, a ∈ C03.elementsByGen F ↔ L.valid a := by
  obtain ⟨K, hK, L, p, n, rfl, hL⟩ := h
  obtain ⟨h1, h2, h3, h4⟩ := hL.elements
  exact ⟨h1, h2, h3, K, hK, L, hL.card_K, h4⟩

/-- `Elements()` of every binary or extension field returned by a `Define` function -/
theorem define_elements {q : Nat} (hq : q < 2 ^ 64) :
    (∀ n m, Define.bin Gen.dbText q = .ok (.bin n m) →
      (C03.elementsByGen (binOps n m)).length = q ∧ (C03.elementsByGen (binOps n m)).Nodup ∧
      (fun e => (binOps n m).mul e (binOps n m).gen)^[q - 1] (binOps n m).one = (binOps n m).one) ∧
    (∀ p n g, Define.ext Gen.dbText q = .ok (.ext p n g) →
      (C03.elementsByGen (extOps p n g)).length = q ∧ (C03.elementsByGen (extOps p n g)).Nodup ∧
      (fun e => (extOps p n g).mul e (extOps p n g).gen)^[q - 1] (extOps p n g).one
        = (extOps p n g).one) := by
  constructor
  · intro n m h
    obtain ⟨h1, h2, h3, -⟩ := IsFieldImpl.elements (descOK_of_bin hq h)
    exact ⟨h1, h2, h3⟩
  · intro p n g h
    obtain ⟨h1, h2, h3, -⟩ := IsFieldImpl.elements (descOK_of_ext hq h)
    exact ⟨h1, h2, h3⟩

/-- **C03, Elements (the statement left open in Props/C03.lean as `elements_ext_full`).** -/
theorem elements_ext : C03.elements_ext_full := fun _ hq => define_elements hq

/-- completeness in the concrete vocabulary: `Elements()` of a defined binary field contains every
    mask `a < 2^n`, `Elements()` of a defined extension field every well-formed list of length
    `≤ n` -/
theorem define_elements_complete {q : Nat} (hq : q < 2 ^ 64) :
    (∀ n m, Define.bin Gen.dbText q = .ok (.bin n m) →
      ∀ a, a ∈ C03.elementsByGen (binOps n m) ↔ a < 2 ^ n) ∧
    (∀ p n g (_ : Fact p.Prime) (h32 : p - 1 < 2 ^ 32),
      Define.ext Gen.dbText q = .ok (.ext p n g) →
      ∀ a, a ∈ C03.elementsByGen (extOps p n g) ↔ ExtField.Valid h32 n a) := by
  constructor
  · intro n m h a
    obtain ⟨n', m', cs, hd, -, -, -, -, -, -, -, -, hF, L, hv, -, -, hL, -⟩ :=
      define_bin_lawful hq h
    injection hd with hn hm
    subst hn hm
    rw [hL.elements.2.2.2 a, hv a]
  · intro p n g _ h32 h a
    obtain ⟨p', n', g', hF, h32', hd, -, -, -, -, -, -, -, hI, L, hv, -, -, hL, -⟩ :=
      define_ext_lawful hq h
    injection hd with hp hn hg
    subst hp hn hg
    rw [hL.elements.2.2.2 a, hv a]

-- non-vacuity of the abstract enumeration theorem: GF(8) and GF(9) without the database
example : (C03.elementsByGen (binOps 3 11)).length = 8 ∧ (C03.elementsByGen (binOps 3 11)).Nodup := by
  obtain ⟨-, -, hF, L, -, -, -, hL⟩ := Assemble.bin_field (n := 3) (cs := [1, 1, 0, 1]) (by decide)
    (by decide) rfl (by decide) rfl Assemble.gf8_irreducible Assemble.gf8_order
  exact ⟨hL.elements.1, hL.elements.2.1⟩
example : C03.elementsByGen (binOps 3 11) = [0, 1, 2, 4, 3, 6, 7, 5] := by decide +kernel
example : C03.elementsByGen (extOps 3 2 [2, 2, 1])
    = [[0], [1], [0, 1], [1, 1], [1, 2], [2], [0, 2], [2, 2], [2, 1]] := by decide +kernel

end Algobra.C01
