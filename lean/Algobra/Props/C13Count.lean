/-
  Props/C13Count.lean — C13, the COUNTING clause: "for an ideal containing the field equations
  `X^q − X` and `Y^q − Y` the number of normal-form monomials equals the number of common zeros of
  the generators".
  (Mathematics: Proofs/Counting.lean — abstract theorem for any monomial order, via
  `K[X,Y] = I ⊕ NF` for a Gröbner basis and the Nullstellensatz over the finite field;
  Proofs/Counting2.lean — instantiation for `BPoly.GB` and the list stored by `Quotient(id)`.)

  PROVED (`count_standard_monomials`): `K` a finite field with `q` elements implemented by the
  lawful record `L`, admissible order, a fresh ideal object with good generators (well-formed,
  nonzero, word size, exact exponents), `Quotient(id)` stores `gs` and its divisions did not wrap
  around (`QuotientSafe`), and the field equations lie in `⟨id.gens⟩`.  Then
    * every standard exponent (`BPoly.IsStd o gs d` : `d` is not divisible by `Ld g` for any
      `g ∈ gs` — the predicate of `IsNF`/`reduceIn_spec`) lies in the box `[0,q)²`, so the set of
      standard monomials is finite;
    * their number is the number of `(x, y) ∈ K × K` with `g(x, y) = 0` for all `g ∈ id.gens`
      (`BPoly.evalHom`, the evaluation homomorphism of C08/C14).
  Also `count_of_groebner` (any good Gröbner basis `G` of any ideal `I ⊇ ⟨X^q − X, Y^q − Y⟩`), the
  set-theoretic form `standard_monomials_finite_ncard`, and the EXECUTABLE form
  `count_executable` : the model-side counter `stdCount` (a filter over `[0,q) × [0,q)`) equals
  `zeroCount` (a filter over `els × els` with `BPoly.eval`) for any list `els` enumerating the field.
-/
import Algobra.Props.C13Full
import Algobra.Proofs.Counting2

namespace Algobra
namespace C13

open BPoly

variable {α : Type} {F : FOps α} {K : Type} [Field K] [Fintype K] [DecidableEq K]

/-- the field equations `X^q − X`, `Y^q − Y` as elements of `K[X,Y]` -/
example (q : ℕ) : Crit.fX K q = AddMonoidAlgebra.single (q, 0) 1 - AddMonoidAlgebra.single (1, 0) 1 :=
  rfl
example (q : ℕ) : Crit.fY K q = AddMonoidAlgebra.single (0, q) 1 - AddMonoidAlgebra.single (0, 1) 1 :=
  rfl

/-- counting for ANY good Gröbner basis `G` of ANY ideal `I` containing the field equations;
    `V` is the zero set of `I` in `K × K` (`Crit.zeros I = {a | ∀ f ∈ I, f(a) = 0}`) as a `Finset` -/
theorem count_of_groebner (L : Lawful F K) {o : Order} (hadm : Order.Admissible o) {q : ℕ}
    (hq : Fintype.card K = q) {I : _root_.Ideal (AddMonoidAlgebra K (ℕ × ℕ))} {G : List (BPoly α)}
    (hGB : GB L o I G)
    (hG : ∀ g ∈ G, WF L g ∧ g ≠ [] ∧ Bounded g ∧ ∀ d ∈ keys g, Exact o d)
    (hX : Crit.fX K q ∈ I) (hY : Crit.fY K q ∈ I)
    (V : Finset (K × K)) (hV : ∀ a, a ∈ V ↔ a ∈ Crit.zeros I) :
    (∀ d, IsStd o G d → d.1 < q ∧ d.2 < q) ∧
    ((Crit.box q).filter (fun d => IsStd o G d)).card = V.card := by
  have hJ : Crit.J K q ≤ I := by
    unfold Crit.J
    rw [Ideal.span_le]
    intro g hg
    rcases hg with rfl | rfl
    · exact hX
    · exact hY
  exact hGB.count hadm hq hG hJ V hV

/-- **C13, COUNTING CLAUSE** for the list stored by `Quotient(id)` -/
theorem count_standard_monomials (L : Lawful F K) {o : Order} (hadm : Order.Admissible o)
    {q : ℕ} (hq : Fintype.card K = q) {id : BPoly.Ideal α} {gs : List (BPoly α)}
    (hfresh : id.isGroebner ≠ 1)
    (hgens : ∀ g ∈ id.gens, WF L g ∧ g ≠ [] ∧ Bounded g ∧ ∀ d ∈ keys g, Exact o d)
    (hqg : quotientGens F o id = some gs) (hsafe : QuotientSafe F o id)
    (hX : Crit.fX K q ∈ Ideal.span ((toMv L) '' {g | g ∈ id.gens}))
    (hY : Crit.fY K q ∈ Ideal.span ((toMv L) '' {g | g ∈ id.gens})) :
    (∀ d, IsStd o gs d → d.1 < q ∧ d.2 < q) ∧
    ((Crit.box q).filter (fun d => IsStd o gs d)).card =
      (Finset.univ.filter (fun a : K × K =>
        ∀ g ∈ id.gens, evalHom a.1 a.2 (toMv L g) = 0)).card := by
  have hGB := GB.of_quotientGens L hadm hfresh hgens hqg hsafe
  have hgood := (quotientGens_good L hadm hfresh hgens hqg hsafe).1
  refine count_of_groebner L hadm hq hGB hgood hX hY _ (fun a => ?_)
  rw [Finset.mem_filter, zeros_span L id.gens a]
  simp

/-- the same in terms of sets: the set of standard exponents is finite and has as many elements
    as the set of common zeros of the generators -/
theorem standard_monomials_finite_ncard (L : Lawful F K) {o : Order}
    (hadm : Order.Admissible o) {q : ℕ} (hq : Fintype.card K = q) {id : BPoly.Ideal α}
    {gs : List (BPoly α)} (hfresh : id.isGroebner ≠ 1)
    (hgens : ∀ g ∈ id.gens, WF L g ∧ g ≠ [] ∧ Bounded g ∧ ∀ d ∈ keys g, Exact o d)
    (hqg : quotientGens F o id = some gs) (hsafe : QuotientSafe F o id)
    (hX : Crit.fX K q ∈ Ideal.span ((toMv L) '' {g | g ∈ id.gens}))
    (hY : Crit.fY K q ∈ Ideal.span ((toMv L) '' {g | g ∈ id.gens})) :
    {d : ℕ × ℕ | IsStd o gs d}.Finite ∧
    {d : ℕ × ℕ | IsStd o gs d}.ncard =
      {a : K × K | ∀ g ∈ id.gens, evalHom a.1 a.2 (toMv L g) = 0}.ncard := by
  classical
  obtain ⟨h1, h2⟩ := count_standard_monomials L hadm hq hfresh hgens hqg hsafe hX hY
  have e1 : {d : ℕ × ℕ | IsStd o gs d} = ↑((Crit.box q).filter (fun d => IsStd o gs d)) := by
    ext d
    simp only [Set.mem_ofPred_eq, Finset.coe_filter]
    exact ⟨fun hd => ⟨Crit.mem_box.2 (h1 d hd), hd⟩, fun hd => hd.2⟩
  have e2 : {a : K × K | ∀ g ∈ id.gens, evalHom a.1 a.2 (toMv L g) = 0} =
      ↑(Finset.univ.filter (fun a : K × K => ∀ g ∈ id.gens, evalHom a.1 a.2 (toMv L g) = 0)) := by
    ext a
    simp
  refine ⟨by rw [e1]; exact Finset.finite_toSet _, ?_⟩
  rw [e1, e2, Set.ncard_coe_finset, Set.ncard_coe_finset, h2]

/-! ### the executable form -/

section Executable

/-- model-side counter of the standard monomials: a filter over the box `[0,q) × [0,q)` -/
def stdCount (o : Order) (gs : List (BPoly α)) (q : Nat) : Nat :=
  (((List.range q).product (List.range q)).filter (fun d => decide (IsStd o gs d))).length

/-- model-side counter of the common zeros: a filter over `els × els` with `BPoly.eval`
    (`els` = the list returned by `Elements()`) -/
def zeroCount (F : FOps α) (els : List α) (gens : List (BPoly α)) : Nat :=
  ((els.product els).filter (fun p => gens.all fun g => F.isZero (eval F g p.1 p.2))).length

omit [Field K] [Fintype K] [DecidableEq K] in
theorem stdCount_eq (o : Order) (gs : List (BPoly α)) (q : Nat) :
    stdCount o gs q = ((Crit.box q).filter (fun d => IsStd o gs d)).card := by
  unfold stdCount
  have hnd : (((List.range q).product (List.range q)).filter
      (fun d => decide (IsStd o gs d))).Nodup :=
    ((List.nodup_range).product (List.nodup_range)).filter _
  rw [← List.toFinset_card_of_nodup hnd]
  congr 1
  ext d
  simp only [List.mem_toFinset, List.mem_filter, decide_eq_true_eq, Finset.mem_filter,
    Crit.mem_box]
  constructor
  · rintro ⟨h1, h2⟩
    obtain ⟨a, b⟩ := d
    rw [List.pair_mem_product, List.mem_range, List.mem_range] at h1
    exact ⟨h1, h2⟩
  · rintro ⟨h1, h2⟩
    obtain ⟨a, b⟩ := d
    rw [List.pair_mem_product, List.mem_range, List.mem_range]
    exact ⟨h1, h2⟩

/-- the zero counter counts the common zeros, for any list `els` that enumerates the field -/
theorem zeroCount_eq (L : Lawful F K)
    (hpow : ∀ a n, L.valid a → L.valid (F.pow a n) ∧ L.embed (F.pow a n) = L.embed a ^ n)
    {els : List α} (hnd : els.Nodup) (hval : ∀ e ∈ els, L.valid e)
    (hsurj : ∀ k : K, ∃ e ∈ els, L.embed e = k) {gens : List (BPoly α)}
    (hg : ∀ g ∈ gens, CV L g) :
    zeroCount F els gens = (Finset.univ.filter (fun a : K × K =>
        ∀ g ∈ gens, evalHom a.1 a.2 (toMv L g) = 0)).card := by
  unfold zeroCount
  set P : α × α → Bool := fun p => gens.all fun g => F.isZero (eval F g p.1 p.2) with hP
  set zl := (els.product els).filter P with hzl
  have hmem : ∀ p ∈ zl, p.1 ∈ els ∧ p.2 ∈ els ∧ P p = true := by
    intro p hp
    rw [hzl, List.mem_filter] at hp
    obtain ⟨a, b⟩ := p
    rw [List.pair_mem_product] at hp
    exact ⟨hp.1.1, hp.1.2, hp.2⟩
  have hPiff : ∀ p : α × α, p.1 ∈ els → p.2 ∈ els →
      (P p = true ↔ ∀ g ∈ gens, evalHom (L.embed p.1) (L.embed p.2) (toMv L g) = 0) := by
    intro p h1 h2
    rw [hP]
    simp only [List.all_eq_true]
    apply forall₂_congr
    intro g hgm
    have hv := eval_valid L hpow (hval _ h1) (hval _ h2) (hg g hgm)
    rw [L.isZero_iff _ hv, eval_hom L hpow (hval _ h1) (hval _ h2) (hg g hgm)]
  have hzn : zl.Nodup := (hnd.product hnd).filter _
  set φ : α × α → K × K := fun p => (L.embed p.1, L.embed p.2) with hφ
  have hφn : (zl.map φ).Nodup := by
    apply List.Nodup.map_on _ hzn
    intro p hp p' hp' he
    obtain ⟨a1, a2, -⟩ := hmem p hp
    obtain ⟨b1, b2, -⟩ := hmem p' hp'
    rw [hφ] at he
    simp only [Prod.mk.injEq] at he
    exact Prod.ext (L.inj _ _ (hval _ a1) (hval _ b1) he.1) (L.inj _ _ (hval _ a2) (hval _ b2) he.2)
  rw [← List.length_map (f := φ), ← List.toFinset_card_of_nodup hφn]
  congr 1
  ext a
  simp only [List.mem_toFinset, List.mem_map, Finset.mem_filter, Finset.mem_univ, true_and]
  constructor
  · rintro ⟨p, hp, rfl⟩
    obtain ⟨a1, a2, a3⟩ := hmem p hp
    exact (hPiff p a1 a2).1 a3
  · intro ha
    obtain ⟨x, hx, ex⟩ := hsurj a.1
    obtain ⟨y, hy, ey⟩ := hsurj a.2
    refine ⟨(x, y), ?_, by rw [hφ]; exact Prod.ext ex ey⟩
    rw [hzl, List.mem_filter, List.pair_mem_product]
    refine ⟨⟨hx, hy⟩, (hPiff (x, y) hx hy).2 ?_⟩
    simp only [ex, ey]
    exact ha

/-- **C13, COUNTING CLAUSE, executable form**: the two counters agree -/
theorem count_executable (L : Lawful F K) {o : Order} (hadm : Order.Admissible o)
    {q : ℕ} (hq : Fintype.card K = q) {id : BPoly.Ideal α} {gs : List (BPoly α)}
    (hfresh : id.isGroebner ≠ 1)
    (hgens : ∀ g ∈ id.gens, WF L g ∧ g ≠ [] ∧ Bounded g ∧ ∀ d ∈ keys g, Exact o d)
    (hqg : quotientGens F o id = some gs) (hsafe : QuotientSafe F o id)
    (hX : Crit.fX K q ∈ Ideal.span ((toMv L) '' {g | g ∈ id.gens}))
    (hY : Crit.fY K q ∈ Ideal.span ((toMv L) '' {g | g ∈ id.gens}))
    (hpow : ∀ a n, L.valid a → L.valid (F.pow a n) ∧ L.embed (F.pow a n) = L.embed a ^ n)
    {els : List α} (hnd : els.Nodup) (hval : ∀ e ∈ els, L.valid e)
    (hsurj : ∀ k : K, ∃ e ∈ els, L.embed e = k) :
    stdCount o gs q = zeroCount F els id.gens := by
  rw [stdCount_eq, zeroCount_eq L hpow hnd hval hsurj (fun g hg => (hgens g hg).1.cv)]
  exact (count_standard_monomials L hadm hq hfresh hgens hqg hsafe hX hY).2

end Executable

/-! ### non-vacuity and sanity evaluation -/

section NonVacuityCount
open C11

/-- `X³ − X`, `Y³ − Y`, `Y − X²` over GF(3) (reference record) -/
def c1 : BPoly (ZMod 3) := [((3, 0), 1), ((1, 0), 2)]
def c2 : BPoly (ZMod 3) := [((0, 3), 1), ((0, 1), 2)]
def c3 : BPoly (ZMod 3) := [((0, 1), 1), ((2, 0), 2)]
/-- what `Quotient(id)` stores for Lex: `X² − Y`, `XY − X`, `Y² − Y` -/
def cgs : List (BPoly (ZMod 3)) :=
  [[((2, 0), 1), ((0, 1), 2)], [((1, 1), 1), ((1, 0), 2)], [((0, 2), 1), ((0, 1), 2)]]

theorem good_c : ∀ g ∈ [c1, c2, c3], WF (C05.fieldLawful (ZMod 3)) g ∧ g ≠ [] ∧ Bounded g ∧
    ∀ d ∈ keys g, Exact lexO d := by
  intro g hg
  simp only [List.mem_cons, List.not_mem_nil, or_false] at hg
  rcases hg with rfl | rfl | rfl
  · exact ⟨wf_zmod3 _ (by decide) (by decide), by decide, by intro dc hdc; revert dc; decide,
      fun _ _ => Or.inl rfl⟩
  · exact ⟨wf_zmod3 _ (by decide) (by decide), by decide, by intro dc hdc; revert dc; decide,
      fun _ _ => Or.inl rfl⟩
  · exact ⟨wf_zmod3 _ (by decide) (by decide), by decide, by intro dc hdc; revert dc; decide,
      fun _ _ => Or.inl rfl⟩

theorem quotientSafe_c : QuotientSafe (C05.fieldOps (ZMod 3)) lexO { gens := [c1, c2, c3] } := by
  let F := C05.fieldOps (ZMod 3)
  intro G hG
  have hb : buchberger F lexO groebnerFuel [c1, c2, c3]
      = some [c1, c2, c3, [((1, 1), 1), ((1, 0), 2)], [((0, 2), 2), ((0, 1), 1)]] := by
    decide +kernel
  have hG' : buchberger F lexO groebnerFuel [c1, c2, c3] = some G := hG
  rw [hb] at hG'
  cases hG'
  refine ⟨?_, ?_⟩
  · intro gb hp1 hp2
    have e := List.prefix_iff_eq_take.1 hp2
    have l1 := hp1.length_le
    have l2 := hp2.length_le
    simp only [List.length_cons, List.length_nil] at l1 l2
    apply roundSafe_of_test
    have : gb.length = 3 ∨ gb.length = 4 ∨ gb.length = 5 := by omega
    rcases this with h | h | h
    · rw [e, h]; decide +kernel
    · rw [e, h]; decide +kernel
    · rw [e, h]; decide +kernel
  · have hm : minimized F lexO [c1, c2, c3, [((1, 1), 1), ((1, 0), 2)], [((0, 2), 2), ((0, 1), 1)]]
        = [[((0, 1), 2), ((2, 0), 1)], [((1, 1), 1), ((1, 0), 2)], [((0, 2), 1), ((0, 1), 2)]] := by
      decide +kernel
    rw [hm]
    refine ⟨⟨trivial, by decide, by decide +kernel⟩, fun r hr => ?_⟩
    have hr' : remByOthers F lexO
        [[((0, 1), 2), ((2, 0), 1)], [((1, 1), 1), ((1, 0), 2)], [((0, 2), 1), ((0, 1), 2)]] 0
        = some [((2, 0), 1), ((0, 1), 2)] := by decide +kernel
    rw [hr'] at hr
    cases hr
    simp only [List.set_cons_zero]
    refine ⟨⟨trivial, by decide, by decide +kernel⟩, fun r hr => ?_⟩
    have hr' : remByOthers F lexO
        [[((2, 0), 1), ((0, 1), 2)], [((1, 1), 1), ((1, 0), 2)], [((0, 2), 1), ((0, 1), 2)]] 1
        = some [((1, 1), 1), ((1, 0), 2)] := by decide +kernel
    rw [hr'] at hr
    cases hr
    simp only [List.set_cons_zero, List.set_cons_succ]
    refine ⟨⟨trivial, by decide, by decide +kernel⟩, fun r hr => ?_⟩
    trivial

/-- the hypotheses of `count_standard_monomials` / `count_executable` are jointly satisfiable:
    GF(3), `I = ⟨X³ − X, Y³ − Y, Y − X²⟩`, Lex.  The stored basis is `X² − Y, XY − X, Y² − Y`; the
    standard monomials are `1, X, Y` and the common zeros `(0,0), (1,1), (2,1)`: both counters
    evaluate to 3. -/
example :
    let F := C05.fieldOps (ZMod 3)
    let L := C05.fieldLawful (ZMod 3)
    let id : BPoly.Ideal (ZMod 3) := { gens := [c1, c2, c3] }
    Fintype.card (ZMod 3) = 3 ∧ Order.Admissible lexO ∧ id.isGroebner ≠ 1 ∧
    (∀ g ∈ id.gens, WF L g ∧ g ≠ [] ∧ Bounded g ∧ ∀ d ∈ keys g, Exact lexO d) ∧
    quotientGens F lexO id = some cgs ∧ QuotientSafe F lexO id ∧
    Crit.fX (ZMod 3) 3 ∈ Ideal.span ((toMv L) '' {g | g ∈ id.gens}) ∧
    Crit.fY (ZMod 3) 3 ∈ Ideal.span ((toMv L) '' {g | g ∈ id.gens}) ∧
    (∀ a n, L.valid a → L.valid (F.pow a n) ∧ L.embed (F.pow a n) = L.embed a ^ n) ∧
    ([0, 1, 2] : List (ZMod 3)).Nodup ∧ (∀ e ∈ ([0, 1, 2] : List (ZMod 3)), L.valid e) ∧
    (∀ k : ZMod 3, ∃ e ∈ ([0, 1, 2] : List (ZMod 3)), L.embed e = k) ∧
    stdCount lexO cgs 3 = 3 ∧ zeroCount F [0, 1, 2] id.gens = 3 := by
  intro F L id
  have h2 : (2 : ZMod 3) = -1 := by decide
  refine ⟨ZMod.card 3, trivial, by decide, good_c, by decide +kernel, quotientSafe_c, ?_, ?_,
    fun a n _ => ⟨trivial, rfl⟩, by decide, fun _ _ => trivial, by decide, by decide +kernel,
    by decide +kernel⟩
  · have e : Crit.fX (ZMod 3) 3 = toMv L c1 := by
      unfold Crit.fX c1
      rw [toMv_cons, toMv_single, sub_eq_add_neg, ← AddMonoidAlgebra.single_neg]
      show _ = AddMonoidAlgebra.single (3, 0) (1 : ZMod 3) + AddMonoidAlgebra.single (1, 0) 2
      rw [h2]
    rw [e]
    exact Ideal.subset_span ⟨c1, by simp [id], rfl⟩
  · have e : Crit.fY (ZMod 3) 3 = toMv L c2 := by
      unfold Crit.fY c2
      rw [toMv_cons, toMv_single, sub_eq_add_neg, ← AddMonoidAlgebra.single_neg]
      show _ = AddMonoidAlgebra.single (0, 3) (1 : ZMod 3) + AddMonoidAlgebra.single (0, 1) 2
      rw [h2]
    rw [e]
    exact Ideal.subset_span ⟨c2, by simp [id], rfl⟩

end NonVacuityCount

section NonVacuityGraded
open C11

/-- `DegLex` -/
def degLexO : Order := { kind := .wdeglex 1 1, xGtY := true }

theorem good_c_deglex : ∀ g ∈ [c1, c2, c3], WF (C05.fieldLawful (ZMod 3)) g ∧ g ≠ [] ∧ Bounded g ∧
    ∀ d ∈ keys g, Exact degLexO d := by
  intro g hg
  simp only [List.mem_cons, List.not_mem_nil, or_false] at hg
  rcases hg with rfl | rfl | rfl
  · exact ⟨wf_zmod3 _ (by decide) (by decide), by decide, by intro dc hdc; revert dc; decide,
      by intro d hd; right; revert d; decide⟩
  · exact ⟨wf_zmod3 _ (by decide) (by decide), by decide, by intro dc hdc; revert dc; decide,
      by intro d hd; right; revert d; decide⟩
  · exact ⟨wf_zmod3 _ (by decide) (by decide), by decide, by intro dc hdc; revert dc; decide,
      by intro d hd; right; revert d; decide⟩

theorem quotientSafe_c_deglex :
    QuotientSafe (C05.fieldOps (ZMod 3)) degLexO { gens := [c1, c2, c3] } := by
  let F := C05.fieldOps (ZMod 3)
  intro G hG
  have hb : buchberger F degLexO groebnerFuel [c1, c2, c3]
      = some [c1, c2, c3, [((1, 1), 1), ((1, 0), 2)], [((0, 2), 2), ((0, 1), 1)]] := by
    decide +kernel
  have hG' : buchberger F degLexO groebnerFuel [c1, c2, c3] = some G := hG
  rw [hb] at hG'
  cases hG'
  refine ⟨?_, ?_⟩
  · intro gb hp1 hp2
    have e := List.prefix_iff_eq_take.1 hp2
    have l1 := hp1.length_le
    have l2 := hp2.length_le
    simp only [List.length_cons, List.length_nil] at l1 l2
    apply roundSafe_of_test
    have : gb.length = 3 ∨ gb.length = 4 ∨ gb.length = 5 := by omega
    rcases this with h | h | h
    · rw [e, h]; decide +kernel
    · rw [e, h]; decide +kernel
    · rw [e, h]; decide +kernel
  · have hm : minimized F degLexO
        [c1, c2, c3, [((1, 1), 1), ((1, 0), 2)], [((0, 2), 2), ((0, 1), 1)]]
        = [[((0, 1), 2), ((2, 0), 1)], [((1, 1), 1), ((1, 0), 2)], [((0, 2), 1), ((0, 1), 2)]] := by
      decide +kernel
    rw [hm]
    refine ⟨⟨trivial, by decide, by decide +kernel⟩, fun r hr => ?_⟩
    have hr' : remByOthers F degLexO
        [[((0, 1), 2), ((2, 0), 1)], [((1, 1), 1), ((1, 0), 2)], [((0, 2), 1), ((0, 1), 2)]] 0
        = some [((2, 0), 1), ((0, 1), 2)] := by decide +kernel
    rw [hr'] at hr
    cases hr
    simp only [List.set_cons_zero]
    refine ⟨⟨trivial, by decide, by decide +kernel⟩, fun r hr => ?_⟩
    have hr' : remByOthers F degLexO
        [[((2, 0), 1), ((0, 1), 2)], [((1, 1), 1), ((1, 0), 2)], [((0, 2), 1), ((0, 1), 2)]] 1
        = some [((1, 1), 1), ((1, 0), 2)] := by decide +kernel
    rw [hr'] at hr
    cases hr
    simp only [List.set_cons_zero, List.set_cons_succ]
    refine ⟨⟨trivial, by decide, by decide +kernel⟩, fun r hr => ?_⟩
    trivial

/-- the same instance for the graded order `DegLex` (exactness = all exponents and degrees are
    machine words): guards and counters -/
example :
    QuotientSafe (C05.fieldOps (ZMod 3)) degLexO { gens := [c1, c2, c3] } ∧
    (∀ g ∈ [c1, c2, c3], WF (C05.fieldLawful (ZMod 3)) g ∧ g ≠ [] ∧ Bounded g ∧
      ∀ d ∈ keys g, Exact degLexO d) ∧
    quotientGens (C05.fieldOps (ZMod 3)) degLexO { gens := [c1, c2, c3] } = some cgs ∧
    stdCount degLexO cgs 3 = 3 :=
  ⟨quotientSafe_c_deglex, good_c_deglex, by decide +kernel, by decide +kernel⟩

end NonVacuityGraded

end C13
end Algobra
