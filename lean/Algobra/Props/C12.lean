/-
  Props/C12.lean — property C12: "reduced bases are canonical; the basis predicates tell the truth"
  (Model/BPoly.lean: `Ideal`, `decideGroebner`, `Ideal.isGroebnerQ`, `leadingTerms`,
  `spannedByOthers`, `minimizeLoop`, `Ideal.minimizeBasis`, `Ideal.isMinimalQ`, `remByOthers`,
  `Ideal.reduceBasis`, `Ideal.isReducedQ`; the model of /repo/bivariate/groebner.go `IsGroebner`,
  `MinimizeBasis`, `IsMinimal`, `ReduceBasis`, `IsReduced`, ideal.go `Copy`).

  What a theorem about the model can carry:
   C12-1  every predicate computes and caches exactly its un-cached decision (`decideGroebner`,
          `decideMinimal`, `decideReduced`), is idempotent, and the flags satisfy the invariant
          `FlagsOK` after every sequence of calls on a fresh object (`flags_invariant`).
          DISCREPANCY with the planned statement "a cached flag equals the un-cached decision on the
          CURRENT generators": this is provable for the negative Gröbner / reducedness flags and
          for objects whose generators were not transformed after the decision; for POSITIVE flags
          after `MinimizeBasis`/`ReduceBasis`/`IsMinimal` (which normalise, remove or replace
          generators while keeping `isGroebner = 1`, and set `isMinimal`/`isReduced` by fiat) it
          needs the theory of Gröbner bases (Buchberger's criterion, C11-4): `flags_sound_full`.
   C12-2  `MinimizeBasis`/`ReduceBasis` report `InputValue` exactly when `IsGroebner()` is false and
          then leave the generators unchanged (`transform_errors`, `*_error_iff`).
   C12-3  `MinimizeBasis` only removes generators (`minimize_subset`), each one because its leading
          term was spanned by the others at that time (`minimize_trace`); `ReduceBasis` keeps the
          number of generators of the minimised basis (`reduce_keeps_count`).
   C12-4  the replacement loop of `ReduceBasis` keeps the ideal (`reduceLoop_span`, from the
          division equation); that the removal loop keeps the ideal needs the criterion
          (`minimize_span_full`).
  Proofs are in Proofs/Groebner.lean.
-/
import Algobra.Props.C11

namespace Algobra
namespace C12

open BPoly

variable {α : Type} {F : FOps α} {o : Order}

/-! ### C12-1 : the predicates cache exactly their decisions -/

/-- the un-cached decisions: `BPoly.decideGroebner` is part of the model; the other two are
    `BPoly.decideMinimal F o gens` (no leading term of the NORMALISED generators is divisible by
    another one) and `BPoly.decideReduced F o gens` (every generator equals its remainder modulo
    the others), both literally the code of the predicates behind their cache look-up -/
example (gens : List (BPoly α)) : decideMinimal F o gens =
    (List.range (leadingTerms F o gens).2.length).all fun i =>
      !spannedByOthers F o (leadingTerms F o gens).2 i := rfl

/-- `IsGroebner()` with an undecided flag returns and caches exactly `decideGroebner` and changes
    nothing else -/
theorem isGroebnerQ_caches {id : Ideal α} (h1 : id.isGroebner ≠ 1) (h2 : id.isGroebner ≠ -1) :
    id.isGroebnerQ F o = (decideGroebner F o id.gens).map fun b =>
      ({ id with isGroebner := if b then 1 else -1 }, b) :=
  isGroebnerQ_undecided h1 h2

/-- in every case: the object afterwards differs at most in the Gröbner flag, which then holds the
    answer; a decided flag is returned as it is -/
theorem isGroebnerQ_exact {id id' : Ideal α} {b : Bool} (h : id.isGroebnerQ F o = some (id', b)) :
    id' = { id with isGroebner := if b then 1 else -1 } ∧
    ((id.isGroebner = 1 ∧ b = true) ∨ (id.isGroebner = -1 ∧ b = false) ∨
     (id.isGroebner ≠ 1 ∧ id.isGroebner ≠ -1 ∧ decideGroebner F o id.gens = some b)) :=
  isGroebnerQ_spec h

/-- `IsMinimal()`: cached answers are returned unchanged; otherwise `false` (cached as -1) when
    `IsGroebner()` is false, else exactly `decideMinimal` of the generators, cached, and the
    generators are replaced by the normalised ones (side effect of `leadingTerms`) -/
theorem isMinimalQ_exact {id id' : Ideal α} {b : Bool} (h : id.isMinimalQ F o = some (id', b)) :
    (id.isMinimal = 1 ∧ id' = id ∧ b = true) ∨ (id.isMinimal = -1 ∧ id' = id ∧ b = false) ∨
    (id.isMinimal ≠ 1 ∧ id.isMinimal ≠ -1 ∧ ∃ id1 bg, id.isGroebnerQ F o = some (id1, bg) ∧
      ((bg = false ∧ b = false ∧ id' = { id1 with isMinimal := -1 }) ∨
       (bg = true ∧ b = decideMinimal F o id1.gens ∧
        id' = { id1 with gens := id1.gens.map (normalize F o),
                         isMinimal := if b then 1 else -1 }))) :=
  isMinimalQ_spec h

/-- `IsReduced()`: cached answers are returned unchanged; otherwise `false` (cached) when
    `IsMinimal()` is false, else exactly `decideReduced` of the (then normalised) generators -/
theorem isReducedQ_exact {id id' : Ideal α} {b : Bool} (h : id.isReducedQ F o = some (id', b)) :
    (id.isReduced = 1 ∧ id' = id ∧ b = true) ∨ (id.isReduced = -1 ∧ id' = id ∧ b = false) ∨
    (id.isReduced ≠ 1 ∧ id.isReduced ≠ -1 ∧ ∃ id1 bm, id.isMinimalQ F o = some (id1, bm) ∧
      ((bm = false ∧ b = false ∧ id' = { id1 with isReduced := -1 }) ∨
       (bm = true ∧ decideReduced F o id1.gens = some b ∧
        id' = { id1 with isReduced := if b then 1 else -1 }))) :=
  isReducedQ_spec h

/-- after each predicate the corresponding flag holds the answer … -/
theorem predicate_flags {id id' : Ideal α} {b : Bool} :
    (id.isGroebnerQ F o = some (id', b) → id'.isGroebner = if b then 1 else -1) ∧
    (id.isMinimalQ F o = some (id', b) → id'.isMinimal = if b then 1 else -1) ∧
    (id.isReducedQ F o = some (id', b) → id'.isReduced = if b then 1 else -1) :=
  ⟨isGroebnerQ_flag, isMinimalQ_flag, isReducedQ_flag⟩

/-- … so the predicates are idempotent: a second call returns the same answer and leaves the
    object as it is -/
theorem predicates_idempotent {id id' : Ideal α} {b : Bool} :
    (id.isGroebnerQ F o = some (id', b) → id'.isGroebnerQ F o = some (id', b)) ∧
    (id.isMinimalQ F o = some (id', b) → id'.isMinimalQ F o = some (id', b)) ∧
    (id.isReducedQ F o = some (id', b) → id'.isReducedQ F o = some (id', b)) :=
  ⟨isGroebnerQ_idem, isMinimalQ_idem, isReducedQ_idem⟩

/-! #### the invariant -/

/-- `FlagsOK F o id` (Proofs/Groebner.lean) :
    * `isMinimal = 1 → isGroebner = 1`, `isReduced = 1 → isMinimal = 1`;
    * `isGroebner = -1 → decideGroebner F o id.gens = some false`  (truth on the current generators);
    * `isGroebner = 1 →` some ancestor list `g0` has `decideGroebner F o g0 = some true` and the
      current generators are `Derived` from it by the library's transformations;
    * `isMinimal = -1 →` not Gröbner, or the current generators are `g0.map normalize` with
      `decideMinimal F o g0 = false`;
    * `isReduced = -1 →` not minimal, or `decideReduced F o id.gens = some false`
      (truth on the current generators).
    It holds for a fresh object and is preserved by every method: -/
theorem flagsOK_fresh (gens : List (BPoly α)) : FlagsOK F o { gens := gens } := FlagsOK.fresh gens

theorem flagsOK_preserved {id : Ideal α} (H : FlagsOK F o id) :
    (∀ id' b, id.isGroebnerQ F o = some (id', b) → FlagsOK F o id') ∧
    (∀ id' b, id.isMinimalQ F o = some (id', b) → FlagsOK F o id') ∧
    (∀ id' b, id.isReducedQ F o = some (id', b) → FlagsOK F o id') ∧
    (∀ id' r, id.minimizeBasis F o = some (id', r) → FlagsOK F o id') ∧
    (∀ id' r, id.reduceBasis F o = some (id', r) → FlagsOK F o id') ∧
    (∀ gb, id.groebnerBasis F o = some gb → FlagsOK F o gb) :=
  ⟨fun _ _ => H.isGroebnerQ, fun _ _ => H.isMinimalQ, fun _ _ => H.isReducedQ,
   fun _ _ => H.minimizeBasis, fun _ _ => H.reduceBasis, fun _ => H.groebnerBasis⟩

/-- `flags_sound` as an invariant: after ANY sequence of `IsGroebner`, `IsMinimal`, `IsReduced`,
    `MinimizeBasis`, `ReduceBasis`, `GroebnerBasis`, `Copy` on an object created by `NewIdeal` -/
theorem flags_invariant (gens : List (BPoly α)) (ops : List IdealOp) {id' : Ideal α}
    (h : IdealOp.run F o ops { gens := gens } = some id') : FlagsOK F o id' :=
  (FlagsOK.fresh gens).run ops h

/-- consequences in plain words: along any history a negative `IsGroebner()` answer is the truth
    about the generators the object holds NOW, and minimal ⇒ Gröbner, reduced ⇒ minimal -/
theorem flags_consequences (gens : List (BPoly α)) (ops : List IdealOp) {id' : Ideal α}
    (h : IdealOp.run F o ops { gens := gens } = some id') :
    (id'.isGroebner = -1 → decideGroebner F o id'.gens = some false) ∧
    (id'.isMinimal = 1 → id'.isGroebner = 1) ∧ (id'.isReduced = 1 → id'.isMinimal = 1) ∧
    (id'.isReduced = -1 → id'.isMinimal = -1 ∨ decideReduced F o id'.gens = some false) := by
  have H := flags_invariant gens ops h
  exact ⟨H.gro_neg, H.min_imp, H.red_imp, fun hr => (H.red_neg hr).imp id (·.2)⟩

/-- the object returned by `GroebnerBasis()` on an unflagged receiver passes the un-cached test -/
theorem groebnerBasis_flag_true {id gb : Ideal α} (hfresh : id.isGroebner ≠ 1)
    (h : id.groebnerBasis F o = some gb) : decideGroebner F o gb.gens = some true := by
  rcases groebnerBasis_spec h with ⟨h1, -⟩ | ⟨-, G, hG, rfl⟩
  · exact absurd h1 hfresh
  · exact decideGroebner_of_buchberger hG

/-- the object left by a positive `IsGroebner()` on an undecided receiver passes the un-cached test -/
theorem isGroebnerQ_flag_true {id id' : Ideal α} (h1 : id.isGroebner ≠ 1)
    (h : id.isGroebnerQ F o = some (id', true)) : decideGroebner F o id'.gens = some true := by
  obtain ⟨rfl, hc⟩ := isGroebnerQ_spec h
  rcases hc with ⟨h3, -⟩ | ⟨-, h3⟩ | ⟨-, -, h3⟩
  · exact absurd h3 h1
  · cases h3
  · exact h3

/-- THE FULL SOUNDNESS STATEMENT (not proved): along any history from a fresh object with
    well-formed nonzero generators, a positive flag is never contradicted by the un-cached
    decision on the current generators.  For `isGroebner` after `MinimizeBasis`/`ReduceBasis`/
    `IsMinimal` this is "scaling, removing a generator with a redundant leading term, and replacing
    a generator by its remainder keep a Gröbner basis a Gröbner basis"; for `isMinimal`/`isReduced`
    set by fiat it additionally needs monotonicity of `spannedByOthers` under removals and that the
    remainders keep their leading terms.  All of it rests on Buchberger's criterion (C11-4). -/
def flags_sound_full {K : Type} [Field K] (L : Lawful F K) (o : Order) : Prop :=
  ∀ (gens : List (BPoly α)) (ops : List IdealOp) (id' : Ideal α),
    Order.Admissible o → (∀ g ∈ gens, WF L g ∧ g ≠ [] ∧ Bounded g) →
    IdealOp.run F o ops { gens := gens } = some id' →
    (id'.isGroebner = 1 → decideGroebner F o id'.gens ≠ some false) ∧
    (id'.isMinimal = 1 → decideMinimal F o id'.gens = true) ∧
    (id'.isReduced = 1 → decideReduced F o id'.gens ≠ some false)

/-! ### C12-2 : errors of the transformations -/

/-- on an ideal whose `IsGroebner()` is `false`, both transformations return an `InputValue` error
    and leave the generators (and the minimality / reducedness flags) unchanged; the only change
    to the object is the Gröbner flag cached by `IsGroebner()` -/
theorem transform_errors {id id1 : Ideal α} (hq : id.isGroebnerQ F o = some (id1, false)) :
    id.minimizeBasis F o = some (id1, .error .inputValue) ∧
    id.reduceBasis F o = some (id1, .error .inputValue) ∧
    id1.gens = id.gens ∧ id1.isMinimal = id.isMinimal ∧ id1.isReduced = id.isReduced ∧
    id1.isGroebner = -1 :=
  ⟨minimizeBasis_of_isGroebnerQ_false hq, reduceBasis_of_isGroebnerQ_false hq,
   (Effects.isGroebnerQ_frame F o hq).1, (Effects.isGroebnerQ_frame F o hq).2.1,
   (Effects.isGroebnerQ_frame F o hq).2.2.1, (Effects.isGroebnerQ_frame F o hq).2.2.2.1⟩

/-- … and these are the only errors -/
theorem minimizeBasis_error_iff {id id' : Ideal α} {k : Kind} :
    id.minimizeBasis F o = some (id', .error k) ↔
      id.isGroebnerQ F o = some (id', false) ∧ k = .inputValue :=
  BPoly.minimizeBasis_error_iff

theorem reduceBasis_error_iff {id id' : Ideal α} {k : Kind} :
    id.reduceBasis F o = some (id', .error k) ↔
      id.isGroebnerQ F o = some (id', false) ∧ k = .inputValue :=
  BPoly.reduceBasis_error_iff

/-- the success case of `MinimizeBasis()`: Gröbner flag 1, `isMinimal = 1`, a negative reducedness
    answer is forgotten ("fix: stale isReduced flag") -/
theorem minimizeBasis_ok {id id' : Ideal α} (h : id.minimizeBasis F o = some (id', .ok ())) :
    ∃ id1, id.isGroebnerQ F o = some (id1, true) ∧
      id' = { id1 with gens := minimized F o id1.gens, isMinimal := 1,
                       isReduced := if id1.isReduced = 1 then 1 else 0 } := by
  obtain ⟨id1, b, hq, hc⟩ := minimizeBasis_spec h
  rcases hc with ⟨_, _, he⟩ | ⟨rfl, _, h3⟩
  · cases he
  · exact ⟨id1, hq, h3⟩

/-! ### C12-3 : what the transformations do to the generator list -/

/-- the generators after `MinimizeBasis()` are a sublist of the normalised generators -/
theorem minimize_subset {id id' : Ideal α} (h : id.minimizeBasis F o = some (id', .ok ())) :
    id'.gens.Sublist (id.gens.map (normalize F o)) := by
  obtain ⟨id1, hq, rfl⟩ := minimizeBasis_ok h
  rw [← (Effects.isGroebnerQ_frame F o hq).1]
  exact minimized_sublist id1.gens

/-- every removed generator's leading term was spanned by the leading terms of the others present
    at the time of its removal (`MinTrace`, Proofs/Groebner.lean) -/
theorem minimize_trace {id id' : Ideal α} (h : id.minimizeBasis F o = some (id', .ok ())) :
    MinTrace F o (id.gens.map (normalize F o)) ((id.gens.map (normalize F o)).map (lt F o))
      id'.gens := by
  obtain ⟨id1, hq, rfl⟩ := minimizeBasis_ok h
  rw [← (Effects.isGroebnerQ_frame F o hq).1]
  exact minimized_trace id1.gens

/-- the loop itself, for any state -/
theorem minimizeLoop_sublist (fuel i : Nat) (gens lts : List (BPoly α)) :
    (minimizeLoop F o fuel i gens lts).Sublist gens := BPoly.minimizeLoop_sublist fuel i gens lts

/-- `ReduceBasis()` keeps the number of generators of the minimised basis (of the receiver's own
    list when that is already flagged minimal) -/
theorem reduce_keeps_count {id id' : Ideal α} (h : id.reduceBasis F o = some (id', .ok ())) :
    ∃ id1, id.isGroebnerQ F o = some (id1, true) ∧
      id'.gens.length = (if id1.isMinimal = 1 then id.gens else minimized F o id.gens).length ∧
      id'.isGroebner = 1 ∧ id'.isMinimal = 1 ∧ id'.isReduced = 1 := by
  obtain ⟨id1, bg, hq, hc⟩ := reduceBasis_spec h
  rcases hc with ⟨_, _, he⟩ | ⟨rfl, -, idm, gens, hM, hl, rfl⟩
  · cases he
  · have hg := (Effects.isGroebnerQ_frame F o hq).1
    have hf : id1.isGroebner = 1 := isGroebnerQ_flag hq
    refine ⟨id1, hq, ?_⟩
    have hlen := reduceLoop_length hl
    by_cases hmin : id1.isMinimal = 1
    · rw [if_neg (by simpa using hmin)] at hM
      cases hM
      rw [if_pos hmin, ← hg]
      exact ⟨hlen, hf, hmin, rfl⟩
    · rw [if_pos hmin] at hM
      rw [minimizeBasis_of_isGroebnerQ_true (isGroebnerQ_idem hq)] at hM
      simp only [Option.map_some, Option.some.injEq] at hM
      subst hM
      rw [if_neg hmin, ← hg]
      exact ⟨hlen, hf, rfl, rfl⟩

/-- the replacement loop keeps the length -/
theorem reduceLoop_length {g0 g' : List (BPoly α)} (h : reduceLoop F o g0 = some g') :
    g'.length = g0.length := BPoly.reduceLoop_length h

/-! ### C12-4 : the ideal is preserved -/

section Span
variable {K : Type} [Field K] {L : Lawful F K}
  {Safe : Option Nat → List (BPoly α) → Nat → BPoly α → Prop}

/-- one replacement `g_i ↦ rem(g_i; others)` keeps the ideal (from the division equation; the
    quotient at the ignored index stays zero) -/
theorem remByOthers_span (hdiv : DivSpec L o Safe) {g : List (BPoly α)} (hg : ∀ x ∈ g, WF L x)
    {i : Nat} (hi : i < g.length) (hsafe : Safe (some i) g divFuel (g.getD i []))
    {r : BPoly α} (h : remByOthers F o g i = some r) :
    WF L r ∧ Ideal.span ((toMv L) '' {x | x ∈ g.set i r}) = Ideal.span ((toMv L) '' {x | x ∈ g}) :=
  BPoly.remByOthers_span hdiv hg hi hsafe h

/-- the whole replacement loop of `ReduceBasis()` keeps the ideal, the well-formedness and the
    number of generators -/
theorem reduceLoop_span (hdiv : DivSpec L o Safe) {g0 g' : List (BPoly α)}
    (hg0 : ∀ x ∈ g0, WF L x) (hsafe : ReduceSafe F o Safe (List.range g0.length) g0)
    (h : reduceLoop F o g0 = some g') :
    (∀ x ∈ g', WF L x) ∧
    Ideal.span ((toMv L) '' {x | x ∈ g'}) = Ideal.span ((toMv L) '' {x | x ∈ g0}) ∧
    g'.length = g0.length :=
  BPoly.reduceLoop_span hdiv hg0 hsafe h

/-- `ReduceBasis()` on an object already flagged Gröbner and minimal: same ideal (division
    hypothesis discharged from Proofs/BPolyDiv.lean; the guard `RunSafe` = admissible order, word
    size exponents and weighted degrees, no wrap-around during the runs) -/
theorem reduceBasis_span (L : Lawful F K) {id id' : Ideal α} (hg : id.isGroebner = 1)
    (hm : id.isMinimal = 1) (hw : ∀ x ∈ id.gens, WF L x)
    (hsafe : ReduceSafe F o (C11.RunSafe F o) (List.range id.gens.length) id.gens)
    {res : Except Kind Unit} (h : id.reduceBasis F o = some (id', res)) :
    res = .ok () ∧ (∀ x ∈ id'.gens, WF L x) ∧
    Ideal.span ((toMv L) '' {x | x ∈ id'.gens}) = Ideal.span ((toMv L) '' {x | x ∈ id.gens}) := by
  obtain ⟨id1, bg, hq, hc⟩ := reduceBasis_spec h
  rw [Effects.isGroebnerQ_of_one F o hg] at hq
  cases hq
  rcases hc with ⟨hb, -, -⟩ | ⟨-, hres, idm, gens, hM, hl, rfl⟩
  · cases hb
  · rw [if_neg (by simpa using hm)] at hM
    cases hM
    obtain ⟨c1, c2, -⟩ := BPoly.reduceLoop_span (C11.divSpec_holds L o) hw hsafe hl
    exact ⟨hres, c1, c2⟩

/-- NOT PROVED: `MinimizeBasis()` keeps the ideal.  Normalising keeps it (a unit multiple), but
    removing a generator whose LEADING TERM is divisible by another one's keeps the ideal only
    because the list is a Gröbner basis (the removed generator then reduces to zero modulo the
    others) — this needs Buchberger's criterion `C11.buchberger_criterion_full`. -/
def minimize_span_full (L : Lawful F K) (o : Order) : Prop :=
  C11.buchberger_criterion_full L o → Order.Admissible o →
  ∀ (gens : List (BPoly α)) (ops : List IdealOp) (id id' : Ideal α),
    (∀ g ∈ gens, WF L g ∧ g ≠ [] ∧ Bounded g) → IdealOp.run F o ops { gens := gens } = some id →
    id.minimizeBasis F o = some (id', .ok ()) →
    Ideal.span ((toMv L) '' {x | x ∈ id'.gens}) = Ideal.span ((toMv L) '' {x | x ∈ id.gens})

end Span

/-! ### non-vacuity and sanity evaluations (GF(3), Lex; `g1 = XY + 2`, `g2 = Y² + 2`) -/

section Examples
open C11

def showI (x : Option (BPoly.Ideal Nat × Bool)) : Option (List (BPoly Nat) × List Int × Bool) :=
  x.map fun p => (p.1.gens, [p.1.isGroebner, p.1.isMinimal, p.1.isReduced], p.2)

def showT (x : Option (BPoly.Ideal Nat × Except Kind Unit)) :
    Option (List (BPoly Nat) × List Int × Bool) :=
  x.map fun p => (p.1.gens, [p.1.isGroebner, p.1.isMinimal, p.1.isReduced],
    match p.2 with | .ok _ => true | .error _ => false)

/-- `[g1, g2]` is not a Gröbner basis: `IsGroebner()` answers false and caches -1 … -/
example : showI (({ gens := [g1, g2] } : BPoly.Ideal Nat).isGroebnerQ F3 lexO) =
    some ([g1, g2], [-1, 0, 0], false) := by decide +kernel

/-- … so the hypothesis of `transform_errors` is satisfied and `MinimizeBasis()` fails -/
example : showT (({ gens := [g1, g2] } : BPoly.Ideal Nat).minimizeBasis F3 lexO) =
    some ([g1, g2], [-1, 0, 0], false) := by decide +kernel

/-- `GroebnerBasis()` then `ReduceBasis()`: `g1 = XY + 2` is removed (its leading term is divisible
    by that of `g3 = X + 2Y`), two generators remain, all flags are 1 -/
example : showT (({ gens := [g1, g2, g3], isGroebner := 1 } : BPoly.Ideal Nat).reduceBasis F3 lexO) =
    some ([g2, g3], [1, 1, 1], true) := by decide +kernel

example : showT (({ gens := [g1, g2, g3], isGroebner := 1 } : BPoly.Ideal Nat).minimizeBasis F3 lexO) =
    some ([g2, g3], [1, 1, 0], true) := by decide +kernel

example : showI (({ gens := [g2, g3], isGroebner := 1 } : BPoly.Ideal Nat).isReducedQ F3 lexO) =
    some ([g2, g3], [1, 1, 1], true) := by decide +kernel

/-- a sequence of calls as in `flags_invariant` -/
example : (IdealOp.run F3 lexO [.isGroebner, .groebnerBasis, .reduceBasis, .isReduced]
      { gens := [g1, g2] }).map (fun i => (i.gens, i.isGroebner, i.isMinimal, i.isReduced)) =
    some ([g2, g3], 1, 1, 1) := by decide +kernel

end Examples

end C12
end Algobra
