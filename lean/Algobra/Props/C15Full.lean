/-
  Props/C15Full.lean — property C15 (printing and parsing are mutually inverse): round trips proved
  about the model's parsers `Bin.parse`, `UPoly.parse`, `Ext.parse`, which for simple variable
  names (`Parse.simpleName` = `C15.AdmissibleName`) take their matches from the total tokenisers of
  `Model/Parse.lean` (the regex-engine versions `parseRx`/`stringToMapRx` remain for other names).

  Proved here (default notation of the printers):
  * `bin_roundtrip`, `bin_roundtrip_define`, `bin_elemRoundTrip` — binary-field elements;
  * `upoly_roundtrip_generic` — univariate polynomials over any lawful coefficient record whose
    coefficient syntax satisfies `ParseRT.CoefRT` (the coefficient scanner reads printed elements
    back), every quotient ring, every admissible variable name;
  * `prime_coefRT`, `prime_upoly_roundtrip`, `prime_upoly_roundtrip_beq` — its instance for prime
    fields;
  * `ext_roundtrip`, `ext_elemRoundTrip` — extension-field elements.
  Still only stated (`C15.C15_full`, and `C15Full_remaining` below): univariate polynomials over
  binary/extension fields (needs `CoefRT (binOps …)`, `CoefRT (extOps …)`: the parenthesised
  coefficient scanner on printed elements), bivariate polynomials, additivity, the notational
  variations.
-/
import Algobra.Props.C15
import Algobra.Props.C03
import Algobra.Proofs.ParseRTPoly
import Algobra.Proofs.ExtField

namespace Algobra.C15
open Algobra Algobra.Strings Algobra.Parse Algobra.ParseRT Algobra.UPoly Polynomial

theorem admissible_iff_simple (v : String) : AdmissibleName v ↔ simpleName v = true :=
  simpleName_iff.symm

/-! ### 1. binary-field elements -/

/-- Round trip of binary-field elements: for every admissible variable name, every field width
    `n < 64` (`binfield.Define` allows `n ≤ 32`) and every canonical element `a < 2^n`, parsing the
    printed form returns `a`. -/
theorem bin_roundtrip {v : String} (hv : AdmissibleName v) {n m a : Nat} (hn : n < 64)
    (ha : a < 2 ^ n) : Bin.parse n m v (Bin.toStr v n a) = .ok a :=
  bin_parse_toStr ((admissible_iff_simple v).1 hv) hn ha

/-- `bin_roundtrip_full` of `Props/C15.lean` for every cardinality that fits a machine word -/
theorem bin_roundtrip_define {q n m : Nat} {v : String} (hq : q < 2 ^ 64)
    (hd : Define.bin Gen.dbText q = .ok (.bin n m)) (hv : AdmissibleName v) {a : Nat}
    (ha : a < 2 ^ n) : Bin.parse n m v (Bin.toStr v n a) = .ok a := by
  obtain ⟨n', cs, _, _, hn, _, he⟩ := (C03.define_bin_iff Gen.dbText hq _).1 hd
  injection he with h1 h2
  subst h1
  exact bin_roundtrip hv (by omega) ha

theorem bin_elemRoundTrip {v : String} (hv : AdmissibleName v) {n : Nat} (m : Nat) (hn : n < 64) :
    ElemRoundTrip (binSpec n m v) := by
  intro a ha
  exact ⟨a, bin_roundtrip hv hn ha, by show (a == a) = true; simp⟩

-- non-vacuity
example : AdmissibleName "t2" := ⟨'t', ['2'], by decide, by decide, by decide⟩
example : Bin.parse 3 11 "t2" (Bin.toStr "t2" 3 5) = .ok 5 :=
  bin_roundtrip ⟨'t', ['2'], by decide, by decide, by decide⟩ (by decide) (by decide)

/-! ### 2. univariate polynomials, generic coefficient field -/

/-- the hypothesis "the polynomial variable cannot be confused with the field's own variable", in
    the form the tokeniser lemmas use it -/
theorem strip_none_of_unconfusable {v w : String} (h : Unconfusable v w) (X : List Char) :
    strip w.toList (v.toList ++ X) = none := by
  cases hs : strip w.toList (v.toList ++ X) with
  | none => rfl
  | some r =>
    exfalso
    have e := strip_eq_some hs
    -- `w` and `v` are both prefixes of the same list: one is a prefix of the other
    have hp : w.toList <+: v.toList ∨ v.toList <+: w.toList :=
      List.prefix_or_prefix_of_prefix (l₃ := v.toList ++ X) ⟨r, e.symm⟩ ⟨X, rfl⟩
    have hl : ∀ {a b : List Char}, a <+: b → a.map Regex.lower <+: b.map Regex.lower := by
      rintro a b ⟨t, rfl⟩; exact ⟨t.map Regex.lower, by simp⟩
    unfold Unconfusable UPoly.strLower at h
    simp only [String.toList_ofList] at h
    rcases hp with hp | hp
    · exact h.2 (hl hp)
    · exact h.1 (hl hp)

/-- Round trip of univariate polynomials (default notation) over any lawful coefficient record `F`
    whose coefficient syntax reads printed elements back (`CoefRT`), in the ring or quotient ring
    `R = F[v]/(mod)`: a well-formed (canonical slice of valid coefficients), reduced polynomial of
    at most `2^63` coefficients (a Go slice cannot be longer) is returned by the parser. -/
theorem upoly_roundtrip_generic {α K : Type} [Field K] {F : FOps α} (L : Lawful F K)
    (H : CoefRT F L.valid) (hz1 : F.toStr F.zero = "0") (hz2 : ¬ F.nTerms F.zero > 1)
    (hown : ∀ w, F.ownVar = some w → AdmissibleName w)
    {v : String} (hv : AdmissibleName v) (hun : ∀ w, F.ownVar = some w → Unconfusable v w)
    (mod : Option (UPoly α)) {f : UPoly α} (hf : WF L f) (hlen : f.length ≤ 2 ^ 63)
    (hred : reduceIn { F := F, varName := v, modulus := mod } f = some f) :
    UPoly.parse { F := F, varName := v, modulus := mod } (UPoly.toStr F v f) = .ok (some f) := by
  refine upoly_parse_toStr L H hz1 hz2 ?_ (fun w X hw => strip_none_of_unconfusable (hun w hw) X)
    mod hf hlen hred
  unfold UPoly.directOK
  rw [(admissible_iff_simple v).1 hv, Bool.true_and]
  cases hw : F.ownVar with
  | none => rfl
  | some w => exact (admissible_iff_simple w).1 (hown w hw)


/-! ### 3. prime fields -/

theorem prime_coefText (p c : Nat) : coefText (primeOps p) c = (toString c).toList := by
  unfold coefText
  have : ¬ (primeOps p).nTerms c > 1 := by show ¬ (1 > 1); omega
  rw [if_neg this]; rfl

/-- the coefficient syntax of prime fields (`[0-9]*`) reads printed elements back -/
theorem prime_coefRT {p : Nat} (hp : 2 ≤ p) (h64 : p ≤ 2 ^ 64) :
    CoefRT (primeOps p) (fun a => a < p) where
  scan := by
    intro c _ X hX
    rw [prime_coefText]
    show scanCoef none _ = _
    unfold scanCoef
    rw [dropDigits_append (toString_digits c) (fun y hy => (hX.1 y hy).1)]
  parse := by
    intro c hc
    rw [prime_coefText, String.ofList_toList]
    have hd := isDigits_toString c
    obtain ⟨hne, hall⟩ := (isDigits_iff_toList _).1 hd
    have h1 : ∀ y ∈ (toString c).toList.head?, (y == '(' || y == ')') = false := by
      intro y hy
      have := hall y (List.mem_of_mem_head? hy)
      cases h : (y == '(' || y == ')') with
      | false => rfl
      | true =>
        rcases Bool.or_eq_true_iff.1 h with e | e <;>
          (have := eq_of_beq e; subst this; exact absurd this (by decide))
    have h2 : ∀ y ∈ (toString c).toList.getLast?, (y == '(' || y == ')') = false := by
      intro y hy
      have := hall y (List.mem_of_getLast? hy)
      cases h : (y == '(' || y == ')') with
      | false => rfl
      | true =>
        rcases Bool.or_eq_true_iff.1 h with e | e <;>
          (have := eq_of_beq e; subst this; exact absurd this (by decide))
    rw [trimParens_plain h1 h2]
    exact prime_roundtrip h64 hc
  head := by
    intro c _
    rw [prime_coefText]
    obtain ⟨hne, hall⟩ := (isDigits_iff_toList _).1 (isDigits_toString c)
    obtain ⟨y, t, e⟩ := List.exists_cons_of_ne_nil hne
    refine ⟨y, t, e, ?_⟩
    have hy : y.isDigit = true := hall y (by rw [e]; simp)
    have := alnum_forall (P := fun y => y.isDigit = true → (Regex.isWs y = false ∧ isSign y = false))
      (by decide) (c := y) (by simp [Char.isAlphanum, hy])
    exact this hy
  one := by
    intro c _ h
    have : c = 1 := by simpa using (show (c == 1) = true from h)
    show c = 1 % p
    rw [this, Nat.mod_eq_of_lt (by omega)]
  own := by intro w hw; cases hw

/-- Round trip of univariate polynomials over a prime field (default notation), in any ring or
    quotient ring `F_p[v]/(mod)`, for every admissible variable name: a canonical, reduced
    polynomial with coefficients `< p` and at most `2^63` coefficients is returned by the parser.
    (`primefield.Define` accepts exactly the primes with `p - 1 < 2^32`: `C03.define_prime_iff`.) -/
theorem prime_upoly_roundtrip {p : Nat} (hp : p.Prime) (h32 : p - 1 < 2 ^ 32) {v : String}
    (hv : AdmissibleName v) (mod : Option (UPoly Nat)) {f : UPoly Nat}
    (hcanon : UPoly.Canon (primeOps p) f) (hlt : ∀ c ∈ f, c < p) (hlen : f.length ≤ 2 ^ 63)
    (hred : reduceIn { F := primeOps p, varName := v, modulus := mod } f = some f) :
    UPoly.parse { F := primeOps p, varName := v, modulus := mod } (UPoly.toStr (primeOps p) v f) =
      .ok (some f) := by
  have := Fact.mk hp
  exact upoly_roundtrip_generic (primeLawfulFact p h32)
    (prime_coefRT hp.two_le (by omega)) (by show toString (0 : Nat) = "0"; decide)
    (by show ¬ (1 > 1); omega)
    (fun w hw => by cases hw) hv (fun w hw => by cases hw) mod ⟨hlt, hcanon⟩ hlen hred

/-- the same in the form of `UPolyRoundTrip` (first clause, default notation): the parsed
    polynomial is `Equal` to the original -/
theorem prime_upoly_roundtrip_beq {p : Nat} (hp : p.Prime) (h32 : p - 1 < 2 ^ 32) {v : String}
    (hv : AdmissibleName v) (mod : Option (UPoly Nat)) {f : UPoly Nat}
    (hf : UValid (primeSpec p) { F := primeOps p, varName := v, modulus := mod } f)
    (hlen : f.length ≤ 2 ^ 63) :
    ∃ g, UPoly.parse { F := primeOps p, varName := v, modulus := mod }
        (uToStrN {} (primeOps p) v f) = .ok (some g) ∧ UPoly.equal (primeOps p) f g = true := by
  have := Fact.mk hp
  obtain ⟨hcanon, hlt, hred⟩ := hf
  refine ⟨f, ?_, ?_⟩
  · rw [uToStrN_default]
    exact prime_upoly_roundtrip hp h32 hv mod hcanon hlt hlen hred
  · exact (equal_iff_eq (primeLawfulFact p h32) hlt hlt).2 rfl

/-- for the cardinalities `primefield.Define` accepts -/
theorem prime_upoly_roundtrip_define {p : Nat} (hq : p < 2 ^ 64)
    (hd : Define.prime p = .ok (.prime p)) {v : String} (hv : AdmissibleName v)
    (mod : Option (UPoly Nat)) {f : UPoly Nat}
    (hf : UValid (primeSpec p) { F := primeOps p, varName := v, modulus := mod } f)
    (hlen : f.length ≤ 2 ^ 63) :
    ∃ g, UPoly.parse { F := primeOps p, varName := v, modulus := mod }
        (UPoly.toStr (primeOps p) v f) = .ok (some g) ∧ UPoly.equal (primeOps p) f g = true := by
  obtain ⟨_, hp, h32⟩ := (C03.define_prime_iff hq _).1 hd
  have := prime_upoly_roundtrip_beq hp h32 hv mod hf hlen
  rwa [uToStrN_default] at this

-- non-vacuity: 3X^2 + X + 5 in F_7[X], and in F_7[X]/(X^3 + 1)
example : (7 : Nat).Prime ∧ (7 : Nat) - 1 < 2 ^ 32 := ⟨by norm_num, by norm_num⟩
example : UPoly.parse { F := primeOps 7, varName := "X", modulus := none } "3X^2 + X + 5" =
    .ok (some [5, 1, 3]) := by
  have h := prime_upoly_roundtrip (p := 7) (by norm_num) (by norm_num) (v := "X")
    ⟨'X', [], by decide, by decide, by decide⟩ none (f := [5, 1, 3])
    ⟨by simp, fun _ => by decide⟩ (by decide) (by decide) rfl
  have e : UPoly.toStr (primeOps 7) "X" [5, 1, 3] = "3X^2 + X + 5" := by decide
  rwa [e] at h


/-! ### 4. extension-field elements -/

section Ext
variable {p : Nat} [Fact p.Prime] {h32 : p - 1 < 2 ^ 32} {n : Nat} {g : List Nat}

/-- a valid element (well-formed, fewer than `n + 1` coefficients) is already reduced -/
theorem ext_reduce_valid (M : ExtField.Modulus h32 n g) {a : UPoly Nat}
    (ha : ExtField.Valid h32 n a) : reduceIn (Ext.ring p g) a = some a := by
  obtain ⟨f', h1, h2, h3, _⟩ := reduceIn_spec M.isQuot ha.1
  have : toPoly (ExtField.PL h32) f' = toPoly (ExtField.PL h32) a := by
    exact h3.trans ((Polynomial.modByMonic_eq_self_iff M.monic).2 (ha.degree_lt M))
  rw [h1, toPoly_injective_on_WF _ h2 ha.1 this]

/-- Round trip of extension-field elements: in `F_p[a]/(g)` with `g` monic of degree `n ≥ 1`
    (`ExtField.Modulus`, what `extfield.Define` produces: `C01.define_ext_lawful`), parsing the
    printed form of a valid element (canonical slice, coefficients `< p`, length `≤ n`) returns
    it. `n ≤ 2^63` holds for every field whose cardinality fits a machine word. -/
theorem ext_roundtrip (M : ExtField.Modulus h32 n g) (hn : n ≤ 2 ^ 63) {a : UPoly Nat}
    (ha : ExtField.Valid h32 n a) : Ext.parse p g ((extOps p n g).toStr a) = .ok a := by
  have hp : p.Prime := Fact.out
  have h := prime_upoly_roundtrip hp h32 (v := "a") ⟨'a', [], by decide, by decide, by decide⟩
    (some g) ha.1.2 ha.1.1 (by have := ha.2; omega) (ext_reduce_valid M ha)
  show Ext.parse p g (UPoly.toStr (primeOps p) "a" a) = .ok a
  unfold Ext.parse Ext.ring
  rw [h]

theorem ext_elemRoundTrip (M : ExtField.Modulus h32 n g) (hn : n ≤ 2 ^ 63) :
    ElemRoundTrip (extSpec p n g) := by
  intro a ha
  have hv : ExtField.Valid h32 n a := ⟨⟨ha.2.2, ha.1⟩, ha.2.1⟩
  refine ⟨a, ext_roundtrip M hn hv, ?_⟩
  exact (equal_iff_eq (ExtField.PL h32) hv.1.1 hv.1.1).2 rfl

end Ext

/- For the fields `extfield.Define` returns (cardinality `q < 2^64`) the hypotheses of
   `ext_elemRoundTrip` are supplied by `C01.define_ext_lawful` (`ExtField.Modulus h32 n g`, and
   `n < 64` from `q = p^n`): `ElemRoundTrip (extSpec p n g)` follows by one application.  That
   theorem rests on the Conway-database certificates of C04 (`native_decide` sweeps, admitted for
   C04 only), so the instantiation is not stated in this file, which stays free of them. -/

-- non-vacuity: GF(9) = F_3[a]/(a^2 + 2a + 2), element 2a + 1
example : Ext.parse 3 [2, 2, 1] "2a + 1" = .ok [1, 2] := by
  have h := ext_roundtrip (p := 3) ExtField.gf9_modulus (by norm_num) (a := [1, 2])
    (ExtField.gf9_valid (by decide) ⟨by simp, fun _ => by decide⟩ (by decide))
  have e : (extOps 3 2 [2, 2, 1]).toStr [1, 2] = "2a + 1" := by decide
  rwa [e] at h

/-! ### 5. what remains of `C15_full` -/

/-- NOT PROVED. The parts of `C15_full` that are still only validated by the correspondence run:
    univariate polynomials over binary and extension fields (missing: `CoefRT` for `binOps` /
    `extOps`, i.e. that `Parse.scanCoefNamed` consumes exactly a printed element, parenthesised
    when it has several terms — then `upoly_roundtrip_generic` applies as it stands), bivariate
    polynomials (`Parse.matchesB`), additivity and the notational variations for all of them.
    Also note: `UPolyRoundTrip` as stated in `Props/C15.lean` has no bound on the number of
    coefficients; an exponent `≥ 2^63` is a `strconv.ParseInt` range error, so the provable
    statement carries `f.length ≤ 2^63` (a Go slice cannot be longer). -/
def C15Full_remaining : Prop :=
  (∀ p, Define.prime p = .ok (.prime p) → BPolyRoundTrip (primeSpec p)) ∧
  (∀ q n m v, Define.bin Gen.dbText q = .ok (.bin n m) → AdmissibleName v →
    UPolyRoundTrip (binSpec n m v) ∧ BPolyRoundTrip (binSpec n m v)) ∧
  (∀ q p n g, Define.ext Gen.dbText q = .ok (.ext p n g) →
    UPolyRoundTrip (extSpec p n g) ∧ BPolyRoundTrip (extSpec p n g))

end Algobra.C15
