/-
  Props/C15Full.lean — property C15 (printing and parsing are mutually inverse): round trips proved
  about the model's parsers `Bin.parse`, `UPoly.parse`, `Ext.parse`, which for simple variable
  names (`Parse.simpleName` = `C15.AdmissibleName`) take their matches from the total tokenisers of
  `Model/Parse.lean` (the regex-engine versions `parseRx`/`stringToMapRx` remain for other names).

  Proved here (default notation of the printers):
  * `bin_roundtrip`, `bin_roundtrip_define`, `bin_elemRoundTrip` — binary-field elements;
  * `upoly_roundtrip_generic` — univariate polynomials over any lawful coefficient record whose
    coefficient syntax satisfies `ParseRT.CoefRT` (the coefficient scanner reads printed elements
    back), every quotient ring, every admissible variable name;
  * `prime_coefRT`, `prime_upoly_roundtrip`, `prime_upoly_roundtrip_beq` — its instance for prime
    fields;
  * `ext_roundtrip`, `ext_elemRoundTrip` — extension-field elements.
  * `bin_coefRT`, `bin_upoly_roundtrip(_beq)`, `ext_coefRT`, `ext_upoly_roundtrip(_beq)` —
    univariate polynomials over binary and extension fields (instances at the fields the `Define`
    functions return: `Props/C15FullDefine.lean`).
  * `bpoly_roundtrip_generic`, `prime_bpoly_roundtrip`, `bin_bpoly_roundtrip`,
    `ext_bpoly_roundtrip` — bivariate polynomials, every monomial order, with or without ideal
    (exponents `< 2^64`, as `BValid` demands).
  * `upoly_additive_generic`, `prime_/bin_/ext_upoly_additive` — univariate additivity.
  * `bpoly_additive_generic`, `prime_/bin_/ext_bpoly_additive` — bivariate additivity (in a
    quotient ring under the hypothesis `hsum`).
  * `upoly_notation_generic`, `prime_/bin_/ext_upoly_notation` — `UNotations`: univariate round
    trip in every notation.
  * `C15_full_literal_false` — `C15_full` read literally is FALSE in the model (no bound on the
    number of coefficients: `X^(2^63)` prints an exponent `strconv.ParseInt` rejects); the bounded
    statement is assembled as `C15_full_bounded` in `Props/C15FullDefine.lean`.
  * `bpoly_notation_generic`, `prime_/bin_/ext_bpoly_notation` — `BNotations`: bivariate round
    trip in every notation (incl. `y` before `x`).
  * `hsum_of_side`, `prime_/bin_/ext_bpoly_additive_bounded` — bivariate additivity in quotient
    rings under `BAddSide` (`BPoly.reduceIn_sum`).
  Nothing remains only stated; see the last section for the bounds the theorems carry.
-/
import Algobra.Props.C15
import Algobra.Props.C03
import Algobra.Proofs.ParseRTPoly
import Algobra.Proofs.ParseRTCoef
import Algobra.Proofs.ParseRTBPoly
import Algobra.Proofs.BPolyPerm
import Algobra.Proofs.ParseRTAdd
import Algobra.Proofs.ParseRTBAdd
import Algobra.Proofs.ParseRTNPoly
import Algobra.Proofs.ParseRTBNPoly
import Algobra.Proofs.BPolyReduced
import Algobra.Proofs.ExtField

namespace Algobra.C15
open Algobra Algobra.Strings Algobra.Parse Algobra.ParseRT Algobra.UPoly Polynomial

theorem admissible_iff_simple (v : String) : AdmissibleName v ↔ simpleName v = true :=
  simpleName_iff.symm

/-! ### 1. binary-field elements -/

/-- Round trip of binary-field elements: for every admissible variable name, every field width
    `n < 64` (`binfield.Define` allows `n ≤ 32`) and every canonical element `a < 2^n`, parsing the
    printed form returns `a`. -/
theorem bin_roundtrip {v : String} (hv : AdmissibleName v) {n m a : Nat} (hn : n < 64)
    (ha : a < 2 ^ n) : Bin.parse n m v (Bin.toStr v n a) = .ok a :=
  bin_parse_toStr ((admissible_iff_simple v).1 hv) hn ha

/-- `bin_roundtrip_full` of `Props/C15.lean` for every cardinality that fits a machine word -/
theorem bin_roundtrip_define {q n m : Nat} {v : String} (hq : q < 2 ^ 64)
    (hd : Define.bin Gen.dbText q = .ok (.bin n m)) (hv : AdmissibleName v) {a : Nat}
    (ha : a < 2 ^ n) : Bin.parse n m v (Bin.toStr v n a) = .ok a := by
  obtain ⟨n', cs, _, _, hn, _, he⟩ := (C03.define_bin_iff Gen.dbText hq _).1 hd
  injection he with h1 h2
  subst h1
  exact bin_roundtrip hv (by omega) ha

theorem bin_elemRoundTrip {v : String} (hv : AdmissibleName v) {n : Nat} (m : Nat) (hn : n < 64) :
    ElemRoundTrip (binSpec n m v) := by
  intro a ha
  exact ⟨a, bin_roundtrip hv hn ha, by show (a == a) = true; simp⟩

-- non-vacuity
example : AdmissibleName "t2" := ⟨'t', ['2'], by decide, by decide, by decide⟩
example : Bin.parse 3 11 "t2" (Bin.toStr "t2" 3 5) = .ok 5 :=
  bin_roundtrip ⟨'t', ['2'], by decide, by decide, by decide⟩ (by decide) (by decide)

/-! ### 2. univariate polynomials, generic coefficient field -/

/-- the hypothesis "the polynomial variable cannot be confused with the field's own variable", in
    the form the tokeniser lemmas use it -/
theorem strip_none_of_unconfusable {v w : String} (h : Unconfusable v w) (X : List Char) :
    strip w.toList (v.toList ++ X) = none := by
  cases hs : strip w.toList (v.toList ++ X) with
  | none => rfl
  | some r =>
    exfalso
    have e := strip_eq_some hs
    -- `w` and `v` are both prefixes of the same list: one is a prefix of the other
    have hp : w.toList <+: v.toList ∨ v.toList <+: w.toList :=
      List.prefix_or_prefix_of_prefix (l₃ := v.toList ++ X) ⟨r, e.symm⟩ ⟨X, rfl⟩
    have hl : ∀ {a b : List Char}, a <+: b → a.map Regex.lower <+: b.map Regex.lower := by
      rintro a b ⟨t, rfl⟩; exact ⟨t.map Regex.lower, by simp⟩
    unfold Unconfusable UPoly.strLower at h
    simp only [String.toList_ofList] at h
    rcases hp with hp | hp
    · exact h.2 (hl hp)
    · exact h.1 (hl hp)

/-- Round trip of univariate polynomials (default notation) over any lawful coefficient record `F`
    whose coefficient syntax reads printed elements back (`CoefRT`), in the ring or quotient ring
    `R = F[v]/(mod)`: a well-formed (canonical slice of valid coefficients), reduced polynomial of
    at most `2^63` coefficients (a Go slice cannot be longer) is returned by the parser. -/
theorem upoly_roundtrip_generic {α K : Type} [Field K] {F : FOps α} (L : Lawful F K)
    (H : CoefRT F L.valid) (hz1 : F.toStr F.zero = "0") (hz2 : ¬ F.nTerms F.zero > 1)
    (hown : ∀ w, F.ownVar = some w → AdmissibleName w)
    {v : String} (hv : AdmissibleName v) (hun : ∀ w, F.ownVar = some w → Unconfusable v w)
    (mod : Option (UPoly α)) {f : UPoly α} (hf : WF L f) (hlen : f.length ≤ 2 ^ 63)
    (hred : reduceIn { F := F, varName := v, modulus := mod } f = some f) :
    UPoly.parse { F := F, varName := v, modulus := mod } (UPoly.toStr F v f) = .ok (some f) := by
  refine upoly_parse_toStr L H hz1 hz2 ?_ (fun w X hw => strip_none_of_unconfusable (hun w hw) X)
    mod hf hlen hred
  unfold UPoly.directOK
  rw [(admissible_iff_simple v).1 hv, Bool.true_and]
  cases hw : F.ownVar with
  | none => rfl
  | some w => exact (admissible_iff_simple w).1 (hown w hw)


/-! ### 3. prime fields -/

theorem prime_coefText (p c : Nat) : coefText (primeOps p) c = (toString c).toList := by
  unfold coefText
  have : ¬ (primeOps p).nTerms c > 1 := by show ¬ (1 > 1); omega
  rw [if_neg this]; rfl

/-- the coefficient syntax of prime fields (`[0-9]*`) reads printed elements back -/
theorem prime_coefRT {p : Nat} (hp : 2 ≤ p) (h64 : p ≤ 2 ^ 64) :
    CoefRT (primeOps p) (fun a => a < p) where
  scan := by
    intro c _ X hX
    rw [prime_coefText]
    show scanCoef none _ = _
    unfold scanCoef
    rw [dropDigits_append (toString_digits c) (fun y hy => (hX.1 y hy).1)]
  parse := by
    intro c hc
    rw [prime_coefText, String.ofList_toList]
    have hd := isDigits_toString c
    obtain ⟨hne, hall⟩ := (isDigits_iff_toList _).1 hd
    have h1 : ∀ y ∈ (toString c).toList.head?, (y == '(' || y == ')') = false := by
      intro y hy
      have := hall y (List.mem_of_mem_head? hy)
      cases h : (y == '(' || y == ')') with
      | false => rfl
      | true =>
        rcases Bool.or_eq_true_iff.1 h with e | e <;>
          (have := eq_of_beq e; subst this; exact absurd this (by decide))
    have h2 : ∀ y ∈ (toString c).toList.getLast?, (y == '(' || y == ')') = false := by
      intro y hy
      have := hall y (List.mem_of_getLast? hy)
      cases h : (y == '(' || y == ')') with
      | false => rfl
      | true =>
        rcases Bool.or_eq_true_iff.1 h with e | e <;>
          (have := eq_of_beq e; subst this; exact absurd this (by decide))
    rw [trimParens_plain h1 h2]
    exact prime_roundtrip h64 hc
  head := by
    intro c _
    rw [prime_coefText]
    obtain ⟨hne, hall⟩ := (isDigits_iff_toList _).1 (isDigits_toString c)
    obtain ⟨y, t, e⟩ := List.exists_cons_of_ne_nil hne
    refine ⟨y, t, e, ?_⟩
    have hy : y.isDigit = true := hall y (by rw [e]; simp)
    have := alnum_forall (P := fun y => y.isDigit = true → (Regex.isWs y = false ∧ isSign y = false))
      (by decide) (c := y) (by simp [Char.isAlphanum, hy])
    exact this hy
  one := by
    intro c _ h
    have : c = 1 := by simpa using (show (c == 1) = true from h)
    show c = 1 % p
    rw [this, Nat.mod_eq_of_lt (by omega)]
  own := by intro w hw; cases hw

/-- Round trip of univariate polynomials over a prime field (default notation), in any ring or
    quotient ring `F_p[v]/(mod)`, for every admissible variable name: a canonical, reduced
    polynomial with coefficients `< p` and at most `2^63` coefficients is returned by the parser.
    (`primefield.Define` accepts exactly the primes with `p - 1 < 2^32`: `C03.define_prime_iff`.) -/
theorem prime_upoly_roundtrip {p : Nat} (hp : p.Prime) (h32 : p - 1 < 2 ^ 32) {v : String}
    (hv : AdmissibleName v) (mod : Option (UPoly Nat)) {f : UPoly Nat}
    (hcanon : UPoly.Canon (primeOps p) f) (hlt : ∀ c ∈ f, c < p) (hlen : f.length ≤ 2 ^ 63)
    (hred : reduceIn { F := primeOps p, varName := v, modulus := mod } f = some f) :
    UPoly.parse { F := primeOps p, varName := v, modulus := mod } (UPoly.toStr (primeOps p) v f) =
      .ok (some f) := by
  have := Fact.mk hp
  exact upoly_roundtrip_generic (primeLawfulFact p h32)
    (prime_coefRT hp.two_le (by omega)) (by show toString (0 : Nat) = "0"; decide)
    (by show ¬ (1 > 1); omega)
    (fun w hw => by cases hw) hv (fun w hw => by cases hw) mod ⟨hlt, hcanon⟩ hlen hred

/-- the same in the form of `UPolyRoundTrip` (first clause, default notation): the parsed
    polynomial is `Equal` to the original -/
theorem prime_upoly_roundtrip_beq {p : Nat} (hp : p.Prime) (h32 : p - 1 < 2 ^ 32) {v : String}
    (hv : AdmissibleName v) (mod : Option (UPoly Nat)) {f : UPoly Nat}
    (hf : UValid (primeSpec p) { F := primeOps p, varName := v, modulus := mod } f)
    (hlen : f.length ≤ 2 ^ 63) :
    ∃ g, UPoly.parse { F := primeOps p, varName := v, modulus := mod }
        (uToStrN {} (primeOps p) v f) = .ok (some g) ∧ UPoly.equal (primeOps p) f g = true := by
  have := Fact.mk hp
  obtain ⟨hcanon, hlt, hred⟩ := hf
  refine ⟨f, ?_, ?_⟩
  · rw [uToStrN_default]
    exact prime_upoly_roundtrip hp h32 hv mod hcanon hlt hlen hred
  · exact (equal_iff_eq (primeLawfulFact p h32) hlt hlt).2 rfl

/-- for the cardinalities `primefield.Define` accepts -/
theorem prime_upoly_roundtrip_define {p : Nat} (hq : p < 2 ^ 64)
    (hd : Define.prime p = .ok (.prime p)) {v : String} (hv : AdmissibleName v)
    (mod : Option (UPoly Nat)) {f : UPoly Nat}
    (hf : UValid (primeSpec p) { F := primeOps p, varName := v, modulus := mod } f)
    (hlen : f.length ≤ 2 ^ 63) :
    ∃ g, UPoly.parse { F := primeOps p, varName := v, modulus := mod }
        (UPoly.toStr (primeOps p) v f) = .ok (some g) ∧ UPoly.equal (primeOps p) f g = true := by
  obtain ⟨_, hp, h32⟩ := (C03.define_prime_iff hq _).1 hd
  have := prime_upoly_roundtrip_beq hp h32 hv mod hf hlen
  rwa [uToStrN_default] at this

-- non-vacuity: 3X^2 + X + 5 in F_7[X], and in F_7[X]/(X^3 + 1)
example : (7 : Nat).Prime ∧ (7 : Nat) - 1 < 2 ^ 32 := ⟨by norm_num, by norm_num⟩
example : UPoly.parse { F := primeOps 7, varName := "X", modulus := none } "3X^2 + X + 5" =
    .ok (some [5, 1, 3]) := by
  have h := prime_upoly_roundtrip (p := 7) (by norm_num) (by norm_num) (v := "X")
    ⟨'X', [], by decide, by decide, by decide⟩ none (f := [5, 1, 3])
    ⟨by simp, fun _ => by decide⟩ (by decide) (by decide) rfl
  have e : UPoly.toStr (primeOps 7) "X" [5, 1, 3] = "3X^2 + X + 5" := by decide
  rwa [e] at h


/-! ### 4. extension-field elements -/

section Ext
variable {p : Nat} [Fact p.Prime] {h32 : p - 1 < 2 ^ 32} {n : Nat} {g : List Nat}

/-- a valid element (well-formed, fewer than `n + 1` coefficients) is already reduced -/
theorem ext_reduce_valid (M : ExtField.Modulus h32 n g) {a : UPoly Nat}
    (ha : ExtField.Valid h32 n a) : reduceIn (Ext.ring p g) a = some a := by
  obtain ⟨f', h1, h2, h3, _⟩ := reduceIn_spec M.isQuot ha.1
  have : toPoly (ExtField.PL h32) f' = toPoly (ExtField.PL h32) a := by
    exact h3.trans ((Polynomial.modByMonic_eq_self_iff M.monic).2 (ha.degree_lt M))
  rw [h1, toPoly_injective_on_WF _ h2 ha.1 this]

/-- Round trip of extension-field elements: in `F_p[a]/(g)` with `g` monic of degree `n ≥ 1`
    (`ExtField.Modulus`, what `extfield.Define` produces: `C01.define_ext_lawful`), parsing the
    printed form of a valid element (canonical slice, coefficients `< p`, length `≤ n`) returns
    it. `n ≤ 2^63` holds for every field whose cardinality fits a machine word. -/
theorem ext_roundtrip (M : ExtField.Modulus h32 n g) (hn : n ≤ 2 ^ 63) {a : UPoly Nat}
    (ha : ExtField.Valid h32 n a) : Ext.parse p g ((extOps p n g).toStr a) = .ok a := by
  have hp : p.Prime := Fact.out
  have h := prime_upoly_roundtrip hp h32 (v := "a") ⟨'a', [], by decide, by decide, by decide⟩
    (some g) ha.1.2 ha.1.1 (by have := ha.2; omega) (ext_reduce_valid M ha)
  show Ext.parse p g (UPoly.toStr (primeOps p) "a" a) = .ok a
  unfold Ext.parse Ext.ring
  rw [h]

theorem ext_elemRoundTrip (M : ExtField.Modulus h32 n g) (hn : n ≤ 2 ^ 63) :
    ElemRoundTrip (extSpec p n g) := by
  intro a ha
  have hv : ExtField.Valid h32 n a := ⟨⟨ha.2.2, ha.1⟩, ha.2.1⟩
  refine ⟨a, ext_roundtrip M hn hv, ?_⟩
  exact (equal_iff_eq (ExtField.PL h32) hv.1.1 hv.1.1).2 rfl

end Ext

/- For the fields `extfield.Define` returns (cardinality `q < 2^64`) the hypotheses of
   `ext_elemRoundTrip` are supplied by `C01.define_ext_lawful` (`ExtField.Modulus h32 n g`, and
   `n < 64` from `q = p^n`): `ElemRoundTrip (extSpec p n g)` follows by one application.  That
   theorem rests on the Conway-database certificates of C04 (`native_decide` sweeps, admitted for
   C04 only), so the instantiation is not stated in this file, which stays free of them. -/

-- non-vacuity: GF(9) = F_3[a]/(a^2 + 2a + 2), element 2a + 1
example : Ext.parse 3 [2, 2, 1] "2a + 1" = .ok [1, 2] := by
  have h := ext_roundtrip (p := 3) ExtField.gf9_modulus (by norm_num) (a := [1, 2])
    (ExtField.gf9_valid (by decide) ⟨by simp, fun _ => by decide⟩ (by decide))
  have e : (extOps 3 2 [2, 2, 1]).toStr [1, 2] = "2a + 1" := by decide
  rwa [e] at h

/-! ### 5. univariate polynomials over binary and extension fields

  The coefficient pattern `RegexElement(true)` of these fields — one term `digits*(W(^digits+)?)?`
  or a parenthesised " + "-joined list of them — consumes exactly a printed element
  (`ParseRT.bin_coefRT`, `ext_coefRT`), so `upoly_roundtrip_generic` applies.  The `Lawful` record
  (field structure; needed for the canonical-form reasoning about `setCoef`) is a hypothesis here;
  for the fields the `Define` functions return it is supplied in `Props/C15FullDefine.lean`. -/

/-- the coefficient syntax of a binary field reads printed elements back -/
theorem bin_coefRT {w : String} (hw : AdmissibleName w) {n : Nat} (m : Nat) (hn : n < 64) :
    CoefRT (binOps n m w) (fun a => a < 2 ^ n) :=
  ParseRT.bin_coefRT ((admissible_iff_simple w).1 hw) m hn

/-- Round trip of univariate polynomials over a binary field `GF(2^n)` (`n < 64`) whose variable
    `w` is admissible, for every admissible polynomial variable `v` that cannot be confused with
    `w`, in every ring or quotient ring: a well-formed, reduced polynomial of at most `2^63`
    coefficients is returned by the parser.  `L` is any lawful structure on `binOps n m w` whose
    valid elements are the masks `a < 2^n` (e.g. `BinField.binLawful`). -/
theorem bin_upoly_roundtrip {K : Type} [Field K] {n m : Nat} {w : String}
    (L : Lawful (binOps n m w) K) (hL : ∀ a, L.valid a ↔ a < 2 ^ n) (hw : AdmissibleName w)
    (hn : n < 64) {v : String} (hv : AdmissibleName v) (hun : Unconfusable v w)
    (mod : Option (UPoly Nat)) {f : UPoly Nat} (hf : WF L f) (hlen : f.length ≤ 2 ^ 63)
    (hred : reduceIn { F := binOps n m w, varName := v, modulus := mod } f = some f) :
    UPoly.parse { F := binOps n m w, varName := v, modulus := mod }
      (UPoly.toStr (binOps n m w) v f) = .ok (some f) := by
  have hown : ∀ w', (binOps n m w).ownVar = some w' → w' = w := by
    intro w' h; injection h with e; exact e.symm
  exact upoly_roundtrip_generic L ((bin_coefRT hw m hn).mono fun a ha => (hL a).1 ha) rfl
    (by show ¬ popCount 0 > 1; rw [ParseRT.popCount_zero]; omega)
    (fun w' h => by rw [hown w' h]; exact hw) hv (fun w' h => by rw [hown w' h]; exact hun)
    mod hf hlen hred

/-- the same in the form of `UPolyRoundTrip` (clause 1, default notation) -/
theorem bin_upoly_roundtrip_beq {K : Type} [Field K] {n m : Nat} {w : String}
    (L : Lawful (binOps n m w) K) (hL : ∀ a, L.valid a ↔ a < 2 ^ n) (hw : AdmissibleName w)
    (hn : n < 64) {v : String} (hv : AdmissibleName v) (hun : Unconfusable v w)
    (mod : Option (UPoly Nat)) {f : UPoly Nat}
    (hf : UValid (binSpec n m w) { F := binOps n m w, varName := v, modulus := mod } f)
    (hlen : f.length ≤ 2 ^ 63) :
    ∃ g, UPoly.parse { F := binOps n m w, varName := v, modulus := mod }
        (uToStrN {} (binOps n m w) v f) = .ok (some g) ∧
      UPoly.equal (binOps n m w) f g = true := by
  obtain ⟨hcanon, hval, hred⟩ := hf
  have hwf : WF L f := ⟨fun c hc => (hL c).2 (hval c hc), hcanon⟩
  refine ⟨f, ?_, (equal_iff_eq L hwf.1 hwf.1).2 rfl⟩
  rw [uToStrN_default]
  exact bin_upoly_roundtrip L hL hw hn hv hun mod hwf hlen hred

section ExtPoly
variable {p : Nat} [Fact p.Prime] {h32 : p - 1 < 2 ^ 32} {n : Nat} {g : List Nat}

/-- the coefficient syntax of an extension field reads printed elements back -/
theorem ext_coefRT (M : ExtField.Modulus h32 n g) (hn : n ≤ 2 ^ 63) :
    CoefRT (extOps p n g) (ExtField.Valid h32 n) := by
  have hp : p.Prime := Fact.out
  have hov : ovOf (extOps p n g) = some ['a'] := rfl
  have htext : ∀ a, coefText (extOps p n g) a =
      (if UPoly.nTerms (primeOps p) a > 1 then "(" ++ UPoly.toStr (primeOps p) "a" a ++ ")"
       else UPoly.toStr (primeOps p) "a" a).toList := fun _ => rfl
  refine ⟨?_, ?_, ?_, ?_, ?_⟩
  · intro a ha X hX
    rw [hov] at hX ⊢
    rw [htext]
    exact ext_scan (ExtField.PL h32) ha.1 X hX
  · intro a ha
    rw [htext, trimParens_coef (ext_toStr_noParen a)]
    exact ext_roundtrip M hn ha
  · intro a ha
    rw [htext]
    exact ext_head (ExtField.PL h32) ha.1
  · intro a _ h
    show a = [1 % p]
    rw [Nat.mod_eq_of_lt hp.one_lt]
    cases a with
    | nil => simp [extOps, UPoly.isOne] at h
    | cons c t =>
      cases t with
      | nil =>
        have : c = 1 := by simpa [extOps, UPoly.isOne, primeOps] using h
        rw [this]
      | cons _ _ => simp [extOps, UPoly.isOne] at h
  · intro w hw
    have : w = "a" := by injection hw with e; exact e.symm
    subst this
    exact ⟨'a', [], rfl, by decide⟩

/-- Round trip of univariate polynomials over an extension field `F_p[a]/(g)` (`ExtField.Modulus`,
    `n ≤ 2^63`), for every admissible polynomial variable `v` that cannot be confused with `a`, in
    every ring or quotient ring.  `L` is any lawful structure on `extOps p n g` whose valid
    elements are `ExtField.Valid` (e.g. `ExtField.extLawful M`). -/
theorem ext_upoly_roundtrip {K : Type} [Field K] (M : ExtField.Modulus h32 n g) (hn : n ≤ 2 ^ 63)
    (L : Lawful (extOps p n g) K) (hL : ∀ a, L.valid a ↔ ExtField.Valid h32 n a)
    {v : String} (hv : AdmissibleName v) (hun : Unconfusable v "a")
    (mod : Option (UPoly (UPoly Nat))) {f : UPoly (UPoly Nat)} (hf : WF L f)
    (hlen : f.length ≤ 2 ^ 63)
    (hred : reduceIn { F := extOps p n g, varName := v, modulus := mod } f = some f) :
    UPoly.parse { F := extOps p n g, varName := v, modulus := mod }
      (UPoly.toStr (extOps p n g) v f) = .ok (some f) := by
  have hown : ∀ w', (extOps p n g).ownVar = some w' → w' = "a" := by
    intro w' h; injection h with e; exact e.symm
  exact upoly_roundtrip_generic L ((ext_coefRT M hn).mono fun a ha => (hL a).1 ha)
    (by show UPoly.toStr (primeOps p) "a" [0] = "0"; rfl)
    (by show ¬ UPoly.nTerms (primeOps p) [0] > 1; simp [UPoly.nTerms, UPoly.isZero, primeOps])
    (fun w' h => by rw [hown w' h]; exact ⟨'a', [], by decide, by decide, by decide⟩) hv
    (fun w' h => by rw [hown w' h]; exact hun) mod hf hlen hred

/-- the same in the form of `UPolyRoundTrip` (clause 1, default notation) -/
theorem ext_upoly_roundtrip_beq {K : Type} [Field K] (M : ExtField.Modulus h32 n g)
    (hn : n ≤ 2 ^ 63) (L : Lawful (extOps p n g) K)
    (hL : ∀ a, L.valid a ↔ ExtField.Valid h32 n a)
    {v : String} (hv : AdmissibleName v) (hun : Unconfusable v "a")
    (mod : Option (UPoly (UPoly Nat))) {f : UPoly (UPoly Nat)}
    (hf : UValid (extSpec p n g) { F := extOps p n g, varName := v, modulus := mod } f)
    (hlen : f.length ≤ 2 ^ 63) :
    ∃ g', UPoly.parse { F := extOps p n g, varName := v, modulus := mod }
        (uToStrN {} (extOps p n g) v f) = .ok (some g') ∧
      UPoly.equal (extOps p n g) f g' = true := by
  obtain ⟨hcanon, hval, hred⟩ := hf
  have hwf : WF L f :=
    ⟨fun c hc => (hL c).2 (by have := hval c hc; exact ⟨⟨this.2.2, this.1⟩, this.2.1⟩), hcanon⟩
  refine ⟨f, ?_, (equal_iff_eq L hwf.1 hwf.1).2 rfl⟩
  rw [uToStrN_default]
  exact ext_upoly_roundtrip M hn L hL hv hun mod hwf hlen hred

end ExtPoly

-- non-vacuity: (a + 1)X^2 + (a^2 + 1) over GF(8) = GF(2)[a]/(a^3 + a + 1)
example : UPoly.parse { F := binOps 3 11 "a", varName := "X", modulus := none }
    "(a + 1)X^2 + (a^2 + 1)" = .ok (some [5, 0, 3]) := by
  have : Fact (Irreducible (BinField.toPoly2 11)) := ⟨BinField.irreducible_toPoly2_eleven⟩
  have h := bin_upoly_roundtrip
    (BinField.binLawful (n := 3) (m := 11) (by norm_num) (by norm_num) (by norm_num) (by norm_num) "a")
    (fun _ => Iff.rfl) ⟨'a', [], by decide, by decide, by decide⟩ (by norm_num) (v := "X")
    ⟨'X', [], by decide, by decide, by decide⟩ (by unfold Unconfusable; decide) none
    (f := [5, 0, 3])
    ⟨fun c hc => by
        have : c < 2 ^ 3 := by simp at hc; omega
        exact this,
      by simp, fun _ => by decide⟩ (by decide) rfl
  have e : UPoly.toStr (binOps 3 11 "a") "X" [5, 0, 3] = "(a + 1)X^2 + (a^2 + 1)" := by
    decide +kernel
  rwa [e] at h

-- non-vacuity: aX + (2a + 1) over GF(9) = F_3[a]/(a^2 + 2a + 2)
example : UPoly.parse { F := extOps 3 2 [2, 2, 1], varName := "X", modulus := none }
    "aX + (2a + 1)" = .ok (some [[1, 2], [0, 1]]) := by
  have : Fact (Irreducible (toPoly (ExtField.PL ExtField.h32_three) [2, 2, 1])) :=
    ⟨ExtField.gf9_irreducible⟩
  have h := ext_upoly_roundtrip ExtField.gf9_modulus (by norm_num)
    (ExtField.extLawful ExtField.gf9_modulus) (fun _ => Iff.rfl) (v := "X")
    ⟨'X', [], by decide, by decide, by decide⟩ (by unfold Unconfusable; decide) none
    (f := [[1, 2], [0, 1]])
    ⟨fun c hc => by
        have hc' : c = [1, 2] ∨ c = [0, 1] := by simpa using hc
        rcases hc' with rfl | rfl
        · exact ExtField.gf9_valid (by decide) ⟨by simp, fun _ => by decide⟩ (by decide)
        · exact ExtField.gf9_valid (by decide) ⟨by simp, fun _ => by decide⟩ (by decide),
      by simp, fun _ => by decide⟩ (by decide) rfl
  have e : UPoly.toStr (extOps 3 2 [2, 2, 1]) "X" [[1, 2], [0, 1]] = "aX + (2a + 1)" := by decide
  rwa [e] at h

/-! ### 6. bivariate polynomials

  `Parse.matchesB` on a printed polynomial yields one match per term (`ParseRT.matchesB_terms`);
  the parser rebuilds the polynomial in printing order, i.e. as `sortedTerms`, a permutation of
  the original association list; division does not depend on the order of the stored terms
  (`BPoly.reduceIn_perm`, every `Order`, every ideal), so in a quotient ring the reduced original
  is returned, and without ideal the permutation, which `Equal` identifies with the original. -/

theorem unconf_of_unconfusable {a b : String} (h : Unconfusable a b) : Parse.unconf a b = true := by
  unfold Unconfusable UPoly.strLower at h
  simp only [String.toList_ofList] at h
  unfold Parse.unconf
  have h1 : (a.toList.map Regex.lower).isPrefixOf (b.toList.map Regex.lower) = false := by
    cases hh : (a.toList.map Regex.lower).isPrefixOf (b.toList.map Regex.lower) with
    | false => rfl
    | true => exact absurd (List.isPrefixOf_iff_prefix.1 hh) h.1
  have h2 : (b.toList.map Regex.lower).isPrefixOf (a.toList.map Regex.lower) = false := by
    cases hh : (b.toList.map Regex.lower).isPrefixOf (a.toList.map Regex.lower) with
    | false => rfl
    | true => exact absurd (List.isPrefixOf_iff_prefix.1 hh) h.2
  rw [h1, h2]; rfl

theorem bnames_of {α : Type} {F : FOps α} {x y : String} (hx : AdmissibleName x)
    (hy : AdmissibleName y) (hxy : Unconfusable x y)
    (hun : ∀ w, F.ownVar = some w → Unconfusable x w ∧ Unconfusable y w) : BNames F x y := by
  obtain ⟨x0, xt, hx1, hx2, _⟩ := hx
  obtain ⟨y0, yt, hy1, hy2, _⟩ := hy
  have hxy' := hxy
  unfold Unconfusable UPoly.strLower at hxy'
  simp only [String.toList_ofList] at hxy'
  refine ⟨⟨x0, xt, hx1, hx2⟩, ⟨y0, yt, hy1, hy2⟩, stripCi_none_of_unconf hxy', ?_,
    fun w X hw => strip_none_of_unconfusable (hun w hw).1 X,
    fun w X hw => strip_none_of_unconfusable (hun w hw).2 X⟩
  intro e
  apply hxy'.1
  have := congrArg String.toList e
  unfold UPoly.strLower at this
  simp only [String.toList_ofList] at this
  rw [this]

/-- Round trip of bivariate polynomials (default notation) over any lawful coefficient record with
    a `CoefRT` coefficient syntax, for admissible, pairwise unconfusable variable names, EVERY
    monomial order and EVERY ideal: a well-formed (distinct exponent pairs, valid nonzero
    coefficients), reduced polynomial whose exponents fit a machine word (`strconv.ParseUint`) is
    parsed to an `Equal` polynomial. -/
theorem bpoly_roundtrip_generic {α K : Type} [Field K] {F : FOps α} (L : Lawful F K)
    (H : CoefRT F L.valid) (hz1 : F.toStr F.zero = "0") (hz2 : ¬ F.nTerms F.zero > 1)
    (hown : ∀ w, F.ownVar = some w → AdmissibleName w)
    {x y : String} (hx : AdmissibleName x) (hy : AdmissibleName y) (hxy : Unconfusable x y)
    (hun : ∀ w, F.ownVar = some w → Unconfusable x w ∧ Unconfusable y w)
    (ord : Order) (ideal : Option (List (BPoly α))) {f : BPoly α} (hf : BPoly.WF L f)
    (hb : BPoly.Bounded f)
    (hred : BPoly.reduceIn { F := F, ord := ord, varNames := (x, y), ideal := ideal } f = some f) :
    ∃ g, BPoly.parse { F := F, ord := ord, varNames := (x, y), ideal := ideal }
        (BPoly.toStr { F := F, ord := ord, varNames := (x, y), ideal := ideal } f) = .ok (some g) ∧
      BPoly.equal F f g = true := by
  have hdir : BPoly.directOK { F := F, ord := ord, varNames := (x, y), ideal := ideal } = true := by
    unfold BPoly.directOK
    simp only [(admissible_iff_simple x).1 hx, (admissible_iff_simple y).1 hy, Bool.and_self,
      Bool.true_and]
    cases hw : F.ownVar with
    | none => rfl
    | some w =>
      simp only [(admissible_iff_simple w).1 (hown w hw), unconf_of_unconfusable (hun w hw).1,
        unconf_of_unconfusable (hun w hw).2, Bool.and_self]
  have hparse := bpoly_parse_toStr { F := F, ord := ord, varNames := (x, y), ideal := ideal } L H
    hz1 hz2 (bnames_of hx hy hxy hun) hdir hf hb
  have hperm := sortedTerms_perm (F := F) ord hf.1
  rw [hparse]
  cases hid : ideal with
  | none =>
    refine ⟨BPoly.sortedTerms F ord f, by simp [BPoly.reduceIn], ?_⟩
    exact (BPoly.equal_iff L hf (BPoly.WF_perm L hperm.symm hf)).2 (BPoly.toMv_perm L hperm.symm)
  | some gs =>
    subst hid
    refine ⟨f, ?_, (BPoly.equal_iff L hf hf).2 rfl⟩
    rw [← BPoly.reduceIn_perm _ (gs := gs) rfl hperm.symm hf.1, hred]

/-- `BPolyRoundTrip` clause 1 (default notation) over a prime field: all orders, with or without
    ideal -/
theorem prime_bpoly_roundtrip {p : Nat} (hp : p.Prime) (h32 : p - 1 < 2 ^ 32) {x y : String}
    (hx : AdmissibleName x) (hy : AdmissibleName y) (hxy : Unconfusable x y) (ord : Order)
    (ideal : Option (List (BPoly Nat))) {f : BPoly Nat}
    (hf : BValid (primeSpec p) { F := primeOps p, ord := ord, varNames := (x, y), ideal := ideal } f) :
    ∃ g, BPoly.parse { F := primeOps p, ord := ord, varNames := (x, y), ideal := ideal }
        (bToStrN {} { F := primeOps p, ord := ord, varNames := (x, y), ideal := ideal } f) =
          .ok (some g) ∧
      BPoly.equal (primeOps p) f g = true := by
  have := Fact.mk hp
  obtain ⟨hnd, hval, hred⟩ := hf
  have L := primeLawfulFact p h32
  have hwf : BPoly.WF (primeLawfulFact p h32) f :=
    ⟨hnd, fun t ht => ⟨(hval t ht).1,
      ((primeLawfulFact p h32).isZero_false_iff _ (hval t ht).1).1 (hval t ht).2.1⟩⟩
  rw [bToStrN_default]
  exact bpoly_roundtrip_generic (primeLawfulFact p h32) (prime_coefRT hp.two_le (by omega))
    (by show toString (0 : Nat) = "0"; decide) (by show ¬ (1 > 1); omega)
    (fun w hw => by cases hw) hx hy hxy (fun w hw => by cases hw) ord ideal hwf
    (fun t ht => (hval t ht).2.2) hred

/-- over a binary field (`L`: any lawful structure with `valid a ↔ a < 2^n`) -/
theorem bin_bpoly_roundtrip {K : Type} [Field K] {n m : Nat} {w : String}
    (L : Lawful (binOps n m w) K) (hL : ∀ a, L.valid a ↔ a < 2 ^ n) (hw : AdmissibleName w)
    (hn : n < 64) {x y : String} (hx : AdmissibleName x) (hy : AdmissibleName y)
    (hxy : Unconfusable x y) (hxw : Unconfusable x w) (hyw : Unconfusable y w) (ord : Order)
    (ideal : Option (List (BPoly Nat))) {f : BPoly Nat}
    (hf : BValid (binSpec n m w) { F := binOps n m w, ord := ord, varNames := (x, y), ideal := ideal } f) :
    ∃ g, BPoly.parse { F := binOps n m w, ord := ord, varNames := (x, y), ideal := ideal }
        (bToStrN {} { F := binOps n m w, ord := ord, varNames := (x, y), ideal := ideal } f) =
          .ok (some g) ∧
      BPoly.equal (binOps n m w) f g = true := by
  obtain ⟨hnd, hval, hred⟩ := hf
  have hwf : BPoly.WF L f :=
    ⟨hnd, fun t ht => ⟨(hL _).2 (hval t ht).1,
      (L.isZero_false_iff _ ((hL _).2 (hval t ht).1)).1 (hval t ht).2.1⟩⟩
  have hown : ∀ w', (binOps n m w).ownVar = some w' → w' = w := by
    intro w' h; injection h with e; exact e.symm
  rw [bToStrN_default]
  exact bpoly_roundtrip_generic L ((bin_coefRT hw m hn).mono fun a ha => (hL a).1 ha) rfl
    (by show ¬ popCount 0 > 1; rw [ParseRT.popCount_zero]; omega)
    (fun w' h => by rw [hown w' h]; exact hw) hx hy hxy
    (fun w' h => by rw [hown w' h]; exact ⟨hxw, hyw⟩) ord ideal hwf
    (fun t ht => (hval t ht).2.2) hred

section ExtBPoly
variable {p : Nat} [Fact p.Prime] {h32 : p - 1 < 2 ^ 32} {n : Nat} {g : List Nat}

/-- over an extension field (`L`: any lawful structure with `valid = ExtField.Valid`) -/
theorem ext_bpoly_roundtrip {K : Type} [Field K] (M : ExtField.Modulus h32 n g) (hn : n ≤ 2 ^ 63)
    (L : Lawful (extOps p n g) K) (hL : ∀ a, L.valid a ↔ ExtField.Valid h32 n a)
    {x y : String} (hx : AdmissibleName x) (hy : AdmissibleName y) (hxy : Unconfusable x y)
    (hxw : Unconfusable x "a") (hyw : Unconfusable y "a") (ord : Order)
    (ideal : Option (List (BPoly (UPoly Nat)))) {f : BPoly (UPoly Nat)}
    (hf : BValid (extSpec p n g) { F := extOps p n g, ord := ord, varNames := (x, y), ideal := ideal } f) :
    ∃ g', BPoly.parse { F := extOps p n g, ord := ord, varNames := (x, y), ideal := ideal }
        (bToStrN {} { F := extOps p n g, ord := ord, varNames := (x, y), ideal := ideal } f) =
          .ok (some g') ∧
      BPoly.equal (extOps p n g) f g' = true := by
  obtain ⟨hnd, hval, hred⟩ := hf
  have hv : ∀ t ∈ f, L.valid t.2 := fun t ht =>
    (hL _).2 (by have := (hval t ht).1; exact ⟨⟨this.2.2, this.1⟩, this.2.1⟩)
  have hwf : BPoly.WF L f :=
    ⟨hnd, fun t ht => ⟨hv t ht, (L.isZero_false_iff _ (hv t ht)).1 (hval t ht).2.1⟩⟩
  have hown : ∀ w', (extOps p n g).ownVar = some w' → w' = "a" := by
    intro w' h; injection h with e; exact e.symm
  rw [bToStrN_default]
  exact bpoly_roundtrip_generic L ((ext_coefRT M hn).mono fun a ha => (hL a).1 ha)
    (by show UPoly.toStr (primeOps p) "a" [0] = "0"; rfl)
    (by show ¬ UPoly.nTerms (primeOps p) [0] > 1; simp [UPoly.nTerms, UPoly.isZero, primeOps])
    (fun w' h => by rw [hown w' h]; exact ⟨'a', [], by decide, by decide, by decide⟩) hx hy hxy
    (fun w' h => by rw [hown w' h]; exact ⟨hxw, hyw⟩) ord ideal hwf
    (fun t ht => (hval t ht).2.2) hred

end ExtBPoly

-- non-vacuity: 3X^2Y + X + 5 in F_7[X,Y] (lex), stored in another order than printed
example : ∃ g, BPoly.parse { F := primeOps 7, ord := ⟨.lex, true⟩, varNames := ("X", "Y"), ideal := none }
      "3X^2Y + X + 5" = .ok (some g) ∧
    BPoly.equal (primeOps 7) [((2, 1), 3), ((0, 0), 5), ((1, 0), 1)] g = true := by
  have h := prime_bpoly_roundtrip (p := 7) (by norm_num) (by norm_num) (x := "X") (y := "Y")
    ⟨'X', [], by decide, by decide, by decide⟩ ⟨'Y', [], by decide, by decide, by decide⟩
    (by unfold Unconfusable; decide) ⟨.lex, true⟩ none
    (f := [((2, 1), 3), ((0, 0), 5), ((1, 0), 1)])
    ⟨by decide, by
      intro t ht
      have : t = ((2, 1), 3) ∨ t = ((0, 0), 5) ∨ t = ((1, 0), 1) := by simpa using ht
      rcases this with rfl | rfl | rfl <;>
        exact ⟨by show (_ : Nat) < 7; decide, by decide, by decide, by decide⟩, rfl⟩
  rw [bToStrN_default] at h
  have e : BPoly.toStr { F := primeOps 7, ord := ⟨.lex, true⟩, varNames := ("X", "Y"), ideal := none }
      [((2, 1), 3), ((0, 0), 5), ((1, 0), 1)] = "3X^2Y + X + 5" := by decide +kernel
  rwa [e] at h

-- non-vacuity: XY + 3 in F_7[X,Y]/(X^2 + 1), graded lexicographic order
example : ∃ g, BPoly.parse { F := primeOps 7, ord := (Order.mk (.wdeglex 1 1) true), varNames := ("X", "Y"), ideal := some [[((2, 0), 1), ((0, 0), 1)]] } "XY + 3" = .ok (some g) ∧
    BPoly.equal (primeOps 7) [((1, 1), 1), ((0, 0), 3)] g = true := by
  have h := prime_bpoly_roundtrip (p := 7) (by norm_num) (by norm_num) (x := "X") (y := "Y")
    ⟨'X', [], by decide, by decide, by decide⟩ ⟨'Y', [], by decide, by decide, by decide⟩
    (by unfold Unconfusable; decide) (Order.mk (.wdeglex 1 1) true) (some [[((2, 0), 1), ((0, 0), 1)]])
    (f := [((1, 1), 1), ((0, 0), 3)])
    ⟨by decide, by
      intro t ht
      have : t = ((1, 1), 1) ∨ t = ((0, 0), 3) := by simpa using ht
      rcases this with rfl | rfl <;>
        exact ⟨by show (_ : Nat) < 7; decide, by decide, by decide, by decide⟩,
      by decide +kernel⟩
  rw [bToStrN_default] at h
  have e : BPoly.toStr { F := primeOps 7, ord := (Order.mk (.wdeglex 1 1) true), varNames := ("X", "Y"), ideal := some [[((2, 0), 1), ((0, 0), 1)]] } [((1, 1), 1), ((0, 0), 3)] = "XY + 3" := by
    decide +kernel
  rwa [e] at h

/-! ### 7. additivity (univariate)

  `polynomialStringToMap` accumulates repeated degrees in its map (`UPoly.mapAdd`), so the printed
  forms of two polynomials joined by " + " parse to their sum (`ParseRT.upoly_parse_add`). -/

/-- Additivity over any lawful coefficient record with a `CoefRT` coefficient syntax; the modulus
    (if any) is well-formed, monic, of degree ≥ 1. -/
theorem upoly_additive_generic {α K : Type} [Field K] {F : FOps α} (L : Lawful F K)
    (H : CoefRT F L.valid) (hz1 : F.toStr F.zero = "0") (hz2 : ¬ F.nTerms F.zero > 1)
    (hown : ∀ w, F.ownVar = some w → AdmissibleName w)
    {v : String} (hv : AdmissibleName v) (hun : ∀ w, F.ownVar = some w → Unconfusable v w)
    (mod : Option (UPoly α))
    (hmod : ∀ g, mod = some g → WF L g ∧ (toPoly L g).Monic ∧ 1 ≤ (toPoly L g).natDegree)
    {f₁ f₂ : UPoly α} (hf₁ : WF L f₁) (hf₂ : WF L f₂) (hl₁ : f₁.length ≤ 2 ^ 63)
    (hl₂ : f₂.length ≤ 2 ^ 63)
    (hr₁ : reduceIn { F := F, varName := v, modulus := mod } f₁ = some f₁)
    (hr₂ : reduceIn { F := F, varName := v, modulus := mod } f₂ = some f₂) :
    ∃ g, UPoly.parse { F := F, varName := v, modulus := mod }
        (UPoly.toStr F v f₁ ++ " + " ++ UPoly.toStr F v f₂) = .ok (some g) ∧
      UPoly.equal F g (UPoly.add F f₁ f₂) = true := by
  have hdir : UPoly.directOK F v = true := by
    unfold UPoly.directOK
    rw [(admissible_iff_simple v).1 hv, Bool.true_and]
    cases hw : F.ownVar with
    | none => rfl
    | some w => exact (admissible_iff_simple w).1 (hown w hw)
  obtain ⟨b, hb, hbp, hparse⟩ := upoly_parse_add L H hz1 hz2 hdir
    (fun w X hw => strip_none_of_unconfusable (hun w hw) X) mod hf₁ hf₂ hl₁ hl₂
  have hsum := add_wf L hf₁ hf₂.1
  have hsump := toPoly_add L hf₁ hf₂.1
  rw [hparse]
  cases hm : mod with
  | none =>
    refine ⟨b, by simp [reduceIn], ?_⟩
    exact (equal_iff L hb hsum).2 (by rw [hbp, hsump])
  | some g =>
    subst hm
    obtain ⟨hg1, hg2, hg3⟩ := hmod g rfl
    have Q : IsQuot { F := F, varName := v, modulus := some g } L g := ⟨rfl, hg1, hg2, hg3⟩
    obtain ⟨b', hb1, hb2, hb3, _⟩ := reduceIn_spec Q hb
    obtain ⟨f1', e1, _, _, d1⟩ := reduceIn_spec Q hf₁
    obtain ⟨f2', e2, _, _, d2⟩ := reduceIn_spec Q hf₂
    rw [hr₁] at e1; rw [hr₂] at e2
    injection e1 with e1; injection e2 with e2
    subst e1 e2
    refine ⟨b', by rw [hb1], ?_⟩
    apply (equal_iff L hb2 hsum).2
    rw [hb3, hbp, hsump]
    exact (Polynomial.modByMonic_eq_self_iff hg2).2 
      (lt_of_le_of_lt (Polynomial.degree_add_le _ _) (max_lt d1 d2))

/-- what `ModOK` gives for a prime field: the modulus is well-formed, monic, of degree ≥ 1 -/
theorem prime_modOK {p : Nat} [Fact p.Prime] (h32 : p - 1 < 2 ^ 32) {mod : Option (UPoly Nat)}
    (hm : ModOK (primeSpec p) mod) :
    ∀ g, mod = some g → WF (primeLawfulFact p h32) g ∧ (toPoly (primeLawfulFact p h32) g).Monic ∧
      1 ≤ (toPoly (primeLawfulFact p h32) g).natDegree := by
  intro g hg
  obtain ⟨hcanon, hval, hlen, hone⟩ := hm g hg
  have hwf : WF (primeLawfulFact p h32) g := ⟨hval, hcanon⟩
  have hnd := natDegree_toPoly (primeLawfulFact p h32) hwf
  refine ⟨hwf, ?_, by rw [hnd]; unfold UPoly.ld; omega⟩
  unfold Polynomial.Monic Polynomial.leadingCoeff
  rw [hnd, coeff_toPoly_coef]
  have hv : (primeLawfulFact p h32).valid (UPoly.lc (primeOps p) g) :=
    ParseRT.coef_valid (primeLawfulFact p h32) hval _
  exact ((primeLawfulFact p h32).isOne_iff _ hv).1 hone

/-- `UPolyRoundTrip` clause 2 (additivity) over a prime field, every admissible variable name,
    every ring or quotient ring with an admissible modulus, at most `2^63` coefficients -/
theorem prime_upoly_additive {p : Nat} (hp : p.Prime) (h32 : p - 1 < 2 ^ 32) {v : String}
    (hv : AdmissibleName v) (mod : Option (UPoly Nat)) (hm : ModOK (primeSpec p) mod)
    {f₁ f₂ : UPoly Nat}
    (hf₁ : UValid (primeSpec p) { F := primeOps p, varName := v, modulus := mod } f₁)
    (hf₂ : UValid (primeSpec p) { F := primeOps p, varName := v, modulus := mod } f₂)
    (hl₁ : f₁.length ≤ 2 ^ 63) (hl₂ : f₂.length ≤ 2 ^ 63) :
    ∃ g, UPoly.parse { F := primeOps p, varName := v, modulus := mod }
        (UPoly.toStr (primeOps p) v f₁ ++ " + " ++ UPoly.toStr (primeOps p) v f₂) = .ok (some g) ∧
      UPoly.equal (primeOps p) g (UPoly.add (primeOps p) f₁ f₂) = true := by
  have := Fact.mk hp
  exact upoly_additive_generic (primeLawfulFact p h32) (prime_coefRT hp.two_le (by omega))
    (by show toString (0 : Nat) = "0"; decide) (by show ¬ (1 > 1); omega)
    (fun w hw => by cases hw) hv (fun w hw => by cases hw) mod (prime_modOK h32 hm)
    ⟨hf₁.2.1, hf₁.1⟩ ⟨hf₂.2.1, hf₂.1⟩ hl₁ hl₂ hf₁.2.2 hf₂.2.2

-- non-vacuity: (3X^2 + X + 5) + (4X^2 + 6) = 0X^2 + X + 4 = X + 4 in F_7[X]: degree 2 cancels
example : ∃ g, UPoly.parse { F := primeOps 7, varName := "X", modulus := none }
      "3X^2 + X + 5 + 4X^2 + 6" = .ok (some g) ∧
    UPoly.equal (primeOps 7) g [4, 1] = true := by
  have h := prime_upoly_additive (p := 7) (by norm_num) (by norm_num) (v := "X")
    ⟨'X', [], by decide, by decide, by decide⟩ none (fun g hg => by cases hg)
    (f₁ := [5, 1, 3]) (f₂ := [6, 0, 4])
    ⟨⟨by simp, fun _ => by decide⟩, fun c hc => by
        have : c < 7 := by simp at hc; omega
        exact this, rfl⟩
    ⟨⟨by simp, fun _ => by decide⟩, fun c hc => by
        have : c < 7 := by simp at hc; omega
        exact this, rfl⟩
    (by decide) (by decide)
  have e1 : UPoly.toStr (primeOps 7) "X" [5, 1, 3] ++ " + " ++ UPoly.toStr (primeOps 7) "X" [6, 0, 4] =
      "3X^2 + X + 5 + 4X^2 + 6" := by decide +kernel
  have e2 : UPoly.add (primeOps 7) [5, 1, 3] [6, 0, 4] = [4, 1] := by decide +kernel
  rwa [e1, e2] at h

/-- what `ModOK` gives in general -/
theorem modOK_lawful {α K : Type} [Field K] {S : FieldSpec α} (L : Lawful S.F K)
    (hL : ∀ a, S.Valid a → L.valid a) {mod : Option (UPoly α)} (hm : ModOK S mod) :
    ∀ g, mod = some g → WF L g ∧ (toPoly L g).Monic ∧ 1 ≤ (toPoly L g).natDegree := by
  intro g hg
  obtain ⟨hcanon, hval, hlen, hone⟩ := hm g hg
  have hav : AllValid L g := fun c hc => hL c (hval c hc)
  have hwf : WF L g := ⟨hav, hcanon⟩
  have hnd := natDegree_toPoly L hwf
  refine ⟨hwf, ?_, by rw [hnd]; unfold UPoly.ld; omega⟩
  unfold Polynomial.Monic Polynomial.leadingCoeff
  rw [hnd, coeff_toPoly_coef]
  exact (L.isOne_iff _ (ParseRT.coef_valid L hav _)).1 hone

/-- additivity over a binary field -/
theorem bin_upoly_additive {K : Type} [Field K] {n m : Nat} {w : String}
    (L : Lawful (binOps n m w) K) (hL : ∀ a, L.valid a ↔ a < 2 ^ n) (hw : AdmissibleName w)
    (hn : n < 64) {v : String} (hv : AdmissibleName v) (hun : Unconfusable v w)
    (mod : Option (UPoly Nat)) (hm : ModOK (binSpec n m w) mod) {f₁ f₂ : UPoly Nat}
    (hf₁ : UValid (binSpec n m w) { F := binOps n m w, varName := v, modulus := mod } f₁)
    (hf₂ : UValid (binSpec n m w) { F := binOps n m w, varName := v, modulus := mod } f₂)
    (hl₁ : f₁.length ≤ 2 ^ 63) (hl₂ : f₂.length ≤ 2 ^ 63) :
    ∃ g, UPoly.parse { F := binOps n m w, varName := v, modulus := mod }
        (UPoly.toStr (binOps n m w) v f₁ ++ " + " ++ UPoly.toStr (binOps n m w) v f₂) =
          .ok (some g) ∧
      UPoly.equal (binOps n m w) g (UPoly.add (binOps n m w) f₁ f₂) = true := by
  have hown : ∀ w', (binOps n m w).ownVar = some w' → w' = w := by
    intro w' h; injection h with e; exact e.symm
  exact upoly_additive_generic L ((bin_coefRT hw m hn).mono fun a ha => (hL a).1 ha) rfl
    (by show ¬ popCount 0 > 1; rw [ParseRT.popCount_zero]; omega)
    (fun w' h => by rw [hown w' h]; exact hw) hv (fun w' h => by rw [hown w' h]; exact hun) mod
    (modOK_lawful (S := binSpec n m w) L (fun a ha => (hL a).2 ha) hm)
    ⟨fun c hc => (hL c).2 (hf₁.2.1 c hc), hf₁.1⟩ ⟨fun c hc => (hL c).2 (hf₂.2.1 c hc), hf₂.1⟩
    hl₁ hl₂ hf₁.2.2 hf₂.2.2

section ExtAdd
variable {p : Nat} [Fact p.Prime] {h32 : p - 1 < 2 ^ 32} {n : Nat} {g : List Nat}

/-- additivity over an extension field -/
theorem ext_upoly_additive {K : Type} [Field K] (M : ExtField.Modulus h32 n g) (hn : n ≤ 2 ^ 63)
    (L : Lawful (extOps p n g) K) (hL : ∀ a, L.valid a ↔ ExtField.Valid h32 n a)
    {v : String} (hv : AdmissibleName v) (hun : Unconfusable v "a")
    (mod : Option (UPoly (UPoly Nat))) (hm : ModOK (extSpec p n g) mod)
    {f₁ f₂ : UPoly (UPoly Nat)}
    (hf₁ : UValid (extSpec p n g) { F := extOps p n g, varName := v, modulus := mod } f₁)
    (hf₂ : UValid (extSpec p n g) { F := extOps p n g, varName := v, modulus := mod } f₂)
    (hl₁ : f₁.length ≤ 2 ^ 63) (hl₂ : f₂.length ≤ 2 ^ 63) :
    ∃ g', UPoly.parse { F := extOps p n g, varName := v, modulus := mod }
        (UPoly.toStr (extOps p n g) v f₁ ++ " + " ++ UPoly.toStr (extOps p n g) v f₂) =
          .ok (some g') ∧
      UPoly.equal (extOps p n g) g' (UPoly.add (extOps p n g) f₁ f₂) = true := by
  have hown : ∀ w', (extOps p n g).ownVar = some w' → w' = "a" := by
    intro w' h; injection h with e; exact e.symm
  have hV : ∀ a, (extSpec p n g).Valid a → L.valid a := fun a ha =>
    (hL a).2 ⟨⟨ha.2.2, ha.1⟩, ha.2.1⟩
  exact upoly_additive_generic L ((ext_coefRT M hn).mono fun a ha => (hL a).1 ha)
    (by show UPoly.toStr (primeOps p) "a" [0] = "0"; rfl)
    (by show ¬ UPoly.nTerms (primeOps p) [0] > 1; simp [UPoly.nTerms, UPoly.isZero, primeOps])
    (fun w' h => by rw [hown w' h]; exact ⟨'a', [], by decide, by decide, by decide⟩) hv
    (fun w' h => by rw [hown w' h]; exact hun) mod
    (modOK_lawful (S := extSpec p n g) L hV hm)
    ⟨fun c hc => hV c (hf₁.2.1 c hc), hf₁.1⟩ ⟨fun c hc => hV c (hf₂.2.1 c hc), hf₂.1⟩
    hl₁ hl₂ hf₁.2.2 hf₂.2.2

end ExtAdd

/-! ### 8. additivity (bivariate)

  Same accumulation argument (`ParseRT.bpoly_parse_add`): the parsed polynomial `b` denotes the sum;
  cancelled exponent pairs are dropped by `ofMap`.  Without ideal, `b` is returned and is `Equal`
  to `add f₁ f₂`.  In a quotient ring the parser returns `reduceIn R b`, and `b` is a permutation
  of `add f₁ f₂` (`BPoly.reduceIn_perm`); the statement then needs that the model's reduction
  leaves the sum `add f₁ f₂` alone up to `Equal` — hypothesis `hsum`.  (It does whenever no
  exponent pair of the sum is divisible by a leading exponent of the ideal and the division fuel
  `BPoly.divFuel` of the model suffices; this is not derived here from `BValid f₁`, `BValid f₂`.) -/

theorem bpoly_additive_generic {α K : Type} [Field K] {F : FOps α} (L : Lawful F K)
    (H : CoefRT F L.valid) (hz1 : F.toStr F.zero = "0") (hz2 : ¬ F.nTerms F.zero > 1)
    (hown : ∀ w, F.ownVar = some w → AdmissibleName w)
    {x y : String} (hx : AdmissibleName x) (hy : AdmissibleName y) (hxy : Unconfusable x y)
    (hun : ∀ w, F.ownVar = some w → Unconfusable x w ∧ Unconfusable y w)
    (ord : Order) (ideal : Option (List (BPoly α))) {f₁ f₂ : BPoly α}
    (hf₁ : BPoly.WF L f₁) (hf₂ : BPoly.WF L f₂) (hb₁ : BPoly.Bounded f₁) (hb₂ : BPoly.Bounded f₂)
    (hsum : ∀ gs, ideal = some gs → ∃ h,
      BPoly.reduceIn { F := F, ord := ord, varNames := (x, y), ideal := ideal }
        (BPoly.add F f₁ f₂) = some h ∧ BPoly.equal F h (BPoly.add F f₁ f₂) = true) :
    ∃ g, BPoly.parse { F := F, ord := ord, varNames := (x, y), ideal := ideal }
        (BPoly.toStr { F := F, ord := ord, varNames := (x, y), ideal := ideal } f₁ ++ " + " ++
          BPoly.toStr { F := F, ord := ord, varNames := (x, y), ideal := ideal } f₂) = .ok (some g) ∧
      BPoly.equal F g (BPoly.add F f₁ f₂) = true := by
  have hdir : BPoly.directOK { F := F, ord := ord, varNames := (x, y), ideal := ideal } = true := by
    unfold BPoly.directOK
    simp only [(admissible_iff_simple x).1 hx, (admissible_iff_simple y).1 hy, Bool.and_self,
      Bool.true_and]
    cases hw : F.ownVar with
    | none => rfl
    | some w =>
      simp only [(admissible_iff_simple w).1 (hown w hw), unconf_of_unconfusable (hun w hw).1,
        unconf_of_unconfusable (hun w hw).2, Bool.and_self]
  obtain ⟨b, hb, hbp, hparse⟩ := bpoly_parse_add
    { F := F, ord := ord, varNames := (x, y), ideal := ideal } L H hz1 hz2
    (bnames_of hx hy hxy hun) hdir hf₁ hf₂ hb₁ hb₂
  have hsw := BPoly.WF_add L hf₁ hf₂.cv
  have hsp := BPoly.toMv_add L hf₁ hf₂.cv
  rw [hparse]
  cases hid : ideal with
  | none =>
    refine ⟨b, by simp [BPoly.reduceIn], ?_⟩
    exact (BPoly.equal_iff L hb hsw).2 (by rw [hbp, hsp])
  | some gs =>
    subst hid
    obtain ⟨h, h1, h2⟩ := hsum gs rfl
    have hperm : b.Perm (BPoly.add F f₁ f₂) := BPoly.perm_of_toMv_eq L hb hsw (by rw [hbp, hsp])
    exact ⟨h, by rw [BPoly.reduceIn_perm _ (gs := gs) rfl hperm hb.1, h1], h2⟩

/-- bivariate additivity over a prime field: every order; without ideal unconditionally, with an
    ideal provided the model's reduction leaves the sum alone (`hsum`, see above) -/
theorem prime_bpoly_additive {p : Nat} (hp : p.Prime) (h32 : p - 1 < 2 ^ 32) {x y : String}
    (hx : AdmissibleName x) (hy : AdmissibleName y) (hxy : Unconfusable x y) (ord : Order)
    (ideal : Option (List (BPoly Nat))) {f₁ f₂ : BPoly Nat}
    (hf₁ : BValid (primeSpec p) { F := primeOps p, ord := ord, varNames := (x, y), ideal := ideal } f₁)
    (hf₂ : BValid (primeSpec p) { F := primeOps p, ord := ord, varNames := (x, y), ideal := ideal } f₂)
    (hsum : ∀ gs, ideal = some gs → ∃ h,
      BPoly.reduceIn { F := primeOps p, ord := ord, varNames := (x, y), ideal := ideal }
        (BPoly.add (primeOps p) f₁ f₂) = some h ∧
      BPoly.equal (primeOps p) h (BPoly.add (primeOps p) f₁ f₂) = true) :
    ∃ g, BPoly.parse { F := primeOps p, ord := ord, varNames := (x, y), ideal := ideal }
        (BPoly.toStr { F := primeOps p, ord := ord, varNames := (x, y), ideal := ideal } f₁ ++ " + " ++
          BPoly.toStr { F := primeOps p, ord := ord, varNames := (x, y), ideal := ideal } f₂) =
            .ok (some g) ∧
      BPoly.equal (primeOps p) g (BPoly.add (primeOps p) f₁ f₂) = true := by
  have := Fact.mk hp
  have hwf : ∀ {f : BPoly Nat}, BValid (primeSpec p)
      { F := primeOps p, ord := ord, varNames := (x, y), ideal := ideal } f →
      BPoly.WF (primeLawfulFact p h32) f := fun hf =>
    ⟨hf.1, fun t ht => ⟨(hf.2.1 t ht).1,
      ((primeLawfulFact p h32).isZero_false_iff _ (hf.2.1 t ht).1).1 (hf.2.1 t ht).2.1⟩⟩
  exact bpoly_additive_generic (primeLawfulFact p h32) (prime_coefRT hp.two_le (by omega))
    (by show toString (0 : Nat) = "0"; decide) (by show ¬ (1 > 1); omega)
    (fun w hw => by cases hw) hx hy hxy (fun w hw => by cases hw) ord ideal (hwf hf₁) (hwf hf₂)
    (fun t ht => (hf₁.2.1 t ht).2.2) (fun t ht => (hf₂.2.1 t ht).2.2) hsum

/-- bivariate additivity over a binary field -/
theorem bin_bpoly_additive {K : Type} [Field K] {n m : Nat} {w : String}
    (L : Lawful (binOps n m w) K) (hL : ∀ a, L.valid a ↔ a < 2 ^ n) (hw : AdmissibleName w)
    (hn : n < 64) {x y : String} (hx : AdmissibleName x) (hy : AdmissibleName y)
    (hxy : Unconfusable x y) (hxw : Unconfusable x w) (hyw : Unconfusable y w) (ord : Order)
    (ideal : Option (List (BPoly Nat))) {f₁ f₂ : BPoly Nat}
    (hf₁ : BValid (binSpec n m w) { F := binOps n m w, ord := ord, varNames := (x, y), ideal := ideal } f₁)
    (hf₂ : BValid (binSpec n m w) { F := binOps n m w, ord := ord, varNames := (x, y), ideal := ideal } f₂)
    (hsum : ∀ gs, ideal = some gs → ∃ h,
      BPoly.reduceIn { F := binOps n m w, ord := ord, varNames := (x, y), ideal := ideal }
        (BPoly.add (binOps n m w) f₁ f₂) = some h ∧
      BPoly.equal (binOps n m w) h (BPoly.add (binOps n m w) f₁ f₂) = true) :
    ∃ g, BPoly.parse { F := binOps n m w, ord := ord, varNames := (x, y), ideal := ideal }
        (BPoly.toStr { F := binOps n m w, ord := ord, varNames := (x, y), ideal := ideal } f₁ ++ " + " ++
          BPoly.toStr { F := binOps n m w, ord := ord, varNames := (x, y), ideal := ideal } f₂) =
            .ok (some g) ∧
      BPoly.equal (binOps n m w) g (BPoly.add (binOps n m w) f₁ f₂) = true := by
  have hwf : ∀ {f : BPoly Nat}, BValid (binSpec n m w)
      { F := binOps n m w, ord := ord, varNames := (x, y), ideal := ideal } f → BPoly.WF L f :=
    fun hf => ⟨hf.1, fun t ht => ⟨(hL _).2 (hf.2.1 t ht).1,
      (L.isZero_false_iff _ ((hL _).2 (hf.2.1 t ht).1)).1 (hf.2.1 t ht).2.1⟩⟩
  have hown : ∀ w', (binOps n m w).ownVar = some w' → w' = w := by
    intro w' h; injection h with e; exact e.symm
  exact bpoly_additive_generic L ((bin_coefRT hw m hn).mono fun a ha => (hL a).1 ha) rfl
    (by show ¬ popCount 0 > 1; rw [ParseRT.popCount_zero]; omega)
    (fun w' h => by rw [hown w' h]; exact hw) hx hy hxy
    (fun w' h => by rw [hown w' h]; exact ⟨hxw, hyw⟩) ord ideal (hwf hf₁) (hwf hf₂)
    (fun t ht => (hf₁.2.1 t ht).2.2) (fun t ht => (hf₂.2.1 t ht).2.2) hsum

section ExtBAdd
variable {p : Nat} [Fact p.Prime] {h32 : p - 1 < 2 ^ 32} {n : Nat} {g : List Nat}

/-- bivariate additivity over an extension field -/
theorem ext_bpoly_additive {K : Type} [Field K] (M : ExtField.Modulus h32 n g) (hn : n ≤ 2 ^ 63)
    (L : Lawful (extOps p n g) K) (hL : ∀ a, L.valid a ↔ ExtField.Valid h32 n a)
    {x y : String} (hx : AdmissibleName x) (hy : AdmissibleName y) (hxy : Unconfusable x y)
    (hxw : Unconfusable x "a") (hyw : Unconfusable y "a") (ord : Order)
    (ideal : Option (List (BPoly (UPoly Nat)))) {f₁ f₂ : BPoly (UPoly Nat)}
    (hf₁ : BValid (extSpec p n g) { F := extOps p n g, ord := ord, varNames := (x, y), ideal := ideal } f₁)
    (hf₂ : BValid (extSpec p n g) { F := extOps p n g, ord := ord, varNames := (x, y), ideal := ideal } f₂)
    (hsum : ∀ gs, ideal = some gs → ∃ h,
      BPoly.reduceIn { F := extOps p n g, ord := ord, varNames := (x, y), ideal := ideal }
        (BPoly.add (extOps p n g) f₁ f₂) = some h ∧
      BPoly.equal (extOps p n g) h (BPoly.add (extOps p n g) f₁ f₂) = true) :
    ∃ g', BPoly.parse { F := extOps p n g, ord := ord, varNames := (x, y), ideal := ideal }
        (BPoly.toStr { F := extOps p n g, ord := ord, varNames := (x, y), ideal := ideal } f₁ ++ " + " ++
          BPoly.toStr { F := extOps p n g, ord := ord, varNames := (x, y), ideal := ideal } f₂) =
            .ok (some g') ∧
      BPoly.equal (extOps p n g) g' (BPoly.add (extOps p n g) f₁ f₂) = true := by
  have hv : ∀ {f : BPoly (UPoly Nat)}, BValid (extSpec p n g)
      { F := extOps p n g, ord := ord, varNames := (x, y), ideal := ideal } f →
      ∀ t ∈ f, L.valid t.2 := fun hf t ht =>
    (hL _).2 (by have := (hf.2.1 t ht).1; exact ⟨⟨this.2.2, this.1⟩, this.2.1⟩)
  have hwf : ∀ {f : BPoly (UPoly Nat)}, BValid (extSpec p n g)
      { F := extOps p n g, ord := ord, varNames := (x, y), ideal := ideal } f → BPoly.WF L f :=
    fun hf => ⟨hf.1, fun t ht => ⟨hv hf t ht,
      (L.isZero_false_iff _ (hv hf t ht)).1 (hf.2.1 t ht).2.1⟩⟩
  have hown : ∀ w', (extOps p n g).ownVar = some w' → w' = "a" := by
    intro w' h; injection h with e; exact e.symm
  exact bpoly_additive_generic L ((ext_coefRT M hn).mono fun a ha => (hL a).1 ha)
    (by show UPoly.toStr (primeOps p) "a" [0] = "0"; rfl)
    (by show ¬ UPoly.nTerms (primeOps p) [0] > 1; simp [UPoly.nTerms, UPoly.isZero, primeOps])
    (fun w' h => by rw [hown w' h]; exact ⟨'a', [], by decide, by decide, by decide⟩) hx hy hxy
    (fun w' h => by rw [hown w' h]; exact ⟨hxw, hyw⟩) ord ideal (hwf hf₁) (hwf hf₂)
    (fun t ht => (hf₁.2.1 t ht).2.2) (fun t ht => (hf₂.2.1 t ht).2.2) hsum

end ExtBAdd

-- non-vacuity: (3X^2Y + X + 5) + (4X^2Y + 2Y) = X + 2Y + 5 in F_7[X,Y]: X^2Y cancels
example : ∃ g, BPoly.parse { F := primeOps 7, ord := ⟨.lex, true⟩, varNames := ("X", "Y"), ideal := none }
      "3X^2Y + X + 5 + 4X^2Y + 2Y" = .ok (some g) ∧
    BPoly.equal (primeOps 7) g [((0, 0), 5), ((1, 0), 1), ((0, 1), 2)] = true := by
  have h := prime_bpoly_additive (p := 7) (by norm_num) (by norm_num) (x := "X") (y := "Y")
    ⟨'X', [], by decide, by decide, by decide⟩ ⟨'Y', [], by decide, by decide, by decide⟩
    (by unfold Unconfusable; decide) ⟨.lex, true⟩ none
    (f₁ := [((2, 1), 3), ((0, 0), 5), ((1, 0), 1)]) (f₂ := [((2, 1), 4), ((0, 1), 2)])
    ⟨by decide, by
      intro t ht
      have : t = ((2, 1), 3) ∨ t = ((0, 0), 5) ∨ t = ((1, 0), 1) := by simpa using ht
      rcases this with rfl | rfl | rfl <;>
        exact ⟨by show (_ : Nat) < 7; decide, by decide, by decide, by decide⟩, rfl⟩
    ⟨by decide, by
      intro t ht
      have : t = ((2, 1), 4) ∨ t = ((0, 1), 2) := by simpa using ht
      rcases this with rfl | rfl <;>
        exact ⟨by show (_ : Nat) < 7; decide, by decide, by decide, by decide⟩, rfl⟩
    (fun gs h => by cases h)
  have e1 : BPoly.toStr { F := primeOps 7, ord := ⟨.lex, true⟩, varNames := ("X", "Y"), ideal := none } [((2, 1), 3), ((0, 0), 5), ((1, 0), 1)] ++ " + " ++ BPoly.toStr { F := primeOps 7, ord := ⟨.lex, true⟩, varNames := ("X", "Y"), ideal := none } [((2, 1), 4), ((0, 1), 2)] = "3X^2Y + X + 5 + 4X^2Y + 2Y" := by
    decide +kernel
  have e2 : BPoly.add (primeOps 7) [((2, 1), 3), ((0, 0), 5), ((1, 0), 1)] [((2, 1), 4), ((0, 1), 2)] =
      [((0, 0), 5), ((1, 0), 1), ((0, 1), 2)] := by decide +kernel
  rwa [e1, e2] at h

/-! ### 9. the notational freedoms (univariate)

  `ParseRT.tokU_termN`: the tokeniser reads a term written with optional `*`, optional `^`, any
  blanks around `+` and any letter case of the variable exactly as the default form. -/

def swapc (c : Char) : Char := if c.isUpper then c.toLower else c.toUpper

theorem swapCase_toList (s : String) : (swapCase s).toList = s.toList.map swapc := by
  unfold swapCase; rw [String.toList_ofList]; rfl

theorem swapc_facts {c : Char} (h : c.isAlphanum = true) :
    Regex.lower (swapc c) = Regex.lower c ∧ (swapc c).isAlphanum = true ∧
      (c.isAlpha = true → (swapc c).isAlpha = true) :=
  alnum_forall (P := fun c => Regex.lower (swapc c) = Regex.lower c ∧ (swapc c).isAlphanum = true ∧
    (c.isAlpha = true → (swapc c).isAlpha = true)) (by decide) h

/-- the variable text of a notation -/
def varN (N : Notation) (v : String) : String := if N.swapCase then swapCase v else v

theorem varN_facts (N : Notation) {v : String} (hv : AdmissibleName v) :
    (varN N v).toList.map Regex.lower = v.toList.map Regex.lower ∧ AdmissibleName (varN N v) := by
  unfold varN
  cases N.swapCase with
  | false => exact ⟨rfl, hv⟩
  | true =>
    obtain ⟨c, t, h1, h2, h3⟩ := hv
    have hall : ∀ x ∈ v.toList, x.isAlphanum = true := by
      intro x hx; rw [h1] at hx
      rcases List.mem_cons.1 hx with rfl | hx
      · exact isAlpha_isAlphanum h2
      · exact h3 x hx
    simp only [if_true]
    refine ⟨?_, swapc c, t.map swapc, by rw [swapCase_toList, h1]; rfl,
      (swapc_facts (isAlpha_isAlphanum h2)).2.2 h2, ?_⟩
    · rw [swapCase_toList, List.map_map]
      apply List.map_congr_left
      intro x hx
      exact (swapc_facts (hall x hx)).1
    · intro x hx
      obtain ⟨y, hy, rfl⟩ := List.mem_map.1 hx
      exact (swapc_facts (h3 y hy)).2.1

theorem unconfusable_varN (N : Notation) {v w : String} (hv : AdmissibleName v)
    (h : Unconfusable v w) : Unconfusable (varN N v) w := by
  have e : UPoly.strLower (varN N v) = UPoly.strLower v := by
    unfold UPoly.strLower; rw [(varN_facts N hv).1]
  unfold Unconfusable at h ⊢
  rw [e]; exact h

/-- the printed form in a notation, as a joined list of terms -/
theorem uToStrN_toList {α : Type} (N : Notation) {k l : Nat}
    (hN : N.sep = String.ofList (List.replicate k ' ' ++ '+' :: List.replicate l ' '))
    (F : FOps α) (hz1 : F.toStr F.zero = "0") (hz2 : ¬ F.nTerms F.zero > 1) (v : String)
    (f : UPoly α) :
    (uToStrN N F v f).toList = joinS (sepN k l)
      ((termsOf F f).map fun t => termCharsN F (varN N v) N.caret N.star t.1 t.2) := by
  unfold uToStrN termsOf
  by_cases hz : UPoly.isZero F f = true
  · simp only [hz, if_true, List.map_cons, List.map_nil, joinS]
    simp [termCharsN, coefPart, coefText, starPart, varPartN, hz1, hz2]
  · simp only [hz, Bool.false_eq_true, if_false]
    rw [intercalate_toListS, hN, String.toList_ofList, List.map_map, List.map_map]
    show joinS (sepN k l) _ = _
    congr 1
    apply List.map_congr_left
    intro d _
    simp only [Function.comp]
    show (_ ++ _ ++ _ : String).toList = _
    unfold termCharsN starPart coefPart coefText varPartN varN
    rw [String.toList_append, String.toList_append, List.append_assoc]
    congr 1
    · split <;> simp
    · congr 1
      · by_cases h1 : (!F.isOne (UPoly.coef F f d) || d == 0) = true
        · by_cases h2 : N.star = true <;> by_cases h3 : d = 0 <;>
            by_cases h4 : F.nTerms (UPoly.coef F f d) > 1 <;> simp [h1, h2, h3, h4]
          all_goals (split <;> rfl)
        · by_cases h2 : N.star = true <;> by_cases h3 : d = 0 <;> simp [h1, h2, h3]
      · by_cases h0 : d = 0
        · simp [h0]
        · by_cases h1 : d = 1
          · simp [h1]
          · have : d > 1 := by omega
            cases N.caret <;> simp [h0, h1, this]

/-- `UPolyRoundTrip` clause 1 for EVERY notation, over any lawful coefficient record with a
    `CoefRT` coefficient syntax -/
theorem upoly_notation_generic {α K : Type} [Field K] {F : FOps α} (L : Lawful F K)
    (H : CoefRT F L.valid) (hz1 : F.toStr F.zero = "0") (hz2 : ¬ F.nTerms F.zero > 1)
    (hown : ∀ w, F.ownVar = some w → AdmissibleName w)
    {v : String} (hv : AdmissibleName v) (hun : ∀ w, F.ownVar = some w → Unconfusable v w)
    (mod : Option (UPoly α)) {f : UPoly α} (hf : WF L f) (hlen : f.length ≤ 2 ^ 63)
    (hred : reduceIn { F := F, varName := v, modulus := mod } f = some f)
    (N : Notation) (hN : N.ok) :
    UPoly.parse { F := F, varName := v, modulus := mod } (uToStrN N F v f) = .ok (some f) := by
  obtain ⟨k, l, hsep⟩ := hN
  obtain ⟨hl, x0', vt', hv'1, hv'2, _⟩ := varN_facts N hv
  have hdir : UPoly.directOK F v = true := by
    unfold UPoly.directOK
    rw [(admissible_iff_simple v).1 hv, Bool.true_and]
    cases hw : F.ownVar with
    | none => rfl
    | some w => exact (admissible_iff_simple w).1 (hown w hw)
  exact upoly_parse_N L H hdir hl ⟨x0', vt', hv'1, hv'2⟩
    (fun w X hw => strip_none_of_unconfusable (unconfusable_varN N hv (hun w hw)) X)
    N.caret N.star k l mod hf hlen hred (uToStrN_toList N hsep F hz1 hz2 v f)

/-- `UPolyRoundTrip` clause 1, every notation, over a prime field -/
theorem prime_upoly_notation {p : Nat} (hp : p.Prime) (h32 : p - 1 < 2 ^ 32) {v : String}
    (hv : AdmissibleName v) (mod : Option (UPoly Nat)) {f : UPoly Nat}
    (hf : UValid (primeSpec p) { F := primeOps p, varName := v, modulus := mod } f)
    (hlen : f.length ≤ 2 ^ 63) (N : Notation) (hN : N.ok) :
    ∃ g, UPoly.parse { F := primeOps p, varName := v, modulus := mod }
        (uToStrN N (primeOps p) v f) = .ok (some g) ∧ UPoly.equal (primeOps p) f g = true := by
  have := Fact.mk hp
  obtain ⟨hcanon, hlt, hred⟩ := hf
  refine ⟨f, ?_, (equal_iff_eq (primeLawfulFact p h32) hlt hlt).2 rfl⟩
  exact upoly_notation_generic (primeLawfulFact p h32) (prime_coefRT hp.two_le (by omega))
    (by show toString (0 : Nat) = "0"; decide) (by show ¬ (1 > 1); omega)
    (fun w hw => by cases hw) hv (fun w hw => by cases hw) mod ⟨hlt, hcanon⟩ hlen hred N hN

/-- … over a binary field -/
theorem bin_upoly_notation {K : Type} [Field K] {n m : Nat} {w : String}
    (L : Lawful (binOps n m w) K) (hL : ∀ a, L.valid a ↔ a < 2 ^ n) (hw : AdmissibleName w)
    (hn : n < 64) {v : String} (hv : AdmissibleName v) (hun : Unconfusable v w)
    (mod : Option (UPoly Nat)) {f : UPoly Nat}
    (hf : UValid (binSpec n m w) { F := binOps n m w, varName := v, modulus := mod } f)
    (hlen : f.length ≤ 2 ^ 63) (N : Notation) (hN : N.ok) :
    ∃ g, UPoly.parse { F := binOps n m w, varName := v, modulus := mod }
        (uToStrN N (binOps n m w) v f) = .ok (some g) ∧
      UPoly.equal (binOps n m w) f g = true := by
  obtain ⟨hcanon, hval, hred⟩ := hf
  have hwf : WF L f := ⟨fun c hc => (hL c).2 (hval c hc), hcanon⟩
  have hown : ∀ w', (binOps n m w).ownVar = some w' → w' = w := by
    intro w' h; injection h with e; exact e.symm
  refine ⟨f, ?_, (equal_iff_eq L hwf.1 hwf.1).2 rfl⟩
  exact upoly_notation_generic L ((bin_coefRT hw m hn).mono fun a ha => (hL a).1 ha) rfl
    (by show ¬ popCount 0 > 1; rw [ParseRT.popCount_zero]; omega)
    (fun w' h => by rw [hown w' h]; exact hw) hv (fun w' h => by rw [hown w' h]; exact hun)
    mod hwf hlen hred N hN

section ExtNot
variable {p : Nat} [Fact p.Prime] {h32 : p - 1 < 2 ^ 32} {n : Nat} {g : List Nat}

/-- … over an extension field -/
theorem ext_upoly_notation {K : Type} [Field K] (M : ExtField.Modulus h32 n g) (hn : n ≤ 2 ^ 63)
    (L : Lawful (extOps p n g) K) (hL : ∀ a, L.valid a ↔ ExtField.Valid h32 n a)
    {v : String} (hv : AdmissibleName v) (hun : Unconfusable v "a")
    (mod : Option (UPoly (UPoly Nat))) {f : UPoly (UPoly Nat)}
    (hf : UValid (extSpec p n g) { F := extOps p n g, varName := v, modulus := mod } f)
    (hlen : f.length ≤ 2 ^ 63) (N : Notation) (hN : N.ok) :
    ∃ g', UPoly.parse { F := extOps p n g, varName := v, modulus := mod }
        (uToStrN N (extOps p n g) v f) = .ok (some g') ∧
      UPoly.equal (extOps p n g) f g' = true := by
  obtain ⟨hcanon, hval, hred⟩ := hf
  have hwf : WF L f :=
    ⟨fun c hc => (hL c).2 (by have := hval c hc; exact ⟨⟨this.2.2, this.1⟩, this.2.1⟩), hcanon⟩
  have hown : ∀ w', (extOps p n g).ownVar = some w' → w' = "a" := by
    intro w' h; injection h with e; exact e.symm
  refine ⟨f, ?_, (equal_iff_eq L hwf.1 hwf.1).2 rfl⟩
  exact upoly_notation_generic L ((ext_coefRT M hn).mono fun a ha => (hL a).1 ha)
    (by show UPoly.toStr (primeOps p) "a" [0] = "0"; rfl)
    (by show ¬ UPoly.nTerms (primeOps p) [0] > 1; simp [UPoly.nTerms, UPoly.isZero, primeOps])
    (fun w' h => by rw [hown w' h]; exact ⟨'a', [], by decide, by decide, by decide⟩) hv
    (fun w' h => by rw [hown w' h]; exact hun) mod hwf hlen hred N hN

end ExtNot

-- non-vacuity: Singular style, `*`, no blanks, lower case: 3*x2+x+5 for 3X^2 + X + 5 in F_7[X]
example : ∃ g, UPoly.parse { F := primeOps 7, varName := "X", modulus := none } "3*x2+x+5" =
      .ok (some g) ∧ UPoly.equal (primeOps 7) [5, 1, 3] g = true := by
  have h := prime_upoly_notation (p := 7) (by norm_num) (by norm_num) (v := "X")
    ⟨'X', [], by decide, by decide, by decide⟩ none (f := [5, 1, 3])
    ⟨⟨by simp, fun _ => by decide⟩, fun c hc => by
        have : c < 7 := by simp at hc; omega
        exact this, rfl⟩ (by decide)
    { caret := false, star := true, sep := "+", swapCase := true } ⟨0, 0, by decide⟩
  have e : uToStrN { caret := false, star := true, sep := "+", swapCase := true } (primeOps 7) "X"
      [5, 1, 3] = "3*x2+x+5" := by decide +kernel
  rwa [e] at h

/-! ### 10. the literal `C15_full` is false: the missing bound on the number of coefficients

  `UPolyRoundTrip` of `Props/C15.lean` quantifies over all canonical coefficient slices.  The
  monomial `X^(2^63)` over `F_7` (a slice of `2^63 + 1` coefficients) prints as
  `X^9223372036854775808`, and the exponent reader (`strconv.ParseInt(·, 10, 0)`) rejects
  `9223372036854775808` with a range error: the parser returns a Conversion error.  Hence the
  statement without `f.length ≤ 2^63` is false in the model.  (In Go such a slice cannot exist —
  its length exceeds `int` — so this is a defect of the literal statement, not of the library;
  `UPolyRoundTripB` carries the bound.) -/

theorem getD_monomial (n d : Nat) : (List.replicate n 0 ++ [1]).getD d 0 ≠ 0 ↔ d = n := by
  rw [List.getD_eq_getElem?_getD, List.getElem?_append]
  by_cases h1 : d < n
  · simp [h1, List.getElem?_replicate]; omega
  · by_cases h2 : d = n
    · subst h2; simp
    · have : d - n ≠ 0 := by omega
      simp [h1]
      constructor
      · intro h
        cases hd : d - n with
        | zero => omega
        | succ k => rw [hd] at h; simp at h
      · intro h; omega

theorem degrees_monomial (p n : Nat) :
    UPoly.degrees (primeOps p) (List.replicate n 0 ++ [1]) = [n] := by
  have hall : ∀ d ∈ UPoly.degrees (primeOps p) (List.replicate n 0 ++ [1]), d = n :=
    fun d hd => (getD_monomial n d).1 ((Strings.mem_degrees p _ d).1 hd)
  have hmem : n ∈ UPoly.degrees (primeOps p) (List.replicate n 0 ++ [1]) :=
    (Strings.mem_degrees p _ n).2 ((getD_monomial n n).2 rfl)
  have hpw := UPoly.degrees_sorted (F := primeOps p) (List.replicate n 0 ++ [1])
  cases h : UPoly.degrees (primeOps p) (List.replicate n 0 ++ [1]) with
  | nil => rw [h] at hmem; cases hmem
  | cons x t =>
    rw [h] at hall hpw
    cases t with
    | nil => rw [hall x (by simp)]
    | cons y t' =>
      exfalso
      have h1 := hall x (by simp)
      have h2 := hall y (by simp)
      have := (List.pairwise_cons.1 hpw).1 y (by simp)
      omega

theorem toStr_monomial (p : Nat) (v : String) {n : Nat} (hn : 2 ≤ n) :
    UPoly.toStr (primeOps p) v (List.replicate n 0 ++ [1]) = v ++ "^" ++ toString n := by
  have hz : UPoly.isZero (primeOps p) (List.replicate n 0 ++ [1]) = false := by
    obtain ⟨k, rfl⟩ : ∃ k, n = k + 1 := ⟨n - 1, by omega⟩
    simp [List.replicate_succ, UPoly.isZero]
  have hc : UPoly.coef (primeOps p) (List.replicate n 0 ++ [1]) n = 1 := by
    show (List.replicate n 0 ++ [1]).getD n 0 = 1
    rw [List.getD_eq_getElem?_getD, List.getElem?_append]; simp
  rw [toStr_eq_terms, hz, degrees_monomial]
  simp only [Bool.false_eq_true, if_false, List.map_cons, List.map_nil, hc]
  have h0 : ¬ n = 0 := by omega
  have h1 : ¬ n = 1 := by omega
  have h2 : n > 1 := by omega
  simp [termStr, primeOps, h0, h1, h2]

/-- the parser rejects the printed form of `X^n` for every `n ≥ 2^63` -/
theorem parse_monomial_overflow {n : Nat} (hn : 2 ^ 63 ≤ n) :
    UPoly.parse { F := primeOps 7, varName := "X", modulus := none }
      (UPoly.toStr (primeOps 7) "X" (List.replicate n 0 ++ [1])) = .error .conversion := by
  have H := prime_coefRT (p := 7) (by norm_num) (by norm_num)
  have hdir : UPoly.directOK (primeOps 7) "X" = true := by decide
  have h63 : (2 : Nat) ^ 63 = 9223372036854775808 := by norm_num
  have hpos : n ≠ 0 := by omega
  have hn1 : ¬ n = 1 := by omega
  have hn2 : n > 1 := by omega
  have hterm : (UPoly.toStr (primeOps 7) "X" (List.replicate n 0 ++ [1])).toList =
      [] ++ (termChars (primeOps 7) "X" 1 n ++ []) := by
    rw [toStr_monomial 7 "X" (by omega), ← termStr_toList]
    simp [termStr, primeOps, hpos, hn1, hn2]
  obtain ⟨full, htok⟩ := tokU_term (F := primeOps 7) (v := "X") (x0 := 'X') (vt := []) H rfl
    (by decide) (fun w X hw => by cases hw) (pre := []) (Or.inl rfl) (c := 1)
    (by show (1 : Nat) < 7; norm_num) n (post := []) (Or.inl rfl)
  have hcoef : coefPart (primeOps 7) 1 n = [] := by
    unfold coefPart; simp [primeOps, hpos]
  have hmap : UPoly.stringToMap (primeOps 7) "X"
      (UPoly.toStr (primeOps 7) "X" (List.replicate n 0 ++ [1])) = .error .conversion := by
    unfold UPoly.stringToMap
    rw [if_pos hdir]
    unfold matchesU
    rw [hterm]
    have hne : ([] ++ (termChars (primeOps 7) "X" 1 n ++ [])).isEmpty = false := by
      obtain ⟨y, t, hT, _⟩ := termChars_head (F := primeOps 7) (v := "X") (x0 := 'X') (vt := []) H
        rfl (by decide) (c := 1) (by show (1 : Nat) < 7; norm_num) n []
      rw [List.nil_append, hT]; rfl
    rw [hne]
    simp only [Bool.false_eq_true, if_false]
    have hov : Option.map String.toList (primeOps 7).ownVar = ovOf (primeOps 7) := rfl
    rw [hov]
    cases hlen : ([] ++ (termChars (primeOps 7) "X" 1 n ++ [])).length with
    | zero =>
      rw [List.isEmpty_eq_false_iff] at hne
      exact absurd (List.length_eq_zero_iff.1 hlen) hne
    | succ f =>
      rw [loopU, hne, htok]
      simp only [Bool.false_eq_true, if_false, dropWs, List.dropWhile_nil, List.length_nil,
        if_true]
      rw [loopU_nil]
      simp only [Option.map_some]
      unfold UPoly.stringToMapRx.go
      have hpi : parseIntDigits n.repr = none := by
        have : parseIntDigits (toString n) = none := by
          rw [parseIntDigits_eq, if_pos (isDigits_toString _), toNat!_toString, if_neg (by omega)]
        exact this
      have hne2 : n.repr ≠ "" := toString_ne_empty n
      have hl : UPoly.strLower "X" ≠ "" := by decide
      have hle : ¬ n ≤ 1 := by omega
      have hT : 0 < (termChars (primeOps 7) "X" 1 n).length := by
        have : (termChars (primeOps 7) "X" 1 n).length = f + 1 := by simpa using hlen
        omega
      simp [hcoef, hpos, hpi, hne2, hl, hle, hT]
  unfold UPoly.parse
  rw [hmap]

/-- `UPolyRoundTrip` as literally stated (no bound on the number of coefficients) fails -/
theorem upolyRoundTrip_literal_false : ¬ UPolyRoundTrip (primeSpec 7) := by
  intro h
  obtain ⟨h1, _⟩ := h "X" none ⟨'X', [], by decide, by decide, by decide⟩ (fun w hw => by cases hw)
    (fun g hg => by cases hg)
  have key : ∀ n : Nat, 2 ^ 63 ≤ n → False := by
    intro n hn
    have hvalid : UValid (primeSpec 7) { F := primeOps 7, varName := "X", modulus := none }
        (List.replicate n 0 ++ [1]) := by
      refine ⟨⟨by simp, fun _ => by simp [primeOps, primeSpec]⟩, ?_, rfl⟩
      intro c hc
      show c < 7
      rcases List.mem_append.1 hc with h | h
      · rw [(List.mem_replicate.1 h).2]; norm_num
      · simp at h; omega
    obtain ⟨g, hg, _⟩ := h1 _ hvalid {} ⟨1, 1, by decide⟩
    rw [uToStrN_default] at hg
    have hov := parse_monomial_overflow hn
    change UPoly.parse { F := primeOps 7, varName := "X", modulus := none }
      (UPoly.toStr (primeOps 7) "X" (List.replicate n 0 ++ [1])) = .ok (some g) at hg
    rw [hov] at hg
    cases hg
  exact key (2 ^ 63) (Nat.le_refl _)

/-- hence `C15_full` of `Props/C15.lean`, read literally, is false; the provable statement is the
    bounded one (`UPolyRoundTripB`; assembled in `Props/C15FullDefine.lean`) -/
theorem C15_full_literal_false : ¬ C15_full := by
  intro h
  exact upolyRoundTrip_literal_false (h.1 7 (by decide +kernel)).2.1

/-! ### 11. the notational freedoms (bivariate)

  `ParseRT.bodyB_termN`: the bivariate tokeniser reads a term written with optional `*`, optional
  `^`, any blanks around `+`, any letter case and either order of the variables; when `y` is
  written first, `ensureVariableOrder` swaps names and exponents back (`ParseRT.b_go_termYX`). -/

theorem varStrN_toList (v : String) (caret : Bool) (e : Nat) :
    ((if e ≥ 1 then v else "") ++
      (if e > 1 then (if caret then "^" else "") ++ toString e else "")).toList =
      varPartN v caret e := by
  unfold varPartN
  by_cases h0 : e = 0
  · simp [h0]
  · by_cases h1 : e = 1
    · simp [h1]
    · have h2 : e ≥ 1 := by omega
      have h3 : e > 1 := by omega
      cases caret <;> simp [h0, h1, h2, h3]

theorem starStr_toList (star : Bool) (cs : String) (d1 d2 : Nat) :
    ((if (star && cs != "" && (d1 != 0 || d2 != 0)) = true then "*" else "") : String).toList =
      if star = true ∧ cs.toList ≠ [] ∧ (d1 ≠ 0 ∨ d2 ≠ 0) then ['*'] else [] := by
  have hcs : cs.toList = [] ↔ cs = "" := by
    constructor
    · intro h; apply String.toList_inj.1; rw [h]; rfl
    · rintro rfl; rfl
  by_cases h1 : star = true <;> by_cases h2 : cs = "" <;> by_cases h3 : d1 = 0 <;>
    by_cases h4 : d2 = 0 <;> simp [h1, h2, h3, h4, hcs]

theorem bnamesN_of {α : Type} {F : FOps α} (N : Notation) {x y : String} (hx : AdmissibleName x)
    (hy : AdmissibleName y) (hxy : Unconfusable x y)
    (hun : ∀ w, F.ownVar = some w → Unconfusable x w ∧ Unconfusable y w) :
    BNamesN F x y (varN N x) (varN N y) := by
  obtain ⟨hlx, x0', xt', hx'1, hx'2, _⟩ := varN_facts N hx
  obtain ⟨hly, y0', yt', hy'1, hy'2, _⟩ := varN_facts N hy
  have hxy' := hxy
  unfold Unconfusable UPoly.strLower at hxy'
  simp only [String.toList_ofList] at hxy'
  obtain ⟨x0, xt, hx1, hx2, _⟩ := hx
  obtain ⟨y0, yt, hy1, hy2, _⟩ := hy
  refine ⟨⟨x0, xt, hx1, hx2⟩, ⟨y0, yt, hy1, hy2⟩, ⟨⟨x0', xt', hx'1, hx'2⟩, ?_, ?_⟩,
    ⟨⟨y0', yt', hy'1, hy'2⟩, ?_, ?_⟩, ?_, ?_, ?_⟩
  · intro Z
    unfold scanVar
    rw [stripCi_append hlx]
  · intro w Z hw
    exact strip_none_of_unconfusable
      (unconfusable_varN N ⟨x0, xt, hx1, hx2, ‹_›⟩ (hun w hw).1) Z
  · intro Z
    unfold scanVar
    have : stripCi x.toList ((varN N y).toList ++ Z) = none :=
      stripCi_none_of_unconf (by rw [hly]; exact hxy') Z
    rw [this, stripCi_append hly]
  · intro w Z hw
    exact strip_none_of_unconfusable
      (unconfusable_varN N ⟨y0, yt, hy1, hy2, ‹_›⟩ (hun w hw).2) Z
  · unfold UPoly.strLower; rw [hlx]
  · unfold UPoly.strLower; rw [hly]
  · intro e
    apply hxy'.1
    have := congrArg String.toList e
    unfold UPoly.strLower at this
    simp only [String.toList_ofList] at this
    rw [this]

/-- the printed form of a bivariate polynomial in a notation, as a joined list of terms -/
theorem bToStrN_toList {α : Type} (N : Notation) {k l : Nat}
    (hN : N.sep = String.ofList (List.replicate k ' ' ++ '+' :: List.replicate l ' '))
    (R : BPoly.Ring α) (hz1 : R.F.toStr R.F.zero = "0") (hz2 : ¬ R.F.nTerms R.F.zero > 1)
    (f : BPoly α) :
    (bToStrN N R f).toList = joinS (sepN k l)
      ((btermsOf R f).map
        (btermN R.F (varN N R.varNames.1) (varN N R.varNames.2) N.caret N.star N.yFirst)) := by
  unfold bToStrN btermsOf
  by_cases hz : f.isEmpty = true
  · simp only [hz, if_true, List.map_cons, List.map_nil, joinS]
    cases N.yFirst <;>
      simp [btermN, btermCharsN, bcoefPart, coefText, bstarPart, varPartN, hz1, hz2]
  · simp only [hz, Bool.false_eq_true, if_false]
    rw [intercalate_toListS, hN, String.toList_ofList, List.map_map, List.map_map]
    show joinS (sepN k l) _ = _
    congr 1
    apply List.map_congr_left
    intro d _
    simp only [Function.comp]
    show (_ ++ _ ++ _ : String).toList = _
    rw [String.toList_append, String.toList_append, List.append_assoc]
    have hcs : ((if (!R.F.isOne (BPoly.coef R.F f d) || (d.1 == 0 && d.2 == 0)) = true then
          (if R.F.nTerms (BPoly.coef R.F f d) > 1 then "(" ++ R.F.toStr (BPoly.coef R.F f d) ++ ")"
            else R.F.toStr (BPoly.coef R.F f d)) else "") : String).toList =
        bcoefPart R.F (BPoly.coef R.F f d) d.1 d.2 := by
      unfold bcoefPart coefText; split <;> simp
    have hcomm : bcoefPart R.F (BPoly.coef R.F f d) d.2 d.1 =
        bcoefPart R.F (BPoly.coef R.F f d) d.1 d.2 := by
      unfold bcoefPart; rw [Bool.and_comm]
    have hx := varStrN_toList (varN N R.varNames.1) N.caret d.1
    have hy := varStrN_toList (varN N R.varNames.2) N.caret d.2
    unfold varN at hx hy
    rw [hcs]
    cases hyf : N.yFirst with
    | false =>
      simp only [btermN, Bool.false_eq_true, if_false, btermCharsN]
      congr 1
      congr 1
      · unfold bstarPart
        rw [← hcs]
        exact starStr_toList N.star _ d.1 d.2
      · rw [String.toList_append, hx, hy]; rfl
    | true =>
      simp only [btermN, if_true, btermCharsN, hcomm]
      congr 1
      congr 1
      · unfold bstarPart
        rw [hcomm, ← hcs]
        have hor : (d.2 ≠ 0 ∨ d.1 ≠ 0) ↔ (d.1 ≠ 0 ∨ d.2 ≠ 0) := or_comm
        simp only [hor]
        exact starStr_toList N.star _ d.1 d.2
      · rw [String.toList_append, hx, hy]; rfl

/-- `BPolyRoundTrip` clause 1 for EVERY notation, over any lawful coefficient record with a
    `CoefRT` coefficient syntax, every order, every ideal -/
theorem bpoly_notation_generic {α K : Type} [Field K] {F : FOps α} (L : Lawful F K)
    (H : CoefRT F L.valid) (hz1 : F.toStr F.zero = "0") (hz2 : ¬ F.nTerms F.zero > 1)
    (hown : ∀ w, F.ownVar = some w → AdmissibleName w)
    {x y : String} (hx : AdmissibleName x) (hy : AdmissibleName y) (hxy : Unconfusable x y)
    (hun : ∀ w, F.ownVar = some w → Unconfusable x w ∧ Unconfusable y w)
    (ord : Order) (ideal : Option (List (BPoly α))) {f : BPoly α} (hf : BPoly.WF L f)
    (hb : BPoly.Bounded f)
    (hred : BPoly.reduceIn { F := F, ord := ord, varNames := (x, y), ideal := ideal } f = some f)
    (N : Notation) (hN : N.ok) :
    ∃ g, BPoly.parse { F := F, ord := ord, varNames := (x, y), ideal := ideal }
        (bToStrN N { F := F, ord := ord, varNames := (x, y), ideal := ideal } f) = .ok (some g) ∧
      BPoly.equal F f g = true := by
  obtain ⟨k, l, hsep⟩ := hN
  have hdir : BPoly.directOK { F := F, ord := ord, varNames := (x, y), ideal := ideal } = true := by
    unfold BPoly.directOK
    simp only [(admissible_iff_simple x).1 hx, (admissible_iff_simple y).1 hy, Bool.and_self,
      Bool.true_and]
    cases hw : F.ownVar with
    | none => rfl
    | some w =>
      simp only [(admissible_iff_simple w).1 (hown w hw), unconf_of_unconfusable (hun w hw).1,
        unconf_of_unconfusable (hun w hw).2, Bool.and_self]
  have hparse := bpoly_parse_N { F := F, ord := ord, varNames := (x, y), ideal := ideal } L H
    (bnamesN_of N hx hy hxy hun) hdir N.caret N.star N.yFirst k l hf hb
    (bToStrN_toList N hsep { F := F, ord := ord, varNames := (x, y), ideal := ideal } hz1 hz2 f)
  have hperm := sortedTerms_perm (F := F) ord hf.1
  rw [hparse]
  cases hid : ideal with
  | none =>
    refine ⟨BPoly.sortedTerms F ord f, by simp [BPoly.reduceIn], ?_⟩
    exact (BPoly.equal_iff L hf (BPoly.WF_perm L hperm.symm hf)).2 (BPoly.toMv_perm L hperm.symm)
  | some gs =>
    subst hid
    refine ⟨f, ?_, (BPoly.equal_iff L hf hf).2 rfl⟩
    rw [← BPoly.reduceIn_perm _ (gs := gs) rfl hperm.symm hf.1, hred]

/-- `BPolyRoundTrip` clause 1, every notation, over a prime field -/
theorem prime_bpoly_notation {p : Nat} (hp : p.Prime) (h32 : p - 1 < 2 ^ 32) {x y : String}
    (hx : AdmissibleName x) (hy : AdmissibleName y) (hxy : Unconfusable x y) (ord : Order)
    (ideal : Option (List (BPoly Nat))) {f : BPoly Nat}
    (hf : BValid (primeSpec p) { F := primeOps p, ord := ord, varNames := (x, y), ideal := ideal } f)
    (N : Notation) (hN : N.ok) :
    ∃ g, BPoly.parse { F := primeOps p, ord := ord, varNames := (x, y), ideal := ideal }
        (bToStrN N { F := primeOps p, ord := ord, varNames := (x, y), ideal := ideal } f) =
          .ok (some g) ∧
      BPoly.equal (primeOps p) f g = true := by
  have := Fact.mk hp
  obtain ⟨hnd, hval, hred⟩ := hf
  have hwf : BPoly.WF (primeLawfulFact p h32) f :=
    ⟨hnd, fun t ht => ⟨(hval t ht).1,
      ((primeLawfulFact p h32).isZero_false_iff _ (hval t ht).1).1 (hval t ht).2.1⟩⟩
  exact bpoly_notation_generic (primeLawfulFact p h32) (prime_coefRT hp.two_le (by omega))
    (by show toString (0 : Nat) = "0"; decide) (by show ¬ (1 > 1); omega)
    (fun w hw => by cases hw) hx hy hxy (fun w hw => by cases hw) ord ideal hwf
    (fun t ht => (hval t ht).2.2) hred N hN

/-- … over a binary field -/
theorem bin_bpoly_notation {K : Type} [Field K] {n m : Nat} {w : String}
    (L : Lawful (binOps n m w) K) (hL : ∀ a, L.valid a ↔ a < 2 ^ n) (hw : AdmissibleName w)
    (hn : n < 64) {x y : String} (hx : AdmissibleName x) (hy : AdmissibleName y)
    (hxy : Unconfusable x y) (hxw : Unconfusable x w) (hyw : Unconfusable y w) (ord : Order)
    (ideal : Option (List (BPoly Nat))) {f : BPoly Nat}
    (hf : BValid (binSpec n m w) { F := binOps n m w, ord := ord, varNames := (x, y), ideal := ideal } f)
    (N : Notation) (hN : N.ok) :
    ∃ g, BPoly.parse { F := binOps n m w, ord := ord, varNames := (x, y), ideal := ideal }
        (bToStrN N { F := binOps n m w, ord := ord, varNames := (x, y), ideal := ideal } f) =
          .ok (some g) ∧
      BPoly.equal (binOps n m w) f g = true := by
  obtain ⟨hnd, hval, hred⟩ := hf
  have hwf : BPoly.WF L f :=
    ⟨hnd, fun t ht => ⟨(hL _).2 (hval t ht).1,
      (L.isZero_false_iff _ ((hL _).2 (hval t ht).1)).1 (hval t ht).2.1⟩⟩
  have hown : ∀ w', (binOps n m w).ownVar = some w' → w' = w := by
    intro w' h; injection h with e; exact e.symm
  exact bpoly_notation_generic L ((bin_coefRT hw m hn).mono fun a ha => (hL a).1 ha) rfl
    (by show ¬ popCount 0 > 1; rw [ParseRT.popCount_zero]; omega)
    (fun w' h => by rw [hown w' h]; exact hw) hx hy hxy
    (fun w' h => by rw [hown w' h]; exact ⟨hxw, hyw⟩) ord ideal hwf
    (fun t ht => (hval t ht).2.2) hred N hN

section ExtBNot
variable {p : Nat} [Fact p.Prime] {h32 : p - 1 < 2 ^ 32} {n : Nat} {g : List Nat}

/-- … over an extension field -/
theorem ext_bpoly_notation {K : Type} [Field K] (M : ExtField.Modulus h32 n g) (hn : n ≤ 2 ^ 63)
    (L : Lawful (extOps p n g) K) (hL : ∀ a, L.valid a ↔ ExtField.Valid h32 n a)
    {x y : String} (hx : AdmissibleName x) (hy : AdmissibleName y) (hxy : Unconfusable x y)
    (hxw : Unconfusable x "a") (hyw : Unconfusable y "a") (ord : Order)
    (ideal : Option (List (BPoly (UPoly Nat)))) {f : BPoly (UPoly Nat)}
    (hf : BValid (extSpec p n g) { F := extOps p n g, ord := ord, varNames := (x, y), ideal := ideal } f)
    (N : Notation) (hN : N.ok) :
    ∃ g', BPoly.parse { F := extOps p n g, ord := ord, varNames := (x, y), ideal := ideal }
        (bToStrN N { F := extOps p n g, ord := ord, varNames := (x, y), ideal := ideal } f) =
          .ok (some g') ∧
      BPoly.equal (extOps p n g) f g' = true := by
  obtain ⟨hnd, hval, hred⟩ := hf
  have hv : ∀ t ∈ f, L.valid t.2 := fun t ht =>
    (hL _).2 (by have := (hval t ht).1; exact ⟨⟨this.2.2, this.1⟩, this.2.1⟩)
  have hwf : BPoly.WF L f :=
    ⟨hnd, fun t ht => ⟨hv t ht, (L.isZero_false_iff _ (hv t ht)).1 (hval t ht).2.1⟩⟩
  have hown : ∀ w', (extOps p n g).ownVar = some w' → w' = "a" := by
    intro w' h; injection h with e; exact e.symm
  exact bpoly_notation_generic L ((ext_coefRT M hn).mono fun a ha => (hL a).1 ha)
    (by show UPoly.toStr (primeOps p) "a" [0] = "0"; rfl)
    (by show ¬ UPoly.nTerms (primeOps p) [0] > 1; simp [UPoly.nTerms, UPoly.isZero, primeOps])
    (fun w' h => by rw [hown w' h]; exact ⟨'a', [], by decide, by decide, by decide⟩) hx hy hxy
    (fun w' h => by rw [hown w' h]; exact ⟨hxw, hyw⟩) ord ideal hwf
    (fun t ht => (hval t ht).2.2) hred N hN

end ExtBNot

-- non-vacuity: y first, `*`, no `^`, lower case, no blanks: 3*yx2+x+5 for 3X^2Y + X + 5 in F_7[X,Y]
example : ∃ g, BPoly.parse { F := primeOps 7, ord := ⟨.lex, true⟩, varNames := ("X", "Y"), ideal := none }
      "3*yx2+x+5" = .ok (some g) ∧
    BPoly.equal (primeOps 7) [((2, 1), 3), ((0, 0), 5), ((1, 0), 1)] g = true := by
  have h := prime_bpoly_notation (p := 7) (by norm_num) (by norm_num) (x := "X") (y := "Y")
    ⟨'X', [], by decide, by decide, by decide⟩ ⟨'Y', [], by decide, by decide, by decide⟩
    (by unfold Unconfusable; decide) ⟨.lex, true⟩ none
    (f := [((2, 1), 3), ((0, 0), 5), ((1, 0), 1)])
    ⟨by decide, by
      intro t ht
      have : t = ((2, 1), 3) ∨ t = ((0, 0), 5) ∨ t = ((1, 0), 1) := by simpa using ht
      rcases this with rfl | rfl | rfl <;>
        exact ⟨by show (_ : Nat) < 7; decide, by decide, by decide, by decide⟩, rfl⟩
    { caret := false, star := true, sep := "+", swapCase := true, yFirst := true } ⟨0, 0, by decide⟩
  have e : bToStrN { caret := false, star := true, sep := "+", swapCase := true, yFirst := true } { F := primeOps 7, ord := ⟨.lex, true⟩, varNames := ("X", "Y"), ideal := none } [((2, 1), 3), ((0, 0), 5), ((1, 0), 1)] = "3*yx2+x+5" := by
    decide +kernel
  rwa [e] at h

/-! ### 12. bivariate additivity in a quotient ring

  `BPoly.reduceIn_sum`: if the model's `reduceIn` returns `f₁` and `f₂` unchanged, then no exponent
  pair of them is divisible by a leading exponent of the ideal, the division loop only moves the
  terms of `add f₁ f₂` into the remainder, and the result is `Equal` to `add f₁ f₂` — for an
  admissible order and exponents whose weighted degree does not overflow (so that the leading
  exponent is a stored one), and as long as the MODEL's division fuel suffices. -/

/-- the side conditions of bivariate additivity in a quotient ring.  The first two are needed by the
    division algorithm itself (`Ld()` must return a stored exponent); the third is an ARTIFACT OF
    THE MODEL: its division loop carries a fuel `BPoly.divFuel` (100000 steps), the Go code has
    none, so the unguarded statement is false in the model for sums of ≥ 100000 terms while
    nothing is wrong with the library. -/
def BAddSide {α : Type} (ord : Order) (f₁ f₂ : BPoly α) : Prop :=
  Order.Admissible ord ∧ (∀ t ∈ f₁, Order.NoOverflow ord t.1) ∧ (∀ t ∈ f₂, Order.NoOverflow ord t.1) ∧
    f₁.length + f₂.length < BPoly.divFuel

theorem hsum_of_side {α K : Type} [Field K] {F : FOps α} (L : Lawful F K) {x y : String}
    (ord : Order) (ideal : Option (List (BPoly α))) {f₁ f₂ : BPoly α}
    (hf₁ : BPoly.WF L f₁) (hf₂ : BPoly.WF L f₂)
    (hr₁ : BPoly.reduceIn { F := F, ord := ord, varNames := (x, y), ideal := ideal } f₁ = some f₁)
    (hr₂ : BPoly.reduceIn { F := F, ord := ord, varNames := (x, y), ideal := ideal } f₂ = some f₂)
    (hside : ideal ≠ none → BAddSide ord f₁ f₂) :
    ∀ gs, ideal = some gs → ∃ h,
      BPoly.reduceIn { F := F, ord := ord, varNames := (x, y), ideal := ideal }
        (BPoly.add F f₁ f₂) = some h ∧ BPoly.equal F h (BPoly.add F f₁ f₂) = true := by
  intro gs hgs
  obtain ⟨hadm, hn1, hn2, hfuel⟩ := hside (by rw [hgs]; simp)
  exact BPoly.reduceIn_sum { F := F, ord := ord, varNames := (x, y), ideal := ideal } L hgs hadm
    hf₁ hf₂ hr₁ hr₂
    (fun d hd => by obtain ⟨t, ht, rfl⟩ := List.mem_map.1 hd; exact hn1 t ht)
    (fun d hd => by obtain ⟨t, ht, rfl⟩ := List.mem_map.1 hd; exact hn2 t ht) hfuel

/-- bivariate additivity over a prime field, every order, with or without ideal (`BAddSide` in a
    quotient ring) -/
theorem prime_bpoly_additive_bounded {p : Nat} (hp : p.Prime) (h32 : p - 1 < 2 ^ 32) {x y : String}
    (hx : AdmissibleName x) (hy : AdmissibleName y) (hxy : Unconfusable x y) (ord : Order)
    (ideal : Option (List (BPoly Nat))) {f₁ f₂ : BPoly Nat}
    (hf₁ : BValid (primeSpec p) { F := primeOps p, ord := ord, varNames := (x, y), ideal := ideal } f₁)
    (hf₂ : BValid (primeSpec p) { F := primeOps p, ord := ord, varNames := (x, y), ideal := ideal } f₂)
    (hside : ideal ≠ none → BAddSide ord f₁ f₂) :
    ∃ g, BPoly.parse { F := primeOps p, ord := ord, varNames := (x, y), ideal := ideal }
        (BPoly.toStr { F := primeOps p, ord := ord, varNames := (x, y), ideal := ideal } f₁ ++ " + " ++
          BPoly.toStr { F := primeOps p, ord := ord, varNames := (x, y), ideal := ideal } f₂) =
            .ok (some g) ∧
      BPoly.equal (primeOps p) g (BPoly.add (primeOps p) f₁ f₂) = true := by
  have := Fact.mk hp
  have hwf : ∀ {f : BPoly Nat}, BValid (primeSpec p)
      { F := primeOps p, ord := ord, varNames := (x, y), ideal := ideal } f →
      BPoly.WF (primeLawfulFact p h32) f := fun hf =>
    ⟨hf.1, fun t ht => ⟨(hf.2.1 t ht).1,
      ((primeLawfulFact p h32).isZero_false_iff _ (hf.2.1 t ht).1).1 (hf.2.1 t ht).2.1⟩⟩
  exact prime_bpoly_additive hp h32 hx hy hxy ord ideal hf₁ hf₂
    (hsum_of_side (primeLawfulFact p h32) ord ideal (hwf hf₁) (hwf hf₂) hf₁.2.2 hf₂.2.2 hside)

/-- … over a binary field -/
theorem bin_bpoly_additive_bounded {K : Type} [Field K] {n m : Nat} {w : String}
    (L : Lawful (binOps n m w) K) (hL : ∀ a, L.valid a ↔ a < 2 ^ n) (hw : AdmissibleName w)
    (hn : n < 64) {x y : String} (hx : AdmissibleName x) (hy : AdmissibleName y)
    (hxy : Unconfusable x y) (hxw : Unconfusable x w) (hyw : Unconfusable y w) (ord : Order)
    (ideal : Option (List (BPoly Nat))) {f₁ f₂ : BPoly Nat}
    (hf₁ : BValid (binSpec n m w) { F := binOps n m w, ord := ord, varNames := (x, y), ideal := ideal } f₁)
    (hf₂ : BValid (binSpec n m w) { F := binOps n m w, ord := ord, varNames := (x, y), ideal := ideal } f₂)
    (hside : ideal ≠ none → BAddSide ord f₁ f₂) :
    ∃ g, BPoly.parse { F := binOps n m w, ord := ord, varNames := (x, y), ideal := ideal }
        (BPoly.toStr { F := binOps n m w, ord := ord, varNames := (x, y), ideal := ideal } f₁ ++ " + " ++
          BPoly.toStr { F := binOps n m w, ord := ord, varNames := (x, y), ideal := ideal } f₂) =
            .ok (some g) ∧
      BPoly.equal (binOps n m w) g (BPoly.add (binOps n m w) f₁ f₂) = true := by
  have hwf : ∀ {f : BPoly Nat}, BValid (binSpec n m w)
      { F := binOps n m w, ord := ord, varNames := (x, y), ideal := ideal } f → BPoly.WF L f :=
    fun hf => ⟨hf.1, fun t ht => ⟨(hL _).2 (hf.2.1 t ht).1,
      (L.isZero_false_iff _ ((hL _).2 (hf.2.1 t ht).1)).1 (hf.2.1 t ht).2.1⟩⟩
  exact bin_bpoly_additive L hL hw hn hx hy hxy hxw hyw ord ideal hf₁ hf₂
    (hsum_of_side L ord ideal (hwf hf₁) (hwf hf₂) hf₁.2.2 hf₂.2.2 hside)

section ExtBAddB
variable {p : Nat} [Fact p.Prime] {h32 : p - 1 < 2 ^ 32} {n : Nat} {g : List Nat}

/-- … over an extension field -/
theorem ext_bpoly_additive_bounded {K : Type} [Field K] (M : ExtField.Modulus h32 n g)
    (hn : n ≤ 2 ^ 63) (L : Lawful (extOps p n g) K) (hL : ∀ a, L.valid a ↔ ExtField.Valid h32 n a)
    {x y : String} (hx : AdmissibleName x) (hy : AdmissibleName y) (hxy : Unconfusable x y)
    (hxw : Unconfusable x "a") (hyw : Unconfusable y "a") (ord : Order)
    (ideal : Option (List (BPoly (UPoly Nat)))) {f₁ f₂ : BPoly (UPoly Nat)}
    (hf₁ : BValid (extSpec p n g) { F := extOps p n g, ord := ord, varNames := (x, y), ideal := ideal } f₁)
    (hf₂ : BValid (extSpec p n g) { F := extOps p n g, ord := ord, varNames := (x, y), ideal := ideal } f₂)
    (hside : ideal ≠ none → BAddSide ord f₁ f₂) :
    ∃ g', BPoly.parse { F := extOps p n g, ord := ord, varNames := (x, y), ideal := ideal }
        (BPoly.toStr { F := extOps p n g, ord := ord, varNames := (x, y), ideal := ideal } f₁ ++ " + " ++
          BPoly.toStr { F := extOps p n g, ord := ord, varNames := (x, y), ideal := ideal } f₂) =
            .ok (some g') ∧
      BPoly.equal (extOps p n g) g' (BPoly.add (extOps p n g) f₁ f₂) = true := by
  have hv : ∀ {f : BPoly (UPoly Nat)}, BValid (extSpec p n g)
      { F := extOps p n g, ord := ord, varNames := (x, y), ideal := ideal } f →
      ∀ t ∈ f, L.valid t.2 := fun hf t ht =>
    (hL _).2 (by have := (hf.2.1 t ht).1; exact ⟨⟨this.2.2, this.1⟩, this.2.1⟩)
  have hwf : ∀ {f : BPoly (UPoly Nat)}, BValid (extSpec p n g)
      { F := extOps p n g, ord := ord, varNames := (x, y), ideal := ideal } f → BPoly.WF L f :=
    fun hf => ⟨hf.1, fun t ht => ⟨hv hf t ht,
      (L.isZero_false_iff _ (hv hf t ht)).1 (hf.2.1 t ht).2.1⟩⟩
  exact ext_bpoly_additive M hn L hL hx hy hxy hxw hyw ord ideal hf₁ hf₂
    (hsum_of_side L ord ideal (hwf hf₁) (hwf hf₂) hf₁.2.2 hf₂.2.2 hside)

end ExtBAddB

-- non-vacuity: (XY + 3) + (2XY + Y) = 3XY + Y + 3 in F_7[X,Y]/(X^2 + 1), graded order
example : ∃ g, BPoly.parse { F := primeOps 7, ord := (Order.mk (.wdeglex 1 1) true), varNames := ("X", "Y"), ideal := some [[((2, 0), 1), ((0, 0), 1)]] } "XY + 3 + 2XY + Y" = .ok (some g) ∧
    BPoly.equal (primeOps 7) g [((1, 1), 3), ((0, 0), 3), ((0, 1), 1)] = true := by
  have hv : ∀ (f : BPoly Nat), f = [((1, 1), 1), ((0, 0), 3)] ∨ f = [((1, 1), 2), ((0, 1), 1)] →
      BValid (primeSpec 7) { F := primeOps 7, ord := (Order.mk (.wdeglex 1 1) true), varNames := ("X", "Y"), ideal := some [[((2, 0), 1), ((0, 0), 1)]] } f := by
    rintro f (rfl | rfl)
    · refine ⟨by decide, ?_, by decide +kernel⟩
      intro t ht
      have : t = ((1, 1), 1) ∨ t = ((0, 0), 3) := by simpa using ht
      rcases this with rfl | rfl <;>
        exact ⟨by show (_ : Nat) < 7; decide, by decide, by decide, by decide⟩
    · refine ⟨by decide, ?_, by decide +kernel⟩
      intro t ht
      have : t = ((1, 1), 2) ∨ t = ((0, 1), 1) := by simpa using ht
      rcases this with rfl | rfl <;>
        exact ⟨by show (_ : Nat) < 7; decide, by decide, by decide, by decide⟩
  have hno : ∀ d : Deg, d.1 < 2 ∧ d.2 < 2 → Order.NoOverflow (Order.mk (.wdeglex 1 1) true) d := by
    rintro ⟨a, b⟩ ⟨ha, hb⟩
    have ha' : a = 0 ∨ a = 1 := by omega
    have hb' : b = 0 ∨ b = 1 := by omega
    rcases ha' with rfl | rfl <;> rcases hb' with rfl | rfl <;> decide
  have h := prime_bpoly_additive_bounded (p := 7) (by norm_num) (by norm_num) (x := "X") (y := "Y")
    ⟨'X', [], by decide, by decide, by decide⟩ ⟨'Y', [], by decide, by decide, by decide⟩
    (by unfold Unconfusable; decide) (Order.mk (.wdeglex 1 1) true)
    (some [[((2, 0), 1), ((0, 0), 1)]]) (hv _ (Or.inl rfl)) (hv _ (Or.inr rfl))
    (fun _ => ⟨trivial,
      fun t ht => hno t.1 (by
        have : t = ((1, 1), 1) ∨ t = ((0, 0), 3) := by simpa using ht
        rcases this with rfl | rfl <;> decide),
      fun t ht => hno t.1 (by
        have : t = ((1, 1), 2) ∨ t = ((0, 1), 1) := by simpa using ht
        rcases this with rfl | rfl <;> decide),
      by decide⟩)
  have e1 : BPoly.toStr { F := primeOps 7, ord := (Order.mk (.wdeglex 1 1) true), varNames := ("X", "Y"), ideal := some [[((2, 0), 1), ((0, 0), 1)]] } [((1, 1), 1), ((0, 0), 3)] ++ " + " ++ BPoly.toStr { F := primeOps 7, ord := (Order.mk (.wdeglex 1 1) true), varNames := ("X", "Y"), ideal := some [[((2, 0), 1), ((0, 0), 1)]] } [((1, 1), 2), ((0, 1), 1)] = "XY + 3 + 2XY + Y" := by
    decide +kernel
  have e2 : BPoly.add (primeOps 7) [((1, 1), 1), ((0, 0), 3)] [((1, 1), 2), ((0, 1), 1)] =
      [((1, 1), 3), ((0, 0), 3), ((0, 1), 1)] := by decide +kernel
  rwa [e1, e2] at h

/-- `UPolyRoundTrip` of `Props/C15.lean` with the bound on the number of coefficients that the
    exponent reader (`strconv.ParseInt`) imposes: an exponent `≥ 2^63` is a range error, so without
    `f.length ≤ 2^63` the statement is false in the model (a Go slice cannot be longer anyway). -/
def UPolyRoundTripB {α : Type} (S : FieldSpec α) : Prop :=
  ∀ (v : String) (mod : Option (UPoly α)), AdmissibleName v →
    (∀ w, S.ownVar = some w → Unconfusable v w) → ModOK S mod →
    let R : UPoly.Ring α := { F := S.F, varName := v, modulus := mod }
    (∀ f, UValid S R f → f.length ≤ 2 ^ 63 → ∀ N : Notation, N.ok →
      ∃ g, UPoly.parse R (uToStrN N S.F v f) = .ok (some g) ∧ UPoly.equal S.F f g = true) ∧
    (∀ f₁ f₂, UValid S R f₁ → UValid S R f₂ → f₁.length ≤ 2 ^ 63 → f₂.length ≤ 2 ^ 63 →
      ∃ g, UPoly.parse R (UPoly.toStr S.F v f₁ ++ " + " ++ UPoly.toStr S.F v f₂) = .ok (some g) ∧
        UPoly.equal S.F g (UPoly.add S.F f₁ f₂) = true)

/-! ### 13. nothing of `C15_full` remains unproved, up to the bounds

  Every clause of `C15_full` is now a theorem for all three field families, with these bounds and
  side conditions (the literal statement is false without the first, `C15_full_literal_false`):
  * univariate polynomials: at most `2^63` coefficients (`strconv.ParseInt` on the exponent);
  * bivariate exponents `< 2^64` (already part of `BValid`);
  * bivariate additivity in a quotient ring: `BAddSide` — admissible order, no overflow of the
    weighted degree of the stored exponents, and `f₁.length + f₂.length < BPoly.divFuel`, the
    last being an artifact of the fuel-bounded MODEL of the division loop (the Go code has no
    fuel; nothing is claimed wrong with the library);
  * the corollaries over the fields the `Define` functions return need `q < 2^64`.
  The assembled statement is `C15_full_bounded` in `Props/C15FullDefine.lean`.
  (`C15Full_remaining`, which listed the unproved parts in earlier versions, is gone.) -/

end Algobra.C15
