/-
  Props/C18Tables.lean — C18, concrete part: the TABLED code paths (Model/Tables.lean) compute
  exactly what the untabled model computes.

  Model functions: `Prime.addT Prime.mulT Prime.powT Prime.multGeneratorT primeOpsT`
  (primefield `Add`/`Prod`/`Pow`/`MultGenerator` with tables, built by `Prime.newTable` from the
  closures of `ComputeTables`), `LogT.newTable LogT.lookup LogT.lookupReverse LogT.mulWith
  LogT.invWith` (the logarithm table of extfield: `invLog = Elements()[1:]`, the Go map keyed by the
  printed form), `Ext.mulT Ext.invT Ext.powT Ext.traceT extOpsT` — against `Prime.add Prime.mul
  Prime.pow Prime.multGenerator primeOps`, `Ext.mul Ext.inv Ext.pow Ext.trace extOps`.

  Reading guide.  `Tables.OpsAgree F F' V` (Proofs/Tables.lean): the records `F`, `F'` have EQUAL
  `char card zero one gen isZero isOne beq ofNat ofInt nTerms toStr parse regex enc dec ownVar`
  and `add sub mul neg inv pow trace` agree on arguments satisfying `V`.  `Tables.Closed F V`: the
  arithmetic of `F` keeps `V`.

  AXIOMS.  Everything except `define_ext_tables` depends only on propext, Classical.choice,
  Quot.sound.  `define_ext_tables` goes through `C01.define_ext_lawful` over the real Conway
  database and inherits the `native_decide` certificates of C04 (the 67 axioms
  `Algobra.C04Check.{look00…look31, sweep00…sweep31, scan_ok, tab_ok}._native.native_decide.ax_1_1`,
  the same set as `C01.define_ext_lawful`).  No `native_decide` is written in this file.

  Remark on the word size (no finding): tabled `Prod` adds the two logarithms as machine words,
  `(s + t) % (Card() - 1)` with `s, t ≤ q - 2`.  The sum cannot wrap for `q ≤ 2^63 + 1`; the
  theorems below assume `q ≤ 2^63`.  For `2^63 + 1 < q < 2^64` (accepted by `Define`) a wrapped sum
  would give a wrong product, but such a table has more than `2^63` entries and cannot be built
  (`Elements()` allocates `Card()` interface values first), so this is not reachable.
-/
import Algobra.Proofs.Tables
import Algobra.Props.C01

namespace Algobra.C18Tables
open Algobra Tables

/-! ## (a) prime fields -/

/-- C18-T1. Tabled `Add` = untabled `Add` on reduced words.  Holds for every modulus `p`, in
    particular for every prime with the `Define` guard `p - 1 < 2^32`: the closure that fills the
    table is the expression of the untabled branch, wrap-around included. -/
theorem prime_addT {p a b : Nat} (ha : a < p) (hb : b < p) : Prime.addT p a b = Prime.add p a b :=
  addT_eq ha hb

/-- C18-T2. Tabled `Prod` (zero tests, then look-up) = untabled `Prod` on reduced words. -/
theorem prime_mulT {p a b : Nat} (ha : a < p) (hb : b < p) : Prime.mulT p a b = Prime.mul p a b :=
  mulT_eq ha hb

/-- C18-T3. `Pow` over the tabled `Mult` = `Pow` over the untabled `Mult`, every exponent. -/
theorem prime_powT {p a : Nat} (ha : a < p) (k : Nat) : Prime.powT p a k = Prime.pow p a k :=
  powT_eq (by omega) ha k

/-- C18-T4. `MultGenerator()` (which calls `Pow`) is the same element with or without tables. -/
theorem prime_multGeneratorT {p : Nat} (hp : 0 < p) :
    Prime.multGeneratorT p = Prime.multGenerator p :=
  multGeneratorT_eq hp

/-- C18-T5. The record of a prime field with any combination of tables is the untabled record on
    reduced words, and the untabled record keeps reduced words reduced (`p` prime with the `Define`
    guard; agreement alone needs only `0 < p`). -/
theorem primeOpsT_agree {p : Nat} (hp : p.Prime) (h32 : p - 1 < 2 ^ 32) (addTab mulTab : Bool) :
    OpsAgree (primeOps p) (primeOpsT p addTab mulTab) (· < p) ∧ Closed (primeOps p) (· < p) :=
  have : Fact p.Prime := ⟨hp⟩
  ⟨Tables.primeOpsT_agree hp.pos addTab mulTab, closed_of_facts (Assemble.prime_field p h32)⟩

/-- C18-T6. … for every field returned by `primefield.Define`. -/
theorem define_prime_tables {q : Nat} (hq : q < 2 ^ 64) {d : FieldDesc}
    (h : Define.prime q = .ok d) (addTab mulTab : Bool) :
    d = .prime q ∧ OpsAgree (primeOps q) (primeOpsT q addTab mulTab) (· < q) ∧
      Closed (primeOps q) (· < q) := by
  obtain ⟨hd, hp, h32, -⟩ := C01.define_prime_lawful hq h
  exact ⟨hd, primeOpsT_agree hp h32 addTab mulTab⟩

-- non-vacuity and sanity: GF(7)
example : (3 : Nat) < 7 ∧ (5 : Nat) < 7 ∧ Nat.Prime 7 ∧ 7 - 1 < 2 ^ 32 := by norm_num
example : Prime.addTable 7 = [[0, 1, 2, 3, 4, 5, 6], [2, 3, 4, 5, 6, 0], [4, 5, 6, 0, 1], [6, 0, 1, 2],
    [1, 2, 3], [3, 4], [5]] := by decide
example : Prime.mulTable 7 = [[0, 0, 0, 0, 0, 0, 0], [1, 2, 3, 4, 5, 6], [4, 6, 1, 3, 5], [2, 5, 1, 4],
    [2, 6, 3], [4, 2], [1]] := by decide
example : Prime.addT 7 3 5 = 1 ∧ Prime.addT 7 5 3 = 1 ∧ Prime.add 7 3 5 = 1 := by decide
example : Prime.mulT 7 3 5 = 1 ∧ Prime.mulT 7 5 3 = 1 ∧ Prime.mulT 7 0 5 = 0 ∧ Prime.mul 7 3 5 = 1 := by
  decide
example : Prime.powT 7 3 100 = 4 ∧ Prime.pow 7 3 100 = 4 := by decide +kernel
example : (primeOpsT 7 true true).gen = 3 ∧ (primeOps 7).gen = 3 := by decide +kernel
example : (primeOpsT 7 true true).add 6 6 = 5 ∧ (primeOpsT 7 false true).mul 6 6 = 1 ∧
    (primeOpsT 7 true true).inv 3 = some 5 := by decide +kernel
/-- the hypothesis `a < p` matters: outside the table Go panics (the model's default is 0) while
    the untabled code reduces -/
example : Prime.addT 7 9 1 = 0 ∧ Prime.add 7 9 1 = 3 := by decide
example : Define.prime 7 = .ok (.prime 7) := by decide +kernel

/-! ## (b) the logarithm table, for any lawful record with a primitive generator -/

section Generic
variable {α K : Type} [Field K] {F : FOps α} (L : Lawful F K) {p n : Nat}
  (hL : Assemble.FieldFacts L p n)
  (hinj : ∀ a b, L.valid a → L.valid b → F.toStr a = F.toStr b → a = b)
include hL hinj

/-- C18-T7. The table as `newLogTable` builds it: `Elements()` is the enumeration of C03
    (`0, g^0, g^1, …`), `invLog` has `q - 1` entries, `invLog[i] = g^i`, and the Go map keyed by the
    printed form sends `g^i` to `i` (`i < q - 1`) — provided the printed form is injective on valid
    representations (`hinj`; for extfield: `ext_toStr_inj`). -/
theorem logTable_spec :
    LogT.elements F = C03.elementsByGen F ∧ (LogT.newTable F).invLog.length = p ^ n - 1 ∧
    ∀ i, i < p ^ n - 1 →
      LogT.lookupReverse F (LogT.newTable F) i = (fun e => F.mul e F.gen)^[i] F.one ∧
      LogT.lookup F (LogT.newTable F) ((fun e => F.mul e F.gen)^[i] F.one) = i := by
  refine ⟨elements_eq F, ?_, fun i hi => ⟨lookupReverse_pw L hL hi, lookup_pw L hL hinj hi⟩⟩
  rw [invLog_eq, List.length_map, List.length_range, card_sub L hL]

/-- C18-T8. Tabled `Prod` (`invLog[(s + t) % (Card() - 1)]` after the zero tests) = untabled
    `Prod`, for all valid operands, zero included (`q ≤ 2^63`: the word sum `s + t` does not wrap). -/
theorem logTable_mul (hq : p ^ n ≤ 2 ^ 63) {b c : α} (hb : L.valid b) (hc : L.valid c) :
    LogT.mulWith F (LogT.newTable F) b c = F.mul b c :=
  mulWith_eq L hL hinj hq hb hc

/-- C18-T9. Tabled `Inv` = untabled `Inv` for all valid operands: zero → the InputValue error
    (`none`), one → a copy, otherwise `invLog[Card() - 1 - s]`. -/
theorem logTable_inv (h64 : p ^ n < 2 ^ 64) {a : α} (ha : L.valid a) :
    LogT.invWith F (LogT.newTable F) a = F.inv a :=
  invWith_eq L hL hinj h64 ha

end Generic

/-! ## (b') extension fields -/

section Ext
variable {p n : Nat} {g : List Nat} {K : Type} [Field K] (L : Lawful (extOps p n g) K)
  (hL : Assemble.FieldFacts L p n) (hcanon : ∀ a, L.valid a → UPoly.Canon (primeOps p) a)
include hL hcanon

/-- C18-T10. extfield, tabled `Prod` = `Ext.mul` on valid elements.  Hypotheses = what
    `C01.define_ext_lawful` provides: a lawful record with `FieldFacts`, valid elements canonical. -/
theorem ext_mulT (hq : p ^ n ≤ 2 ^ 63) {b c : UPoly Nat} (hb : L.valid b) (hc : L.valid c) :
    Ext.mulT p n g b c = Ext.mul p g b c :=
  ext_mulT_eq L hL hcanon hq hb hc

/-- C18-T11. extfield, tabled `Inv` = `Ext.inv` on valid elements (zero → `none`, one → copy). -/
theorem ext_invT (h64 : p ^ n < 2 ^ 64) {a : UPoly Nat} (ha : L.valid a) :
    Ext.invT p n g a = Ext.inv p g a :=
  ext_invT_eq L hL hcanon h64 ha

/-- C18-T12. extfield, `Pow` and `Trace` over the tabled `Mult` = over the untabled `Mult`. -/
theorem ext_powT_traceT (hq : p ^ n ≤ 2 ^ 63) {a : UPoly Nat} (ha : L.valid a) :
    (∀ k, Ext.powT p n g a k = Ext.pow p n g a k) ∧ Ext.traceT p n g a = Ext.trace p n g a :=
  ⟨fun k => ext_powT_eq L hL hcanon hq ha k, ext_traceT_eq L hL hcanon hq ha⟩

/-- C18-T13. The record of an extension field with a logarithm table is the untabled record on
    valid elements, and the untabled record keeps validity. -/
theorem extOpsT_agree (hq : p ^ n ≤ 2 ^ 63) (tab : Bool) :
    OpsAgree (extOps p n g) (extOpsT p n g tab) L.valid ∧ Closed (extOps p n g) L.valid :=
  ⟨Tables.extOpsT_agree L hL hcanon hq tab, closed_of_facts hL⟩

end Ext

/-- C18-T14. … for every field returned by `extfield.Define` over the real Conway database
    (`q ≤ 2^63`): the record is `extOps p n g`, and with a logarithm table it is indistinguishable
    from it on the valid elements (canonical lists of fewer than `n + 1` coefficients below `p`). -/
theorem define_ext_tables {q : Nat} (hq : q ≤ 2 ^ 63) {d : FieldDesc}
    (h : Define.ext Gen.dbText q = .ok d) (tab : Bool) :
    ∃ (p n : Nat) (g : List Nat) (_ : Fact p.Prime) (h32 : p - 1 < 2 ^ 32),
      d = .ext p n g ∧ q = p ^ n ∧
      OpsAgree (extOps p n g) (extOpsT p n g tab) (ExtField.Valid h32 n) ∧
      Closed (extOps p n g) (ExtField.Valid h32 n) := by
  obtain ⟨p, n, g, hF, h32, hd, -, hqn, -, -, -, -, -, hI, L, hv, -, -, hL, -⟩ :=
    C01.define_ext_lawful (lt_of_le_of_lt hq (by norm_num)) h
  have hval : L.valid = ExtField.Valid h32 n := funext fun a => propext (hv a)
  have hcanon : ∀ a, L.valid a → UPoly.Canon (primeOps p) a := fun a ha => ((hv a).1 ha).1.2
  obtain ⟨h1, h2⟩ := extOpsT_agree L hL hcanon (hqn ▸ hq) tab
  rw [hval] at h1 h2
  exact ⟨p, n, g, hF, h32, hd, hqn, h1, h2⟩

/-! ### non-vacuity: GF(9) = F_3[a]/(a² + 2a + 2) and GF(8) = F_2[a]/(a³ + a + 1) as extfield -/

/-- the hypotheses of T7–T13 are met by GF(9) (no database needed) -/
example : ∃ (K : Type) (_ : Field K) (L : Lawful (extOps 3 2 [2, 2, 1]) K),
    Assemble.FieldFacts L 3 2 ∧ (∀ a, L.valid a → UPoly.Canon (primeOps 3) a) ∧
    (3 : Nat) ^ 2 ≤ 2 ^ 63 ∧ L.valid [1, 2] ∧ L.valid [0] := by
  obtain ⟨-, -, hI, L, hv, -, -, hL⟩ :=
    Assemble.ext_field ExtField.h32_three (n := 2) (cs := [2, 2, 1]) (by decide) (by norm_num) rfl
      (by decide) rfl Assemble.gf9_irreducible' Assemble.gf9_order
  refine ⟨_, inferInstance, L, hL, fun a ha => ((hv a).1 ha).1.2, by norm_num, ?_, ?_⟩
  · exact (hL.elements.2.2.2 _).1 (by decide +kernel)
  · exact L.zero_valid

example : (Ext.logTable 3 2 [2, 2, 1]).invLog
    = [[1], [0, 1], [1, 1], [1, 2], [2], [0, 2], [2, 2], [2, 1]] := by decide +kernel
example : (Ext.logTable 3 2 [2, 2, 1]).log = [("1", 0), ("a", 1), ("a + 1", 2), ("2a + 1", 3),
    ("2", 4), ("2a", 5), ("2a + 2", 6), ("a + 2", 7)] := by decide +kernel
example : Ext.mulT 3 2 [2, 2, 1] [1, 2] [2, 1] = [1, 1] ∧ Ext.mul 3 [2, 2, 1] [1, 2] [2, 1] = [1, 1] := by
  decide +kernel
example : Ext.mulT 3 2 [2, 2, 1] [0] [2, 1] = [0] ∧ Ext.mulT 3 2 [2, 2, 1] [2, 1] [0] = [0] := by
  decide +kernel
example : Ext.invT 3 2 [2, 2, 1] [1, 2] = some [0, 2] ∧ Ext.inv 3 [2, 2, 1] [1, 2] = some [0, 2] := by
  decide +kernel
example : Ext.invT 3 2 [2, 2, 1] [0] = none ∧ Ext.invT 3 2 [2, 2, 1] [1] = some [1] := by decide +kernel
example : (extOpsT 3 2 [2, 2, 1] true).pow [0, 1] 4 = [2] ∧ (extOpsT 3 2 [2, 2, 1] true).trace [0, 1] = [1] ∧
    (extOps 3 2 [2, 2, 1]).pow [0, 1] 4 = [2] ∧ (extOps 3 2 [2, 2, 1]).trace [0, 1] = [1] := by
  decide +kernel
-- GF(8) through extfield (`extfield.Define(8)` is legal Go; `finitefield.Define` prefers binfield)
example : (Ext.logTable 2 3 [1, 1, 0, 1]).invLog
    = [[1], [0, 1], [0, 0, 1], [1, 1], [0, 1, 1], [1, 1, 1], [1, 0, 1]] := by decide +kernel
example : Ext.mulT 2 3 [1, 1, 0, 1] [0, 1, 1] [1, 0, 1] = [1, 1] ∧
    Ext.mul 2 [1, 1, 0, 1] [0, 1, 1] [1, 0, 1] = [1, 1] := by decide +kernel
example : Ext.invT 2 3 [1, 1, 0, 1] [0, 1] = some [1, 0, 1] ∧
    Ext.inv 2 [1, 1, 0, 1] [0, 1] = some [1, 0, 1] := by decide +kernel
/-- the whole multiplication and inversion tables of GF(9) and GF(8), tabled against untabled -/
example : (LogT.elements (extOps 3 2 [2, 2, 1])).all (fun a =>
    (LogT.elements (extOps 3 2 [2, 2, 1])).all (fun b =>
      Ext.mulT 3 2 [2, 2, 1] a b == Ext.mul 3 [2, 2, 1] a b) &&
    Ext.invT 3 2 [2, 2, 1] a == Ext.inv 3 [2, 2, 1] a) = true := by decide +kernel
example : (LogT.elements (extOps 2 3 [1, 1, 0, 1])).all (fun a =>
    (LogT.elements (extOps 2 3 [1, 1, 0, 1])).all (fun b =>
      Ext.mulT 2 3 [1, 1, 0, 1] a b == Ext.mul 2 [1, 1, 0, 1] a b) &&
    Ext.invT 2 3 [1, 1, 0, 1] a == Ext.inv 2 [1, 1, 0, 1] a) = true := by decide +kernel
/-- validity matters: the unreduced coefficient `5` (= 2 in GF(3), never produced by the API) prints
    as "5", a key the Go map does not have, so `log["5"]` is the zero value 0 = log 1 and the tabled
    product is `1 · a`, while the untabled code reduces the coefficient product -/
example : (extOps 3 2 [2, 2, 1]).toStr [5] = "5" ∧ Ext.mulT 3 2 [2, 2, 1] [5] [0, 1] = [0, 1] ∧
    Ext.mul 3 [2, 2, 1] [5] [0, 1] = [0, 2] := by decide +kernel

/-! ## (c) computations -/

/-- C18-T15. Every term over the element operations (`Zero One MultGenerator Plus Minus Times Neg
    Inv Pow Trace`, registers holding valid elements) has the same value AND the same error status
    (`none` = an `Inv` of zero occurred) in a record `F'` that agrees with `F`; the value is valid. -/
theorem expr_transparent {α : Type} {F F' : FOps α} {V : α → Prop} (hA : OpsAgree F F' V)
    (hC : Closed F V) (ρ : Nat → α) (hρ : ∀ k, V (ρ k)) (e : Expr) :
    e.eval F' ρ = e.eval F ρ ∧ ∀ v, e.eval F ρ = some v → V v :=
  Expr.eval_agree hA hC ρ hρ e

/-- … prime fields with any combination of tables -/
theorem expr_transparent_prime {p : Nat} (hp : p.Prime) (h32 : p - 1 < 2 ^ 32) (addTab mulTab : Bool)
    (ρ : Nat → Nat) (hρ : ∀ k, ρ k < p) (e : Expr) :
    e.eval (primeOpsT p addTab mulTab) ρ = e.eval (primeOps p) ρ :=
  (expr_transparent (primeOpsT_agree hp h32 addTab mulTab).1 (primeOpsT_agree hp h32 addTab mulTab).2
    ρ hρ e).1

/-- … extension fields with a logarithm table -/
theorem expr_transparent_ext {p n : Nat} {g : List Nat} {K : Type} [Field K]
    (L : Lawful (extOps p n g) K) (hL : Assemble.FieldFacts L p n)
    (hcanon : ∀ a, L.valid a → UPoly.Canon (primeOps p) a) (hq : p ^ n ≤ 2 ^ 63) (tab : Bool)
    (ρ : Nat → UPoly Nat) (hρ : ∀ k, L.valid (ρ k)) (e : Expr) :
    e.eval (extOpsT p n g tab) ρ = e.eval (extOps p n g) ρ :=
  (expr_transparent (extOpsT_agree L hL hcanon hq tab).1 (extOpsT_agree L hL hcanon hq tab).2 ρ hρ e).1

-- sanity: (r0 · r1 + g)⁻¹ ^ 5 and an inverse of zero in GF(7), both records
example : (Expr.pow (.inv (.add (.mul (.reg 0) (.reg 1)) .gen)) 5).eval (primeOpsT 7 true true)
    (fun k => if k = 0 then 3 else 5) = some 4 ∧
  (Expr.pow (.inv (.add (.mul (.reg 0) (.reg 1)) .gen)) 5).eval (primeOps 7)
    (fun k => if k = 0 then 3 else 5) = some 4 ∧
  (Expr.inv (.sub (.reg 0) (.reg 0))).eval (primeOpsT 7 true true) (fun _ => 3) = none := by
  decide +kernel

/-! ### histories (`step` / `runOps` of Model/Hist.lean) -/

/-- C18-T16 (`history_transparent_partial`).  Run any history of ELEMENT-LEVEL operations and table
    requests (`Tables.elemOp`: `Zero One MultGenerator` and foreign constructors, `Plus Minus Times
    Neg Inv Copy Trace Pow Add Sub Mult Prod SetNeg Equal`, the observers, `ComputeTables`) in two
    environments whose field objects agree index by index on closed sets `V i` (`Tables.EnvAgree`; e.g.
    tabled against untabled records, T5/T13), from a store whose element registers hold valid
    representations (`Tables.StoreOK`): the final stores are EQUAL and all replies (returned object,
    its value, its error status) are EQUAL.
    MISSING for the full statement (`history_transparent_full` below): (1) the constructors that
    read external data (`u s str`, `SetUnsigned`) — needs validity of `ofNat ofInt parse`, available
    for prime fields (C01Prime) but not packaged in `FieldFacts`; (2) all univariate / bivariate /
    ideal operations — needs "every coefficient stays valid" through `UPoly.*`, `BPoly.*` and the
    Gröbner machinery for an arbitrary lawful record, which the existing refinement proofs (C05–C14)
    establish operation by operation but not as one store invariant. -/
theorem history_transparent_partial {α : Type} {env env' : Env α} {V : Nat → α → Prop}
    (h : EnvAgree env env' V) (desc : FieldDesc) (ops : List Op)
    (hops : ∀ op ∈ ops, elemOp op = true) {s : St α} (hs : StoreOK V s) :
    runOps env' desc s ops = runOps env desc s ops :=
  runOps_elem_agree h desc ops hops hs

/-- one step, with the invariant: same store, same reply, validity kept -/
theorem step_transparent_partial {α : Type} {env env' : Env α} {V : Nat → α → Prop}
    (h : EnvAgree env env' V) (desc : FieldDesc) {s : St α} (hs : StoreOK V s) (op : Op)
    (hop : elemOp op = true) :
    step env' desc s op = step env desc s op ∧ StoreOK V (step env desc s op).1 :=
  step_elem_agree h desc hs op hop

/-- every coefficient anywhere in the store is valid (polynomial coefficients live in field 0) -/
def StoreOKAll {α : Type} (V : Nat → α → Prop) (s : St α) : Prop :=
  StoreOK V s ∧ (∀ k r, St.getL s.us k = some r → ∀ c ∈ r.val, V 0 c) ∧
  (∀ k r, St.getL s.bs k = some r → ∀ t ∈ r.val, V 0 t.2) ∧
  (∀ k I, St.getL s.ids k = some I → ∀ f ∈ I.gens, ∀ t ∈ f, V 0 t.2)

/-- the constructors that decode raw wire data can create invalid representations -/
def noRaw : Op → Bool
  | .eCtor _ _ how _ => how != "enc"
  | .uCtor _ _ how _ => how != "coefs"
  | .bCtor _ _ how _ => how != "map"
  | _ => true

/-- NOT PROVED (see T16 for what is missing).  The full history-level statement: two environments
    that differ only in their field records, which agree on closed sets containing everything the
    constructors produce; rings over field 0 with valid moduli; a store with valid coefficients
    everywhere; any operations except the raw-data constructors.  Then `runOps` returns the same
    final store and the same replies. -/
def history_transparent_full : Prop :=
  ∀ {α : Type} (env env' : Env α) (V : Nat → α → Prop) (desc : FieldDesc) (ops : List Op) (s : St α),
    EnvAgree env env' V →
    (∀ i k z str v, V i ((env.fld i).ofNat k) ∧ V i ((env.fld i).ofInt z) ∧
      ((env.fld i).parse str = .ok v → V i v)) →
    (∀ i, (env.uring i).F = env.fld 0 ∧ env'.uring i = { env.uring i with F := env'.fld 0 } ∧
      ∀ m, (env.uring i).modulus = some m → ∀ c ∈ m, V 0 c) →
    (∀ i, (env.bring i).F = env.fld 0 ∧ env'.bring i = { env.bring i with F := env'.fld 0 } ∧
      ∀ gs, (env.bring i).ideal = some gs → ∀ f ∈ gs, ∀ t ∈ f, V 0 t.2) →
    StoreOKAll V s → (∀ op ∈ ops, noRaw op = true) →
    runOps env' desc s ops = runOps env desc s ops

/-- the tabled and the untabled environment of a prime field satisfy `EnvAgree` -/
theorem envAgree_prime {p : Nat} (hp : p.Prime) (h32 : p - 1 < 2 ^ 32) (tabs : Nat → Bool × Bool)
    (env : Env Nat) (henv : ∀ i, env.fld i = primeOps p) :
    EnvAgree env { env with fld := fun i => primeOpsT p (tabs i).1 (tabs i).2 } (fun _ a => a < p) :=
  ⟨fun i => by rw [henv i]; exact (primeOpsT_agree hp h32 _ _).1,
   fun i => by rw [henv i]; exact (primeOpsT_agree hp h32 false false).2⟩

/-- the tabled and the untabled environment of an extension field satisfy `EnvAgree` -/
theorem envAgree_ext {p n : Nat} {g : List Nat} {K : Type} [Field K] (L : Lawful (extOps p n g) K)
    (hL : Assemble.FieldFacts L p n) (hcanon : ∀ a, L.valid a → UPoly.Canon (primeOps p) a)
    (hq : p ^ n ≤ 2 ^ 63) (tabs : Nat → Bool) (env : Env (UPoly Nat))
    (henv : ∀ i, env.fld i = extOps p n g) :
    EnvAgree env { env with fld := fun i => extOpsT p n g (tabs i) } (fun _ => L.valid) :=
  ⟨fun i => by rw [henv i]; exact (extOpsT_agree L hL hcanon hq _).1,
   fun i => by rw [henv i]; exact (extOpsT_agree L hL hcanon hq false).2⟩

/-- C18-T17. A history over GF(p) in which tables are requested at any point: computing every later
    operation with the TABLED algorithms (environment `envT`, all field objects tabled from the
    start — the strongest case) gives the same stores and replies as the untabled model. -/
theorem history_transparent_prime {p : Nat} (hp : p.Prime) (h32 : p - 1 < 2 ^ 32)
    (tabs : Nat → Bool × Bool) (env : Env Nat) (henv : ∀ i, env.fld i = primeOps p)
    (ops : List Op) (hops : ∀ op ∈ ops, elemOp op = true) {s : St Nat}
    (hs : StoreOK (fun _ a => a < p) s) :
    runOps { env with fld := fun i => primeOpsT p (tabs i).1 (tabs i).2 } (.prime p) s ops
      = runOps env (.prime p) s ops :=
  history_transparent_partial (envAgree_prime hp h32 tabs env henv) _ ops hops hs

-- non-vacuity: GF(7); the empty store is valid; a concrete history evaluated in both environments
example : StoreOK (fun _ a => a < 7) ({} : St Nat) := fun k r hk => by cases hk
example :
    let env : Env Nat := { env5 with fld := fun _ => primeOps 7 }
    let envT : Env Nat := { env with fld := fun _ => primeOpsT 7 true true }
    let ops : List Op := [.eCtor 0 0 "gen" "", .tables 0 true true none, .eBin 1 "times" 0 0,
      .eBin 2 "plus" 1 0, .eUn 3 "inv" 2, .ePow 4 3 5, .eCtor 5 0 "zero" "", .eUn 6 "inv" 5,
      .eIn "mult" 0 6, .eEq 4 3, .eShow 4]
    (∀ op ∈ ops, elemOp op = true) ∧
    (runOps envT (.prime 7) {} ops).2 = (runOps env (.prime 7) {} ops).2 ∧
    (runOps env (.prime 7) {} ops).2 = ["ok 0#3", "ok", "ok 0#2", "ok 0#5", "ok 0#3", "ok 0#5",
      "ok 0#0", "ok !InputValue", "other !InputValue", "eq false", "show z=false o=false n=1 s=5"] := by
  decide +kernel

end Algobra.C18Tables
