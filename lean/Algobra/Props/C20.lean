/-
  Props/C20.lean — property C20 (fields and rings can be shared by concurrent computations).

  "Once constructed (and once any tables have been computed), fields, polynomial rings, quotient rings
   and the ideals inside them behave as immutable values: goroutines that concurrently create their own
   elements and polynomials over shared fields and rings and compute with them, using shared error-free
   operands only as arguments, incur no data race and obtain exactly the results of a sequential
   execution."

  What a Lean theorem can carry here is the LOGIC, not the Go memory model. Ingredients:
   (i)  `Algobra.Gen.effects` — the syntactic write-effect table REGENERATED from /repo on every run by
        /verif/extract/effects.go (direct writes `typed`, may-writes `writes` closed under a TYPE-resolved
        call graph, keys of the possible callees `calls`). Parts A and B below are re-checked against that table by
        kernel evaluation (`decide +kernel`, no `native_decide`): a new assignment to a field of a shared
        struct, or a new call path from an in-scope operation to a writer, breaks the proof.
   (ii) an abstract footprint semantics (Proofs/Effects.lean §3) for the scheduling argument (part E).
   (iii) the model `BPoly.Ideal` with its tri-state flags for the guard argument (part C).

  Assumptions of (i), inherited from the extractor (see its header comment): calls are resolved by TYPE
  (go/types: static callee, method of the concrete type, implementers of the interface in the repository,
  functions of identical signature for function values), call results are assumed fresh, functions outside
  the repository are not analysed (their list is pinned by `outside_calls`); a direct write is
  attributed to the declared type of the ROOT parameter of its access path (so `f.baseRing.id.x = …`
  inside a `Polynomial` method would be listed as "Polynomial.baseRing" — see `pointer_field_writers`).
  The Go packages have no mutable package-level variables (only `var _ ff.Element = &Element{}`
  interface assertions), and `math/rand`'s top-level functions used by `RandElement` are
  goroutine-safe; neither fact is visible in the table, both were checked by reading /repo.
-/
import Algobra.Proofs.Effects

namespace Algobra.C20
open Algobra Algobra.Gen Algobra.Effects

/-! ## A. who assigns a field of a shared struct (exact whitelist) -/

/-- the struct types whose objects are shared between goroutines -/
def sharedTypes : List String := ["Field", "table", "ring", "QuotientRing", "Ideal"]

example : sharedTypes = Effects.sharedTypes := rfl

/-- every DIRECT write whose root parameter has a shared struct type, read off the current table -/
def expected : List (String × String) := [
  -- set-up call (printing/parsing name of the field's generator); not called by any in-scope operation
  ("binfield.Field.SetVarName", "Field.varName"),
  -- lazily cached answer, assigned (in a deferred closure) only when the flag is still 0; GUARDED:
  -- returns at once without writing when the flag is 1 or -1. Ideals inside quotient rings have flag 1
  -- (part C), so the call made by `Ideal.Reduce` on behalf of a quotient ring never writes
  ("bivariate.Ideal.IsGroebner", "Ideal.isGroebner"),
  -- lazily cached answers of queries on a stand-alone ideal; set-up/inspection API, not called by any
  -- in-scope operation (`setup_closed`)
  ("bivariate.Ideal.IsMinimal", "Ideal.isMinimal"),
  ("bivariate.Ideal.IsReduced", "Ideal.isReduced"),
  -- documented transformers of an ideal object; the only caller besides the user is `Quotient`, on the
  -- fresh Gröbner-basis object it has just built, before the new ring is published
  ("bivariate.Ideal.MinimizeBasis", "Ideal.generators"),
  ("bivariate.Ideal.MinimizeBasis", "Ideal.isMinimal"),
  ("bivariate.Ideal.MinimizeBasis", "Ideal.isReduced"),
  ("bivariate.Ideal.ReduceBasis", "Ideal.generators"),
  ("bivariate.Ideal.ReduceBasis", "Ideal.isReduced"),
  -- private helper that normalises the generators in place; called only by MinimizeBasis and IsMinimal
  ("bivariate.Ideal.leadingTerms", "Ideal.generators"),
  -- set-up call (variable names of the ring)
  ("bivariate.QuotientRing.SetVarNames", "QuotientRing.varNames"),
  -- explicit table set-up ("once any tables have been computed"), itself guarded by `logTable == nil`
  ("extfield.Field.ComputeMultTable", "Field.logTable"),
  -- explicit table set-up, guarded by `addTable == nil` / `multTable == nil`
  ("primefield.Field.ComputeTables", "Field.addTable"),
  ("primefield.Field.ComputeTables", "Field.multTable"),
  -- set-up call (variable name of the ring); `extfield.Define` also calls it, on the private ring it has
  -- just created
  ("univariate.QuotientRing.SetVarName", "QuotientRing.varName")]

/-- **A.** The direct writes into `Field`, `table`, `ring`, `QuotientRing`, `Ideal` objects in the
    current source are EXACTLY the whitelisted ones. -/
theorem shared_writes_whitelist : sharedWrites Gen.effects = expected := by decide +kernel

/-- the functions that contain such a write -/
def sharedWriterKeys : List String := [
  "binfield.Field.SetVarName", "bivariate.Ideal.IsGroebner", "bivariate.Ideal.IsMinimal",
  "bivariate.Ideal.IsReduced", "bivariate.Ideal.MinimizeBasis", "bivariate.Ideal.ReduceBasis",
  "bivariate.Ideal.leadingTerms", "bivariate.QuotientRing.SetVarNames",
  "extfield.Field.ComputeMultTable", "primefield.Field.ComputeTables", "univariate.QuotientRing.SetVarName"]

theorem shared_writer_keys : (Gen.effects.filter isSharedWriter).map (·.key) = sharedWriterKeys := by
  decide +kernel

/-- Gate-way fields: the pointer fields of the per-goroutine objects that lead to a shared object
    (`Polynomial.baseRing → QuotientRing`, `Element.field → Field`). A write THROUGH such a pointer from a
    polynomial/element method (`f.baseRing.id.flag = …`) would be attributed by the extractor to
    "Polynomial.baseRing" / "Element.field". The only functions with such entries are the ones that
    assign the pointer ITSELF (re-homing their own receiver, `f.baseRing = r`, `a.field = bb.field`),
    as reading /repo confirms; any new function writing through these pointers changes this list. -/
theorem pointer_field_writers :
    writersOf ["Polynomial.baseRing", "Element.field"] Gen.effects =
      [("binfield.Element.Prod", "Element.field"),
       ("bivariate.Polynomial.EmbedIn", "Polynomial.baseRing"),
       ("extfield.Element.Prod", "Element.field"),
       ("primefield.Element.Prod", "Element.field"),
       ("univariate.Polynomial.EmbedIn", "Polynomial.baseRing")] := by decide +kernel

/-! ## B. no shared writer is reachable from the operations in the property's scope -/

/-- names of the set-up operations (construction, tables, variable names, and the methods that build,
    transform or lazily classify a stand-alone ideal). Everything else that is exported is in scope:
    arithmetic, parsing, printing, enumeration, `RandElement`, interpolation, quotient reduction
    (`Ideal.Reduce`, reached from `(*Polynomial).reduce`) … -/
def setupNames : List String := ["Define", "ComputeTables", "ComputeMultTable", "SetVarName", "SetVarNames",
  "DefRing", "Quotient", "NewIdeal", "GroebnerBasis", "MinimizeBasis", "ReduceBasis", "IsGroebner",
  "IsMinimal", "IsReduced", "init"]

/-- operations in the property's scope: every exported function/method whose name is not a set-up name -/
def inScope (f : Fn) : Bool := f.exported && !nameIn f setupNames

/-- The functions that are NOT reachable (type-resolved call graph) from the in-scope operations: the
    set-up API and its private helpers. (`GroebnerBasis` and `IsGroebner` are set-up names but ARE
    reachable — `Ideal.Reduce` calls both — and are therefore not in this list.)
    `#eval (effects.map (·.key)).filter (fun k => !(reachKeys effects inScope).contains k)` returns
    exactly this list (292 of the 319 functions are reachable). -/
def setupOnly : List String := [
  "binfield.Define", "binfield.Field.SetVarName", "binfield.init", "bivariate.DefRing",
  "bivariate.Ideal.IsMinimal", "bivariate.Ideal.IsReduced", "bivariate.Ideal.MinimizeBasis",
  "bivariate.Ideal.ReduceBasis", "bivariate.Ideal.leadingTerms", "bivariate.QuotientRing.NewIdeal",
  "bivariate.QuotientRing.Quotient", "bivariate.QuotientRing.SetVarNames", "extfield.Define",
  "extfield.Field.ComputeMultTable", "extfield.estimateMemory", "extfield.init", "extfield.newLogTable",
  "finitefield.Define", "primefield.Define", "primefield.Field.ComputeTables", "primefield.estimateMemory",
  "primefield.init", "primefield.newTable", "univariate.DefRing", "univariate.QuotientRing.NewIdeal",
  "univariate.QuotientRing.Quotient", "univariate.QuotientRing.SetVarName"]

/-- no in-scope operation is in `setupOnly` -/
theorem roots_avoid_setup : rootsCheck Gen.effects inScope setupOnly = true := by decide +kernel

/-- no function outside `setupOnly` may call (type-resolved callees) a function inside `setupOnly` -/
theorem setup_closed : closedCheck Gen.effects setupOnly = true := by decide +kernel

/-- every entry of `setupOnly` names a function of the current table (no stale entries) -/
theorem setupOnly_present :
    (Gen.effects.filter fun f => memC f.key setupOnly).map (·.key) = setupOnly := by decide +kernel

/-- the shared writers that may be reached, through the lazily written Gröbner flag only:
    `(*Polynomial).reduce` → `Ideal.Reduce` → `IsGroebner`, which assigns `isGroebner` only when the flag
    is 0 (part C: it is 1 for every ideal inside a quotient ring). Nothing else. -/
def guarded_writers : List String := ["bivariate.Ideal.IsGroebner"]

/-- among the functions outside `setupOnly`, the shared writers are exactly the guarded ones -/
theorem nonsetup_shared_writers :
    (Gen.effects.filter fun f => !memC f.key setupOnly && isSharedWriter f).map (·.key) = guarded_writers := by
  decide +kernel

/-- **B.** No function reachable (type-resolved call graph of the regenerated table) from the operations
    in the property's scope assigns a field of a `Field`, `table`, `ring`, `QuotientRing` or `Ideal`
    object — except `bivariate.Ideal.IsGroebner`, whose write is guarded by the flag. -/
theorem no_shared_write_reachable {f : Fn} (h : Reachable Gen.effects inScope f)
    (hw : isSharedWriter f = true) : f.key ∈ guarded_writers := by
  have hmem := h.mem
  have hsafe : f.key ∉ setupOnly := h.avoids roots_avoid_setup setup_closed
  have hm : memC f.key setupOnly = false := by
    cases hm : memC f.key setupOnly with
    | false => rfl
    | true => exact absurd (memC_iff.1 hm) hsafe
  rw [← nonsetup_shared_writers]
  exact List.mem_map.2 ⟨f, List.mem_filter.2 ⟨hmem, by simp [hm, hw]⟩, rfl⟩

-- the code-prefix test of `no_global_writes` does recognise such an entry
example : (code "global:primefield.defaultField") % (257 ^ 7) == code "global:" := by decide +kernel

-- non-vacuity, and the exception is real: the in-scope operation `bivariate.Ideal.Reduce` calls
-- `IsGroebner`, so the guarded writer IS reachable
example : ∃ g, Reachable Gen.effects inScope g ∧ isSharedWriter g = true ∧ g.key = "bivariate.Ideal.IsGroebner" := by
  have h : (Gen.effects.any fun f => code f.key == code "bivariate.Ideal.Reduce" && inScope f &&
      Gen.effects.any fun g => code g.key == code "bivariate.Ideal.IsGroebner" && isSharedWriter g &&
        callsInto f g) = true := by decide +kernel
  obtain ⟨f, hf, hp⟩ := List.any_eq_true.1 h
  simp only [Bool.and_eq_true, beq_iff_eq, List.any_eq_true] at hp
  obtain ⟨⟨_, hin⟩, g, hg, ⟨hk, hw⟩, hc⟩ := hp
  exact ⟨g, .call (.root hf hin) hg hc, hw, code_inj hk⟩

/-- DIRECT writes of all functions outside `setupOnly` (⊇ reachable ones): besides the guarded flag they
    touch only iterator, element, polynomial and parser-scratch objects. Exactness in both directions:
    every such write is in the list and every list entry occurs. -/
def nonsetupTyped : List String := [
  "CombinIter.atEnd", "CombinIter.slice",                        -- auxmath.CombinIter.Next: its own iterator
  "Element.err", "Element.val", "Element.field",                 -- field elements (receiver / erroneous operand)
  "Ideal.isGroebner",                                            -- the guarded flag
  "Polynomial.*", "Polynomial.coefs", "Polynomial.baseRing", "Polynomial.err", "[]Polynomial.err",
  "monomialMatch.degs", "monomialMatch.vars"]                    -- parser scratch objects, created per call

theorem nonsetup_direct_writes :
    ((Gen.effects.filter fun f => !memC f.key setupOnly).all fun f => f.typed.all fun s => memC s nonsetupTyped) = true ∧
    (nonsetupTyped.all fun s => (Gen.effects.filter fun f => !memC f.key setupOnly).any fun f => memC s f.typed) = true := by
  decide +kernel

/-- May-writes (closed under the type-resolved call graph, through any parameter) of all functions outside
    `setupOnly`: the last path components are fields of iterators, elements, polynomials and parser
    scratch objects, plus the guarded flag — never `addTable`, `multTable`, `logTable`, `varName(s)`,
    `generators`, `isMinimal`, `isReduced`, `id`, `ring`, `baseField`, `ord`. -/
def nonsetupMayFields : List String :=
  ["atEnd", "slice", "err", "val", "*", "coefs", "field", "isGroebner", "degs", "vars", "baseRing"]

theorem nonsetup_may_write_fields :
    ((Gen.effects.filter fun f => !memC f.key setupOnly).all fun f => f.writes.all fun w => memC w.2 nonsetupMayFields) = true ∧
    (nonsetupMayFields.all fun s => (Gen.effects.filter fun f => !memC f.key setupOnly).any fun f =>
        f.writes.any fun w => code w.2 == code s) = true := by
  decide +kernel

/-- **B′ (may-writes, full strength).** A function outside the documented set-up functions `setupOnly`
    may-write — through any parameter, directly or through anything it may call — only fields named in
    `nonsetupMayFields`: never `addTable`, `multTable`, `logTable`, `varName`, `varNames`, `generators`,
    `isMinimal`, `isReduced`, `id`, `ring`, `baseField`, `ord`, `char`, `extDeg`, `conwayPoly`, `polyRing`,
    i.e. no field of a shared `Field`/`table`/`ring`/`QuotientRing`/`Ideal` object except the guarded flag
    `isGroebner` (`baseRing`, `field` are the re-homing of the receiver ITSELF by `EmbedIn` / `Prod`). -/
theorem nonsetup_may_writes {f : Fn} (hf : f ∈ Gen.effects) (hs : f.key ∉ setupOnly)
    {w : Nat × String} (hw : w ∈ f.writes) : w.2 ∈ nonsetupMayFields := by
  have h := nonsetup_may_write_fields.1
  have hm : memC f.key setupOnly = false := by
    cases hm : memC f.key setupOnly with
    | false => rfl
    | true => exact absurd (memC_iff.1 hm) hs
  have := (List.all_eq_true.1 ((List.all_eq_true.1 h) f (List.mem_filter.2 ⟨hf, by simp [hm]⟩))) w hw
  exact memC_iff.1 this

/-- **no package-level variable is written anywhere**: no function of the repository has a direct write
    rooted at a package-level variable ("global:pkg.v"); with `Reachable` closed under calls this holds for
    everything any operation may call. -/
theorem no_global_writes :
    (Gen.effects.all fun f => f.typed.all fun s => !((code s) % (257 ^ 7) == code "global:")) = true := by
  decide +kernel

/-- the functions OUTSIDE the repository that the library calls ("ext:…"; the extractor assumes that they
    write nothing reachable from their arguments except `copy`/`delete`/`sort.Slice`, which it books) and
    the signatures of the function values it calls ("dyn:…": comparison functions of monomial orders, table
    initialisers, random sources — all literals of the repository with these signatures are analysed as part
    of their enclosing functions). A call of anything else (`unsafe`, `reflect`, `sync/atomic`, I/O) changes
    this list. -/
theorem outside_calls : outsideCalls Gen.effects = [
    "ext:bits.Len", "ext:bits.OnesCount", "ext:strconv.FormatUint", "ext:strings.Builder.String",
    "ext:strings.Builder.Write", "ext:strings.Builder.WriteByte", "ext:strings.Builder.WriteString", "ext:regexp.Compile",
    "ext:regexp.QuoteMeta", "ext:regexp.Regexp.FindAllStringSubmatch", "ext:strconv.ParseUint", "dyn:func()uint",
    "ext:rand.Uint32", "ext:rand.Uint64", "ext:strings.TrimSpace", "ext:fmt.Sprintf", "ext:rand.Seed", "ext:time.Now",
    "ext:time.Time.UTC", "ext:time.Time.UnixNano", "ext:fmt.Fprint", "dyn:func(deg1[2]uint,deg2[2]uint)(outint)",
    "dyn:func(deg1[2]uint,deg2[2]uint)int", "ext:sort.Slice", "ext:strings.ToLower", "dyn:func(int,int)[2]uint",
    "ext:strings.Trim", "ext:regexp.Regexp.FindStringSubmatch", "ext:strings.Split", "ext:error.Error", "ext:fmt.Fprintf",
    "ext:fmt.Errorf", "ext:regexp.MustCompile", "ext:strconv.ParseInt", "dyn:func(iuint,juint)uint",
    "ext:strconv.FormatInt"] := by
  decide +kernel

/-! ## C. the guard: the Gröbner flag of an ideal inside a quotient ring is never written -/

section Guard
open BPoly
variable {α : Type} (F : FOps α) (o : Order)

/-- `IsGroebner()` on an ideal whose flag is 1 returns `true` and leaves the object untouched
    (about the model function `BPoly.Ideal.isGroebnerQ`, which returns the new object state) -/
theorem isGroebnerQ_no_write_when_flagged {id : Ideal α} (h : id.isGroebner = 1) :
    id.isGroebnerQ F o = some (id, true) := isGroebnerQ_of_one F o h

/-- likewise for a cached negative answer -/
theorem isGroebnerQ_no_write_when_flagged_neg {id : Ideal α} (h : id.isGroebner = -1) :
    id.isGroebnerQ F o = some (id, false) := isGroebnerQ_of_neg_one F o h

/-- the full frame of `IsGroebner()`: generators and the other two flags never change, the flag changes
    only from "undecided" -/
theorem isGroebnerQ_writes_only_undecided_flag {id id' : Ideal α} {b : Bool}
    (h : id.isGroebnerQ F o = some (id', b)) :
    id'.gens = id.gens ∧ id'.isMinimal = id.isMinimal ∧ id'.isReduced = id.isReduced ∧
    (id.isGroebner = 1 ∨ id.isGroebner = -1 → id' = id) :=
  let ⟨h1, h2, h3, _, h5⟩ := isGroebnerQ_frame F o h
  ⟨h1, h2, h3, h5⟩

/-- `GroebnerBasis()` results are flagged -/
theorem groebnerBasis_isGroebner {id gb : Ideal α} (h : id.groebnerBasis F o = some gb) :
    gb.isGroebner = 1 := groebnerBasis_flagged F o h

/-- `MinimizeBasis()` keeps the flag -/
theorem minimizeBasis_isGroebner {id id' : Ideal α} {r : Except Kind Unit} (h1 : id.isGroebner = 1)
    (h : id.minimizeBasis F o = some (id', r)) : id'.isGroebner = 1 :=
  minimizeBasis_keeps_flag F o h1 h

/-- `ReduceBasis()` keeps the flag -/
theorem reduceBasis_isGroebner {id id' : Ideal α} {r : Except Kind Unit} (h1 : id.isGroebner = 1)
    (h : id.reduceBasis F o = some (id', r)) : id'.isGroebner = 1 :=
  reduceBasis_keeps_flag F o h1 h

/-- The ideal object that `Quotient(id)` stores in the new ring (`Effects.quotientIdeal`: the flagged
    argument's copy, else `GroebnerBasis()` then `ReduceBasis()`) is flagged, and the model function
    `BPoly.quotientGens` returns exactly its generators. -/
theorem quotient_ideal_flagged {id : Ideal α} {gs : List (BPoly α)} (h : quotientGens F o id = some gs) :
    ∃ q : Ideal α, quotientIdeal F o id = some q ∧ q.gens = gs ∧ q.isGroebner = 1 := by
  rw [quotientGens_eq] at h
  cases hq : quotientIdeal F o id with
  | none => simp [hq] at h
  | some q =>
    simp only [hq, Option.map_some, Option.some.injEq] at h
    exact ⟨q, rfl, h, quotientIdeal_flagged F o hq⟩

/-- hence every `IsGroebner()` issued by `Ideal.Reduce` for a quotient ring is write-free -/
theorem quotient_ideal_isGroebnerQ_no_write {id q : Ideal α} (h : quotientIdeal F o id = some q) :
    q.isGroebnerQ F o = some (q, true) :=
  isGroebnerQ_of_one F o (quotientIdeal_flagged F o h)

end Guard

section GuardExamples
open BPoly
/-- x² − 1, xy − y over GF(3), lex: already a Gröbner basis, flag undecided -/
def exA : Ideal Nat := { gens := [[((2,0),1), ((0,0),2)], [((1,1),1), ((0,1),2)]] }
/-- x² − 1, xy over GF(3): not a Gröbner basis -/
def exB : Ideal Nat := { gens := [[((2,0),1), ((0,0),2)], [((1,1),1)]] }
/-- a flagged, minimal basis -/
def exC : Ideal Nat := { gens := [[((2,0),1), ((0,0),2)], [((0,1),1)]], isGroebner := 1, isMinimal := 1 }

-- the guard matters: on an UNDECIDED ideal `IsGroebner()` does write the flag (so a stand-alone ideal
-- must be classified before it is shared; see the remark at the end of the file)
example : (exA.isGroebnerQ (primeOps 3) ⟨.lex, true⟩).map (fun r => (r.1.isGroebner, r.2)) = some (1, true) := by
  decide +kernel
example : (exB.isGroebnerQ (primeOps 3) ⟨.lex, true⟩).map (fun r => (r.1.isGroebner, r.2)) = some (-1, false) := by
  decide +kernel
-- non-vacuity of `groebnerBasis_isGroebner`, `reduceBasis_isGroebner`, `isGroebnerQ_no_write_when_flagged`
example : (exB.groebnerBasis (primeOps 3) ⟨.lex, true⟩).map (fun i => (i.gens.length, i.isGroebner)) = some (3, 1) := by
  decide +kernel
example : (exC.reduceBasis (primeOps 3) ⟨.lex, true⟩).map (fun r => (r.1.isGroebner, r.1.isReduced)) = some (1, 1) := by
  decide +kernel
example : exC.isGroebnerQ (primeOps 3) ⟨.lex, true⟩ = some (exC, true) :=
  isGroebnerQ_no_write_when_flagged _ _ rfl
end GuardExamples

/-! ## E. schedule independence (abstract footprint semantics) -/

section Schedule
variable {Loc Val : Type}

/-- **E (two threads).** Operations obey the footprint laws (`Op.Lawful`: change only their write set,
    and what they store there depends only on their read ∪ write set); the write set of every operation
    of one thread is disjoint from the read and write sets of every operation of the other (`Indep`).
    Then EVERY interleaving of the two threads ends in the state of running `l1` and then `l2`. -/
theorem schedule_independence {l1 l2 l : List (Op Loc Val)} (h : Interleaving l1 l2 l)
    (hl1 : ∀ a, a ∈ l1 → a.Lawful) (hl2 : ∀ b, b ∈ l2 → b.Lawful)
    (hind : ∀ a, a ∈ l1 → ∀ b, b ∈ l2 → Indep a b) (s : State Loc Val) :
    run l s = run (l1 ++ l2) s :=
  interleaving_run h hl1 hl2 hind s

/-- all interleavings agree with each other -/
theorem schedule_independence' {l1 l2 l l' : List (Op Loc Val)} (h : Interleaving l1 l2 l)
    (h' : Interleaving l1 l2 l')
    (hl1 : ∀ a, a ∈ l1 → a.Lawful) (hl2 : ∀ b, b ∈ l2 → b.Lawful)
    (hind : ∀ a, a ∈ l1 → ∀ b, b ∈ l2 → Indep a b) (s : State Loc Val) :
    run l s = run l' s := by
  rw [schedule_independence h hl1 hl2 hind, schedule_independence h' hl1 hl2 hind]

/-- each thread obtains exactly its sequential results: at every location that the other thread does not
    write (in particular everything thread 1 writes or reads), the interleaved run agrees with running
    thread 1 ALONE -/
theorem thread_sees_sequential_result {l1 l2 l : List (Op Loc Val)} (h : Interleaving l1 l2 l)
    (hl1 : ∀ a, a ∈ l1 → a.Lawful) (hl2 : ∀ b, b ∈ l2 → b.Lawful)
    (hind : ∀ a, a ∈ l1 → ∀ b, b ∈ l2 → Indep a b) (s : State Loc Val)
    (loc : Loc) (hloc : ∀ b, b ∈ l2 → loc ∉ b.writes) :
    run l s loc = run l1 s loc := by
  rw [schedule_independence h hl1 hl2 hind, run_append]
  exact run_frame l2 hl2 _ loc hloc

/-- **E (n threads).** `InterleavingN ts l`: `l` is an order-preserving merge of the threads `ts`;
    `CrossIndep ts`: operations of different threads are independent. Every merge ends in the state of
    running the threads one after the other. -/
theorem schedule_independence_n {ts : List (List (Op Loc Val))} {l : List (Op Loc Val)}
    (h : InterleavingN ts l) (hl : ∀ t, t ∈ ts → ∀ a, a ∈ t → a.Lawful) (hind : CrossIndep ts)
    (s : State Loc Val) : run l s = run ts.flatten s :=
  interleavingN_run h hl hind s

end Schedule

section ScheduleExample
/-- `dst := g (value at src)` -/
def assignOp (src dst : Nat) (g : Nat → Nat) : Op Nat Nat :=
  { reads := [src], writes := [dst], f := fun s l => if l = dst then g (s src) else s l }

theorem assignOp_lawful (src dst : Nat) (g : Nat → Nat) : (assignOp src dst g).Lawful where
  frame := by
    intro s l hl
    have : l ≠ dst := by simpa [assignOp] using hl
    simp [assignOp, this]
  loc := by
    intro s s' h l hl
    have hd : l = dst := by simpa [assignOp] using hl
    have hs : s src = s' src := h src (Or.inl (by simp [assignOp]))
    simp [assignOp, hd, hs]

-- non-vacuity of the hypotheses of `schedule_independence`: two threads reading the SHARED location 0
-- and writing their own locations 1 and 2, in the interleaving b₁ a₁ b₂
example : Interleaving [assignOp 0 1 (· + 1)] [assignOp 0 2 (· * 2), assignOp 2 2 (· + 5)]
    [assignOp 0 2 (· * 2), assignOp 0 1 (· + 1), assignOp 2 2 (· + 5)] :=
  .right (.left (.right .nil))

example : Indep (assignOp 0 1 (· + 1)) (assignOp 0 2 (· * 2)) ∧ Indep (assignOp 0 1 (· + 1)) (assignOp 2 2 (· + 5)) := by
  simp [Indep, NoWriteInto, assignOp]
end ScheduleExample

/-!
  ### How the parts combine, and what remains outside Lean

  Goroutine-private objects (the elements/polynomials a goroutine creates) are written only by their
  owner; shared `Field`/`table`/`ring`/`QuotientRing`/`Ideal` objects are, by A and B, written by no
  function reachable from an in-scope operation except the guarded flag write, which by C does not
  happen for ideals inside quotient rings; shared operands are passed as arguments only and, being
  error-free, are not touched by the `err` re-wrap of `hasErr` (see Props/C16Static.lean: in-place
  operations write through non-receiver parameters only `err`). Hence the write sets of different
  goroutines are disjoint from each other's footprints and E gives: every schedule ends in the
  sequential state and each goroutine sees its sequential results.

  Remark (outside the property's scope, reported as an observation): a STAND-ALONE `bivariate.Ideal`
  whose flags are still undecided is not an immutable value — `IsGroebner`, `IsMinimal`, `IsReduced`,
  and hence a direct `id.Reduce(f)`, write its flags (and `IsMinimal` even normalises the generators
  through `leadingTerms`) on first use; sharing such an object between goroutines before it has been
  classified would race. The property speaks of "the ideals inside" quotient rings, which are flagged.
-/

end Algobra.C20
