/-
  Props/CodeTies.lean — equivalence of the MACHINE-TRANSLATED Go code with the hand-written model.

  `Algobra/Gen/Code.lean` (namespace `Algobra.Gen.Code`) is regenerated on every run from the Go working
  tree by /verif/extract/translate.go: each `go_<pkg>_<Func>` is a literal translation of the Go function
  body (uint arithmetic with explicit `w64`/`wsub`, int with `wrapInt`, `for` loops as fuel-bounded
  recursions called with `loopFuel = 100000`, selector expressions as extra word parameters).
  Every theorem below says: on all word-sized arguments the translated function equals the model
  function (Model/Auxmath.lean, Model/BPoly.lean, Model/Field.lean).  An edit of the Go source that
  changes the behaviour of one of these functions changes `Gen/Code.lean` and the corresponding theorem
  stops compiling.

  Hypotheses are only the ones the proofs need; where an argument needs no word bound (both sides
  truncate in the same places) none is assumed, so the statements are at least as strong as
  "for all arguments `< 2^64`".  For the loops, `loopFuel` is shown to be sufficient by a measure
  (`bitLen n` for Pow / bitProd, `bitLen (a*b)` for Gcd, `bitLen a` for bitQuoRem / reduce).
  All proofs are in Proofs/CodeTies.lean (core Lean + the model, no Mathlib).
-/
import Algobra.Proofs.CodeTies

namespace Algobra
namespace CodeTies
open Algobra Algobra.Gen.Code

/-! ### auxmath -/

/-- `auxmath.BoundSqrt` -/
theorem boundSqrt_tie {a : Nat} (ha : a < 2 ^ 64) :
    go_auxmath_BoundSqrt a = Auxmath.boundSqrt a := CodeTiesProofs.boundSqrt ha

example : (1000 : Nat) < 2 ^ 64 := by decide
example : go_auxmath_BoundSqrt 1000 = 32 := by decide
example : go_auxmath_BoundSqrt (2 ^ 64 - 1) = 2 ^ 32 := by decide

/-- `auxmath.boundLog2` -/
theorem boundLog2_tie {a : Nat} (ha : a < 2 ^ 64) :
    go_auxmath_boundLog2 a = Auxmath.boundLog2 a := CodeTiesProofs.boundLog2 ha

example : go_auxmath_boundLog2 8 = 3 := by decide +kernel
example : go_auxmath_boundLog2 9 = 4 := by decide +kernel

/-- `auxmath.Pow`: value and error kind (the Go function returns `(0, Overflow)` when the guard
    `a > 0 && b > 0 && (n >= UintSize || b*n >= UintSize)` fires, else the square-and-multiply result) -/
theorem pow_tie {a n : Nat} (ha : a < 2 ^ 64) (hn : n < 2 ^ 64) :
    go_auxmath_Pow a n =
      match Auxmath.pow a n with
      | .ok r => (r, none)
      | .error k => (0, some k) := CodeTiesProofs.pow ha hn

example : go_auxmath_Pow 3 5 = (243, none) := by decide +kernel
example : go_auxmath_Pow 3 40 = (0, some Kind.overflow) := by decide +kernel

/-- `auxmath.Gcd` (fuel: the product of the two arguments at least halves per round once `a ≤ b`,
    so at most 130 rounds happen on words) -/
theorem gcd_tie {a b : Nat} (ha : a < 2 ^ 64) (hb : b < 2 ^ 64) :
    go_auxmath_Gcd a b = Auxmath.gcd a b := CodeTiesProofs.gcd ha hb

example : go_auxmath_Gcd 12 18 = 6 := by decide
example : go_auxmath_Gcd 18 12 = 6 := by decide
example : Auxmath.gcd 18 12 = 6 := by rw [← gcd_tie (by decide) (by decide)]; decide

/-! ### bivariate: monomial orders — for ALL naturals (both sides use the same `w64` expressions) -/

theorem swap_tie (a : Deg) : go_bivariate_swap a = Order.swap a := CodeTiesProofs.swap a

/-- `bivariate.Lex` -/
theorem lex_tie (x : Bool) (a b : Deg) : go_bivariate_Lex x a b = Order.lex x a b :=
  CodeTiesProofs.lex x a b

/-- the same as an equation of comparison functions -/
theorem lex_fun_tie (x : Bool) : go_bivariate_Lex x = Order.lex x := CodeTiesProofs.lex_fun x

/-- `bivariate.degCompare` with an arbitrary tiebreak -/
theorem degCompare_tie (wx wy : Nat) (t : Deg → Deg → Int) (a b : Deg) :
    go_bivariate_degCompare wx wy t a b = Order.degCompare wx wy t a b :=
  CodeTiesProofs.degCompare wx wy t a b

/-- `bivariate.WDegLex` -/
theorem wdeglex_tie (wx wy : Nat) (x : Bool) (a b : Deg) :
    go_bivariate_WDegLex wx wy x a b = Order.cmp ⟨.wdeglex wx wy, x⟩ a b :=
  CodeTiesProofs.wdeglex wx wy x a b

/-- `bivariate.WDegRevLex` (the Go `-1 * Lex(!xGtY)(…)` is an `int` product; it cannot wrap because
    `Lex` only returns -1, 0, 1) -/
theorem wdegrevlex_tie (wx wy : Nat) (x : Bool) (a b : Deg) :
    go_bivariate_WDegRevLex wx wy x a b = Order.cmp ⟨.wdegrevlex wx wy, x⟩ a b :=
  CodeTiesProofs.wdegrevlex wx wy x a b

/-- `bivariate.DegLex` -/
theorem deglex_tie (x : Bool) (a b : Deg) :
    go_bivariate_DegLex x a b = Order.cmp ⟨.wdeglex 1 1, x⟩ a b := CodeTiesProofs.deglex x a b

/-- `bivariate.DegRevLex` -/
theorem degrevlex_tie (x : Bool) (a b : Deg) :
    go_bivariate_DegRevLex x a b = Order.cmp ⟨.wdegrevlex 1 1, x⟩ a b :=
  CodeTiesProofs.degrevlex x a b

example : go_bivariate_WDegRevLex 1 1 true (2, 1) (1, 2) = 1 := by decide
example : go_bivariate_Lex false (2, 1) (1, 2) = -1 := by decide

/-! ### bivariate: exponent arithmetic -/

/-- `bivariate.addDegs` (for all naturals): the Go function returns the wrapped sum together with the
    Overflow error; the model returns `none` on overflow -/
theorem addDegs_tie (a b : Deg) :
    go_bivariate_addDegs a b =
      match BPoly.addDegs a b with
      | some s => (s, none)
      | none => ((w64 (a.1 + b.1), w64 (a.2 + b.2)), some Kind.overflow) :=
  CodeTiesProofs.addDegs a b

example : go_bivariate_addDegs (2 ^ 64 - 1, 0) (1, 5) = ((0, 5), some Kind.overflow) := by decide

/-- `bivariate.subtractDegs` on word-sized exponents of the minuend (then the subtrahend's components
    are word-sized too whenever the `ok` branch is taken) -/
theorem subtractDegs_tie {a b : Deg} (h1 : a.1 < 2 ^ 64) (h2 : a.2 < 2 ^ 64) :
    go_bivariate_subtractDegs a b =
      match BPoly.subDegs a b with
      | some d => (d, true)
      | none => ((0, 0), false) := CodeTiesProofs.subtractDegs h1 h2

example : ((7, 3) : Deg).1 < 2 ^ 64 ∧ ((7, 3) : Deg).2 < 2 ^ 64 := by decide
example : go_bivariate_subtractDegs (7, 3) (2, 3) = ((5, 0), true) := by decide
example : go_bivariate_subtractDegs (7, 3) (2, 4) = ((0, 0), false) := by decide

/-! ### binfield -/

/-- `binfield.bitProd` (no bound on `a` is needed) -/
theorem bitProd_tie (a : Nat) {b : Nat} (hb : b < 2 ^ 64) :
    go_binfield_bitProd a b = Bin.bitProd a b := CodeTiesProofs.bitProd a hb

example : go_binfield_bitProd 7 5 = 27 := by decide

/-- `binfield.bitQuoRem` for a non-zero divisor (the translated loop carries a `break` flag; the
    model's recursion has an extra branch that is unreachable for `b ≠ 0`; no bound on `b` needed) -/
theorem bitQuoRem_tie {a b : Nat} (ha : a < 2 ^ 64) (hb : b ≠ 0) :
    go_binfield_bitQuoRem a b = Bin.bitQuoRem a b := CodeTiesProofs.bitQuoRem ha hb

example : go_binfield_bitQuoRem 27 5 = (7, 0) := by decide
example : go_binfield_bitQuoRem 27 7 = (5, 0) := by decide

/-- `(*binfield.Element).reduce` for a modulus `m` of degree exactly `n` (parameter order of the
    translated function: `a.val`, `a.field.conwayPoly`, `a.field.extDeg`).  `n ≤ 63` is not needed:
    the loop is entered only if `n < bitLen v ≤ 64`. -/
theorem reduce_tie {v m n : Nat} (hv : v < 2 ^ 64) (hm1 : 2 ^ n ≤ m) (hm2 : m < 2 ^ (n + 1)) :
    go_binfield_Element_reduce v m n = Bin.reduce n m v := CodeTiesProofs.reduce hv hm1 hm2

example : (200 : Nat) < 2 ^ 64 ∧ 2 ^ 3 ≤ 11 ∧ 11 < 2 ^ (3 + 1) := by decide
example : go_binfield_Element_reduce 200 11 3 = 7 := by decide

/-! ### estimateMemory (for all naturals, by unfolding) -/

/-- `primefield.(*Field).estimateMemory` -/
theorem prime_estimateMemory_tie (p : Nat) :
    go_primefield_estimateMemory p = Prime.estimateMemory p := CodeTiesProofs.prime_estimateMemory p

/-- `extfield.(*Field).estimateMemory` against the literal expression of `Hist.stepT` (Model/Hist.lean,
    `computeMulTable` on an extension field: `elemSize := w64 (n * uintSize) / 8`,
    `est := w64 (wsub card 1 * w64 (1 + elemSize)) >>> 10`) -/
theorem ext_estimateMemory_tie (n card : Nat) :
    go_extfield_estimateMemory n card
      = w64 (wsub card 1 * w64 (1 + w64 (n * uintSize) / 8)) >>> 10 :=
  CodeTiesProofs.ext_estimateMemory n card

example : go_primefield_estimateMemory 65521 = 16769792 := by decide

end CodeTies
end Algobra
