/-
  Props/C18Tables5.lean — C18, finishing items.
  (1) `Ext.parse` returns valid elements, so `history_transparent_full_ext` needs no hypothesis
      about parsing; the corollary over `C01.define_ext_lawful` (fields returned by `Define.ext` on
      the real Conway database).
  (2) the driver-level operations of Model/Extra.lean.

  AXIOMS.  Everything except `history_transparent_define_ext` depends only on propext,
  Classical.choice, Quot.sound.  `history_transparent_define_ext` goes through
  `C01.define_ext_lawful` and inherits the `native_decide` certificates of C04 (the same axioms
  `Algobra.C04Check.…_native.native_decide.ax_1_1` as `C18Tables.define_ext_tables`).
-/
import Algobra.Proofs.Tables5
import Algobra.Props.C18Tables4

namespace Algobra.C18Tables
open Algobra Tables

/-! ## (j) extension fields without the parse hypothesis -/

/-- C18-T32. `ElementFromString` of an extension field (`Ext.parse` = `PolynomialFromString` in
    `F_p[a]/(g)`, then the result must be present) only returns valid elements. -/
theorem ext_parse_valid {p : Nat} [Fact p.Prime] {h32 : p - 1 < 2 ^ 32} {n : Nat} {g : List Nat}
    (M : ExtField.Modulus h32 n g) (s : String) (v : UPoly Nat)
    (hv : (extOps p n g).parse s = .ok v) : ExtField.Valid h32 n v :=
  Tables.ext_parse_valid M s v hv

/-- C18-T33 (`history_transparent_full_ext'`).  T31 without `hparse`. -/
theorem history_transparent_full_ext' {p n : Nat} {g : List Nat} [Fact p.Prime] {h32 : p - 1 < 2 ^ 32}
    {K : Type} [Field K] (L : Lawful (extOps p n g) K) (hL : Assemble.FieldFacts L p n)
    (hcanon : ∀ a, L.valid a → UPoly.Canon (primeOps p) a) (hq : p ^ n ≤ 2 ^ 63)
    (M : ExtField.Modulus h32 n g) (hv : ∀ a, L.valid a ↔ ExtField.Valid h32 n a)
    (tabs : Nat → Bool) (env : Env (UPoly Nat)) (henv : ∀ i, env.fld i = extOps p n g)
    (hring : ∀ i, (env.uring i).F = extOps p n g ∧
      ∀ m, (env.uring i).modulus = some m → ∀ c ∈ m, L.valid c)
    (hbring : ∀ i, (env.bring i).F = extOps p n g ∧
      ∀ gs, (env.bring i).ideal = some gs → ∀ f ∈ gs, ∀ t ∈ f, L.valid t.2)
    (ops : List Op) (hops : ∀ op ∈ ops, noRaw op = true) {s : St (UPoly Nat)}
    (hs : StoreOKAll (fun _ => L.valid) s) :
    runOps { fld := fun i => extOpsT p n g (tabs i),
             uring := fun i => { env.uring i with F := extOpsT p n g (tabs 0) },
             bring := fun i => { env.bring i with F := extOpsT p n g (tabs 0) } }
        (.ext p n g) s ops
      = runOps env (.ext p n g) s ops :=
  history_transparent_full_ext L hL hcanon hq M hv
    (fun str v h => (hv v).2 (Tables.ext_parse_valid M str v h)) tabs env henv hring hbring ops hops hs

/-- C18-T34 (`history_transparent_define_ext`).  For every field returned by `extfield.Define`
    over the real Conway database (`q ≤ 2^63`): the descriptor is `.ext p n g`, and ANY history
    without raw-data constructors over environments of that field (rings with valid moduli /
    ideal generators, store valid everywhere; validity = canonical lists of fewer than `n + 1`
    coefficients below `p`) gives the same stores and replies with logarithm tables as without.
    (Inherits the `native_decide` axioms of C04 through `C01.define_ext_lawful`.) -/
theorem history_transparent_define_ext {q : Nat} (hq : q ≤ 2 ^ 63) {d : FieldDesc}
    (h : Define.ext Gen.dbText q = .ok d) :
    ∃ (p n : Nat) (g : List Nat) (_ : Fact p.Prime) (h32 : p - 1 < 2 ^ 32),
      d = .ext p n g ∧ q = p ^ n ∧
      ∀ (tabs : Nat → Bool) (env : Env (UPoly Nat)), (∀ i, env.fld i = extOps p n g) →
        (∀ i, (env.uring i).F = extOps p n g ∧
          ∀ m, (env.uring i).modulus = some m → ∀ c ∈ m, ExtField.Valid h32 n c) →
        (∀ i, (env.bring i).F = extOps p n g ∧
          ∀ gs, (env.bring i).ideal = some gs → ∀ f ∈ gs, ∀ t ∈ f, ExtField.Valid h32 n t.2) →
        ∀ (ops : List Op), (∀ op ∈ ops, noRaw op = true) → ∀ (s : St (UPoly Nat)),
          StoreOKAll (fun _ => ExtField.Valid h32 n) s →
          runOps { fld := fun i => extOpsT p n g (tabs i),
                   uring := fun i => { env.uring i with F := extOpsT p n g (tabs 0) },
                   bring := fun i => { env.bring i with F := extOpsT p n g (tabs 0) } } d s ops
            = runOps env d s ops := by
  obtain ⟨p, n, g, hF, h32, hd, -, hqn, -, -, M, -, -, hI, L, hv, -, -, hL, -⟩ :=
    C01.define_ext_lawful (lt_of_le_of_lt hq (by norm_num)) h
  refine ⟨p, n, g, hF, h32, hd, hqn, ?_⟩
  intro tabs env henv hring hbring ops hops s hs
  have hval : L.valid = ExtField.Valid h32 n := funext fun a => propext (hv a)
  subst hd
  refine history_transparent_full_ext' L hL (fun a ha => ((hv a).1 ha).1.2) (hqn ▸ hq) M hv tabs env
    henv ?_ ?_ ops hops ?_
  · rw [hval]; exact hring
  · rw [hval]; exact hbring
  · rw [hval]; exact hs

/-! ## (k) the driver-level operations of Model/Extra.lean

  One theorem per function, all under `EnvAgreeB env env' V` (the hypothesis of T28) and a store
  valid everywhere: the tabled and the untabled environment give the SAME new store (and the same
  remembered generators, where the function carries them) and the SAME reply, and validity is kept.
  Where the function calls `step` (`anyOp quotientOp quotient2Op`) the proof uses T28a; where it
  calls `UPoly`/`BPoly` functions directly, the value-level lemmas.
  Not stated: a combined history theorem over `Driver.runHist`.  `Driver.lean` is the root of the
  executable (not a module of the `Algobra` library) and builds its environments from strings; a
  statement about it would need the driver to be importable.  Its loop only dispatches a line to
  `step` or to one of these functions, threading `(store, remembered generators)`; T28a and T35–T45
  are exactly the per-line invariants (`StoreOKAll` + valid remembered generators) such a fold needs. -/

section Extra
variable {α : Type} {env env' : Env α} {V : Nat → α → Prop} (h : EnvAgreeB env env' V)
include h

/-- C18-T35/T36. `escr@f`, `tcheck@f` -/
theorem escr_tcheck_transparent (st : St α) (f : Nat) :
    escrOp env' st f = escrOp env st f ∧ tcheckOp env' st f = tcheckOp env st f :=
  ⟨escrOp_agree h st f, tcheckOp_agree h st f⟩

/-- C18-T37. `eN=any…@f arg` (`hdec`: decoding the encoding of a valid element gives a valid
    element — only used by the slice forms, which go through the raw decoder) -/
theorem any_transparent (desc : FieldDesc) {st : St α} (hs : StoreOKAll V st)
    (hdec : ∀ i x v, V i x → (env.fld i).dec ((env.fld i).enc x) = some v → V i v)
    (dst idx : Nat) (op a0 : String) :
    anyOp env' desc st dst idx op a0 = anyOp env desc st dst idx op a0 ∧
      StoreOKAll V (anyOp env desc st dst idx op a0).1 := by
  obtain ⟨e, hv⟩ := anyOp_agree h desc (storeOK4_iff.2 hs) hdec dst idx op a0
  exact ⟨e, storeOK4_iff.1 hv⟩

/-- C18-T38. `quotient iN`, with the generators it remembers -/
theorem quotient_transparent (desc : FieldDesc) {stq : St α × Option (List (BPoly α))}
    (hs : StoreOKAll V stq.1) (hq : B.OptMM (V 0) stq.2) (n : Nat) :
    quotientOp env' desc stq n = quotientOp env desc stq n ∧
      StoreOKAll V (quotientOp env desc stq n).1.1 ∧ B.OptMM (V 0) (quotientOp env desc stq n).1.2 := by
  obtain ⟨e, hv, hg⟩ := quotientOp_agree h desc (storeOK4_iff.2 hs) hq n
  exact ⟨e, storeOK4_iff.1 hv, hg⟩

/-- C18-T39/T40. `quotient@1 iN`, `quotient@2 iN` (store unchanged) -/
theorem quotient12_transparent (desc : FieldDesc) {st : St α} (hs : StoreOKAll V st) (n : Nat) :
    quotient1Op env' st n = quotient1Op env st n ∧
      quotient2Op env' desc st n = quotient2Op env desc st n :=
  ⟨quotient1Op_agree h st n, quotient2Op_agree h desc (storeOK4_iff.2 hs) n⟩

/-- C18-T41. `qK=embed@3 src:r` into the remembered ring (valid generators) -/
theorem embedQ_transparent {st : St α} (hs : StoreOKAll V st) {gs : List (BPoly α)}
    (hgs : B.AllMM (V 0) gs) (dst src : Nat) (reduce : Bool) :
    embedQOp env' st gs dst src reduce = embedQOp env st gs dst src reduce ∧
      StoreOKAll V (embedQOp env st gs dst src reduce).1 := by
  obtain ⟨e, hv⟩ := embedQOp_agree h (storeOK4_iff.2 hs) hgs dst src reduce
  exact ⟨e, storeOK4_iff.1 hv⟩

/-- C18-T42/T43. `uquot@k j:gens` (store unchanged), `uireduce j:gens pK` — generators with
    valid coefficients -/
theorem uquot_uireduce_transparent {st : St α} (hs : StoreOKAll V st) (k j : Nat)
    {gens : List (UPoly α)} (hg : AllVV (V 0) gens) :
    uquotOp env' st k j gens = uquotOp env st k j gens ∧
      uireduceOp env' st j gens k = uireduceOp env st j gens k ∧
      StoreOKAll V (uireduceOp env st j gens k).1 := by
  obtain ⟨e, hv⟩ := uireduceOp_agree h (storeOK4_iff.2 hs) j hg k
  exact ⟨uquotOp_agree h st k j hg, e, storeOK4_iff.1 hv⟩

/-- C18-T44. `ireduce iN qK` -/
theorem ireduce_transparent {st : St α} (hs : StoreOKAll V st) (n k : Nat) :
    ireduceOp env' st n k = ireduceOp env st n k ∧ StoreOKAll V (ireduceOp env st n k).1 := by
  obtain ⟨e, hv⟩ := ireduceOp_agree h (storeOK4_iff.2 hs) n k
  exact ⟨e, storeOK4_iff.1 hv⟩

/-- C18-T45. `qK=spoly qA qB` -/
theorem spoly_transparent {st : St α} (hs : StoreOKAll V st) (dst a b : Nat) :
    spolyOp env' st dst a b = spolyOp env st dst a b ∧ StoreOKAll V (spolyOp env st dst a b).1 := by
  obtain ⟨e, hv⟩ := spolyOp_agree h (storeOK4_iff.2 hs) dst a b
  exact ⟨e, storeOK4_iff.1 hv⟩

end Extra

/-- non-vacuity: the tabled/untabled GF(7) environments of T27 satisfy `EnvAgreeB` -/
example : EnvAgreeB env7b env7bT (fun _ a => a < 7) :=
  envAgreeB_prime (by norm_num) (by norm_num) (fun _ => (true, true)) env7b (fun _ => rfl)
    (fun i => ⟨rfl, fun m hm => by
      simp only [env7b, env7] at hm
      split at hm
      · cases hm; decide
      · cases hm⟩)
    (fun i => ⟨rfl, fun gs hgs => by
      simp only [env7b] at hgs
      split at hgs
      · cases hgs; decide
      · cases hgs⟩)

/-- `spoly` of `3X²Y + 4Y + 1` and `XY + 3` after the first ten operations of `ops7b` (tables
    requested), evaluated in both environments -/
example : (spolyOp env7bT (runOps env7bT (.prime 7) {} (ops7b.take 10)).1 20 0 1).2
      = "ok 0#1:0:4/0:1:6/0:0:5" ∧
    (spolyOp env7b (runOps env7b (.prime 7) {} (ops7b.take 10)).1 20 0 1).2
      = "ok 0#1:0:4/0:1:6/0:0:5" := by
  decide +kernel

end Algobra.C18Tables
