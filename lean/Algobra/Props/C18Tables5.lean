/-
  Props/C18Tables5.lean — C18, finishing items.
  (1) `Ext.parse` returns valid elements, so `history_transparent_full_ext` needs no hypothesis
      about parsing; the corollary over `C01.define_ext_lawful` (fields returned by `Define.ext` on
      the real Conway database).
  (2) the driver-level operations of Model/Extra.lean.

  AXIOMS.  Everything except `history_transparent_define_ext` depends only on propext,
  Classical.choice, Quot.sound.  `history_transparent_define_ext` goes through
  `C01.define_ext_lawful` and inherits the `native_decide` certificates of C04 (the same axioms
  `Algobra.C04Check.…_native.native_decide.ax_1_1` as `C18Tables.define_ext_tables`).
-/
import Algobra.Proofs.Tables5
import Algobra.Props.C18Tables4

namespace Algobra.C18Tables
open Algobra Tables

/-! ## (j) extension fields without the parse hypothesis -/

/-- C18-T32. `ElementFromString` of an extension field (`Ext.parse` = `PolynomialFromString` in
    `F_p[a]/(g)`, then the result must be present) only returns valid elements. -/
theorem ext_parse_valid {p : Nat} [Fact p.Prime] {h32 : p - 1 < 2 ^ 32} {n : Nat} {g : List Nat}
    (M : ExtField.Modulus h32 n g) (s : String) (v : UPoly Nat)
    (hv : (extOps p n g).parse s = .ok v) : ExtField.Valid h32 n v :=
  Tables.ext_parse_valid M s v hv

/-- C18-T33 (`history_transparent_full_ext'`).  T31 without `hparse`. -/
theorem history_transparent_full_ext' {p n : Nat} {g : List Nat} [Fact p.Prime] {h32 : p - 1 < 2 ^ 32}
    {K : Type} [Field K] (L : Lawful (extOps p n g) K) (hL : Assemble.FieldFacts L p n)
    (hcanon : ∀ a, L.valid a → UPoly.Canon (primeOps p) a) (hq : p ^ n ≤ 2 ^ 63)
    (M : ExtField.Modulus h32 n g) (hv : ∀ a, L.valid a ↔ ExtField.Valid h32 n a)
    (tabs : Nat → Bool) (env : Env (UPoly Nat)) (henv : ∀ i, env.fld i = extOps p n g)
    (hring : ∀ i, (env.uring i).F = extOps p n g ∧
      ∀ m, (env.uring i).modulus = some m → ∀ c ∈ m, L.valid c)
    (hbring : ∀ i, (env.bring i).F = extOps p n g ∧
      ∀ gs, (env.bring i).ideal = some gs → ∀ f ∈ gs, ∀ t ∈ f, L.valid t.2)
    (ops : List Op) (hops : ∀ op ∈ ops, noRaw op = true) {s : St (UPoly Nat)}
    (hs : StoreOKAll (fun _ => L.valid) s) :
    runOps { fld := fun i => extOpsT p n g (tabs i),
             uring := fun i => { env.uring i with F := extOpsT p n g (tabs 0) },
             bring := fun i => { env.bring i with F := extOpsT p n g (tabs 0) } }
        (.ext p n g) s ops
      = runOps env (.ext p n g) s ops :=
  history_transparent_full_ext L hL hcanon hq M hv
    (fun str v h => (hv v).2 (Tables.ext_parse_valid M str v h)) tabs env henv hring hbring ops hops hs

/-- C18-T34 (`history_transparent_define_ext`).  For every field returned by `extfield.Define`
    over the real Conway database (`q ≤ 2^63`): the descriptor is `.ext p n g`, and ANY history
    without raw-data constructors over environments of that field (rings with valid moduli /
    ideal generators, store valid everywhere; validity = canonical lists of fewer than `n + 1`
    coefficients below `p`) gives the same stores and replies with logarithm tables as without.
    (Inherits the `native_decide` axioms of C04 through `C01.define_ext_lawful`.) -/
theorem history_transparent_define_ext {q : Nat} (hq : q ≤ 2 ^ 63) {d : FieldDesc}
    (h : Define.ext Gen.dbText q = .ok d) :
    ∃ (p n : Nat) (g : List Nat) (_ : Fact p.Prime) (h32 : p - 1 < 2 ^ 32),
      d = .ext p n g ∧ q = p ^ n ∧
      ∀ (tabs : Nat → Bool) (env : Env (UPoly Nat)), (∀ i, env.fld i = extOps p n g) →
        (∀ i, (env.uring i).F = extOps p n g ∧
          ∀ m, (env.uring i).modulus = some m → ∀ c ∈ m, ExtField.Valid h32 n c) →
        (∀ i, (env.bring i).F = extOps p n g ∧
          ∀ gs, (env.bring i).ideal = some gs → ∀ f ∈ gs, ∀ t ∈ f, ExtField.Valid h32 n t.2) →
        ∀ (ops : List Op), (∀ op ∈ ops, noRaw op = true) → ∀ (s : St (UPoly Nat)),
          StoreOKAll (fun _ => ExtField.Valid h32 n) s →
          runOps { fld := fun i => extOpsT p n g (tabs i),
                   uring := fun i => { env.uring i with F := extOpsT p n g (tabs 0) },
                   bring := fun i => { env.bring i with F := extOpsT p n g (tabs 0) } } d s ops
            = runOps env d s ops := by
  obtain ⟨p, n, g, hF, h32, hd, -, hqn, -, -, M, -, -, hI, L, hv, -, -, hL, -⟩ :=
    C01.define_ext_lawful (lt_of_le_of_lt hq (by norm_num)) h
  refine ⟨p, n, g, hF, h32, hd, hqn, ?_⟩
  intro tabs env henv hring hbring ops hops s hs
  have hval : L.valid = ExtField.Valid h32 n := funext fun a => propext (hv a)
  subst hd
  refine history_transparent_full_ext' L hL (fun a ha => ((hv a).1 ha).1.2) (hqn ▸ hq) M hv tabs env
    henv ?_ ?_ ops hops ?_
  · rw [hval]; exact hring
  · rw [hval]; exact hbring
  · rw [hval]; exact hs

end Algobra.C18Tables
