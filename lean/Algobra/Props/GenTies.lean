/-
  Props/GenTies.lean — ties between the REGENERATED constants of `Algobra/Gen/Consts.lean`
  (extracted from the Go working tree by /verif/extract on every run) and the literals the
  model hard-codes.  Every theorem is closed by `rfl`/`decide`: an edit of the Go source that
  changes one of these data changes `Gen/Consts.lean`, and the corresponding theorem stops
  compiling.  Used by C03 (Define guards), C15 (patterns), C17 (error kinds), C18 (table limits).
-/
import Algobra.Gen.Consts
import Algobra.Model.Errors
import Algobra.Model.Field
import Algobra.Model.Ext
import Algobra.Model.BPoly
import Algobra.Model.Conway

namespace Algobra.GenTies
open Algobra Algobra.Regex

/-! ### error kinds (errors/errors.go, `iota` order) — model: `Algobra.Kind`, `kindNamesInOrder` -/

theorem kindNames_eq : Gen.kindNames = Algobra.kindNamesInOrder := by decide

/-- the constructor order of the model's `Kind` is the `iota` order of the Go constants
    (index 0 is `Inherit`, which the model represents by `Err.wrapInherit`) -/
theorem kindNames_toString :
    Gen.kindNames = "Inherit" :: [Kind.input, .inputValue, .inputIncompatible, .inputTooLarge,
      .arithmeticIncompat, .parsing, .conversion, .overflow, .internal].map Kind.toString := by
  decide

/-! ### table memory limits (C18) — model: `Hist.stepT` reads `Gen.primeDefaultMaxMem`,
    `Gen.extDefaultMaxMem` directly; `Prime.computeTables` takes the limit as an argument -/

theorem primeDefaultMaxMem_eq : Gen.primeDefaultMaxMem = 524288 := by decide
theorem extDefaultMaxMem_eq : Gen.extDefaultMaxMem = 524288 := by decide
/-- 524288 KiB = 1 << 19 = half a GiB -/
theorem primeDefaultMaxMem_pow : Gen.primeDefaultMaxMem = 2 ^ 19 := by decide
theorem extDefaultMaxMem_pow : Gen.extDefaultMaxMem = 2 ^ 19 := by decide

/-! ### the guard conditions of the `Define` functions, in source order (C03) -/

/-- model: `Prime.define` (Model/Field.lean) = `Define.prime` —
    `card = 0` ⇒ InputValue; `card - 1 ≥ 1 <<< (uintSize/2)` ⇒ InputTooLarge;
    `factorizePrimePower` error propagated; `n ≠ 1` ⇒ InputValue. -/
theorem primeDefineConds_eq :
    Gen.primeDefineConds =
      ["card == 0", "card-1 >= 1<<(bits.UintSize/2)", "err != nil", "n != 1"] := by decide

/-- model: `Define.bin` (Model/Conway.lean) —
    `card = 0`; `factorizePrimePower` error; `char ≠ 2` ⇒ InputValue;
    `extDeg > uintSize/2` ⇒ InputTooLarge; `Conway.lookupIn` error. -/
theorem binDefineConds_eq :
    Gen.binDefineConds =
      ["card == 0", "err != nil", "char != 2", "extDeg > bits.UintSize/2", "err != nil"] := by
  decide

/-- model: `Define.ext` (Model/Conway.lean) —
    `card = 0`; `factorizePrimePower` error; `Prime.define char` error; `Conway.lookupIn` error;
    `UPoly.ofNats` (PolynomialFromUnsigned) error; NewIdeal/Quotient error (the last two are the
    single `none ⇒ .internal` branch of the model). -/
theorem extDefineConds_eq :
    Gen.extDefineConds =
      ["card == 0", "err != nil", "err != nil", "err != nil", "err != nil", "err != nil"] := by
  decide

/-- model: `Define.any` (Model/Conway.lean) — `char = 2` ⇒ `Define.bin`;
    `extDeg = 1` ⇒ `Define.prime`; otherwise `Define.ext`. -/
theorem ffDefineCases_eq :
    Gen.ffDefineCases =
      ["char == 2 => return binfield.Define(card);",
       "char != 2 && extDeg == 1 => return primefield.Define(card);",
       "default => return extfield.Define(card);"] := by decide

/-! ### table size estimates (C18) -/

/-- model: `Prime.estimateMemory p = w64 (w64 (p * w64 (p+1)) * (uintSize/16)) >>> 10`
    (Model/Field.lean) -/
theorem primeEstimateMemory_eq :
    Gen.primeEstimateMemory =
      ["b := f.char * (f.char + 1) * (bits.UintSize / 16)", "return b >> 10"] := by decide

/-- model: the `.ext` branch of `stepT` (Model/Hist.lean):
    `elemSize := w64 (n * uintSize) / 8`, `est := w64 (wsub (Ext.card p n) 1 * w64 (1 + elemSize)) >>> 10` -/
theorem extEstimateMemory_eq :
    Gen.extEstimateMemory =
      ["const keySize uint = 1", "elemSize := f.extDeg * bits.UintSize / 8",
       "b := (f.Card() - 1) * (keySize + elemSize)", "return b >> 10"] := by decide

/-! ### default variable names (source text of the Go constants, quotes included) -/

/-- model: default argument `varName := "a"` of `binOps` (Model/Ext.lean) -/
theorem binDefaultVarName_eq : Gen.binDefaultVarName = "\"a\"" := by decide
/-- model: the driver's default `UPoly.Ring.varName := "X"` -/
theorem uniDefaultVarName_eq : Gen.uniDefaultVarName = "\"X\"" := by decide
/-- model: the driver's default `BPoly.Ring.varNames := ("X", "Y")` -/
theorem bivDefaultVarNames_eq : Gen.bivDefaultVarNames = "[2]string{\"X\", \"Y\"}" := by decide
/-- model: `Ext.ring` (`varName := "a"`), `extOps.toStr`/`.regex` (Model/Ext.lean), and the ring `R`
    of `Define.ext` (Model/Conway.lean): extfield calls `SetVarName("a")` on its polynomial ring -/
theorem extVarNameCall_eq : Gen.extVarNameCall = ["\"a\""] := by decide

/-- the model's hard-coded names agree with the regenerated source texts (after removing the
    Go string quotes) -/
theorem binDefaultVarName_model : "\"" ++ "a" ++ "\"" = Gen.binDefaultVarName := by decide
theorem extVarName_model (p : Nat) (g : List Nat) :
    ["\"" ++ (Ext.ring p g).varName ++ "\""] = Gen.extVarNameCall := by
  show ["\"" ++ "a" ++ "\""] = Gen.extVarNameCall
  decide

/-! ### Conway database lookup pattern (C03) -/

/-- model: `Conway.lookupIn` (Model/Conway.lean) searches the text for the first
    `"[" ++ toString p ++ "," ++ toString n ++ ",["` followed by `[^]]*]]` (`Conway.closeGroup`),
    which is what the unanchored pattern `\[%d,%d,\[([^]]*)\]\]` formatted with `char`, `extDeg` finds. -/
theorem conwayPatternCall_eq :
    Gen.conwayPatternCall = ["`\\[%d,%d,\\[([^]]*)\\]\\]` ; char ; extDeg"] := by decide

/-! ### regular-expression part lists (C15, C17) -/

/-- model: `Prime.parse` (Model/Field.lean), written directly: an optional `-` followed by one or
    more digits, matched against the whole string (`Prime.isDigits` on the body). -/
theorem primeElemPattern_eq : Gen.primeElemPattern = [.lit "(-)?([0-9]+)"] := by decide

/-- model: `Bin.parse` (Model/Ext.lean) assembles exactly this list (environment:
    `regexp.QuoteMeta(f.varName)` ↦ `quoteMeta varName`) and reads groups 1 and 2. -/
theorem binElemPattern_eq :
    Gen.binElemPattern =
      [.lit "\\s*(?:^|\\+|-)\\s*", .lit "(", .lit "(?:0|1)", .lit "|",
       .expr "regexp.QuoteMeta(f.varName)", .lit "(?:\\^?([0-9]+))?", .lit ")\\s*"] := by decide

/-- model: `UPoly.stringToMap` (Model/Ext.lean) — environment `field.RegexElement(true)` ↦ `F.regex true`,
    `regexp.QuoteMeta(*varName)` ↦ `quoteMeta varName`; groups sign, coef, var, deg = 1..4. -/
theorem uniPattern_eq :
    Gen.uniPattern =
      [.lit "\\s*(?P<sign>\\+|-)?\\s*", .lit "(?P<coef>", .expr "field.RegexElement(true)",
       .lit ")?", .lit "\\s*\\*?\\s*", .lit "(?:", .lit "(?P<var>(?i:",
       .expr "regexp.QuoteMeta(*varName)", .lit "))", .lit "\\^?(?P<deg>[0-9]*)",
       .lit ")?\\s*"] := by decide

/-- model: `BPoly.stringToMap` (Model/BPoly.lean) — environment
    `qr.baseField.RegexElement(true)` ↦ `F.regex true`, `xOrY` ↦ assembled `Gen.bivXOrY`. -/
theorem bivPattern_eq :
    Gen.bivPattern =
      [.lit "(?P<sign>^|\\+|-)\\s*", .lit "(?:", .lit "(?P<coef>",
       .expr "qr.baseField.RegexElement(true)", .lit ")?", .lit "\\s*\\*?\\s*",
       .lit "(?P<var1>(?i:", .expr "xOrY", .lit "))\\^?(?P<deg1>[0-9]*)", .lit "(?:",
       .lit "\\s*\\*?\\s*", .lit "(?P<var2>(?i:", .expr "xOrY", .lit "))?\\^?(?P<deg2>[0-9]*)",
       .lit ")?\\s*", .lit "|", .lit "(?P<coefOnly>", .expr "qr.baseField.RegexElement(true)",
       .lit ")\\s*", .lit ")"] := by decide

/-- model: `BPoly.stringToMap` (Model/BPoly.lean), `xOrYenv` -/
theorem bivXOrY_eq :
    Gen.bivXOrY =
      [.expr "regexp.QuoteMeta((*varNames)[0])", .lit "|",
       .expr "regexp.QuoteMeta((*varNames)[1])"] := by decide

/-! `RegexElement(requireParens)` of binfield — model: `binRegexElement` (Model/Ext.lean) via
    `regexElement` with `varExpr := "f.VarName()"` -/

theorem binRegex_termPattern_eq :
    Gen.binRegex_termPattern =
      [.lit "(?:[0-9]*(?:", .expr "f.VarName()", .lit "(?:\\^?[0-9]+)?)|[0-9]+)"] := by decide
theorem binRegex_moreTerms_eq :
    Gen.binRegex_moreTerms =
      [.lit "(?:", .lit "\\s*(?:\\+|-)\\s*", .expr "termPattern", .lit ")*"] := by decide
theorem binRegex_parens_eq :
    Gen.binRegex_parens =
      [.lit "(?:\\(\\s*", .expr "termPattern", .expr "moreTerms", .lit "\\s*\\)|",
       .expr "termPattern", .lit ")"] := by decide
theorem binRegex_noParens_eq :
    Gen.binRegex_noParens = [.expr "termPattern", .expr "moreTerms"] := by decide

/-! `RegexElement(requireParens)` of extfield — model: `extRegexElement` (Model/Ext.lean) via
    `regexElement` with `varExpr := "f.polyRing.VarName()"` -/

theorem extRegex_termPattern_eq :
    Gen.extRegex_termPattern =
      [.lit "(?:[0-9]*(?:", .expr "f.polyRing.VarName()", .lit "(?:\\^?[0-9]+)?)|[0-9]+)"] := by
  decide
theorem extRegex_moreTerms_eq :
    Gen.extRegex_moreTerms =
      [.lit "(?:", .lit "\\s*(?:\\+|-)\\s*", .expr "termPattern", .lit ")*"] := by decide
theorem extRegex_parens_eq :
    Gen.extRegex_parens =
      [.lit "(?:\\(\\s*", .expr "termPattern", .expr "moreTerms", .lit "\\s*\\)|",
       .expr "termPattern", .lit ")"] := by decide
theorem extRegex_noParens_eq :
    Gen.extRegex_noParens = [.expr "termPattern", .expr "moreTerms"] := by decide

/-- `RegexElement` of primefield — model: `(primeOps p).regex` hard-codes `"[0-9]*"`;
    `primeRegexElement` (Model/Ext.lean) assembles it from this list. -/
theorem priRegex_eq : Gen.priRegex = [.lit "[0-9]*"] := by decide

/-- the hard-coded `regex` field of `primeOps` -/
theorem primeOps_regex_tie (p : Nat) (b : Bool) : (primeOps p).regex b = "[0-9]*" := rfl

/-- … is the string the regenerated part list assembles to (no environment needed) -/
theorem primeOps_regex_assemble (p : Nat) (b : Bool) :
    assemble (fun _ => none) Gen.priRegex = some ((primeOps p).regex b) := by
  show assemble (fun _ => none) Gen.priRegex = some "[0-9]*"
  decide

theorem primeRegexElement_eq (p : Nat) (b : Bool) : primeRegexElement = (primeOps p).regex b := by
  show primeRegexElement = "[0-9]*"
  decide

/-! ### pattern assembly is total

  The parsers assemble their pattern from the regenerated part lists through an environment that
  resolves the non-literal operands by their Go source text.  The following theorems show that with
  the current part lists every operand is resolved, for every variable name and every field record:
  the `none` ("unsupported pattern") branches of `Bin.parse`, `UPoly.stringToMap`,
  `BPoly.stringToMap`, `binRegexElement`, `extRegexElement` can only be reached through
  `Regex.compile`.  A renamed operand in the Go source changes `Gen/Consts.lean` and breaks them. -/

theorem bin_pattern_assembles (v : String) :
    assemble (fun e => if e == "regexp.QuoteMeta(f.varName)" then some (quoteMeta v) else none)
        Gen.binElemPattern =
      some ("\\s*(?:^|\\+|-)\\s*" ++ ("(" ++ ("(?:0|1)" ++ ("|" ++ (quoteMeta v ++
        ("(?:\\^?([0-9]+))?" ++ ")\\s*")))))) := by
  simp [assemble, Gen.binElemPattern]

theorem binRegexElement_eq (v : String) (rp : Bool) :
    binRegexElement v rp =
      let term := "(?:[0-9]*(?:" ++ (v ++ "(?:\\^?[0-9]+)?)|[0-9]+)")
      let more := "(?:" ++ ("\\s*(?:\\+|-)\\s*" ++ (term ++ ")*"))
      if rp then "(?:\\(\\s*" ++ (term ++ (more ++ ("\\s*\\)|" ++ (term ++ ")")))) else term ++ more := by
  cases rp <;>
  simp [binRegexElement, regexElement, assemble, Gen.binRegex_termPattern, Gen.binRegex_moreTerms,
    Gen.binRegex_noParens, Gen.binRegex_parens]

theorem extRegexElement_eq (v : String) (rp : Bool) :
    extRegexElement v rp =
      let term := "(?:[0-9]*(?:" ++ (v ++ "(?:\\^?[0-9]+)?)|[0-9]+)")
      let more := "(?:" ++ ("\\s*(?:\\+|-)\\s*" ++ (term ++ ")*"))
      if rp then "(?:\\(\\s*" ++ (term ++ (more ++ ("\\s*\\)|" ++ (term ++ ")")))) else term ++ more := by
  cases rp <;>
  simp [extRegexElement, regexElement, assemble, Gen.extRegex_termPattern, Gen.extRegex_moreTerms,
    Gen.extRegex_noParens, Gen.extRegex_parens]

theorem uni_pattern_assembles {α} (F : FOps α) (v : String) :
    assemble (fun e =>
        if e == "field.RegexElement(true)" then some (F.regex true)
        else if e == "regexp.QuoteMeta(*varName)" then some (quoteMeta v) else none) Gen.uniPattern =
      some ("\\s*(?P<sign>\\+|-)?\\s*" ++ ("(?P<coef>" ++ (F.regex true ++ (")?" ++ ("\\s*\\*?\\s*" ++
        ("(?:" ++ ("(?P<var>(?i:" ++ (quoteMeta v ++ ("))" ++ ("\\^?(?P<deg>[0-9]*)" ++
        ")?\\s*")))))))))) := by
  simp [assemble, Gen.uniPattern]

theorem biv_xOrY_assembles (x y : String) :
    assemble (fun e =>
      if e == "regexp.QuoteMeta((*varNames)[0])" then some (quoteMeta x)
      else if e == "regexp.QuoteMeta((*varNames)[1])" then some (quoteMeta y) else none) Gen.bivXOrY =
      some (quoteMeta x ++ ("|" ++ quoteMeta y)) := by
  simp [assemble, Gen.bivXOrY]

theorem biv_pattern_assembles {α} (F : FOps α) (xy : String) :
    assemble (fun e =>
        if e == "qr.baseField.RegexElement(true)" then some (F.regex true)
        else if e == "xOrY" then some xy else none) Gen.bivPattern =
      some ("(?P<sign>^|\\+|-)\\s*" ++ ("(?:" ++ ("(?P<coef>" ++ (F.regex true ++ (")?" ++
        ("\\s*\\*?\\s*" ++ ("(?P<var1>(?i:" ++ (xy ++ ("))\\^?(?P<deg1>[0-9]*)" ++ ("(?:" ++
        ("\\s*\\*?\\s*" ++ ("(?P<var2>(?i:" ++ (xy ++ ("))?\\^?(?P<deg2>[0-9]*)" ++ (")?\\s*" ++
        ("|" ++ ("(?P<coefOnly>" ++ (F.regex true ++ (")\\s*" ++ ")"))))))))))))))))))) := by
  simp [assemble, Gen.bivPattern]

end Algobra.GenTies
